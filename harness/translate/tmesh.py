#!/usr/bin/env python3
"""T-mesh: regenerate the MESH ARRAYS (lengths and entries of `cellsize`, `cellcenters`, `facecenters`, `dims`,
`cell_numbers`) of PyFVTool from the Python source of the mesh constructors.

  python3 harness/translate/tmesh.py lean/PyFV/Gen/MeshGen.lean

writes  <out>                        Lean definitions (namespace PyFV.Gen.MeshGen); D = 1, 2, 3 is the `_mesh_Dd_param`
                                     that builds the arrays, F the calling form: `nl` = (N.., L..), `faces` = face arrays
                                       F<D>_<which>_<a>_len  nx..          LENGTH of `<mesh>.<which>._<a>`   (a = x, y, z;
                                       F<D>_<which>_<a>      nx.. in.. p   its ENTRY at the 0-based position p
                                                                           which = cellsize, cellcenters, facecenters)
                                       F<D>_dims             nx..          `<mesh>.dims`
                                       F<D>_nmin                           smallest cell count per axis for which no index
                                                                           / `int_range` guard of the source fails
                                       cell_numbers_<D>d(_shape)           `cell_numbers()` (C order is numpy's `reshape`)
                                       class_table                         grid class ↦ (`_mesh_Dd_param` its `__init__`
                                                                           calls, `dim` given to `_check_mesh_nargs`,
                                                                           public label ↦ private array, from the
                                                                           PROPERTIES of `CellProp` run on the labels)
                                       cell_numbers_table, nargs_accepted, ctor_arities, direct_wiring, untranslated
        <dir>/meshgen_status.json    {item: "ok" | "untranslated: reason"}
and prints the status as one JSON line.  stdlib only; nothing is imported from the package; the source root is
$VERIF_REPO (default /repo).  PyFV/Props/GenEqMesh.lean proves every generated length / entry equal to the model
(`mkAxisFaces`, `mkAxisNL` of PyFV/Model/Geom.lean): this is what justifies the leaf table of tnum.py.

Method: the `__init__` of each of the nine grid classes is EXECUTED SYMBOLICALLY, end to end (through
`_check_mesh_nargs`, `_mesh_Dd_param`, `_facelocation_to_cellsize`, `int_range` of utilities.py, `CellSize(...)` =
`CellProp.__init__`, `super().__init__` = `MeshStructure.__init__`), once per calling form, with
  face form   D arguments; argument a is an array `f_a` with `n_a + 1` entries (n_a ≥ 0 symbolic)
  (N, L) form 2D arguments; the integers `n_a`, then the reals `L_a`
  direct form six given objects, the first an ndarray (`__init__(dims, cellsize, ...)`: wiring only)
and the attributes of the finished object are read off.  The arrays of the first class of each dimension (Grid1D,
Grid2D, Grid3D) are emitted; every other class must produce IDENTICAL arrays (else it is untranslated and missing from
`class_table`).
  values      symbolic integer (tnum.Poly in the cell counts); real scalar (expression over L_a, f_a[index], casts);
              1-D array = list of BLOCKS (symbolic length, position ↦ entry), integer or real; ghosted cell-number grid;
              integer list (`np.array([Nx, Ny], dtype=int)`), tuple, list, dict of strings, object with attributes
  helpers     module functions and methods are CALLED by this interpreter anyway (own argument binding, last binding of
              the name in module order, a decorated definition is refused), so an extracted helper such as
              `def _midpoints(f): return 0.5*(f[1:]+f[0:-1])` is executed like `_facelocation_to_cellsize`
  statements  assignments (names, tuples of names, `self.attr`), `if` with a test decided from the calling form
              (`len(args) == 2`, `isinstance(args[0], np.ndarray)`, `len(args) not in (dim, 2*dim)`, comparisons of
              symbolic integers), `raise`, `return`, calls of module functions / methods / classes / `super()`; an
              `if` whose test is NOT decidable is accepted only when its body is nothing but `warn(...)`
  expressions + - * / unary minus, constants, `x.size`, `len`, indexing with integers (constants, also negative, or symbolic: VALIDITY
              recorded in `_nmin`), slices (lengths computed; `a[1:]` of n+1 entries has n), `np.ones`, `np.zeros`,
              `np.full`, `np.array`, `np.hstack` (scalars and 1-D blocks), `np.concatenate` (1-D blocks only: numpy refuses
              0-d), `np.diff`, `np.arange` / `np.linspace` with INTEGER bounds / count, `np.copy`, `.reshape` of an
              integer range to the ghosted shape; a division by a symbolic integer requires it to be ≥ 1 (`_nmin`)
  LENGTHS     every array length must come out as a polynomial in the cell counts.  A construct whose length is not
              a symbolic integer (`np.arange(0.0, W+dx, dx)`: the number of entries depends on floating-point
              rounding) makes the array `untranslated: length of ... is not determined`
  an assignment whose right-hand side is not understood binds an UNKNOWN value (only if it cannot mutate a tracked
  array); whatever is computed from it is unknown; an unknown array that reaches the mesh object is `untranslated`
  (this is how `corners` / `edges`, which tbc.py derives, pass through).
  INERT statements (tinert.py: print / warnings.warn / logging calls and asserts on PURE expressions, `pass`,
  `if <pure>:` over such statements, validation guards `if <pure>: raise E(...)`, assignments to locals that only such
  statements read) are first executed like any other statement (so a `warn`, a guard whose test the calling form decides,
  `if a > b: raise` on symbolic integers recorded in `_nmin`, ... behave as before); when the interpreter does NOT
  understand an inert statement (or does not decide its test) it is skipped and `_nmin` is restored (e.g.
  `if not np.all(np.diff(f) > 0): raise ValueError(...)`, `print(f"{Nx=}")`).  Extra parameters with a default are
  bound by the interpreter's own argument binding.  The test is purely syntactic (closed list of
  side-effect-free functions, no method call, no store), so a skipped statement cannot write.
ANYTHING else ⇒ untranslated (no definition, name in `untranslated`, the theorems of GenEqMesh.lean stop compiling).
Trusted (not derived): numpy semantics of the constructs above (C order of `reshape`, `np.arange(a, b)` = a..b-1 for
integers, `np.hstack` = concatenation), Python's argument binding.
"""
import ast, sys, os, json
from fractions import Fraction

sys.path.insert(0, os.path.dirname(os.path.abspath(__file__)))
import tnum                                                            # noqa: E402
import tinert                                                          # noqa: E402
from tnum import Bad, Poly, ONE, AXES, KIND, MeshInfo, write_if_changed, rnum, strip_outer   # noqa: E402

ZERO = Poly()
NDIM = {c: (1 if "1D" in c else 2 if "2D" in c else 3) for c in KIND}
WHICH = ["cellsize", "cellcenters", "facecenters"]
PRIVS = ["_x", "_y", "_z"]
PUBLIC = ["x", "y", "z", "r", "theta", "phi"]
ATTRS = ["dims", "cellsize", "cellcenters", "facecenters", "corners", "edges"]


class Raised(Exception):
    """the interpreted code raises"""

    def __init__(self, exc):
        super().__init__(exc)
        self.exc = exc


class Undec(Exception):
    """a test that the calling form does not decide"""

    def __init__(self, why, need=None):
        super().__init__(why)
        self.why, self.need = why, need        # need: Poly that must be ≥ 0 for the test to be FALSE


# ---------------------------------------------------------------------------------------------------------
# values
# ---------------------------------------------------------------------------------------------------------
class IntE:
    """integer element / index: pc * p + poly   (p = 0-based position in the array that is being described)"""

    def __init__(self, pc, poly):
        self.pc, self.poly = pc, poly

    def __add__(self, o):
        return IntE(self.pc + o.pc, self.poly + o.poly)

    def __neg__(self):
        return IntE(-self.pc, -self.poly)

    def __sub__(self, o):
        return self + (-o)

    def times(self, poly):
        if self.pc != 0 and not poly.is_const():
            raise Bad("integer array times a symbolic integer")
        return IntE(self.pc * (poly.constval() if self.pc else 0), self.poly * poly)


def ipoly(poly):
    return IntE(0, poly)


class Sc:
    """real scalar"""

    def __init__(self, e):
        self.e = e


class V:
    """1-D array: blocks [(length Poly, fn: IntE local position -> element)]; kind 'real' | 'int'"""

    def __init__(self, blocks, kind="real"):
        self.blocks, self.kind = list(blocks), kind

    def length(self):
        p = Poly()
        for L, _ in self.blocks:
            p = p + L
        return p

    def single(self, what):
        if len(self.blocks) != 1:
            raise Bad(f"{what} of a concatenation of {len(self.blocks)} blocks")
        return self.blocks[0]


class Grid:
    """integer range reshaped (C order) to `shape`; entry(flat) = base element at flat position"""

    def __init__(self, shape, base):
        self.shape, self.base = shape, base


class IntList:
    def __init__(self, items):
        self.items = items


class TupV:
    def __init__(self, items):
        self.items = list(items)


class ListV(TupV):
    pass


class DictV:
    def __init__(self, d):
        self.d = d


class Obj:
    def __init__(self, cls):
        self.cls, self.attrs = cls, {}


class Given:
    """an object handed to the direct form of `__init__`"""

    def __init__(self, i, isarray):
        self.i, self.isarray = i, isarray


class Unknown:
    def __init__(self, reason):
        self.reason = reason


class SuperRef:
    def __init__(self, after, obj):
        self.after, self.obj = after, obj


class TypeRef:
    def __init__(self, name):
        self.name = name


class Method:
    def __init__(self, obj, owner, fn):
        self.obj, self.owner, self.fn = obj, owner, fn


SAFE = (Poly, IntList, Unknown, Grid, bool, str, type(None), DictV)


def is_safe(v):
    return isinstance(v, SAFE) or (isinstance(v, V) and v.kind == "int")


def real_elem(e, kind):
    return ("cast", e) if kind == "int" else e


def to_real(v):
    """scalar value -> real expression"""
    if isinstance(v, Poly):
        return ("cast", ipoly(v))
    if isinstance(v, Sc):
        return v.e
    raise Bad("operand is not a number")


# ---------------------------------------------------------------------------------------------------------
# decisions about symbolic integers
# ---------------------------------------------------------------------------------------------------------
def shifted(poly, mins):
    q = Poly()
    for m, c in poly.t.items():
        term = Poly.const(c)
        for a, e in zip(AXES, m):
            for _ in range(e):
                term = term * (Poly.var(a) + Poly.const(mins[a]))
        q = q + term
    return q


def nonneg(poly, mins):
    """sufficient for poly ≥ 0 whenever every count n_a ≥ mins[a]"""
    return all(c >= 0 for c in shifted(poly, mins).t.values())


def poly_axes(poly):
    return [a for n, a in enumerate(AXES) if any(m[n] for m in poly.t)]


# ---------------------------------------------------------------------------------------------------------
# the source modules
# ---------------------------------------------------------------------------------------------------------
class Source:
    def __init__(self, repo):
        src = os.path.join(repo, "src", "pyfvtool")
        self.tree = tinert.register(ast.parse(open(os.path.join(src, "mesh.py")).read()))
        self.util = tinert.register(ast.parse(open(os.path.join(src, "utilities.py")).read()))
        self.info = MeshInfo(self.tree)
        self.glob = {}
        for st in self.tree.body:
            if isinstance(st, ast.Import):
                for al in st.names:
                    self.glob[(al.asname or al.name).split(".")[0]] = ("module", al.name)
            elif isinstance(st, ast.ImportFrom):
                for al in st.names:
                    nm = al.asname or al.name
                    if st.module == "utilities" and st.level == 1:
                        defs = [n for n in self.util.body if isinstance(n, ast.FunctionDef) and n.name == al.name]
                        others = [n for n in ast.walk(self.util) if isinstance(n, ast.Name)
                                  and isinstance(n.ctx, ast.Store) and n.id == al.name]
                        self.glob[nm] = ("func", defs[-1]) if defs and not others else ("other", "utilities." + al.name)
                    else:
                        self.glob[nm] = ("import", f"{st.module}.{al.name}")
            elif isinstance(st, ast.FunctionDef):
                self.glob[st.name] = ("func", st)
            elif isinstance(st, ast.ClassDef):
                self.glob[st.name] = ("class", st.name)
            elif isinstance(st, (ast.Assign, ast.AnnAssign, ast.AugAssign)):
                for n in ast.walk(st):
                    if isinstance(n, ast.Name) and isinstance(n.ctx, ast.Store):
                        self.glob[n.id] = ("other", "module-level assignment")
            elif isinstance(st, ast.Expr) and isinstance(st.value, ast.Constant):
                pass
            else:
                raise Bad(f"mesh.py: module-level statement {type(st).__name__} (line {st.lineno})")
        for st in self.util.body:
            if isinstance(st, ast.Import):
                for al in st.names:
                    if (al.asname or al.name) == "np" and al.name != "numpy":
                        raise Bad("utilities.py: np is not numpy")
        if self.glob.get("np") != ("module", "numpy"):
            raise Bad("mesh.py: `np` is not `import numpy as np`")

    def find_method(self, cls, name, after=None):
        """(owner, LAST definition of `name`) in the first class of the MRO of `cls` (after class `after`) that has one"""
        mro = self.info.mro(cls)
        if after is not None:
            if after not in mro:
                raise Bad(f"super(): {after} is not a base of {cls}")
            mro = mro[mro.index(after) + 1:]
        for c in mro:
            for st in self.info.classes[c].body:
                if isinstance(st, (ast.Assign, ast.AnnAssign)):
                    for n in ast.walk(st):
                        if isinstance(n, ast.Name) and isinstance(n.ctx, ast.Store) and n.id == name:
                            raise Bad(f"{c}.{name} is bound by an assignment")
            defs = [m for m in self.info.classes[c].body if isinstance(m, ast.FunctionDef) and m.name == name]
            if defs:
                return c, defs[-1]
        return None, None


# ---------------------------------------------------------------------------------------------------------
# the interpreter
# ---------------------------------------------------------------------------------------------------------
class Frame:
    def __init__(self, env, defcls, selfobj, name):
        self.env, self.defcls, self.selfobj, self.name = env, defcls, selfobj, name


class Returned(Exception):
    def __init__(self, v):
        super().__init__("return")
        self.v = v


class Run:
    """one symbolic execution (one class, one calling form)"""

    def __init__(self, src):
        self.src = src
        self.mins = {a: 0 for a in AXES}
        self.reasons = []
        self.ctor_calls = []         # (method name, owner class, coordlabels dict)
        self.check_dims = []         # second argument of `_check_mesh_nargs`
        self.stack = []

    # ---- integers
    def decide_nonneg(self, poly):
        if nonneg(poly, self.mins):
            return True
        if nonneg(-poly - ONE, self.mins):
            return False
        return None

    def require_nonneg(self, poly, why):
        d = self.decide_nonneg(poly)
        if d is True:
            return
        if d is False:
            raise Bad(f"{why}: fails for every cell count")
        new = dict(self.mins)
        for a in poly_axes(poly):
            new[a] = max(new[a], 1)
        if nonneg(poly, new):
            for a in poly_axes(poly):
                if self.mins[a] < new[a]:
                    self.reasons.append((a, why))
            self.mins = new
            return
        raise Bad(f"{why}: cannot be guaranteed")

    # ---- calls
    def call(self, fn, pos, kw, defcls=None, selfobj=None, allow_decorators=False):
        if fn.decorator_list and not allow_decorators:
            raise Bad(f"{fn.name}: the definition in force is decorated (@{ast.unparse(fn.decorator_list[0])})")
        if len(self.stack) > 40:
            raise Bad("recursion")
        a = fn.args
        if a.kwarg:
            raise Bad(f"{fn.name}: **kwargs")
        params = [p.arg for p in a.posonlyargs + a.args]
        pos = list(pos)
        if selfobj is not None:
            pos = [selfobj] + pos
        env = {}
        if len(pos) > len(params):
            if not a.vararg:
                raise Raised("TypeError")
            env[a.vararg.arg] = TupV(pos[len(params):])
            pos = pos[:len(params)]
        elif a.vararg:
            env[a.vararg.arg] = TupV([])
        for p, v in zip(params, pos):
            env[p] = v
        kw = dict(kw)
        defaults = dict(zip(params[len(params) - len(a.defaults):], a.defaults))
        for p in params[len(pos):]:
            if p in kw:
                env[p] = kw.pop(p)
            elif p in defaults:
                env[p] = self.ev_in(defaults[p], Frame({}, defcls, None, fn.name))
            else:
                raise Raised("TypeError")
        for p, d in zip(a.kwonlyargs, a.kw_defaults):
            if p.arg in kw:
                env[p.arg] = kw.pop(p.arg)
            elif d is not None:
                env[p.arg] = self.ev_in(d, Frame({}, defcls, None, fn.name))
            else:
                raise Raised("TypeError")
        if kw:
            raise Raised("TypeError")
        fr = Frame(env, defcls, selfobj, fn.name)
        fr.inert = tinert.analysis(fn)
        self.stack.append(fr)
        try:
            self.block(fn.body)
            return None
        except Returned as r:
            return r.v
        finally:
            self.stack.pop()

    def ev_in(self, node, frame):
        self.stack.append(frame)
        try:
            return self.ev(node)
        finally:
            self.stack.pop()

    @property
    def fr(self):
        return self.stack[-1]

    # ---- statements
    def block(self, body):
        for st in body:
            self.stmt(st)

    quiet = False           # True in the arity probes (unknown arguments): what is skipped there is not reported

    def stmt(self, st):
        inert = getattr(self.fr, "inert", None) or tinert.analysis(None)
        if not inert.is_inert(st):
            return self.stmt0(st, inert)
        # an inert statement (tinert.py) is first executed like any other (a `warn`, a decided guard, ... behave as
        # before); when it is not understood it is skipped: it has no effect on the object
        snap = (dict(self.mins), len(self.reasons))
        try:
            return self.stmt0(st, inert)
        except Bad:
            inert.skip_guard(st, note=not self.quiet)
            self.mins = snap[0]
            del self.reasons[snap[1]:]

    def stmt0(self, st, inert):
        st = tnum.plain_assign(st)
        if isinstance(st, ast.Expr):
            if isinstance(st.value, ast.Constant):
                return
            if isinstance(st.value, ast.Call):
                self.ev(st.value)
                return
            raise Bad(f"expression statement (line {st.lineno})")
        if isinstance(st, ast.Pass):
            return
        if isinstance(st, ast.Assign):
            return self.assign(st)
        if isinstance(st, ast.Return):
            raise Returned(None if st.value is None else self.ev(st.value))
        if isinstance(st, ast.Raise):
            exc = st.exc
            if isinstance(exc, ast.Call):
                exc = exc.func
            raise Raised(ast.unparse(exc) if exc is not None else "re-raise")
        if isinstance(st, ast.If):
            try:
                t = self.truth(self.ev(st.test))
            except Undec as u:
                only_raise = len(st.body) == 1 and isinstance(st.body[0], ast.Raise) and not st.orelse
                if only_raise and u.need is not None:
                    # `if a > b: raise ...`: the call succeeds exactly when the test is false; recorded in `_nmin`
                    self.require_nonneg(u.need, f"`{ast.unparse(st.test)}` of {self.fr.name} must be false")
                    return
                if not st.orelse and all(self.is_warn(s) for s in st.body):
                    return                      # a warning has no effect on the object
                raise Bad(f"{self.fr.name}: the test `{ast.unparse(st.test)[:60]}` is not decided by the calling form "
                          f"({u.why})")
            return self.block(st.body if t else st.orelse)
        raise Bad(f"{self.fr.name}: statement {type(st).__name__} (line {st.lineno})")

    def is_warn(self, s):
        return (isinstance(s, ast.Expr) and isinstance(s.value, ast.Call) and isinstance(s.value.func, ast.Name)
                and s.value.func.id == "warn" and "warn" not in self.fr.env
                and self.src.glob.get("warn") == ("import", "warnings.warn"))

    def truth(self, v):
        if isinstance(v, bool):
            return v
        if isinstance(v, Unknown):
            raise Undec(f"unknown value: {v.reason}")
        raise Bad("test is not a boolean")

    def soft_ok(self, node):
        """may `node`, which was not understood, be bound as an unknown value?  Only if it cannot change a tracked
        object: every method-call receiver and every name it mentions is `np` or bound to an integer / unknown value,
        and it calls no function we do not know"""
        for n in ast.walk(node):
            if isinstance(n, ast.Name):
                if n.id in self.fr.env:
                    if not is_safe(self.fr.env[n.id]):
                        return False
                elif n.id == "np" or self.src.glob.get(n.id, ("?",))[0] in ("func", "class"):
                    continue
                else:
                    return False
            if isinstance(n, ast.keyword) and n.arg == "out":
                return False
            if isinstance(n, (ast.NamedExpr, ast.Lambda, ast.Await, ast.Yield, ast.YieldFrom)):
                return False
        return True

    def assign(self, st):
        try:
            v = self.ev(st.value)
        except Bad as ex:
            if all(isinstance(t, ast.Name) for t in st.targets) and self.soft_ok(st.value):
                v = Unknown(str(ex))
            else:
                raise
        for t in st.targets:
            self.bind(t, v, st)

    def bind(self, t, v, st):
        if isinstance(t, ast.Name):
            self.fr.env[t.id] = v
        elif isinstance(t, ast.Tuple) and all(isinstance(e, ast.Name) for e in t.elts):
            if isinstance(v, IntList):
                items = v.items
            elif isinstance(v, TupV):
                items = v.items
            else:
                raise Bad(f"{self.fr.name}: tuple assignment from {ast.unparse(st.value)[:50]}")
            if len(items) != len(t.elts):
                raise Raised("ValueError")
            for e, x in zip(t.elts, items):
                self.fr.env[e.id] = x
        elif isinstance(t, ast.Attribute) and isinstance(t.value, ast.Name):
            o = self.ev(t.value)
            if not isinstance(o, Obj):
                raise Bad(f"{self.fr.name}: attribute assignment to {ast.unparse(t.value)}")
            o.attrs[t.attr] = v
        else:
            raise Bad(f"{self.fr.name}: assignment target {ast.unparse(t)[:40]}")

    # ---- expressions
    def ev(self, node):
        m = getattr(self, "ev_" + type(node).__name__, None)
        if m is None:
            raise Bad(f"expression {type(node).__name__}: {ast.unparse(node)[:50]}")
        return m(node)

    def ev_Constant(self, node):
        v = node.value
        if isinstance(v, bool) or v is None or isinstance(v, str):
            return v
        if isinstance(v, int):
            return Poly.const(v)
        if isinstance(v, float):
            return Sc(("num", Fraction(v)))
        raise Bad(f"constant {v!r}")

    def ev_Name(self, node):
        if node.id in self.fr.env:
            return self.fr.env[node.id]
        g = self.src.glob.get(node.id)
        if g is not None:
            return ("global", node.id) + g
        if node.id in ("len", "isinstance", "super"):
            return ("builtin", node.id)
        raise Bad(f"name {node.id}")

    def ev_Tuple(self, node):
        return TupV([self.ev(e) for e in node.elts])

    def ev_List(self, node):
        return ListV([self.ev(e) for e in node.elts])

    def ev_Dict(self, node):
        d = {}
        for k, v in zip(node.keys, node.values):
            if not (isinstance(k, ast.Constant) and isinstance(k.value, str) and isinstance(v, ast.Constant)
                    and isinstance(v.value, str)):
                raise Bad("dictionary that is not a literal {str: str}")
            d[k.value] = v.value
        return DictV(d)

    def ev_Attribute(self, node):
        if isinstance(node.value, ast.Name) and node.value.id == "np" and "np" not in self.fr.env:
            if node.attr == "pi":
                return Sc(("pi",))
            if node.attr == "ndarray":
                return TypeRef("ndarray")
            raise Bad(f"np.{node.attr}")
        b = self.ev(node.value)
        if isinstance(b, Unknown):
            return b
        if isinstance(b, Obj):
            if node.attr in b.attrs:
                return b.attrs[node.attr]
            owner, fn = self.src.find_method(b.cls, node.attr)
            if fn is None:
                raise Raised("AttributeError")
            return Method(b, owner, fn)
        if isinstance(b, SuperRef):
            owner, fn = self.src.find_method(b.obj.cls, node.attr, after=b.after)
            if fn is None:
                raise Bad(f"super().{node.attr}: not defined by a parsed class")
            return Method(b.obj, owner, fn)
        if isinstance(b, V) and node.attr == "size":
            return b.length()
        if isinstance(b, V) and node.attr == "shape":
            return TupV([b.length()])
        if isinstance(b, IntList) and node.attr == "size":
            return Poly.const(len(b.items))
        if isinstance(b, Grid) and node.attr == "shape":
            return TupV(b.shape)
        raise Bad(f"attribute .{node.attr} of {ast.unparse(node.value)[:40]}")

    # -- arithmetic
    def ev_UnaryOp(self, node):
        v = self.ev(node.operand)
        if isinstance(node.op, ast.Not):
            return not self.truth(v)
        if isinstance(node.op, ast.UAdd):
            return v
        if not isinstance(node.op, ast.USub):
            raise Bad(f"unary {type(node.op).__name__}")
        if isinstance(v, Unknown):
            return v
        if isinstance(v, Poly):
            return -v
        if isinstance(v, Sc):
            return Sc(("neg", v.e))
        if isinstance(v, V):
            if v.kind == "int":
                return V([(L, (lambda pos, f=f: -f(pos))) for L, f in v.blocks], "int")
            return V([(L, (lambda pos, f=f: ("neg", f(pos)))) for L, f in v.blocks])
        raise Bad("unary minus of a non-number")

    def ev_BinOp(self, node):
        a, b = self.ev(node.left), self.ev(node.right)
        for x in (a, b):
            if isinstance(x, Unknown):
                return x
        tag = {ast.Add: "add", ast.Sub: "sub", ast.Mult: "mul", ast.Div: "div"}.get(type(node.op))
        if tag is None:
            raise Bad(f"operator {type(node.op).__name__}")
        return self.arith(tag, a, b, ast.unparse(node)[:60])

    def arith(self, tag, a, b, txt):
        num = (Poly, Sc)
        if isinstance(a, Poly) and isinstance(b, Poly) and tag != "div":
            return a + b if tag == "add" else a - b if tag == "sub" else a * b
        if isinstance(a, num) and isinstance(b, num):
            if tag == "div" and isinstance(b, Poly):
                # Python raises ZeroDivisionError for float / 0 (numpy scalars give inf): the count must be ≥ 1
                self.require_nonneg(b - ONE, f"divisor of `{txt}` ≥ 1")
            return Sc((tag, to_real(a), to_real(b)))
        if isinstance(a, V) and isinstance(b, num):
            return self.map_blocks(tag, a, b, False)
        if isinstance(a, num) and isinstance(b, V):
            return self.map_blocks(tag, b, a, True)
        if isinstance(a, V) and isinstance(b, V):
            la, lb = [L for L, _ in a.blocks], [L for L, _ in b.blocks]
            if a.length() != b.length():
                if a.length() == ONE or b.length() == ONE:
                    raise Bad(f"{txt}: broadcasting of a one-element array")
                raise Bad(f"{txt}: operands of lengths {a.length()} and {b.length()} (numpy raises unless they agree)")
            if la != lb:
                raise Bad(f"{txt}: operands are concatenations with different block lengths")
            if a.kind == "int" and b.kind == "int" and tag in ("add", "sub"):
                return V([(L, (lambda pos, f=f, g=g: f(pos) + g(pos) if tag == "add" else f(pos) - g(pos)))
                          for (L, f), (_, g) in zip(a.blocks, b.blocks)], "int")
            ka, kb = a.kind, b.kind
            return V([(L, (lambda pos, f=f, g=g: (tag, real_elem(f(pos), ka), real_elem(g(pos), kb))))
                      for (L, f), (_, g) in zip(a.blocks, b.blocks)])
        raise Bad(f"{txt}: operands are not numbers / arrays")

    def map_blocks(self, tag, v, s, swapped):
        if v.kind == "int" and isinstance(s, Poly) and tag != "div":
            def op(e):
                if tag == "add":
                    return e + ipoly(s)
                if tag == "sub":
                    return (ipoly(s) - e) if swapped else (e - ipoly(s))
                return e.times(s)
            return V([(L, (lambda pos, f=f: op(f(pos)))) for L, f in v.blocks], "int")
        se, kind = to_real(s), v.kind

        def op(e):
            e = real_elem(e, kind)
            return (tag, se, e) if swapped else (tag, e, se)
        return V([(L, (lambda pos, f=f: op(f(pos)))) for L, f in v.blocks])

    # -- tests
    def cmp_poly(self, op, a, b):
        """decide `a op b` for symbolic integers under the current lower bounds, else Undec"""
        d = a - b
        if isinstance(op, (ast.Eq, ast.NotEq)):
            if d == ZERO:
                r = True
            elif d.is_const() or self.decide_nonneg(d - ONE) is True or self.decide_nonneg(-d - ONE) is True:
                r = False
            else:
                raise Undec(f"{a} == {b}")
            return r if isinstance(op, ast.Eq) else not r
        # a > b  ⟺  d - 1 ≥ 0 ;  false ⟺ -d ≥ 0
        form = {ast.Gt: (d - ONE, -d), ast.GtE: (d, -d - ONE), ast.Lt: (-d - ONE, d), ast.LtE: (-d, d - ONE)}.get(type(op))
        if form is None:
            raise Bad(f"comparison {type(op).__name__}")
        yes, no = form
        if self.decide_nonneg(yes) is True:
            return True
        if self.decide_nonneg(no) is True:
            return False
        raise Undec(f"{a} vs {b} depends on the cell counts", need=no)

    def ev_Compare(self, node):
        if len(node.ops) != 1:
            raise Bad("chained comparison")
        op = node.ops[0]
        a, b = self.ev(node.left), self.ev(node.comparators[0])
        if isinstance(a, Unknown) or isinstance(b, Unknown):
            raise Undec("unknown operand")
        if isinstance(op, (ast.In, ast.NotIn)):
            if isinstance(b, DictV) and isinstance(a, str):
                r = a in b.d
            elif isinstance(b, TupV) and isinstance(a, Poly) and all(isinstance(x, Poly) for x in b.items):
                r = any(self.cmp_poly(ast.Eq(), a, x) for x in b.items)
            else:
                raise Bad(f"membership test {ast.unparse(node)[:50]}")
            return r if isinstance(op, ast.In) else not r
        if isinstance(a, str) and isinstance(b, str) and isinstance(op, (ast.Eq, ast.NotEq)):
            return (a == b) if isinstance(op, ast.Eq) else (a != b)
        if isinstance(a, Poly) and isinstance(b, Poly):
            return self.cmp_poly(op, a, b)
        if isinstance(a, (Poly, Sc)) and isinstance(b, (Poly, Sc)):
            raise Undec("comparison of real numbers")
        raise Bad(f"comparison {ast.unparse(node)[:50]}")

    def ev_BoolOp(self, node):
        is_and = isinstance(node.op, ast.And)
        for v in node.values:
            t = self.truth(self.ev(v))
            if is_and and not t:
                return False
            if not is_and and t:
                return True
        return is_and

    # -- indexing
    def ev_Subscript(self, node):
        b = self.ev(node.value)
        sl = node.slice
        if isinstance(b, Unknown):
            return b
        if isinstance(b, DictV):
            k = self.ev(sl)
            if not isinstance(k, str):
                raise Bad("dictionary key")
            if k not in b.d:
                raise Raised("KeyError")
            return b.d[k]
        if isinstance(b, (TupV, IntList)) and not isinstance(sl, ast.Slice):
            k = self.ev(sl)
            if not (isinstance(k, Poly) and k.is_const()):
                raise Bad(f"index {ast.unparse(sl)}")
            k = k.constval()
            if not -len(b.items) <= k < len(b.items):
                raise Raised("IndexError")
            return b.items[k]
        if isinstance(b, V):
            if isinstance(sl, ast.Slice):
                return self.slice(b, sl, ast.unparse(node))
            k = self.ev(sl)
            if not isinstance(k, Poly):
                raise Bad(f"index {ast.unparse(sl)} (only integers and slices)")
            L, f = b.single(f"`{ast.unparse(node)}`: integer index")
            where = L + k if k.is_const() and k.constval() < 0 else k
            self.require_nonneg(where, f"index of `{ast.unparse(node)}` ≥ 0")
            self.require_nonneg(L - ONE - where, f"index of `{ast.unparse(node)}` < length {L}")
            e = f(ipoly(where))
            if b.kind == "int":
                if e.pc:
                    raise Bad("element of an integer array")
                return e.poly
            return Sc(e)
        raise Bad(f"subscript {ast.unparse(node)[:50]}")

    def slice(self, v, sl, txt):
        if sl.step is not None:
            raise Bad(f"{txt}: slice step")
        L, f = v.single(f"`{txt}`: slice")

        def bound(n, default):
            if n is None:
                return default
            b = self.ev(n)
            if not isinstance(b, Poly):
                raise Bad(f"{txt}: slice bound {ast.unparse(n)}")
            if b.is_const() and b.constval() < 0:
                b = L + b
                self.require_nonneg(b, f"`{txt}`: bound within the array")
            return b
        lo, hi = bound(sl.lower, ZERO), bound(sl.upper, L)
        if not lo.is_const():
            raise Bad(f"{txt}: symbolic start")
        self.require_nonneg(L - hi, f"`{txt}`: stop ≤ length {L}")
        self.require_nonneg(hi - lo, f"`{txt}`: start ≤ stop")
        return V([(hi - lo, (lambda pos: f(pos + ipoly(lo))))], v.kind)

    # -- calls
    def call_args(self, node):
        pos, kw = [], {}
        for a in node.args:
            if isinstance(a, ast.Starred):
                t = self.ev(a.value)
                if not isinstance(t, TupV):
                    raise Bad(f"*{ast.unparse(a.value)}: not a tuple")
                pos.extend(t.items)
            else:
                pos.append(self.soft(a))
        for k in node.keywords:
            if k.arg is None:
                raise Bad("**kwargs in a call")
            kw[k.arg] = self.soft(k.value)
        return pos, kw

    def soft(self, node):
        """argument of a call of interpreted code: a construct that is not understood is passed on as unknown"""
        try:
            return self.ev(node)
        except Bad as ex:
            if self.soft_ok_arg(node):
                return Unknown(str(ex))
            raise

    def soft_ok_arg(self, node):
        """like soft_ok, but names bound to arrays may be READ by numpy functions / operators / indexing (no method
        call on them)"""
        for n in ast.walk(node):
            if isinstance(n, ast.Call):
                f = n.func
                if isinstance(f, ast.Attribute):
                    root = f.value
                    while isinstance(root, (ast.Attribute, ast.Subscript, ast.Call)):
                        root = root.func if isinstance(root, ast.Call) else root.value
                    if not (isinstance(root, ast.Name) and root.id == "np" and "np" not in self.fr.env):
                        return False
                elif not (isinstance(f, ast.Name) and self.src.glob.get(f.id, ("?",))[0] == "func"):
                    return False
            if isinstance(n, ast.keyword) and n.arg == "out":
                return False
            if isinstance(n, (ast.NamedExpr, ast.Lambda, ast.Await, ast.Yield, ast.YieldFrom)):
                return False
        return True

    def ev_Call(self, node):
        f = node.func
        if isinstance(f, ast.Attribute) and isinstance(f.value, ast.Name) and f.value.id == "np" \
                and "np" not in self.fr.env:
            return self.np_call(f.attr, node)
        if isinstance(f, ast.Attribute):
            b = self.ev(f.value)
            if isinstance(b, Unknown):
                return b
            if isinstance(b, (V, Grid)):
                return self.array_method(b, f.attr, node)
        fv = self.ev(f)
        if isinstance(fv, Method):
            pos, kw = self.call_args(node)
            nm = fv.fn.name
            if nm.startswith("_mesh_") and nm.endswith("d_param"):
                self.ctor_calls.append((nm, fv.owner, kw.get("coordlabels")))
            return self.call(fv.fn, pos, kw, defcls=fv.owner, selfobj=fv.obj)
        if isinstance(fv, tuple) and fv[0] == "builtin":
            return self.builtin(fv[1], node)
        if isinstance(fv, tuple) and fv[0] == "global":
            _, name, kind, what = fv
            if kind == "func":
                pos, kw = self.call_args(node)
                if name == "_check_mesh_nargs" and len(pos) == 2:
                    self.check_dims.append(pos[1])
                return self.call(what, pos, kw)
            if kind == "class":
                pos, kw = self.call_args(node)
                return self.instantiate(name, pos, kw)
            if kind == "import" and what == "warnings.warn":
                return None
            raise Bad(f"call of {name} ({kind}: {what})")
        raise Bad(f"call {ast.unparse(f)[:40]}")

    def instantiate(self, cls, pos, kw):
        o = Obj(cls)
        owner, fn = self.src.find_method(cls, "__init__")
        if fn is None:
            if pos or kw:
                raise Raised("TypeError")
            return o
        self.call(fn, pos, kw, defcls=owner, selfobj=o)
        return o

    def builtin(self, name, node):
        if node.keywords:
            raise Bad(f"{name} with keywords")
        if name == "super":
            if node.args:
                raise Bad("super(...) with arguments")
            if self.fr.selfobj is None or self.fr.defcls is None:
                raise Bad("super() outside a method")
            return SuperRef(self.fr.defcls, self.fr.selfobj)
        args = [self.ev(a) for a in node.args]
        if name == "len" and len(args) == 1:
            x = args[0]
            if isinstance(x, (TupV, IntList)):
                return Poly.const(len(x.items))
            if isinstance(x, V):
                return x.length()
            raise Bad(f"len of {ast.unparse(node.args[0])[:40]}")
        if name == "isinstance" and len(args) == 2:
            x, t = args
            if not (isinstance(t, TypeRef) and t.name == "ndarray"):
                raise Bad(f"isinstance(_, {ast.unparse(node.args[1])})")
            if isinstance(x, (V, IntList, Grid)):
                return True
            if isinstance(x, Given):
                return x.isarray
            if isinstance(x, (Poly, Sc, Obj, str, DictV, TupV, bool, type(None))):
                return False
            raise Undec("isinstance of an unknown value")
        raise Bad(f"call {name}")

    def int_arg(self, node, what):
        v = self.ev(node)
        if not isinstance(v, Poly):
            raise Bad(f"length of `{what}` is not determined (`{ast.unparse(node)}` is not a symbolic integer: the number "
                      f"of entries would depend on floating-point rounding)")
        return v

    def np_call(self, name, node):
        txt = ast.unparse(node)
        args = node.args
        kws = {k.arg: k.value for k in node.keywords}
        if name in ("ones", "zeros") and len(args) == 1 and not kws:
            n = self.int_arg(args[0], txt)
            self.require_nonneg(n, f"`{txt}`: length ≥ 0")
            c = ("num", Fraction(1 if name == "ones" else 0))
            return V([(n, lambda pos: c)])
        if name == "full" and len(args) == 2 and not kws:
            n = self.int_arg(args[0], txt)
            self.require_nonneg(n, f"`{txt}`: length ≥ 0")
            v = self.ev(args[1])
            if isinstance(v, Unknown):
                return v
            c = to_real(v)
            return V([(n, lambda pos: c)])
        if name == "array" and len(args) == 1:
            if set(kws) - {"dtype"}:
                raise Bad(f"{txt}: keywords")
            dt = ast.unparse(kws["dtype"]) if "dtype" in kws else None
            if dt not in (None, "int", "float"):
                raise Bad(f"{txt}: dtype")
            items = self.ev(args[0])
            if not isinstance(items, TupV) or not items.items:
                raise Bad(f"{txt}: argument is not a non-empty list / tuple")
            if all(isinstance(x, Poly) for x in items.items) and dt != "float":
                return IntList(items.items)
            if dt == "int":
                raise Bad(f"{txt}: dtype=int of non-integers (truncation)")
            return self.blocks_of(items.items, txt, scalars_ok=True)
        if name in ("hstack", "concatenate") and len(args) == 1 and not kws:
            items = self.ev(args[0])
            if not isinstance(items, TupV):
                raise Bad(f"{txt}: argument is not a list / tuple")
            return self.blocks_of(items.items, txt, scalars_ok=(name == "hstack"))
        if name == "diff" and len(args) == 1 and not kws:
            v = self.ev(args[0])
            if isinstance(v, Unknown):
                return v
            if not isinstance(v, V):
                raise Bad(f"{txt}: argument is not an array")
            L, f = v.single(f"`{txt}`")
            self.require_nonneg(L - ONE, f"`{txt}`: at least one entry")
            if v.kind == "int":
                return V([(L - ONE, lambda pos: f(pos + ipoly(ONE)) - f(pos))], "int")
            return V([(L - ONE, lambda pos: ("sub", f(pos + ipoly(ONE)), f(pos)))])
        if name in ("copy", "asarray") and len(args) == 1 and not kws:
            v = self.ev(args[0])
            if not isinstance(v, (V, Unknown)):
                raise Bad(f"{txt}: argument is not an array")
            return v
        if name == "arange" and 1 <= len(args) <= 3 and not kws:
            vals = [self.int_arg(a, txt) for a in args]
            if len(vals) == 3 and vals[2] != ONE:
                raise Bad(f"{txt}: step other than 1")
            lo, hi = (ZERO, vals[0]) if len(vals) == 1 else (vals[0], vals[1])
            self.require_nonneg(hi - lo, f"`{txt}`: stop ≥ start")
            return V([(hi - lo, lambda pos: pos + ipoly(lo))], "int")
        if name == "linspace" and len(args) == 3 and not kws:
            a, b = self.ev(args[0]), self.ev(args[1])
            n = self.int_arg(args[2], txt)
            for x in (a, b):
                if isinstance(x, Unknown):
                    return x
            self.require_nonneg(n - Poly.const(2), f"`{txt}`: at least two points")
            ea, eb = to_real(a), to_real(b)
            step = ("div", ("sub", eb, ea), ("cast", ipoly(n - ONE)))
            return V([(n, lambda pos: ("add", ea, ("mul", ("cast", pos), step)))])
        raise Bad(f"call np.{name}" + (f": length of `{txt}` is not determined" if name in
                                       ("arange", "linspace", "ones", "zeros", "empty", "full") else ""))

    def blocks_of(self, items, txt, scalars_ok):
        blocks, kinds = [], set()
        for x in items:
            if isinstance(x, Unknown):
                return x
            if isinstance(x, (Sc, Poly)):
                if not scalars_ok:
                    raise Bad(f"{txt}: a 0-d block (numpy raises: zero-dimensional arrays cannot be concatenated)")
                e = to_real(x)
                blocks.append((ONE, (lambda pos, e=e: e)))
                kinds.add("real")
            elif isinstance(x, ListV):
                for y in x.items:
                    if not isinstance(y, (Sc, Poly)):
                        raise Bad(f"{txt}: nested list")
                    e = to_real(y)
                    blocks.append((ONE, (lambda pos, e=e: e)))
                kinds.add("real")
            elif isinstance(x, V):
                k = x.kind
                for L, f in x.blocks:
                    blocks.append((L, (lambda pos, f=f, k=k: real_elem(f(pos), k))))
                kinds.add("real")
            else:
                raise Bad(f"{txt}: block that is not an array or a number")
        return V(blocks)

    def array_method(self, b, name, node):
        txt = ast.unparse(node)
        if name == "copy" and not node.args and not node.keywords:
            return b
        if name == "reshape" and not node.keywords and isinstance(b, V) and b.kind == "int":
            shp = node.args[0].elts if len(node.args) == 1 and isinstance(node.args[0], ast.Tuple) else node.args
            dims = [self.ev(a) for a in shp]
            if not all(isinstance(d, Poly) for d in dims) or not 1 <= len(dims) <= 3:
                raise Bad(f"{txt}: shape")
            p = ONE
            for d in dims:
                p = p * d
            if p != b.length():
                raise Bad(f"{txt}: {b.length()} entries cannot be reshaped to {tuple(dims)} (numpy raises)")
            b.single(f"`{txt}`")
            return Grid(dims, b)
        raise Bad(f"call {txt[:50]}")


# ---------------------------------------------------------------------------------------------------------
# rendering
# ---------------------------------------------------------------------------------------------------------
def rmono(m, c):
    fac = []
    for a, e in zip(AXES, m):
        if e:
            fac.append(f"n{a}" + (f" ^ {e}" if e > 1 else ""))
    if not fac:
        return str(c)
    return " * ".join(([str(c)] if c != 1 else []) + fac)


def rpoly_parts(poly):
    pos = [rmono(m, c) for m, c in sorted(poly.t.items(), reverse=True) if c > 0]
    neg = [rmono(m, -c) for m, c in sorted(poly.t.items(), reverse=True) if c < 0]
    return pos, neg


def rnat(poly, what="length"):
    pos, neg = rpoly_parts(poly)
    if neg:
        raise Bad(f"{what} {poly} may be negative")
    return " + ".join(pos) if pos else "0"


def rinte_nat(e, var="p"):
    """ℕ term of an index (truncated subtraction: the caller has checked that the value is ≥ 0)"""
    pos, neg = rpoly_parts(e.poly)
    if e.pc not in (0, 1):
        raise Bad("index with a stride")
    pos = ([var] if e.pc else []) + pos
    s = " + ".join(pos) if pos else "0"
    if neg:
        n = " + ".join(neg)
        s = f"{s} - {n}" if len(neg) == 1 else f"{s} - ({n})"
    return s


def rcast(e, var="p"):
    pos, neg = rpoly_parts(e.poly)
    if e.pc < 0:
        raise Bad("negative stride")
    pos = ([var] if e.pc == 1 else [f"{e.pc} * {var}"] if e.pc else []) + pos

    def one(parts):
        if not parts:
            return "(0 : α)"
        if len(parts) == 1 and parts[0].isdigit():
            return f"({parts[0]} : α)"
        if len(parts) == 1 and parts[0].isidentifier():
            return f"({parts[0]} : α)"
        return f"(({' + '.join(parts)} : ℕ) : α)"
    return one(pos) if not neg else f"({one(pos)} - {one(neg)})"


class Renderer:
    def __init__(self, run, off):
        self.run, self.off = run, off

    def r(self, e):
        k = e[0]
        if k == "num":
            return rnum(e[1])
        if k == "L":
            return f"L{e[1]}"
        if k == "f":
            idx = e[2]
            if idx.pc:
                if idx.pc != 1:
                    raise Bad("index with a stride")
                if not nonneg(idx.poly + self.off, self.run.mins):
                    raise Bad("index may be negative")
            s = rinte_nat(idx)
            return f"f{e[1]} {s}" if s.isidentifier() or s.isdigit() else f"f{e[1]} ({s})"
        if k == "cast":
            return rcast(e[1])
        if k in ("add", "sub", "mul", "div"):
            sym = {"add": "+", "sub": "-", "mul": "*", "div": "/"}[k]
            return f"({self.r(e[1])} {sym} {self.r(e[2])})"
        if k == "neg":
            return f"(-{self.r(e[1])})"
        if k == "pi":
            raise Bad("np.pi in a mesh array")
        raise Bad(f"render {k}")


def describe(run, v):
    """(length, entry at p) of a 1-D real / integer array, as Lean text"""
    if isinstance(v, Unknown):
        raise Bad(v.reason)
    if not isinstance(v, V):
        raise Bad(f"not a 1-D array ({type(v).__name__})")
    length = rnat(v.length())
    blocks = [(L, f) for L, f in v.blocks if L != ZERO]
    if not blocks:
        raise Bad("empty array")
    off, parts = ZERO, []
    for n, (L, f) in enumerate(blocks):
        e = real_elem(f(IntE(1, -off)), v.kind)
        body = Renderer(run, off).r(e)
        if e[0] in ("add", "sub", "mul", "div"):
            body = strip_outer(body)
        off = off + L
        parts.append((rnat(off), body))
    s = parts[-1][1]
    for bound, body in reversed(parts[:-1]):
        s = f"if p < {bound} then {body} else {s}"
    return length, s


# ---------------------------------------------------------------------------------------------------------
# drivers
# ---------------------------------------------------------------------------------------------------------
def form_args(form, nd):
    if form == "faces":
        return [V([(Poly.var(a) + ONE, (lambda pos, a=a: ("f", a, pos)))]) for a in AXES[:nd]]
    if form == "nl":
        return [Poly.var(a) for a in AXES[:nd]] + [Sc(("L", a)) for a in AXES[:nd]]
    if form == "direct":
        return [Given(i, i == 0) for i in range(6)]
    raise Bad(form)


def build(src, cls, form):
    """run `cls(*args)`; returns (run, mesh object)"""
    run = Run(src)
    try:
        o = run.instantiate(cls, form_args(form, NDIM[cls]), {})
    except Raised as r:
        raise Bad(f"{cls}(<{form} form>) raises {r.exc}")
    except Undec as u:
        raise Bad(f"undecided test: {u.why}")
    return run, o


def mesh_arrays(run, o):
    """{(which, priv): (len, entry) | Bad}, dims"""
    out = {}
    for w in WHICH:
        c = o.attrs.get(w)
        for p in PRIVS:
            try:
                if isinstance(c, Unknown):
                    raise Bad(c.reason)
                if not isinstance(c, Obj) or p not in c.attrs:
                    raise Bad(f"<mesh>.{w} has no attribute {p}")
                out[(w, p)] = describe(run, c.attrs[p])
            except Bad as ex:
                out[(w, p)] = ex
    try:
        d = o.attrs.get("dims")
        if isinstance(d, Unknown):
            raise Bad(d.reason)
        if not isinstance(d, IntList):
            raise Bad("<mesh>.dims is not an integer array np.array([Nx, ...], dtype=int)")
        out["dims"] = "[" + ", ".join(rnat(x, "dimension") for x in d.items) + "]"
    except Bad as ex:
        out["dims"] = ex
    return out


def public_labels(src, run, o):
    """public label ↦ private array, by RUNNING the properties of the container class on the object"""
    rows = None
    for w in WHICH:
        c = o.attrs.get(w)
        if not isinstance(c, Obj):
            raise Bad(f"<mesh>.{w} is not a container object")
        mine = []
        for name in PUBLIC:
            owner, fn = src.find_method(c.cls, name)
            if fn is None:
                continue
            if [ast.unparse(d) for d in fn.decorator_list] != ["property"]:
                raise Bad(f"{owner}.{name} is not a plain property")
            try:
                v = run.call(fn, [], {}, defcls=owner, selfobj=c, allow_decorators=True)
            except Raised as r:
                if r.exc == "AttributeError":
                    continue
                raise Bad(f"{c.cls}.{name} raises {r.exc}")
            hit = [p for p in PRIVS if c.attrs.get(p) is v]
            if len(hit) != 1:
                raise Bad(f"{c.cls}.{name} does not return one of _x, _y, _z")
            mine.append((name, hit[0]))
        mine.sort(key=lambda r: (PRIVS.index(r[1]), PUBLIC.index(r[0])))
        if rows is None:
            rows = mine
        elif rows != mine:
            raise Bad("cellsize / cellcenters / facecenters carry different labels")
        lab = c.attrs.get("coordlabels")
        if not isinstance(lab, DictV):
            raise Bad("coordlabels is not a literal dictionary")
    return rows


def cell_numbers(src, run, o):
    """(shape text, entry text, variables) of `<mesh>.cell_numbers()`"""
    owner, fn = src.find_method(o.cls, "cell_numbers")
    if fn is None:
        raise Bad(f"{o.cls} has no method cell_numbers")
    try:
        g = run.call(fn, [], {}, defcls=owner, selfobj=o)
    except Raised as r:
        raise Bad(f"cell_numbers raises {r.exc}")
    except Undec as u:
        raise Bad(f"cell_numbers: undecided test: {u.why}")
    if isinstance(g, V) and g.kind == "int":
        g = Grid([g.length()], g)
    if not isinstance(g, Grid):
        raise Bad("cell_numbers: the result is not a reshaped integer range")
    idx = ["i", "j", "k"][:len(g.shape)]
    flat = idx[0]
    for s, v in zip(g.shape[1:], idx[1:]):
        sz = rnat(s)
        flat = f"{flat} * ({sz}) + {v}" if flat.isidentifier() else f"({flat}) * ({sz}) + {v}"
    L, f = g.base.single("cell_numbers")
    e = f(IntE(1, ZERO))
    if e.pc != 1:
        raise Bad("cell_numbers: stride")
    pos, neg = rpoly_parts(e.poly)
    if neg:
        raise Bad("cell_numbers: negative offset")
    entry = flat if not pos else f"({flat}) + {' + '.join(pos)}"
    return "[" + ", ".join(rnat(s) for s in g.shape) + "]", entry, idx


def arities(src):
    """which argument counts `_check_mesh_nargs(args, dim)` lets through, and which ones each `_mesh_Dd_param` takes
    a branch for (the others raise TypeError)"""
    g = src.glob.get("_check_mesh_nargs")
    if not g or g[0] != "func":
        raise Bad("_check_mesh_nargs is not a module-level function")
    acc = []
    for dim in (1, 2, 3):
        ok = []
        for k in range(0, 9):
            run = Run(src)
            run.quiet = True
            try:
                run.call(g[1], [TupV([Unknown("arg")] * k), Poly.const(dim)], {})
                ok.append(k)
            except Raised as r:
                if r.exc != "TypeError":
                    raise Bad(f"_check_mesh_nargs raises {r.exc}")
            except Undec as u:
                raise Bad(f"_check_mesh_nargs: undecided test: {u.why}")
        acc.append((dim, ok))
    return acc


def ctor_arities(src, cls, name):
    owner, fn = src.find_method(cls, name)
    if fn is None:
        raise Bad(f"{cls} has no {name}")
    ok = []
    for k in range(0, 9):
        run = Run(src)
        run.quiet = True
        try:
            run.call(fn, [Unknown("arg")] * k, {}, defcls=owner, selfobj=Obj(cls))
            ok.append(k)
        except Raised as r:
            if r.exc != "TypeError":
                ok.append(k)
        except (Bad, Undec):
            ok.append(k)         # a branch was entered (its body needs real arguments)
    return ok


HEADER = """/- GENERATED by harness/translate/tmesh.py from mesh.py, utilities.py — do not edit.
   Lengths and entries (0-based position p) of the arrays `cellsize._a`, `cellcenters._a`, `facecenters._a`, `dims`,
   `cell_numbers()` that the mesh constructors build, per `_mesh_Dd_param` (D = 1, 2, 3) and calling form
   (`nl`: cell counts n_a and lengths L_a; `faces`: face arrays f_a with n_a + 1 entries); proved equal to the model
   (`mkAxisNL`, `mkAxisFaces` of PyFV/Model/Geom.lean) in PyFV/Props/GenEqMesh.lean. -/
import PyFV.Model.Geom

set_option linter.unusedVariables false

namespace PyFV.Gen.MeshGen

variable {α : Type} [Field α] [LinearOrder α] [IsStrictOrderedRing α]
"""


def lean_str_list(xs):
    return "[" + ", ".join(f'"{x}"' for x in xs) + "]"


def generate(repo):
    status, out = {}, [HEADER]
    tinert.set_repo(repo)
    try:
        src = Source(repo)
    except Bad as ex:
        status["mesh.py"] = f"untranslated: {ex}"
        out.append('def untranslated : List String := ["mesh.py"]\n\nend PyFV.Gen.MeshGen\n')
        return "\n".join(out), status

    def note(key, thunk):
        try:
            r = thunk()
            status[key] = "ok"
            return r
        except Bad as ex:
            status[key] = f"untranslated: {ex}"
        except RecursionError:
            status[key] = "untranslated: recursion"
        return None

    # ---- int_range, _check_mesh_nargs
    def probe_int_range():
        g = src.glob.get("int_range")
        if not g or g[0] != "func":
            raise Bad("int_range is not imported from .utilities")
        run = Run(src)
        try:
            v = run.call(g[1], [Poly.const(1), Poly.var("x")], {})
        except Raised as r:
            raise Bad(f"int_range raises {r.exc}")
        ln, en = describe(run, v)
        return ln, en, run.mins["x"]
    ir = note("int_range", probe_int_range)
    if ir:
        out.append("/-! ### utilities.py: `int_range(a, b)` (here a = 1, b = nx) -/\n")
        out.append(f"def int_range_1_len (nx : ℕ) : ℕ := {ir[0]}\n")
        out.append(f"def int_range_1 (nx p : ℕ) : α := {ir[1]}\n")
        out.append(f"/-- smallest `nx` for which `int_range(1, nx)` does not raise -/\ndef int_range_1_nmin : ℕ := {ir[2]}\n")
    acc = note("_check_mesh_nargs", lambda: arities(src))
    if acc:
        out.append("/-- dim ↦ the argument counts `_check_mesh_nargs(args, dim)` lets through (tried: 0..8) -/\n"
                   "def nargs_accepted : List (ℕ × List ℕ) :=\n  ["
                   + ", ".join(f"({d}, {ok})" for d, ok in acc) + "]\n")

    # ---- the nine classes, two forms each
    base = {}                         # nd -> class
    for cls in KIND:
        base.setdefault(NDIM[cls], cls)
    results = {}                      # (cls, form) -> (run, obj, arrays) | Bad
    for cls in KIND:
        for form in ("faces", "nl"):
            try:
                run, o = build(src, cls, form)
                results[(cls, form)] = (run, o, mesh_arrays(run, o))
            except Bad as ex:
                results[(cls, form)] = ex

    ctor_of = {}
    for nd in (1, 2, 3):
        b = base[nd]
        cname = f"_mesh_{nd}d_param"
        ns = " ".join(f"n{a}" for a in AXES[:nd])
        out.append(f"/-! ### `{cname}` (arrays of `{b}`; the other {nd}-D classes build the same ones: `class_table`) -/\n")
        for form in ("faces", "nl"):
            res = results[(b, form)]
            inputs = (f"({' '.join('f' + a for a in AXES[:nd])} : ℕ → α)" if form == "faces"
                      else f"({' '.join('L' + a for a in AXES[:nd])} : α)")
            pre = f"{form}{nd}"
            for w in WHICH:
                for p in PRIVS:
                    key = f"{cname}.{form}.{w}.{p}"
                    if isinstance(res, Bad):
                        status[key] = f"untranslated: {res}"
                        continue
                    d = res[2][(w, p)]
                    if isinstance(d, Bad):
                        status[key] = f"untranslated: {d}"
                        continue
                    status[key] = "ok"
                    out.append(f"def {pre}_{w}{p}_len ({ns} : ℕ) : ℕ := {d[0]}\n")
                    out.append(f"def {pre}_{w}{p} ({ns} : ℕ) {inputs} (p : ℕ) : α :=\n  {d[1]}\n")
            key = f"{cname}.{form}.dims"
            if isinstance(res, Bad):
                status[key] = f"untranslated: {res}"
                continue
            d = res[2]["dims"]
            if isinstance(d, Bad):
                status[key] = f"untranslated: {d}"
            else:
                status[key] = "ok"
                out.append(f"def {pre}_dims ({ns} : ℕ) : List ℕ := {d}\n")
            run = res[0]
            why = "; ".join(f"n{a} ≥ 1: {w}" for a, w in run.reasons)
            out.append(f"/-- smallest cell counts for which no index / guard of the source fails in this form\n    ({why}) -/\n"
                       f"def {pre}_nmin : List ℕ := [" + ", ".join(str(run.mins[a]) for a in AXES[:nd]) + "]\n")

    # ---- cell_numbers of the base classes
    cn_base = {}
    for nd in (1, 2, 3):
        b = base[nd]

        def cn(b=b):
            res = results[(b, "nl")]
            if isinstance(res, Bad):
                raise Bad(str(res))
            return cell_numbers(src, res[0], res[1])
        r = note(f"{b}.cell_numbers", cn)
        if r:
            cn_base[nd] = r
            ns = " ".join(f"n{a}" for a in AXES[:nd])
            out.append(f"/-! ### `{b}.cell_numbers()` -/\n")
            out.append(f"def cell_numbers_{nd}d_shape ({ns} : ℕ) : List ℕ := {r[0]}\n")
            out.append(f"def cell_numbers_{nd}d ({ns} {' '.join(r[2])} : ℕ) : ℕ := {r[1]}\n")

    # ---- class table
    rows, cnrows, wiring = [], [], None
    for cls in KIND:
        nd = NDIM[cls]

        def row(cls=cls, nd=nd):
            info = None
            for form in ("faces", "nl"):
                res = results[(cls, form)]
                if isinstance(res, Bad):
                    raise Bad(f"{form} form: {res}")
                run, o, arr = res
                bres = results[(base[nd], form)]
                if isinstance(bres, Bad):
                    raise Bad(f"{base[nd]} ({form} form): {bres}")
                for k, d in arr.items():
                    if isinstance(d, Bad):
                        raise Bad(f"{form} form, {k}: {d}")
                    if d != bres[2][k]:
                        raise Bad(f"{form} form: {k if isinstance(k, str) else '.'.join(k)} differs from that of {base[nd]}")
                if run.mins != bres[0].mins:
                    raise Bad(f"{form} form: validity conditions differ from those of {base[nd]}")
                if len(run.ctor_calls) != 1:
                    raise Bad(f"{form} form: {len(run.ctor_calls)} calls of a _mesh_Nd_param")
                nm, owner, _ = run.ctor_calls[0]
                if len(run.check_dims) != 1 or not isinstance(run.check_dims[0], Poly) or not run.check_dims[0].is_const():
                    raise Bad(f"{form} form: `_check_mesh_nargs(args, <dim>)` is not called exactly once with a constant")
                cur = (nm, owner, run.check_dims[0].constval(), public_labels(src, run, o))
                if info is not None and info != cur:
                    raise Bad("the two calling forms use different constructors / labels")
                info = cur
            # direct form: wiring of the six given objects
            run, o = build(src, cls, "direct")
            w = [None] * 6
            for a, v in o.attrs.items():
                if isinstance(v, Given):
                    if w[v.i] is not None:
                        raise Bad("direct form: an argument is stored twice")
                    w[v.i] = a
            if None in w or run.ctor_calls:
                raise Bad("direct form: not all six arguments are stored")
            return info, w
        r = note(f"{cls}.__init__", row)
        if r:
            (nm, owner, cd, labels), w = r
            if wiring is None:
                wiring = w
            if w != wiring:
                status[f"{cls}.__init__"] = "untranslated: direct form: wiring differs from that of the other classes"
                continue
            ctor_of.setdefault(nm, owner)
            rows.append(f'(.{KIND[cls]}, "{nm}", {cd}, [' + ", ".join(f'("{a}", "{b}")' for a, b in labels) + "])")

        def cnrow(cls=cls, nd=nd):
            if nd not in cn_base:
                raise Bad(f"{base[nd]}.cell_numbers is untranslated")
            for form in ("faces", "nl"):
                res = results[(cls, form)]
                if isinstance(res, Bad):
                    raise Bad(f"{form} form: {res}")
                if cell_numbers(src, res[0], res[1]) != cn_base[nd]:
                    raise Bad(f"differs from {base[nd]}.cell_numbers")
            return True
        if cls == base[nd]:
            if status.get(f"{cls}.cell_numbers") == "ok" and note(f"{cls}.cell_numbers", cnrow):
                cnrows.append(f'(.{KIND[cls]}, "cell_numbers_{nd}d")')
        elif note(f"{cls}.cell_numbers", cnrow):
            cnrows.append(f'(.{KIND[cls]}, "cell_numbers_{nd}d")')

    out.append("/-! ### the nine grid classes -/\n")
    out.append("/-- grid class ↦ (`_mesh_Dd_param` called by its `__init__` in both calling forms, the `dim` it gives to\n"
               "    `_check_mesh_nargs`, public coordinate label ↦ private array: the properties of `CellProp` run on the\n"
               "    `coordlabels` of the class); only classes whose arrays are those emitted above -/\n"
               "def class_table : List (Kind × String × ℕ × List (String × String)) :=\n  ["
               + ",\n   ".join(rows) + "]\n")
    out.append("/-- grid class ↦ its `cell_numbers()` -/\ndef cell_numbers_table : List (Kind × String) :=\n  ["
               + ", ".join(cnrows) + "]\n")
    out.append("/-- direct form `__init__(a0, ..., a5)` (six arguments, the first an ndarray): attribute that stores a_i -/\n"
               f"def direct_wiring : List String := {lean_str_list(wiring or [])}\n")

    def ca():
        res = []
        for nd in (1, 2, 3):
            nm = f"_mesh_{nd}d_param"
            res.append((nm, ctor_arities(src, base[nd], nm)))
        return res
    car = note("_mesh_Nd_param.arities", ca)
    if car:
        out.append("/-- constructor ↦ argument counts for which its `if len(args) == ...` chain takes a branch (tried: 0..8);\n"
                   "    every other count raises TypeError -/\n"
                   "def ctor_arities : List (String × List ℕ) :=\n  ["
                   + ", ".join(f'("{n}", {ok})' for n, ok in car) + "]\n")

    # ---- corners / edges: derived (and checked to be exactly the corner / edge cells) by tbc.cellsets
    try:
        import tbc
        for cls in KIND:
            if NDIM[cls] >= 2:         # 1-D grids carry the placeholder np.array([1]) (no corner / edge cells)
                note(f"{cls}.corners_edges", lambda cls=cls: tbc.cellsets(src.info, cls))
    except ImportError as ex:
        for cls in KIND:
            status[f"{cls}.corners_edges"] = f"untranslated: tbc.py not importable ({ex})"

    bad = [k for k, v in sorted(status.items()) if v != "ok"]
    out.append("def untranslated : List String := " + lean_str_list(bad) + "\n")
    out.append("end PyFV.Gen.MeshGen\n")
    return "\n".join(out), status


def main():
    repo = os.environ.get("VERIF_REPO", "/repo")
    dst = sys.argv[1]
    text, status = generate(repo)
    status = tinert.annotate(status)
    write_if_changed(dst, text)
    base = os.path.splitext(os.path.basename(dst))[0].lower()
    write_if_changed(os.path.join(os.path.dirname(os.path.abspath(dst)), f"{base}_status.json"),
                     json.dumps(status, indent=1, sort_keys=True) + "\n")
    print(json.dumps(status))


if __name__ == "__main__":
    main()
