#!/usr/bin/env python3
"""T-state: regenerate the OBJECT-GRAPH STATE MACHINE (property C09) from the Python source.

  python3 harness/translate/tstate.py lean/PyFV/Gen/StateGen.lean

writes  <out>                        Lean definitions (namespace PyFV.Gen.StateGen): one program of the instruction set
                                     PyFV.Model.StateIR (`Prog`, boolean methods: `BExp`) per Python function, and the
                                     flag-level getters / setters of boundary.py as functions on `FaceFlags` / `BCFlags`
        <dir>/stategen_status.json   {function: "ok" | "untranslated: reason"}
and prints the status as one JSON line.  stdlib `ast` only; nothing is imported from the package; the source root is
$VERIF_REPO (default /repo).  PyFV/Props/GenEqState.lean proves every generated program equal to the hand-written
state machine (PyFV/Model/State.lean: `applyBCs`, `outdated`, `step`).

Translation is by EXACT STATEMENT PATTERNS.  S, T are object references: the first parameter of the function (`self`,
`phi`, `phi_old`; in `funceval`: `args[0]`) = `.self`, the second CellVariable parameter (`new_cell`) = `.other`, the
local name bound to a `CellVariable(...)` call = `.new`.

  statement                                                         instructions
  ----------------------------------------------------------------  ------------------------------------------------
  docstring                                                         (none)
  S._value = TrackedArray(cellValuesWithBoundaries(S.value, S.BCs)) ghostFromCurrent S; setValMod S false      [1]
  S._value = TrackedArray(<fresh ghosted array>)                    newInterior S; setValMod S false            [1][2]
  self._value = TrackedArray(cell_value)   (`__init__`, ghost-shaped value; also with `np.asarray(cell_value[,
                                            dtype=float])` around it)  valueFrom new <source>; setValMod new false   [1][6]
  S._value[1:-1, ...] = <parameter>     (value setter)              newInterior S; setValMod S true             [3]
  S.value[...] = ...                    (user item assignment)      newInterior S; setValMod S true             [3][4]
  S._BCsTerm = boundaryConditionsTerm(S.BCs)                        cacheFromCurrent S
  S._BCs_applied = S.BCs._state_token()                             setApplied S
  T._BCs_applied = S._BCs_applied                                   copyApplied T S
  S.BCs.modified = False                                            setBCMod S false                            [5]
  S.value.modified = True|False                                     setValMod S b                               [4]
  S._value.modified = True|False                                    setValMod S b
  T.value.modified = S.value.modified                               copyValMod T S                              [4]
  np.copyto(S._value, T._value)                                     valueFrom S T
  S.BCsTerm_precalc = True|False                                    setPrecalc S b
  S.apply_BCs()                                                     call apply_BCs S
  Mbc, RHSbc = S._BCsTerm                                           readCache S      (both names must be used later)
  if <test>: ... elif ...: ... else: ...   (test = boolean expr.)   ite
  return S                                                          ret S
  N = CellVariable(S.domain, VAL, BCARG [, BCsTerm_precalc=K])      <BCARG>; allocVar; <__init__ specialised>   [6]
  return CellVariable(...)                                          the same; ret new
  if <untracked test>: A else: B   with A, B the same program       that program                                [7]
  self.domain = mesh_struct                                         (none: `domain` is not a tracked attribute)
  numerical payload                                                 (none)                                      [8]
  t = E; <simple statement containing the only other use of t>      as that statement with t replaced by E      [9]

  boolean expressions: S.BCsTerm_precalc, S.BCs.modified, S.value.modified [4], S._value.modified,
    S._BCs_applied != S.BCs._state_token() (== : negated), S._BCs_outdated() (call of the translated method),
    hasattr(S, '_BCsTerm'), True, False, not / and / or (left-nested).

  [1] `TrackedArray.__new__` sets `_modified = False`.
  [2] a local name bound to an arithmetic expression / a call result that aliases no tracked array, or np.reshape of one.
  [3] `TrackedArray.__setitem__` sets `_modified = True` on the array and on its TrackedArray base.
  [4] `CellVariable.value` is a basic-slice VIEW of `_value`; the getter / setter of `TrackedArray.modified` read / write
      the flag of the base.
  [5] the setter `BoundaryConditionsBase.modified` is translated to `BCs_modified_set`; GenEqState proves that it clears
      all flags WHATEVER value is assigned, so only the assignment of `False` is accepted here.
  [6] VAL: a numeric literal (initConst), `np.copy(S._value)` (valueFrom new S), an interior-shaped array: a pure
      expression over `S.value`, `other.value`, `other`, `f(...)` (initFresh).  BCARG: `deepcopy(S.BCs)` (bcDeepcopy S),
      `S.BCs` (bcOf S), a user object (bcArg), absent.  `__init__` is executed symbolically for this configuration:
      `np.isscalar(cell_value)`, `cell_value.shape == tuple(mesh_struct.dims[+2])`, `len(arg) == k`,
      `self._value is None` are decided statically, `cell_value.size == 1` is undecided for an interior-shaped array
      (both branches must give the same program), `if self.BCsTerm_precalc` stays a run-time test.
  [7] also the chains without `else` of the `value` setter (`issubclass(type(self.domain), Grid{1,2,3}D)`: TRUSTED
      exhaustive, every mesh class derives from one of them) and of `funceval` (`len(args) == 1..8`).
  [8] docstrings, comments, and statements that only bind local names: `Assign` / `AugAssign` to local names, `if` /
      `for` over such statements, `raise`.  CHECKED: no attribute / item store, `del` or augmented assignment whose
      root is an object reference or a local that may alias a tracked array (`Mbc`, `RHSbc`, names bound to
      `S._value`, `S.value`, `S.BCs`, `S._BCsTerm` or slices of them); no method call on an object reference or such
      a local except `.copy()` / `.reshape()`; no tracked object passed to a call (except isinstance / getattr / len /
      type / np.reshape / np.copy / np.isscalar / hasattr); no `setattr`, `delattr`, `__dict__`, `__setattr__`, `vars`,
      `exec`, `eval`, `globals`, `locals`; the object references are never rebound.
  [9] single-use temporaries (`ghosted = cellValuesWithBoundaries(self.value, self.BCs)` + `self._value =
      TrackedArray(ghosted)`; `bcs = deepcopy(self.BCs)` + `CellVariable(..., bcs)`): ONLY when `t = E` alone is
      not understood, the next statement is simple (no `if` / loop / lambda / comprehension), `t` is a plain local
      stored once and loaded once in the whole function.  The merged statement must match a pattern of this table;
      their sub-expressions are reads, so evaluating E at its place of use instead of one statement earlier
      changes nothing.  `return`s in all branches of an `if`: the references bound inside the branches are dropped.
INERT statements (tinert.py: print / warnings.warn / logging calls and asserts on PURE expressions, `pass`, `if <pure>:`
over such statements, validation guards `if <pure>: raise E(...)`, assignments to locals that only such statements read)
are skipped BEFORE any pattern is tried, wherever they stand (top level, inside an `if` / `for`, in the methods of
boundary.py, in `_BCs_outdated`, in the `value` getter, in the methods of `TrackedArray`): they emit no instruction,
do not count as a use of `Mbc` / `RHSbc`, and do not disturb the order of the tracked statements.  A pure expression
may READ tracked attributes (`phi.value.shape`, `phi.BCs.modified`) but contains no method call, no store, no `:=`, and
only calls of a closed list of side-effect-free functions, so a skipped statement cannot change a tracked field.
Keyword-only / trailing parameters with a default that only inert statements read are ignored in the signature checks
(also in `CellVariable.__init__` and the `TrackedArray` templates).
ANY other statement makes the function `untranslated: <reason>`: no definition is emitted, its name is listed in
`untranslated`, the theorems about it in GenEqState.lean no longer compile.  A function that calls an untranslated
function is untranslated.

boundary.py (flag level; `FaceFlags` = the `modified` flags of `_a`, `_b`, `_c`; `BCFlags` = six faces):
  BoundaryFace.modified getter        `x = A or B or C; return x` over `self._a.modified` ...       BoundaryFace_modified_get
  BoundaryFace.modified setter        `modval = bool(val)`; `self._a.modified = modval` ...          BoundaryFace_modified_set
  BoundaryFace.a|b|c setters          `self._a[:] = val`                                            BoundaryFace_set_a|b|c  [3]
  BoundaryFace.periodic setter        `self.modified = True; self._periodic = bool(val)`            BoundaryFace_set_periodic
  defaultNoFlux, fixedValue, fixedGradient, newtonCooling   `self.a = ..; self.b = ..; self.c = ..` + payload
  BoundaryConditionsBase.modified     getter: `or` over `self.<side>.modified`; setter: `self.<side>.modified = <const>`
  BoundaryConditionsBase._state_token `tuple((np.asarray(f.a).tobytes(), ..., bool(f.periodic)) for f in (self.left, ...))`
                                      -> state_token_fields : List (Side x Coef)
utilities.py: the five methods of `TrackedArray` must be EXACTLY the templates below (docstrings and inert statements aside).
Trusted: `TrackedArray(x)` / basic slicing create views, `np.copy` / arithmetic create new arrays, `deepcopy` copies
content and (through `__array_finalize__`) the flags, `.tobytes()` captures the values.
"""
import ast, sys, os, json

sys.path.insert(0, os.path.dirname(os.path.abspath(__file__)))
import tinert                                                  # noqa: E402


class Bad(Exception):
    pass


def write_if_changed(path, text):
    old = open(path).read() if os.path.exists(path) else None
    if old != text:
        os.makedirs(os.path.dirname(os.path.abspath(path)), exist_ok=True)
        with open(path, "w") as f:
            f.write(text)


TRACKED = {"_value", "value", "BCs", "_BCsTerm", "_BCs_applied", "BCsTerm_precalc"}
UNTRACKED_STORE = {"domain"}
FORBIDDEN_NAMES = {"setattr", "delattr", "exec", "eval", "globals", "locals", "vars", "__dict__", "__setattr__",
                   "__delattr__", "object"}
PURE_FUNCS = {"isinstance", "getattr", "len", "type", "issubclass", "np.reshape", "np.copy", "np.isscalar", "hasattr",
              "tuple", "bool", "np.ones", "np.asarray"}
PURE_METHODS = {"copy", "reshape"}
SIDES = ["left", "right", "bottom", "top", "back", "front"]


def U(n):
    return ast.unparse(n)


def strip_doc(body):
    if body and isinstance(body[0], ast.Expr) and isinstance(body[0].value, ast.Constant) \
            and isinstance(body[0].value.value, str):
        return body[1:]
    return body


def is_doc(st):
    return isinstance(st, ast.Expr) and isinstance(st.value, ast.Constant) and isinstance(st.value.value, str)


def sbody(fn):
    """the body of `fn` without its docstring and without inert statements (tinert.py)"""
    return strip_doc(tinert.live_body(fn))


# ---------------------------------------------------------------------------------------------------------
# module access
# ---------------------------------------------------------------------------------------------------------
class Module:
    def __init__(self, path):
        self.tree = tinert.register(ast.parse(open(path).read()))

    def func(self, name):
        for n in self.tree.body:
            if isinstance(n, ast.FunctionDef) and n.name == name:
                return n
        raise Bad(f"function {name} not found")

    def cls(self, name):
        for n in self.tree.body:
            if isinstance(n, ast.ClassDef) and n.name == name:
                return n
        raise Bad(f"class {name} not found")

    def method(self, cname, name, kind=None):
        """kind: None (plain def, exactly one), 'getter' (@property), 'setter' (@name.setter)"""
        found = []
        for n in self.cls(cname).body:
            if isinstance(n, ast.FunctionDef) and n.name == name:
                decs = [U(d) for d in n.decorator_list]
                k = "getter" if decs == ["property"] else "setter" if decs == [f"{name}.setter"] else \
                    None if not decs else "overload" if decs == ["overload"] else "other"
                if k == kind:
                    found.append(n)
        if len(found) != 1:
            raise Bad(f"{cname}.{name} ({kind or 'method'}): {len(found)} definitions")
        return found[0]


# ---------------------------------------------------------------------------------------------------------
# utilities.py: TrackedArray must be exactly this
# ---------------------------------------------------------------------------------------------------------
TRACKED_TEMPLATE = '''
class TrackedArray(np.ndarray):
    def __new__(cls, input_array):
        obj = np.asarray(input_array).view(cls)
        obj._modified = False
        return obj

    def __array_finalize__(self, obj):
        if obj is None:
            return
        self._modified = getattr(obj, '_modified', False)

    def __setitem__(self, key, value):
        super().__setitem__(key, value)
        self._modified = True
        if self.base is not None and isinstance(self.base, TrackedArray):
            self.base._modified = True

    @property
    def modified(self):
        if self.base is not None and isinstance(self.base, TrackedArray):
            return self._modified or self.base._modified
        return self._modified

    @modified.setter
    def modified(self, value):
        self._modified = bool(value)
        if self.base is not None and isinstance(self.base, TrackedArray):
            self.base._modified = bool(value)
'''


def check_tracked_array(util):
    def norm(c):
        out = []
        for n in c.body:
            if is_doc(n):
                continue
            if isinstance(n, ast.FunctionDef):
                m = ast.FunctionDef(name=n.name, args=tinert.effective_args(n), body=sbody(n) or [ast.Pass()],
                                    decorator_list=n.decorator_list, returns=None, type_comment=None)
                out.append(ast.dump(m))
            else:
                out.append(ast.dump(n))
        return [ast.dump(b) for b in c.bases], out
    got = norm(util.cls("TrackedArray"))
    want = norm(ast.parse(TRACKED_TEMPLATE).body[0])
    if got[0] != want[0]:
        raise Bad("TrackedArray: base classes")
    if len(got[1]) != len(want[1]):
        raise Bad(f"TrackedArray: {len(got[1])} members instead of {len(want[1])}")
    for g, w, nm in zip(got[1], want[1], ["__new__", "__array_finalize__", "__setitem__", "modified (getter)",
                                         "modified (setter)"]):
        if g != w:
            raise Bad(f"TrackedArray.{nm} is not the expected method")
    return {"new_flag": False, "setitem_flag": True}


def check_value_getter(cell):
    """`CellVariable.value` returns a basic-slice view of `self._value` in every branch"""
    fn = cell.method("CellVariable", "value", "getter")

    def ok_ret(st):
        if not (isinstance(st, ast.Return) and isinstance(st.value, ast.Subscript) and U(st.value.value) == "self._value"):
            return False
        sl = st.value.slice
        items = sl.elts if isinstance(sl, ast.Tuple) else [sl]
        return all(U(i) == "1:-1" for i in items)

    def chain(st):
        if not (isinstance(st, ast.If) and len(st.body) == 1 and ok_ret(st.body[0])):
            return False
        if not st.orelse:
            return True
        return len(st.orelse) == 1 and chain(st.orelse[0])
    body = sbody(fn)
    if not (len(body) == 1 and chain(body[0])):
        raise Bad("CellVariable.value getter is not a chain of `return self._value[1:-1, ...]`")


# ---------------------------------------------------------------------------------------------------------
# boundary.py: flag-level functions
# ---------------------------------------------------------------------------------------------------------
def lean_bool(b):
    return "true" if b else "false"


def face_getter(fn):
    body = sbody(fn)
    env = {}
    for st in body[:-1]:
        if not (isinstance(st, ast.Assign) and len(st.targets) == 1 and isinstance(st.targets[0], ast.Name)):
            raise Bad(f"BoundaryFace.modified getter: statement {U(st)[:40]}")
        env[st.targets[0].id] = st.value
    if not body or not isinstance(body[-1], ast.Return) or body[-1].value is None:
        raise Bad("BoundaryFace.modified getter: no return")

    def ex(n):
        if isinstance(n, ast.Name) and n.id in env:
            return ex(env[n.id])
        if isinstance(n, ast.BoolOp):
            op = " || " if isinstance(n.op, ast.Or) else " && "
            return "(" + op.join(ex(v) for v in n.values) + ")"
        if isinstance(n, ast.UnaryOp) and isinstance(n.op, ast.Not):
            return f"(!{ex(n.operand)})"
        for k in "abc":
            if U(n) == f"self._{k}.modified":
                return f"f.{k}"
        raise Bad(f"BoundaryFace.modified getter: expression {U(n)[:40]}")
    return ex(body[-1].value)


def face_setter(fn):
    """sequence of `self._k.modified = E` with E = val / bool(val) / a local bound to one / constant"""
    if [a.arg for a in fn.args.args] != ["self", "val"]:
        raise Bad("BoundaryFace.modified setter: signature")
    env = {}
    cur = "f"

    def val(n):
        if isinstance(n, ast.Constant) and isinstance(n.value, bool):
            return lean_bool(n.value)
        if isinstance(n, ast.Name) and n.id == "val":
            return "val"
        if isinstance(n, ast.Name) and n.id in env:
            return env[n.id]
        if isinstance(n, ast.Call) and U(n.func) == "bool" and len(n.args) == 1 and not n.keywords:
            return val(n.args[0])
        raise Bad(f"BoundaryFace.modified setter: value {U(n)[:40]}")
    for st in sbody(fn):
        if isinstance(st, ast.Assign) and len(st.targets) == 1:
            t = st.targets[0]
            if isinstance(t, ast.Name):
                env[t.id] = val(st.value)
                continue
            hit = [k for k in "abc" if U(t) == f"self._{k}.modified"]
            if hit:
                cur = f"{{ {cur} with {hit[0]} := {val(st.value)} }}"
                continue
        raise Bad(f"BoundaryFace.modified setter: statement {U(st)[:40]}")
    return cur


def face_methods(bnd, facts):
    """flag effect of the editing methods of BoundaryFace; returns [(lean name, python name, lean body)]"""
    out = []
    flag = lean_bool(facts["setitem_flag"])
    for k in "abc":
        fn = bnd.method("BoundaryFace", k, "setter")
        body = sbody(fn)
        if not (len(body) == 1 and isinstance(body[0], ast.Assign) and len(body[0].targets) == 1
                and U(body[0].targets[0]) == f"self._{k}[:]" and isinstance(body[0].value, ast.Name)
                and body[0].value.id == fn.args.args[1].arg):
            raise Bad(f"BoundaryFace.{k} setter is not `self._{k}[:] = val`")
        g = bnd.method("BoundaryFace", k, "getter")
        gb = sbody(g)
        if not (len(gb) == 1 and isinstance(gb[0], ast.Return) and U(gb[0].value) == f"self._{k}"):
            raise Bad(f"BoundaryFace.{k} getter is not `return self._{k}`")
        out.append((f"BoundaryFace_set_{k}", f"{k}.setter", f"{{ f with {k} := {flag} }}"))
    fn = bnd.method("BoundaryFace", "periodic", "setter")
    body = sbody(fn)
    pv = fn.args.args[1].arg
    if not (len(body) == 2 and all(isinstance(s, ast.Assign) and len(s.targets) == 1 for s in body)
            and U(body[0].targets[0]) == "self.modified" and isinstance(body[0].value, ast.Constant)
            and isinstance(body[0].value.value, bool)
            and U(body[1].targets[0]) == "self._periodic" and U(body[1].value) in (f"bool({pv})", pv)):
        raise Bad("BoundaryFace.periodic setter is not `self.modified = <const>; self._periodic = bool(val)`")
    out.append(("BoundaryFace_set_periodic", "periodic.setter",
                f"BoundaryFace_modified_set f {lean_bool(body[0].value.value)}"))
    for nm in ("defaultNoFlux", "fixedValue", "fixedGradient", "newtonCooling"):
        fn = bnd.method("BoundaryFace", nm)
        cur = "f"
        n_sets = 0
        for st in sbody(fn):
            if isinstance(st, ast.Assign) and len(st.targets) == 1 and isinstance(st.targets[0], ast.Attribute) \
                    and isinstance(st.targets[0].value, ast.Name) and st.targets[0].value.id == "self":
                k = st.targets[0].attr
                if k not in ("a", "b", "c"):
                    raise Bad(f"BoundaryFace.{nm}: assignment to self.{k}")
                if any(isinstance(x, ast.Name) and x.id == "self" for x in ast.walk(st.value)):
                    raise Bad(f"BoundaryFace.{nm}: value mentions self")
                cur = f"BoundaryFace_set_{k} ({cur})" if cur != "f" else f"BoundaryFace_set_{k} f"
                n_sets += 1
                continue
            # payload: binds local names only
            for x in ast.walk(st):
                if isinstance(x, (ast.Attribute, ast.Subscript)) and isinstance(x.ctx, (ast.Store, ast.Del)):
                    raise Bad(f"BoundaryFace.{nm}: store {U(x)[:30]}")
                if isinstance(x, ast.Call) or (isinstance(x, ast.Name) and x.id == "self"):
                    raise Bad(f"BoundaryFace.{nm}: statement {U(st)[:40]}")
            if not isinstance(st, (ast.Assign, ast.If)):
                raise Bad(f"BoundaryFace.{nm}: statement {type(st).__name__}")
        if n_sets == 0:
            raise Bad(f"BoundaryFace.{nm}: assigns no coefficient")
        out.append((f"BoundaryFace_{nm}", nm, cur))
    return out


def bcs_getter(fn):
    body = sbody(fn)
    if not (len(body) == 1 and isinstance(body[0], ast.Return) and body[0].value is not None):
        raise Bad("BoundaryConditionsBase.modified getter: not a single return")

    def ex(n):
        if isinstance(n, ast.BoolOp):
            op = " || " if isinstance(n.op, ast.Or) else " && "
            return "(" + op.join(ex(v) for v in n.values) + ")"
        for sd in SIDES:
            if U(n) == f"self.{sd}.modified":
                return f"BoundaryFace_modified_get F.{sd}"
        raise Bad(f"BoundaryConditionsBase.modified getter: expression {U(n)[:40]}")
    return ex(body[0].value)


def bcs_setter(fn):
    if [a.arg for a in fn.args.args] != ["self", "val"]:
        raise Bad("BoundaryConditionsBase.modified setter: signature")
    lines = []
    for st in sbody(fn):
        ok = False
        if isinstance(st, ast.Assign) and len(st.targets) == 1:
            for sd in SIDES:
                if U(st.targets[0]) == f"self.{sd}.modified":
                    v = st.value
                    if isinstance(v, ast.Constant) and isinstance(v.value, bool):
                        e = lean_bool(v.value)
                    elif isinstance(v, ast.Name) and v.id == "val":
                        e = "val"
                    elif U(v) == "bool(val)":
                        e = "val"
                    else:
                        raise Bad(f"BoundaryConditionsBase.modified setter: value {U(v)[:30]}")
                    lines.append(f"  let F : BCFlags := {{ F with {sd} := BoundaryFace_modified_set F.{sd} {e} }}")
                    ok = True
        if not ok:
            raise Bad(f"BoundaryConditionsBase.modified setter: statement {U(st)[:40]}")
    return "\n".join(lines + ["  F"])


def state_token(fn):
    body = sbody(fn)
    if not (len(body) == 1 and isinstance(body[0], ast.Return)):
        raise Bad("_state_token: not a single return")
    c = body[0].value
    if not (isinstance(c, ast.Call) and U(c.func) == "tuple" and len(c.args) == 1 and not c.keywords
            and isinstance(c.args[0], ast.GeneratorExp) and len(c.args[0].generators) == 1):
        raise Bad("_state_token: not tuple(<generator>)")
    g = c.args[0]
    comp = g.generators[0]
    if comp.ifs or comp.is_async or not isinstance(comp.target, ast.Name) or not isinstance(comp.iter, (ast.Tuple, ast.List)):
        raise Bad("_state_token: generator form")
    f = comp.target.id
    sides = []
    for e in comp.iter.elts:
        hit = [sd for sd in SIDES if U(e) == f"self.{sd}"]
        if not hit:
            raise Bad(f"_state_token: iterates over {U(e)[:30]}")
        sides.append(hit[0])
    if not isinstance(g.elt, ast.Tuple):
        raise Bad("_state_token: element is not a tuple")
    coefs = []
    for e in g.elt.elts:
        s = U(e)
        hit = [k for k in "abc" if s == f"np.asarray({f}.{k}).tobytes()"]
        if hit:
            coefs.append(hit[0])
        elif s == f"bool({f}.periodic)":
            coefs.append("periodic")
        else:
            raise Bad(f"_state_token: component {s[:40]}")
    return [(sd, k) for sd in sides for k in coefs]


# ---------------------------------------------------------------------------------------------------------
# cell.py / pdesolver.py: statement translator
# ---------------------------------------------------------------------------------------------------------
def P(name, *args):
    return ("prim", name, list(args))


class RefSub(ast.NodeTransformer):
    """replace every sub-expression that denotes an object reference by the name REF_<ref>"""

    def __init__(self, ctx):
        self.ctx = ctx

    def visit(self, node):
        if isinstance(node, ast.expr):
            r = self.ctx.ref(node)
            if r is not None:
                return ast.copy_location(ast.Name(id=f"REF_{r}", ctx=ast.Load()), node)
        return super().visit(node)


class Ctx:
    def __init__(self, tr, fname, refs, ref_exprs=None, params=(), ctor=None):
        self.tr, self.fname = tr, fname
        self.refs = dict(refs)                  # name -> self | other | new
        self.ref_exprs = dict(ref_exprs or {})  # unparsed expression -> ref
        self.params = set(params)               # other parameters
        self.locals, self.tainted = set(), set()
        self.fresh = set()                      # locals bound to a new array (arithmetic / call result)
        self.cache_names, self.loads = [], []
        self.ctor = ctor
        self.returned = False
        self.user_bc = set()                    # names standing for a user-supplied BC object (synthetic calls)
        self.user_interior = set()              # names standing for a user-supplied interior-shaped array

    def fork(self):
        c = Ctx(self.tr, self.fname, self.refs, self.ref_exprs, self.params, dict(self.ctor) if self.ctor else None)
        c.fn_node = getattr(self, "fn_node", None)
        c.locals, c.tainted, c.fresh = set(self.locals), set(self.tainted), set(self.fresh)
        c.cache_names, c.loads = list(self.cache_names), self.loads
        c.user_bc, c.user_interior = self.user_bc, self.user_interior
        return c

    def join(self, a, b):
        if a.refs != b.refs:
            if not (a.returned is True and b.returned is True):
                raise Bad("the branches of an `if` bind different object references")
            # both branches have returned: nothing is executed after the `if`; keep the common bindings only
            a.refs = {k: v for k, v in a.refs.items() if b.refs.get(k) == v}
        self.refs = a.refs
        self.locals = a.locals | b.locals
        self.tainted = a.tainted | b.tainted
        self.fresh = a.fresh & b.fresh
        self.cache_names = a.cache_names if a.cache_names == b.cache_names else a.cache_names + b.cache_names
        if self.ctor is not None:
            if a.ctor != b.ctor:
                raise Bad("the branches of an `if` of __init__ leave different static facts")
            self.ctor = a.ctor
        self.returned = a.returned and b.returned
        if a.returned != b.returned:
            self.returned = "partial"

    # ---- references
    def ref(self, node):
        if isinstance(node, ast.Name) and node.id in self.refs:
            return self.refs[node.id]
        if isinstance(node, ast.Subscript) and U(node) in self.ref_exprs:
            return self.ref_exprs[U(node)]
        return None

    def norm(self, node):
        import copy
        return U(ast.fix_missing_locations(RefSub(self).visit(copy.deepcopy(node))))

    def root(self, node):
        while isinstance(node, (ast.Attribute, ast.Subscript, ast.Starred)):
            if self.ref(node) is not None:
                return node
            node = node.value
        return node

    def is_tracked_obj(self, node):
        """does the expression denote a tracked object: a reference, `S.<tracked attr>[...]`, a tainted local"""
        if self.ref(node) is not None:
            return True
        if isinstance(node, ast.Name):
            return node.id in self.tainted
        if isinstance(node, ast.Starred):
            return self.is_tracked_obj(node.value)
        if isinstance(node, (ast.Attribute, ast.Subscript)):
            r = self.root(node)
            if isinstance(r, ast.Name) and r.id in self.tainted:
                return True
            if self.ref(r) is not None:
                n = node
                chain = []
                while n is not r:
                    if isinstance(n, ast.Attribute):
                        chain.append(n.attr)
                    n = n.value
                first = chain[-1] if chain else None
                if first in TRACKED:
                    # reading a scalar property of a tracked array / the flags is not passing the object
                    return not (chain[0] in ("shape", "size", "ndim", "modified", "dims") and len(chain) >= 2)
                return False
        return False

    # ---- purity
    def check_pure(self, node, user_calls=()):
        for x in ast.walk(node):
            if isinstance(x, ast.Name) and x.id in FORBIDDEN_NAMES:
                raise Bad(f"`{x.id}` is used")
            if isinstance(x, ast.Attribute) and x.attr in FORBIDDEN_NAMES:
                raise Bad(f"`.{x.attr}` is used")
            if isinstance(x, (ast.Lambda, ast.NamedExpr, ast.Yield, ast.YieldFrom, ast.Await, ast.ListComp, ast.SetComp,
                              ast.DictComp, ast.GeneratorExp, ast.FunctionDef, ast.ClassDef, ast.Global, ast.Nonlocal,
                              ast.Try, ast.With, ast.While, ast.Delete, ast.Import, ast.ImportFrom)):
                raise Bad(f"{type(x).__name__} (line {getattr(x, 'lineno', '?')})")
            if isinstance(x, ast.Name) and isinstance(x.ctx, (ast.Store, ast.Del)) and x.id in self.refs:
                raise Bad(f"the object reference `{x.id}` is rebound (line {x.lineno})")
            if isinstance(x, (ast.Attribute, ast.Subscript)) and isinstance(x.ctx, (ast.Store, ast.Del)):
                r = self.root(x)
                if self.ref(r) is not None:
                    raise Bad(f"store to `{U(x)[:40]}` (line {x.lineno}): attribute / item of an object reference")
                if not isinstance(r, ast.Name):
                    raise Bad(f"store to `{U(x)[:40]}` (line {x.lineno})")
                if r.id in self.tainted:
                    raise Bad(f"store to `{U(x)[:40]}` (line {x.lineno}): `{r.id}` may alias a tracked array")
                if isinstance(x, ast.Attribute) or r.id not in self.fresh:
                    raise Bad(f"store to `{U(x)[:40]}` (line {x.lineno}): `{r.id}` is not a local fresh array")
            if isinstance(x, ast.Call):
                f = x.func
                fname = U(f)
                if isinstance(f, ast.Attribute) and not fname.startswith("np."):
                    recv = f.value
                    if (self.is_tracked_obj(recv) or self.ref(self.root(recv)) is not None) and f.attr not in PURE_METHODS:
                        raise Bad(f"method call `{fname[:40]}(...)` on a tracked object (line {x.lineno})")
                if fname in PURE_FUNCS:
                    continue
                for a in list(x.args) + [k.value for k in x.keywords]:
                    if self.is_tracked_obj(a) and fname not in user_calls:
                        raise Bad(f"`{U(a)[:30]}` is passed to `{fname[:30]}` (line {x.lineno})")

    def tainted_expr(self, v):
        if isinstance(v, ast.Name):
            return v.id in self.tainted
        if isinstance(v, (ast.Tuple, ast.List)):
            return any(self.tainted_expr(e) for e in v.elts)
        if isinstance(v, ast.IfExp):
            return self.tainted_expr(v.body) or self.tainted_expr(v.orelse)
        if isinstance(v, (ast.Attribute, ast.Subscript, ast.Starred)):
            return self.is_tracked_obj(v)
        if isinstance(v, ast.Call):
            f = U(v.func)
            if f in ("np.copy",) or (isinstance(v.func, ast.Attribute) and v.func.attr == "copy"):
                return False
            if isinstance(v.func, ast.Attribute) and not f.startswith("np.") and self.is_tracked_obj(v.func.value):
                return True
            return any(self.is_tracked_obj(a) for a in v.args)
        return False

    def fresh_expr(self, v):
        """certainly a new array / scalar that aliases nothing tracked"""
        if isinstance(v, (ast.BinOp, ast.UnaryOp, ast.Compare, ast.Constant)):
            return True
        if isinstance(v, ast.Call):
            f = U(v.func)
            if f == "np.copy" or (isinstance(v.func, ast.Attribute) and v.func.attr == "copy" and not v.args):
                return True
            if isinstance(v.func, ast.Name) and v.func.id not in ("TrackedArray",) and not self.tainted_expr(v):
                return v.func.id in self.locals or v.func.id in self.params      # result of a callable held in a local
        return False

    # ---- payload
    def inert(self):
        return tinert.analysis(getattr(self, "fn_node", None))

    def payload(self, st):
        """True if `st` only binds local names (CHECKED); raises Bad when it touches a tracked object"""
        if not self.inert().is_inert(st):
            return self.payload0(st)
        # an inert statement (tinert.py; purely syntactic, cannot write) inside a payload `if` / `for`: the usual checks
        # first (a `raise` guard, a local assignment are payload anyway); if they do not accept it, it is skipped
        try:
            if self.payload0(st):
                return True
        except Bad:
            pass
        return self.inert().skip_guard(st)

    def payload0(self, st):
        if is_doc(st) or isinstance(st, ast.Pass):
            return True
        if isinstance(st, ast.Raise):
            self.check_pure(st)
            return True
        if isinstance(st, ast.Assign):
            self.check_pure(st)
            names = []
            for t in st.targets:
                if isinstance(t, ast.Name):
                    names.append(t.id)
                elif isinstance(t, (ast.Tuple, ast.List)) and all(isinstance(e, ast.Name) for e in t.elts):
                    names += [e.id for e in t.elts]
                elif isinstance(t, ast.Subscript):
                    continue                                   # item store into a fresh local (checked by check_pure)
                else:
                    raise Bad(f"assignment target `{U(t)[:40]}` (line {st.lineno})")
            for n in names:
                if n in self.params:
                    raise Bad(f"parameter `{n}` is rebound (line {st.lineno})")
                self.locals.add(n)
                self.tainted.discard(n)
                self.fresh.discard(n)
                if self.tainted_expr(st.value):
                    self.tainted.add(n)
                elif self.fresh_expr(st.value) and len(names) == 1:
                    self.fresh.add(n)
            return True
        if isinstance(st, ast.AugAssign):
            self.check_pure(st.value)
            t = st.target
            if not (isinstance(t, ast.Name) and t.id in self.fresh):
                raise Bad(f"augmented assignment to `{U(t)[:30]}` (line {st.lineno}), which is not a local fresh array")
            return True
        if isinstance(st, ast.If):
            self.check_pure(st.test)
            for s in st.body + st.orelse:
                if not self.payload(s):
                    return False
            return True
        if isinstance(st, ast.For):
            self.check_pure(st.iter)
            if st.orelse:
                raise Bad("for ... else")
            tn = [st.target] if isinstance(st.target, ast.Name) else \
                list(st.target.elts) if isinstance(st.target, ast.Tuple) else None
            if tn is None or not all(isinstance(e, ast.Name) for e in tn):
                raise Bad(f"loop target (line {st.lineno})")
            for e in tn:
                if e.id in self.refs or e.id in self.params:
                    raise Bad(f"loop variable `{e.id}` shadows a parameter")
                self.locals.add(e.id)
                self.fresh.discard(e.id)
                if self.tainted_expr(st.iter):
                    self.tainted.add(e.id)
            for s in st.body:
                if not self.payload(s):
                    return False
            return True
        return False

    # ---- boolean expressions over the tracked fields
    def bexp(self, t):
        if isinstance(t, ast.Constant) and isinstance(t.value, bool):
            return ("tt",) if t.value else ("ff",)
        if isinstance(t, ast.BoolOp):
            vs = [self.bexp(v) for v in t.values]
            if any(v is None for v in vs):
                if all(v is None for v in vs):
                    return None
                raise Bad(f"test `{U(t)[:50]}` mixes tracked and untracked conditions")
            op = "or" if isinstance(t.op, ast.Or) else "and"
            acc = vs[0]
            for v in vs[1:]:
                acc = (op, acc, v)
            return acc
        if isinstance(t, ast.UnaryOp) and isinstance(t.op, ast.Not):
            v = self.bexp(t.operand)
            return None if v is None else ("not", v)
        s = self.norm(t)
        import re
        m = re.fullmatch(r"REF_(\w+)\.BCsTerm_precalc", s)
        if m:
            return ("precalc", m.group(1))
        m = re.fullmatch(r"REF_(\w+)\.BCs\.modified", s)
        if m:
            return ("bcModified", m.group(1))
        m = re.fullmatch(r"REF_(\w+)\.(value|_value)\.modified", s)
        if m:
            return ("valModified", m.group(1))
        m = re.fullmatch(r"REF_(\w+)\._BCs_applied (!=|==) REF_(\w+)\.BCs\._state_token\(\)", s) or \
            re.fullmatch(r"REF_(\w+)\.BCs\._state_token\(\) (!=|==) REF_(\w+)\._BCs_applied", s)
        if m and m.group(1) == m.group(3):
            e = ("appliedNeToken", m.group(1))
            return e if m.group(2) == "!=" else ("not", e)
        m = re.fullmatch(r"REF_(\w+)\._BCs_outdated\(\)", s)
        if m:
            self.tr.need("_BCs_outdated")
            return ("callb", "BCs_outdated", m.group(1))
        m = re.fullmatch(r"hasattr\(REF_(\w+), '_BCsTerm'\)", s)
        if m:
            return ("hasCache", m.group(1))
        if "REF_" in s and any(f".{a}" in s for a in TRACKED):
            raise Bad(f"test `{U(t)[:50]}` reads a tracked attribute in a form that is not understood")
        return None

    # ---- static tests of __init__
    def static_test(self, t):
        c = self.ctor
        if c is None:
            return None
        s = U(t)
        cv, ms, arg = c["cv"], c["ms"], c["arg"]
        k = c["valkind"]
        if s == f"np.isscalar({cv})":
            return k == "const"
        if k == "const" and cv in s:
            raise Bad(f"__init__: test `{s}` on a scalar initial value")
        if s == f"{cv}.size == 1":
            return "unknown" if k == "interior" else False
        if s == f"{cv}.shape == tuple({ms}.dims)":
            return k == "interior"
        if s == f"{cv}.shape == tuple({ms}.dims + 2)":
            return k == "ghosted"
        if s == f"len({arg}) == 1":
            return c["bcgiven"]
        if s == f"len({arg}) == 0":
            return not c["bcgiven"]
        if s == "self._value is None":
            return c["valnone"]
        return None

    # ---- statements
    def block(self, stmts):
        out = []
        i = 0
        while i < len(stmts):
            st = stmts[i]
            if self.returned:
                raise Bad(f"statement after return (line {st.lineno})")
            merged = self.single_use_temp(stmts, i)
            if merged is not None:
                probe = self.fork()
                probe.loads = list(self.loads)
                try:
                    probe.stmt(st)
                except Bad:
                    st = merged                 # `t = E; S[t]` is translated as `S[E]`
                    i += 1
            out += self.stmt(st)
            i += 1
        return out

    def single_use_temp(self, stmts, i):
        """`t = E` followed IMMEDIATELY by a simple statement that contains the ONLY other occurrence of the local
        name `t` in the whole function: returns that statement with `t` replaced by `E` (else None).  The merged
        statement evaluates E later than the original (after the sub-expressions to its left); it is only used
        when `t = E` itself is not understood, and it must then match one of the statement patterns, all of whose
        sub-expressions are reads without effect on the tracked fields, so the order of evaluation is immaterial."""
        fn = getattr(self, "fn_node", None)
        if fn is None or i + 1 >= len(stmts):
            return None
        st, nxt = stmts[i], stmts[i + 1]
        if not (isinstance(st, ast.Assign) and len(st.targets) == 1 and isinstance(st.targets[0], ast.Name)):
            return None
        t, E = st.targets[0].id, st.value
        if isinstance(E, ast.Call) and U(E.func) == "CellVariable":
            return None
        if not isinstance(nxt, (ast.Assign, ast.AugAssign, ast.Return, ast.Expr)):
            return None
        if t in self.refs or t in self.params or t in self.locals or t in self.user_bc or t in self.user_interior:
            return None
        deferred = (ast.Lambda, ast.ListComp, ast.SetComp, ast.DictComp, ast.GeneratorExp, ast.NamedExpr, ast.Yield,
                    ast.YieldFrom, ast.Await, ast.FunctionDef, ast.AsyncFunctionDef, ast.ClassDef, ast.Starred)
        if any(isinstance(x, deferred) for x in list(ast.walk(nxt)) + list(ast.walk(E))):
            return None
        stores = loads = 0
        for x in ast.walk(fn):
            if isinstance(x, ast.Name) and x.id == t:
                if isinstance(x.ctx, ast.Load):
                    loads += 1
                else:
                    stores += 1
            elif isinstance(x, ast.arg) and x.arg == t:
                return None
            elif isinstance(x, (ast.Global, ast.Nonlocal)) and t in x.names:
                return None
        inside = [x for x in ast.walk(nxt) if isinstance(x, ast.Name) and x.id == t and isinstance(x.ctx, ast.Load)]
        if stores != 1 or loads != 1 or len(inside) != 1:
            return None
        import copy

        class Sub(ast.NodeTransformer):
            def visit_Name(self, node):
                if node.id == t and isinstance(node.ctx, ast.Load):
                    return ast.copy_location(copy.deepcopy(E), node)
                return node
        return ast.fix_missing_locations(Sub().visit(copy.deepcopy(nxt)))

    def stmt(self, st):
        import re
        if is_doc(st):
            return []
        if self.inert().skip_guard(st):         # inert statement (tinert.py): no instruction, whatever its form
            return []
        if isinstance(st, ast.If):
            return self.tr_if(st)
        if isinstance(st, ast.Return):
            return self.tr_return(st)
        facts = self.tr.facts
        s = self.norm(st)
        R = r"REF_(\w+)"
        c = self.ctor
        # --- __init__ only
        if c is not None:
            if s == f"REF_new.BCsTerm_precalc = {c['kw']}":
                return [P("setPrecalc", "new", c["precalc"])]
            if s == f"REF_new.domain = {c['ms']}":
                return []
            if s == "REF_new._value = None":
                c["valnone"] = True
                return []
            if s in (f"phi_val = {c['cv']} * np.ones({c['ms']}.dims)", f"phi_val = {c['cv']}"):
                if c["valkind"] not in ("const", "interior"):
                    raise Bad("__init__: phi_val from a ghost-shaped array")
                c["phi_val"] = c["valkind"]
                return []
            # `np.asarray(x, dtype=float)` / `np.asarray(x)`: x itself for a float array, a float copy of the same values
            # otherwise: an adopted initial array either way
            if s in (f"REF_new._value = TrackedArray({c['cv']})",
                     f"REF_new._value = TrackedArray(np.asarray({c['cv']}, dtype=float))",
                     f"REF_new._value = TrackedArray(np.asarray({c['cv']}))"):
                if c["valkind"] != "ghosted":
                    raise Bad("__init__: the initial value is used as the ghosted array although it is not ghost-shaped")
                c["valnone"] = False
                return [P("valueFrom", "new", c["src"]), P("setValMod", "new", facts["new_flag"])]
            if s == f"REF_new.BCs = {c['arg']}[0]":
                if not c["bcgiven"]:
                    raise Bad("__init__: arg[0] without BC argument")
                c["bcbound"] = True
                return [P("bindBC", "new")]
            if s == "REF_new.BCs = BoundaryConditions(REF_new.domain)":
                c["bcbound"] = True
                return [P("bcDefault"), P("bindBC", "new")]
            if s == "REF_new._value = TrackedArray(cellValuesWithBoundaries(phi_val, REF_new.BCs))":
                if c.get("phi_val") is None or not c.get("bcbound"):
                    raise Bad("__init__: ghost cells computed before phi_val / BCs are set")
                c["valnone"] = False
                return [P("initConst" if c["phi_val"] == "const" else "initFresh", "new"),
                        P("setValMod", "new", facts["new_flag"])]
            if isinstance(st, ast.Raise):
                raise Bad("__init__ raises for this configuration")
        # --- general patterns
        m = re.fullmatch(rf"{R}\._value = TrackedArray\(cellValuesWithBoundaries\({R}\.value, {R}\.BCs\)\)", s)
        if m and m.group(1) == m.group(2) == m.group(3):
            return [P("ghostFromCurrent", m.group(1)), P("setValMod", m.group(1), facts["new_flag"])]
        m = re.fullmatch(rf"{R}\._value = TrackedArray\((.+)\)", s)
        if m and isinstance(st, ast.Assign) and isinstance(st.value, ast.Call) and len(st.value.args) == 1:
            a = st.value.args[0]
            ok = isinstance(a, ast.Name) and a.id in self.fresh
            if isinstance(a, ast.Call) and U(a.func) == "np.reshape" and len(a.args) == 2 and not a.keywords \
                    and isinstance(a.args[0], ast.Name) and a.args[0].id in self.fresh:
                self.check_pure(a.args[1])
                ok = True
            if isinstance(a, ast.Call) and isinstance(a.func, ast.Attribute) and a.func.attr == "reshape" \
                    and len(a.args) == 1 and not a.keywords and isinstance(a.func.value, ast.Name) \
                    and a.func.value.id in self.fresh:
                self.check_pure(a.args[0])           # `x.reshape(shape)` is `np.reshape(x, shape)`
                ok = True
            if not ok:
                raise Bad(f"`{U(st)[:70]}` (line {st.lineno}): the new `_value` is not a fresh local array")
            self.note_loads(a)
            return [P("newInterior", m.group(1)), P("setValMod", m.group(1), facts["new_flag"])]
        if isinstance(st, ast.Assign) and len(st.targets) == 1 and isinstance(st.targets[0], ast.Subscript):
            tgt = st.targets[0]
            r = self.ref(tgt.value.value) if isinstance(tgt.value, ast.Attribute) else None
            if r is not None and tgt.value.attr == "_value":
                items = tgt.slice.elts if isinstance(tgt.slice, ast.Tuple) else [tgt.slice]
                if all(U(i) == "1:-1" for i in items) and isinstance(st.value, ast.Name) and st.value.id in self.params:
                    return [P("newInterior", r), P("setValMod", r, facts["setitem_flag"])]
                raise Bad(f"item assignment `{U(st)[:60]}` (line {st.lineno}) is not `S._value[1:-1, ...] = <parameter>`")
            if r is not None and tgt.value.attr == "value":
                self.check_pure(st.value)
                self.check_pure(tgt.slice)
                return [P("newInterior", r), P("setValMod", r, facts["setitem_flag"])]
        m = re.fullmatch(rf"{R}\._BCsTerm = boundaryConditionsTerm\({R}\.BCs\)", s)
        if m and m.group(1) == m.group(2):
            return [P("cacheFromCurrent", m.group(1))]
        m = re.fullmatch(rf"{R}\._BCs_applied = {R}\.BCs\._state_token\(\)", s)
        if m and m.group(1) == m.group(2):
            return [P("setApplied", m.group(1))]
        m = re.fullmatch(rf"{R}\._BCs_applied = {R}\._BCs_applied", s)
        if m:
            return [P("copyApplied", m.group(1), m.group(2))]
        m = re.fullmatch(rf"{R}\.BCs\.modified = (True|False)", s)
        if m:
            if m.group(2) != "False":
                raise Bad(f"`{U(st)}`: the setter of BoundaryConditionsBase.modified clears the flags whatever is assigned")
            self.tr.need("BoundaryConditionsBase.modified")
            return [P("setBCMod", m.group(1), False)]
        m = re.fullmatch(rf"{R}\.(value|_value)\.modified = (True|False)", s)
        if m:
            return [P("setValMod", m.group(1), m.group(3) == "True")]
        m = re.fullmatch(rf"{R}\.value\.modified = {R}\.value\.modified", s)
        if m:
            return [P("copyValMod", m.group(1), m.group(2))]
        m = re.fullmatch(rf"np\.copyto\({R}\._value, {R}\._value\)", s)
        if m:
            return [P("valueFrom", m.group(1), m.group(2))]
        m = re.fullmatch(rf"{R}\.BCsTerm_precalc = (True|False)", s)
        if m:
            return [P("setPrecalc", m.group(1), m.group(2) == "True")]
        m = re.fullmatch(rf"{R}\.apply_BCs\(\)", s)
        if m:
            self.tr.need("apply_BCs")
            return [("call", "apply_BCs", m.group(1))]
        m = re.fullmatch(rf"\((\w+), (\w+)\) = {R}\._BCsTerm", s) or re.fullmatch(rf"(\w+), (\w+) = {R}\._BCsTerm", s)
        if m:
            for n in (m.group(1), m.group(2)):
                if n in self.refs or n in self.params:
                    raise Bad(f"`{n}` is rebound")
                self.locals.add(n)
                self.tainted.add(n)
                self.fresh.discard(n)
            self.cache_names.append((m.group(1), m.group(2), st.lineno))
            return [P("readCache", m.group(3))]
        # --- construction bound to a local name
        if isinstance(st, ast.Assign) and len(st.targets) == 1 and isinstance(st.targets[0], ast.Name) \
                and isinstance(st.value, ast.Call) and U(st.value.func) == "CellVariable":
            name = st.targets[0].id
            if name in self.refs or name in self.params or name in self.locals:
                raise Bad(f"`{name}` is rebound by a construction")
            ins = self.construct(st.value)
            self.refs[name] = "new"
            return ins
        if "CellVariable(" in s:
            raise Bad(f"`{U(st)[:60]}` (line {st.lineno}): construction in a form that is not understood")
        # --- payload
        self.note_loads(st)
        if self.payload(st):
            return []
        raise Bad(f"statement not understood: `{U(st)[:70]}` (line {st.lineno})")

    def note_loads(self, node):
        for x in ast.walk(node):
            if isinstance(x, ast.Name) and isinstance(x.ctx, ast.Load):
                self.loads.append((x.id, getattr(x, "lineno", 0)))

    def tr_return(self, st):
        self.returned = True
        if st.value is None:
            raise Bad("bare return")
        r = self.ref(st.value)
        if r is not None:
            return [P("ret", r)]
        if isinstance(st.value, ast.Call) and U(st.value.func) == "CellVariable":
            if "new" in self.refs.values():
                raise Bad("two constructions")
            ins = self.construct(st.value)
            return ins + [P("ret", "new")]
        raise Bad(f"return value `{U(st.value)[:50]}`")

    def tr_if(self, st):
        static = self.static_test(st.test)
        if static is True:
            return self.block(st.body)
        if static is False:
            return self.block(st.orelse)
        if static == "unknown":
            a, b = self.fork(), self.fork()
            pa, pb = a.block(st.body), b.block(st.orelse)
            if pa != pb:
                raise Bad(f"__init__: the two branches of the undecided test `{U(st.test)}` differ")
            self.join(a, b)
            return pa
        e = self.bexp(st.test)
        if e is not None:
            a, b = self.fork(), self.fork()
            pa, pb = a.block(st.body), b.block(st.orelse)
            self.join(a, b)
            if self.returned == "partial":
                raise Bad(f"conditional return (line {st.lineno})")
            return [("ite", e, pa, pb)]
        # untracked test
        self.check_pure(st.test)
        probe = self.fork()
        try:
            is_pl = probe.payload(st)
        except Bad:
            is_pl = False
        if is_pl:
            self.note_loads(st)
            self.payload(st)
            return []
        tests, bodies, cur = [], [], st
        while True:
            self.check_pure(cur.test)
            if self.bexp(cur.test) is not None or self.static_test(cur.test) is not None:
                raise Bad(f"`elif {U(cur.test)[:40]}` inside a chain of untracked tests")
            tests.append(U(cur.test))
            bodies.append(cur.body)
            if len(cur.orelse) == 1 and isinstance(cur.orelse[0], ast.If):
                cur = cur.orelse[0]
                continue
            has_else = bool(cur.orelse)
            if has_else:
                bodies.append(cur.orelse)
            break
        if not has_else and tests not in self.tr.exhaustive_chains(self):
            raise Bad(f"`if {tests[0][:40]}` without else: the tracked statements in its branches may be skipped")
        progs, forks = [], []
        for b in bodies:
            f = self.fork()
            progs.append(f.block(b))
            forks.append(f)
        if any(p != progs[0] for p in progs[1:]):
            raise Bad(f"the branches of `if {tests[0][:40]}` (an untracked test) have different effects on the tracked fields")
        for f in forks[1:]:
            self.join(forks[0], f)
        self.join(forks[0], forks[0])
        return progs[0]

    # ---- CellVariable(...)
    def construct(self, call):
        tr = self.tr
        if "new" in self.refs.values():
            raise Bad("two constructions in one function")
        kws = {k.arg: k.value for k in call.keywords}
        if set(kws) - {"BCsTerm_precalc"} or None in kws or any(isinstance(a, ast.Starred) for a in call.args):
            raise Bad(f"constructor arguments `{U(call)[:60]}`")
        if len(call.args) not in (2, 3):
            raise Bad(f"constructor with {len(call.args)} positional arguments")
        dom, val = call.args[0], call.args[1]
        if not (self.norm(dom) in ("REF_self.domain", "REF_other.domain") or (isinstance(dom, ast.Name) and dom.id in self.params)):
            raise Bad(f"constructor: mesh argument `{U(dom)[:30]}`")
        init = tr.cell.method("CellVariable", "__init__")
        a = tinert.effective_args(init)
        if [x.arg for x in a.args] != ["self", "mesh_struct", "cell_value"] or a.vararg is None or a.kwarg is not None \
                or [x.arg for x in a.kwonlyargs] != ["BCsTerm_precalc"] or a.defaults or a.posonlyargs \
                or not (len(a.kw_defaults) == 1 and isinstance(a.kw_defaults[0], ast.Constant)
                        and isinstance(a.kw_defaults[0].value, bool)):
            raise Bad("CellVariable.__init__: signature")
        precalc = a.kw_defaults[0].value
        if "BCsTerm_precalc" in kws:
            k = kws["BCsTerm_precalc"]
            if not (isinstance(k, ast.Constant) and isinstance(k.value, bool)):
                raise Bad("constructor: BCsTerm_precalc is not a literal")
            precalc = k.value
        pre = []
        # initial value
        sv = self.norm(val)
        import re
        m = re.fullmatch(r"np\.copy\(REF_(\w+)\._value\)", sv)
        if isinstance(val, ast.Constant) and isinstance(val.value, (int, float)) and not isinstance(val.value, bool):
            kind, src = "const", None
        elif m:
            kind, src = "ghosted", m.group(1)
        else:
            if isinstance(val, ast.Name) and val.id in self.user_interior:
                pass
            else:
                if "_value" in sv or "_BCsTerm" in sv or ".BCs" in sv:
                    raise Bad(f"constructor: initial value `{U(val)[:50]}`")
                for x in ast.walk(val):
                    if isinstance(x, ast.Name) and x.id in self.tainted:
                        raise Bad(f"constructor: initial value uses `{x.id}`, which may alias a tracked array")
                    if isinstance(x, (ast.Attribute, ast.Subscript)) and isinstance(getattr(x, "ctx", None), (ast.Store, ast.Del)):
                        raise Bad("constructor: store inside the initial value")
                    if isinstance(x, ast.Name) and x.id in FORBIDDEN_NAMES:
                        raise Bad(f"`{x.id}` is used")
                if not isinstance(val, (ast.BinOp, ast.UnaryOp, ast.Compare, ast.Call)):
                    raise Bad(f"constructor: initial value `{U(val)[:50]}` is not a computed interior array")
            kind, src = "interior", None
        # BC argument
        if len(call.args) == 3:
            b = call.args[2]
            sb = self.norm(b)
            m1 = re.fullmatch(r"deepcopy\(REF_(\w+)\.BCs\)", sb)
            m2 = re.fullmatch(r"REF_(\w+)\.BCs", sb)
            if m1:
                pre.append(P("bcDeepcopy", m1.group(1)))
            elif m2:
                pre.append(P("bcOf", m2.group(1)))
            elif isinstance(b, ast.Name) and b.id in self.user_bc:
                pre.append(P("bcArg"))
            else:
                raise Bad(f"constructor: BC argument `{U(b)[:40]}`")
        ctor = {"valkind": kind, "src": src, "bcgiven": len(call.args) == 3, "precalc": precalc, "valnone": None,
                "phi_val": None, "bcbound": False, "cv": "cell_value", "ms": "mesh_struct", "arg": a.vararg.arg,
                "kw": "BCsTerm_precalc"}
        ictx = Ctx(tr, "CellVariable.__init__", {"self": "new"}, params=("mesh_struct", "cell_value", a.vararg.arg,
                                                                        "BCsTerm_precalc"), ctor=ctor)
        for x in ast.walk(init):
            if isinstance(x, ast.Name) and x.id in FORBIDDEN_NAMES:
                raise Bad(f"__init__: `{x.id}` is used")
        ictx.fn_node = init
        body = ictx.block(strip_doc(init.body))
        if ictx.returned:
            raise Bad("__init__ returns")
        if ictx.ctor["valnone"] is not False or not ictx.ctor["bcbound"]:
            raise Bad("__init__: `_value` or `BCs` is not set for this configuration")
        # `self` of __init__ is `.new`; the references of the caller inside it are only `src`
        return pre + [P("allocVar")] + body


# ---------------------------------------------------------------------------------------------------------
# rendering
# ---------------------------------------------------------------------------------------------------------
def r_b(e):
    k = e[0]
    if k in ("tt", "ff"):
        return f".{k}"
    if k in ("precalc", "bcModified", "valModified", "appliedNeToken", "hasCache"):
        return f"(.{k} .{e[1]})"
    if k == "not":
        return f"(.not {r_b(e[1])})"
    if k in ("and", "or"):
        return f"(.{k} {r_b(e[1])} {r_b(e[2])})"
    if k == "callb":
        return f"(.call {e[1]} .{e[2]})"
    raise Bad(f"render {k}")


def r_p(n, ind):
    if n[0] == "prim":
        args = " ".join(lean_bool(a) if isinstance(a, bool) else f".{a}" for a in n[2])
        return f".prim (.{n[1]} {args})" if args else f".prim .{n[1]}"
    if n[0] == "call":
        return f".call {n[1]} .{n[2]}"
    if n[0] == "ite":
        return f".ite {r_b(n[1])}\n{ind}    ({r_block(n[2], ind + '    ')})\n{ind}    ({r_block(n[3], ind + '    ')})"
    raise Bad(f"render {n[0]}")


def r_block(nodes, ind="  "):
    if not nodes:
        return ".block []"
    return ".block [\n" + ",\n".join(f"{ind}  {r_p(n, ind + '  ')}" for n in nodes) + "]"


HEADER = """/- GENERATED by harness/translate/tstate.py from cell.py, pdesolver.py, boundary.py, utilities.py — do not edit.
   One program of the instruction set PyFV.Model.StateIR per Python function (statement by statement, in source order);
   proved equal to the hand-written state machine (PyFV/Model/State.lean) in PyFV/Props/GenEqState.lean. -/
import PyFV.Model.StateIR

set_option linter.unusedVariables false

namespace PyFV.Gen.StateGen

open PyFV.StateIR
"""

ARITH_SKIP = {"__init__", "__array__"}


class Translator:
    def __init__(self, repo):
        src = os.path.join(repo, "src", "pyfvtool")
        self.cell = Module(os.path.join(src, "cell.py"))
        self.pde = Module(os.path.join(src, "pdesolver.py"))
        self.bnd = Module(os.path.join(src, "boundary.py"))
        self.util = Module(os.path.join(src, "utilities.py"))
        self.status, self.out = {}, [HEADER]
        self.facts = None

    def need(self, name):
        if self.status.get(name) != "ok":
            raise Bad(f"depends on {name}, which is untranslated")

    def exhaustive_chains(self, ctx):
        if ctx.fname == "CellVariable.value.setter":
            return [[f"issubclass(type(self.domain), Grid{k}D)" for k in (1, 2, 3)]]
        if ctx.fname == "funceval":
            return [[f"len(args) == {k}" for k in range(1, 9)]]
        return []

    def attempt(self, name, thunk):
        try:
            text = thunk()
            self.status[name] = "ok"
            if text:
                self.out.append(text)
        except Bad as ex:
            self.status[name] = f"untranslated: {ex}"
        except RecursionError:
            self.status[name] = "untranslated: recursion"

    # ---- one function of cell.py / pdesolver.py
    def function(self, fn, fname, other=None, ref_exprs=None, first_is_ref=True, user_bc=(), user_interior=()):
        self.need("TrackedArray")
        self.need("CellVariable.value.getter")
        a = tinert.effective_args(fn)           # without the extra parameters that only inert statements read
        if a.kwarg is not None or a.posonlyargs or a.kwonlyargs:
            raise Bad("signature")
        names = [x.arg for x in a.args]
        refs, params = {}, []
        if first_is_ref:
            refs[names[0]] = "self"
            rest = names[1:]
        else:
            rest = names
        for n in rest:
            if n == other:
                refs[n] = "other"
            else:
                params.append(n)
        if other is not None and other not in refs:
            raise Bad(f"signature: parameter `{other}` not found")
        if a.vararg is not None:
            params.append(a.vararg.arg)
        for x in ast.walk(fn):
            if isinstance(x, ast.Name) and x.id in FORBIDDEN_NAMES:
                raise Bad(f"`{x.id}` is used")
            if isinstance(x, ast.Attribute) and x.attr in FORBIDDEN_NAMES:
                raise Bad(f"`.{x.attr}` is used")
        ctx = Ctx(self, fname, refs, ref_exprs, params)
        ctx.user_bc, ctx.user_interior = set(user_bc), set(user_interior)
        ctx.fn_node = fn
        prog = ctx.block(strip_doc(fn.body))
        for n1, n2, line in ctx.cache_names:
            for n in (n1, n2):
                if not any(nm == n and ln > line for nm, ln in ctx.loads):
                    raise Bad(f"`{n}` (read from `_BCsTerm`, line {line}) is never used afterwards")
        return prog

    def emit_prog(self, lean_name, doc, prog):
        return f"/-- {doc} -/\ndef {lean_name} : Prog :=\n  {r_block(prog)}\n"

    def synthetic(self, src, fname, **kw):
        fn = ast.parse(src).body[0]
        return self.function(fn, fname, **kw)

    def run(self):
        cell, pde, bnd, util = self.cell, self.pde, self.bnd, self.util
        A = self.attempt

        def tracked():
            self.facts = check_tracked_array(util)
            return ("/-- utilities.py `TrackedArray`: flag of a new array, flag after `__setitem__` (also on the base) -/\n"
                    f"def TrackedArray_new_flag : Bool := {lean_bool(self.facts['new_flag'])}\n"
                    f"def TrackedArray_setitem_flag : Bool := {lean_bool(self.facts['setitem_flag'])}\n")
        A("TrackedArray", tracked)
        A("CellVariable.value.getter", lambda: check_value_getter(cell) or "")

        # ---- boundary.py, flag level
        self.out.append("/-! ### boundary.py: the `modified` flags -/\n")
        A("BoundaryFace.modified", lambda: (
            "def BoundaryFace_modified_get (f : FaceFlags) : Bool :=\n  "
            + face_getter(bnd.method("BoundaryFace", "modified", "getter")) + "\n\n"
            "def BoundaryFace_modified_set (f : FaceFlags) (val : Bool) : FaceFlags :=\n  "
            + face_setter(bnd.method("BoundaryFace", "modified", "setter")) + "\n"))

        def faces():
            self.need("TrackedArray")
            self.need("BoundaryFace.modified")
            ms = face_methods(bnd, self.facts)
            txt = "".join(f"/-- `BoundaryFace.{py}` -/\ndef {ln} (f : FaceFlags) : FaceFlags :=\n  {body}\n\n" for ln, py, body in ms)
            txt += "/-- every editing method of `BoundaryFace` with its effect on the flags -/\n" \
                   "def face_edit_methods : List (String × (FaceFlags → FaceFlags)) :=\n  [" \
                   + ",\n   ".join(f'("{py}", {ln})' for ln, py, _ in ms) + "]\n"
            return txt
        A("BoundaryFace.edits", faces)

        def bcs():
            self.need("BoundaryFace.modified")
            return ("def BCs_modified_get (F : BCFlags) : Bool :=\n  "
                    + bcs_getter(bnd.method("BoundaryConditionsBase", "modified", "getter")) + "\n\n"
                    "def BCs_modified_set (F : BCFlags) (val : Bool) : BCFlags :=\n"
                    + bcs_setter(bnd.method("BoundaryConditionsBase", "modified", "setter")) + "\n")
        A("BoundaryConditionsBase.modified", bcs)

        def token():
            fs = state_token(bnd.method("BoundaryConditionsBase", "_state_token"))
            return ("/-- the (face, field) pairs that enter `_state_token()`, in order -/\n"
                    "def state_token_fields : List (Side × Coef) :=\n  ["
                    + ", ".join(f"(.{sd}, .{k})" for sd, k in fs) + "]\n")
        A("BoundaryConditionsBase._state_token", token)

        # ---- cell.py
        self.out.append("/-! ### cell.py -/\n")

        def outdated():
            self.need("TrackedArray")
            self.need("CellVariable.value.getter")
            self.need("BoundaryConditionsBase._state_token")
            self.need("BoundaryConditionsBase.modified")
            fn = cell.method("CellVariable", "_BCs_outdated")
            if [x.arg for x in tinert.effective_args(fn).args] != ["self"]:
                raise Bad("signature")
            body = sbody(fn)
            if not (len(body) == 1 and isinstance(body[0], ast.Return) and body[0].value is not None):
                raise Bad("not a single return")
            ctx = Ctx(self, "_BCs_outdated", {"self": "self"})
            e = ctx.bexp(body[0].value)
            if e is None:
                raise Bad(f"return value `{U(body[0].value)[:50]}`")
            return f"/-- `CellVariable._BCs_outdated` -/\ndef BCs_outdated : BExp :=\n  {r_b(e)}\n"
        A("_BCs_outdated", outdated)

        A("apply_BCs", lambda: self.emit_prog("apply_BCs", "`CellVariable.apply_BCs`", self.function(
            cell.method("CellVariable", "apply_BCs"), "apply_BCs")))
        A("update_value", lambda: self.emit_prog("update_value", "`CellVariable.update_value`", self.function(
            cell.method("CellVariable", "update_value"), "update_value",
            other=(tinert.effective_args(cell.method("CellVariable", "update_value")).args + [None, None])[1].arg
            if len(tinert.effective_args(cell.method("CellVariable", "update_value")).args) == 2 else "?")))
        A("copy", lambda: self.emit_prog("copy", "`CellVariable.copy`", self.function(
            cell.method("CellVariable", "copy"), "copy")))
        A("CellVariable.value.setter", lambda: self.emit_prog("value_setter", "`v.value = values` (property setter)",
          self.function(cell.method("CellVariable", "value", "setter"), "CellVariable.value.setter")))
        A("value item assignment", lambda: self.emit_prog(
            "value_item_assign", "`v.value[idx] = u` (item assignment through the view returned by the getter)",
            self.synthetic("def user(self, idx, u):\n    self.value[idx] = u\n", "user item assignment")))
        A("CellVariable(mesh, values, bc)", lambda: self.emit_prog(
            "ctor_user_bc", "`CellVariable(mesh, values, bc)`: `__init__` for an interior-shaped array and a given BC object",
            self.synthetic("def user(mesh, values, bc):\n    return CellVariable(mesh, values, bc)\n", "user constructor",
                           first_is_ref=False, user_bc=["bc"], user_interior=["values"])))
        A("CellVariable(mesh, values)", lambda: self.emit_prog(
            "ctor_user_default", "`CellVariable(mesh, values)`: `__init__` creating its own BC object",
            self.synthetic("def user(mesh, values):\n    return CellVariable(mesh, values)\n", "user constructor",
                           first_is_ref=False, user_interior=["values"])))

        def arith():
            names, progs = [], []
            for n in cell.cls("CellVariable").body:
                if isinstance(n, ast.FunctionDef) and n.name.startswith("__") and n.name.endswith("__") \
                        and n.name not in ARITH_SKIP and not n.decorator_list:
                    progs.append(self.function(n, n.name))
                    names.append(n.name)
            if not names:
                raise Bad("no operator methods")
            for nm, p in zip(names, progs):
                if p != progs[0]:
                    raise Bad(f"{nm} has another effect on the tracked fields than {names[0]}")
            return self.emit_prog("arith", "every operator method of `CellVariable` (all have this program)", progs[0]) \
                + "\ndef arith_methods : List String :=\n  [" + ", ".join(f'"{n}"' for n in names) + "]\n"
        A("arith", arith)
        A("funceval", lambda: self.emit_prog("funceval", "`funceval(f, *args)` for 1 to 8 arguments; `.self` is `args[0]`",
          self.function(cell.func("funceval"), "funceval", first_is_ref=False, ref_exprs={"args[0]": "self"})))

        # ---- pdesolver.py
        self.out.append("/-! ### pdesolver.py -/\n")
        A("solvePDE", lambda: self.emit_prog("solvePDE", "`solvePDE(phi, eqnterms)`", self.function(
            pde.func("solvePDE"), "solvePDE")))
        A("solveExplicitPDE", lambda: self.emit_prog("solveExplicitPDE", "`solveExplicitPDE(phi_old, dt, RHS)`",
          self.function(pde.func("solveExplicitPDE"), "solveExplicitPDE")))
        bad = [k for k, v in self.status.items() if v != "ok"]
        self.out.append("def untranslated : List String := [" + ", ".join(f'"{k}"' for k in bad) + "]\n")
        self.out.append("end PyFV.Gen.StateGen\n")
        return "\n".join(self.out), self.status


def generate(repo):
    tinert.set_repo(repo)
    return Translator(repo).run()


def main():
    repo = os.environ.get("VERIF_REPO", "/repo")
    dst = sys.argv[1]
    text, status = generate(repo)
    status = tinert.annotate(status)
    write_if_changed(dst, text)
    base = os.path.splitext(os.path.basename(dst))[0].lower()
    write_if_changed(os.path.join(os.path.dirname(os.path.abspath(dst)), f"{base}_status.json"),
                     json.dumps(status, indent=1, sort_keys=True) + "\n")
    print(json.dumps(status))


if __name__ == "__main__":
    main()
