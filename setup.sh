#!/bin/bash
# Build the Lean project from files on disk only (no network).
set -e
cd "$(dirname "$0")"
python3 harness/translate/tlim.py lean/PyFV/Gen/Limiters.lean >/dev/null
cd lean
lake build 2>&1 | tail -5
