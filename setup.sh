#!/bin/bash
# Build the Lean project from files on disk only (no network): run every translator against /repo's working tree,
# then build the model and every property module registered in harness/props/*.py.
set -e
cd "$(dirname "$0")"
python3 - <<'EOF'
import glob, importlib.util, os, subprocess, sys
sys.path.insert(0, "harness")
mods, trans = [], {}
for f in sorted(glob.glob("harness/props/C*.py")):
    import ast
    ns = {}
    for node in ast.parse(open(f).read()).body:
        if isinstance(node, ast.Assign) and getattr(node.targets[0], "id", None) in ("MODULES", "TRANSLATORS"):
            ns[node.targets[0].id] = ast.literal_eval(node.value)
    mods += [m for m in ns.get("MODULES", []) if m not in mods]
    trans.update(ns.get("TRANSLATORS", {}))
for name, cmd in trans.items():
    p = subprocess.run(cmd, shell=True, capture_output=True, text=True)
    print(f"{name}: {'ok' if p.returncode == 0 else 'FAILED ' + p.stderr[-300:]}")
p = subprocess.run(["lake", "build", "PyFV", "PyFV.Gen.Limiters"] + mods, cwd="lean", capture_output=True, text=True)
print("\n".join((p.stdout + p.stderr).strip().split("\n")[-5:]))
sys.exit(0)      # a module that does not build is reported by the checks (broken obligation), not by setup
EOF
