/-
  Driver.lean — line-protocol driver of the PyFV model at `α := ℚ`.
  Run as `lake env lean --run Driver.lean < ops.txt`.

  One request per line, one reply per line.  Sections are separated by `|`, tokens by
  spaces, numbers are `p/q` or `p`; `none` marks an undefined value.  Unknown or
  malformed requests are answered with `bad-op` (never a default).

  request  := op '|' mesh '|' payload…
  mesh     := kind nx ny nz '|' fx '|' fy '|' fz '|' sinC '|' sinF '|' cosF '|' pi     (8 sections)
-/
import PyFV
import PyFV.Gen.Limiters
import Mathlib.Algebra.Order.Field.Rat

open PyFV

abbrev Q := ℚ

def parseQ (s : String) : Option Q :=
  match s.splitOn "/" with
  | [a] => a.toInt?.map (fun z => (z : Q))
  | [a, b] => do
    let x ← a.toInt?
    let y ← b.toNat?
    if y = 0 then none else some ((x : Q) / (y : Q))
  | _ => none

def parseArr (s : String) : Option (Array Q) :=
  (s.splitOn " ").foldl (fun acc t =>
    if t.isEmpty then acc else
    match acc, parseQ t with
    | some a, some q => some (a.push q)
    | _, _ => none) (some #[])

def fmtQ (q : Q) : String := toString q
def fmtO : Option Q → String
  | some q => fmtQ q
  | none => "none"
def joinS (xs : Array String) : String := " ".intercalate xs.toList

def kindOf : String → Option Kind
  | "cart1" => some .cart1 | "cyl1" => some .cyl1 | "sph1" => some .sph1
  | "cart2" => some .cart2 | "cyl2" => some .cyl2 | "pol2" => some .pol2
  | "cart3" => some .cart3 | "cyl3" => some .cyl3 | "sph3" => some .sph3
  | _ => none

def fn (a : Array Q) : ℕ → Q := fun i => a.getD i 0

structure Ctx where
  M : Mesh Q
  nx : ℕ
  ny : ℕ
  nz : ℕ

def Ctx.ay (c : Ctx) : Bool := c.M.kind.active .y
def Ctx.az (c : Ctx) : Bool := c.M.kind.active .z
/-- ghosted extents (inactive directions have extent 1) -/
def Ctx.gy (c : Ctx) : ℕ := if c.ay then c.ny + 2 else 1
def Ctx.gz (c : Ctx) : ℕ := if c.az then c.nz + 2 else 1
/-- flat index into a ghosted array -/
def Ctx.gflat (c : Ctx) (i : Idx) : ℕ :=
  let jj := if c.ay then i.2.1 else 0
  let kk := if c.az then i.2.2 else 0
  (i.1 * c.gy + jj) * c.gz + kk

def mkAxis (n : ℕ) (faces : Array Q) : Axis Q := mkAxisFaces n (fn faces)

def mkCtx (secs : Array String) (nl : Bool) : Option Ctx := do
  -- secs[0..7] = mesh sections
  let hd := (secs.getD 0 "").splitOn " " |>.filter (· ≠ "")
  let kind ← kindOf (hd.getD 0 "")
  let nx ← (hd.getD 1 "").toNat?
  let ny ← (hd.getD 2 "").toNat?
  let nz ← (hd.getD 3 "").toNat?
  let fx ← parseArr (secs.getD 1 "")
  let fy ← parseArr (secs.getD 2 "")
  let fz ← parseArr (secs.getD 3 "")
  let sC ← parseArr (secs.getD 4 "")
  let sF ← parseArr (secs.getD 5 "")
  let cF ← parseArr (secs.getD 6 "")
  let pi ← parseArr (secs.getD 7 "")
  let ax (act : Bool) (n : ℕ) (f : Array Q) : Axis Q :=
    if !act then unitAxis
    else if nl then mkAxisNL n (f.getD 0 0)
    else mkAxis n f
  let M : Mesh Q :=
    { kind := kind
      ax := ax true nx fx
      ay := ax (kind.active .y) ny fy
      az := ax (kind.active .z) nz fz
      sinC := fun j => sC.getD (j-1) 0      -- sinC j for j = 1..ny
      sinF := fn sF
      cosF := fn cF
      pi := pi.getD 0 0 }
  some { M := M, nx := if true then nx else 0,
         ny := if kind.active .y then ny else 1,
         nz := if kind.active .z then nz else 1 }

/-- interior cells in C order -/
def Ctx.cells (c : Ctx) : Array Idx := Id.run do
  let mut out := #[]
  for i in [1:c.nx+1] do
    for j in [1:c.ny+1] do
      for k in [1:c.nz+1] do
        out := out.push (i, j, k)
  return out

/-- all cells of the ghosted box in C order -/
def Ctx.gcells (c : Ctx) : Array Idx := Id.run do
  let mut out := #[]
  let jr := if c.ay then (0, c.ny + 2) else (1, 2)
  let kr := if c.az then (0, c.nz + 2) else (1, 2)
  for i in [0:c.nx+2] do
    for j in [jr.1:jr.2] do
      for k in [kr.1:kr.2] do
        out := out.push (i, j, k)
  return out

/-- faces of direction d in C order of the numpy array `_dvalue` -/
def Ctx.faces (c : Ctx) (d : Dir) : Array Idx := Id.run do
  let mut out := #[]
  let (i0, i1) := if d = .x then (0, c.nx + 1) else (1, c.nx + 1)
  let (j0, j1) := if d = .y then (0, c.ny + 1) else (1, c.ny + 1)
  let (k0, k1) := if d = .z then (0, c.nz + 1) else (1, c.nz + 1)
  for i in [i0:i1] do
    for j in [j0:j1] do
      for k in [k0:k1] do
        out := out.push (i, j, k)
  return out

/-- face field from three flat arrays (shapes `(nx+1,ny,nz)`, `(nx,ny+1,nz)`, `(nx,ny,nz+1)`) -/
def Ctx.faceFld (c : Ctx) (ax ay az : Array Q) : FaceFld Q := fun d i =>
  match d with
  | .x => ax.getD ((i.1 * c.ny + (i.2.1 - 1)) * c.nz + (i.2.2 - 1)) 0
  | .y => ay.getD (((i.1 - 1) * (c.ny + 1) + i.2.1) * c.nz + (i.2.2 - 1)) 0
  | .z => az.getD (((i.1 - 1) * c.ny + (i.2.1 - 1)) * (c.nz + 1) + i.2.2) 0

def Ctx.cellFld (c : Ctx) (a : Array Q) : CellFld Q := fun i => a.getD (c.gflat i) 0

/-- interior-only field (shape `(nx,ny,nz)`) -/
def Ctx.intFld (c : Ctx) (a : Array Q) : CellFld Q := fun i =>
  a.getD (((i.1 - 1) * c.ny + (i.2.1 - 1)) * c.nz + (i.2.2 - 1)) 0

def Ctx.activeDirs (c : Ctx) : List Dir := c.M.kind.dirs

def fmtSt7 (s : St7 Q) : String :=
  joinS #[fmtQ s.p, fmtQ s.xm, fmtQ s.xp, fmtQ s.ym, fmtQ s.yp, fmtQ s.zm, fmtQ s.zp]

/-- boundary conditions: 6 faces × (flag, a, b, c) = 24 sections starting at `o` -/
def Ctx.bcs (c : Ctx) (secs : Array String) (o : ℕ) : Option (BCs Q) := do
  let face (k : ℕ) (d : Dir) : Option (BFace Q) := do
    let fl := (secs.getD (o + 4*k) "").trimAscii.toString
    let a ← parseArr (secs.getD (o + 4*k + 1) "")
    let b ← parseArr (secs.getD (o + 4*k + 2) "")
    let cc ← parseArr (secs.getD (o + 4*k + 3) "")
    let pick (arr : Array Q) : Idx → Q := fun i =>
      match d with
      | .x => arr.getD ((i.2.1 - 1) * c.nz + (i.2.2 - 1)) 0
      | .y => arr.getD ((i.1 - 1) * c.nz + (i.2.2 - 1)) 0
      | .z => arr.getD ((i.1 - 1) * c.ny + (i.2.1 - 1)) 0
    some { a := pick a, b := pick b, c := pick cc, periodic := fl == "1" }
  let lx ← face 0 .x; let hx ← face 1 .x
  let ly ← face 2 .y; let hy ← face 3 .y
  let lz ← face 4 .z; let hz ← face 5 .z
  some { lo := fun d => match d with | .x => lx | .y => ly | .z => lz
         hi := fun d => match d with | .x => hx | .y => hy | .z => hz }

def fmtRow (c : Ctx) (r : Row Q) : String :=
  -- merge duplicates, sort by flat column
  let ents : List (ℕ × Q) := r.entries.map (fun e => (c.gflat e.1, e.2))
  let merged : List (ℕ × Q) := ents.foldl (fun acc e =>
    match acc.find? (·.1 = e.1) with
    | some _ => acc.map (fun f => if f.1 = e.1 then (f.1, f.2 + e.2) else f)
    | none => acc ++ [e]) []
  let sorted := merged.toArray.qsort (fun a b => a.1 < b.1)
  let body := sorted.map (fun e => s!"{e.1}:{fmtQ e.2}")
  s!"{sorted.size} {joinS body} {fmtQ r.rhs}"

/-- one term item of an `assemble`/`residual` request, starting at section `o`;
    returns the term object and the number of sections consumed -/
def Ctx.termItem (c : Ctx) (secs : Array String) (o : ℕ) : Option (TermObj Q × ℕ) := do
  let hd := (secs.getD o "").splitOn " " |>.filter (· ≠ "")
  let name := hd.getD 0 ""
  let scale ← parseQ (hd.getD 1 "1")
  let arr (k : ℕ) := parseArr (secs.getD (o + k) "")
  match name with
  | "diffusion" => do
    let D := c.faceFld (← arr 1) (← arr 2) (← arr 3)
    some (TermObj.smul scale (.mat (diffusionRow c.M D)), 4)
  | "convection" => do
    let u := c.faceFld (← arr 1) (← arr 2) (← arr 3)
    some (TermObj.smul scale (.mat (convectionRow c.M u)), 4)
  | "upwind" => do
    let u := c.faceFld (← arr 1) (← arr 2) (← arr 3)
    let uu := c.faceFld (← arr 4) (← arr 5) (← arr 6)
    some (TermObj.smul scale (.mat (upwindRow c.M u uu)), 7)
  | "linsrc" => do
    let b := c.cellFld (← arr 1)
    some (TermObj.smul scale (.mat (linearSrcRow b)), 2)
  | "constsrc" => do
    let g := c.cellFld (← arr 1)
    some (TermObj.smul scale (.vec (constSrcRHS g)), 2)
  | "transient" => do
    -- sections: old (ghosted), alpha (ghosted), dt
    let old := c.cellFld (← arr 1)
    let al := c.cellFld (← arr 2)
    let dt := (← arr 3).getD 0 0
    some (TermObj.smul scale (.pair (transientRow dt al) (transientRHS old dt al)), 4)
  | "divergence" => do
    let F := c.faceFld (← arr 1) (← arr 2) (← arr 3)
    some (TermObj.smul scale (.vec (divergence c.M F)), 4)
  | "tvd" => do
    let u := c.faceFld (← arr 1) (← arr 2) (← arr 3)
    let uu := c.faceFld (← arr 4) (← arr 5) (← arr 6)
    let phi := c.cellFld (← arr 7)
    let p := (secs.getD (o + 8) "").splitOn " " |>.filter (· ≠ "")
    let eps ← parseQ (p.getD 1 "")
    let eps1 ← parseQ (p.getD 2 "")
    let FL := Gen.limiterByName (p.getD 0 "") eps
    some (TermObj.smul scale (.vec (tvdRHS c.M u uu FL eps1 phi)), 9)
  | "rawvec" => do
    let v := c.cellFld (← arr 1)
    some (TermObj.smul scale (.vec v), 2)
  | _ => none

def Ctx.termList (c : Ctx) (secs : Array String) (o : ℕ) (fuel : ℕ) : Option (List (TermObj Q)) :=
  match fuel with
  | 0 => none
  | fuel+1 =>
    if o ≥ secs.size then some []
    else do
      let (t, k) ← c.termItem secs o
      let rest ← c.termList secs (o + k) fuel
      some (t :: rest)

def handle (line : String) : String := Id.run do
  let secs := (line.splitOn "|").toArray
  let op := (secs.getD 0 "").trimAscii.toString
  let ops := op.splitOn " "
  let opname := ops.getD 0 ""
  let sub := ops.getD 1 ""
  -- limiter op has no mesh
  if opname == "limiter" then
    -- limiter <name> | eps | r…
    match parseArr (secs.getD 1 ""), parseArr (secs.getD 2 "") with
    | some e, some rs =>
      let eps := e.getD 0 0
      return joinS (rs.map (fun r => fmtO (Gen.limiterByNameO sub eps r)))
    | _, _ => return "bad-op"
  if opname == "fsign" then
    match parseArr (secs.getD 1 ""), parseArr (secs.getD 2 "") with
    | some e, some rs => return joinS (rs.map (fun r => fmtQ (fsign (e.getD 0 0) r)))
    | _, _ => return "bad-op"
  let msecs := secs.extract 1 9
  let some c := mkCtx msecs (opname == "meshnl") | return "bad-op"
  let M := c.M
  let P := secs.extract 9 secs.size      -- payload sections
  let arr (k : ℕ) := parseArr (P.getD k "")
  match opname with
  | "mesh" | "meshnl" =>
    let mut out : Array String := #[]
    for d in c.activeDirs do
      let a := M.axis d
      for i in [0:a.n+2] do out := out.push (fmtQ (a.DX i))
      for i in [1:a.n+1] do out := out.push (fmtQ (a.cen i))
      for i in [0:a.n+1] do out := out.push (fmtQ (a.fc i))
    for cc in c.cells do out := out.push (fmtQ (cellVolume M cc))
    return joinS out
  | "vcons" =>
    return joinS (c.cells.map (fun cc => fmtQ (Vcons M cc)))
  | "term" =>
    match sub with
    | "diffusion" =>
      match arr 0, arr 1, arr 2 with
      | some a, some b, some d =>
        let D := c.faceFld a b d
        return joinS (c.cells.map (fun cc => fmtSt7 (diffusionRow M D cc)))
      | _, _, _ => return "bad-op"
    | "convection" =>
      match arr 0, arr 1, arr 2 with
      | some a, some b, some d =>
        let u := c.faceFld a b d
        return joinS (c.cells.map (fun cc => fmtSt7 (convectionRow M u cc)))
      | _, _, _ => return "bad-op"
    | "upwind" =>
      match arr 0, arr 1, arr 2, arr 3, arr 4, arr 5 with
      | some a, some b, some d, some a', some b', some d' =>
        let u := c.faceFld a b d
        let uu := c.faceFld a' b' d'
        return joinS (c.cells.map (fun cc => fmtSt7 (upwindRow M u uu cc)))
      | _, _, _, _, _, _ => return "bad-op"
    | "divergence" =>
      match arr 0, arr 1, arr 2 with
      | some a, some b, some d =>
        let F := c.faceFld a b d
        return joinS (c.cells.map (fun cc => fmtQ (divergence M F cc)))
      | _, _, _ => return "bad-op"
    | "gradient" =>
      match arr 0 with
      | some a =>
        let phi := c.cellFld a
        let mut out : Array String := #[]
        for d in c.activeDirs do
          for f in c.faces d do out := out.push (fmtQ (gradD M phi d f))
        return joinS out
      | _ => return "bad-op"
    | "tvd" =>
      match arr 0, arr 1, arr 2, arr 3, arr 4, arr 5, arr 6 with
      | some a, some b, some d, some a', some b', some d', some ph =>
        let u := c.faceFld a b d
        let uu := c.faceFld a' b' d'
        let phi := c.cellFld ph
        let p := (P.getD 7 "").splitOn " " |>.filter (· ≠ "")
        match parseQ (p.getD 1 ""), parseQ (p.getD 2 "") with
        | some eps, some eps1 =>
          let FL := Gen.limiterByName (p.getD 0 "") eps
          return joinS (c.cells.map (fun cc => fmtQ (tvdRHS M u uu FL eps1 phi cc)))
        | _, _ => return "bad-op"
      | _, _, _, _, _, _, _ => return "bad-op"
    | _ => return "bad-op"
  | "mean" =>
    match arr 0 with
    | some a =>
      let phi := c.cellFld a
      let mut out : Array String := #[]
      match sub with
      | "linear" =>
        for d in c.activeDirs do
          for f in c.faces d do out := out.push (fmtQ (linMean M phi d f))
      | "arithmetic" =>
        for d in c.activeDirs do
          for f in c.faces d do out := out.push (fmtQ (arithMean M phi d f))
      | "harmonic" =>
        for d in c.activeDirs do
          for f in c.faces d do out := out.push (fmtO (harmMean M phi d f))
      | "upwind" =>
        match arr 1, arr 2, arr 3 with
        | some ua, some ub, some ud =>
          let u := c.faceFld ua ub ud
          for d in c.activeDirs do
            for f in c.faces d do out := out.push (fmtQ (upMean M phi u d f))
        | _, _, _ => return "bad-op"
      | _ => return "bad-op"
      return joinS out
    | _ => return "bad-op"
  | "ghost" =>
    -- payload: 24 BC sections, then interior field
    match c.bcs P 0, arr 24 with
    | some bc, some a =>
      let phi := c.intFld a
      return joinS (c.gcells.map (fun cc => fmtO (withGhosts M bc phi cc)))
    | _, _ => return "bad-op"
  | "bcterm" =>
    match c.bcs P 0 with
    | some bc =>
      if radialPeriodicRejected M.kind bc then return "reject-radial-periodic"
      let mut out : Array String := #[]
      for cc in c.gcells do
        if M.outCount cc ≠ 0 then out := out.push (fmtRow c (bcRow M bc cc))
      return joinS out
    | _ => return "bad-op"
  | "assemble" =>
    -- payload: 24 BC sections, then term items; reply: interior rows (7 entries + rhs)
    match c.bcs P 0, c.termList P 24 64 with
    | some _, some ts =>
      return joinS (c.cells.map (fun cc => fmtSt7 (sumRow ts cc) ++ " " ++ fmtQ (sumRhs ts cc)))
    | _, _ => return "bad-op"
  | "residual" =>
    -- payload: 24 BC sections, solution (ghosted) in section 24, then term items.
    -- reply: max |A x − b| over the ghosted box, max |x|-scaled row norm, min x, max x (interior)
    match c.bcs P 0, arr 24, c.termList P 25 64 with
    | some bc, some xs, some ts =>
      let x := c.cellFld xs
      let scOf (cc : Idx) : Q :=
        if M.outCount cc = 0 then
          let s := sumRow ts cc
          |s.p * x cc| + |s.xm * x (cc.prev .x)| + |s.xp * x (cc.next .x)|
          + |s.ym * x (cc.prev .y)| + |s.yp * x (cc.next .y)|
          + |s.zm * x (cc.prev .z)| + |s.zp * x (cc.next .z)| + |sumRhs ts cc|
        else
          let row := bcRow M bc cc
          row.entries.foldl (fun acc e => acc + |e.2 * x e.1|) |row.rhs|
      let mut gs : Q := 0
      for cc in c.gcells do
        let v := scOf cc
        if v > gs then gs := v
      let mut worst : Q := 0
      let mut worstAt : ℕ := 0
      for cc in c.gcells do
        let r := assembleOp M bc ts x cc - assembleRhs M bc ts cc
        -- scale: sum |a_ij x_j| + |b_i|, floored at 1e-6 of the largest row scale of the system
        let sc0 := scOf cc
        let sc := if sc0 > gs / 1000000 then sc0 else gs / 1000000
        let rel := if sc = 0 then |r| else |r| / sc
        if rel > worst then
          worst := rel
          worstAt := c.gflat cc
      return fmtQ worst ++ " " ++ toString worstAt
    | _, _, _ => return "bad-op"
  | _ => return "bad-op"

partial def loop (h : IO.FS.Stream) (out : IO.FS.Stream) : IO Unit := do
  let line ← h.getLine
  if line.isEmpty then return ()
  let l := line.trimAscii.toString
  if l.isEmpty then
    out.putStrLn "bad-op"
  else
    out.putStrLn (handle l)
  loop h out

def main : IO Unit := do
  let i ← IO.getStdin
  let o ← IO.getStdout
  loop i o
