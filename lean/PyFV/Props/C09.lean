/-
  Property C09 — cached boundary terms and ghost values are never stale.

  "For every sequence of supported edits (assigning / slice-assigning boundary coefficients, the
   boundary utility methods, toggling periodic, assigning / slice-assigning `.value`,
   `update_value`, `copy()`, arithmetic producing new variables, sharing one boundary-condition
   object between variables) interleaved with `solvePDE`, `solveExplicitPDE` and `apply_BCs`
   calls, the next solve returns exactly what a freshly constructed variable with the same
   interior values and boundary conditions returns.  Cached boundary terms and ghost values are
   never stale, copies are independent of their originals, and a variable returned by the
   explicit solver remains usable by the implicit solver."

  Model: `PyFV.Model.State` (content stamps, `step`, `run`).  All statements are for EVERY finite
  history `ops : List Op` (induction over the list through one-step preservation lemmas).

  Remarks on the statements:
   * `CacheOK` and `GhostOK` are true of every reachable state but are NOT one-step inductive on
     their own (`cacheOK_step_counterexample`, `ghostOK_step_counterexample`: `apply_BCs` by a
     variable that shares the BC object clears the shared `modified` flag of another variable).
     The inductive invariants are `CacheInv` ("the cache was built from the snapshot
     `_BCs_applied`, or the snapshot is not the current content") — which needs `WFSt` for the
     freshness argument — and `GhostInv` ("unless the values were edited, the ghost layer was
     built from the interior and the snapshot"); `CacheOK` / `GhostOK` follow from them.
   * `copy()` carries `_BCs_applied` and `value.modified` over from the original, so the ghost
     layer is coherent for ALL histories (`ghostOK_run`, no side condition).  The previous
     `copy()` (`stepOldCopy`) produced stale, unflagged ghost layers: `old_copy_stale_ghost_*`.
-/
import PyFV.Lemmas.StateLemmas

namespace PyFV.C09

open PyFV.State

/-! ## 1. Well-formedness -/

theorem wf_init : WFSt init := State.wf_init

theorem wf_step {s : St} (h : WFSt s) (op : Op) : WFSt (step s op).1 := State.wf_step h op

theorem wf_run (ops : List Op) : WFSt (run ops) :=
  inv_run State.wf_init (fun _ op h => State.wf_step h op) ops

/-- every live variable of a reachable state refers to a live BC object -/
theorem bc_live (ops : List Op) {v : Nat} (hv : v < (run ops).nV) :
    ((run ops).vars v).bc < (run ops).nB := ((wf_run ops).vars v hv).bc

/-! ## 2. Cached boundary terms -/

theorem cacheInv_init : CacheInv init := fun _ hv => absurd hv (Nat.not_lt_zero _)

/-- one-step preservation of the inductive invariant; `WFSt` gives the freshness argument: an
    edit creates a stamp different from every stored snapshot `applied` -/
theorem cacheInv_step {s : St} (hwf : WFSt s) (op : Op) (h : CacheInv s) :
    CacheInv (step s op).1 := State.cacheInv_step hwf op h

theorem cacheInv_run (ops : List Op) : CacheInv (run ops) :=
  (inv_run (I := fun s => WFSt s ∧ CacheInv s) ⟨State.wf_init, cacheInv_init⟩
    (fun _ op h => ⟨State.wf_step h.1 op, State.cacheInv_step h.1 op h.2⟩) ops).2

theorem cacheOK_init : CacheOK init := cacheOK_of_cacheInv cacheInv_init

/-- one-step preservation, from well-formedness and the inductive invariant `CacheInv` (see the
    counterexample below for why `CacheOK s` alone is not enough) -/
theorem cacheOK_step {s : St} (hwf : WFSt s) (op : Op) (h : CacheInv s) :
    CacheOK (step s op).1 := cacheOK_of_cacheInv (State.cacheInv_step hwf op h)

/-- in every reachable state the cached boundary terms of a variable that is not flagged
    outdated were built from the CURRENT content of its (possibly shared) BC object -/
theorem cacheOK_run (ops : List Op) : CacheOK (run ops) := cacheOK_of_cacheInv (cacheInv_run ops)

/-- `WFSt s ∧ CacheOK s` does not imply `CacheOK (step s op).1`: in the (unreachable) state
    `ceState` variables 0 and 1 share BC object 0, which is flagged modified; variable 1 has an
    up-to-date snapshot but an old cache.  `apply_BCs` on variable 0 clears the shared flag. -/
theorem cacheOK_step_counterexample :
    ∃ (s : St) (op : Op), WFSt s ∧ CacheOK s ∧ ¬ CacheOK (step s op).1 :=
  ⟨ceState, .applyBCs 0, wf_ceState, by decide, by decide⟩

/-! ## 3. MAIN: a solve always uses boundary terms built from the current boundary conditions -/

/-- for every history and every live variable, `solvePDE` uses boundary terms built from the
    current content of the variable's BC object and starts from the current interior —
    whatever happened before (sharing, silent edits, explicit results, copies, …) -/
theorem solve_uses_current_bc (ops : List Op) {v : Nat} (hv : v < (run ops).nV) :
    (step (run ops) (.solve v)).2 =
      Out.solved (some ((run ops).bcs ((run ops).vars v).bc).content) ((run ops).vars v).interior :=
  solve_out_of_cacheS hv (cacheInv_run ops v hv)

/-- a variable just constructed on a live BC object `b`: the immediate solve uses the content
    of `b` and the constructor's interior (any state `s`) -/
theorem fresh_solve (s : St) {b : Nat} (hb : b < s.nB) :
    (step s (.newVar b)).2 = Out.newVar s.nV ∧
    (step (step s (.newVar b)).1 (.solve s.nV)).2 = Out.solved (some (s.bcs b).content) s.next := by
  constructor
  · simp only [step, if_pos hb]
  · have hlive : s.nV < (step s (.newVar b)).1.nV := by
      rw [step_newVar_nV hb]; exact Nat.lt_succ_self _
    have hx : (step s (.newVar b)).1.vars s.nV = mkVar s b s.next true := by
      rw [step_newVar_vars hb, if_pos rfl]
    have hc : CacheV ((step s (.newVar b)).1.vars s.nV) := by rw [hx]; exact cacheV_mkVar _ _ _ _
    rw [solve_out_of_cacheS hlive (cacheS_of_cacheV hc _), hx, step_newVar_bcs hb]
    rfl

/-- "any history, then solve" = "fresh variable on the same boundary conditions, then solve":
    both solves use boundary terms built from the same (current) boundary-condition content -/
theorem solve_eq_fresh (ops : List Op) {v : Nat} (hv : v < (run ops).nV) :
    (step (run ops) (.solve v)).2.usedBC =
      (step (step (run ops) (.newVar ((run ops).vars v).bc)).1 (.solve (run ops).nV)).2.usedBC := by
  rw [solve_uses_current_bc ops hv, (fresh_solve (run ops) (bc_live ops hv)).2]
  rfl

/-- … and that content is never missing -/
theorem solve_usedBC_some (ops : List Op) {v : Nat} (hv : v < (run ops).nV) :
    (step (run ops) (.solve v)).2.usedBC = some (some ((run ops).bcs ((run ops).vars v).bc).content) ∧
    (step (run ops) (.solve v)).2.usedInterior = some ((run ops).vars v).interior := by
  rw [solve_uses_current_bc ops hv]; exact ⟨rfl, rfl⟩

/-! ## 4. After a solve everything is clean -/

/-- after `.solve v` (any state, `v` live): the variable is not outdated, its ghost layer
    reflects its new interior and the current BC content, its cache is the current content,
    `precalc = true`; the content of the BC object was not changed and the interior is the
    fresh solver result.  (`WFSt` is not needed.) -/
theorem after_solve_clean (s : St) {v : Nat} (hv : v < s.nV) :
    let s' := (step s (.solve v)).1
    outdated s' (s'.vars v) = false ∧
    (s'.vars v).ghostI = (s'.vars v).interior ∧
    (s'.vars v).ghostB = (s'.bcs (s'.vars v).bc).content ∧
    (s'.vars v).cache = some (s'.bcs (s'.vars v).bc).content ∧
    (s'.vars v).precalc = true ∧
    (s'.vars v).bc = (s.vars v).bc ∧
    (s'.bcs (s'.vars v).bc).content = (s.bcs (s.vars v).bc).content ∧
    (s'.vars v).interior = s.next := by
  intro s'
  have hs' : s' = postSolve (preSolve s v) v := by
    show (step s (.solve v)).1 = _
    rw [step_solve hv]
  have hp := preSolve_self s v
  have e1 := postSolve_vars (preSolve s v) v v
  rw [if_pos rfl] at e1
  have hbc : (s'.vars v).bc = ((preSolve s v).vars v).bc := by rw [hs', e1]; rfl
  have e2 := postSolve_bcs (preSolve s v) v ((preSolve s v).vars v).bc
  rw [if_pos rfl] at e2
  have hb : s'.bcs (s'.vars v).bc =
      ⟨((preSolve s v).bcs ((preSolve s v).vars v).bc).content, false⟩ := by
    rw [hbc, hs', e2]
  have hx : s'.vars v = applyVar ((preSolve s v).bcs ((preSolve s v).vars v).bc).content
      { (preSolve s v).vars v with interior := (preSolve s v).next } := by rw [hs', e1]
  refine ⟨?_, ?_, ?_, ?_, ?_, ?_, ?_, ?_⟩
  · unfold outdated; rw [hb, hx]; simp [applyVar]
  · rw [hx]; rfl
  · rw [hb, hx]; rfl
  · rw [hb, hx]; simp [applyVar, hp.2.2]
  · rw [hx]; exact hp.2.2
  · rw [hbc]; exact hp.1
  · rw [hb, hp.1]; exact preSolve_content s v _
  · rw [hx]; exact preSolve_next s v

/-! ## 5. Ghost layer -/

theorem ghostInv_init : GhostInv init := varInv_init _

/-- one-step preservation of the ghost-layer invariant, for every op -/
theorem ghostInv_step {s : St} (op : Op) (h : GhostInv s) : GhostInv (step s op).1 :=
  State.ghostInv_step op h

theorem ghostInv_run (ops : List Op) : GhostInv (run ops) :=
  inv_run ghostInv_init (fun _ op h => State.ghostInv_step op h) ops

theorem ghostOK_init : GhostOK init := ghostOK_of_ghostInv ghostInv_init

theorem ghostOK_step {s : St} (op : Op) (h : GhostInv s) : GhostOK (step s op).1 :=
  ghostOK_of_ghostInv (State.ghostInv_step op h)

/-- for EVERY history: the ghost layer of every variable that is not flagged outdated reflects
    its current interior and the current content of its BC object -/
theorem ghostOK_run (ops : List Op) : GhostOK (run ops) := ghostOK_of_ghostInv (ghostInv_run ops)

/-- `WFSt s ∧ GhostOK s` does not imply `GhostOK (step s op).1` (same unreachable state as for
    the cache: `apply_BCs` on a variable sharing the BC object clears the shared flag) -/
theorem ghostOK_step_counterexample :
    ∃ (s : St) (op : Op), WFSt s ∧ GhostOK s ∧ ¬ GhostOK (step s op).1 :=
  ⟨ceState, .applyBCs 0, wf_ceState, by decide, by decide⟩

/-! ## 6. Independence of copies -/

/-- the variable created by `.copy v` / `.arith v` / `.newVarDefault` is variable `s.nV`, it
    refers to the new BC object `s.nB`, and no previously existing variable refers to it -/
theorem copy_gets_fresh_bc {s : St} (h : WFSt s) {op : Op}
    (hop : op = .newVarDefault ∨ ∃ v, v < s.nV ∧ (op = .copy v ∨ op = .arith v)) :
    (step s op).2 = Out.newVar s.nV ∧
    ((step s op).1.vars s.nV).bc = s.nB ∧
    ∀ u, u < s.nV → (step s op).1.vars u = s.vars u ∧
      ((step s op).1.vars u).bc ≠ ((step s op).1.vars s.nV).bc := by
  have key : ∀ u, u < s.nV → (s.vars u).bc ≠ s.nB := fun u hu => Nat.ne_of_lt (h.vars u hu).bc
  rcases hop with rfl | ⟨v, hv, rfl | rfl⟩
  · refine ⟨rfl, ?_, ?_⟩
    · rw [step_newVarDefault_vars, if_pos rfl]; rfl
    · intro u hu
      have e : (step s .newVarDefault).1.vars u = s.vars u :=
        step_frame_var (op := .newVarDefault) hu (fun h => h)
      refine ⟨e, ?_⟩
      rw [e, step_newVarDefault_vars, if_pos rfl]; exact key u hu
  · refine ⟨by simp only [step, if_pos hv]; rfl, ?_, ?_⟩
    · rw [step_copy_vars hv, if_pos rfl]; rfl
    · intro u hu
      have e : (step s (.copy v)).1.vars u = s.vars u :=
        step_frame_var (op := .copy v) hu (fun h => h)
      refine ⟨e, ?_⟩
      rw [e, step_copy_vars hv, if_pos rfl]; exact key u hu
  · refine ⟨by simp only [step, if_pos hv]; rfl, ?_, ?_⟩
    · rw [step_arith_vars hv, if_pos rfl]; rfl
    · intro u hu
      have e : (step s (.arith v)).1.vars u = s.vars u :=
        step_frame_var (op := .arith v) hu (fun h => h)
      refine ⟨e, ?_⟩
      rw [e, step_arith_vars hv, if_pos rfl]; exact key u hu

/-- frame lemma for variables: an op that does not write `u` (`editVal u`, `updateValue u _`,
    `applyBCs u`, `solve u`, `solveExplicit u`) leaves the live variable `u` unchanged.  There is
    no exception: `apply_BCs` of a variable that shares `u`'s BC object only clears the flag on
    the shared *object*. -/
theorem step_frame_var {s : St} {op : Op} {u : Nat} (hu : u < s.nV) (h : ¬ op.writesVar u) :
    (step s op).1.vars u = s.vars u := State.step_frame_var hu h

/-- frame lemma for BC objects: an op leaves the live object `b` unchanged unless it edits `b`
    or applies / solves a variable whose BC object is `b` -/
theorem step_frame_bc {s : St} {op : Op} {b : Nat} (hb : b < s.nB) (h : ¬ touchesBC s op b) :
    (step s op).1.bcs b = s.bcs b := State.step_frame_bc hb h

/-- even the ops that touch `b` through `apply_BCs` never change its *content* -/
theorem apply_keeps_content {s : St} {v : Nat} (b : Nat) :
    ((step s (.applyBCs v)).1.bcs b).content = (s.bcs b).content := by
  simp only [step]; split
  · exact applyBCs_content s v b
  · rfl

/-- after `w` is created by `.copy v`: any sequence of ops that only targets `w` and `w`'s BC
    object leaves `v` and `v`'s BC object unchanged — and symmetrically -/
theorem copy_independent {s : St} (h : WFSt s) {v : Nat} (hv : v < s.nV) (ops : List Op) :
    let s1 := (step s (.copy v)).1
    let w := s.nV
    let bw := s.nB
    let bv := (s.vars v).bc
    (s1.vars w).bc = bw ∧ (s1.vars v).bc = bv ∧ bv ≠ bw ∧
    ((∀ o, o ∈ ops → Targets w bw o) →
      (runFrom s1 ops).vars v = s1.vars v ∧ (runFrom s1 ops).bcs bv = s1.bcs bv) ∧
    ((∀ o, o ∈ ops → Targets v bv o) →
      (runFrom s1 ops).vars w = s1.vars w ∧ (runFrom s1 ops).bcs bw = s1.bcs bw) := by
  intro s1 w bw bv
  have hbv : bv < s.nB := (h.vars v hv).bc
  have hne : bv ≠ bw := Nat.ne_of_lt hbv
  have hvw : v ≠ w := Nat.ne_of_lt hv
  have hnV : s1.nV = s.nV + 1 := step_copy_nV hv
  have hnB : s1.nB = s.nB + 1 := step_copy_nB hv
  have hw : (s1.vars w).bc = bw := by
    show ((step s (.copy v)).1.vars s.nV).bc = s.nB
    rw [step_copy_vars hv, if_pos rfl]; rfl
  have hvb : (s1.vars v).bc = bv := step_bc_field (.copy v) hv
  refine ⟨hw, hvb, hne, ?_, ?_⟩
  · intro ht
    exact runFrom_independent ops s1 ht (by omega) (by omega) (by omega) hw hvw hne
  · intro ht
    exact runFrom_independent ops s1 ht (by omega) (by omega) (by omega) hvb hvw.symm hne.symm

/-- the copy starts as an exact duplicate: same interior and ghost stamps, same snapshot and
    `value.modified`, its own BC object with the same content and flags -/
theorem copy_duplicates {s : St} {v : Nat} (hv : v < s.nV) :
    ((step s (.copy v)).1.vars s.nV).interior = (s.vars v).interior ∧
    ((step s (.copy v)).1.vars s.nV).ghostI = (s.vars v).ghostI ∧
    ((step s (.copy v)).1.vars s.nV).ghostB = (s.vars v).ghostB ∧
    ((step s (.copy v)).1.vars s.nV).applied = (s.vars v).applied ∧
    ((step s (.copy v)).1.vars s.nV).valMod = (s.vars v).valMod ∧
    ((step s (.copy v)).1.vars s.nV).bc = s.nB ∧
    (step s (.copy v)).1.bcs s.nB = s.bcs (s.vars v).bc := by
  have hx : (step s (.copy v)).1.vars s.nV = copyVar s v := by rw [step_copy_vars hv, if_pos rfl]
  rw [hx, step_copy_bcs hv, if_pos rfl]
  exact ⟨rfl, rfl, rfl, rfl, rfl, rfl, rfl⟩

/-- the copy is flagged outdated iff the original is -/
theorem copy_outdated_iff {s : St} {v : Nat} (hv : v < s.nV) :
    outdated (step s (.copy v)).1 ((step s (.copy v)).1.vars s.nV) = outdated s (s.vars v) := by
  have h := copy_duplicates hv
  unfold outdated
  rw [h.2.2.2.2.2.1, h.2.2.2.2.2.2, h.2.2.2.2.1, h.2.2.2.1]

/-- the cached boundary terms of the copy are built from the current content of its own BC
    object, whatever the state of the original -/
theorem copy_cache_current {s : St} {v : Nat} (hv : v < s.nV) :
    ((step s (.copy v)).1.vars s.nV).cache =
      some ((step s (.copy v)).1.bcs ((step s (.copy v)).1.vars s.nV).bc).content := by
  have hx : (step s (.copy v)).1.vars s.nV = copyVar s v := by rw [step_copy_vars hv, if_pos rfl]
  rw [hx]
  show some _ = some ((step s (.copy v)).1.bcs s.nB).content
  rw [step_copy_bcs hv, if_pos rfl]

/-! ## 7. The explicit solver -/

/-- the variable returned by `solveExplicitPDE` has no cached boundary terms … -/
theorem explicit_result_has_no_cache (s : St) {v : Nat} (hv : v < s.nV) :
    (step s (.solveExplicit v)).2 = Out.newVar s.nV ∧
    ((step s (.solveExplicit v)).1.vars s.nV).cache = none ∧
    ((step s (.solveExplicit v)).1.vars s.nV).precalc = false ∧
    ((step s (.solveExplicit v)).1.vars s.nV).bc = (s.vars v).bc := by
  rw [step_solveExplicit hv, postExplicit_vars, preExplicit_nV, if_pos rfl]
  exact ⟨rfl, rfl, rfl, rfl⟩

/-- … and is nevertheless usable by the implicit solver: the following `.solve w` builds the
    missing boundary terms from the current content (never `none`) and starts from the
    explicit result -/
theorem explicit_result_usable (s : St) {v : Nat} (hv : v < s.nV) :
    let s1 := (step s (.solveExplicit v)).1
    let w := s.nV
    w < s1.nV ∧
    (step s1 (.solve w)).2 = Out.solved (some (s1.bcs (s1.vars w).bc).content) (s1.vars w).interior ∧
    (s1.bcs (s1.vars w).bc).content = (s.bcs (s.vars v).bc).content ∧
    (s1.vars w).interior = s.next := by
  intro s1 w
  have hs1 : s1 = postExplicit (preExplicit s v) (s.vars v).bc := by
    show (step s (.solveExplicit v)).1 = _
    rw [step_solveExplicit hv]
  have hw : w < s1.nV := by
    rw [hs1, postExplicit_nV, preExplicit_nV]; exact Nat.lt_succ_self _
  have hx : s1.vars w = applyVar ((preExplicit s v).bcs (s.vars v).bc).content
      (mkVar (preExplicit s v) (s.vars v).bc (preExplicit s v).next false) := by
    rw [hs1, postExplicit_vars, preExplicit_nV, if_pos rfl]
  refine ⟨hw, solve_out_of_cacheS hw (by rw [hx]; exact cacheS_of_cacheV (cacheV_applyVar _ _) _), ?_, ?_⟩
  · have hbc : (s1.vars w).bc = (s.vars v).bc := by rw [hx]; rfl
    rw [hbc, hs1, postExplicit_bcs, if_pos rfl]
    exact preExplicit_content s v _
  · rw [hx]; exact preExplicit_next s v

/-- for every history: the explicit result can be solved implicitly -/
theorem explicit_result_usable_run (ops : List Op) {v : Nat} (hv : v < (run ops).nV) :
    ∃ c i, (runOut (run ops) [.solveExplicit v, .solve (run ops).nV]).2 =
      [Out.newVar (run ops).nV, Out.solved (some c) i] := by
  have h := explicit_result_usable (run ops) hv
  exact ⟨_, _, by
    show [_, _] = _
    rw [h.2.1, (explicit_result_has_no_cache (run ops) hv).1]⟩

/-- `solveExplicitPDE(v, …)` changes `v` at most by what `apply_BCs` does: interior values and
    BC object of the input are untouched -/
theorem explicit_input_untouched (s : St) {v : Nat} (hv : v < s.nV) :
    ((step s (.solveExplicit v)).1.vars v).interior = (s.vars v).interior ∧
    ((step s (.solveExplicit v)).1.vars v).bc = (s.vars v).bc ∧
    ((step s (.solveExplicit v)).1.vars v = s.vars v ∨
     (step s (.solveExplicit v)).1.vars v = applyVar (s.bcs (s.vars v).bc).content (s.vars v)) := by
  have hne : v ≠ s.nV := Nat.ne_of_lt hv
  rw [step_solveExplicit hv, postExplicit_vars, preExplicit_nV, if_neg hne]
  rcases preExplicit_vars s v v with e | ⟨_, e⟩
  · rw [e]; exact ⟨rfl, rfl, Or.inl rfl⟩
  · rw [e]; exact ⟨rfl, rfl, Or.inr rfl⟩

/-! ## 8. The old machine (the two repaired defects) -/

/-- sharing: under the old `solve` (flags only) the second variable on a shared, edited BC
    object solves with boundary terms built from the OLD content (stamp 1, current is 4) -/
theorem old_shared_bc_stale :
    let h : List Op := [.newBC, .newVar 0, .newVar 0, .editBC 0, .solve 0, .solve 1]
    (runOutOld init h).2.getLast? = some (Out.solved (some 1) 3) ∧
    ((runOutOld init h).1.bcs 0).content = 4 ∧
    (runOut init h).2.getLast? = some (Out.solved (some 4) 3) ∧
    ((runOut init h).1.bcs 0).content = 4 := by
  decide

/-- the result of the explicit solver was unusable by the old implicit solver (no boundary
    terms at all), and is usable now -/
theorem old_explicit_result_unusable :
    let h : List Op := [.newVarDefault, .solveExplicit 0, .solve 1]
    (runOutOld init h).2.getLast? = some (Out.solved none 3) ∧
    (runOut init h).2.getLast? = some (Out.solved (some 1) 3) ∧
    ((runOut init h).1.bcs 0).content = 1 := by
  decide

/-- an in-place edit that bypasses the tracking was missed by the old solver -/
theorem old_silent_edit_missed :
    let h : List Op := [.newVarDefault, .editBCSilent 0, .solve 0]
    (runOutOld init h).2.getLast? = some (Out.solved (some 1) 2) ∧
    ((runOutOld init h).1.bcs 0).content = 3 ∧
    (runOut init h).2.getLast? = some (Out.solved (some 3) 2) ∧
    ((runOut init h).1.bcs 0).content = 3 := by
  decide

/-- `CacheOK` fails in a reachable state of the OLD machine … never of the new one
    (`cacheOK_run`); here the old outdated-test is the relevant one -/
theorem old_cache_stale_unflagged :
    let s := runOld [.newBC, .newVar 0, .newVar 0, .editBC 0, .solve 0]
    outdatedOld s (s.vars 1) = false ∧ (s.vars 1).cache ≠ some (s.bcs (s.vars 1).bc).content := by
  decide

/-- the `copy()` before its repair, value edit: copying a variable whose values were edited but
    not yet re-applied copied the stale ghost layer while the constructor reset
    `value.modified`; now the copy is flagged outdated like its original -/
theorem old_copy_stale_ghost_value :
    let h : List Op := [.newVarDefault, .editVal 0, .copy 0]
    (outdated (runOldCopy h) ((runOldCopy h).vars 1) = false ∧
     ((runOldCopy h).vars 1).ghostI ≠ ((runOldCopy h).vars 1).interior ∧ ¬ GhostOK (runOldCopy h)) ∧
    (outdated (run h) ((run h).vars 1) = true ∧ GhostOK (run h)) := by
  decide

/-- the `copy()` before its repair, shared BC object edited and applied by the OTHER variable:
    the copy of variable 1 (snapshot out of date, shared flag already cleared) was not flagged
    outdated, yet its ghost layer was computed from the old content -/
theorem old_copy_stale_ghost_shared :
    let h : List Op := [.newBC, .newVar 0, .newVar 0, .editBC 0, .applyBCs 0, .copy 1]
    (outdated (runOldCopy h) ((runOldCopy h).vars 2) = false ∧
     ((runOldCopy h).vars 2).ghostB ≠ ((runOldCopy h).bcs ((runOldCopy h).vars 2).bc).content ∧
     ¬ GhostOK (runOldCopy h)) ∧
    (outdated (run h) ((run h).vars 2) = true ∧ GhostOK (run h)) := by
  decide

/-- the `copy()` before its repair, silent in-place edit (no sharing needed) -/
theorem old_copy_stale_ghost_silent :
    let h : List Op := [.newVarDefault, .editBCSilent 0, .copy 0]
    (outdated (runOldCopy h) ((runOldCopy h).vars 1) = false ∧
     ((runOldCopy h).vars 1).ghostB ≠ ((runOldCopy h).bcs ((runOldCopy h).vars 1).bc).content ∧
     ¬ GhostOK (runOldCopy h)) ∧
    (outdated (run h) ((run h).vars 1) = true ∧ GhostOK (run h)) := by
  decide

/-- in all three histories the solve of the (old or new) copy was and is right: the solve does
    not read the ghost layer -/
theorem copy_of_dirty_solves_right :
    ∀ h, h ∈ [[Op.newVarDefault, .editVal 0, .copy 0], [.newVarDefault, .editBCSilent 0, .copy 0]] →
      (step (run h) (.solve 1)).2 =
        Out.solved (some ((run h).bcs ((run h).vars 1).bc).content) ((run h).vars 1).interior := by
  decide

/-! ## 9. Non-vacuity -/

/-- `demoHistory`: sharing, tracked and silent edits, explicit solve, copy, arithmetic,
    `update_value`; it has 6 live variables and 4 BC objects -/
example : (run demoHistory).nV = 6 ∧ (run demoHistory).nB = 4 := by decide

/-- the main theorem on `demoHistory`, evaluated: every one of the six variables solves with
    the current content of its BC object -/
example : ∀ v, v < (run demoHistory).nV →
    (step (run demoHistory) (.solve v)).2.usedBC =
      some (some ((run demoHistory).bcs ((run demoHistory).vars v).bc).content) := by decide

/-- variables 0, 1, 2 really share BC object 0 in `demoHistory`, and it was edited twice -/
example : ((run demoHistory).vars 0).bc = 0 ∧ ((run demoHistory).vars 1).bc = 0 ∧
    ((run demoHistory).vars 2).bc = 0 ∧ ((run demoHistory).bcs 0).content ≠ 1 := by decide

example : GhostOK (run demoHistory) ∧ CacheOK (run demoHistory) :=
  ⟨ghostOK_run _, cacheOK_run _⟩

/-- a copy of an outdated variable: flagged outdated (`copy_outdated_iff`), second alternative of
    `CacheS` (snapshot ≠ current content) while its cache IS current (`copy_cache_current`) -/
example :
    let s := run [.newVarDefault, .editBCSilent 0, .copy 0]
    outdated s (s.vars 1) = true ∧ (s.vars 1).applied ≠ (s.bcs (s.vars 1).bc).content ∧
    (s.vars 1).cache = some (s.bcs (s.vars 1).bc).content := by decide

/-- some variable of `demoHistory` is not outdated (so `CacheOK` / `GhostOK` say something) and
    some variable is outdated -/
example : outdated (run demoHistory) ((run demoHistory).vars 0) = false ∧
    outdated (run demoHistory) ((run demoHistory).vars 3) = false ∧
    outdated (run (demoHistory ++ [.editBC 0])) ((run (demoHistory ++ [.editBC 0])).vars 1) = true := by
  decide

/-- hypotheses of `copy_independent`: ops that target only the copy (variable 3, object 1) -/
example : ∀ o, o ∈ [Op.editVal 3, .editBC 1, .editBCSilent 1, .solve 3, .applyBCs 3,
    .updateValue 3 0, .solveExplicit 3, .newBC, .copy 0] → Targets 3 1 o := by decide

/-- `copy_independent`, evaluated: edit and solve the copy, the original and its BC object do
    not move; edit the original, the copy does not move -/
example :
    let s := run [.newVarDefault, .editBC 0, .copy 0]
    let t := runFrom s [.editVal 1, .editBC 1, .solve 1, .editBCSilent 1, .applyBCs 1]
    let t' := runFrom s [.editVal 0, .editBC 0, .solve 0]
    t.vars 0 = s.vars 0 ∧ t.bcs 0 = s.bcs 0 ∧ t'.vars 1 = s.vars 1 ∧ t'.bcs 1 = s.bcs 1 := by
  decide

/-- sharing is NOT independence: solving variable 0 clears the flag of the shared object, yet
    variable 1 still sees that it is outdated (snapshot comparison) -/
example :
    let s := run [.newBC, .newVar 0, .newVar 0, .editBC 0, .solve 0]
    (s.bcs 0).modified = false ∧ outdated s (s.vars 1) = true := by decide

/-- `explicit_result_usable`, evaluated after a history -/
example : (runOut (run demoHistory) [.solveExplicit 4, .solve 6]).2 =
    [.newVar 6, .solved (some ((run demoHistory).bcs 2).content) (run demoHistory).next] := by
  decide

/-- `after_solve_clean`: a dirty variable (value edit + boundary edit) is clean after a solve -/
example :
    let s := run [.newVarDefault, .editVal 0, .editBC 0]
    outdated s (s.vars 0) = true ∧ outdated (step s (.solve 0)).1 ((step s (.solve 0)).1.vars 0) = false := by
  decide

/-! ### known finding `stale-ghosts-read-by-term-builders`

The guarantees above are about what the *solvers* see: they look at `outdated` and re-apply.  The stored ghost layer
itself IS stale between an edit and the next `apply_BCs` / solve, and the other readers of the ghosted array
(`linearMean`, `gradientTerm`, `upwindMean`, the TVD right-hand sides, …) do not look at the flag. -/

/-- after a value edit the ghost layer is the one computed from the interior of BEFORE the edit, and the variable is
    flagged outdated — any reader that ignores the flag sees stale ghost cells -/
theorem value_edit_leaves_stale_ghost :
    let s := run [.newVarDefault, .editVal 0]
    (s.vars 0).ghostI ≠ (s.vars 0).interior ∧ outdated s (s.vars 0) = true := by
  decide

/-- the same after an edit of the boundary conditions: the ghost layer was computed from the previous content -/
theorem bc_edit_leaves_stale_ghost :
    let s := run [.newVarDefault, .editBC 0]
    (s.vars 0).ghostB ≠ (s.bcs (s.vars 0).bc).content ∧ outdated s (s.vars 0) = true := by
  decide

/-- … and `apply_BCs` (or any solve) repairs it -/
theorem apply_repairs_stale_ghost :
    let s := run [.newVarDefault, .editVal 0, .editBC 0, .applyBCs 0]
    (s.vars 0).ghostI = (s.vars 0).interior ∧ (s.vars 0).ghostB = (s.bcs (s.vars 0).bc).content
      ∧ outdated s (s.vars 0) = false := by
  decide

end PyFV.C09
