/-
  Property C16 — malformed input is rejected with the documented exception type, every
  documented constructor form / label / term kind is accepted.

  `PyFV.Gen.*`      label tables generated from mesh.py / face.py on every run (T-err)
  `PyFV.ErrSpec.*`  hand-written: the documented behaviour (`spec…`) and decision models of the
                    code's cascades (`ctorOutcome`, `shapeOutcome`, `termOutcome`, `bfaceOutcome`,
                    `radialPeriodicOutcome`), tied to the code by the exhaustive correspondence
                    `harness/c16.py`.

  After the repairs of the repo (`fix:` commits on mesh.py, face.py, cell.py, pdesolver.py) the
  label, constructor-arity, term, boundary-coefficient and radial-periodic tables equal the
  documented ones and the full statements are theorems.  Constructor calls with the right number
  of arguments of the wrong types (`ErrSpec.ctorTypeConfusion`) are outside the arity property:
  the model says what happens, the spec comparison excludes them (they never construct a mesh).

  Likewise excluded (`ErrSpec.shapeOutOfScope`): a size-1 initial value of rank above the mesh rank
  on a single-cell 2-D/3-D mesh, which the code happens to accept; on every other mesh such a value
  raises ValueError as documented (it fits neither the grid nor the grid with ghosts).
-/
import PyFV.Gen.Errors
import PyFV.Model.BC

set_option linter.unusedSectionVars false
set_option linter.unusedVariables false

namespace PyFV.C16
open PyFV PyFV.ErrSpec

/-! ## Coordinate labels of `cellsize` / `cellcenters` / `facecenters` -/

/-- the `coordlabels` dictionaries in the source are the documented ones -/
theorem coordLabels_eq_spec : ∀ k ∈ allKinds, Gen.coordLabelsOf k = ownCoords k := by decide

/-- reading: generated table = documented table, all 9 classes × 6 labels -/
theorem coordGet_eq_spec :
    ∀ k ∈ allKinds, ∀ l ∈ allCoordLabels, Gen.coordLabelGet k l = specCoord k l := by decide

/-- writing: every coordinate label is read-only on every class -/
theorem coordSet_eq_spec :
    ∀ k ∈ allKinds, ∀ l ∈ allCoordLabels, Gen.coordLabelSet k l = specCoordSet k l := by decide

/-- no `@<label>.setter` exists in `CellProp` -/
theorem coord_no_setters : Gen.coordSetters = [] := by decide

/-- a label foreign to the grid's coordinate system raises AttributeError, reading and writing -/
theorem foreign_label_raises :
    ∀ k ∈ allKinds, ∀ l ∈ allCoordLabels, (ownCoords k).lookup l = none →
      Gen.coordLabelGet k l = .attrError ∧ Gen.coordLabelSet k l = .attrError := by decide

/-- every documented label returns the internal array of its axis -/
theorem own_label_accepted :
    ∀ k ∈ allKinds, ∀ p ∈ ownCoords k, Gen.coordLabelGet k p.1 = .ok p.2 := by decide

/-- every class documents exactly `dim` labels -/
theorem own_label_count : ∀ k ∈ allKinds, (ownCoords k).length = k.dim := by decide

/-! ## Vector-component labels of `FaceVariable` -/

/-- reading: generated table = documented table, all 9 classes × 6 labels -/
theorem compGet_eq_spec :
    ∀ k ∈ allKinds, ∀ l ∈ allCompLabels, Gen.compLabelGet k l = specComp k l := by decide

/-- writing -/
theorem compSet_eq_spec :
    ∀ k ∈ allKinds, ∀ l ∈ allCompLabels, Gen.compLabelSet k l = specCompSet k l := by decide

/-- every documented component label is accepted on every class, reading and writing, and
    addresses the internal array of its axis -/
theorem own_comp_accepted :
    ∀ k ∈ allKinds, ∀ p ∈ ownComps k,
      Gen.compLabelGet k p.1 = .ok p.2 ∧ Gen.compLabelSet k p.1 = .ok p.2 := by decide

/-- a component label foreign to the grid's coordinate system raises AttributeError,
    reading and writing alike -/
theorem foreign_comp_raises :
    ∀ k ∈ allKinds, ∀ l ∈ allCompLabels, (ownComps k).lookup l = none →
      Gen.compLabelGet k l = .attrError ∧ Gen.compLabelSet k l = .attrError := by decide

/-- no entry of the four generated tables falls through to NotImplementedError or `other` -/
theorem label_tables_closed :
    ∀ k ∈ allKinds,
      (∀ l ∈ allCoordLabels, (Gen.coordLabelGet k l).isOk = true ∨ Gen.coordLabelGet k l = .attrError) ∧
      (∀ l ∈ allCompLabels,
        ((Gen.compLabelGet k l).isOk = true ∨ Gen.compLabelGet k l = .attrError) ∧
        ((Gen.compLabelSet k l).isOk = true ∨ Gen.compLabelSet k l = .attrError)) := by decide

/-! ## Constructor arity -/

/-- model = documented behaviour on every form of arities 0..7 that is not a type confusion
    (right number of arguments of the wrong types, outside the arity property) -/
theorem ctor_eq_spec :
    ∀ k ∈ allKinds, ∀ f ∈ allForms, ctorTypeConfusion k f = false →
      ctorOutcome k f = specCtor k f := by decide

/-- a wrong NUMBER of arguments raises TypeError on every class (6 arrays are the direct init) -/
theorem ctor_wrong_arity_typeError :
    ∀ k ∈ allKinds, ∀ n ∈ arities, n ≠ k.dim → n ≠ 2 * k.dim →
      ctorOutcome k (.scalars n) = .typeError ∧ (n ≠ 6 → ctorOutcome k (.arrays n) = .typeError) := by
  decide

/-- every documented constructor form is accepted on every grid class -/
theorem ctor_documented_accepted :
    ∀ k ∈ allKinds,
      ctorOutcome k (.arrays k.dim) = .accept ∧ ctorOutcome k (.scalars (2 * k.dim)) = .accept
        ∧ ctorOutcome k (.arrays 6) = .accept := by decide

/-- exactly the documented forms are accepted — over ALL enumerated forms, type confusions included -/
theorem ctor_accept_iff :
    ∀ k ∈ allKinds, ∀ f ∈ allForms, (ctorOutcome k f = .accept ↔ specCtor k f = .accept) := by
  decide

/-- the type confusions are exactly `dim` scalars and (1-D, 2-D) `2·dim` arrays -/
theorem ctor_type_confusion_iff :
    ∀ k ∈ allKinds, ∀ f ∈ allForms,
      (ctorTypeConfusion k f = true ↔
        (f = .scalars k.dim ∨ (k.dim ≤ 2 ∧ f = .arrays (2 * k.dim)))) := by decide

/-- what they do: never a mesh; AttributeError (`.size` of a number), TypeError (numpy refuses an
    array as a count; a number is not subscriptable) or ValueError (truth value of an array) -/
theorem ctor_type_confusion_values :
    (allKinds.map fun k => (ctorOutcome k (.scalars k.dim), ctorOutcome k (.arrays (2 * k.dim)))) =
      [ (.attrError, .typeError), (.attrError, .typeError), (.attrError, .typeError),
        (.attrError, .typeError), (.attrError, .typeError), (.typeError, .valueError),
        (.attrError, .accept), (.typeError, .accept), (.typeError, .accept) ] := by decide

/-! ## Initial-value shape (real ∀ over all lists, all ranks) -/

/-- only two outcomes -/
theorem shape_outcome_cases (dims shape : List ℕ) :
    shapeOutcome dims shape = .accept ∨ shapeOutcome dims shape = .valueError := by
  unfold shapeOutcome size1Downstream
  split
  · split
    · exact Or.inl rfl
    · split
      · exact Or.inl rfl
      · exact Or.inr rfl
  · split
    · exact Or.inl rfl
    · split
      · exact Or.inl rfl
      · exact Or.inr rfl

/-- ALL RANKS: the mesh shape, the mesh shape with ghost cells, and single values of rank at most
    the mesh rank (scalars included) are accepted -/
theorem shape_documented_accepted (dims shape : List ℕ)
    (h : shape = dims ∨ shape = dims.map (· + 2) ∨ (shape.prod = 1 ∧ shape.length ≤ dims.length)) :
    shapeOutcome dims shape = .accept := by
  unfold shapeOutcome
  by_cases hp : shape.prod = 1
  · rw [if_pos hp]
    have hl : shape.length ≤ dims.length := by
      rcases h with h | h | h
      · rw [h]
      · rw [h, List.length_map]
      · exact h.2
    rw [if_pos hl]
  · rw [if_neg hp]
    rcases h with h | h | h
    · rw [if_pos h]
    · by_cases h1 : shape = dims
      · rw [if_pos h1]
      · rw [if_neg h1, if_pos h]
    · exact absurd h.1 hp

example : shapeOutcome [2, 3] [2, 3] = .accept ∧ shapeOutcome [2, 3] [4, 5] = .accept
    ∧ shapeOutcome [2, 3] [1, 1] = .accept ∧ shapeOutcome [2, 3] [1] = .accept
    ∧ shapeOutcome [2, 3] [] = .accept := by decide

/-- ALL RANKS: an initial array that fits neither the grid nor the grid with ghost cells and is
    not scalar-like raises ValueError (single-cell 2-D/3-D meshes with a size-1 value of too high
    a rank excepted, see `shape_out_of_scope_accepted`) -/
theorem shape_reject_valueError (dims shape : List ℕ)
    (h : ¬ (shape = dims ∨ shape = dims.map (· + 2) ∨ (shape.prod = 1 ∧ shape.length ≤ dims.length)))
    (hs : shapeOutOfScope dims shape = false) :
    shapeOutcome dims shape = .valueError := by
  have h1 : ¬ shape = dims := fun e => h (Or.inl e)
  have h2 : ¬ shape = dims.map (· + 2) := fun e => h (Or.inr (Or.inl e))
  unfold shapeOutcome
  by_cases hp : shape.prod = 1
  · have hl : ¬ shape.length ≤ dims.length := fun e => h (Or.inr (Or.inr ⟨hp, e⟩))
    rw [if_pos hp, if_neg hl]
    unfold size1Downstream
    by_cases hc : 2 ≤ dims.length ∧ dims.all (· == 1) = true
    · exfalso
      have : shapeOutOfScope dims shape = true := by
        unfold shapeOutOfScope
        rw [Bool.and_eq_true]
        exact ⟨decide_eq_true ⟨hp, by omega, hc.1⟩, hc.2⟩
      rw [this] at hs
      exact absurd hs (by decide)
    · rw [if_neg hc]
  · rw [if_neg hp, if_neg h1, if_neg h2]

example : shapeOutcome [3, 3] [3] = .valueError ∧ shapeOutcome [3] [5, 5] = .valueError
    ∧ shapeOutcome [2, 3] [3, 2] = .valueError ∧ shapeOutcome [3] [1, 1] = .valueError
    ∧ shapeOutcome [1] [1, 1] = .valueError ∧ shapeOutcome [1, 2] [1, 1, 1] = .valueError := by decide

/-- for matching rank: accepted ⇔ shape = dims ∨ shape = dims+2 ∨ a single value -/
theorem shape_accept_iff (dims shape : List ℕ) (h : shape.length = dims.length) :
    shapeOutcome dims shape = .accept ↔
      (shape = dims ∨ shape = dims.map (· + 2) ∨ shape.prod = 1) := by
  have hs : shapeOutOfScope dims shape = false := by
    unfold shapeOutOfScope
    rw [Bool.and_eq_false_iff]
    exact Or.inl (decide_eq_false (fun ⟨_, hl, _⟩ => by omega))
  constructor
  · intro e
    by_contra hn
    have hn' : ¬ (shape = dims ∨ shape = dims.map (· + 2) ∨ (shape.prod = 1 ∧ shape.length ≤ dims.length)) := by
      rintro (e | e | e)
      · exact hn (Or.inl e)
      · exact hn (Or.inr (Or.inl e))
      · exact hn (Or.inr (Or.inr e.1))
    rw [shape_reject_valueError dims shape hn' hs] at e
    exact absurd e (by decide)
  · rintro (e | e | e)
    · exact shape_documented_accepted dims shape (Or.inl e)
    · exact shape_documented_accepted dims shape (Or.inr (Or.inl e))
    · exact shape_documented_accepted dims shape (Or.inr (Or.inr ⟨e, h.le⟩))

/-- ALL RANKS, ALL SHAPES: model = documented behaviour (outside the one excluded configuration) -/
theorem shape_eq_spec (dims shape : List ℕ) (hs : shapeOutOfScope dims shape = false) :
    shapeOutcome dims shape = specShape dims shape := by
  by_cases h : shape = dims ∨ shape = dims.map (· + 2) ∨ (shape.prod = 1 ∧ shape.length ≤ dims.length)
  · rw [specShape, if_pos h]
    exact shape_documented_accepted dims shape h
  · rw [specShape, if_neg h]
    exact shape_reject_valueError dims shape h hs

example : shapeOutOfScope [3] [1, 1] = false ∧ shapeOutOfScope [2, 3] [1, 1, 1] = false
    ∧ shapeOutOfScope [1, 1] [1, 1] = false ∧ shapeOutOfScope [1] [1, 1] = false := by decide

/-- every mesh with more than one cell, and every 1-D mesh, is in scope for every shape -/
theorem shape_in_scope_of_cell (dims shape : List ℕ)
    (h : dims.length ≤ 1 ∨ ∃ d ∈ dims, d ≠ 1) : shapeOutOfScope dims shape = false := by
  unfold shapeOutOfScope
  rw [Bool.and_eq_false_iff]
  rcases h with h | ⟨d, hd, hne⟩
  · exact Or.inl (decide_eq_false (fun ⟨_, _, h2⟩ => by omega))
  · right
    rw [List.all_eq_false]
    exact ⟨d, hd, by simpa using hne⟩

/-- honesty about the excluded configuration: there the code accepts the value (spec: ValueError) -/
theorem shape_out_of_scope_accepted (dims shape : List ℕ) (hs : shapeOutOfScope dims shape = true) :
    shapeOutcome dims shape = .accept ∧ specShape dims shape = .valueError := by
  unfold shapeOutOfScope at hs
  rw [Bool.and_eq_true] at hs
  obtain ⟨h1, h2⟩ := hs
  obtain ⟨hp, hl, hd⟩ := of_decide_eq_true h1
  constructor
  · unfold shapeOutcome size1Downstream
    rw [if_pos hp, if_neg (by omega), if_pos ⟨hd, h2⟩]
  · unfold specShape
    rw [if_neg]
    rintro (e | e | e)
    · rw [e] at hl; omega
    · rw [e, List.length_map] at hl; omega
    · omega

example : shapeOutOfScope [1, 1] [1, 1, 1] = true ∧ shapeOutcome [1, 1] [1, 1, 1] = .accept := by decide

/-! ## Equation terms of `solvePDE` -/

/-- `allTerms` lists every constructor -/
theorem allTerms_complete (t : TermShape) : t ∈ allTerms := by cases t <;> decide

/-- model = documented behaviour for every term kind -/
theorem term_eq_spec (t : TermShape) : termOutcome t = specTerm t := by cases t <;> decide

/-- every documented term kind is accepted, every other one raises TypeError -/
theorem term_accept_iff (t : TermShape) :
    termOutcome t = .accept ↔ (t = .mat ∨ t = .vec ∨ t = .pair) := by cases t <;> decide

theorem term_unknown_typeError (t : TermShape) (h : ¬ (t = .mat ∨ t = .vec ∨ t = .pair)) :
    termOutcome t = .typeError := by revert h; cases t <;> decide

example : termOutcome .tuple3 = .typeError ∧ termOutcome .none = .typeError := by decide

/-! ## Boundary coefficients -/

theorem bface_eq_spec (a b c : CoefType) : bfaceOutcome a b c = specBFace a b c := by
  cases a <;> cases b <;> cases c <;> decide

theorem bface_accept_iff (a b c : CoefType) :
    bfaceOutcome a b c = .accept ↔ (a = .ndarray ∧ b = .ndarray ∧ c = .ndarray) := by
  cases a <;> cases b <;> cases c <;> decide

theorem bface_reject_typeError (a b c : CoefType) (h : ¬ (a = .ndarray ∧ b = .ndarray ∧ c = .ndarray)) :
    bfaceOutcome a b c = .typeError := by
  revert h; cases a <;> cases b <;> cases c <;> decide

example : bfaceOutcome .ndarray .float .ndarray = .typeError := by decide

/-! ## Periodic flags on a radial boundary -/

/-- for EVERY list of flags: rejected ⇔ radial class ∧ (left ∨ right flagged) -/
theorem radial_periodic_iff (k : Kind) (flags : List Bool) :
    radialPeriodicOutcome k flags = .valueError ↔
      (k.radial = true ∧ (flags.getD 0 false = true ∨ flags.getD 1 false = true)) := by
  unfold radialPeriodicOutcome
  cases k <;> cases flags.getD 0 false <;> cases flags.getD 1 false <;> decide

theorem radial_periodic_eq_spec (k : Kind) (flags : List Bool) :
    radialPeriodicOutcome k flags = specRadialPeriodic k flags := by
  unfold radialPeriodicOutcome specRadialPeriodic
  cases k <;> cases flags.getD 0 false <;> cases flags.getD 1 false <;> decide

/-- otherwise the flags are accepted (periodicity along non-radial axes is legal on every class) -/
theorem radial_periodic_accept (k : Kind) (flags : List Bool)
    (h : ¬ (k.radial = true ∧ (flags.getD 0 false = true ∨ flags.getD 1 false = true))) :
    radialPeriodicOutcome k flags = .accept := by
  revert h
  unfold radialPeriodicOutcome
  cases k <;> cases flags.getD 0 false <;> cases flags.getD 1 false <;> decide

example : radialPeriodicOutcome .cyl2 [false, false, true, true, false, false] = .accept
    ∧ radialPeriodicOutcome .cart1 [true, true, false, false, false, false] = .accept
    ∧ radialPeriodicOutcome .sph3 [false, true, false, false, false, false] = .valueError := by decide

/-- the table over all 64 flag subsets × 9 classes (what the correspondence enumerates) -/
theorem radial_periodic_table :
    ∀ k ∈ allKinds, ∀ f ∈ allFlags, radialPeriodicOutcome k f = specRadialPeriodic k f := by
  decide

theorem allFlags_length : allFlags.length = 64 := by decide

/-- the decision agrees with `radialPeriodicRejected` of the boundary model used by C07/C08 -/
theorem radial_periodic_matches_BC_model {α : Type} (k : Kind) (bc : BCs α) :
    radialPeriodicOutcome k
        [(bc.lo .x).periodic, (bc.hi .x).periodic, (bc.lo .y).periodic, (bc.hi .y).periodic,
         (bc.lo .z).periodic, (bc.hi .z).periodic] = .valueError
      ↔ radialPeriodicRejected k bc = true := by
  unfold radialPeriodicOutcome radialPeriodicRejected BCs.periodicDir
  simp only [List.getD_cons_zero, List.getD_cons_succ]
  cases k <;> cases (bc.lo .x).periodic <;> cases (bc.hi .x).periodic <;> decide

end PyFV.C16
