/-
  Property C16 — malformed input is rejected with the documented exception type, every
  documented constructor form / label / term kind is accepted.

  `PyFV.Gen.*`      label tables generated from mesh.py / face.py on every run (T-err)
  `PyFV.ErrSpec.*`  hand-written: the documented behaviour (`spec…`) and decision models of the
                    code's cascades (`ctorOutcome`, `shapeOutcome`, `termOutcome`, `bfaceOutcome`,
                    `radialPeriodicOutcome`), tied to the code by the exhaustive correspondence
                    `harness/c16.py`.

  Where the code AS IT IS deviates from the documentation, the full statement is kept as a
  `def …_statement : Prop`, refuted (`…_counterexample`), the equality is proved on all
  non-deviating entries (`…_partial`) and the list of deviating entries is proved exact
  (`…_deviations_exact`).  Deviations found (candidate defects of the repo):

    * component labels: `FaceVariable.thetavalue/.phivalue` on SphericalGrid1D raise
      NotImplementedError (get and set); `FaceVariable.rvalue = …` is accepted on Grid1D/2D/3D;
    * constructor arity: see `ErrSpec.ctorDeviations` (IndexError / ValueError /
      UnboundLocalError / AttributeError instead of TypeError; six scalars accepted by the 1-D
      and 2-D classes);
    * initial-value shape: numpy broadcasting in the comparison lets a rank-1 shape `[n]`
      (or `[n+2]`) through for a mesh whose extents all equal `n`, and any shape whose entries all
      equal `n` (or `n+2`) for a 1-D mesh of `n` cells;
    * term kinds: a 3-tuple raises ValueError, Python scalars / strings / lists / None raise
      AttributeError.
-/
import PyFV.Gen.Errors
import PyFV.Model.BC

set_option linter.unusedSectionVars false
set_option linter.unusedVariables false

namespace PyFV.C16
open PyFV PyFV.ErrSpec

/-! ## Coordinate labels of `cellsize` / `cellcenters` / `facecenters` -/

/-- the `coordlabels` dictionaries in the source are the documented ones -/
theorem coordLabels_eq_spec : ∀ k ∈ allKinds, Gen.coordLabelsOf k = ownCoords k := by decide

/-- reading: generated table = documented table, all 9 classes × 6 labels -/
theorem coordGet_eq_spec :
    ∀ k ∈ allKinds, ∀ l ∈ allCoordLabels, Gen.coordLabelGet k l = specCoord k l := by decide

/-- writing: every coordinate label is read-only on every class -/
theorem coordSet_eq_spec :
    ∀ k ∈ allKinds, ∀ l ∈ allCoordLabels, Gen.coordLabelSet k l = specCoordSet k l := by decide

/-- no `@<label>.setter` exists in `CellProp` -/
theorem coord_no_setters : Gen.coordSetters = [] := by decide

/-- a label foreign to the grid's coordinate system raises AttributeError, reading and writing -/
theorem foreign_label_raises :
    ∀ k ∈ allKinds, ∀ l ∈ allCoordLabels, (ownCoords k).lookup l = none →
      Gen.coordLabelGet k l = .attrError ∧ Gen.coordLabelSet k l = .attrError := by decide

/-- every documented label returns the internal array of its axis -/
theorem own_label_accepted :
    ∀ k ∈ allKinds, ∀ p ∈ ownCoords k, Gen.coordLabelGet k p.1 = .ok p.2 := by decide

/-- every class documents exactly `dim` labels -/
theorem own_label_count : ∀ k ∈ allKinds, (ownCoords k).length = k.dim := by decide

/-! ## Vector-component labels of `FaceVariable` -/

/-- FULL statement (false for the code as it is) -/
def compGet_eq_spec_statement : Prop :=
  ∀ k ∈ allKinds, ∀ l ∈ allCompLabels, Gen.compLabelGet k l = specComp k l

def compSet_eq_spec_statement : Prop :=
  ∀ k ∈ allKinds, ∀ l ∈ allCompLabels, Gen.compLabelSet k l = specCompSet k l

/-- `FaceVariable(SphericalGrid1D).thetavalue` raises NotImplementedError, not AttributeError -/
theorem compGet_eq_spec_counterexample : ¬ compGet_eq_spec_statement := by
  intro h
  exact absurd (h .sph1 (by decide) "thetavalue" (by decide)) (by decide)

/-- `FaceVariable(Grid1D).rvalue = v` replaces `_xvalue` instead of raising AttributeError -/
theorem compSet_eq_spec_counterexample : ¬ compSet_eq_spec_statement := by
  intro h
  exact absurd (h .cart1 (by decide) "rvalue" (by decide)) (by decide)

theorem compGet_eq_spec_partial :
    ∀ k ∈ allKinds, ∀ l ∈ allCompLabels, (k, l) ∉ compGetDeviations →
      Gen.compLabelGet k l = specComp k l := by decide

theorem compSet_eq_spec_partial :
    ∀ k ∈ allKinds, ∀ l ∈ allCompLabels, (k, l) ∉ compSetDeviations →
      Gen.compLabelSet k l = specCompSet k l := by decide

/-- the deviation lists are exact -/
theorem compGet_deviations_exact :
    ∀ k ∈ allKinds, ∀ l ∈ allCompLabels,
      ((k, l) ∈ compGetDeviations ↔ Gen.compLabelGet k l ≠ specComp k l) := by decide

theorem compSet_deviations_exact :
    ∀ k ∈ allKinds, ∀ l ∈ allCompLabels,
      ((k, l) ∈ compSetDeviations ↔ Gen.compLabelSet k l ≠ specCompSet k l) := by decide

/-- what the deviating entries do -/
theorem compGet_deviation_values :
    compGetDeviations.map (fun p => Gen.compLabelGet p.1 p.2) = [.notImplemented, .notImplemented] := by
  decide

theorem compSet_deviation_values :
    compSetDeviations.map (fun p => Gen.compLabelSet p.1 p.2)
      = [.notImplemented, .notImplemented, .ok .x, .ok .x, .ok .x] := by
  decide

/-- every documented component label is accepted on every class, reading and writing, and
    addresses the internal array of its axis (this direction has no deviation) -/
theorem own_comp_accepted :
    ∀ k ∈ allKinds, ∀ p ∈ ownComps k,
      Gen.compLabelGet k p.1 = .ok p.2 ∧ Gen.compLabelSet k p.1 = .ok p.2 := by decide

/-- reading a foreign component label never returns an array (it raises — with the wrong class
    on SphericalGrid1D) -/
theorem foreign_comp_get_raises :
    ∀ k ∈ allKinds, ∀ l ∈ allCompLabels, (ownComps k).lookup l = none →
      Gen.compLabelGet k l = .attrError ∨ Gen.compLabelGet k l = .notImplemented := by decide

/-- … whereas writing one is silently accepted in exactly three entries -/
theorem foreign_comp_set_accepted_iff :
    ∀ k ∈ allKinds, ∀ l ∈ allCompLabels, (ownComps k).lookup l = none →
      ((Gen.compLabelSet k l).isOk = true ↔ (k.radial = false ∧ l = "rvalue")) := by decide

/-! ## Constructor arity -/

/-- FULL statement (false for the code as it is) -/
def ctor_eq_spec_statement : Prop :=
  ∀ k ∈ allKinds, ∀ f ∈ allForms, ctorOutcome k f = specCtor k f

/-- `PolarGrid2D()` raises IndexError -/
theorem ctor_eq_spec_counterexample : ¬ ctor_eq_spec_statement := by
  intro h
  exact absurd (h .pol2 (by decide) (.arrays 0) (by decide)) (by decide)

theorem ctor_eq_spec_partial :
    ∀ k ∈ allKinds, ∀ f ∈ allForms, (k, f) ∉ ctorDeviations → ctorOutcome k f = specCtor k f := by
  decide

theorem ctor_deviations_exact :
    ∀ k ∈ allKinds, ∀ f ∈ allForms,
      ((k, f) ∈ ctorDeviations ↔ ctorOutcome k f ≠ specCtor k f) := by decide

/-- the Cartesian classes and CylindricalGrid2D/1-D radial classes raise TypeError for every wrong
    ARITY (n ∉ {dim, 2 dim, 6}); the deviations there are right-arity/wrong-type and `scalars 6` -/
theorem ctor_wrong_arity_typeError_nonpolar :
    ∀ k ∈ [Kind.cart1, .cyl1, .sph1, .cart2, .cyl2, .cart3], ∀ n ∈ arities,
      n ≠ k.dim → n ≠ 2 * k.dim → n ≠ 6 →
        ctorOutcome k (.arrays n) = .typeError ∧ ctorOutcome k (.scalars n) = .typeError := by
  decide

/-- what the deviating entries do (same order as `ctorDeviations`) -/
theorem ctor_deviation_values :
    ctorDeviations.map (fun p => ctorOutcome p.1 p.2) =
      [ .attrError, .accept, .attrError, .accept, .attrError, .accept,
        .attrError, .accept, .attrError, .accept,
        .indexError, .indexError, .indexError, .valueError, .valueError, .valueError,
        .indexError, .indexError, .indexError, .accept,
        .attrError,
        .indexError, .indexError, .indexError, .indexError, .valueError, .valueError,
        .indexError, .indexError, .indexError, .indexError,
        .other "UnboundLocalError", .other "UnboundLocalError", .other "UnboundLocalError",
        .other "UnboundLocalError", .other "UnboundLocalError", .other "UnboundLocalError",
        .other "UnboundLocalError", .other "UnboundLocalError", .other "UnboundLocalError",
        .other "UnboundLocalError", .other "UnboundLocalError", .other "UnboundLocalError" ] := by
  decide

/-- every documented constructor form is accepted on every grid class -/
theorem ctor_documented_accepted :
    ∀ k ∈ allKinds,
      ctorOutcome k (.arrays k.dim) = .accept ∧ ctorOutcome k (.scalars (2 * k.dim)) = .accept
        ∧ ctorOutcome k (.arrays 6) = .accept := by decide

/-- exactly which forms are accepted: the documented ones, and six scalars on 1-D/2-D classes -/
theorem ctor_accept_iff :
    ∀ k ∈ allKinds, ∀ f ∈ allForms,
      (ctorOutcome k f = .accept ↔ (specCtor k f = .accept ∨ (k.dim ≤ 2 ∧ f = .scalars 6))) := by
  decide

/-! ## Initial-value shape (a real ∀ over all lists) -/

/-- the cascade only ever accepts or raises ValueError -/
theorem shape_outcome_cases (dims shape : List ℕ) :
    shapeOutcome dims shape = .accept ∨ shapeOutcome dims shape = .valueError := by
  unfold shapeOutcome
  split
  · exact Or.inl rfl
  · split
    · exact Or.inr rfl
    · exact Or.inl rfl
    · split
      · exact Or.inl rfl
      · exact Or.inr rfl

/-- for matching rank the cascade accepts exactly the documented shapes -/
theorem shape_accept_iff (dims shape : List ℕ) (h : shape.length = dims.length) :
    shapeOutcome dims shape = .accept ↔
      (shape = dims ∨ shape = dims.map (· + 2) ∨ shape.prod = 1) := by
  have e1 : bcastAllEq shape dims = some (decide (shape = dims)) := by
    simp [bcastAllEq, h]
  have e2 : bcastAllEq shape (dims.map (· + 2)) = some (decide (shape = dims.map (· + 2))) := by
    simp [bcastAllEq, h]
  unfold shapeOutcome
  rw [e1, e2]
  by_cases hp : shape.prod = 1
  · simp only [if_pos hp, true_iff]; exact Or.inr (Or.inr hp)
  · by_cases h1 : shape = dims
    · simp only [if_neg hp, decide_eq_true h1, true_iff]; exact Or.inl h1
    · by_cases h2 : shape = dims.map (· + 2)
      · simp only [if_neg hp, decide_eq_false h1, decide_eq_true h2, true_iff]
        exact Or.inr (Or.inl h2)
      · simp only [if_neg hp, decide_eq_false h1, decide_eq_false h2]
        constructor
        · intro e; exact absurd e (by decide)
        · rintro (e | e | e)
          · exact absurd e h1
          · exact absurd e h2
          · exact absurd e hp

example : shapeOutcome [2, 3] [4, 5] = .accept := by decide

/-- … hence model = spec for matching rank -/
theorem shape_eq_spec_same_rank (dims shape : List ℕ) (h : shape.length = dims.length) :
    shapeOutcome dims shape = specShape dims shape := by
  by_cases hs : shape = dims ∨ shape = dims.map (· + 2) ∨ shape.prod = 1
  · rw [(shape_accept_iff dims shape h).2 hs, specShape, if_pos hs]
  · rw [specShape, if_neg hs]
    rcases shape_outcome_cases dims shape with e | e
    · exact absurd ((shape_accept_iff dims shape h).1 e) hs
    · exact e

/-- every documented shape passes, whatever the rank -/
theorem shape_documented_accepted (dims shape : List ℕ)
    (h : shape = dims ∨ shape = dims.map (· + 2) ∨ shape.prod = 1) :
    shapeOutcome dims shape = .accept := by
  rcases h with h | h | h
  · exact (shape_accept_iff dims shape (by rw [h])).2 (Or.inl h)
  · exact (shape_accept_iff dims shape (by rw [h, List.length_map])).2 (Or.inr (Or.inl h))
  · unfold shapeOutcome; rw [if_pos h]

example : shapeOutcome [2, 3] [2, 3] = .accept ∧ shapeOutcome [2, 3] [1, 1] = .accept
    ∧ shapeOutcome [2, 3] [] = .accept ∧ shapeOutcome [2, 3] [3, 2] = .valueError := by decide

/-- FULL statement over all ranks (false for the code as it is) -/
def shape_eq_spec_statement : Prop :=
  ∀ dims shape : List ℕ, dims ≠ [] → shapeOutcome dims shape = specShape dims shape

/-- a rank-1 array of 2 values passes the shape check of a 2×2 mesh -/
theorem shape_eq_spec_counterexample : ¬ shape_eq_spec_statement := by
  intro h
  exact absurd (h [2, 2] [2] (by decide)) (by decide)

/-- acceptance as a disjunction of the two comparisons -/
theorem shape_accept_of_cmp (dims shape : List ℕ) (hp : ¬ shape.prod = 1) (b1 b2 : Bool)
    (e1 : bcastAllEq shape dims = some b1)
    (e2 : bcastAllEq shape (dims.map (· + 2)) = some b2) :
    shapeOutcome dims shape = .accept ↔ (b1 = true ∨ b2 = true) := by
  unfold shapeOutcome
  rw [if_neg hp, e1, e2]
  cases b1 <;> cases b2 <;> simp

/-- rank-1 value on a mesh of another rank: numpy broadcasts the single extent against all
    mesh extents -/
theorem shape_accept_rank1 (dims shape : List ℕ) (hs : shape.length = 1) (hd : dims.length ≠ 1) :
    shapeOutcome dims shape = .accept ↔
      (shape.prod = 1 ∨ (∀ d ∈ dims, d = shape.headD 0) ∨ (∀ d ∈ dims, d + 2 = shape.headD 0)) := by
  by_cases hp : shape.prod = 1
  · simp [shapeOutcome, hp]
  · have hl : ¬ shape.length = dims.length := by omega
    have e1 : bcastAllEq shape dims = some (dims.all (· == shape.headD 0)) := by
      unfold bcastAllEq
      rw [if_neg hl, if_pos hs]
    have e2 : bcastAllEq shape (dims.map (· + 2))
        = some ((dims.map (· + 2)).all (· == shape.headD 0)) := by
      unfold bcastAllEq
      rw [if_neg (by rw [List.length_map]; exact hl), if_pos hs]
    rw [shape_accept_of_cmp dims shape hp _ _ e1 e2]
    simp [hp, List.all_eq_true]

/-- any value on a 1-D mesh: numpy broadcasts the single mesh extent against all value extents -/
theorem shape_accept_mesh1 (dims shape : List ℕ) (hd : dims.length = 1) (hs : shape.length ≠ 1) :
    shapeOutcome dims shape = .accept ↔
      (shape.prod = 1 ∨ (∀ s ∈ shape, s = dims.headD 0) ∨ (∀ s ∈ shape, s = dims.headD 0 + 2)) := by
  by_cases hp : shape.prod = 1
  · simp [shapeOutcome, hp]
  · have hl : ¬ shape.length = dims.length := by omega
    obtain ⟨n, rfl⟩ : ∃ n, dims = [n] := by
      match dims, hd with
      | [n], _ => exact ⟨n, rfl⟩
    have e1 : bcastAllEq shape [n] = some (shape.all (· == n)) := by
      unfold bcastAllEq
      rw [if_neg (show ¬ shape.length = [n].length from hs), if_neg hs,
        if_pos (show [n].length = 1 from rfl)]
      rfl
    have e2 : bcastAllEq shape ([n].map (· + 2)) = some (shape.all (· == n + 2)) := by
      show bcastAllEq shape [n + 2] = _
      unfold bcastAllEq
      rw [if_neg (show ¬ shape.length = [n + 2].length from hs), if_neg hs,
        if_pos (show [n + 2].length = 1 from rfl)]
      rfl
    rw [shape_accept_of_cmp [n] shape hp _ _ e1 e2]
    simp [hp, List.all_eq_true]

/-- any other rank mismatch: the comparison itself fails (ValueError) unless the value has one entry -/
theorem shape_accept_other_rank (dims shape : List ℕ) (hl : shape.length ≠ dims.length)
    (hs : shape.length ≠ 1) (hd : dims.length ≠ 1) :
    shapeOutcome dims shape = .accept ↔ shape.prod = 1 := by
  by_cases hp : shape.prod = 1
  · simp [shapeOutcome, hp]
  · simp [shapeOutcome, bcastAllEq, hp, hl, hs, hd]

example : shapeOutcome [3, 3] [3] = .accept ∧ shapeOutcome [3, 3] [5] = .accept
    ∧ shapeOutcome [3] [3, 3] = .accept ∧ shapeOutcome [3] [5, 5, 5] = .accept
    ∧ shapeOutcome [2, 3] [2] = .valueError ∧ shapeOutcome [2, 2, 2] [2, 2] = .valueError := by decide

/-- EXACT characterisation of what the cascade lets through, all ranks: besides the documented
    shapes, a rank-1 shape `[s]` when all extents (or all extents + 2) equal `s`, and — for a
    1-D mesh of `n` cells — any shape whose entries all equal `n` (or all equal `n + 2`) -/
theorem shape_accept_general (dims shape : List ℕ) :
    shapeOutcome dims shape = .accept ↔
      (shape.prod = 1 ∨ shape = dims ∨ shape = dims.map (· + 2)
        ∨ (shape.length = 1 ∧ dims.length ≠ 1 ∧
            ((∀ d ∈ dims, d = shape.headD 0) ∨ (∀ d ∈ dims, d + 2 = shape.headD 0)))
        ∨ (dims.length = 1 ∧ shape.length ≠ 1 ∧
            ((∀ s ∈ shape, s = dims.headD 0) ∨ (∀ s ∈ shape, s = dims.headD 0 + 2)))) := by
  by_cases hl : shape.length = dims.length
  · rw [shape_accept_iff dims shape hl]
    constructor
    · rintro (h | h | h)
      · exact Or.inr (Or.inl h)
      · exact Or.inr (Or.inr (Or.inl h))
      · exact Or.inl h
    · rintro (h | h | h | ⟨h1, h2, _⟩ | ⟨h1, h2, _⟩)
      · exact Or.inr (Or.inr h)
      · exact Or.inl h
      · exact Or.inr (Or.inl h)
      · exact absurd (hl ▸ h1) h2
      · exact absurd (hl.symm ▸ h1) h2
  · have n1 : ¬ shape = dims := fun e => hl (by rw [e])
    have n2 : ¬ shape = dims.map (· + 2) := fun e => hl (by rw [e, List.length_map])
    by_cases hs : shape.length = 1
    · have hd : dims.length ≠ 1 := fun e => hl (by omega)
      rw [shape_accept_rank1 dims shape hs hd]
      constructor
      · rintro (h | h)
        · exact Or.inl h
        · exact Or.inr (Or.inr (Or.inr (Or.inl ⟨hs, hd, h⟩)))
      · rintro (h | h | h | ⟨_, _, h⟩ | ⟨h, _, _⟩)
        · exact Or.inl h
        · exact absurd h n1
        · exact absurd h n2
        · exact Or.inr h
        · exact absurd h hd
    · by_cases hd : dims.length = 1
      · rw [shape_accept_mesh1 dims shape hd hs]
        constructor
        · rintro (h | h)
          · exact Or.inl h
          · exact Or.inr (Or.inr (Or.inr (Or.inr ⟨hd, hs, h⟩)))
        · rintro (h | h | h | ⟨h, _, _⟩ | ⟨_, _, h⟩)
          · exact Or.inl h
          · exact absurd h n1
          · exact absurd h n2
          · exact absurd h hs
          · exact Or.inr h
      · rw [shape_accept_other_rank dims shape hl hs hd]
        constructor
        · exact Or.inl
        · rintro (h | h | h | ⟨h, _, _⟩ | ⟨h, _, _⟩)
          · exact h
          · exact absurd h n1
          · exact absurd h n2
          · exact absurd h hs
          · exact absurd h hd

/-- the accepted-but-undocumented shapes are exactly the broadcasting cases -/
theorem shape_deviation_iff (dims shape : List ℕ) :
    shapeOutcome dims shape ≠ specShape dims shape ↔
      (shape.prod ≠ 1 ∧ shape ≠ dims ∧ shape ≠ dims.map (· + 2) ∧
        ((shape.length = 1 ∧ dims.length ≠ 1 ∧
            ((∀ d ∈ dims, d = shape.headD 0) ∨ (∀ d ∈ dims, d + 2 = shape.headD 0)))
        ∨ (dims.length = 1 ∧ shape.length ≠ 1 ∧
            ((∀ s ∈ shape, s = dims.headD 0) ∨ (∀ s ∈ shape, s = dims.headD 0 + 2))))) := by
  have g := shape_accept_general dims shape
  by_cases hs : shape = dims ∨ shape = dims.map (· + 2) ∨ shape.prod = 1
  · have e : shapeOutcome dims shape = .accept := shape_documented_accepted dims shape hs
    rw [specShape, if_pos hs, e]
    constructor
    · intro h; exact absurd rfl h
    · rintro ⟨h1, h2, h3, _⟩
      rcases hs with h | h | h
      · exact absurd h h2
      · exact absurd h h3
      · exact absurd h h1
  · rw [specShape, if_neg hs]
    have hs' : shape.prod ≠ 1 ∧ shape ≠ dims ∧ shape ≠ dims.map (· + 2) :=
      ⟨fun h => hs (Or.inr (Or.inr h)), fun h => hs (Or.inl h), fun h => hs (Or.inr (Or.inl h))⟩
    constructor
    · intro h
      have ha : shapeOutcome dims shape = .accept := by
        rcases shape_outcome_cases dims shape with e | e
        · exact e
        · exact absurd e h
      rcases g.1 ha with h | h | h | h | h
      · exact absurd h hs'.1
      · exact absurd h hs'.2.1
      · exact absurd h hs'.2.2
      · exact ⟨hs'.1, hs'.2.1, hs'.2.2, Or.inl h⟩
      · exact ⟨hs'.1, hs'.2.1, hs'.2.2, Or.inr h⟩
    · rintro ⟨_, _, _, h⟩
      have ha : shapeOutcome dims shape = .accept :=
        g.2 (Or.inr (Or.inr (Or.inr h)))
      rw [ha]; decide

/-! ## Equation terms of `solvePDE` -/

/-- FULL statement (false for the code as it is) -/
def term_eq_spec_statement : Prop := ∀ t ∈ allTerms, termOutcome t = specTerm t

/-- `solvePDE(phi, [(M, v, v)])` raises ValueError (tuple unpacking) -/
theorem term_eq_spec_counterexample : ¬ term_eq_spec_statement := by
  intro h
  exact absurd (h .tuple3 (by decide)) (by decide)

theorem term_eq_spec_partial : ∀ t ∈ allTerms, t ∉ termDeviations → termOutcome t = specTerm t := by
  decide

theorem term_deviations_exact :
    ∀ t ∈ allTerms, (t ∈ termDeviations ↔ termOutcome t ≠ specTerm t) := by decide

theorem term_deviation_values :
    termDeviations.map termOutcome = [.valueError, .attrError, .attrError, .attrError, .attrError] := by
  decide

/-- every documented term kind is accepted, no undocumented one is -/
theorem term_accept_iff : ∀ t ∈ allTerms, (termOutcome t = .accept ↔ specTerm t = .accept) := by
  decide

/-- `allTerms` lists every constructor -/
theorem allTerms_complete (t : TermShape) : t ∈ allTerms := by cases t <;> decide

/-! ## Boundary coefficients -/

theorem bface_eq_spec (a b c : CoefType) : bfaceOutcome a b c = specBFace a b c := by
  cases a <;> cases b <;> cases c <;> decide

theorem bface_accept_iff (a b c : CoefType) :
    bfaceOutcome a b c = .accept ↔ (a = .ndarray ∧ b = .ndarray ∧ c = .ndarray) := by
  cases a <;> cases b <;> cases c <;> decide

theorem bface_reject_typeError (a b c : CoefType) (h : ¬ (a = .ndarray ∧ b = .ndarray ∧ c = .ndarray)) :
    bfaceOutcome a b c = .typeError := by
  revert h; cases a <;> cases b <;> cases c <;> decide

example : bfaceOutcome .ndarray .float .ndarray = .typeError := by decide

/-! ## Periodic flags on a radial boundary -/

/-- for EVERY list of flags: rejected ⇔ radial class ∧ (left ∨ right flagged) -/
theorem radial_periodic_iff (k : Kind) (flags : List Bool) :
    radialPeriodicOutcome k flags = .valueError ↔
      (k.radial = true ∧ (flags.getD 0 false = true ∨ flags.getD 1 false = true)) := by
  unfold radialPeriodicOutcome
  cases k <;> cases flags.getD 0 false <;> cases flags.getD 1 false <;> decide

theorem radial_periodic_eq_spec (k : Kind) (flags : List Bool) :
    radialPeriodicOutcome k flags = specRadialPeriodic k flags := by
  unfold radialPeriodicOutcome specRadialPeriodic
  cases k <;> cases flags.getD 0 false <;> cases flags.getD 1 false <;> decide

/-- otherwise the flags are accepted (periodicity along non-radial axes is legal on every class) -/
theorem radial_periodic_accept (k : Kind) (flags : List Bool)
    (h : ¬ (k.radial = true ∧ (flags.getD 0 false = true ∨ flags.getD 1 false = true))) :
    radialPeriodicOutcome k flags = .accept := by
  revert h
  unfold radialPeriodicOutcome
  cases k <;> cases flags.getD 0 false <;> cases flags.getD 1 false <;> decide

example : radialPeriodicOutcome .cyl2 [false, false, true, true, false, false] = .accept
    ∧ radialPeriodicOutcome .cart1 [true, true, false, false, false, false] = .accept
    ∧ radialPeriodicOutcome .sph3 [false, true, false, false, false, false] = .valueError := by decide

/-- the table over all 64 flag subsets × 9 classes (what the correspondence enumerates) -/
theorem radial_periodic_table :
    ∀ k ∈ allKinds, ∀ f ∈ allFlags, radialPeriodicOutcome k f = specRadialPeriodic k f := by
  decide

theorem allFlags_length : allFlags.length = 64 := by decide

/-- the decision agrees with `radialPeriodicRejected` of the boundary model used by C07/C08 -/
theorem radial_periodic_matches_BC_model {α : Type} (k : Kind) (bc : BCs α) :
    radialPeriodicOutcome k
        [(bc.lo .x).periodic, (bc.hi .x).periodic, (bc.lo .y).periodic, (bc.hi .y).periodic,
         (bc.lo .z).periodic, (bc.hi .z).periodic] = .valueError
      ↔ radialPeriodicRejected k bc = true := by
  unfold radialPeriodicOutcome radialPeriodicRejected BCs.periodicDir
  simp only [List.getD_cons_zero, List.getD_cons_succ]
  cases k <;> cases (bc.lo .x).periodic <;> cases (bc.hi .x).periodic <;> decide

end PyFV.C16
