/-
  PyFV.Props.GenEq — the coefficient formulas REGENERATED FROM THE PYTHON SOURCE by the translator T-num
  (harness/translate/tnum.py → PyFV/Gen/Stencils.lean, rewritten on every run) are EQUAL to the hand-written
  model (PyFV/Model/Geom.lean, Terms.lean), for every mesh of the right grid class and every interior cell.

  `Gen.Stencils.<builder>_<d> M D i j k` is the (w, p, e) coefficient triple the Python builder writes into
  the matrix row of the interior cell with 0-based position (i, j, k) (model cell (i+1, j+1, k+1); the missing
  cross indices of 1-D / 2-D grids are the single cell 1 of the unit axis) for the three columns shifted by
  -1, 0, +1 along direction d.  A change of an index, a sign, a metric factor or a slice bound in the Python
  source changes the generated definition and breaks the theorem below at build time; a construct the
  translator does not understand removes the definition (`Gen.Stencils.untranslated`), which breaks it as well.

  Hypotheses.  The volume, diffusion and divergence formulas agree with the model as field expressions
  (division by zero included, `x / 0 = 0`): only `M.kind` is needed.  The convection builders compute
  `ue = u / (DXp + DXe)` and the diagonal `(ue*DXe - uw*DXw) / DXp`, while the model carries the factor
  `1 / DXp` inside `ue`, `uw` and multiplies by `DXp` in the off-diagonals: the two agree iff the size of the
  cell does not vanish, `(M.axis d).DX (i+1) ≠ 0` (necessary: `convectionTerm1D_x_needs_DX`).  Every
  well-formed mesh satisfies it (`Axis.WF.pos`; see the `example`s at the end).  No bound on i, j, k is needed.
-/
import PyFV.Gen.Stencils
import PyFV.Props.Examples
import PyFV.Lemmas.GenEqTac
import Mathlib.Tactic.Ring
import Mathlib.Tactic.FieldSimp
import Mathlib.Tactic.NormNum

set_option linter.unusedSectionVars false
set_option linter.unusedSimpArgs false
set_option linter.unusedTactic false
set_option linter.unreachableTactic false

namespace PyFV.GenEq
open PyFV

variable {α : Type} [Field α] [LinearOrder α] [IsStrictOrderedRing α]

/-- nothing in the scope of T-num (36 functions) was left untranslated -/
theorem untranslated_eq : Gen.Stencils.untranslated = [] := rfl

/-! ### diffusion.py: the nine `diffusionTerm*` builders -/

theorem diffusionTerm1D_x_eq (M : Mesh α) (hk : M.kind = .cart1) (D : FaceFld α) (i j k : ℕ) :
    Gen.Stencils.diffusionTerm1D_x M D i j k = diffSt M D .x (i+1, 1, 1) := by
  simp only [Gen.Stencils.diffusionTerm1D_x, diffSt, lineA, lineV, lineM, hk, Mesh.axis, Idx.get, Idx.prev, Idx.set,
    Axis.dxf, Nat.add_sub_cancel]
  congr 1 <;> geq_ring

theorem diffusionTerm1D_dirs_eq : Gen.Stencils.diffusionTerm1D_dirs = Kind.dirs .cart1 := rfl

theorem diffusionTermCylindrical1D_x_eq (M : Mesh α) (hk : M.kind = .cyl1) (D : FaceFld α) (i j k : ℕ) :
    Gen.Stencils.diffusionTermCylindrical1D_x M D i j k = diffSt M D .x (i+1, 1, 1) := by
  simp only [Gen.Stencils.diffusionTermCylindrical1D_x, diffSt, lineA, lineV, lineM, hk, Mesh.axis, Idx.get, Idx.prev, Idx.set,
    Axis.dxf, Nat.add_sub_cancel]
  congr 1 <;> geq_ring

theorem diffusionTermCylindrical1D_dirs_eq : Gen.Stencils.diffusionTermCylindrical1D_dirs = Kind.dirs .cyl1 := rfl

theorem diffusionTermSpherical1D_x_eq (M : Mesh α) (hk : M.kind = .sph1) (D : FaceFld α) (i j k : ℕ) :
    Gen.Stencils.diffusionTermSpherical1D_x M D i j k = diffSt M D .x (i+1, 1, 1) := by
  simp only [Gen.Stencils.diffusionTermSpherical1D_x, diffSt, lineA, lineV, lineM, hk, Mesh.axis, Idx.get, Idx.prev, Idx.set,
    Axis.dxf, Nat.add_sub_cancel]
  congr 1 <;> geq_ring

theorem diffusionTermSpherical1D_dirs_eq : Gen.Stencils.diffusionTermSpherical1D_dirs = Kind.dirs .sph1 := rfl

theorem diffusionTerm2D_x_eq (M : Mesh α) (hk : M.kind = .cart2) (D : FaceFld α) (i j k : ℕ) :
    Gen.Stencils.diffusionTerm2D_x M D i j k = diffSt M D .x (i+1, j+1, 1) := by
  simp only [Gen.Stencils.diffusionTerm2D_x, diffSt, lineA, lineV, lineM, hk, Mesh.axis, Idx.get, Idx.prev, Idx.set,
    Axis.dxf, Nat.add_sub_cancel]
  congr 1 <;> geq_ring

theorem diffusionTerm2D_y_eq (M : Mesh α) (hk : M.kind = .cart2) (D : FaceFld α) (i j k : ℕ) :
    Gen.Stencils.diffusionTerm2D_y M D i j k = diffSt M D .y (i+1, j+1, 1) := by
  simp only [Gen.Stencils.diffusionTerm2D_y, diffSt, lineA, lineV, lineM, hk, Mesh.axis, Idx.get, Idx.prev, Idx.set,
    Axis.dxf, Nat.add_sub_cancel]
  congr 1 <;> geq_ring

theorem diffusionTerm2D_dirs_eq : Gen.Stencils.diffusionTerm2D_dirs = Kind.dirs .cart2 := rfl

theorem diffusionTermCylindrical2D_x_eq (M : Mesh α) (hk : M.kind = .cyl2) (D : FaceFld α) (i j k : ℕ) :
    Gen.Stencils.diffusionTermCylindrical2D_x M D i j k = diffSt M D .x (i+1, j+1, 1) := by
  simp only [Gen.Stencils.diffusionTermCylindrical2D_x, diffSt, lineA, lineV, lineM, hk, Mesh.axis, Idx.get, Idx.prev, Idx.set,
    Axis.dxf, Nat.add_sub_cancel]
  congr 1 <;> geq_ring

theorem diffusionTermCylindrical2D_y_eq (M : Mesh α) (hk : M.kind = .cyl2) (D : FaceFld α) (i j k : ℕ) :
    Gen.Stencils.diffusionTermCylindrical2D_y M D i j k = diffSt M D .y (i+1, j+1, 1) := by
  simp only [Gen.Stencils.diffusionTermCylindrical2D_y, diffSt, lineA, lineV, lineM, hk, Mesh.axis, Idx.get, Idx.prev, Idx.set,
    Axis.dxf, Nat.add_sub_cancel]
  congr 1 <;> geq_ring

theorem diffusionTermCylindrical2D_dirs_eq : Gen.Stencils.diffusionTermCylindrical2D_dirs = Kind.dirs .cyl2 := rfl

theorem diffusionTermPolar2D_x_eq (M : Mesh α) (hk : M.kind = .pol2) (D : FaceFld α) (i j k : ℕ) :
    Gen.Stencils.diffusionTermPolar2D_x M D i j k = diffSt M D .x (i+1, j+1, 1) := by
  simp only [Gen.Stencils.diffusionTermPolar2D_x, diffSt, lineA, lineV, lineM, hk, Mesh.axis, Idx.get, Idx.prev, Idx.set,
    Axis.dxf, Nat.add_sub_cancel]
  congr 1 <;> geq_ring

theorem diffusionTermPolar2D_y_eq (M : Mesh α) (hk : M.kind = .pol2) (D : FaceFld α) (i j k : ℕ) :
    Gen.Stencils.diffusionTermPolar2D_y M D i j k = diffSt M D .y (i+1, j+1, 1) := by
  simp only [Gen.Stencils.diffusionTermPolar2D_y, diffSt, lineA, lineV, lineM, hk, Mesh.axis, Idx.get, Idx.prev, Idx.set,
    Axis.dxf, Nat.add_sub_cancel]
  congr 1 <;> geq_ring

theorem diffusionTermPolar2D_dirs_eq : Gen.Stencils.diffusionTermPolar2D_dirs = Kind.dirs .pol2 := rfl

theorem diffusionTerm3D_x_eq (M : Mesh α) (hk : M.kind = .cart3) (D : FaceFld α) (i j k : ℕ) :
    Gen.Stencils.diffusionTerm3D_x M D i j k = diffSt M D .x (i+1, j+1, k+1) := by
  simp only [Gen.Stencils.diffusionTerm3D_x, diffSt, lineA, lineV, lineM, hk, Mesh.axis, Idx.get, Idx.prev, Idx.set,
    Axis.dxf, Nat.add_sub_cancel]
  congr 1 <;> geq_ring

theorem diffusionTerm3D_y_eq (M : Mesh α) (hk : M.kind = .cart3) (D : FaceFld α) (i j k : ℕ) :
    Gen.Stencils.diffusionTerm3D_y M D i j k = diffSt M D .y (i+1, j+1, k+1) := by
  simp only [Gen.Stencils.diffusionTerm3D_y, diffSt, lineA, lineV, lineM, hk, Mesh.axis, Idx.get, Idx.prev, Idx.set,
    Axis.dxf, Nat.add_sub_cancel]
  congr 1 <;> geq_ring

theorem diffusionTerm3D_z_eq (M : Mesh α) (hk : M.kind = .cart3) (D : FaceFld α) (i j k : ℕ) :
    Gen.Stencils.diffusionTerm3D_z M D i j k = diffSt M D .z (i+1, j+1, k+1) := by
  simp only [Gen.Stencils.diffusionTerm3D_z, diffSt, lineA, lineV, lineM, hk, Mesh.axis, Idx.get, Idx.prev, Idx.set,
    Axis.dxf, Nat.add_sub_cancel]
  congr 1 <;> geq_ring

theorem diffusionTerm3D_dirs_eq : Gen.Stencils.diffusionTerm3D_dirs = Kind.dirs .cart3 := rfl

theorem diffusionTermCylindrical3D_x_eq (M : Mesh α) (hk : M.kind = .cyl3) (D : FaceFld α) (i j k : ℕ) :
    Gen.Stencils.diffusionTermCylindrical3D_x M D i j k = diffSt M D .x (i+1, j+1, k+1) := by
  simp only [Gen.Stencils.diffusionTermCylindrical3D_x, diffSt, lineA, lineV, lineM, hk, Mesh.axis, Idx.get, Idx.prev, Idx.set,
    Axis.dxf, Nat.add_sub_cancel]
  congr 1 <;> geq_ring

theorem diffusionTermCylindrical3D_y_eq (M : Mesh α) (hk : M.kind = .cyl3) (D : FaceFld α) (i j k : ℕ) :
    Gen.Stencils.diffusionTermCylindrical3D_y M D i j k = diffSt M D .y (i+1, j+1, k+1) := by
  simp only [Gen.Stencils.diffusionTermCylindrical3D_y, diffSt, lineA, lineV, lineM, hk, Mesh.axis, Idx.get, Idx.prev, Idx.set,
    Axis.dxf, Nat.add_sub_cancel]
  congr 1 <;> geq_ring

theorem diffusionTermCylindrical3D_z_eq (M : Mesh α) (hk : M.kind = .cyl3) (D : FaceFld α) (i j k : ℕ) :
    Gen.Stencils.diffusionTermCylindrical3D_z M D i j k = diffSt M D .z (i+1, j+1, k+1) := by
  simp only [Gen.Stencils.diffusionTermCylindrical3D_z, diffSt, lineA, lineV, lineM, hk, Mesh.axis, Idx.get, Idx.prev, Idx.set,
    Axis.dxf, Nat.add_sub_cancel]
  congr 1 <;> geq_ring

theorem diffusionTermCylindrical3D_dirs_eq : Gen.Stencils.diffusionTermCylindrical3D_dirs = Kind.dirs .cyl3 := rfl

theorem diffusionTermSpherical3D_x_eq (M : Mesh α) (hk : M.kind = .sph3) (D : FaceFld α) (i j k : ℕ) :
    Gen.Stencils.diffusionTermSpherical3D_x M D i j k = diffSt M D .x (i+1, j+1, k+1) := by
  simp only [Gen.Stencils.diffusionTermSpherical3D_x, diffSt, lineA, lineV, lineM, hk, Mesh.axis, Idx.get, Idx.prev, Idx.set,
    Axis.dxf, Nat.add_sub_cancel]
  congr 1 <;> geq_ring

theorem diffusionTermSpherical3D_y_eq (M : Mesh α) (hk : M.kind = .sph3) (D : FaceFld α) (i j k : ℕ) :
    Gen.Stencils.diffusionTermSpherical3D_y M D i j k = diffSt M D .y (i+1, j+1, k+1) := by
  simp only [Gen.Stencils.diffusionTermSpherical3D_y, diffSt, lineA, lineV, lineM, hk, Mesh.axis, Idx.get, Idx.prev, Idx.set,
    Axis.dxf, Nat.add_sub_cancel]
  congr 1 <;> geq_ring

theorem diffusionTermSpherical3D_z_eq (M : Mesh α) (hk : M.kind = .sph3) (D : FaceFld α) (i j k : ℕ) :
    Gen.Stencils.diffusionTermSpherical3D_z M D i j k = diffSt M D .z (i+1, j+1, k+1) := by
  simp only [Gen.Stencils.diffusionTermSpherical3D_z, diffSt, lineA, lineV, lineM, hk, Mesh.axis, Idx.get, Idx.prev, Idx.set,
    Axis.dxf, Nat.add_sub_cancel]
  congr 1 <;> geq_ring

theorem diffusionTermSpherical3D_dirs_eq : Gen.Stencils.diffusionTermSpherical3D_dirs = Kind.dirs .sph3 := rfl

/-- the dispatcher `diffusionTerm` calls, for each grid class, the builder proved equal to the model of that class -/
theorem dispatch_diffusionTerm_eq (k : Kind) :
    Gen.Stencils.dispatch_diffusionTerm.lookup k = some (match k with
      | .cart1 => "diffusionTerm1D"
      | .cyl1 => "diffusionTermCylindrical1D"
      | .sph1 => "diffusionTermSpherical1D"
      | .cart2 => "diffusionTerm2D"
      | .cyl2 => "diffusionTermCylindrical2D"
      | .pol2 => "diffusionTermPolar2D"
      | .cart3 => "diffusionTerm3D"
      | .cyl3 => "diffusionTermCylindrical3D"
      | .sph3 => "diffusionTermSpherical3D") := by
  cases k <;> rfl

/-! ### advection.py: the nine central `convectionTerm*` builders -/

theorem convectionTerm1D_x_eq (M : Mesh α) (hk : M.kind = .cart1) (u : FaceFld α) (i j k : ℕ)
    (h : M.ax.DX (i+1) ≠ 0) :
    Gen.Stencils.convectionTerm1D_x M u i j k = convSt M u .x (i+1, 1, 1) := by
  simp only [Gen.Stencils.convectionTerm1D_x, convSt, lineA, lineV, lineM, hk, Mesh.axis, Idx.get, Idx.prev, Idx.set,
    Axis.dxf, Nat.add_sub_cancel]
  congr 1 <;> geq_field

theorem convectionTerm1D_dirs_eq : Gen.Stencils.convectionTerm1D_dirs = Kind.dirs .cart1 := rfl

theorem convectionTermCylindrical1D_x_eq (M : Mesh α) (hk : M.kind = .cyl1) (u : FaceFld α) (i j k : ℕ)
    (h : M.ax.DX (i+1) ≠ 0) :
    Gen.Stencils.convectionTermCylindrical1D_x M u i j k = convSt M u .x (i+1, 1, 1) := by
  simp only [Gen.Stencils.convectionTermCylindrical1D_x, convSt, lineA, lineV, lineM, hk, Mesh.axis, Idx.get, Idx.prev, Idx.set,
    Axis.dxf, Nat.add_sub_cancel]
  congr 1 <;> geq_field

theorem convectionTermCylindrical1D_dirs_eq : Gen.Stencils.convectionTermCylindrical1D_dirs = Kind.dirs .cyl1 := rfl

theorem convectionTermSpherical1D_x_eq (M : Mesh α) (hk : M.kind = .sph1) (u : FaceFld α) (i j k : ℕ)
    (h : M.ax.DX (i+1) ≠ 0) :
    Gen.Stencils.convectionTermSpherical1D_x M u i j k = convSt M u .x (i+1, 1, 1) := by
  simp only [Gen.Stencils.convectionTermSpherical1D_x, convSt, lineA, lineV, lineM, hk, Mesh.axis, Idx.get, Idx.prev, Idx.set,
    Axis.dxf, Nat.add_sub_cancel]
  congr 1 <;> geq_field

theorem convectionTermSpherical1D_dirs_eq : Gen.Stencils.convectionTermSpherical1D_dirs = Kind.dirs .sph1 := rfl

theorem convectionTerm2D_x_eq (M : Mesh α) (hk : M.kind = .cart2) (u : FaceFld α) (i j k : ℕ)
    (h : M.ax.DX (i+1) ≠ 0) :
    Gen.Stencils.convectionTerm2D_x M u i j k = convSt M u .x (i+1, j+1, 1) := by
  simp only [Gen.Stencils.convectionTerm2D_x, convSt, lineA, lineV, lineM, hk, Mesh.axis, Idx.get, Idx.prev, Idx.set,
    Axis.dxf, Nat.add_sub_cancel]
  congr 1 <;> geq_field

theorem convectionTerm2D_y_eq (M : Mesh α) (hk : M.kind = .cart2) (u : FaceFld α) (i j k : ℕ)
    (h : M.ay.DX (j+1) ≠ 0) :
    Gen.Stencils.convectionTerm2D_y M u i j k = convSt M u .y (i+1, j+1, 1) := by
  simp only [Gen.Stencils.convectionTerm2D_y, convSt, lineA, lineV, lineM, hk, Mesh.axis, Idx.get, Idx.prev, Idx.set,
    Axis.dxf, Nat.add_sub_cancel]
  congr 1 <;> geq_field

theorem convectionTerm2D_dirs_eq : Gen.Stencils.convectionTerm2D_dirs = Kind.dirs .cart2 := rfl

theorem convectionTermCylindrical2D_x_eq (M : Mesh α) (hk : M.kind = .cyl2) (u : FaceFld α) (i j k : ℕ)
    (h : M.ax.DX (i+1) ≠ 0) :
    Gen.Stencils.convectionTermCylindrical2D_x M u i j k = convSt M u .x (i+1, j+1, 1) := by
  simp only [Gen.Stencils.convectionTermCylindrical2D_x, convSt, lineA, lineV, lineM, hk, Mesh.axis, Idx.get, Idx.prev, Idx.set,
    Axis.dxf, Nat.add_sub_cancel]
  congr 1 <;> geq_field

theorem convectionTermCylindrical2D_y_eq (M : Mesh α) (hk : M.kind = .cyl2) (u : FaceFld α) (i j k : ℕ)
    (h : M.ay.DX (j+1) ≠ 0) :
    Gen.Stencils.convectionTermCylindrical2D_y M u i j k = convSt M u .y (i+1, j+1, 1) := by
  simp only [Gen.Stencils.convectionTermCylindrical2D_y, convSt, lineA, lineV, lineM, hk, Mesh.axis, Idx.get, Idx.prev, Idx.set,
    Axis.dxf, Nat.add_sub_cancel]
  congr 1 <;> geq_field

theorem convectionTermCylindrical2D_dirs_eq : Gen.Stencils.convectionTermCylindrical2D_dirs = Kind.dirs .cyl2 := rfl

theorem convectionTermPolar2D_x_eq (M : Mesh α) (hk : M.kind = .pol2) (u : FaceFld α) (i j k : ℕ)
    (h : M.ax.DX (i+1) ≠ 0) :
    Gen.Stencils.convectionTermPolar2D_x M u i j k = convSt M u .x (i+1, j+1, 1) := by
  simp only [Gen.Stencils.convectionTermPolar2D_x, convSt, lineA, lineV, lineM, hk, Mesh.axis, Idx.get, Idx.prev, Idx.set,
    Axis.dxf, Nat.add_sub_cancel]
  congr 1 <;> geq_field

theorem convectionTermPolar2D_y_eq (M : Mesh α) (hk : M.kind = .pol2) (u : FaceFld α) (i j k : ℕ)
    (h : M.ay.DX (j+1) ≠ 0) :
    Gen.Stencils.convectionTermPolar2D_y M u i j k = convSt M u .y (i+1, j+1, 1) := by
  simp only [Gen.Stencils.convectionTermPolar2D_y, convSt, lineA, lineV, lineM, hk, Mesh.axis, Idx.get, Idx.prev, Idx.set,
    Axis.dxf, Nat.add_sub_cancel]
  congr 1 <;> geq_field

theorem convectionTermPolar2D_dirs_eq : Gen.Stencils.convectionTermPolar2D_dirs = Kind.dirs .pol2 := rfl

theorem convectionTerm3D_x_eq (M : Mesh α) (hk : M.kind = .cart3) (u : FaceFld α) (i j k : ℕ)
    (h : M.ax.DX (i+1) ≠ 0) :
    Gen.Stencils.convectionTerm3D_x M u i j k = convSt M u .x (i+1, j+1, k+1) := by
  simp only [Gen.Stencils.convectionTerm3D_x, convSt, lineA, lineV, lineM, hk, Mesh.axis, Idx.get, Idx.prev, Idx.set,
    Axis.dxf, Nat.add_sub_cancel]
  congr 1 <;> geq_field

theorem convectionTerm3D_y_eq (M : Mesh α) (hk : M.kind = .cart3) (u : FaceFld α) (i j k : ℕ)
    (h : M.ay.DX (j+1) ≠ 0) :
    Gen.Stencils.convectionTerm3D_y M u i j k = convSt M u .y (i+1, j+1, k+1) := by
  simp only [Gen.Stencils.convectionTerm3D_y, convSt, lineA, lineV, lineM, hk, Mesh.axis, Idx.get, Idx.prev, Idx.set,
    Axis.dxf, Nat.add_sub_cancel]
  congr 1 <;> geq_field

theorem convectionTerm3D_z_eq (M : Mesh α) (hk : M.kind = .cart3) (u : FaceFld α) (i j k : ℕ)
    (h : M.az.DX (k+1) ≠ 0) :
    Gen.Stencils.convectionTerm3D_z M u i j k = convSt M u .z (i+1, j+1, k+1) := by
  simp only [Gen.Stencils.convectionTerm3D_z, convSt, lineA, lineV, lineM, hk, Mesh.axis, Idx.get, Idx.prev, Idx.set,
    Axis.dxf, Nat.add_sub_cancel]
  congr 1 <;> geq_field

theorem convectionTerm3D_dirs_eq : Gen.Stencils.convectionTerm3D_dirs = Kind.dirs .cart3 := rfl

theorem convectionTermCylindrical3D_x_eq (M : Mesh α) (hk : M.kind = .cyl3) (u : FaceFld α) (i j k : ℕ)
    (h : M.ax.DX (i+1) ≠ 0) :
    Gen.Stencils.convectionTermCylindrical3D_x M u i j k = convSt M u .x (i+1, j+1, k+1) := by
  simp only [Gen.Stencils.convectionTermCylindrical3D_x, convSt, lineA, lineV, lineM, hk, Mesh.axis, Idx.get, Idx.prev, Idx.set,
    Axis.dxf, Nat.add_sub_cancel]
  congr 1 <;> geq_field

theorem convectionTermCylindrical3D_y_eq (M : Mesh α) (hk : M.kind = .cyl3) (u : FaceFld α) (i j k : ℕ)
    (h : M.ay.DX (j+1) ≠ 0) :
    Gen.Stencils.convectionTermCylindrical3D_y M u i j k = convSt M u .y (i+1, j+1, k+1) := by
  simp only [Gen.Stencils.convectionTermCylindrical3D_y, convSt, lineA, lineV, lineM, hk, Mesh.axis, Idx.get, Idx.prev, Idx.set,
    Axis.dxf, Nat.add_sub_cancel]
  congr 1 <;> geq_field

theorem convectionTermCylindrical3D_z_eq (M : Mesh α) (hk : M.kind = .cyl3) (u : FaceFld α) (i j k : ℕ)
    (h : M.az.DX (k+1) ≠ 0) :
    Gen.Stencils.convectionTermCylindrical3D_z M u i j k = convSt M u .z (i+1, j+1, k+1) := by
  simp only [Gen.Stencils.convectionTermCylindrical3D_z, convSt, lineA, lineV, lineM, hk, Mesh.axis, Idx.get, Idx.prev, Idx.set,
    Axis.dxf, Nat.add_sub_cancel]
  congr 1 <;> geq_field

theorem convectionTermCylindrical3D_dirs_eq : Gen.Stencils.convectionTermCylindrical3D_dirs = Kind.dirs .cyl3 := rfl

theorem convectionTermSpherical3D_x_eq (M : Mesh α) (hk : M.kind = .sph3) (u : FaceFld α) (i j k : ℕ)
    (h : M.ax.DX (i+1) ≠ 0) :
    Gen.Stencils.convectionTermSpherical3D_x M u i j k = convSt M u .x (i+1, j+1, k+1) := by
  simp only [Gen.Stencils.convectionTermSpherical3D_x, convSt, lineA, lineV, lineM, hk, Mesh.axis, Idx.get, Idx.prev, Idx.set,
    Axis.dxf, Nat.add_sub_cancel]
  congr 1 <;> geq_field

theorem convectionTermSpherical3D_y_eq (M : Mesh α) (hk : M.kind = .sph3) (u : FaceFld α) (i j k : ℕ)
    (h : M.ay.DX (j+1) ≠ 0) :
    Gen.Stencils.convectionTermSpherical3D_y M u i j k = convSt M u .y (i+1, j+1, k+1) := by
  simp only [Gen.Stencils.convectionTermSpherical3D_y, convSt, lineA, lineV, lineM, hk, Mesh.axis, Idx.get, Idx.prev, Idx.set,
    Axis.dxf, Nat.add_sub_cancel]
  congr 1 <;> geq_field

theorem convectionTermSpherical3D_z_eq (M : Mesh α) (hk : M.kind = .sph3) (u : FaceFld α) (i j k : ℕ)
    (h : M.az.DX (k+1) ≠ 0) :
    Gen.Stencils.convectionTermSpherical3D_z M u i j k = convSt M u .z (i+1, j+1, k+1) := by
  simp only [Gen.Stencils.convectionTermSpherical3D_z, convSt, lineA, lineV, lineM, hk, Mesh.axis, Idx.get, Idx.prev, Idx.set,
    Axis.dxf, Nat.add_sub_cancel]
  congr 1 <;> geq_field

theorem convectionTermSpherical3D_dirs_eq : Gen.Stencils.convectionTermSpherical3D_dirs = Kind.dirs .sph3 := rfl

/-- the dispatcher `convectionTerm` calls, for each grid class, the builder proved equal to the model of that class -/
theorem dispatch_convectionTerm_eq (k : Kind) :
    Gen.Stencils.dispatch_convectionTerm.lookup k = some (match k with
      | .cart1 => "convectionTerm1D"
      | .cyl1 => "convectionTermCylindrical1D"
      | .sph1 => "convectionTermSpherical1D"
      | .cart2 => "convectionTerm2D"
      | .cyl2 => "convectionTermCylindrical2D"
      | .pol2 => "convectionTermPolar2D"
      | .cart3 => "convectionTerm3D"
      | .cyl3 => "convectionTermCylindrical3D"
      | .sph3 => "convectionTermSpherical3D") := by
  cases k <;> rfl

/-! ### calculus.py: the nine `divergenceTerm*` builders (total and per-direction components) -/

theorem divergenceTerm1D_eq (M : Mesh α) (hk : M.kind = .cart1) (F : FaceFld α) (i j k : ℕ) :
    Gen.Stencils.divergenceTerm1D M F i j k = divergence M F (i+1, 1, 1) := by
  simp only [Gen.Stencils.divergenceTerm1D, divergence, sumDirs, divD, lineA, lineV, lineM, hk, Mesh.axis, Idx.get, Idx.prev,
    Idx.set, Kind.active, Kind.dim, Nat.add_sub_cancel, Nat.not_ofNat_le_one, Nat.reduceLeDiff, le_refl,
    decide_true, decide_false, Bool.false_eq_true, ↓reduceIte, add_zero]
  geq_ring

theorem divergenceTermCylindrical1D_eq (M : Mesh α) (hk : M.kind = .cyl1) (F : FaceFld α) (i j k : ℕ) :
    Gen.Stencils.divergenceTermCylindrical1D M F i j k = divergence M F (i+1, 1, 1) := by
  simp only [Gen.Stencils.divergenceTermCylindrical1D, divergence, sumDirs, divD, lineA, lineV, lineM, hk, Mesh.axis, Idx.get, Idx.prev,
    Idx.set, Kind.active, Kind.dim, Nat.add_sub_cancel, Nat.not_ofNat_le_one, Nat.reduceLeDiff, le_refl,
    decide_true, decide_false, Bool.false_eq_true, ↓reduceIte, add_zero]
  geq_ring

theorem divergenceTermSpherical1D_eq (M : Mesh α) (hk : M.kind = .sph1) (F : FaceFld α) (i j k : ℕ) :
    Gen.Stencils.divergenceTermSpherical1D M F i j k = divergence M F (i+1, 1, 1) := by
  simp only [Gen.Stencils.divergenceTermSpherical1D, divergence, sumDirs, divD, lineA, lineV, lineM, hk, Mesh.axis, Idx.get, Idx.prev,
    Idx.set, Kind.active, Kind.dim, Nat.add_sub_cancel, Nat.not_ofNat_le_one, Nat.reduceLeDiff, le_refl,
    decide_true, decide_false, Bool.false_eq_true, ↓reduceIte, add_zero]
  geq_ring

theorem divergenceTerm2D_eq (M : Mesh α) (hk : M.kind = .cart2) (F : FaceFld α) (i j k : ℕ) :
    Gen.Stencils.divergenceTerm2D M F i j k = divergence M F (i+1, j+1, 1) := by
  simp only [Gen.Stencils.divergenceTerm2D, divergence, sumDirs, divD, lineA, lineV, lineM, hk, Mesh.axis, Idx.get, Idx.prev,
    Idx.set, Kind.active, Kind.dim, Nat.add_sub_cancel, Nat.not_ofNat_le_one, Nat.reduceLeDiff, le_refl,
    decide_true, decide_false, Bool.false_eq_true, ↓reduceIte, add_zero]
  geq_ring

theorem divergenceTerm2D_x_eq (M : Mesh α) (hk : M.kind = .cart2) (F : FaceFld α) (i j k : ℕ) :
    Gen.Stencils.divergenceTerm2D_x M F i j k = divD M F .x (i+1, j+1, 1) := by
  simp only [Gen.Stencils.divergenceTerm2D_x, divD, lineA, lineV, lineM, hk, Mesh.axis, Idx.get, Idx.prev,
    Idx.set, Nat.add_sub_cancel]
  geq_ring

theorem divergenceTerm2D_y_eq (M : Mesh α) (hk : M.kind = .cart2) (F : FaceFld α) (i j k : ℕ) :
    Gen.Stencils.divergenceTerm2D_y M F i j k = divD M F .y (i+1, j+1, 1) := by
  simp only [Gen.Stencils.divergenceTerm2D_y, divD, lineA, lineV, lineM, hk, Mesh.axis, Idx.get, Idx.prev,
    Idx.set, Nat.add_sub_cancel]
  geq_ring

theorem divergenceTermCylindrical2D_eq (M : Mesh α) (hk : M.kind = .cyl2) (F : FaceFld α) (i j k : ℕ) :
    Gen.Stencils.divergenceTermCylindrical2D M F i j k = divergence M F (i+1, j+1, 1) := by
  simp only [Gen.Stencils.divergenceTermCylindrical2D, divergence, sumDirs, divD, lineA, lineV, lineM, hk, Mesh.axis, Idx.get, Idx.prev,
    Idx.set, Kind.active, Kind.dim, Nat.add_sub_cancel, Nat.not_ofNat_le_one, Nat.reduceLeDiff, le_refl,
    decide_true, decide_false, Bool.false_eq_true, ↓reduceIte, add_zero]
  geq_ring

theorem divergenceTermCylindrical2D_x_eq (M : Mesh α) (hk : M.kind = .cyl2) (F : FaceFld α) (i j k : ℕ) :
    Gen.Stencils.divergenceTermCylindrical2D_x M F i j k = divD M F .x (i+1, j+1, 1) := by
  simp only [Gen.Stencils.divergenceTermCylindrical2D_x, divD, lineA, lineV, lineM, hk, Mesh.axis, Idx.get, Idx.prev,
    Idx.set, Nat.add_sub_cancel]
  geq_ring

theorem divergenceTermCylindrical2D_y_eq (M : Mesh α) (hk : M.kind = .cyl2) (F : FaceFld α) (i j k : ℕ) :
    Gen.Stencils.divergenceTermCylindrical2D_y M F i j k = divD M F .y (i+1, j+1, 1) := by
  simp only [Gen.Stencils.divergenceTermCylindrical2D_y, divD, lineA, lineV, lineM, hk, Mesh.axis, Idx.get, Idx.prev,
    Idx.set, Nat.add_sub_cancel]
  geq_ring

theorem divergenceTermPolar2D_eq (M : Mesh α) (hk : M.kind = .pol2) (F : FaceFld α) (i j k : ℕ) :
    Gen.Stencils.divergenceTermPolar2D M F i j k = divergence M F (i+1, j+1, 1) := by
  simp only [Gen.Stencils.divergenceTermPolar2D, divergence, sumDirs, divD, lineA, lineV, lineM, hk, Mesh.axis, Idx.get, Idx.prev,
    Idx.set, Kind.active, Kind.dim, Nat.add_sub_cancel, Nat.not_ofNat_le_one, Nat.reduceLeDiff, le_refl,
    decide_true, decide_false, Bool.false_eq_true, ↓reduceIte, add_zero]
  geq_ring

theorem divergenceTermPolar2D_x_eq (M : Mesh α) (hk : M.kind = .pol2) (F : FaceFld α) (i j k : ℕ) :
    Gen.Stencils.divergenceTermPolar2D_x M F i j k = divD M F .x (i+1, j+1, 1) := by
  simp only [Gen.Stencils.divergenceTermPolar2D_x, divD, lineA, lineV, lineM, hk, Mesh.axis, Idx.get, Idx.prev,
    Idx.set, Nat.add_sub_cancel]
  geq_ring

theorem divergenceTermPolar2D_y_eq (M : Mesh α) (hk : M.kind = .pol2) (F : FaceFld α) (i j k : ℕ) :
    Gen.Stencils.divergenceTermPolar2D_y M F i j k = divD M F .y (i+1, j+1, 1) := by
  simp only [Gen.Stencils.divergenceTermPolar2D_y, divD, lineA, lineV, lineM, hk, Mesh.axis, Idx.get, Idx.prev,
    Idx.set, Nat.add_sub_cancel]
  geq_ring

theorem divergenceTerm3D_eq (M : Mesh α) (hk : M.kind = .cart3) (F : FaceFld α) (i j k : ℕ) :
    Gen.Stencils.divergenceTerm3D M F i j k = divergence M F (i+1, j+1, k+1) := by
  simp only [Gen.Stencils.divergenceTerm3D, divergence, sumDirs, divD, lineA, lineV, lineM, hk, Mesh.axis, Idx.get, Idx.prev,
    Idx.set, Kind.active, Kind.dim, Nat.add_sub_cancel, Nat.not_ofNat_le_one, Nat.reduceLeDiff, le_refl,
    decide_true, decide_false, Bool.false_eq_true, ↓reduceIte, add_zero]
  geq_ring

theorem divergenceTerm3D_x_eq (M : Mesh α) (hk : M.kind = .cart3) (F : FaceFld α) (i j k : ℕ) :
    Gen.Stencils.divergenceTerm3D_x M F i j k = divD M F .x (i+1, j+1, k+1) := by
  simp only [Gen.Stencils.divergenceTerm3D_x, divD, lineA, lineV, lineM, hk, Mesh.axis, Idx.get, Idx.prev,
    Idx.set, Nat.add_sub_cancel]
  geq_ring

theorem divergenceTerm3D_y_eq (M : Mesh α) (hk : M.kind = .cart3) (F : FaceFld α) (i j k : ℕ) :
    Gen.Stencils.divergenceTerm3D_y M F i j k = divD M F .y (i+1, j+1, k+1) := by
  simp only [Gen.Stencils.divergenceTerm3D_y, divD, lineA, lineV, lineM, hk, Mesh.axis, Idx.get, Idx.prev,
    Idx.set, Nat.add_sub_cancel]
  geq_ring

theorem divergenceTerm3D_z_eq (M : Mesh α) (hk : M.kind = .cart3) (F : FaceFld α) (i j k : ℕ) :
    Gen.Stencils.divergenceTerm3D_z M F i j k = divD M F .z (i+1, j+1, k+1) := by
  simp only [Gen.Stencils.divergenceTerm3D_z, divD, lineA, lineV, lineM, hk, Mesh.axis, Idx.get, Idx.prev,
    Idx.set, Nat.add_sub_cancel]
  geq_ring

theorem divergenceTermCylindrical3D_eq (M : Mesh α) (hk : M.kind = .cyl3) (F : FaceFld α) (i j k : ℕ) :
    Gen.Stencils.divergenceTermCylindrical3D M F i j k = divergence M F (i+1, j+1, k+1) := by
  simp only [Gen.Stencils.divergenceTermCylindrical3D, divergence, sumDirs, divD, lineA, lineV, lineM, hk, Mesh.axis, Idx.get, Idx.prev,
    Idx.set, Kind.active, Kind.dim, Nat.add_sub_cancel, Nat.not_ofNat_le_one, Nat.reduceLeDiff, le_refl,
    decide_true, decide_false, Bool.false_eq_true, ↓reduceIte, add_zero]
  geq_ring

theorem divergenceTermCylindrical3D_x_eq (M : Mesh α) (hk : M.kind = .cyl3) (F : FaceFld α) (i j k : ℕ) :
    Gen.Stencils.divergenceTermCylindrical3D_x M F i j k = divD M F .x (i+1, j+1, k+1) := by
  simp only [Gen.Stencils.divergenceTermCylindrical3D_x, divD, lineA, lineV, lineM, hk, Mesh.axis, Idx.get, Idx.prev,
    Idx.set, Nat.add_sub_cancel]
  geq_ring

theorem divergenceTermCylindrical3D_y_eq (M : Mesh α) (hk : M.kind = .cyl3) (F : FaceFld α) (i j k : ℕ) :
    Gen.Stencils.divergenceTermCylindrical3D_y M F i j k = divD M F .y (i+1, j+1, k+1) := by
  simp only [Gen.Stencils.divergenceTermCylindrical3D_y, divD, lineA, lineV, lineM, hk, Mesh.axis, Idx.get, Idx.prev,
    Idx.set, Nat.add_sub_cancel]
  geq_ring

theorem divergenceTermCylindrical3D_z_eq (M : Mesh α) (hk : M.kind = .cyl3) (F : FaceFld α) (i j k : ℕ) :
    Gen.Stencils.divergenceTermCylindrical3D_z M F i j k = divD M F .z (i+1, j+1, k+1) := by
  simp only [Gen.Stencils.divergenceTermCylindrical3D_z, divD, lineA, lineV, lineM, hk, Mesh.axis, Idx.get, Idx.prev,
    Idx.set, Nat.add_sub_cancel]
  geq_ring

theorem divergenceTermSpherical3D_eq (M : Mesh α) (hk : M.kind = .sph3) (F : FaceFld α) (i j k : ℕ) :
    Gen.Stencils.divergenceTermSpherical3D M F i j k = divergence M F (i+1, j+1, k+1) := by
  simp only [Gen.Stencils.divergenceTermSpherical3D, divergence, sumDirs, divD, lineA, lineV, lineM, hk, Mesh.axis, Idx.get, Idx.prev,
    Idx.set, Kind.active, Kind.dim, Nat.add_sub_cancel, Nat.not_ofNat_le_one, Nat.reduceLeDiff, le_refl,
    decide_true, decide_false, Bool.false_eq_true, ↓reduceIte, add_zero]
  geq_ring

theorem divergenceTermSpherical3D_x_eq (M : Mesh α) (hk : M.kind = .sph3) (F : FaceFld α) (i j k : ℕ) :
    Gen.Stencils.divergenceTermSpherical3D_x M F i j k = divD M F .x (i+1, j+1, k+1) := by
  simp only [Gen.Stencils.divergenceTermSpherical3D_x, divD, lineA, lineV, lineM, hk, Mesh.axis, Idx.get, Idx.prev,
    Idx.set, Nat.add_sub_cancel]
  geq_ring

theorem divergenceTermSpherical3D_y_eq (M : Mesh α) (hk : M.kind = .sph3) (F : FaceFld α) (i j k : ℕ) :
    Gen.Stencils.divergenceTermSpherical3D_y M F i j k = divD M F .y (i+1, j+1, k+1) := by
  simp only [Gen.Stencils.divergenceTermSpherical3D_y, divD, lineA, lineV, lineM, hk, Mesh.axis, Idx.get, Idx.prev,
    Idx.set, Nat.add_sub_cancel]
  geq_ring

theorem divergenceTermSpherical3D_z_eq (M : Mesh α) (hk : M.kind = .sph3) (F : FaceFld α) (i j k : ℕ) :
    Gen.Stencils.divergenceTermSpherical3D_z M F i j k = divD M F .z (i+1, j+1, k+1) := by
  simp only [Gen.Stencils.divergenceTermSpherical3D_z, divD, lineA, lineV, lineM, hk, Mesh.axis, Idx.get, Idx.prev,
    Idx.set, Nat.add_sub_cancel]
  geq_ring


/-- the dispatcher `divergenceTerm` calls, for each grid class, the builder proved equal to the model of that class -/
theorem dispatch_divergenceTerm_eq (k : Kind) :
    Gen.Stencils.dispatch_divergenceTerm.lookup k = some (match k with
      | .cart1 => "divergenceTerm1D"
      | .cyl1 => "divergenceTermCylindrical1D"
      | .sph1 => "divergenceTermSpherical1D"
      | .cart2 => "divergenceTerm2D"
      | .cyl2 => "divergenceTermCylindrical2D"
      | .pol2 => "divergenceTermPolar2D"
      | .cart3 => "divergenceTerm3D"
      | .cyl3 => "divergenceTermCylindrical3D"
      | .sph3 => "divergenceTermSpherical3D") := by
  cases k <;> rfl

/-! ### the hypotheses are satisfiable and necessary -/

/-- the non-vanishing hypothesis of the convection theorems cannot be dropped -/
theorem convectionTerm1D_x_needs_DX :
    ∃ (M : Mesh ℚ) (u : FaceFld ℚ), M.kind = .cart1 ∧
      Gen.Stencils.convectionTerm1D_x M u 0 0 0 ≠ convSt M u .x (1, 1, 1) := by
  refine ⟨{ Examples.mesh .cart1 with ax := ⟨1, fun i => i, fun i => i, fun i => if i = 1 then 0 else 1⟩ },
    fun _ _ => 1, rfl, fun h => ?_⟩
  have := congrArg St3.e h
  norm_num [Gen.Stencils.convectionTerm1D_x, convSt, lineA, lineV, lineM, Examples.mesh, Mesh.axis, Idx.get] at this

example (k : Kind) : (Examples.mesh k).kind = k := rfl
/-- well-formed meshes satisfy the hypothesis of the convection theorems -/
example (M : Mesh α) (hM : M.WF) (d : Dir) (i : ℕ) : (M.axis d).DX (i+1) ≠ 0 :=
  ne_of_gt ((hM.axis d).pos _)
example (k : Kind) (i : ℕ) : (Examples.mesh k).ax.DX (i+1) ≠ 0 := ne_of_gt ((Examples.mesh_WF k).wx.pos _)
example (k : Kind) (j : ℕ) : (Examples.mesh k).ay.DX (j+1) ≠ 0 := ne_of_gt ((Examples.mesh_WF k).wy.pos _)
example (k : Kind) (l : ℕ) : (Examples.mesh k).az.DX (l+1) ≠ 0 := ne_of_gt ((Examples.mesh_WF k).wz.pos _)
example (u : FaceFld ℚ) (i j k : ℕ) :
    Gen.Stencils.convectionTermSpherical3D_y (Examples.mesh .sph3) u i j k
      = convSt (Examples.mesh .sph3) u .y (i+1, j+1, k+1) :=
  convectionTermSpherical3D_y_eq _ rfl u i j k (ne_of_gt ((Examples.mesh_WF .sph3).wy.pos _))

end PyFV.GenEq
