/-
  PyFV.Props.GenEqObs — the OBSERVER functions of cell.py / face.py REGENERATED FROM THE PYTHON SOURCE by the
  translator T-obs (harness/translate/tobs.py → PyFV/Gen/ObsGen.lean, rewritten on every run) are EQUAL to the
  hand-written model.

    `CellVariable.value`            `value_F M φ i j k = φ (i+1, j+1, k+1)`  (the interior view of the ghosted array)
    `CellVariable.cellvolume`       `cellvolume_F = cellVolume M` (Geom.lean), the nine classes
    `CellVariable.domainIntegral()` `domainIntegral_F M φ = domainIntegral M φ` (Lemmas/BoxSum.lean): the full sum of
                                    `cellvolume · value` over the interior box; hence the C01 theorems
                                    `domainIntegral_conserved…` speak about what the source computes today
                                    (`domainIntegral_generated_conserved`)
    `CellVariable.plotprofile()`    coordinates = `Obs.profileCoord` (every position); values = `Obs.profileVal` at the
                                    interior positions and in the interiors of the boundary faces; what the code does on
                                    2-D corners / 3-D edges and corners is stated in the `…_corner_…` lemmas (NOT part of
                                    the property); consequence (C03, "plot profile" clause): the reported boundary entry
                                    is the face average of the Robin relation (`…_robin_hi/lo`), for a Dirichlet face it
                                    is `c / b` exactly (`…_dirichlet_hi/lo`)
    `cellLocations`, `faceLocations` every returned array = the cell centres / face positions of the model

  Positions: interior arrays at the 0-based interior position (i, j, k) = model cell (i+1, j+1, k+1); the value array of
  `plotprofile()` at the 0-based position of the ghosted shape = model index; face arrays at the 0-based position of
  the face array (x-face array (i, j, k) = model face (i, j+1, k+1), ...); missing cross indices of 1-D / 2-D grids are
  the cell 1 of the unit axis.  Which grid classes reach which branch is pinned by `*_classes_eq`.
-/
import PyFV.Gen.ObsGen
import PyFV.Model.Obs
import PyFV.Lemmas.ObsLemmas
import PyFV.Props.C01Box
import PyFV.Props.C03
import PyFV.Props.Examples
import PyFV.Lemmas.GenEqTac
import Mathlib.Tactic.Ring
import Mathlib.Tactic.FieldSimp
import Mathlib.Tactic.NormNum

set_option linter.unusedSectionVars false
set_option linter.unusedSimpArgs false
set_option linter.unusedVariables false
set_option linter.unreachableTactic false
set_option linter.unusedTactic false
set_option linter.unnecessarySeqFocus false

namespace PyFV.GenEqObs
open PyFV PyFV.Obs Finset

variable {α : Type} [Field α] [LinearOrder α] [IsStrictOrderedRing α]

/-- nothing in the scope of T-obs (6 functions, 30 families) was left untranslated -/
theorem untranslated_eq : Gen.ObsGen.untranslated = [] := rfl

/-! ### branch ↦ grid classes -/

theorem value_classes_eq : Gen.ObsGen.value_classes =
      [("1D", [.cart1, .cyl1, .sph1]), ("2D", [.cart2, .cyl2, .pol2]), ("3D", [.cart3, .cyl3, .sph3])] := rfl

/-- `plotprofile` dispatches with `isinstance(self.domain, Grid1D / Grid2D / Grid3D)`: every one of the nine classes is
    a subclass of exactly one of the three, so none reaches the final `raise NotImplementedError` -/
theorem plotprofile_classes_eq : Gen.ObsGen.plotprofile_classes =
      [("1D", [.cart1, .cyl1, .sph1]), ("2D", [.cart2, .cyl2, .pol2]), ("3D", [.cart3, .cyl3, .sph3])] := rfl

theorem plotprofile_family (k : Kind) :
    ((Gen.ObsGen.plotprofile_classes.filter (fun r => r.2.contains k)).map Prod.fst)
      = [match k.dim with | 1 => "1D" | 2 => "2D" | _ => "3D"] := by
  cases k <;> rfl

theorem cellLocations_classes_eq : Gen.ObsGen.cellLocations_classes =
      [("1D", [.cart1, .cyl1, .sph1]), ("2D", [.cart2, .cyl2, .pol2]), ("3D", [.cart3, .cyl3, .sph3])] := rfl

theorem faceLocations_classes_eq : Gen.ObsGen.faceLocations_classes =
      [("1D", [.cart1, .cyl1, .sph1]), ("2D", [.cart2, .cyl2, .pol2]), ("3D", [.cart3, .cyl3, .sph3])] := rfl

/-- `cellvolume` resolves `self._getCellVolumes()` along the MRO: one family per class -/
theorem cellvolume_classes_eq : Gen.ObsGen.cellvolume_classes =
      [("1D", [.cart1]), ("Cylindrical1D", [.cyl1]), ("Spherical1D", [.sph1]),
       ("2D", [.cart2]), ("Cylindrical2D", [.cyl2]), ("Polar2D", [.pol2]),
       ("3D", [.cart3]), ("Cylindrical3D", [.cyl3]), ("Spherical3D", [.sph3])] := rfl

theorem domainIntegral_classes_eq : Gen.ObsGen.domainIntegral_classes = Gen.ObsGen.cellvolume_classes := rfl

/-- the shapes of what `plotprofile()` returns: coordinates with `N+2` entries, the ghosted shape for the values -/
theorem plotprofile_shapes_eq : Gen.ObsGen.plotprofile_shapes =
      [("plotprofile_x_1D", "(Nx+2)"), ("plotprofile_phi_1D", "(Nx+2)"),
       ("plotprofile_x_2D", "(Nx+2)"), ("plotprofile_y_2D", "(Ny+2)"), ("plotprofile_phi_2D", "(Nx+2, Ny+2)"),
       ("plotprofile_x_3D", "(Nx+2, 1, 1)"), ("plotprofile_y_3D", "(1, Ny+2, 1)"), ("plotprofile_z_3D", "(1, 1, Nz+2)"),
       ("plotprofile_phi_3D", "(Nx+2, Ny+2, Nz+2)")] := rfl

/-- every component of the FaceVariable returned for the D-faces has the D-face shape -/
theorem faceLocations_shapes_eq : Gen.ObsGen.faceLocations_shapes =
      [("faceLocations_xface_x_1D", "(Nx+1)"),
       ("faceLocations_xface_x_2D", "(Nx+1, Ny)"), ("faceLocations_xface_y_2D", "(Nx+1, Ny)"),
       ("faceLocations_yface_x_2D", "(Nx, Ny+1)"), ("faceLocations_yface_y_2D", "(Nx, Ny+1)"),
       ("faceLocations_xface_x_3D", "(Nx+1, Ny, Nz)"), ("faceLocations_xface_y_3D", "(Nx+1, Ny, Nz)"),
       ("faceLocations_xface_z_3D", "(Nx+1, Ny, Nz)"),
       ("faceLocations_yface_x_3D", "(Nx, Ny+1, Nz)"), ("faceLocations_yface_y_3D", "(Nx, Ny+1, Nz)"),
       ("faceLocations_yface_z_3D", "(Nx, Ny+1, Nz)"),
       ("faceLocations_zface_x_3D", "(Nx, Ny, Nz+1)"), ("faceLocations_zface_y_3D", "(Nx, Ny, Nz+1)"),
       ("faceLocations_zface_z_3D", "(Nx, Ny, Nz+1)")] := rfl

/-! ### (a) `CellVariable.value`: the interior view of the ghosted array -/

theorem value_1D_eq (M : Mesh α) (φ : CellFld α) (i j k : ℕ) :
    Gen.ObsGen.value_1D M φ i j k = φ (i+1, 1, 1) := by
  simp only [Gen.ObsGen.value_1D] <;> geq_ring

theorem value_2D_eq (M : Mesh α) (φ : CellFld α) (i j k : ℕ) :
    Gen.ObsGen.value_2D M φ i j k = φ (i+1, j+1, 1) := by
  simp only [Gen.ObsGen.value_2D] <;> geq_ring

theorem value_3D_eq (M : Mesh α) (φ : CellFld α) (i j k : ℕ) :
    Gen.ObsGen.value_3D M φ i j k = φ (i+1, j+1, k+1) := by
  simp only [Gen.ObsGen.value_3D] <;> geq_ring

/-! ### (a) `CellVariable.cellvolume` = `cellVolume` -/

theorem cellvolume_1D_eq (M : Mesh α) (hk : M.kind = .cart1) (i j k : ℕ) :
    Gen.ObsGen.cellvolume_1D M i j k = cellVolume M (i+1, j+1, k+1) := by
  simp only [Gen.ObsGen.cellvolume_1D, cellVolume, hk, Nat.add_sub_cancel] <;> geq_ring

theorem cellvolume_Cylindrical1D_eq (M : Mesh α) (hk : M.kind = .cyl1) (i j k : ℕ) :
    Gen.ObsGen.cellvolume_Cylindrical1D M i j k = cellVolume M (i+1, j+1, k+1) := by
  simp only [Gen.ObsGen.cellvolume_Cylindrical1D, cellVolume, hk, Nat.add_sub_cancel] <;> geq_ring

theorem cellvolume_Spherical1D_eq (M : Mesh α) (hk : M.kind = .sph1) (i j k : ℕ) :
    Gen.ObsGen.cellvolume_Spherical1D M i j k = cellVolume M (i+1, j+1, k+1) := by
  simp only [Gen.ObsGen.cellvolume_Spherical1D, cellVolume, hk, Nat.add_sub_cancel] <;> geq_ring

theorem cellvolume_2D_eq (M : Mesh α) (hk : M.kind = .cart2) (i j k : ℕ) :
    Gen.ObsGen.cellvolume_2D M i j k = cellVolume M (i+1, j+1, k+1) := by
  simp only [Gen.ObsGen.cellvolume_2D, cellVolume, hk, Nat.add_sub_cancel] <;> geq_ring

theorem cellvolume_Cylindrical2D_eq (M : Mesh α) (hk : M.kind = .cyl2) (i j k : ℕ) :
    Gen.ObsGen.cellvolume_Cylindrical2D M i j k = cellVolume M (i+1, j+1, k+1) := by
  simp only [Gen.ObsGen.cellvolume_Cylindrical2D, cellVolume, hk, Nat.add_sub_cancel] <;> geq_ring

theorem cellvolume_Polar2D_eq (M : Mesh α) (hk : M.kind = .pol2) (i j k : ℕ) :
    Gen.ObsGen.cellvolume_Polar2D M i j k = cellVolume M (i+1, j+1, k+1) := by
  simp only [Gen.ObsGen.cellvolume_Polar2D, cellVolume, hk, Nat.add_sub_cancel] <;> geq_ring

theorem cellvolume_3D_eq (M : Mesh α) (hk : M.kind = .cart3) (i j k : ℕ) :
    Gen.ObsGen.cellvolume_3D M i j k = cellVolume M (i+1, j+1, k+1) := by
  simp only [Gen.ObsGen.cellvolume_3D, cellVolume, hk, Nat.add_sub_cancel] <;> geq_ring

theorem cellvolume_Cylindrical3D_eq (M : Mesh α) (hk : M.kind = .cyl3) (i j k : ℕ) :
    Gen.ObsGen.cellvolume_Cylindrical3D M i j k = cellVolume M (i+1, j+1, k+1) := by
  simp only [Gen.ObsGen.cellvolume_Cylindrical3D, cellVolume, hk, Nat.add_sub_cancel] <;> geq_ring

theorem cellvolume_Spherical3D_eq (M : Mesh α) (hk : M.kind = .sph3) (i j k : ℕ) :
    Gen.ObsGen.cellvolume_Spherical3D M i j k = cellVolume M (i+1, j+1, k+1) := by
  simp only [Gen.ObsGen.cellvolume_Spherical3D, cellVolume, hk, Nat.add_sub_cancel] <;> geq_ring

/-- all nine at once: the `cellvolume` of the class of `M` is the model's `cellVolume` -/
theorem genCellVolume_eq (M : Mesh α) (i j k : ℕ) : genCellVolume M i j k = cellVolume M (i+1, j+1, k+1) := by
  unfold genCellVolume
  cases hk : M.kind
  · exact cellvolume_1D_eq M hk i j k
  · exact cellvolume_Cylindrical1D_eq M hk i j k
  · exact cellvolume_Spherical1D_eq M hk i j k
  · exact cellvolume_2D_eq M hk i j k
  · exact cellvolume_Cylindrical2D_eq M hk i j k
  · exact cellvolume_Polar2D_eq M hk i j k
  · exact cellvolume_3D_eq M hk i j k
  · exact cellvolume_Cylindrical3D_eq M hk i j k
  · exact cellvolume_Spherical3D_eq M hk i j k

/-! ### (b) `CellVariable.domainIntegral()` = `domainIntegral M φ` = `boxSum M (cellVolume · φ)`

1-D / 2-D grids: the model sums over the one cell of the unit axes too (`M.ay.n = 1`, `M.az.n = 1`: what
`UnitInactive M` gives, `domainIntegral_generated_eq`). -/

theorem domainIntegral_1D_eq (M : Mesh α) (hk : M.kind = .cart1) (hy : M.ay.n = 1) (hz : M.az.n = 1) (φ : CellFld α) :
    Gen.ObsGen.domainIntegral_1D M φ = domainIntegral M φ := by
  rw [domainIntegral, boxSum_1D M hy hz]
  unfold Gen.ObsGen.domainIntegral_1D
  refine sum_congr rfl (fun i _ => ?_)
  simp only [cellVolume, hk, Nat.add_sub_cancel] <;> geq_ring

theorem domainIntegral_Cylindrical1D_eq (M : Mesh α) (hk : M.kind = .cyl1) (hy : M.ay.n = 1) (hz : M.az.n = 1)
    (φ : CellFld α) : Gen.ObsGen.domainIntegral_Cylindrical1D M φ = domainIntegral M φ := by
  rw [domainIntegral, boxSum_1D M hy hz]
  unfold Gen.ObsGen.domainIntegral_Cylindrical1D
  refine sum_congr rfl (fun i _ => ?_)
  simp only [cellVolume, hk, Nat.add_sub_cancel] <;> geq_ring

theorem domainIntegral_Spherical1D_eq (M : Mesh α) (hk : M.kind = .sph1) (hy : M.ay.n = 1) (hz : M.az.n = 1)
    (φ : CellFld α) : Gen.ObsGen.domainIntegral_Spherical1D M φ = domainIntegral M φ := by
  rw [domainIntegral, boxSum_1D M hy hz]
  unfold Gen.ObsGen.domainIntegral_Spherical1D
  refine sum_congr rfl (fun i _ => ?_)
  simp only [cellVolume, hk, Nat.add_sub_cancel] <;> geq_ring

theorem domainIntegral_2D_eq (M : Mesh α) (hk : M.kind = .cart2) (hz : M.az.n = 1) (φ : CellFld α) :
    Gen.ObsGen.domainIntegral_2D M φ = domainIntegral M φ := by
  rw [domainIntegral, boxSum_2D M hz]
  unfold Gen.ObsGen.domainIntegral_2D
  refine sum_congr rfl (fun i _ => sum_congr rfl (fun j _ => ?_))
  simp only [cellVolume, hk, Nat.add_sub_cancel] <;> geq_ring

theorem domainIntegral_Cylindrical2D_eq (M : Mesh α) (hk : M.kind = .cyl2) (hz : M.az.n = 1) (φ : CellFld α) :
    Gen.ObsGen.domainIntegral_Cylindrical2D M φ = domainIntegral M φ := by
  rw [domainIntegral, boxSum_2D M hz]
  unfold Gen.ObsGen.domainIntegral_Cylindrical2D
  refine sum_congr rfl (fun i _ => sum_congr rfl (fun j _ => ?_))
  simp only [cellVolume, hk, Nat.add_sub_cancel] <;> geq_ring

theorem domainIntegral_Polar2D_eq (M : Mesh α) (hk : M.kind = .pol2) (hz : M.az.n = 1) (φ : CellFld α) :
    Gen.ObsGen.domainIntegral_Polar2D M φ = domainIntegral M φ := by
  rw [domainIntegral, boxSum_2D M hz]
  unfold Gen.ObsGen.domainIntegral_Polar2D
  refine sum_congr rfl (fun i _ => sum_congr rfl (fun j _ => ?_))
  simp only [cellVolume, hk, Nat.add_sub_cancel] <;> geq_ring

theorem domainIntegral_3D_eq (M : Mesh α) (hk : M.kind = .cart3) (φ : CellFld α) :
    Gen.ObsGen.domainIntegral_3D M φ = domainIntegral M φ := by
  rw [domainIntegral, boxSum]
  unfold Gen.ObsGen.domainIntegral_3D
  refine sum_congr rfl (fun i _ => sum_congr rfl (fun j _ => sum_congr rfl (fun k _ => ?_)))
  simp only [cellVolume, hk, Nat.add_sub_cancel] <;> geq_ring

theorem domainIntegral_Cylindrical3D_eq (M : Mesh α) (hk : M.kind = .cyl3) (φ : CellFld α) :
    Gen.ObsGen.domainIntegral_Cylindrical3D M φ = domainIntegral M φ := by
  rw [domainIntegral, boxSum]
  unfold Gen.ObsGen.domainIntegral_Cylindrical3D
  refine sum_congr rfl (fun i _ => sum_congr rfl (fun j _ => sum_congr rfl (fun k _ => ?_)))
  simp only [cellVolume, hk, Nat.add_sub_cancel] <;> geq_ring

theorem domainIntegral_Spherical3D_eq (M : Mesh α) (hk : M.kind = .sph3) (φ : CellFld α) :
    Gen.ObsGen.domainIntegral_Spherical3D M φ = domainIntegral M φ := by
  rw [domainIntegral, boxSum]
  unfold Gen.ObsGen.domainIntegral_Spherical3D
  refine sum_congr rfl (fun i _ => sum_congr rfl (fun j _ => sum_congr rfl (fun k _ => ?_)))
  simp only [cellVolume, hk, Nat.add_sub_cancel] <;> geq_ring

/-- **what `domainIntegral()` computes today is the model's `domainIntegral`**, for every grid class, on a mesh whose
    missing directions carry the unit axis (as the constructors build them) -/
theorem domainIntegral_generated_eq (M : Mesh α) (hu : UnitInactive M) (φ : CellFld α) :
    genDomainIntegral M φ = domainIntegral M φ := by
  unfold genDomainIntegral
  cases hk : M.kind
  · exact domainIntegral_1D_eq M hk (n_of_unitInactive hu .y (by rw [hk]; rfl)) (n_of_unitInactive hu .z (by rw [hk]; rfl)) φ
  · exact domainIntegral_Cylindrical1D_eq M hk (n_of_unitInactive hu .y (by rw [hk]; rfl))
      (n_of_unitInactive hu .z (by rw [hk]; rfl)) φ
  · exact domainIntegral_Spherical1D_eq M hk (n_of_unitInactive hu .y (by rw [hk]; rfl))
      (n_of_unitInactive hu .z (by rw [hk]; rfl)) φ
  · exact domainIntegral_2D_eq M hk (n_of_unitInactive hu .z (by rw [hk]; rfl)) φ
  · exact domainIntegral_Cylindrical2D_eq M hk (n_of_unitInactive hu .z (by rw [hk]; rfl)) φ
  · exact domainIntegral_Polar2D_eq M hk (n_of_unitInactive hu .z (by rw [hk]; rfl)) φ
  · exact domainIntegral_3D_eq M hk φ
  · exact domainIntegral_Cylindrical3D_eq M hk φ
  · exact domainIntegral_Spherical3D_eq M hk φ

/-- C01 for the number the source computes today: a closed implicit step conserves the GENERATED `domainIntegral`
    (eight classes; hypotheses of `C01Box.domainIntegral_conserved`) -/
theorem domainIntegral_generated_conserved (M : Mesh α) (hM : M.WF) (hk : M.kind ≠ .sph3) (hu : UnitInactive M)
    (alpha x old L : Idx → α) (dt : α) (hdt : dt ≠ 0)
    (hrow : ∀ c, M.interior c → alpha c * (x c - old c) / dt + L c = 0)
    (hL : boxSum M (fun c => Vcons M c * L c) = 0) :
    genDomainIntegral M (fun c => alpha c * x c) = genDomainIntegral M (fun c => alpha c * old c) := by
  rw [domainIntegral_generated_eq M hu, domainIntegral_generated_eq M hu]
  exact C01Box.domainIntegral_conserved M hM hk hu alpha x old L dt hdt hrow hL

/-- the same with unit transient coefficient -/
theorem domainIntegral_generated_conserved_unit (M : Mesh α) (hM : M.WF) (hk : M.kind ≠ .sph3)
    (hu : UnitInactive M) (x old L : Idx → α) (dt : α) (hdt : dt ≠ 0)
    (hrow : ∀ c, M.interior c → (1 : α) * (x c - old c) / dt + L c = 0)
    (hL : boxSum M (fun c => Vcons M c * L c) = 0) :
    genDomainIntegral M x = genDomainIntegral M old := by
  rw [domainIntegral_generated_eq M hu, domainIntegral_generated_eq M hu]
  exact C01Box.domainIntegral_conserved_unit M hM hk hu x old L dt hdt hrow hL

/-! ### (d) `cellLocations(m)`: the cell centres -/

theorem cellLocations_X_1D_eq (M : Mesh α) (i j k : ℕ) :
    Gen.ObsGen.cellLocations_X_1D M i j k = cellLoc M .x (i+1, 1, 1) := by
  simp only [Gen.ObsGen.cellLocations_X_1D, cellLoc, Mesh.axis, Idx.get] <;> geq_ring

theorem cellLocations_X_2D_eq (M : Mesh α) (i j k : ℕ) :
    Gen.ObsGen.cellLocations_X_2D M i j k = cellLoc M .x (i+1, j+1, 1) := by
  simp only [Gen.ObsGen.cellLocations_X_2D, cellLoc, Mesh.axis, Idx.get] <;> geq_ring

theorem cellLocations_Y_2D_eq (M : Mesh α) (i j k : ℕ) :
    Gen.ObsGen.cellLocations_Y_2D M i j k = cellLoc M .y (i+1, j+1, 1) := by
  simp only [Gen.ObsGen.cellLocations_Y_2D, cellLoc, Mesh.axis, Idx.get] <;> geq_ring

theorem cellLocations_X_3D_eq (M : Mesh α) (i j k : ℕ) :
    Gen.ObsGen.cellLocations_X_3D M i j k = cellLoc M .x (i+1, j+1, k+1) := by
  simp only [Gen.ObsGen.cellLocations_X_3D, cellLoc, Mesh.axis, Idx.get] <;> geq_ring

theorem cellLocations_Y_3D_eq (M : Mesh α) (i j k : ℕ) :
    Gen.ObsGen.cellLocations_Y_3D M i j k = cellLoc M .y (i+1, j+1, k+1) := by
  simp only [Gen.ObsGen.cellLocations_Y_3D, cellLoc, Mesh.axis, Idx.get] <;> geq_ring

theorem cellLocations_Z_3D_eq (M : Mesh α) (i j k : ℕ) :
    Gen.ObsGen.cellLocations_Z_3D M i j k = cellLoc M .z (i+1, j+1, k+1) := by
  simp only [Gen.ObsGen.cellLocations_Z_3D, cellLoc, Mesh.axis, Idx.get] <;> geq_ring

/-- in the leaf-table spelling: `(M.axis d).cen` -/
theorem cellLocations_3D_cen (M : Mesh α) (i j k : ℕ) :
    Gen.ObsGen.cellLocations_X_3D M i j k = (M.axis .x).cen (i+1) ∧
    Gen.ObsGen.cellLocations_Y_3D M i j k = (M.axis .y).cen (j+1) ∧
    Gen.ObsGen.cellLocations_Z_3D M i j k = (M.axis .z).cen (k+1) :=
  ⟨cellLocations_X_3D_eq M i j k, cellLocations_Y_3D_eq M i j k, cellLocations_Z_3D_eq M i j k⟩

/-! ### (d) `faceLocations(m)`: the face positions (x-face array (i, j, k) = model face (i, j+1, k+1), ...) -/

theorem faceLocations_xface_x_1D_eq (M : Mesh α) (i j k : ℕ) :
    Gen.ObsGen.faceLocations_xface_x_1D M i j k = faceLoc M .x .x (i, 1, 1) := by
  simp only [Gen.ObsGen.faceLocations_xface_x_1D, faceLoc, Mesh.axis, Idx.get, if_true] <;> geq_ring

theorem faceLocations_xface_x_2D_eq (M : Mesh α) (i j k : ℕ) :
    Gen.ObsGen.faceLocations_xface_x_2D M i j k = faceLoc M .x .x (i, j+1, 1) := by
  simp only [Gen.ObsGen.faceLocations_xface_x_2D, faceLoc, Mesh.axis, Idx.get, if_true] <;> geq_ring

theorem faceLocations_xface_y_2D_eq (M : Mesh α) (i j k : ℕ) :
    Gen.ObsGen.faceLocations_xface_y_2D M i j k = faceLoc M .x .y (i, j+1, 1) := by
  simp only [Gen.ObsGen.faceLocations_xface_y_2D, faceLoc, Mesh.axis, Idx.get, reduceCtorEq, if_false] <;> geq_ring

theorem faceLocations_yface_x_2D_eq (M : Mesh α) (i j k : ℕ) :
    Gen.ObsGen.faceLocations_yface_x_2D M i j k = faceLoc M .y .x (i+1, j, 1) := by
  simp only [Gen.ObsGen.faceLocations_yface_x_2D, faceLoc, Mesh.axis, Idx.get, reduceCtorEq, if_false] <;> geq_ring

theorem faceLocations_yface_y_2D_eq (M : Mesh α) (i j k : ℕ) :
    Gen.ObsGen.faceLocations_yface_y_2D M i j k = faceLoc M .y .y (i+1, j, 1) := by
  simp only [Gen.ObsGen.faceLocations_yface_y_2D, faceLoc, Mesh.axis, Idx.get, if_true] <;> geq_ring

theorem faceLocations_xface_x_3D_eq (M : Mesh α) (i j k : ℕ) :
    Gen.ObsGen.faceLocations_xface_x_3D M i j k = faceLoc M .x .x (i, j+1, k+1) := by
  simp only [Gen.ObsGen.faceLocations_xface_x_3D, faceLoc, Mesh.axis, Idx.get, if_true] <;> geq_ring

theorem faceLocations_xface_y_3D_eq (M : Mesh α) (i j k : ℕ) :
    Gen.ObsGen.faceLocations_xface_y_3D M i j k = faceLoc M .x .y (i, j+1, k+1) := by
  simp only [Gen.ObsGen.faceLocations_xface_y_3D, faceLoc, Mesh.axis, Idx.get, reduceCtorEq, if_false] <;> geq_ring

theorem faceLocations_xface_z_3D_eq (M : Mesh α) (i j k : ℕ) :
    Gen.ObsGen.faceLocations_xface_z_3D M i j k = faceLoc M .x .z (i, j+1, k+1) := by
  simp only [Gen.ObsGen.faceLocations_xface_z_3D, faceLoc, Mesh.axis, Idx.get, reduceCtorEq, if_false] <;> geq_ring

theorem faceLocations_yface_x_3D_eq (M : Mesh α) (i j k : ℕ) :
    Gen.ObsGen.faceLocations_yface_x_3D M i j k = faceLoc M .y .x (i+1, j, k+1) := by
  simp only [Gen.ObsGen.faceLocations_yface_x_3D, faceLoc, Mesh.axis, Idx.get, reduceCtorEq, if_false] <;> geq_ring

theorem faceLocations_yface_y_3D_eq (M : Mesh α) (i j k : ℕ) :
    Gen.ObsGen.faceLocations_yface_y_3D M i j k = faceLoc M .y .y (i+1, j, k+1) := by
  simp only [Gen.ObsGen.faceLocations_yface_y_3D, faceLoc, Mesh.axis, Idx.get, if_true] <;> geq_ring

theorem faceLocations_yface_z_3D_eq (M : Mesh α) (i j k : ℕ) :
    Gen.ObsGen.faceLocations_yface_z_3D M i j k = faceLoc M .y .z (i+1, j, k+1) := by
  simp only [Gen.ObsGen.faceLocations_yface_z_3D, faceLoc, Mesh.axis, Idx.get, reduceCtorEq, if_false] <;> geq_ring

theorem faceLocations_zface_x_3D_eq (M : Mesh α) (i j k : ℕ) :
    Gen.ObsGen.faceLocations_zface_x_3D M i j k = faceLoc M .z .x (i+1, j+1, k) := by
  simp only [Gen.ObsGen.faceLocations_zface_x_3D, faceLoc, Mesh.axis, Idx.get, reduceCtorEq, if_false] <;> geq_ring

theorem faceLocations_zface_y_3D_eq (M : Mesh α) (i j k : ℕ) :
    Gen.ObsGen.faceLocations_zface_y_3D M i j k = faceLoc M .z .y (i+1, j+1, k) := by
  simp only [Gen.ObsGen.faceLocations_zface_y_3D, faceLoc, Mesh.axis, Idx.get, reduceCtorEq, if_false] <;> geq_ring

theorem faceLocations_zface_z_3D_eq (M : Mesh α) (i j k : ℕ) :
    Gen.ObsGen.faceLocations_zface_z_3D M i j k = faceLoc M .z .z (i+1, j+1, k) := by
  simp only [Gen.ObsGen.faceLocations_zface_z_3D, faceLoc, Mesh.axis, Idx.get, if_true] <;> geq_ring

/-- in the leaf-table spelling (`(M.axis d).fc`, `(M.axis d).cen`): the face position along the direction of the
    face, the cell centres along the others -/
theorem faceLocations_3D_leaf (M : Mesh α) (i j k : ℕ) :
    Gen.ObsGen.faceLocations_xface_x_3D M i j k = (M.axis .x).fc i ∧
    Gen.ObsGen.faceLocations_xface_y_3D M i j k = (M.axis .y).cen (j+1) ∧
    Gen.ObsGen.faceLocations_xface_z_3D M i j k = (M.axis .z).cen (k+1) ∧
    Gen.ObsGen.faceLocations_yface_x_3D M i j k = (M.axis .x).cen (i+1) ∧
    Gen.ObsGen.faceLocations_yface_y_3D M i j k = (M.axis .y).fc j ∧
    Gen.ObsGen.faceLocations_yface_z_3D M i j k = (M.axis .z).cen (k+1) ∧
    Gen.ObsGen.faceLocations_zface_x_3D M i j k = (M.axis .x).cen (i+1) ∧
    Gen.ObsGen.faceLocations_zface_y_3D M i j k = (M.axis .y).cen (j+1) ∧
    Gen.ObsGen.faceLocations_zface_z_3D M i j k = (M.axis .z).fc k := by
  refine ⟨?_, ?_, ?_, ?_, ?_, ?_, ?_, ?_, ?_⟩ <;>
    simp only [Gen.ObsGen.faceLocations_xface_x_3D, Gen.ObsGen.faceLocations_xface_y_3D,
      Gen.ObsGen.faceLocations_xface_z_3D, Gen.ObsGen.faceLocations_yface_x_3D, Gen.ObsGen.faceLocations_yface_y_3D,
      Gen.ObsGen.faceLocations_yface_z_3D, Gen.ObsGen.faceLocations_zface_x_3D, Gen.ObsGen.faceLocations_zface_y_3D,
      Gen.ObsGen.faceLocations_zface_z_3D, Mesh.axis] <;> geq_ring

/-! ### (c) `plotprofile()`: the coordinate arrays (every position, every n) -/

theorem plotprofile_x_1D_eq (M : Mesh α) (p : ℕ) : Gen.ObsGen.plotprofile_x_1D M p = profileCoord M .x p := by
  rw [profileCoord_x]
  unfold Gen.ObsGen.plotprofile_x_1D
  rcases (by omega : p = 0 ∨ (1 ≤ p ∧ p ≤ M.ax.n) ∨ M.ax.n + 1 ≤ p) with h | h | h <;>
  · obs_ifs
    first | done | geq_ring

theorem plotprofile_x_2D_eq (M : Mesh α) (p : ℕ) : Gen.ObsGen.plotprofile_x_2D M p = profileCoord M .x p := by
  rw [profileCoord_x]
  unfold Gen.ObsGen.plotprofile_x_2D
  rcases (by omega : p = 0 ∨ (1 ≤ p ∧ p ≤ M.ax.n) ∨ M.ax.n + 1 ≤ p) with h | h | h <;>
  · obs_ifs
    first | done | geq_ring

theorem plotprofile_y_2D_eq (M : Mesh α) (p : ℕ) : Gen.ObsGen.plotprofile_y_2D M p = profileCoord M .y p := by
  rw [profileCoord_y]
  unfold Gen.ObsGen.plotprofile_y_2D
  rcases (by omega : p = 0 ∨ (1 ≤ p ∧ p ≤ M.ay.n) ∨ M.ay.n + 1 ≤ p) with h | h | h <;>
  · obs_ifs
    first | done | geq_ring

theorem plotprofile_x_3D_eq (M : Mesh α) (p : ℕ) : Gen.ObsGen.plotprofile_x_3D M p = profileCoord M .x p := by
  rw [profileCoord_x]
  unfold Gen.ObsGen.plotprofile_x_3D
  rcases (by omega : p = 0 ∨ (1 ≤ p ∧ p ≤ M.ax.n) ∨ M.ax.n + 1 ≤ p) with h | h | h <;>
  · obs_ifs
    first | done | geq_ring

theorem plotprofile_y_3D_eq (M : Mesh α) (p : ℕ) : Gen.ObsGen.plotprofile_y_3D M p = profileCoord M .y p := by
  rw [profileCoord_y]
  unfold Gen.ObsGen.plotprofile_y_3D
  rcases (by omega : p = 0 ∨ (1 ≤ p ∧ p ≤ M.ay.n) ∨ M.ay.n + 1 ≤ p) with h | h | h <;>
  · obs_ifs
    first | done | geq_ring

theorem plotprofile_z_3D_eq (M : Mesh α) (p : ℕ) : Gen.ObsGen.plotprofile_z_3D M p = profileCoord M .z p := by
  rw [profileCoord_z]
  unfold Gen.ObsGen.plotprofile_z_3D
  rcases (by omega : p = 0 ∨ (1 ≤ p ∧ p ≤ M.az.n) ∨ M.az.n + 1 ≤ p) with h | h | h <;>
  · obs_ifs
    first | done | geq_ring

/-- the ends of the coordinate arrays are the two boundary faces, the rest the cell centres -/
theorem profileCoord_ends (M : Mesh α) (d : Dir) :
    profileCoord M d 0 = (M.axis d).fc 0 ∧ profileCoord M d (M.n d + 1) = (M.axis d).fc (M.n d) ∧
    ∀ p, 1 ≤ p → p ≤ M.n d → profileCoord M d p = (M.axis d).cen p := by
  refine ⟨by simp [profileCoord], ?_, ?_⟩
  · unfold profileCoord; rw [if_neg (by omega), if_neg (by omega)]
  · intro p h1 h2; unfold profileCoord; rw [if_neg (by omega), if_pos h2]

/-! ### (c) `plotprofile()`: the value array, 1-D -/

/-- closed form of what the code computes: every entry is the average of the cell and its interior neighbour -/
theorem plotprofile_phi_1D_avg (M : Mesh α) (φ : CellFld α) (i j k : ℕ) (hi : i ≤ M.ax.n + 1) :
    Gen.ObsGen.plotprofile_phi_1D M φ i j k = (φ (i, 1, 1) + φ (nb M.ax.n i, 1, 1)) / 2 := by
  simp only [Gen.ObsGen.plotprofile_phi_1D, nb]
  generalize M.ax.n = X at *
  rcases (by omega : i = 0 ∨ i = X + 1 ∨ (1 ≤ i ∧ i ≤ X)) with rfl | rfl | ⟨h1, h2⟩ <;>
  · obs_ifs
    first | done | geq_ring

theorem plotprofile_phi_1D_eq (M : Mesh α) (hd : M.kind.dim = 1) (φ : CellFld α) (i j k : ℕ) (hi : i ≤ M.ax.n + 1) :
    profileVal M φ (i, 1, 1) = some (Gen.ObsGen.plotprofile_phi_1D M φ i j k) := by
  rw [plotprofile_phi_1D_avg M φ i j k hi]
  by_cases h : i = 0 ∨ i = M.ax.n + 1
  · have h1 : M.outCount (i, 1, 1) = 1 := by rw [outCount_1D M hd]; simp only [if_pos h]
    have h2 : M.outDir (i, 1, 1) = .x := by rw [outDir_of]; simp only [if_pos h]
    rw [profileVal_of_one M φ _ h1, h2]
    rfl
  · have h0 : M.outCount (i, 1, 1) = 0 := by rw [outCount_1D M hd]; simp only [if_neg h]
    rw [profileVal_of_zero M φ _ h0, nb_interior _ _ (by omega) (by omega)]
    congr 1
    ring

/-! ### (c) `plotprofile()`: the value array, 2-D

`phi0 = np.copy(self._value)`, four in-place averaging statements (each reads slices of the array being modified), then
the four corners are overwritten with the neighbouring entry of the SAME ROW (`phi0[0, 0] = phi0[0, 1]`, ...). -/

/-- closed form away from the corners: the average over the cell, its interior neighbour along x, along y, and the
    diagonal one (`nb n p = p` for an interior position, so this is the cell value in the interior and the average of
    the ghost cell and its interior neighbour on a boundary face) -/
theorem plotprofile_phi_2D_avg (M : Mesh α) (φ : CellFld α) (i j k : ℕ) (hx : 1 ≤ M.ax.n) (hy : 1 ≤ M.ay.n)
    (hi : i ≤ M.ax.n + 1) (hj : j ≤ M.ay.n + 1)
    (hnc : ¬ ((i = 0 ∨ i = M.ax.n + 1) ∧ (j = 0 ∨ j = M.ay.n + 1))) :
    Gen.ObsGen.plotprofile_phi_2D M φ i j k
      = (φ (i, j, 1) + φ (nb M.ax.n i, j, 1) + φ (i, nb M.ay.n j, 1) + φ (nb M.ax.n i, nb M.ay.n j, 1)) / 4 := by
  simp only [Gen.ObsGen.plotprofile_phi_2D, nb]
  generalize M.ax.n = X at *
  generalize M.ay.n = Y at *
  rcases (by omega : i = 0 ∨ i = X + 1 ∨ (1 ≤ i ∧ i ≤ X)) with rfl | rfl | ⟨hi1, hi2⟩ <;>
  rcases (by omega : j = 0 ∨ j = Y + 1 ∨ (1 ≤ j ∧ j ≤ Y)) with rfl | rfl | ⟨hj1, hj2⟩ <;>
  first
  | (exfalso; omega)
  | (obs_ifs
     first | done | geq_ring)

/-- generated = model at the interior positions and in the interiors of the four boundary faces -/
theorem plotprofile_phi_2D_eq (M : Mesh α) (hd : M.kind.dim = 2) (φ : CellFld α) (i j k : ℕ)
    (hx : 1 ≤ M.ax.n) (hy : 1 ≤ M.ay.n) (hi : i ≤ M.ax.n + 1) (hj : j ≤ M.ay.n + 1)
    (h : M.outCount (i, j, 1) ≤ 1) :
    profileVal M φ (i, j, 1) = some (Gen.ObsGen.plotprofile_phi_2D M φ i j k) := by
  have hact := (active_of_dim2 hd).1
  rw [outCount_2D M hd] at h
  by_cases hxi : i = 0 ∨ i = M.ax.n + 1 <;> by_cases hyj : j = 0 ∨ j = M.ay.n + 1
  · simp only [if_pos hxi, if_pos hyj] at h; omega
  · rw [plotprofile_phi_2D_avg M φ i j k hx hy hi hj (fun hh => hyj hh.2)]
    have h1 : M.outCount (i, j, 1) = 1 := by rw [outCount_2D M hd]; simp only [if_pos hxi, if_neg hyj]
    have h2 : M.outDir (i, j, 1) = .x := by rw [outDir_of]; simp only [if_pos hxi]
    rw [profileVal_of_one M φ _ h1, h2, nb_interior _ j (by omega) (by omega)]
    congr 1
    simp only [Idx.set, Idx.get, Mesh.n, Mesh.axis]
    ring
  · rw [plotprofile_phi_2D_avg M φ i j k hx hy hi hj (fun hh => hxi hh.1)]
    have h1 : M.outCount (i, j, 1) = 1 := by rw [outCount_2D M hd]; simp only [if_neg hxi, if_pos hyj]
    have h2 : M.outDir (i, j, 1) = .y := by
      rw [outDir_of]; simp only [if_neg hxi, hact, true_and, if_pos hyj]
    rw [profileVal_of_one M φ _ h1, h2, nb_interior _ i (by omega) (by omega)]
    congr 1
    simp only [Idx.set, Idx.get, Mesh.n, Mesh.axis]
    ring
  · rw [plotprofile_phi_2D_avg M φ i j k hx hy hi hj (fun hh => hxi hh.1)]
    have h0 : M.outCount (i, j, 1) = 0 := by rw [outCount_2D M hd]; simp only [if_neg hxi, if_neg hyj]
    rw [profileVal_of_zero M φ _ h0, nb_interior _ i (by omega) (by omega), nb_interior _ j (by omega) (by omega)]
    congr 1
    ring

/-- NOT part of the property — what the code does at the four corners: the corner takes the value of the neighbouring
    entry of the x-boundary face (same row `i`), i.e. the average of the ghost cell `(i, j')` and the cell `(i', j')`
    next to the corner (`j' = nb j` ∈ {1, n_y}, `i' = nb i` ∈ {1, n_x}); the y-neighbours do not enter -/
theorem plotprofile_phi_2D_corner_value (M : Mesh α) (φ : CellFld α) (i j k : ℕ) (hx : 1 ≤ M.ax.n) (hy : 1 ≤ M.ay.n)
    (hi : i = 0 ∨ i = M.ax.n + 1) (hj : j = 0 ∨ j = M.ay.n + 1) :
    Gen.ObsGen.plotprofile_phi_2D M φ i j k
      = (φ (i, nb M.ay.n j, 1) + φ (nb M.ax.n i, nb M.ay.n j, 1)) / 2 := by
  simp only [Gen.ObsGen.plotprofile_phi_2D, nb]
  generalize M.ax.n = X at *
  generalize M.ay.n = Y at *
  rcases hi with rfl | rfl <;> rcases hj with rfl | rfl <;>
  · obs_ifs
    first | done | geq_ring

/-- the corner entry is a copy of the neighbouring x-boundary-face entry (`phi0[0, 0] = phi0[0, 1]`, ...) -/
theorem plotprofile_phi_2D_corner_copies_xface (M : Mesh α) (φ : CellFld α) (i j k : ℕ) (hx : 1 ≤ M.ax.n)
    (hy : 1 ≤ M.ay.n) (hi : i = 0 ∨ i = M.ax.n + 1) (hj : j = 0 ∨ j = M.ay.n + 1) :
    Gen.ObsGen.plotprofile_phi_2D M φ i j k = Gen.ObsGen.plotprofile_phi_2D M φ i (nb M.ay.n j) k := by
  have hj' : 1 ≤ nb M.ay.n j ∧ nb M.ay.n j ≤ M.ay.n := by
    rcases hj with rfl | rfl
    · rw [nb_zero]; omega
    · rw [nb_succ]; omega
  rw [plotprofile_phi_2D_corner_value M φ i j k hx hy hi hj,
    plotprofile_phi_2D_avg M φ i (nb M.ay.n j) k hx hy (by omega) (by omega) (by omega),
    nb_interior _ _ hj'.1 hj'.2]
  ring

/-! ### (c) `plotprofile()`: the value array, 3-D

`phi0 = np.copy(self._value)` and six in-place averaging statements (y-low, y-high, z-low, z-high, x-low, x-high);
the later ones read the planes the earlier ones have modified. -/

/-- closed form at EVERY position of the ghosted array: the average over the 2×2×2 block spanned by the cell and its
    interior neighbours along the three axes (`nb n p = p` for an interior position) -/
theorem plotprofile_phi_3D_avg8 (M : Mesh α) (φ : CellFld α) (i j k : ℕ) (hx : 1 ≤ M.ax.n) (hy : 1 ≤ M.ay.n)
    (hz : 1 ≤ M.az.n) (hi : i ≤ M.ax.n + 1) (hj : j ≤ M.ay.n + 1) (hk : k ≤ M.az.n + 1) :
    Gen.ObsGen.plotprofile_phi_3D M φ i j k
      = (φ (i, j, k) + φ (nb M.ax.n i, j, k) + φ (i, nb M.ay.n j, k) + φ (nb M.ax.n i, nb M.ay.n j, k)
         + φ (i, j, nb M.az.n k) + φ (nb M.ax.n i, j, nb M.az.n k) + φ (i, nb M.ay.n j, nb M.az.n k)
         + φ (nb M.ax.n i, nb M.ay.n j, nb M.az.n k)) / 8 := by
  simp only [Gen.ObsGen.plotprofile_phi_3D, nb]
  generalize M.ax.n = X at *
  generalize M.ay.n = Y at *
  generalize M.az.n = Z at *
  rcases (by omega : i = 0 ∨ i = X + 1 ∨ (1 ≤ i ∧ i ≤ X)) with rfl | rfl | ⟨hi1, hi2⟩ <;>
  rcases (by omega : j = 0 ∨ j = Y + 1 ∨ (1 ≤ j ∧ j ≤ Y)) with rfl | rfl | ⟨hj1, hj2⟩ <;>
  rcases (by omega : k = 0 ∨ k = Z + 1 ∨ (1 ≤ k ∧ k ≤ Z)) with rfl | rfl | ⟨hk1, hk2⟩ <;>
  · obs_ifs
    first | done | geq_ring

/-- generated = model at the interior positions and in the interiors of the six boundary faces -/
theorem plotprofile_phi_3D_eq (M : Mesh α) (hd : M.kind.dim = 3) (φ : CellFld α) (i j k : ℕ)
    (hx : 1 ≤ M.ax.n) (hy : 1 ≤ M.ay.n) (hz : 1 ≤ M.az.n)
    (hi : i ≤ M.ax.n + 1) (hj : j ≤ M.ay.n + 1) (hk : k ≤ M.az.n + 1) (h : M.outCount (i, j, k) ≤ 1) :
    profileVal M φ (i, j, k) = some (Gen.ObsGen.plotprofile_phi_3D M φ i j k) := by
  obtain ⟨hay, haz⟩ := active_of_dim3 hd
  rw [plotprofile_phi_3D_avg8 M φ i j k hx hy hz hi hj hk]
  rw [outCount_3D M hd] at h
  by_cases hxi : i = 0 ∨ i = M.ax.n + 1 <;> by_cases hyj : j = 0 ∨ j = M.ay.n + 1 <;>
    by_cases hzk : k = 0 ∨ k = M.az.n + 1
  · simp only [if_pos hxi, if_pos hyj, if_pos hzk] at h; omega
  · simp only [if_pos hxi, if_pos hyj, if_neg hzk] at h; omega
  · simp only [if_pos hxi, if_neg hyj, if_pos hzk] at h; omega
  · have h1 : M.outCount (i, j, k) = 1 := by
      rw [outCount_3D M hd]; simp only [if_pos hxi, if_neg hyj, if_neg hzk]
    have h2 : M.outDir (i, j, k) = .x := by rw [outDir_of]; simp only [if_pos hxi]
    rw [profileVal_of_one M φ _ h1, h2, nb_interior _ j (by omega) (by omega), nb_interior _ k (by omega) (by omega)]
    congr 1
    simp only [Idx.set, Idx.get, Mesh.n, Mesh.axis]
    ring
  · simp only [if_neg hxi, if_pos hyj, if_pos hzk] at h; omega
  · have h1 : M.outCount (i, j, k) = 1 := by
      rw [outCount_3D M hd]; simp only [if_neg hxi, if_pos hyj, if_neg hzk]
    have h2 : M.outDir (i, j, k) = .y := by
      rw [outDir_of]; simp only [if_neg hxi, hay, true_and, if_pos hyj]
    rw [profileVal_of_one M φ _ h1, h2, nb_interior _ i (by omega) (by omega), nb_interior _ k (by omega) (by omega)]
    congr 1
    simp only [Idx.set, Idx.get, Mesh.n, Mesh.axis]
    ring
  · have h1 : M.outCount (i, j, k) = 1 := by
      rw [outCount_3D M hd]; simp only [if_neg hxi, if_neg hyj, if_pos hzk]
    have h2 : M.outDir (i, j, k) = .z := by
      rw [outDir_of]; simp only [if_neg hxi, hay, true_and, if_neg hyj]
    rw [profileVal_of_one M φ _ h1, h2, nb_interior _ i (by omega) (by omega), nb_interior _ j (by omega) (by omega)]
    congr 1
    simp only [Idx.set, Idx.get, Mesh.n, Mesh.axis]
    ring
  · have h0 : M.outCount (i, j, k) = 0 := by
      rw [outCount_3D M hd]; simp only [if_neg hxi, if_neg hyj, if_neg hzk]
    rw [profileVal_of_zero M φ _ h0, nb_interior _ i (by omega) (by omega), nb_interior _ j (by omega) (by omega),
      nb_interior _ k (by omega) (by omega)]
    congr 1
    ring

/-- NOT part of the property — what the code does on the four edges parallel to z (`i`, `j` on the boundary, `k`
    interior): the average of the four cells around the edge -/
theorem plotprofile_phi_3D_corner_edge_z (M : Mesh α) (φ : CellFld α) (i j k : ℕ) (hx : 1 ≤ M.ax.n) (hy : 1 ≤ M.ay.n)
    (hz : 1 ≤ M.az.n) (hi : i = 0 ∨ i = M.ax.n + 1) (hj : j = 0 ∨ j = M.ay.n + 1) (hk1 : 1 ≤ k) (hk2 : k ≤ M.az.n) :
    Gen.ObsGen.plotprofile_phi_3D M φ i j k
      = (φ (i, j, k) + φ (nb M.ax.n i, j, k) + φ (i, nb M.ay.n j, k) + φ (nb M.ax.n i, nb M.ay.n j, k)) / 4 := by
  rw [plotprofile_phi_3D_avg8 M φ i j k hx hy hz (by omega) (by omega) (by omega), nb_interior _ k hk1 hk2]
  ring

/-- the four edges parallel to y -/
theorem plotprofile_phi_3D_corner_edge_y (M : Mesh α) (φ : CellFld α) (i j k : ℕ) (hx : 1 ≤ M.ax.n) (hy : 1 ≤ M.ay.n)
    (hz : 1 ≤ M.az.n) (hi : i = 0 ∨ i = M.ax.n + 1) (hj1 : 1 ≤ j) (hj2 : j ≤ M.ay.n) (hk : k = 0 ∨ k = M.az.n + 1) :
    Gen.ObsGen.plotprofile_phi_3D M φ i j k
      = (φ (i, j, k) + φ (nb M.ax.n i, j, k) + φ (i, j, nb M.az.n k) + φ (nb M.ax.n i, j, nb M.az.n k)) / 4 := by
  rw [plotprofile_phi_3D_avg8 M φ i j k hx hy hz (by omega) (by omega) (by omega), nb_interior _ j hj1 hj2]
  ring

/-- the four edges parallel to x -/
theorem plotprofile_phi_3D_corner_edge_x (M : Mesh α) (φ : CellFld α) (i j k : ℕ) (hx : 1 ≤ M.ax.n) (hy : 1 ≤ M.ay.n)
    (hz : 1 ≤ M.az.n) (hi1 : 1 ≤ i) (hi2 : i ≤ M.ax.n) (hj : j = 0 ∨ j = M.ay.n + 1) (hk : k = 0 ∨ k = M.az.n + 1) :
    Gen.ObsGen.plotprofile_phi_3D M φ i j k
      = (φ (i, j, k) + φ (i, nb M.ay.n j, k) + φ (i, j, nb M.az.n k) + φ (i, nb M.ay.n j, nb M.az.n k)) / 4 := by
  rw [plotprofile_phi_3D_avg8 M φ i j k hx hy hz (by omega) (by omega) (by omega), nb_interior _ i hi1 hi2]
  ring

/-- the eight corners: the average of the eight cells around the corner (the low corner, spelled out) -/
theorem plotprofile_phi_3D_corner_vertex (M : Mesh α) (φ : CellFld α) (hx : 1 ≤ M.ax.n) (hy : 1 ≤ M.ay.n)
    (hz : 1 ≤ M.az.n) :
    Gen.ObsGen.plotprofile_phi_3D M φ 0 0 0
      = (φ (0, 0, 0) + φ (1, 0, 0) + φ (0, 1, 0) + φ (1, 1, 0) + φ (0, 0, 1) + φ (1, 0, 1) + φ (0, 1, 1)
          + φ (1, 1, 1)) / 8 := by
  rw [plotprofile_phi_3D_avg8 M φ 0 0 0 hx hy hz (by omega) (by omega) (by omega)]
  simp only [nb_zero]

/-! ### (c) the property-level consequence (C03, "plot profile" clause)

The boundary entry of the profile next to the interior cell `c` IS the face average `(φ_c + ghost)/2` the Robin
relation `a·(normal difference quotient) + b·(face average) = c` of that boundary face talks about
(`C03.ghostHi_satisfies`, `C03.ghostLo_satisfies`: the ghost value `apply_BCs` computes satisfies it). -/

/-- the entry beyond the high end of direction `d`, next to the interior cell `c` (model level) -/
theorem profile_robin_hi (M : Mesh α) (bc : BCs α) (φg : CellFld α) (d : Dir) (c : Idx) (hc : M.interior c)
    (hd : M.kind.active d = true) (hcd : c.get d = M.n d)
    (hrel : (bc.hi d).a c * ((φg (c.set d (M.n d + 1)) - φg c) / (lineM M d c * (M.axis d).DX (M.n d + 1)))
              + (bc.hi d).b c * ((φg c + φg (c.set d (M.n d + 1))) / 2) = (bc.hi d).c c) :
    ∃ v, profileVal M φg (c.set d (M.n d + 1)) = some v ∧
      (bc.hi d).b c * v
        + (bc.hi d).a c * ((φg (c.set d (M.n d + 1)) - φg c) / (lineM M d c * (M.axis d).DX (M.n d + 1)))
        = (bc.hi d).c c :=
  ⟨_, profileVal_hi M φg d c hc hd hcd, by rw [← hrel]; ring⟩

theorem profile_robin_lo (M : Mesh α) (bc : BCs α) (φg : CellFld α) (d : Dir) (c : Idx) (hc : M.interior c)
    (hd : M.kind.active d = true) (hcd : c.get d = 1)
    (hrel : (bc.lo d).a c * ((φg c - φg (c.set d 0)) / (lineM M d c * (M.axis d).DX 0))
              + (bc.lo d).b c * ((φg c + φg (c.set d 0)) / 2) = (bc.lo d).c c) :
    ∃ v, profileVal M φg (c.set d 0) = some v ∧
      (bc.lo d).b c * v + (bc.lo d).a c * ((φg c - φg (c.set d 0)) / (lineM M d c * (M.axis d).DX 0))
        = (bc.lo d).c c :=
  ⟨_, profileVal_lo M φg d c hc hd hcd, by rw [← hrel]; ring⟩

/-- after `apply_BCs` (the ghost entry of the ghosted field is the value `ghostHi` computes) on a non-periodic face:
    `b · (profile boundary entry) + a · (normal difference quotient) = c` -/
theorem profile_robin_hi_of_ghost (M : Mesh α) (bc : BCs α) (φg : CellFld α) (d : Dir) (c : Idx) (hc : M.interior c)
    (hd : M.kind.active d = true) (hcd : c.get d = M.n d)
    (hp : ¬ bc.periodicDir d = true) (hg : hiGhostCoef M bc d c ≠ 0)
    (hD : lineM M d c * (M.axis d).DX (M.n d + 1) ≠ 0)
    (h : ghostHi M bc φg d c = some (φg (c.set d (M.n d + 1)))) :
    ∃ v, profileVal M φg (c.set d (M.n d + 1)) = some v ∧
      (bc.hi d).b c * v
        + (bc.hi d).a c * ((φg (c.set d (M.n d + 1)) - φg c) / (lineM M d c * (M.axis d).DX (M.n d + 1)))
        = (bc.hi d).c c :=
  profile_robin_hi M bc φg d c hc hd hcd (C03.ghostHi_satisfies M bc φg d c _ hp hg hD h)

theorem profile_robin_lo_of_ghost (M : Mesh α) (bc : BCs α) (φg : CellFld α) (d : Dir) (c : Idx) (hc : M.interior c)
    (hd : M.kind.active d = true) (hcd : c.get d = 1)
    (hp : ¬ bc.periodicDir d = true) (hg : loGhostCoef M bc d c ≠ 0)
    (hD : lineM M d c * (M.axis d).DX 0 ≠ 0)
    (h : ghostLo M bc φg d c = some (φg (c.set d 0))) :
    ∃ v, profileVal M φg (c.set d 0) = some v ∧
      (bc.lo d).b c * v + (bc.lo d).a c * ((φg c - φg (c.set d 0)) / (lineM M d c * (M.axis d).DX 0))
        = (bc.lo d).c c :=
  profile_robin_lo M bc φg d c hc hd hcd (C03.ghostLo_satisfies M bc φg d c _ hp hg hD h)

/-- Dirichlet face (`a = 0`, `b ≠ 0`): the boundary entry of the profile is `c / b` exactly -/
theorem profile_dirichlet_hi (M : Mesh α) (bc : BCs α) (φg : CellFld α) (d : Dir) (c : Idx) (hc : M.interior c)
    (hd : M.kind.active d = true) (hcd : c.get d = M.n d)
    (ha : (bc.hi d).a c = 0) (hb : (bc.hi d).b c ≠ 0)
    (hrel : (bc.hi d).a c * ((φg (c.set d (M.n d + 1)) - φg c) / (lineM M d c * (M.axis d).DX (M.n d + 1)))
              + (bc.hi d).b c * ((φg c + φg (c.set d (M.n d + 1))) / 2) = (bc.hi d).c c) :
    profileVal M φg (c.set d (M.n d + 1)) = some ((bc.hi d).c c / (bc.hi d).b c) := by
  rw [profileVal_hi M φg d c hc hd hcd]
  congr 1
  rw [ha, zero_mul, zero_add] at hrel
  rw [← hrel]
  field_simp
  ring

theorem profile_dirichlet_lo (M : Mesh α) (bc : BCs α) (φg : CellFld α) (d : Dir) (c : Idx) (hc : M.interior c)
    (hd : M.kind.active d = true) (hcd : c.get d = 1)
    (ha : (bc.lo d).a c = 0) (hb : (bc.lo d).b c ≠ 0)
    (hrel : (bc.lo d).a c * ((φg c - φg (c.set d 0)) / (lineM M d c * (M.axis d).DX 0))
              + (bc.lo d).b c * ((φg c + φg (c.set d 0)) / 2) = (bc.lo d).c c) :
    profileVal M φg (c.set d 0) = some ((bc.lo d).c c / (bc.lo d).b c) := by
  rw [profileVal_lo M φg d c hc hd hcd]
  congr 1
  rw [ha, zero_mul, zero_add] at hrel
  rw [← hrel]
  field_simp
  ring

/-! #### the same for the GENERATED arrays: the boundary entries the source reports today -/

/-- the generated boundary entry beyond the high end of `d`, next to the interior cell `c`: the face average -/
theorem plotprofile_phi_1D_hi (M : Mesh α) (φg : CellFld α) (j k : ℕ) :
    Gen.ObsGen.plotprofile_phi_1D M φg (M.ax.n + 1) j k = (φg (M.ax.n + 1, 1, 1) + φg (M.ax.n, 1, 1)) / 2 := by
  rw [plotprofile_phi_1D_avg M φg _ j k (le_refl _), nb_succ]

theorem plotprofile_phi_1D_lo (M : Mesh α) (φg : CellFld α) (j k : ℕ) :
    Gen.ObsGen.plotprofile_phi_1D M φg 0 j k = (φg (0, 1, 1) + φg (1, 1, 1)) / 2 := by
  rw [plotprofile_phi_1D_avg M φg _ j k (by omega), nb_zero]

theorem plotprofile_phi_2D_hi (M : Mesh α) (hdim : M.kind.dim = 2) (φg : CellFld α) (d : Dir) (c : Idx) (k : ℕ)
    (hc : M.interior c) (hc3 : c.2.2 = 1) (hd : M.kind.active d = true) (hcd : c.get d = M.n d) :
    Gen.ObsGen.plotprofile_phi_2D M φg (c.set d (M.n d + 1)).1 (c.set d (M.n d + 1)).2.1 k
      = (φg (c.set d (M.n d + 1)) + φg c) / 2 := by
  have hv := profileVal_hi M φg d c hc hd hcd
  obtain ⟨h1, _⟩ := ghostCell_hi hc hd
  obtain ⟨a1, a2, b1, b2, c1, c2⟩ := hc
  have e : c.set d (M.n d + 1) = ((c.set d (M.n d + 1)).1, (c.set d (M.n d + 1)).2.1, 1) := by
    cases d
    · simp only [Idx.set, hc3]
    · simp only [Idx.set, hc3]
    · rw [(active_of_dim2 hdim).2] at hd; exact absurd hd (by decide)
  have hb : (c.set d (M.n d + 1)).1 ≤ M.ax.n + 1 ∧ (c.set d (M.n d + 1)).2.1 ≤ M.ay.n + 1 := by
    cases d <;> simp only [Idx.set, Mesh.n, Mesh.axis] <;> omega
  have hg := plotprofile_phi_2D_eq M hdim φg _ _ k (by omega) (by omega) hb.1 hb.2 (by rw [← e]; omega)
  rw [← e, hv] at hg
  exact (Option.some.inj hg).symm

theorem plotprofile_phi_2D_lo (M : Mesh α) (hdim : M.kind.dim = 2) (φg : CellFld α) (d : Dir) (c : Idx) (k : ℕ)
    (hc : M.interior c) (hc3 : c.2.2 = 1) (hd : M.kind.active d = true) (hcd : c.get d = 1) :
    Gen.ObsGen.plotprofile_phi_2D M φg (c.set d 0).1 (c.set d 0).2.1 k = (φg (c.set d 0) + φg c) / 2 := by
  have hv := profileVal_lo M φg d c hc hd hcd
  obtain ⟨h1, _⟩ := ghostCell_lo hc hd
  obtain ⟨a1, a2, b1, b2, c1, c2⟩ := hc
  have e : c.set d 0 = ((c.set d 0).1, (c.set d 0).2.1, 1) := by
    cases d
    · simp only [Idx.set, hc3]
    · simp only [Idx.set, hc3]
    · rw [(active_of_dim2 hdim).2] at hd; exact absurd hd (by decide)
  have hb : (c.set d 0).1 ≤ M.ax.n + 1 ∧ (c.set d 0).2.1 ≤ M.ay.n + 1 := by
    cases d <;> simp only [Idx.set] <;> omega
  have hg := plotprofile_phi_2D_eq M hdim φg _ _ k (by omega) (by omega) hb.1 hb.2 (by rw [← e]; omega)
  rw [← e, hv] at hg
  exact (Option.some.inj hg).symm

theorem plotprofile_phi_3D_hi (M : Mesh α) (hdim : M.kind.dim = 3) (φg : CellFld α) (d : Dir) (c : Idx)
    (hc : M.interior c) (hcd : c.get d = M.n d) :
    Gen.ObsGen.plotprofile_phi_3D M φg (c.set d (M.n d + 1)).1 (c.set d (M.n d + 1)).2.1 (c.set d (M.n d + 1)).2.2
      = (φg (c.set d (M.n d + 1)) + φg c) / 2 := by
  have hd : M.kind.active d = true := by
    obtain ⟨hy, hz⟩ := active_of_dim3 hdim
    cases d
    · rfl
    · exact hy
    · exact hz
  have hv := profileVal_hi M φg d c hc hd hcd
  obtain ⟨h1, _⟩ := ghostCell_hi hc hd
  obtain ⟨a1, a2, b1, b2, c1, c2⟩ := hc
  have hb : (c.set d (M.n d + 1)).1 ≤ M.ax.n + 1 ∧ (c.set d (M.n d + 1)).2.1 ≤ M.ay.n + 1
      ∧ (c.set d (M.n d + 1)).2.2 ≤ M.az.n + 1 := by
    cases d <;> simp only [Idx.set, Mesh.n, Mesh.axis] <;> omega
  have hg := plotprofile_phi_3D_eq M hdim φg _ _ _ (by omega) (by omega) (by omega) hb.1 hb.2.1 hb.2.2
    (by show M.outCount (c.set d (M.n d + 1)) ≤ 1; omega)
  rw [show ((c.set d (M.n d + 1)).1, (c.set d (M.n d + 1)).2.1, (c.set d (M.n d + 1)).2.2) = c.set d (M.n d + 1) from rfl,
    hv] at hg
  exact (Option.some.inj hg).symm

theorem plotprofile_phi_3D_lo (M : Mesh α) (hdim : M.kind.dim = 3) (φg : CellFld α) (d : Dir) (c : Idx)
    (hc : M.interior c) (hcd : c.get d = 1) :
    Gen.ObsGen.plotprofile_phi_3D M φg (c.set d 0).1 (c.set d 0).2.1 (c.set d 0).2.2
      = (φg (c.set d 0) + φg c) / 2 := by
  have hd : M.kind.active d = true := by
    obtain ⟨hy, hz⟩ := active_of_dim3 hdim
    cases d
    · rfl
    · exact hy
    · exact hz
  have hv := profileVal_lo M φg d c hc hd hcd
  obtain ⟨h1, _⟩ := ghostCell_lo hc hd
  obtain ⟨a1, a2, b1, b2, c1, c2⟩ := hc
  have hb : (c.set d 0).1 ≤ M.ax.n + 1 ∧ (c.set d 0).2.1 ≤ M.ay.n + 1 ∧ (c.set d 0).2.2 ≤ M.az.n + 1 := by
    cases d <;> simp only [Idx.set] <;> omega
  have hg := plotprofile_phi_3D_eq M hdim φg _ _ _ (by omega) (by omega) (by omega) hb.1 hb.2.1 hb.2.2
    (by show M.outCount (c.set d 0) ≤ 1; omega)
  rw [show ((c.set d 0).1, (c.set d 0).2.1, (c.set d 0).2.2) = c.set d 0 from rfl, hv] at hg
  exact (Option.some.inj hg).symm

/-- **C03, plot-profile clause, for the generated arrays.**  If the ghosted field satisfies the Robin relation of the
    non-periodic high face of `d` at the cell `c`, the boundary entry `P` the source reports there satisfies
    `b·P + a·(difference quotient) = c`; for a Dirichlet face (`a = 0`, `b ≠ 0`) `P = c / b`.  (`P` is any number equal
    to the face average `(ghost + cell)/2`: the theorems `plotprofile_phi_*_hi` say the generated entries are.) -/
theorem robin_of_face_average_hi (M : Mesh α) (bc : BCs α) (φg : CellFld α) (d : Dir) (c : Idx) (P : α)
    (hP : P = (φg (c.set d (M.n d + 1)) + φg c) / 2)
    (hrel : (bc.hi d).a c * ((φg (c.set d (M.n d + 1)) - φg c) / (lineM M d c * (M.axis d).DX (M.n d + 1)))
              + (bc.hi d).b c * ((φg c + φg (c.set d (M.n d + 1))) / 2) = (bc.hi d).c c) :
    (bc.hi d).b c * P
        + (bc.hi d).a c * ((φg (c.set d (M.n d + 1)) - φg c) / (lineM M d c * (M.axis d).DX (M.n d + 1)))
        = (bc.hi d).c c ∧
    ((bc.hi d).a c = 0 → (bc.hi d).b c ≠ 0 → P = (bc.hi d).c c / (bc.hi d).b c) := by
  subst hP
  refine ⟨by rw [← hrel]; ring, fun ha hb => ?_⟩
  rw [ha, zero_mul, zero_add] at hrel
  rw [← hrel]
  field_simp
  ring

theorem robin_of_face_average_lo (M : Mesh α) (bc : BCs α) (φg : CellFld α) (d : Dir) (c : Idx) (P : α)
    (hP : P = (φg (c.set d 0) + φg c) / 2)
    (hrel : (bc.lo d).a c * ((φg c - φg (c.set d 0)) / (lineM M d c * (M.axis d).DX 0))
              + (bc.lo d).b c * ((φg c + φg (c.set d 0)) / 2) = (bc.lo d).c c) :
    (bc.lo d).b c * P + (bc.lo d).a c * ((φg c - φg (c.set d 0)) / (lineM M d c * (M.axis d).DX 0))
        = (bc.lo d).c c ∧
    ((bc.lo d).a c = 0 → (bc.lo d).b c ≠ 0 → P = (bc.lo d).c c / (bc.lo d).b c) := by
  subst hP
  refine ⟨by rw [← hrel]; ring, fun ha hb => ?_⟩
  rw [ha, zero_mul, zero_add] at hrel
  rw [← hrel]
  field_simp
  ring

/-- 1-D, high end: with `c = (n_x, 1, 1)` -/
theorem plotprofile_phi_1D_robin_hi (M : Mesh α) (bc : BCs α) (φg : CellFld α) (j k : ℕ)
    (hrel : (bc.hi .x).a (M.ax.n, 1, 1) * ((φg (M.ax.n + 1, 1, 1) - φg (M.ax.n, 1, 1))
                / (lineM M .x (M.ax.n, 1, 1) * M.ax.DX (M.ax.n + 1)))
              + (bc.hi .x).b (M.ax.n, 1, 1) * ((φg (M.ax.n, 1, 1) + φg (M.ax.n + 1, 1, 1)) / 2)
              = (bc.hi .x).c (M.ax.n, 1, 1)) :
    (bc.hi .x).b (M.ax.n, 1, 1) * Gen.ObsGen.plotprofile_phi_1D M φg (M.ax.n + 1) j k
        + (bc.hi .x).a (M.ax.n, 1, 1) * ((φg (M.ax.n + 1, 1, 1) - φg (M.ax.n, 1, 1))
                / (lineM M .x (M.ax.n, 1, 1) * M.ax.DX (M.ax.n + 1)))
        = (bc.hi .x).c (M.ax.n, 1, 1) ∧
    ((bc.hi .x).a (M.ax.n, 1, 1) = 0 → (bc.hi .x).b (M.ax.n, 1, 1) ≠ 0 →
      Gen.ObsGen.plotprofile_phi_1D M φg (M.ax.n + 1) j k = (bc.hi .x).c (M.ax.n, 1, 1) / (bc.hi .x).b (M.ax.n, 1, 1)) :=
  robin_of_face_average_hi M bc φg .x (M.ax.n, 1, 1) _ (plotprofile_phi_1D_hi M φg j k) hrel

/-- 1-D, low end: with `c = (1, 1, 1)` -/
theorem plotprofile_phi_1D_robin_lo (M : Mesh α) (bc : BCs α) (φg : CellFld α) (j k : ℕ)
    (hrel : (bc.lo .x).a (1, 1, 1) * ((φg (1, 1, 1) - φg (0, 1, 1)) / (lineM M .x (1, 1, 1) * M.ax.DX 0))
              + (bc.lo .x).b (1, 1, 1) * ((φg (1, 1, 1) + φg (0, 1, 1)) / 2) = (bc.lo .x).c (1, 1, 1)) :
    (bc.lo .x).b (1, 1, 1) * Gen.ObsGen.plotprofile_phi_1D M φg 0 j k
        + (bc.lo .x).a (1, 1, 1) * ((φg (1, 1, 1) - φg (0, 1, 1)) / (lineM M .x (1, 1, 1) * M.ax.DX 0))
        = (bc.lo .x).c (1, 1, 1) ∧
    ((bc.lo .x).a (1, 1, 1) = 0 → (bc.lo .x).b (1, 1, 1) ≠ 0 →
      Gen.ObsGen.plotprofile_phi_1D M φg 0 j k = (bc.lo .x).c (1, 1, 1) / (bc.lo .x).b (1, 1, 1)) :=
  robin_of_face_average_lo M bc φg .x (1, 1, 1) _ (plotprofile_phi_1D_lo M φg j k) hrel

/-- 2-D, any of the two high faces -/
theorem plotprofile_phi_2D_robin_hi (M : Mesh α) (hdim : M.kind.dim = 2) (bc : BCs α) (φg : CellFld α) (d : Dir)
    (c : Idx) (k : ℕ) (hc : M.interior c) (hc3 : c.2.2 = 1) (hd : M.kind.active d = true) (hcd : c.get d = M.n d)
    (hrel : (bc.hi d).a c * ((φg (c.set d (M.n d + 1)) - φg c) / (lineM M d c * (M.axis d).DX (M.n d + 1)))
              + (bc.hi d).b c * ((φg c + φg (c.set d (M.n d + 1))) / 2) = (bc.hi d).c c) :
    (bc.hi d).b c * Gen.ObsGen.plotprofile_phi_2D M φg (c.set d (M.n d + 1)).1 (c.set d (M.n d + 1)).2.1 k
        + (bc.hi d).a c * ((φg (c.set d (M.n d + 1)) - φg c) / (lineM M d c * (M.axis d).DX (M.n d + 1)))
        = (bc.hi d).c c ∧
    ((bc.hi d).a c = 0 → (bc.hi d).b c ≠ 0 →
      Gen.ObsGen.plotprofile_phi_2D M φg (c.set d (M.n d + 1)).1 (c.set d (M.n d + 1)).2.1 k
        = (bc.hi d).c c / (bc.hi d).b c) :=
  robin_of_face_average_hi M bc φg d c _ (plotprofile_phi_2D_hi M hdim φg d c k hc hc3 hd hcd) hrel

theorem plotprofile_phi_2D_robin_lo (M : Mesh α) (hdim : M.kind.dim = 2) (bc : BCs α) (φg : CellFld α) (d : Dir)
    (c : Idx) (k : ℕ) (hc : M.interior c) (hc3 : c.2.2 = 1) (hd : M.kind.active d = true) (hcd : c.get d = 1)
    (hrel : (bc.lo d).a c * ((φg c - φg (c.set d 0)) / (lineM M d c * (M.axis d).DX 0))
              + (bc.lo d).b c * ((φg c + φg (c.set d 0)) / 2) = (bc.lo d).c c) :
    (bc.lo d).b c * Gen.ObsGen.plotprofile_phi_2D M φg (c.set d 0).1 (c.set d 0).2.1 k
        + (bc.lo d).a c * ((φg c - φg (c.set d 0)) / (lineM M d c * (M.axis d).DX 0)) = (bc.lo d).c c ∧
    ((bc.lo d).a c = 0 → (bc.lo d).b c ≠ 0 →
      Gen.ObsGen.plotprofile_phi_2D M φg (c.set d 0).1 (c.set d 0).2.1 k = (bc.lo d).c c / (bc.lo d).b c) :=
  robin_of_face_average_lo M bc φg d c _ (plotprofile_phi_2D_lo M hdim φg d c k hc hc3 hd hcd) hrel

/-- 3-D, any of the three high faces -/
theorem plotprofile_phi_3D_robin_hi (M : Mesh α) (hdim : M.kind.dim = 3) (bc : BCs α) (φg : CellFld α) (d : Dir)
    (c : Idx) (hc : M.interior c) (hcd : c.get d = M.n d)
    (hrel : (bc.hi d).a c * ((φg (c.set d (M.n d + 1)) - φg c) / (lineM M d c * (M.axis d).DX (M.n d + 1)))
              + (bc.hi d).b c * ((φg c + φg (c.set d (M.n d + 1))) / 2) = (bc.hi d).c c) :
    (bc.hi d).b c * Gen.ObsGen.plotprofile_phi_3D M φg (c.set d (M.n d + 1)).1 (c.set d (M.n d + 1)).2.1
          (c.set d (M.n d + 1)).2.2
        + (bc.hi d).a c * ((φg (c.set d (M.n d + 1)) - φg c) / (lineM M d c * (M.axis d).DX (M.n d + 1)))
        = (bc.hi d).c c ∧
    ((bc.hi d).a c = 0 → (bc.hi d).b c ≠ 0 →
      Gen.ObsGen.plotprofile_phi_3D M φg (c.set d (M.n d + 1)).1 (c.set d (M.n d + 1)).2.1 (c.set d (M.n d + 1)).2.2
        = (bc.hi d).c c / (bc.hi d).b c) :=
  robin_of_face_average_hi M bc φg d c _ (plotprofile_phi_3D_hi M hdim φg d c hc hcd) hrel

theorem plotprofile_phi_3D_robin_lo (M : Mesh α) (hdim : M.kind.dim = 3) (bc : BCs α) (φg : CellFld α) (d : Dir)
    (c : Idx) (hc : M.interior c) (hcd : c.get d = 1)
    (hrel : (bc.lo d).a c * ((φg c - φg (c.set d 0)) / (lineM M d c * (M.axis d).DX 0))
              + (bc.lo d).b c * ((φg c + φg (c.set d 0)) / 2) = (bc.lo d).c c) :
    (bc.lo d).b c * Gen.ObsGen.plotprofile_phi_3D M φg (c.set d 0).1 (c.set d 0).2.1 (c.set d 0).2.2
        + (bc.lo d).a c * ((φg c - φg (c.set d 0)) / (lineM M d c * (M.axis d).DX 0)) = (bc.lo d).c c ∧
    ((bc.lo d).a c = 0 → (bc.lo d).b c ≠ 0 →
      Gen.ObsGen.plotprofile_phi_3D M φg (c.set d 0).1 (c.set d 0).2.1 (c.set d 0).2.2
        = (bc.lo d).c c / (bc.lo d).b c) :=
  robin_of_face_average_lo M bc φg d c _ (plotprofile_phi_3D_lo M hdim φg d c hc hcd) hrel

/-! ### non-vacuity: the hypotheses are satisfiable on the concrete meshes `Examples.mesh k` -/

/-- the unit-axis hypothesis of `domainIntegral_generated_eq` holds on every example mesh -/
example (k : Kind) (φ : CellFld ℚ) : genDomainIntegral (Examples.mesh k) φ = domainIntegral (Examples.mesh k) φ :=
  domainIntegral_generated_eq _ (C01Box.examples_unitInactive k) φ

/-- the generated `domainIntegral` of the constant 1 on the 3×3 cylindrical mesh `1 ≤ r ≤ 7`, `1 ≤ z ≤ 7`: the volume
    `π (7² − 1²) · 6 = 288 π` (kernel evaluation of the GENERATED sum) -/
example : Gen.ObsGen.domainIntegral_Cylindrical2D (Examples.mesh .cyl2) (fun _ => 1) = 288 * (Examples.mesh .cyl2).pi := by
  decide +kernel

/-- the step hypotheses of `domainIntegral_generated_conserved` are satisfiable (as in C01Box) -/
example (k : Kind) (hk : (Examples.mesh k).kind ≠ .sph3) :
    genDomainIntegral (Examples.mesh k) (fun c => (1 : ℚ) * (2 : ℚ)) = genDomainIntegral (Examples.mesh k) (fun c => (1 : ℚ) * 2) :=
  domainIntegral_generated_conserved _ (Examples.mesh_WF k) hk (C01Box.examples_unitInactive k)
    (fun _ => 1) (fun _ => 2) (fun _ => 2) (fun _ => 0) 1 one_ne_zero (fun _ _ => by norm_num) (by simp [boxSum])

/-- positions of `plotprofile_phi_2D_eq` / `_3D_eq`: a boundary-face interior and an interior position qualify, a
    corner does not -/
example : (Examples.mesh .cart2).kind.dim = 2 ∧ 1 ≤ (Examples.mesh .cart2).ax.n ∧ 1 ≤ (Examples.mesh .cart2).ay.n ∧
    (Examples.mesh .cart2).outCount (4, 2, 1) ≤ 1 ∧ (Examples.mesh .cart2).outCount (2, 2, 1) ≤ 1 ∧
    ¬ (Examples.mesh .cart2).outCount (4, 0, 1) ≤ 1 := by decide +kernel

example (φ : CellFld ℚ) :
    profileVal (Examples.mesh .pol2) φ (4, 2, 1) = some (Gen.ObsGen.plotprofile_phi_2D (Examples.mesh .pol2) φ 4 2 0) :=
  plotprofile_phi_2D_eq _ rfl φ 4 2 0 (by decide) (by decide) (by decide) (by decide) (by decide +kernel)

example (φ : CellFld ℚ) :
    profileVal (Examples.mesh .sph3) φ (2, 0, 3) = some (Gen.ObsGen.plotprofile_phi_3D (Examples.mesh .sph3) φ 2 0 3) :=
  plotprofile_phi_3D_eq _ rfl φ 2 0 3 (by decide) (by decide) (by decide) (by decide) (by decide) (by decide)
    (by decide +kernel)

/-- the model says nothing at a corner / edge -/
example (φ : CellFld ℚ) : profileVal (Examples.mesh .cart2) φ (0, 4, 1) = none :=
  profileVal_none _ φ _ (by decide +kernel)

/-- 2-D corners are NOT symmetric in x and y: the corner `(0, 0)` copies the x-boundary-face entry `(0, 1)`, which
    differs from the y-boundary-face entry `(1, 0)` and from the average of the four cells around the corner -/
example : Gen.ObsGen.plotprofile_phi_2D (Examples.mesh .cart2) Ex.cornerField 0 0 0
      = Gen.ObsGen.plotprofile_phi_2D (Examples.mesh .cart2) Ex.cornerField 0 1 0 ∧
    Gen.ObsGen.plotprofile_phi_2D (Examples.mesh .cart2) Ex.cornerField 0 0 0
      ≠ Gen.ObsGen.plotprofile_phi_2D (Examples.mesh .cart2) Ex.cornerField 1 0 0 ∧
    Gen.ObsGen.plotprofile_phi_2D (Examples.mesh .cart2) Ex.cornerField 0 0 0
      ≠ (Ex.cornerField (0, 0, 1) + Ex.cornerField (1, 0, 1) + Ex.cornerField (0, 1, 1) + Ex.cornerField (1, 1, 1)) / 4 := by
  decide +kernel

/-- the hypotheses of `profile_robin_hi_of_ghost` are met on every example mesh by the Robin face `1·∂φ + 2·φ = 3`
    (`BCEx.robin`) and the ghosted ramp `Ex.robinField` (ghost `3/4`, C03) -/
example (k : Kind) :
    (Examples.mesh k).interior (3, 1, 1) ∧ (Examples.mesh k).kind.active .x = true ∧
    Idx.get (3, 1, 1) .x = (Examples.mesh k).n .x ∧ ¬ BCEx.robin.periodicDir .x = true ∧
    hiGhostCoef (Examples.mesh k) BCEx.robin .x (3, 1, 1) ≠ 0 ∧
    lineM (Examples.mesh k) .x (3, 1, 1) * ((Examples.mesh k).axis .x).DX ((Examples.mesh k).n .x + 1) ≠ 0 ∧
    ghostHi (Examples.mesh k) BCEx.robin Ex.robinField .x (3, 1, 1)
      = some (Ex.robinField (Idx.set (3, 1, 1) .x ((Examples.mesh k).n .x + 1))) := by
  refine ⟨?_, rfl, rfl, by decide, ?_, ?_, ?_⟩
  · cases k <;> (unfold Mesh.interior; decide +kernel)
  · cases k <;> decide +kernel
  · cases k <;> decide +kernel
  · cases k <;> decide +kernel

/-- … and the conclusion is about real numbers: the reported boundary entry is `15/8`, and `2·15/8 + 1·(3/4 − 3)/3 = 3` -/
example : Gen.ObsGen.plotprofile_phi_1D (Examples.mesh .cart1) Ex.robinField 4 0 0 = 15 / 8 ∧
    (2 : ℚ) * (15 / 8) + 1 * ((3 / 4 - 3) / (1 * 3)) = 3 := by
  refine ⟨by decide +kernel, by norm_num⟩

/-- Dirichlet `φ = 5` (`a = 0`, `b = 1`): the reported boundary entry is exactly `c / b = 5`, in 1-D, 2-D and 3-D
    (kernel evaluation of the GENERATED arrays; ghost value `2·5 − 3 = 7`) -/
example : Gen.ObsGen.plotprofile_phi_1D (Examples.mesh .cart1) Ex.dirichletField 4 0 0 = 5 ∧
    Gen.ObsGen.plotprofile_phi_2D (Examples.mesh .cyl2) Ex.dirichletField 4 2 0 = 5 ∧
    Gen.ObsGen.plotprofile_phi_3D (Examples.mesh .sph3) Ex.dirichletField 4 2 3 = 5 := by
  refine ⟨by decide +kernel, by decide +kernel, by decide +kernel⟩

/-- the Robin hypothesis of `plotprofile_phi_2D_robin_hi` is met by the Dirichlet field on the high x face of the 2-D
    example meshes, cell `c = (3, 2, 1)` -/
example : (Examples.mesh .cyl2).interior (3, 2, 1) ∧
    (BCEx.dirichlet.hi .x).a (3, 2, 1) * ((Ex.dirichletField (Idx.set (3, 2, 1) .x ((Examples.mesh .cyl2).n .x + 1))
          - Ex.dirichletField (3, 2, 1))
        / (lineM (Examples.mesh .cyl2) .x (3, 2, 1) * ((Examples.mesh .cyl2).axis .x).DX ((Examples.mesh .cyl2).n .x + 1)))
      + (BCEx.dirichlet.hi .x).b (3, 2, 1) * ((Ex.dirichletField (3, 2, 1)
          + Ex.dirichletField (Idx.set (3, 2, 1) .x ((Examples.mesh .cyl2).n .x + 1))) / 2)
      = (BCEx.dirichlet.hi .x).c (3, 2, 1) := by
  refine ⟨by unfold Mesh.interior; decide +kernel, by decide +kernel⟩

end PyFV.GenEqObs
