/-
  PyFV.Props.GenEqAvg — the face averages, the gradient and the source / transient terms REGENERATED FROM THE PYTHON
  SOURCE by the translator T-avg (harness/translate/tavg.py → PyFV/Gen/AvgGen.lean, rewritten on every run) are EQUAL
  to the hand-written model (`linMean`, `upMean`, `gradD`, `constSrcRHS`, `linearSrcRow`, `transientRow`,
  `transientRHS` of PyFV/Model/Terms.lean; `arithMean`, `harmMean`, `geoMean` of PyFV/Model/Avg.lean).

  `Gen.AvgGen.<function>_<d>_<F> M φ i j k` is the entry at the 0-based position (i, j, k) of the d-component array of
  the FaceVariable the Python function returns on a grid whose class reaches the branch ("family") F of its
  `issubclass` / `type(..) is` cascade.  x-face array position (i, j, k) = model face (i, j+1, k+1) of direction x,
  y-face array position = model face (i+1, j, k+1), z-face array position = (i+1, j+1, k); missing cross indices of
  1-D / 2-D grids are the cell 1 of the unit axis.  Which grid classes reach which family is the generated table
  `<function>_classes`, pinned below (`*_classes_eq`, `*_family`).

  HYPOTHESES (weakest found; necessity shown by the `*_needs_*` witnesses)
    linearMean, arithmeticMean       none (equal as field expressions, `x / 0 = 0` included; every mesh, every position)
    harmonicMean                     `M.kind.dim = 1` (1-D loop formula) / `≠ 1` (`_harmonic_face`): the MODEL switches
                                     on the dimension.  The model is partial (`none` when the divisor vanishes for two
                                     non-zero neighbours, where numpy gives inf / nan); the generated formula is a total
                                     field expression.  `*_of_some`: whenever the model has a value, it is the generated
                                     one (no further hypothesis).  `*_eq`: `model = some generated` iff a neighbour is 0
                                     or the divisor is ≠ 0 (`harmonicMean_x_1D_needs_den`).
    geometricMean                    uninterpreted `expF logF : α → α` for np.exp / np.log.  1-D: none.  2-D / 3-D: both
                                     neighbours ≠ 0 — the N-D code has NO zero branch (it relies on log 0 = −∞, exp(−∞) = 0),
                                     the model writes the 1-D branch in every dimension: a documented MODEL SIMPLIFICATION,
                                     not a field identity (`geometricMean_x_2D_needs_nonzero`).
    upwindMean                       1-D: none.  2-D / 3-D: the CROSS positions are not one past the array (`j ≠ M.ay.n`,
                                     ...; implied by the array bound `j < M.ay.n`): the code overwrites the cross ghost
                                     layers of `phi_tmp` too, the generated formula keeps those tests (`if j = M.ay.n ...`),
                                     the model tests the direction of the face only (`upwindMean_x_2D_needs_bound`: the
                                     two differ exactly there).  No bound along the direction of the face.
    gradientTerm                     x components: none (no grid class rescales x).  y / z: the grid classes of the
                                     family (they fix the metric factor `lineM`).
    gradientTermFixedBC              no model definition exists: the definitional form is stated here,
                                     `(if p = 0 ∨ p = n then 2 else 1) * gradD ..`; needs `n ≠ 0` (an axis has a cell:
                                     `Axis.WF.npos`), because the code doubles face 0 and face n one after the other and a
                                     0-cell axis would be doubled twice (`gradientTermFixedBC_x_1D_needs_cell`).
    constant / linear source, transient    none (definitional equalities).
-/
import PyFV.Gen.AvgGen
import PyFV.Model.Avg
import PyFV.Props.Examples
import PyFV.Lemmas.GenEqTac
import PyFV.Lemmas.HarmForms
import Mathlib.Tactic.Ring
import Mathlib.Tactic.FieldSimp
import Mathlib.Tactic.NormNum

set_option linter.unusedSectionVars false
set_option linter.unusedSimpArgs false
set_option linter.unusedVariables false
set_option linter.unreachableTactic false
set_option linter.unusedTactic false
set_option linter.unnecessarySeqFocus false

namespace PyFV.GenEqAvg
open PyFV

variable {α : Type} [Field α] [LinearOrder α] [IsStrictOrderedRing α]

/-- nothing in the scope of T-avg (11 functions, 45 families / variants) was left untranslated -/
theorem untranslated_eq : Gen.AvgGen.untranslated = [] := rfl

/-! ### branch ↦ grid classes (every class reaches exactly one branch: the first whose test it passes) -/

theorem cell_size_array_classes_eq : Gen.AvgGen.cell_size_array_classes =
      [("1D", [.cart1, .cyl1, .sph1]), ("2D", [.cart2, .cyl2, .pol2]), ("3D", [.cart3, .cyl3, .sph3])] := rfl

theorem cell_size_array_family (k : Kind) :
    ((Gen.AvgGen.cell_size_array_classes.filter (fun r => r.2.contains k)).map Prod.fst)
      = [match k.dim with | 1 => "1D" | 2 => "2D" | _ => "3D"] := by
  cases k <;> rfl

theorem linearMean_classes_eq : Gen.AvgGen.linearMean_classes =
      [("1D", [.cart1, .cyl1, .sph1]), ("2D", [.cart2, .cyl2, .pol2]), ("3D", [.cart3, .cyl3, .sph3])] := rfl

theorem linearMean_family (k : Kind) :
    ((Gen.AvgGen.linearMean_classes.filter (fun r => r.2.contains k)).map Prod.fst)
      = [match k.dim with | 1 => "1D" | 2 => "2D" | _ => "3D"] := by
  cases k <;> rfl

theorem arithmeticMean_classes_eq : Gen.AvgGen.arithmeticMean_classes =
      [("1D", [.cart1, .cyl1, .sph1]), ("2D", [.cart2, .cyl2, .pol2]), ("3D", [.cart3, .cyl3, .sph3])] := rfl

theorem arithmeticMean_family (k : Kind) :
    ((Gen.AvgGen.arithmeticMean_classes.filter (fun r => r.2.contains k)).map Prod.fst)
      = [match k.dim with | 1 => "1D" | 2 => "2D" | _ => "3D"] := by
  cases k <;> rfl

theorem harmonicMean_classes_eq : Gen.AvgGen.harmonicMean_classes =
      [("1D", [.cart1, .cyl1, .sph1]), ("2D", [.cart2, .cyl2, .pol2]), ("3D", [.cart3, .cyl3, .sph3])] := rfl

theorem harmonicMean_family (k : Kind) :
    ((Gen.AvgGen.harmonicMean_classes.filter (fun r => r.2.contains k)).map Prod.fst)
      = [match k.dim with | 1 => "1D" | 2 => "2D" | _ => "3D"] := by
  cases k <;> rfl

theorem geometricMean_classes_eq : Gen.AvgGen.geometricMean_classes =
      [("1D", [.cart1, .cyl1, .sph1]), ("2D", [.cart2, .cyl2, .pol2]), ("3D", [.cart3, .cyl3, .sph3])] := rfl

theorem geometricMean_family (k : Kind) :
    ((Gen.AvgGen.geometricMean_classes.filter (fun r => r.2.contains k)).map Prod.fst)
      = [match k.dim with | 1 => "1D" | 2 => "2D" | _ => "3D"] := by
  cases k <;> rfl

theorem upwindMean_classes_eq : Gen.AvgGen.upwindMean_classes =
      [("1D", [.cart1, .cyl1, .sph1]), ("2D", [.cart2, .cyl2, .pol2]), ("3D", [.cart3, .cyl3, .sph3])] := rfl

theorem upwindMean_family (k : Kind) :
    ((Gen.AvgGen.upwindMean_classes.filter (fun r => r.2.contains k)).map Prod.fst)
      = [match k.dim with | 1 => "1D" | 2 => "2D" | _ => "3D"] := by
  cases k <;> rfl

theorem constantSourceTerm_classes_eq : Gen.AvgGen.constantSourceTerm_classes =
      [("1D", [.cart1, .cyl1, .sph1]), ("2D", [.cart2, .cyl2, .pol2]), ("3D", [.cart3, .cyl3, .sph3])] := rfl

theorem constantSourceTerm_family (k : Kind) :
    ((Gen.AvgGen.constantSourceTerm_classes.filter (fun r => r.2.contains k)).map Prod.fst)
      = [match k.dim with | 1 => "1D" | 2 => "2D" | _ => "3D"] := by
  cases k <;> rfl

theorem linearSourceTerm_classes_eq : Gen.AvgGen.linearSourceTerm_classes =
      [("1D", [.cart1, .cyl1, .sph1]), ("2D", [.cart2, .cyl2, .pol2]), ("3D", [.cart3, .cyl3, .sph3])] := rfl

theorem linearSourceTerm_family (k : Kind) :
    ((Gen.AvgGen.linearSourceTerm_classes.filter (fun r => r.2.contains k)).map Prod.fst)
      = [match k.dim with | 1 => "1D" | 2 => "2D" | _ => "3D"] := by
  cases k <;> rfl

theorem transientTerm_classes_eq : Gen.AvgGen.transientTerm_classes =
      [("1D", [.cart1, .cyl1, .sph1]), ("2D", [.cart2, .cyl2, .pol2]), ("3D", [.cart3, .cyl3, .sph3])] := rfl

theorem transientTerm_family (k : Kind) :
    ((Gen.AvgGen.transientTerm_classes.filter (fun r => r.2.contains k)).map Prod.fst)
      = [match k.dim with | 1 => "1D" | 2 => "2D" | _ => "3D"] := by
  cases k <;> rfl

theorem gradientTerm_classes_eq : Gen.AvgGen.gradientTerm_classes =
      [("1D", [.cart1, .cyl1, .sph1]), ("2D", [.cart2, .cyl2]), ("Polar2D", [.pol2]), ("3D", [.cart3]),
       ("Cylindrical3D", [.cyl3]), ("Spherical3D", [.sph3])] := rfl

theorem gradientTerm_family (k : Kind) :
    ((Gen.AvgGen.gradientTerm_classes.filter (fun r => r.2.contains k)).map Prod.fst)
      = [match k with
         | .cart1 | .cyl1 | .sph1 => "1D" | .cart2 | .cyl2 => "2D" | .pol2 => "Polar2D"
         | .cart3 => "3D" | .cyl3 => "Cylindrical3D" | .sph3 => "Spherical3D"] := by
  cases k <;> rfl

theorem gradientTermFixedBC_classes_eq : Gen.AvgGen.gradientTermFixedBC_classes =
      [("1D", [.cart1, .cyl1, .sph1]), ("2D", [.cart2, .cyl2]), ("Polar2D", [.pol2]), ("3D", [.cart3]),
       ("Cylindrical3D", [.cyl3]), ("Spherical3D", [.sph3])] := rfl

theorem gradientTermFixedBC_family (k : Kind) :
    ((Gen.AvgGen.gradientTermFixedBC_classes.filter (fun r => r.2.contains k)).map Prod.fst)
      = [match k with
         | .cart1 | .cyl1 | .sph1 => "1D" | .cart2 | .cyl2 => "2D" | .pol2 => "Polar2D"
         | .cart3 => "3D" | .cyl3 => "Cylindrical3D" | .sph3 => "Spherical3D"] := by
  cases k <;> rfl

/-! ### averaging.py: `cell_size_array` (views of `cellsize._x|_y|_z` with broadcast dimensions) -/

theorem cell_size_array_x_1D_eq (M : Mesh α) (p : ℕ) :
    Gen.AvgGen.cell_size_array_x_1D M p = (M.axis .x).DX p := by
  first | rfl | (simp only [Gen.AvgGen.cell_size_array_x_1D, constSrcRHS, linearSrcRow, transientRow, transientRHS, St7.diag, St7.mk.injEq, Mesh.axis] <;> (try and_intros) <;> geq_ring)

theorem cell_size_array_x_2D_eq (M : Mesh α) (p : ℕ) :
    Gen.AvgGen.cell_size_array_x_2D M p = (M.axis .x).DX p := by
  first | rfl | (simp only [Gen.AvgGen.cell_size_array_x_2D, constSrcRHS, linearSrcRow, transientRow, transientRHS, St7.diag, St7.mk.injEq, Mesh.axis] <;> (try and_intros) <;> geq_ring)

theorem cell_size_array_y_2D_eq (M : Mesh α) (p : ℕ) :
    Gen.AvgGen.cell_size_array_y_2D M p = (M.axis .y).DX p := by
  first | rfl | (simp only [Gen.AvgGen.cell_size_array_y_2D, constSrcRHS, linearSrcRow, transientRow, transientRHS, St7.diag, St7.mk.injEq, Mesh.axis] <;> (try and_intros) <;> geq_ring)

theorem cell_size_array_x_3D_eq (M : Mesh α) (p : ℕ) :
    Gen.AvgGen.cell_size_array_x_3D M p = (M.axis .x).DX p := by
  first | rfl | (simp only [Gen.AvgGen.cell_size_array_x_3D, constSrcRHS, linearSrcRow, transientRow, transientRHS, St7.diag, St7.mk.injEq, Mesh.axis] <;> (try and_intros) <;> geq_ring)

theorem cell_size_array_y_3D_eq (M : Mesh α) (p : ℕ) :
    Gen.AvgGen.cell_size_array_y_3D M p = (M.axis .y).DX p := by
  first | rfl | (simp only [Gen.AvgGen.cell_size_array_y_3D, constSrcRHS, linearSrcRow, transientRow, transientRHS, St7.diag, St7.mk.injEq, Mesh.axis] <;> (try and_intros) <;> geq_ring)

theorem cell_size_array_z_3D_eq (M : Mesh α) (p : ℕ) :
    Gen.AvgGen.cell_size_array_z_3D M p = (M.axis .z).DX p := by
  first | rfl | (simp only [Gen.AvgGen.cell_size_array_z_3D, constSrcRHS, linearSrcRow, transientRow, transientRHS, St7.diag, St7.mk.injEq, Mesh.axis] <;> (try and_intros) <;> geq_ring)

theorem cell_size_array_shapes_eq : Gen.AvgGen.cell_size_array_shapes =
    [("cell_size_array_x_1D", "(Nx+2)"),
     ("cell_size_array_x_2D", "(Nx+2, 1)"), ("cell_size_array_y_2D", "(1, Ny+2)"),
     ("cell_size_array_x_3D", "(Nx+2, 1, 1)"), ("cell_size_array_y_3D", "(1, Ny+2, 1)"),
     ("cell_size_array_z_3D", "(1, 1, Nz+2)")] := rfl

/-! ### averaging.py: `linearMean` = `linMean` (no hypothesis) -/

theorem linearMean_x_1D_eq (M : Mesh α) (φ : CellFld α) (i j k : ℕ) :
    Gen.AvgGen.linearMean_x_1D M φ i j k = linMean M φ .x (i, 1, 1) := by
  simp only [Gen.AvgGen.linearMean_x_1D, linMean, Mesh.axis, Idx.get, Idx.next, Idx.prev, Idx.set]
  first | done | geq_ring

theorem linearMean_x_2D_eq (M : Mesh α) (φ : CellFld α) (i j k : ℕ) :
    Gen.AvgGen.linearMean_x_2D M φ i j k = linMean M φ .x (i, j+1, 1) := by
  simp only [Gen.AvgGen.linearMean_x_2D, linMean, Mesh.axis, Idx.get, Idx.next, Idx.prev, Idx.set]
  first | done | geq_ring

theorem linearMean_y_2D_eq (M : Mesh α) (φ : CellFld α) (i j k : ℕ) :
    Gen.AvgGen.linearMean_y_2D M φ i j k = linMean M φ .y (i+1, j, 1) := by
  simp only [Gen.AvgGen.linearMean_y_2D, linMean, Mesh.axis, Idx.get, Idx.next, Idx.prev, Idx.set]
  first | done | geq_ring

theorem linearMean_x_3D_eq (M : Mesh α) (φ : CellFld α) (i j k : ℕ) :
    Gen.AvgGen.linearMean_x_3D M φ i j k = linMean M φ .x (i, j+1, k+1) := by
  simp only [Gen.AvgGen.linearMean_x_3D, linMean, Mesh.axis, Idx.get, Idx.next, Idx.prev, Idx.set]
  first | done | geq_ring

theorem linearMean_y_3D_eq (M : Mesh α) (φ : CellFld α) (i j k : ℕ) :
    Gen.AvgGen.linearMean_y_3D M φ i j k = linMean M φ .y (i+1, j, k+1) := by
  simp only [Gen.AvgGen.linearMean_y_3D, linMean, Mesh.axis, Idx.get, Idx.next, Idx.prev, Idx.set]
  first | done | geq_ring

theorem linearMean_z_3D_eq (M : Mesh α) (φ : CellFld α) (i j k : ℕ) :
    Gen.AvgGen.linearMean_z_3D M φ i j k = linMean M φ .z (i+1, j+1, k) := by
  simp only [Gen.AvgGen.linearMean_z_3D, linMean, Mesh.axis, Idx.get, Idx.next, Idx.prev, Idx.set]
  first | done | geq_ring

/-! ### averaging.py: `arithmeticMean` = `arithMean` (no hypothesis) -/

theorem arithmeticMean_x_1D_eq (M : Mesh α) (φ : CellFld α) (i j k : ℕ) :
    Gen.AvgGen.arithmeticMean_x_1D M φ i j k = arithMean M φ .x (i, 1, 1) := by
  simp only [Gen.AvgGen.arithmeticMean_x_1D, arithMean, amean2, Mesh.axis, Idx.get, Idx.next, Idx.prev, Idx.set]
  first | done | geq_ring

theorem arithmeticMean_x_2D_eq (M : Mesh α) (φ : CellFld α) (i j k : ℕ) :
    Gen.AvgGen.arithmeticMean_x_2D M φ i j k = arithMean M φ .x (i, j+1, 1) := by
  simp only [Gen.AvgGen.arithmeticMean_x_2D, arithMean, amean2, Mesh.axis, Idx.get, Idx.next, Idx.prev, Idx.set]
  first | done | geq_ring

theorem arithmeticMean_y_2D_eq (M : Mesh α) (φ : CellFld α) (i j k : ℕ) :
    Gen.AvgGen.arithmeticMean_y_2D M φ i j k = arithMean M φ .y (i+1, j, 1) := by
  simp only [Gen.AvgGen.arithmeticMean_y_2D, arithMean, amean2, Mesh.axis, Idx.get, Idx.next, Idx.prev, Idx.set]
  first | done | geq_ring

theorem arithmeticMean_x_3D_eq (M : Mesh α) (φ : CellFld α) (i j k : ℕ) :
    Gen.AvgGen.arithmeticMean_x_3D M φ i j k = arithMean M φ .x (i, j+1, k+1) := by
  simp only [Gen.AvgGen.arithmeticMean_x_3D, arithMean, amean2, Mesh.axis, Idx.get, Idx.next, Idx.prev, Idx.set]
  first | done | geq_ring

theorem arithmeticMean_y_3D_eq (M : Mesh α) (φ : CellFld α) (i j k : ℕ) :
    Gen.AvgGen.arithmeticMean_y_3D M φ i j k = arithMean M φ .y (i+1, j, k+1) := by
  simp only [Gen.AvgGen.arithmeticMean_y_3D, arithMean, amean2, Mesh.axis, Idx.get, Idx.next, Idx.prev, Idx.set]
  first | done | geq_ring

theorem arithmeticMean_z_3D_eq (M : Mesh α) (φ : CellFld α) (i j k : ℕ) :
    Gen.AvgGen.arithmeticMean_z_3D M φ i j k = arithMean M φ .z (i+1, j+1, k) := by
  simp only [Gen.AvgGen.arithmeticMean_z_3D, arithMean, amean2, Mesh.axis, Idx.get, Idx.next, Idx.prev, Idx.set]
  first | done | geq_ring

/-! ### averaging.py: `harmonicMean` = `harmMean`
    1-D: the scalar loop (vectorised by the translator; loop range = the whole array, checked); 2-D / 3-D: `_harmonic_face`
    with its two `np.where`.  The proofs (`harm_of_some`, `harm_eq` of PyFV/Lemmas/HarmForms.lean) do not depend on
    WHICH of the two equal algebraic forms (quotient `(a+b)/(a/q+b/p)`, product `q p (a+b)/(a p+b q)`) a branch of the
    source uses, on the operand order of its zero test, or on the `np.where(zero, 1.0, ..)` guard of the divisor. -/

/-- the model has a value ⇒ it is the generated one -/
theorem harmonicMean_x_1D_of_some (M : Mesh α) (hk : M.kind.dim = 1) (φ : CellFld α) (i j k : ℕ) (v : α)
    (hv : harmMean M φ .x (i, 1, 1) = some v) : Gen.AvgGen.harmonicMean_x_1D M φ i j k = v := by
  simp only [Gen.AvgGen.harmonicMean_x_1D, harmMean, sdiv, hk, Mesh.axis, Idx.get, Idx.next, Idx.prev, Idx.set] at hv ⊢
  harm_of_some (φ (i, 1, 1)) (φ (i+1, 1, 1)) (M.ax.DX (i+1)) (M.ax.DX i) hv

/-- a zero neighbour, or a non-vanishing divisor ⇒ the model's value is the generated one -/
theorem harmonicMean_x_1D_eq (M : Mesh α) (hk : M.kind.dim = 1) (φ : CellFld α) (i j k : ℕ)
    (h : φ (i, 1, 1) = 0 ∨ φ (i+1, 1, 1) = 0 ∨ M.ax.DX (i+1) / φ (i+1, 1, 1) + M.ax.DX i / φ (i, 1, 1) ≠ 0) :
    harmMean M φ .x (i, 1, 1) = some (Gen.AvgGen.harmonicMean_x_1D M φ i j k) := by
  simp only [Gen.AvgGen.harmonicMean_x_1D, harmMean, sdiv, hk, Mesh.axis, Idx.get, Idx.next, Idx.prev, Idx.set]
  harm_eq (φ (i, 1, 1)) (φ (i+1, 1, 1)) (M.ax.DX (i+1)) (M.ax.DX i) h

/-- the model has a value ⇒ it is the generated one -/
theorem harmonicMean_x_2D_of_some (M : Mesh α) (hk : M.kind.dim ≠ 1) (φ : CellFld α) (i j k : ℕ) (v : α)
    (hv : harmMean M φ .x (i, j+1, 1) = some v) : Gen.AvgGen.harmonicMean_x_2D M φ i j k = v := by
  simp only [Gen.AvgGen.harmonicMean_x_2D, harmMean, sdiv, hk, Mesh.axis, Idx.get, Idx.next, Idx.prev, Idx.set] at hv ⊢
  harm_of_some (φ (i, j+1, 1)) (φ (i+1, j+1, 1)) (M.ax.DX (i+1)) (M.ax.DX i) hv

/-- a zero neighbour, or a non-vanishing divisor ⇒ the model's value is the generated one -/
theorem harmonicMean_x_2D_eq (M : Mesh α) (hk : M.kind.dim ≠ 1) (φ : CellFld α) (i j k : ℕ)
    (h : φ (i, j+1, 1) = 0 ∨ φ (i+1, j+1, 1) = 0 ∨ M.ax.DX (i+1) * φ (i, j+1, 1) + M.ax.DX i * φ (i+1, j+1, 1) ≠ 0) :
    harmMean M φ .x (i, j+1, 1) = some (Gen.AvgGen.harmonicMean_x_2D M φ i j k) := by
  simp only [Gen.AvgGen.harmonicMean_x_2D, harmMean, sdiv, hk, Mesh.axis, Idx.get, Idx.next, Idx.prev, Idx.set]
  harm_eq (φ (i, j+1, 1)) (φ (i+1, j+1, 1)) (M.ax.DX (i+1)) (M.ax.DX i) h

/-- the model has a value ⇒ it is the generated one -/
theorem harmonicMean_y_2D_of_some (M : Mesh α) (hk : M.kind.dim ≠ 1) (φ : CellFld α) (i j k : ℕ) (v : α)
    (hv : harmMean M φ .y (i+1, j, 1) = some v) : Gen.AvgGen.harmonicMean_y_2D M φ i j k = v := by
  simp only [Gen.AvgGen.harmonicMean_y_2D, harmMean, sdiv, hk, Mesh.axis, Idx.get, Idx.next, Idx.prev, Idx.set] at hv ⊢
  harm_of_some (φ (i+1, j, 1)) (φ (i+1, j+1, 1)) (M.ay.DX (j+1)) (M.ay.DX j) hv

/-- a zero neighbour, or a non-vanishing divisor ⇒ the model's value is the generated one -/
theorem harmonicMean_y_2D_eq (M : Mesh α) (hk : M.kind.dim ≠ 1) (φ : CellFld α) (i j k : ℕ)
    (h : φ (i+1, j, 1) = 0 ∨ φ (i+1, j+1, 1) = 0 ∨ M.ay.DX (j+1) * φ (i+1, j, 1) + M.ay.DX j * φ (i+1, j+1, 1) ≠ 0) :
    harmMean M φ .y (i+1, j, 1) = some (Gen.AvgGen.harmonicMean_y_2D M φ i j k) := by
  simp only [Gen.AvgGen.harmonicMean_y_2D, harmMean, sdiv, hk, Mesh.axis, Idx.get, Idx.next, Idx.prev, Idx.set]
  harm_eq (φ (i+1, j, 1)) (φ (i+1, j+1, 1)) (M.ay.DX (j+1)) (M.ay.DX j) h

/-- the model has a value ⇒ it is the generated one -/
theorem harmonicMean_x_3D_of_some (M : Mesh α) (hk : M.kind.dim ≠ 1) (φ : CellFld α) (i j k : ℕ) (v : α)
    (hv : harmMean M φ .x (i, j+1, k+1) = some v) : Gen.AvgGen.harmonicMean_x_3D M φ i j k = v := by
  simp only [Gen.AvgGen.harmonicMean_x_3D, harmMean, sdiv, hk, Mesh.axis, Idx.get, Idx.next, Idx.prev, Idx.set] at hv ⊢
  harm_of_some (φ (i, j+1, k+1)) (φ (i+1, j+1, k+1)) (M.ax.DX (i+1)) (M.ax.DX i) hv

/-- a zero neighbour, or a non-vanishing divisor ⇒ the model's value is the generated one -/
theorem harmonicMean_x_3D_eq (M : Mesh α) (hk : M.kind.dim ≠ 1) (φ : CellFld α) (i j k : ℕ)
    (h : φ (i, j+1, k+1) = 0 ∨ φ (i+1, j+1, k+1) = 0 ∨ M.ax.DX (i+1) * φ (i, j+1, k+1) + M.ax.DX i * φ (i+1, j+1, k+1) ≠ 0) :
    harmMean M φ .x (i, j+1, k+1) = some (Gen.AvgGen.harmonicMean_x_3D M φ i j k) := by
  simp only [Gen.AvgGen.harmonicMean_x_3D, harmMean, sdiv, hk, Mesh.axis, Idx.get, Idx.next, Idx.prev, Idx.set]
  harm_eq (φ (i, j+1, k+1)) (φ (i+1, j+1, k+1)) (M.ax.DX (i+1)) (M.ax.DX i) h

/-- the model has a value ⇒ it is the generated one -/
theorem harmonicMean_y_3D_of_some (M : Mesh α) (hk : M.kind.dim ≠ 1) (φ : CellFld α) (i j k : ℕ) (v : α)
    (hv : harmMean M φ .y (i+1, j, k+1) = some v) : Gen.AvgGen.harmonicMean_y_3D M φ i j k = v := by
  simp only [Gen.AvgGen.harmonicMean_y_3D, harmMean, sdiv, hk, Mesh.axis, Idx.get, Idx.next, Idx.prev, Idx.set] at hv ⊢
  harm_of_some (φ (i+1, j, k+1)) (φ (i+1, j+1, k+1)) (M.ay.DX (j+1)) (M.ay.DX j) hv

/-- a zero neighbour, or a non-vanishing divisor ⇒ the model's value is the generated one -/
theorem harmonicMean_y_3D_eq (M : Mesh α) (hk : M.kind.dim ≠ 1) (φ : CellFld α) (i j k : ℕ)
    (h : φ (i+1, j, k+1) = 0 ∨ φ (i+1, j+1, k+1) = 0 ∨ M.ay.DX (j+1) * φ (i+1, j, k+1) + M.ay.DX j * φ (i+1, j+1, k+1) ≠ 0) :
    harmMean M φ .y (i+1, j, k+1) = some (Gen.AvgGen.harmonicMean_y_3D M φ i j k) := by
  simp only [Gen.AvgGen.harmonicMean_y_3D, harmMean, sdiv, hk, Mesh.axis, Idx.get, Idx.next, Idx.prev, Idx.set]
  harm_eq (φ (i+1, j, k+1)) (φ (i+1, j+1, k+1)) (M.ay.DX (j+1)) (M.ay.DX j) h

/-- the model has a value ⇒ it is the generated one -/
theorem harmonicMean_z_3D_of_some (M : Mesh α) (hk : M.kind.dim ≠ 1) (φ : CellFld α) (i j k : ℕ) (v : α)
    (hv : harmMean M φ .z (i+1, j+1, k) = some v) : Gen.AvgGen.harmonicMean_z_3D M φ i j k = v := by
  simp only [Gen.AvgGen.harmonicMean_z_3D, harmMean, sdiv, hk, Mesh.axis, Idx.get, Idx.next, Idx.prev, Idx.set] at hv ⊢
  harm_of_some (φ (i+1, j+1, k)) (φ (i+1, j+1, k+1)) (M.az.DX (k+1)) (M.az.DX k) hv

/-- a zero neighbour, or a non-vanishing divisor ⇒ the model's value is the generated one -/
theorem harmonicMean_z_3D_eq (M : Mesh α) (hk : M.kind.dim ≠ 1) (φ : CellFld α) (i j k : ℕ)
    (h : φ (i+1, j+1, k) = 0 ∨ φ (i+1, j+1, k+1) = 0 ∨ M.az.DX (k+1) * φ (i+1, j+1, k) + M.az.DX k * φ (i+1, j+1, k+1) ≠ 0) :
    harmMean M φ .z (i+1, j+1, k) = some (Gen.AvgGen.harmonicMean_z_3D M φ i j k) := by
  simp only [Gen.AvgGen.harmonicMean_z_3D, harmMean, sdiv, hk, Mesh.axis, Idx.get, Idx.next, Idx.prev, Idx.set]
  harm_eq (φ (i+1, j+1, k)) (φ (i+1, j+1, k+1)) (M.az.DX (k+1)) (M.az.DX k) h

/-- the hypothesis of `harmonicMean_x_1D_eq` is necessary: neighbours 1 and −1 of equal width make the divisor of the
    loop formula vanish; the model has no value there (numpy: division by zero), the generated field expression is 0 -/
theorem harmonicMean_x_1D_needs_den :
    ∃ (M : Mesh ℚ) (φ : CellFld ℚ), M.kind.dim = 1 ∧ M.WF ∧ φ (0, 1, 1) ≠ 0 ∧ φ (1, 1, 1) ≠ 0 ∧
      harmMean M φ .x (0, 1, 1) = none ∧
      harmMean M φ .x (0, 1, 1) ≠ some (Gen.AvgGen.harmonicMean_x_1D M φ 0 0 0) := by
  refine ⟨Examples.mesh .cart1, fun c => if c.1 = 0 then 1 else -1, rfl, Examples.mesh_WF _, by decide, by decide, ?_, ?_⟩
  · decide +kernel
  · decide +kernel

/-- … and the N-D one likewise -/
theorem harmonicMean_x_2D_needs_den :
    ∃ (M : Mesh ℚ) (φ : CellFld ℚ), M.kind.dim ≠ 1 ∧ M.WF ∧ φ (0, 1, 1) ≠ 0 ∧ φ (1, 1, 1) ≠ 0 ∧
      harmMean M φ .x (0, 1, 1) = none ∧
      harmMean M φ .x (0, 1, 1) ≠ some (Gen.AvgGen.harmonicMean_x_2D M φ 0 0 0) := by
  refine ⟨Examples.mesh .cart2, fun c => if c.1 = 0 then 1 else -1, by decide, Examples.mesh_WF _, by decide, by decide, ?_, ?_⟩
  · decide +kernel
  · decide +kernel

/-- the hypotheses are satisfiable: positive data on the example meshes (1-D classes) -/
example (k : Kind) (hk : k.dim = 1) (φ : CellFld ℚ) (hφ : ∀ c, 0 < φ c) (i : ℕ) :
    harmMean (Examples.mesh k) φ .x (i, 1, 1) = some (Gen.AvgGen.harmonicMean_x_1D (Examples.mesh k) φ i 0 0) := by
  refine harmonicMean_x_1D_eq _ hk φ i 0 0 (Or.inr (Or.inr (ne_of_gt ?_)))
  have w := (Examples.mesh_WF k).wx.pos
  exact add_pos (div_pos (w _) (hφ _)) (div_pos (w _) (hφ _))

/-- … and on the 2-D / 3-D classes -/
example (k : Kind) (hk : k.dim ≠ 1) (φ : CellFld ℚ) (hφ : ∀ c, 0 < φ c) (i j : ℕ) :
    harmMean (Examples.mesh k) φ .x (i, j+1, 1) = some (Gen.AvgGen.harmonicMean_x_2D (Examples.mesh k) φ i j 0) := by
  refine harmonicMean_x_2D_eq _ hk φ i j 0 (Or.inr (Or.inr (ne_of_gt ?_)))
  have w := (Examples.mesh_WF k).wx.pos
  exact add_pos (mul_pos (w _) (hφ _)) (mul_pos (w _) (hφ _))

/-! ### averaging.py: `geometricMean` = `geoMean expF logF` (np.exp, np.log uninterpreted) -/

theorem geometricMean_x_1D_eq (expF logF : α → α) (M : Mesh α) (φ : CellFld α) (i j k : ℕ) :
    Gen.AvgGen.geometricMean_x_1D expF logF M φ i j k = geoMean expF logF M φ .x (i, 1, 1) := by
  first
  | rfl
  | (simp only [Gen.AvgGen.geometricMean_x_1D, geoMean, Mesh.axis, Idx.get, Idx.next, Idx.prev, Idx.set]
     split_ifs <;> first
       | rfl
       | (simp_all <;> done)
       | (simp only [*, if_false, if_true, ↓reduceIte] <;> first | geq_ring | (congr 1 <;> geq_ring)))

theorem geometricMean_x_2D_eq (expF logF : α → α) (M : Mesh α) (φ : CellFld α) (i j k : ℕ)
    (h0 : φ (i, j+1, 1) ≠ 0) (h1 : φ (i+1, j+1, 1) ≠ 0) :
    Gen.AvgGen.geometricMean_x_2D expF logF M φ i j k = geoMean expF logF M φ .x (i, j+1, 1) := by
  simp only [Gen.AvgGen.geometricMean_x_2D, geoMean, Mesh.axis, Idx.get, Idx.next, Idx.prev, Idx.set, h0, h1, or_self, if_false]
  first | done | (congr 1; geq_ring)

theorem geometricMean_y_2D_eq (expF logF : α → α) (M : Mesh α) (φ : CellFld α) (i j k : ℕ)
    (h0 : φ (i+1, j, 1) ≠ 0) (h1 : φ (i+1, j+1, 1) ≠ 0) :
    Gen.AvgGen.geometricMean_y_2D expF logF M φ i j k = geoMean expF logF M φ .y (i+1, j, 1) := by
  simp only [Gen.AvgGen.geometricMean_y_2D, geoMean, Mesh.axis, Idx.get, Idx.next, Idx.prev, Idx.set, h0, h1, or_self, if_false]
  first | done | (congr 1; geq_ring)

theorem geometricMean_x_3D_eq (expF logF : α → α) (M : Mesh α) (φ : CellFld α) (i j k : ℕ)
    (h0 : φ (i, j+1, k+1) ≠ 0) (h1 : φ (i+1, j+1, k+1) ≠ 0) :
    Gen.AvgGen.geometricMean_x_3D expF logF M φ i j k = geoMean expF logF M φ .x (i, j+1, k+1) := by
  simp only [Gen.AvgGen.geometricMean_x_3D, geoMean, Mesh.axis, Idx.get, Idx.next, Idx.prev, Idx.set, h0, h1, or_self, if_false]
  first | done | (congr 1; geq_ring)

theorem geometricMean_y_3D_eq (expF logF : α → α) (M : Mesh α) (φ : CellFld α) (i j k : ℕ)
    (h0 : φ (i+1, j, k+1) ≠ 0) (h1 : φ (i+1, j+1, k+1) ≠ 0) :
    Gen.AvgGen.geometricMean_y_3D expF logF M φ i j k = geoMean expF logF M φ .y (i+1, j, k+1) := by
  simp only [Gen.AvgGen.geometricMean_y_3D, geoMean, Mesh.axis, Idx.get, Idx.next, Idx.prev, Idx.set, h0, h1, or_self, if_false]
  first | done | (congr 1; geq_ring)

theorem geometricMean_z_3D_eq (expF logF : α → α) (M : Mesh α) (φ : CellFld α) (i j k : ℕ)
    (h0 : φ (i+1, j+1, k) ≠ 0) (h1 : φ (i+1, j+1, k+1) ≠ 0) :
    Gen.AvgGen.geometricMean_z_3D expF logF M φ i j k = geoMean expF logF M φ .z (i+1, j+1, k) := by
  simp only [Gen.AvgGen.geometricMean_z_3D, geoMean, Mesh.axis, Idx.get, Idx.next, Idx.prev, Idx.set, h0, h1, or_self, if_false]
  first | done | (congr 1; geq_ring)

/-- the N-D code has no zero branch: with an `exp` that is not 0 "at log 0" the generated formula and the model
    differ on a zero neighbour (the model's branch stands for numpy's log 0 = −∞, exp(−∞) = 0) -/
theorem geometricMean_x_2D_needs_nonzero :
    ∃ (expF logF : ℚ → ℚ) (M : Mesh ℚ) (φ : CellFld ℚ), M.WF ∧
      Gen.AvgGen.geometricMean_x_2D expF logF M φ 0 0 0 ≠ geoMean expF logF M φ .x (0, 1, 1) := by
  refine ⟨fun _ => 1, fun x => x, Examples.mesh .cart2, fun _ => 0, Examples.mesh_WF _, ?_⟩
  simp [Gen.AvgGen.geometricMean_x_2D, geoMean]

example (k : Kind) (φ : CellFld ℚ) (hφ : ∀ c, 0 < φ c) (e l : ℚ → ℚ) (i j : ℕ) :
    Gen.AvgGen.geometricMean_x_2D e l (Examples.mesh k) φ i j 0 = geoMean e l (Examples.mesh k) φ .x (i, j+1, 1) :=
  geometricMean_x_2D_eq e l _ φ i j 0 (ne_of_gt (hφ _)) (ne_of_gt (hφ _))

/-! ### averaging.py: `upwindMean` = `upMean`
    (`phi_tmp = np.copy(phi._value)`, six in-place boundary assignments, `(u>0)*.. + (u<0)*.. + 0.5*(u==0)*..`) -/

theorem upwindMean_x_1D_eq (M : Mesh α) (φ : CellFld α) (u : FaceFld α) (i j k : ℕ) :
    Gen.AvgGen.upwindMean_x_1D M φ u i j k = upMean M φ u .x (i, 1, 1) := by
  simp only [Gen.AvgGen.upwindMean_x_1D, upMean, phiTmp, Mesh.n, Mesh.axis, Idx.get, Idx.next, Idx.prev, Idx.set,
    Nat.add_sub_cancel, Nat.add_eq_zero_iff, one_ne_zero, and_false, if_false, Nat.add_right_cancel_iff]
  obtain ⟨N, hN⟩ : ∃ N, M.ax.n = N := ⟨_, rfl⟩
  simp only [hN, ite_mul, one_mul, zero_mul, mul_ite, mul_one, mul_zero]
  by_cases h0 : i = 0
  · subst h0
    by_cases hN0 : N = 0
    · subst hN0
      simp only [Nat.zero_add, if_true, if_false, zero_add]
      split_ifs <;> first | contradiction | omega | geq_ring
    · simp only [Nat.zero_add, if_true, if_false, zero_add, (by omega : ¬ (0 = N + 1)), (by omega : ¬ (0 = N))]
      split_ifs <;> first | contradiction | omega | geq_ring
  by_cases h1 : i = N + 1
  · subst h1
    simp only [if_true, if_false, h0, Nat.add_sub_cancel, (by omega : ¬ (N + 1 = N))]
    split_ifs <;> first | contradiction | omega | geq_ring
  by_cases h2 : i = N
  · subst h2
    simp only [if_true, if_false, h0, h1]
    split_ifs <;> first | contradiction | omega | geq_ring
  simp only [if_false, h0, h1, h2]
  split_ifs <;> first | contradiction | omega | geq_ring

theorem upwindMean_x_2D_eq (M : Mesh α) (φ : CellFld α) (u : FaceFld α) (i j k : ℕ) (hj : j ≠ M.ay.n) :
    Gen.AvgGen.upwindMean_x_2D M φ u i j k = upMean M φ u .x (i, j+1, 1) := by
  simp only [Gen.AvgGen.upwindMean_x_2D, upMean, phiTmp, Mesh.n, Mesh.axis, Idx.get, Idx.next, Idx.prev, Idx.set,
    Nat.add_sub_cancel, Nat.add_eq_zero_iff, one_ne_zero, and_false, if_false, Nat.add_right_cancel_iff, hj]
  obtain ⟨N, hN⟩ : ∃ N, M.ax.n = N := ⟨_, rfl⟩
  simp only [hN, ite_mul, one_mul, zero_mul, mul_ite, mul_one, mul_zero]
  by_cases h0 : i = 0
  · subst h0
    by_cases hN0 : N = 0
    · subst hN0
      simp only [Nat.zero_add, if_true, if_false, zero_add]
      split_ifs <;> first | contradiction | omega | geq_ring
    · simp only [Nat.zero_add, if_true, if_false, zero_add, (by omega : ¬ (0 = N + 1)), (by omega : ¬ (0 = N))]
      split_ifs <;> first | contradiction | omega | geq_ring
  by_cases h1 : i = N + 1
  · subst h1
    simp only [if_true, if_false, h0, Nat.add_sub_cancel, (by omega : ¬ (N + 1 = N))]
    split_ifs <;> first | contradiction | omega | geq_ring
  by_cases h2 : i = N
  · subst h2
    simp only [if_true, if_false, h0, h1]
    split_ifs <;> first | contradiction | omega | geq_ring
  simp only [if_false, h0, h1, h2]
  split_ifs <;> first | contradiction | omega | geq_ring

theorem upwindMean_y_2D_eq (M : Mesh α) (φ : CellFld α) (u : FaceFld α) (i j k : ℕ) (hi : i ≠ M.ax.n) :
    Gen.AvgGen.upwindMean_y_2D M φ u i j k = upMean M φ u .y (i+1, j, 1) := by
  simp only [Gen.AvgGen.upwindMean_y_2D, upMean, phiTmp, Mesh.n, Mesh.axis, Idx.get, Idx.next, Idx.prev, Idx.set,
    Nat.add_sub_cancel, Nat.add_eq_zero_iff, one_ne_zero, and_false, if_false, Nat.add_right_cancel_iff, hi]
  obtain ⟨N, hN⟩ : ∃ N, M.ay.n = N := ⟨_, rfl⟩
  simp only [hN, ite_mul, one_mul, zero_mul, mul_ite, mul_one, mul_zero]
  by_cases h0 : j = 0
  · subst h0
    by_cases hN0 : N = 0
    · subst hN0
      simp only [Nat.zero_add, if_true, if_false, zero_add]
      split_ifs <;> first | contradiction | omega | geq_ring
    · simp only [Nat.zero_add, if_true, if_false, zero_add, (by omega : ¬ (0 = N + 1)), (by omega : ¬ (0 = N))]
      split_ifs <;> first | contradiction | omega | geq_ring
  by_cases h1 : j = N + 1
  · subst h1
    simp only [if_true, if_false, h0, Nat.add_sub_cancel, (by omega : ¬ (N + 1 = N))]
    split_ifs <;> first | contradiction | omega | geq_ring
  by_cases h2 : j = N
  · subst h2
    simp only [if_true, if_false, h0, h1]
    split_ifs <;> first | contradiction | omega | geq_ring
  simp only [if_false, h0, h1, h2]
  split_ifs <;> first | contradiction | omega | geq_ring

theorem upwindMean_x_3D_eq (M : Mesh α) (φ : CellFld α) (u : FaceFld α) (i j k : ℕ) (hj : j ≠ M.ay.n) (hk : k ≠ M.az.n) :
    Gen.AvgGen.upwindMean_x_3D M φ u i j k = upMean M φ u .x (i, j+1, k+1) := by
  simp only [Gen.AvgGen.upwindMean_x_3D, upMean, phiTmp, Mesh.n, Mesh.axis, Idx.get, Idx.next, Idx.prev, Idx.set,
    Nat.add_sub_cancel, Nat.add_eq_zero_iff, one_ne_zero, and_false, if_false, Nat.add_right_cancel_iff, hj, hk]
  obtain ⟨N, hN⟩ : ∃ N, M.ax.n = N := ⟨_, rfl⟩
  simp only [hN, ite_mul, one_mul, zero_mul, mul_ite, mul_one, mul_zero]
  by_cases h0 : i = 0
  · subst h0
    by_cases hN0 : N = 0
    · subst hN0
      simp only [Nat.zero_add, if_true, if_false, zero_add]
      split_ifs <;> first | contradiction | omega | geq_ring
    · simp only [Nat.zero_add, if_true, if_false, zero_add, (by omega : ¬ (0 = N + 1)), (by omega : ¬ (0 = N))]
      split_ifs <;> first | contradiction | omega | geq_ring
  by_cases h1 : i = N + 1
  · subst h1
    simp only [if_true, if_false, h0, Nat.add_sub_cancel, (by omega : ¬ (N + 1 = N))]
    split_ifs <;> first | contradiction | omega | geq_ring
  by_cases h2 : i = N
  · subst h2
    simp only [if_true, if_false, h0, h1]
    split_ifs <;> first | contradiction | omega | geq_ring
  simp only [if_false, h0, h1, h2]
  split_ifs <;> first | contradiction | omega | geq_ring

theorem upwindMean_y_3D_eq (M : Mesh α) (φ : CellFld α) (u : FaceFld α) (i j k : ℕ) (hi : i ≠ M.ax.n) (hk : k ≠ M.az.n) :
    Gen.AvgGen.upwindMean_y_3D M φ u i j k = upMean M φ u .y (i+1, j, k+1) := by
  simp only [Gen.AvgGen.upwindMean_y_3D, upMean, phiTmp, Mesh.n, Mesh.axis, Idx.get, Idx.next, Idx.prev, Idx.set,
    Nat.add_sub_cancel, Nat.add_eq_zero_iff, one_ne_zero, and_false, if_false, Nat.add_right_cancel_iff, hi, hk]
  obtain ⟨N, hN⟩ : ∃ N, M.ay.n = N := ⟨_, rfl⟩
  simp only [hN, ite_mul, one_mul, zero_mul, mul_ite, mul_one, mul_zero]
  by_cases h0 : j = 0
  · subst h0
    by_cases hN0 : N = 0
    · subst hN0
      simp only [Nat.zero_add, if_true, if_false, zero_add]
      split_ifs <;> first | contradiction | omega | geq_ring
    · simp only [Nat.zero_add, if_true, if_false, zero_add, (by omega : ¬ (0 = N + 1)), (by omega : ¬ (0 = N))]
      split_ifs <;> first | contradiction | omega | geq_ring
  by_cases h1 : j = N + 1
  · subst h1
    simp only [if_true, if_false, h0, Nat.add_sub_cancel, (by omega : ¬ (N + 1 = N))]
    split_ifs <;> first | contradiction | omega | geq_ring
  by_cases h2 : j = N
  · subst h2
    simp only [if_true, if_false, h0, h1]
    split_ifs <;> first | contradiction | omega | geq_ring
  simp only [if_false, h0, h1, h2]
  split_ifs <;> first | contradiction | omega | geq_ring

theorem upwindMean_z_3D_eq (M : Mesh α) (φ : CellFld α) (u : FaceFld α) (i j k : ℕ) (hi : i ≠ M.ax.n) (hj : j ≠ M.ay.n) :
    Gen.AvgGen.upwindMean_z_3D M φ u i j k = upMean M φ u .z (i+1, j+1, k) := by
  simp only [Gen.AvgGen.upwindMean_z_3D, upMean, phiTmp, Mesh.n, Mesh.axis, Idx.get, Idx.next, Idx.prev, Idx.set,
    Nat.add_sub_cancel, Nat.add_eq_zero_iff, one_ne_zero, and_false, if_false, Nat.add_right_cancel_iff, hi, hj]
  obtain ⟨N, hN⟩ : ∃ N, M.az.n = N := ⟨_, rfl⟩
  simp only [hN, ite_mul, one_mul, zero_mul, mul_ite, mul_one, mul_zero]
  by_cases h0 : k = 0
  · subst h0
    by_cases hN0 : N = 0
    · subst hN0
      simp only [Nat.zero_add, if_true, if_false, zero_add]
      split_ifs <;> first | contradiction | omega | geq_ring
    · simp only [Nat.zero_add, if_true, if_false, zero_add, (by omega : ¬ (0 = N + 1)), (by omega : ¬ (0 = N))]
      split_ifs <;> first | contradiction | omega | geq_ring
  by_cases h1 : k = N + 1
  · subst h1
    simp only [if_true, if_false, h0, Nat.add_sub_cancel, (by omega : ¬ (N + 1 = N))]
    split_ifs <;> first | contradiction | omega | geq_ring
  by_cases h2 : k = N
  · subst h2
    simp only [if_true, if_false, h0, h1]
    split_ifs <;> first | contradiction | omega | geq_ring
  simp only [if_false, h0, h1, h2]
  split_ifs <;> first | contradiction | omega | geq_ring

/-- the cross bound is necessary: at the cross position `j = M.ay.n` (outside the x-face array) the generated formula
    reads the overwritten top ghost layer of `phi_tmp`, the model the cell value -/
theorem upwindMean_x_2D_needs_bound :
    ∃ (M : Mesh ℚ) (φ : CellFld ℚ) (u : FaceFld ℚ) (i j : ℕ), M.kind = .cart2 ∧ M.WF ∧ j = M.ay.n ∧
      Gen.AvgGen.upwindMean_x_2D M φ u i j 0 ≠ upMean M φ u .x (i, j+1, 1) := by
  refine ⟨Examples.mesh .cart2, fun c => if c.2.1 = 4 then 1 else 0, fun _ _ => 1, 1, 3, rfl, Examples.mesh_WF _, rfl, ?_⟩
  decide +kernel

example (φ : CellFld ℚ) (u : FaceFld ℚ) (i : ℕ) :
    Gen.AvgGen.upwindMean_x_2D (Examples.mesh .pol2) φ u i 2 0 = upMean (Examples.mesh .pol2) φ u .x (i, 3, 1) :=
  upwindMean_x_2D_eq _ φ u i 2 0 (by decide)

/-! ### calculus.py: `gradientTerm` = `gradD` (metric factors `1/r`, `1/(r sin θ)` of the angular directions) -/

theorem gradientTerm_x_1D_eq (M : Mesh α) (φ : CellFld α) (i j k : ℕ) :
    Gen.AvgGen.gradientTerm_x_1D M φ i j k = gradD M φ .x (i, 1, 1) := by
  have hm : lineM M .x (i, 1, 1) = 1 := by unfold lineM; cases M.kind <;> rfl
  simp only [Gen.AvgGen.gradientTerm_x_1D, gradD, hm, Axis.dxf, Mesh.axis, Idx.get, Idx.next, Idx.prev, Idx.set]
  geq_ring

theorem gradientTerm_x_2D_eq (M : Mesh α) (φ : CellFld α) (i j k : ℕ) :
    Gen.AvgGen.gradientTerm_x_2D M φ i j k = gradD M φ .x (i, j+1, 1) := by
  have hm : lineM M .x (i, j+1, 1) = 1 := by unfold lineM; cases M.kind <;> rfl
  simp only [Gen.AvgGen.gradientTerm_x_2D, gradD, hm, Axis.dxf, Mesh.axis, Idx.get, Idx.next, Idx.prev, Idx.set]
  geq_ring

theorem gradientTerm_y_2D_eq (M : Mesh α) (hk : M.kind = .cart2 ∨ M.kind = .cyl2) (φ : CellFld α) (i j k : ℕ) :
    Gen.AvgGen.gradientTerm_y_2D M φ i j k = gradD M φ .y (i+1, j, 1) := by
  rcases hk with hk | hk <;>
  · simp only [Gen.AvgGen.gradientTerm_y_2D, gradD, lineM, hk, Axis.dxf, Mesh.axis, Idx.get, Idx.next, Idx.prev, Idx.set]
    geq_ring

theorem gradientTerm_x_Polar2D_eq (M : Mesh α) (φ : CellFld α) (i j k : ℕ) :
    Gen.AvgGen.gradientTerm_x_Polar2D M φ i j k = gradD M φ .x (i, j+1, 1) := by
  have hm : lineM M .x (i, j+1, 1) = 1 := by unfold lineM; cases M.kind <;> rfl
  simp only [Gen.AvgGen.gradientTerm_x_Polar2D, gradD, hm, Axis.dxf, Mesh.axis, Idx.get, Idx.next, Idx.prev, Idx.set]
  geq_ring

theorem gradientTerm_y_Polar2D_eq (M : Mesh α) (hk : M.kind = .pol2) (φ : CellFld α) (i j k : ℕ) :
    Gen.AvgGen.gradientTerm_y_Polar2D M φ i j k = gradD M φ .y (i+1, j, 1) := by
  simp only [Gen.AvgGen.gradientTerm_y_Polar2D, gradD, lineM, hk, Axis.dxf, Mesh.axis, Idx.get, Idx.next, Idx.prev, Idx.set]
  geq_ring

theorem gradientTerm_x_3D_eq (M : Mesh α) (φ : CellFld α) (i j k : ℕ) :
    Gen.AvgGen.gradientTerm_x_3D M φ i j k = gradD M φ .x (i, j+1, k+1) := by
  have hm : lineM M .x (i, j+1, k+1) = 1 := by unfold lineM; cases M.kind <;> rfl
  simp only [Gen.AvgGen.gradientTerm_x_3D, gradD, hm, Axis.dxf, Mesh.axis, Idx.get, Idx.next, Idx.prev, Idx.set]
  geq_ring

theorem gradientTerm_y_3D_eq (M : Mesh α) (hk : M.kind = .cart3) (φ : CellFld α) (i j k : ℕ) :
    Gen.AvgGen.gradientTerm_y_3D M φ i j k = gradD M φ .y (i+1, j, k+1) := by
  simp only [Gen.AvgGen.gradientTerm_y_3D, gradD, lineM, hk, Axis.dxf, Mesh.axis, Idx.get, Idx.next, Idx.prev, Idx.set]
  geq_ring

theorem gradientTerm_z_3D_eq (M : Mesh α) (hk : M.kind = .cart3) (φ : CellFld α) (i j k : ℕ) :
    Gen.AvgGen.gradientTerm_z_3D M φ i j k = gradD M φ .z (i+1, j+1, k) := by
  simp only [Gen.AvgGen.gradientTerm_z_3D, gradD, lineM, hk, Axis.dxf, Mesh.axis, Idx.get, Idx.next, Idx.prev, Idx.set]
  geq_ring

theorem gradientTerm_x_Cylindrical3D_eq (M : Mesh α) (φ : CellFld α) (i j k : ℕ) :
    Gen.AvgGen.gradientTerm_x_Cylindrical3D M φ i j k = gradD M φ .x (i, j+1, k+1) := by
  have hm : lineM M .x (i, j+1, k+1) = 1 := by unfold lineM; cases M.kind <;> rfl
  simp only [Gen.AvgGen.gradientTerm_x_Cylindrical3D, gradD, hm, Axis.dxf, Mesh.axis, Idx.get, Idx.next, Idx.prev, Idx.set]
  geq_ring

theorem gradientTerm_y_Cylindrical3D_eq (M : Mesh α) (hk : M.kind = .cyl3) (φ : CellFld α) (i j k : ℕ) :
    Gen.AvgGen.gradientTerm_y_Cylindrical3D M φ i j k = gradD M φ .y (i+1, j, k+1) := by
  simp only [Gen.AvgGen.gradientTerm_y_Cylindrical3D, gradD, lineM, hk, Axis.dxf, Mesh.axis, Idx.get, Idx.next, Idx.prev, Idx.set]
  geq_ring

theorem gradientTerm_z_Cylindrical3D_eq (M : Mesh α) (hk : M.kind = .cyl3) (φ : CellFld α) (i j k : ℕ) :
    Gen.AvgGen.gradientTerm_z_Cylindrical3D M φ i j k = gradD M φ .z (i+1, j+1, k) := by
  simp only [Gen.AvgGen.gradientTerm_z_Cylindrical3D, gradD, lineM, hk, Axis.dxf, Mesh.axis, Idx.get, Idx.next, Idx.prev, Idx.set]
  geq_ring

theorem gradientTerm_x_Spherical3D_eq (M : Mesh α) (φ : CellFld α) (i j k : ℕ) :
    Gen.AvgGen.gradientTerm_x_Spherical3D M φ i j k = gradD M φ .x (i, j+1, k+1) := by
  have hm : lineM M .x (i, j+1, k+1) = 1 := by unfold lineM; cases M.kind <;> rfl
  simp only [Gen.AvgGen.gradientTerm_x_Spherical3D, gradD, hm, Axis.dxf, Mesh.axis, Idx.get, Idx.next, Idx.prev, Idx.set]
  geq_ring

theorem gradientTerm_y_Spherical3D_eq (M : Mesh α) (hk : M.kind = .sph3) (φ : CellFld α) (i j k : ℕ) :
    Gen.AvgGen.gradientTerm_y_Spherical3D M φ i j k = gradD M φ .y (i+1, j, k+1) := by
  simp only [Gen.AvgGen.gradientTerm_y_Spherical3D, gradD, lineM, hk, Axis.dxf, Mesh.axis, Idx.get, Idx.next, Idx.prev, Idx.set]
  geq_ring

theorem gradientTerm_z_Spherical3D_eq (M : Mesh α) (hk : M.kind = .sph3) (φ : CellFld α) (i j k : ℕ) :
    Gen.AvgGen.gradientTerm_z_Spherical3D M φ i j k = gradD M φ .z (i+1, j+1, k) := by
  simp only [Gen.AvgGen.gradientTerm_z_Spherical3D, gradD, lineM, hk, Axis.dxf, Mesh.axis, Idx.get, Idx.next, Idx.prev, Idx.set]
  geq_ring

/-- the class hypothesis matters: the Cartesian 2-D formula is not the polar gradient -/
theorem gradientTerm_y_2D_needs_kind :
    ∃ (M : Mesh ℚ) (φ : CellFld ℚ), M.kind = .pol2 ∧ M.WF ∧
      Gen.AvgGen.gradientTerm_y_2D M φ 0 0 0 ≠ gradD M φ .y (1, 0, 1) := by
  refine ⟨Examples.mesh .pol2, fun c => c.2.1, rfl, Examples.mesh_WF _, ?_⟩
  decide +kernel

example (φ : CellFld ℚ) (i j k : ℕ) :
    Gen.AvgGen.gradientTerm_z_Spherical3D (Examples.mesh .sph3) φ i j k = gradD (Examples.mesh .sph3) φ .z (i+1, j+1, k) :=
  gradientTerm_z_Spherical3D_eq _ rfl φ i j k

/-! ### calculus.py: `gradientTermFixedBC` (in-place doubling of the two boundary faces of every component);
    definitional form: `(if p = 0 ∨ p = n then 2 else 1) * gradD` -/

theorem gradientTermFixedBC_x_1D_eq (M : Mesh α) (hn : M.ax.n ≠ 0) (φ : CellFld α) (i j k : ℕ) :
    Gen.AvgGen.gradientTermFixedBC_x_1D M φ i j k = (if i = 0 ∨ i = M.ax.n then 2 else 1) * gradD M φ .x (i, 1, 1) := by
  have hm : lineM M .x (i, 1, 1) = 1 := by unfold lineM; cases M.kind <;> rfl
  simp only [Gen.AvgGen.gradientTermFixedBC_x_1D, gradD, hm, Axis.dxf, Mesh.axis, Idx.get, Idx.next, Idx.prev, Idx.set, if_neg hn]
  by_cases h1 : i = M.ax.n
  · simp only [if_pos h1, or_true, if_true, ← h1]; geq_ring
  · by_cases h0 : i = 0
    · subst h0; simp only [if_neg h1, true_or, if_true, zero_add]; geq_ring
    · simp only [h1, h0, or_self, if_false]; geq_ring

theorem gradientTermFixedBC_x_2D_eq (M : Mesh α) (hn : M.ax.n ≠ 0) (φ : CellFld α) (i j k : ℕ) :
    Gen.AvgGen.gradientTermFixedBC_x_2D M φ i j k = (if i = 0 ∨ i = M.ax.n then 2 else 1) * gradD M φ .x (i, j+1, 1) := by
  have hm : lineM M .x (i, j+1, 1) = 1 := by unfold lineM; cases M.kind <;> rfl
  simp only [Gen.AvgGen.gradientTermFixedBC_x_2D, gradD, hm, Axis.dxf, Mesh.axis, Idx.get, Idx.next, Idx.prev, Idx.set, if_neg hn]
  by_cases h1 : i = M.ax.n
  · simp only [if_pos h1, or_true, if_true, ← h1]; geq_ring
  · by_cases h0 : i = 0
    · subst h0; simp only [if_neg h1, true_or, if_true, zero_add]; geq_ring
    · simp only [h1, h0, or_self, if_false]; geq_ring

theorem gradientTermFixedBC_y_2D_eq (M : Mesh α) (hk : M.kind = .cart2 ∨ M.kind = .cyl2) (hn : M.ay.n ≠ 0) (φ : CellFld α) (i j k : ℕ) :
    Gen.AvgGen.gradientTermFixedBC_y_2D M φ i j k = (if j = 0 ∨ j = M.ay.n then 2 else 1) * gradD M φ .y (i+1, j, 1) := by
  have hm : lineM M .y (i+1, j, 1) = 1 := by rcases hk with hk | hk <;> simp only [lineM, hk]
  simp only [Gen.AvgGen.gradientTermFixedBC_y_2D, gradD, hm, Axis.dxf, Mesh.axis, Idx.get, Idx.next, Idx.prev, Idx.set, if_neg hn]
  by_cases h1 : j = M.ay.n
  · simp only [if_pos h1, or_true, if_true, ← h1]; geq_ring
  · by_cases h0 : j = 0
    · subst h0; simp only [if_neg h1, true_or, if_true, zero_add]; geq_ring
    · simp only [h1, h0, or_self, if_false]; geq_ring

theorem gradientTermFixedBC_x_Polar2D_eq (M : Mesh α) (hn : M.ax.n ≠ 0) (φ : CellFld α) (i j k : ℕ) :
    Gen.AvgGen.gradientTermFixedBC_x_Polar2D M φ i j k = (if i = 0 ∨ i = M.ax.n then 2 else 1) * gradD M φ .x (i, j+1, 1) := by
  have hm : lineM M .x (i, j+1, 1) = 1 := by unfold lineM; cases M.kind <;> rfl
  simp only [Gen.AvgGen.gradientTermFixedBC_x_Polar2D, gradD, hm, Axis.dxf, Mesh.axis, Idx.get, Idx.next, Idx.prev, Idx.set, if_neg hn]
  by_cases h1 : i = M.ax.n
  · simp only [if_pos h1, or_true, if_true, ← h1]; geq_ring
  · by_cases h0 : i = 0
    · subst h0; simp only [if_neg h1, true_or, if_true, zero_add]; geq_ring
    · simp only [h1, h0, or_self, if_false]; geq_ring

theorem gradientTermFixedBC_y_Polar2D_eq (M : Mesh α) (hk : M.kind = .pol2) (hn : M.ay.n ≠ 0) (φ : CellFld α) (i j k : ℕ) :
    Gen.AvgGen.gradientTermFixedBC_y_Polar2D M φ i j k = (if j = 0 ∨ j = M.ay.n then 2 else 1) * gradD M φ .y (i+1, j, 1) := by
  simp only [Gen.AvgGen.gradientTermFixedBC_y_Polar2D, gradD, lineM, hk, Axis.dxf, Mesh.axis, Idx.get, Idx.next, Idx.prev, Idx.set, if_neg hn]
  by_cases h1 : j = M.ay.n
  · simp only [if_pos h1, or_true, if_true, ← h1]; geq_ring
  · by_cases h0 : j = 0
    · subst h0; simp only [if_neg h1, true_or, if_true, zero_add]; geq_ring
    · simp only [h1, h0, or_self, if_false]; geq_ring

theorem gradientTermFixedBC_x_3D_eq (M : Mesh α) (hn : M.ax.n ≠ 0) (φ : CellFld α) (i j k : ℕ) :
    Gen.AvgGen.gradientTermFixedBC_x_3D M φ i j k = (if i = 0 ∨ i = M.ax.n then 2 else 1) * gradD M φ .x (i, j+1, k+1) := by
  have hm : lineM M .x (i, j+1, k+1) = 1 := by unfold lineM; cases M.kind <;> rfl
  simp only [Gen.AvgGen.gradientTermFixedBC_x_3D, gradD, hm, Axis.dxf, Mesh.axis, Idx.get, Idx.next, Idx.prev, Idx.set, if_neg hn]
  by_cases h1 : i = M.ax.n
  · simp only [if_pos h1, or_true, if_true, ← h1]; geq_ring
  · by_cases h0 : i = 0
    · subst h0; simp only [if_neg h1, true_or, if_true, zero_add]; geq_ring
    · simp only [h1, h0, or_self, if_false]; geq_ring

theorem gradientTermFixedBC_y_3D_eq (M : Mesh α) (hk : M.kind = .cart3) (hn : M.ay.n ≠ 0) (φ : CellFld α) (i j k : ℕ) :
    Gen.AvgGen.gradientTermFixedBC_y_3D M φ i j k = (if j = 0 ∨ j = M.ay.n then 2 else 1) * gradD M φ .y (i+1, j, k+1) := by
  simp only [Gen.AvgGen.gradientTermFixedBC_y_3D, gradD, lineM, hk, Axis.dxf, Mesh.axis, Idx.get, Idx.next, Idx.prev, Idx.set, if_neg hn]
  by_cases h1 : j = M.ay.n
  · simp only [if_pos h1, or_true, if_true, ← h1]; geq_ring
  · by_cases h0 : j = 0
    · subst h0; simp only [if_neg h1, true_or, if_true, zero_add]; geq_ring
    · simp only [h1, h0, or_self, if_false]; geq_ring

theorem gradientTermFixedBC_z_3D_eq (M : Mesh α) (hk : M.kind = .cart3) (hn : M.az.n ≠ 0) (φ : CellFld α) (i j k : ℕ) :
    Gen.AvgGen.gradientTermFixedBC_z_3D M φ i j k = (if k = 0 ∨ k = M.az.n then 2 else 1) * gradD M φ .z (i+1, j+1, k) := by
  simp only [Gen.AvgGen.gradientTermFixedBC_z_3D, gradD, lineM, hk, Axis.dxf, Mesh.axis, Idx.get, Idx.next, Idx.prev, Idx.set, if_neg hn]
  by_cases h1 : k = M.az.n
  · simp only [if_pos h1, or_true, if_true, ← h1]; geq_ring
  · by_cases h0 : k = 0
    · subst h0; simp only [if_neg h1, true_or, if_true, zero_add]; geq_ring
    · simp only [h1, h0, or_self, if_false]; geq_ring

theorem gradientTermFixedBC_x_Cylindrical3D_eq (M : Mesh α) (hn : M.ax.n ≠ 0) (φ : CellFld α) (i j k : ℕ) :
    Gen.AvgGen.gradientTermFixedBC_x_Cylindrical3D M φ i j k = (if i = 0 ∨ i = M.ax.n then 2 else 1) * gradD M φ .x (i, j+1, k+1) := by
  have hm : lineM M .x (i, j+1, k+1) = 1 := by unfold lineM; cases M.kind <;> rfl
  simp only [Gen.AvgGen.gradientTermFixedBC_x_Cylindrical3D, gradD, hm, Axis.dxf, Mesh.axis, Idx.get, Idx.next, Idx.prev, Idx.set, if_neg hn]
  by_cases h1 : i = M.ax.n
  · simp only [if_pos h1, or_true, if_true, ← h1]; geq_ring
  · by_cases h0 : i = 0
    · subst h0; simp only [if_neg h1, true_or, if_true, zero_add]; geq_ring
    · simp only [h1, h0, or_self, if_false]; geq_ring

theorem gradientTermFixedBC_y_Cylindrical3D_eq (M : Mesh α) (hk : M.kind = .cyl3) (hn : M.ay.n ≠ 0) (φ : CellFld α) (i j k : ℕ) :
    Gen.AvgGen.gradientTermFixedBC_y_Cylindrical3D M φ i j k = (if j = 0 ∨ j = M.ay.n then 2 else 1) * gradD M φ .y (i+1, j, k+1) := by
  simp only [Gen.AvgGen.gradientTermFixedBC_y_Cylindrical3D, gradD, lineM, hk, Axis.dxf, Mesh.axis, Idx.get, Idx.next, Idx.prev, Idx.set, if_neg hn]
  by_cases h1 : j = M.ay.n
  · simp only [if_pos h1, or_true, if_true, ← h1]; geq_ring
  · by_cases h0 : j = 0
    · subst h0; simp only [if_neg h1, true_or, if_true, zero_add]; geq_ring
    · simp only [h1, h0, or_self, if_false]; geq_ring

theorem gradientTermFixedBC_z_Cylindrical3D_eq (M : Mesh α) (hk : M.kind = .cyl3) (hn : M.az.n ≠ 0) (φ : CellFld α) (i j k : ℕ) :
    Gen.AvgGen.gradientTermFixedBC_z_Cylindrical3D M φ i j k = (if k = 0 ∨ k = M.az.n then 2 else 1) * gradD M φ .z (i+1, j+1, k) := by
  simp only [Gen.AvgGen.gradientTermFixedBC_z_Cylindrical3D, gradD, lineM, hk, Axis.dxf, Mesh.axis, Idx.get, Idx.next, Idx.prev, Idx.set, if_neg hn]
  by_cases h1 : k = M.az.n
  · simp only [if_pos h1, or_true, if_true, ← h1]; geq_ring
  · by_cases h0 : k = 0
    · subst h0; simp only [if_neg h1, true_or, if_true, zero_add]; geq_ring
    · simp only [h1, h0, or_self, if_false]; geq_ring

theorem gradientTermFixedBC_x_Spherical3D_eq (M : Mesh α) (hn : M.ax.n ≠ 0) (φ : CellFld α) (i j k : ℕ) :
    Gen.AvgGen.gradientTermFixedBC_x_Spherical3D M φ i j k = (if i = 0 ∨ i = M.ax.n then 2 else 1) * gradD M φ .x (i, j+1, k+1) := by
  have hm : lineM M .x (i, j+1, k+1) = 1 := by unfold lineM; cases M.kind <;> rfl
  simp only [Gen.AvgGen.gradientTermFixedBC_x_Spherical3D, gradD, hm, Axis.dxf, Mesh.axis, Idx.get, Idx.next, Idx.prev, Idx.set, if_neg hn]
  by_cases h1 : i = M.ax.n
  · simp only [if_pos h1, or_true, if_true, ← h1]; geq_ring
  · by_cases h0 : i = 0
    · subst h0; simp only [if_neg h1, true_or, if_true, zero_add]; geq_ring
    · simp only [h1, h0, or_self, if_false]; geq_ring

theorem gradientTermFixedBC_y_Spherical3D_eq (M : Mesh α) (hk : M.kind = .sph3) (hn : M.ay.n ≠ 0) (φ : CellFld α) (i j k : ℕ) :
    Gen.AvgGen.gradientTermFixedBC_y_Spherical3D M φ i j k = (if j = 0 ∨ j = M.ay.n then 2 else 1) * gradD M φ .y (i+1, j, k+1) := by
  simp only [Gen.AvgGen.gradientTermFixedBC_y_Spherical3D, gradD, lineM, hk, Axis.dxf, Mesh.axis, Idx.get, Idx.next, Idx.prev, Idx.set, if_neg hn]
  by_cases h1 : j = M.ay.n
  · simp only [if_pos h1, or_true, if_true, ← h1]; geq_ring
  · by_cases h0 : j = 0
    · subst h0; simp only [if_neg h1, true_or, if_true, zero_add]; geq_ring
    · simp only [h1, h0, or_self, if_false]; geq_ring

theorem gradientTermFixedBC_z_Spherical3D_eq (M : Mesh α) (hk : M.kind = .sph3) (hn : M.az.n ≠ 0) (φ : CellFld α) (i j k : ℕ) :
    Gen.AvgGen.gradientTermFixedBC_z_Spherical3D M φ i j k = (if k = 0 ∨ k = M.az.n then 2 else 1) * gradD M φ .z (i+1, j+1, k) := by
  simp only [Gen.AvgGen.gradientTermFixedBC_z_Spherical3D, gradD, lineM, hk, Axis.dxf, Mesh.axis, Idx.get, Idx.next, Idx.prev, Idx.set, if_neg hn]
  by_cases h1 : k = M.az.n
  · simp only [if_pos h1, or_true, if_true, ← h1]; geq_ring
  · by_cases h0 : k = 0
    · subst h0; simp only [if_neg h1, true_or, if_true, zero_add]; geq_ring
    · simp only [h1, h0, or_self, if_false]; geq_ring

/-- `n ≠ 0` is necessary: on an axis without cells face 0 = face n is doubled twice -/
theorem gradientTermFixedBC_x_1D_needs_cell :
    ∃ (M : Mesh ℚ) (φ : CellFld ℚ), M.ax.n = 0 ∧
      Gen.AvgGen.gradientTermFixedBC_x_1D M φ 0 0 0 ≠ (if (0 : ℕ) = 0 ∨ 0 = M.ax.n then 2 else 1) * gradD M φ .x (0, 1, 1) := by
  refine ⟨{ Examples.mesh .cart1 with ax := { n := 0, fc := fun i => i, cen := fun i => i, DX := fun _ => 1 } },
    fun c => c.1, rfl, ?_⟩
  decide +kernel

example (k : Kind) (φ : CellFld ℚ) (i j l : ℕ) :
    Gen.AvgGen.gradientTermFixedBC_x_1D (Examples.mesh k) φ i j l
      = (if i = 0 ∨ i = 3 then 2 else 1) * gradD (Examples.mesh k) φ .x (i, 1, 1) :=
  gradientTermFixedBC_x_1D_eq _ (by have := (Examples.mesh_WF k).wx.npos; omega) φ i j l

/-! ### source.py: `constantSourceTerm`, `linearSourceTerm`, `transientTerm`
    (zeros + interior assignment; one-block `csr_array` with rows = cols = interior cells; `transientTerm` returns
    `(linearSourceTerm(a/dt), constantSourceTerm(a*phi/dt))` through the operators of `CellVariable`) -/

theorem constantSourceTerm_1D_eq (M : Mesh α) (γ : CellFld α) (i j k : ℕ) :
    Gen.AvgGen.constantSourceTerm_1D M γ i j k = constSrcRHS γ (i+1, 1, 1) := by
  first | rfl | (simp only [Gen.AvgGen.constantSourceTerm_1D, constSrcRHS, linearSrcRow, transientRow, transientRHS, St7.diag, St7.mk.injEq, Mesh.axis] <;> (try and_intros) <;> geq_ring)

theorem linearSourceTerm_1D_eq (M : Mesh α) (β : CellFld α) (i j k : ℕ) :
    Gen.AvgGen.linearSourceTerm_1D M β i j k = linearSrcRow β (i+1, 1, 1) := by
  first | rfl | (simp only [Gen.AvgGen.linearSourceTerm_1D, constSrcRHS, linearSrcRow, transientRow, transientRHS, St7.diag, St7.mk.injEq, Mesh.axis] <;> (try and_intros) <;> geq_ring)

theorem transientTerm_row_1D_eq (M : Mesh α) (φ : CellFld α) (dt : α) (al : CellFld α) (i j k : ℕ) :
    Gen.AvgGen.transientTerm_row_1D M φ dt al i j k = transientRow dt al (i+1, 1, 1) := by
  first | rfl | (simp only [Gen.AvgGen.transientTerm_row_1D, constSrcRHS, linearSrcRow, transientRow, transientRHS, St7.diag, St7.mk.injEq, Mesh.axis] <;> (try and_intros) <;> geq_ring)

theorem transientTerm_rhs_1D_eq (M : Mesh α) (φ : CellFld α) (dt : α) (al : CellFld α) (i j k : ℕ) :
    Gen.AvgGen.transientTerm_rhs_1D M φ dt al i j k = transientRHS φ dt al (i+1, 1, 1) := by
  first | rfl | (simp only [Gen.AvgGen.transientTerm_rhs_1D, constSrcRHS, linearSrcRow, transientRow, transientRHS, St7.diag, St7.mk.injEq, Mesh.axis] <;> (try and_intros) <;> geq_ring)

/-- `alpha` a number: the constant field -/
theorem transientTerm_row_1D_scalar_eq (M : Mesh α) (φ : CellFld α) (dt al : α) (i j k : ℕ) :
    Gen.AvgGen.transientTerm_row_1D_scalar M φ dt al i j k = transientRow dt (fun _ => al) (i+1, 1, 1) := by
  first | rfl | (simp only [Gen.AvgGen.transientTerm_row_1D_scalar, constSrcRHS, linearSrcRow, transientRow, transientRHS, St7.diag, St7.mk.injEq, Mesh.axis] <;> (try and_intros) <;> geq_ring)

theorem transientTerm_rhs_1D_scalar_eq (M : Mesh α) (φ : CellFld α) (dt al : α) (i j k : ℕ) :
    Gen.AvgGen.transientTerm_rhs_1D_scalar M φ dt al i j k = transientRHS φ dt (fun _ => al) (i+1, 1, 1) := by
  first | rfl | (simp only [Gen.AvgGen.transientTerm_rhs_1D_scalar, constSrcRHS, linearSrcRow, transientRow, transientRHS, St7.diag, St7.mk.injEq, Mesh.axis] <;> (try and_intros) <;> geq_ring)

/-- `alpha` omitted: the default literal `1.0` -/
theorem transientTerm_row_1D_default_eq (M : Mesh α) (φ : CellFld α) (dt : α) (i j k : ℕ) :
    Gen.AvgGen.transientTerm_row_1D_default M φ dt i j k = transientRow dt (fun _ => 1) (i+1, 1, 1) := by
  first | rfl | (simp only [Gen.AvgGen.transientTerm_row_1D_default, constSrcRHS, linearSrcRow, transientRow, transientRHS, St7.diag, St7.mk.injEq, Mesh.axis] <;> (try and_intros) <;> geq_ring)

theorem transientTerm_rhs_1D_default_eq (M : Mesh α) (φ : CellFld α) (dt : α) (i j k : ℕ) :
    Gen.AvgGen.transientTerm_rhs_1D_default M φ dt i j k = transientRHS φ dt (fun _ => 1) (i+1, 1, 1) := by
  first | rfl | (simp only [Gen.AvgGen.transientTerm_rhs_1D_default, constSrcRHS, linearSrcRow, transientRow, transientRHS, St7.diag, St7.mk.injEq, Mesh.axis] <;> (try and_intros) <;> geq_ring)

/-- the composition inside `transientTerm`: matrix = `linearSourceTerm(alpha/dt)`, RHS = `constantSourceTerm(alpha*phi/dt)`
    (`phi` = the OLD field, sign +, `alpha / dt`) -/
theorem transientTerm_1D_composition (M : Mesh α) (φ : CellFld α) (dt : α) (al : CellFld α) (i j k : ℕ) :
    Gen.AvgGen.transientTerm_row_1D M φ dt al i j k = Gen.AvgGen.linearSourceTerm_1D M (fun c => al c / dt) i j k ∧
    Gen.AvgGen.transientTerm_rhs_1D M φ dt al i j k = Gen.AvgGen.constantSourceTerm_1D M (fun c => al c * φ c / dt) i j k :=
  ⟨by first | rfl | (simp only [Gen.AvgGen.transientTerm_row_1D, Gen.AvgGen.linearSourceTerm_1D, Gen.AvgGen.transientTerm_rhs_1D, Gen.AvgGen.constantSourceTerm_1D, St7.mk.injEq] <;> (try and_intros) <;> geq_ring),
   by first | rfl | (simp only [Gen.AvgGen.transientTerm_row_1D, Gen.AvgGen.linearSourceTerm_1D, Gen.AvgGen.transientTerm_rhs_1D, Gen.AvgGen.constantSourceTerm_1D, St7.mk.injEq] <;> (try and_intros) <;> geq_ring)⟩

theorem constantSourceTerm_2D_eq (M : Mesh α) (γ : CellFld α) (i j k : ℕ) :
    Gen.AvgGen.constantSourceTerm_2D M γ i j k = constSrcRHS γ (i+1, j+1, 1) := by
  first | rfl | (simp only [Gen.AvgGen.constantSourceTerm_2D, constSrcRHS, linearSrcRow, transientRow, transientRHS, St7.diag, St7.mk.injEq, Mesh.axis] <;> (try and_intros) <;> geq_ring)

theorem linearSourceTerm_2D_eq (M : Mesh α) (β : CellFld α) (i j k : ℕ) :
    Gen.AvgGen.linearSourceTerm_2D M β i j k = linearSrcRow β (i+1, j+1, 1) := by
  first | rfl | (simp only [Gen.AvgGen.linearSourceTerm_2D, constSrcRHS, linearSrcRow, transientRow, transientRHS, St7.diag, St7.mk.injEq, Mesh.axis] <;> (try and_intros) <;> geq_ring)

theorem transientTerm_row_2D_eq (M : Mesh α) (φ : CellFld α) (dt : α) (al : CellFld α) (i j k : ℕ) :
    Gen.AvgGen.transientTerm_row_2D M φ dt al i j k = transientRow dt al (i+1, j+1, 1) := by
  first | rfl | (simp only [Gen.AvgGen.transientTerm_row_2D, constSrcRHS, linearSrcRow, transientRow, transientRHS, St7.diag, St7.mk.injEq, Mesh.axis] <;> (try and_intros) <;> geq_ring)

theorem transientTerm_rhs_2D_eq (M : Mesh α) (φ : CellFld α) (dt : α) (al : CellFld α) (i j k : ℕ) :
    Gen.AvgGen.transientTerm_rhs_2D M φ dt al i j k = transientRHS φ dt al (i+1, j+1, 1) := by
  first | rfl | (simp only [Gen.AvgGen.transientTerm_rhs_2D, constSrcRHS, linearSrcRow, transientRow, transientRHS, St7.diag, St7.mk.injEq, Mesh.axis] <;> (try and_intros) <;> geq_ring)

/-- `alpha` a number: the constant field -/
theorem transientTerm_row_2D_scalar_eq (M : Mesh α) (φ : CellFld α) (dt al : α) (i j k : ℕ) :
    Gen.AvgGen.transientTerm_row_2D_scalar M φ dt al i j k = transientRow dt (fun _ => al) (i+1, j+1, 1) := by
  first | rfl | (simp only [Gen.AvgGen.transientTerm_row_2D_scalar, constSrcRHS, linearSrcRow, transientRow, transientRHS, St7.diag, St7.mk.injEq, Mesh.axis] <;> (try and_intros) <;> geq_ring)

theorem transientTerm_rhs_2D_scalar_eq (M : Mesh α) (φ : CellFld α) (dt al : α) (i j k : ℕ) :
    Gen.AvgGen.transientTerm_rhs_2D_scalar M φ dt al i j k = transientRHS φ dt (fun _ => al) (i+1, j+1, 1) := by
  first | rfl | (simp only [Gen.AvgGen.transientTerm_rhs_2D_scalar, constSrcRHS, linearSrcRow, transientRow, transientRHS, St7.diag, St7.mk.injEq, Mesh.axis] <;> (try and_intros) <;> geq_ring)

/-- `alpha` omitted: the default literal `1.0` -/
theorem transientTerm_row_2D_default_eq (M : Mesh α) (φ : CellFld α) (dt : α) (i j k : ℕ) :
    Gen.AvgGen.transientTerm_row_2D_default M φ dt i j k = transientRow dt (fun _ => 1) (i+1, j+1, 1) := by
  first | rfl | (simp only [Gen.AvgGen.transientTerm_row_2D_default, constSrcRHS, linearSrcRow, transientRow, transientRHS, St7.diag, St7.mk.injEq, Mesh.axis] <;> (try and_intros) <;> geq_ring)

theorem transientTerm_rhs_2D_default_eq (M : Mesh α) (φ : CellFld α) (dt : α) (i j k : ℕ) :
    Gen.AvgGen.transientTerm_rhs_2D_default M φ dt i j k = transientRHS φ dt (fun _ => 1) (i+1, j+1, 1) := by
  first | rfl | (simp only [Gen.AvgGen.transientTerm_rhs_2D_default, constSrcRHS, linearSrcRow, transientRow, transientRHS, St7.diag, St7.mk.injEq, Mesh.axis] <;> (try and_intros) <;> geq_ring)

/-- the composition inside `transientTerm`: matrix = `linearSourceTerm(alpha/dt)`, RHS = `constantSourceTerm(alpha*phi/dt)`
    (`phi` = the OLD field, sign +, `alpha / dt`) -/
theorem transientTerm_2D_composition (M : Mesh α) (φ : CellFld α) (dt : α) (al : CellFld α) (i j k : ℕ) :
    Gen.AvgGen.transientTerm_row_2D M φ dt al i j k = Gen.AvgGen.linearSourceTerm_2D M (fun c => al c / dt) i j k ∧
    Gen.AvgGen.transientTerm_rhs_2D M φ dt al i j k = Gen.AvgGen.constantSourceTerm_2D M (fun c => al c * φ c / dt) i j k :=
  ⟨by first | rfl | (simp only [Gen.AvgGen.transientTerm_row_2D, Gen.AvgGen.linearSourceTerm_2D, Gen.AvgGen.transientTerm_rhs_2D, Gen.AvgGen.constantSourceTerm_2D, St7.mk.injEq] <;> (try and_intros) <;> geq_ring),
   by first | rfl | (simp only [Gen.AvgGen.transientTerm_row_2D, Gen.AvgGen.linearSourceTerm_2D, Gen.AvgGen.transientTerm_rhs_2D, Gen.AvgGen.constantSourceTerm_2D, St7.mk.injEq] <;> (try and_intros) <;> geq_ring)⟩

theorem constantSourceTerm_3D_eq (M : Mesh α) (γ : CellFld α) (i j k : ℕ) :
    Gen.AvgGen.constantSourceTerm_3D M γ i j k = constSrcRHS γ (i+1, j+1, k+1) := by
  first | rfl | (simp only [Gen.AvgGen.constantSourceTerm_3D, constSrcRHS, linearSrcRow, transientRow, transientRHS, St7.diag, St7.mk.injEq, Mesh.axis] <;> (try and_intros) <;> geq_ring)

theorem linearSourceTerm_3D_eq (M : Mesh α) (β : CellFld α) (i j k : ℕ) :
    Gen.AvgGen.linearSourceTerm_3D M β i j k = linearSrcRow β (i+1, j+1, k+1) := by
  first | rfl | (simp only [Gen.AvgGen.linearSourceTerm_3D, constSrcRHS, linearSrcRow, transientRow, transientRHS, St7.diag, St7.mk.injEq, Mesh.axis] <;> (try and_intros) <;> geq_ring)

theorem transientTerm_row_3D_eq (M : Mesh α) (φ : CellFld α) (dt : α) (al : CellFld α) (i j k : ℕ) :
    Gen.AvgGen.transientTerm_row_3D M φ dt al i j k = transientRow dt al (i+1, j+1, k+1) := by
  first | rfl | (simp only [Gen.AvgGen.transientTerm_row_3D, constSrcRHS, linearSrcRow, transientRow, transientRHS, St7.diag, St7.mk.injEq, Mesh.axis] <;> (try and_intros) <;> geq_ring)

theorem transientTerm_rhs_3D_eq (M : Mesh α) (φ : CellFld α) (dt : α) (al : CellFld α) (i j k : ℕ) :
    Gen.AvgGen.transientTerm_rhs_3D M φ dt al i j k = transientRHS φ dt al (i+1, j+1, k+1) := by
  first | rfl | (simp only [Gen.AvgGen.transientTerm_rhs_3D, constSrcRHS, linearSrcRow, transientRow, transientRHS, St7.diag, St7.mk.injEq, Mesh.axis] <;> (try and_intros) <;> geq_ring)

/-- `alpha` a number: the constant field -/
theorem transientTerm_row_3D_scalar_eq (M : Mesh α) (φ : CellFld α) (dt al : α) (i j k : ℕ) :
    Gen.AvgGen.transientTerm_row_3D_scalar M φ dt al i j k = transientRow dt (fun _ => al) (i+1, j+1, k+1) := by
  first | rfl | (simp only [Gen.AvgGen.transientTerm_row_3D_scalar, constSrcRHS, linearSrcRow, transientRow, transientRHS, St7.diag, St7.mk.injEq, Mesh.axis] <;> (try and_intros) <;> geq_ring)

theorem transientTerm_rhs_3D_scalar_eq (M : Mesh α) (φ : CellFld α) (dt al : α) (i j k : ℕ) :
    Gen.AvgGen.transientTerm_rhs_3D_scalar M φ dt al i j k = transientRHS φ dt (fun _ => al) (i+1, j+1, k+1) := by
  first | rfl | (simp only [Gen.AvgGen.transientTerm_rhs_3D_scalar, constSrcRHS, linearSrcRow, transientRow, transientRHS, St7.diag, St7.mk.injEq, Mesh.axis] <;> (try and_intros) <;> geq_ring)

/-- `alpha` omitted: the default literal `1.0` -/
theorem transientTerm_row_3D_default_eq (M : Mesh α) (φ : CellFld α) (dt : α) (i j k : ℕ) :
    Gen.AvgGen.transientTerm_row_3D_default M φ dt i j k = transientRow dt (fun _ => 1) (i+1, j+1, k+1) := by
  first | rfl | (simp only [Gen.AvgGen.transientTerm_row_3D_default, constSrcRHS, linearSrcRow, transientRow, transientRHS, St7.diag, St7.mk.injEq, Mesh.axis] <;> (try and_intros) <;> geq_ring)

theorem transientTerm_rhs_3D_default_eq (M : Mesh α) (φ : CellFld α) (dt : α) (i j k : ℕ) :
    Gen.AvgGen.transientTerm_rhs_3D_default M φ dt i j k = transientRHS φ dt (fun _ => 1) (i+1, j+1, k+1) := by
  first | rfl | (simp only [Gen.AvgGen.transientTerm_rhs_3D_default, constSrcRHS, linearSrcRow, transientRow, transientRHS, St7.diag, St7.mk.injEq, Mesh.axis] <;> (try and_intros) <;> geq_ring)

/-- the composition inside `transientTerm`: matrix = `linearSourceTerm(alpha/dt)`, RHS = `constantSourceTerm(alpha*phi/dt)`
    (`phi` = the OLD field, sign +, `alpha / dt`) -/
theorem transientTerm_3D_composition (M : Mesh α) (φ : CellFld α) (dt : α) (al : CellFld α) (i j k : ℕ) :
    Gen.AvgGen.transientTerm_row_3D M φ dt al i j k = Gen.AvgGen.linearSourceTerm_3D M (fun c => al c / dt) i j k ∧
    Gen.AvgGen.transientTerm_rhs_3D M φ dt al i j k = Gen.AvgGen.constantSourceTerm_3D M (fun c => al c * φ c / dt) i j k :=
  ⟨by first | rfl | (simp only [Gen.AvgGen.transientTerm_row_3D, Gen.AvgGen.linearSourceTerm_3D, Gen.AvgGen.transientTerm_rhs_3D, Gen.AvgGen.constantSourceTerm_3D, St7.mk.injEq] <;> (try and_intros) <;> geq_ring),
   by first | rfl | (simp only [Gen.AvgGen.transientTerm_row_3D, Gen.AvgGen.linearSourceTerm_3D, Gen.AvgGen.transientTerm_rhs_3D, Gen.AvgGen.constantSourceTerm_3D, St7.mk.injEq] <;> (try and_intros) <;> geq_ring)⟩

/-- the generated linear-source row acts as multiplication by β on the cell itself -/
example (M : Mesh ℚ) (β ψ : CellFld ℚ) (i j k : ℕ) :
    (Gen.AvgGen.linearSourceTerm_3D M β i j k).app ψ (i+1, j+1, k+1) = β (i+1, j+1, k+1) * ψ (i+1, j+1, k+1) := by
  simp [Gen.AvgGen.linearSourceTerm_3D, St7.app]

end PyFV.GenEqAvg
