/-
  Property C02 (the part decidable by algebra) — consistency of the discrete operators with the
  continuous ones: every metric factor (`r`, `r²`), sign convention and coefficient placement is
  checked by exactness on polynomials, with the explicit discrete value (and its remainder)
  where the scheme is not exact; also on non-uniform spacing.

  Positions: `Axis.xc a j` is the centre of cell `j` (ghost centres half a ghost cell outside
  the boundary faces); on a well-formed axis `xc (j+1) − xc j = dxf j` for every face `j = 0..n`.
-/
import PyFV.Lemmas.Consistency
import PyFV.Props.Examples
import Mathlib.Tactic.NormNum

set_option linter.unusedSectionVars false

namespace PyFV.C02
open PyFV

variable {α : Type} [Field α] [LinearOrder α] [IsStrictOrderedRing α]

/-! ## 1. gradient and linear mean are exact on linear fields (any non-uniform axis) -/

theorem cen_succ_sub {a : Axis α} (h : a.WF) (i : ℕ) (h1 : 1 ≤ i) (hn : i < a.n) :
    a.cen (i+1) - a.cen i = a.dxf i := _root_.PyFV.cen_succ_sub h i h1 hn

/-- the same with the ghost centres: every face `j = 0..n` -/
theorem xc_succ_sub {a : Axis α} (h : a.WF) (j : ℕ) (hj : j ≤ a.n) :
    a.xc (j+1) - a.xc j = a.dxf j := _root_.PyFV.xc_succ_sub h j hj

/-- `gradientTerm` of `φ = a + b·x` is `b / m` (`m` = metric scale: `1`, `r`, `r sinθ`) whenever
    the two positions differ by `dxf` -/
theorem gradD_linear_exact (M : Mesh α) (φ : CellFld α) (d : Dir) (c : Idx) (a b x0 x1 : α)
    (h0 : φ c = a + b * x0) (h1 : φ (c.next d) = a + b * x1)
    (hx : x1 - x0 = (M.axis d).dxf (c.get d)) (hd : (M.axis d).dxf (c.get d) ≠ 0) :
    gradD M φ d c = b / lineM M d c := by
  unfold gradD
  have : φ (c.next d) - φ c = b * (M.axis d).dxf (c.get d) := by rw [h0, h1, ← hx]; ring
  rw [this, mul_div_mul_right _ _ hd]

/-- on a well-formed mesh, for a field linear in the cell-centre coordinate along the line:
    every face `0..n` of every direction of every grid class -/
theorem gradD_linear_exact_WF (M : Mesh α) (hM : M.WF) (φ : CellFld α) (d : Dir) (c : Idx) (a b : α)
    (hj : c.get d ≤ M.n d) (hφ : ∀ j, φ (c.set d j) = a + b * (M.axis d).xc j) :
    gradD M φ d c = b / lineM M d c := by
  apply gradD_linear_exact M φ d c a b ((M.axis d).xc (c.get d)) ((M.axis d).xc (c.get d + 1))
  · rw [← hφ, Idx.set_get]
  · exact hφ _
  · exact _root_.PyFV.xc_succ_sub (hM.axis d) _ hj
  · exact (hM.axis d).dxf_ne _

/-- `linearMean` of `φ = a + b·x` is `a + b·x_face` -/
theorem linMean_linear_exact (M : Mesh α) (φ : CellFld α) (d : Dir) (c : Idx) (a b xf : α)
    (h0 : φ c = a + b * (xf - (M.axis d).DX (c.get d) / 2))
    (h1 : φ (c.next d) = a + b * (xf + (M.axis d).DX (c.get d + 1) / 2))
    (hs : (M.axis d).DX (c.get d + 1) + (M.axis d).DX (c.get d) ≠ 0) :
    linMean M φ d c = a + b * xf := by
  simp only [linMean, h0, h1]
  field_simp
  ring

theorem linMean_linear_exact_WF (M : Mesh α) (hM : M.WF) (φ : CellFld α) (d : Dir) (c : Idx)
    (a b : α) (hj : c.get d ≤ M.n d) (hφ : ∀ j, φ (c.set d j) = a + b * (M.axis d).xc j) :
    linMean M φ d c = a + b * (M.axis d).fc (c.get d) := by
  apply linMean_linear_exact
  · rw [← (hM.axis d).xc_eq_hi _ hj, ← hφ, Idx.set_get]
  · rw [← (hM.axis d).xc_eq_lo _ hj]; exact hφ _
  · have := (hM.axis d).pos (c.get d); have := (hM.axis d).pos (c.get d + 1)
    positivity

/-! ## 2. Cartesian diffusion -/

/-- constant coefficient, linear field: zero on ANY non-uniform axis -/
theorem diff_cart_linear_zero (a : Axis α) (D0 s : α) (φl : ℕ → α) (i : ℕ)
    (he : φl (i+1) - φl i = s * a.dxf i) (hw : φl i - φl (i-1) = s * a.dxf (i-1))
    (hde : a.dxf i ≠ 0) (hdw : a.dxf (i-1) ≠ 0) :
    (cartDiffSt a (fun _ => D0) i).lapp φl i = 0 := by
  unfold cartDiffSt
  rw [lineDiffSt_lapp, he, hw]
  have : 1 * D0 * (s * a.dxf i / a.dxf i) - 1 * D0 * (s * a.dxf (i - 1) / a.dxf (i - 1)) = 0 := by
    field_simp; ring
  rw [this, zero_div]

/-- the same on a well-formed Cartesian mesh: every interior cell (the cells next to the boundary
    use the ghost centres), every direction -/
theorem diff_cart_linear_zero_WF (M : Mesh α) (hM : M.WF) (hk : M.kind.cartesian = true)
    (D : FaceFld α) (φ : CellFld α) (d : Dir) (c : Idx) (D0 p s : α)
    (h1 : 1 ≤ c.get d) (hn : c.get d ≤ M.n d)
    (hD : ∀ f, D d (c.set d f) = D0) (hφ : ∀ j, φ (c.set d j) = p + s * (M.axis d).xc j) :
    (diffSt M D d c).app φ d c = 0 := by
  rw [St3.app_eq_lapp, diffSt_cart hk]
  have hDl : lineOf (D d) d c = fun _ => D0 := funext hD
  rw [hDl]
  have e1 : c.get d - 1 + 1 = c.get d := by omega
  apply diff_cart_linear_zero (M.axis d) D0 s
  · show φ (c.set d (c.get d + 1)) - φ (c.set d (c.get d)) = _
    rw [hφ, hφ, ← _root_.PyFV.xc_succ_sub (hM.axis d) _ hn]; ring
  · show φ (c.set d (c.get d)) - φ (c.set d (c.get d - 1)) = _
    have := _root_.PyFV.xc_succ_sub (hM.axis d) (c.get d - 1) (by show c.get d - 1 ≤ M.n d; omega)
    rw [e1] at this
    rw [hφ, hφ, ← this]; ring
  · exact (hM.axis d).dxf_ne _
  · exact (hM.axis d).dxf_ne _

/-- uniform axis, `D ≡ 1`, `φ = x²`: exactly `2` -/
theorem diff_cart_quadratic_uniform (a : Axis α) (h x : α) (Dl φl : ℕ → α) (i : ℕ)
    (hh : h ≠ 0) (hu : ∀ j, a.DX j = h) (hD1 : Dl i = 1) (hD0 : Dl (i-1) = 1)
    (hφ : φl i = x ^ 2) (hφe : φl (i+1) = (x + h) ^ 2) (hφw : φl (i-1) = (x - h) ^ 2) :
    (cartDiffSt a Dl i).lapp φl i = 2 := by
  simp only [cartDiffSt, lineDiffSt, St3.lapp, Axis.dxf, hu, hD1, hD0, hφ, hφe, hφw]
  field_simp
  ring

/-- non-uniform axis, `D ≡ 1`, `φ = x²`: the exact discrete value is
    `1 + (DX (i+1) + DX (i−1)) / (2 DX i)` (`= 2` iff the two neighbours average to the cell size:
    the well-known first-order truncation term of cell-centred finite volumes on graded meshes) -/
theorem diff_cart_quadratic_nonuniform (a : Axis α) (x : α) (Dl φl : ℕ → α) (i : ℕ) (h1 : 1 ≤ i)
    (hpos : ∀ j, 0 < a.DX j) (hD1 : Dl i = 1) (hD0 : Dl (i-1) = 1)
    (hφ : φl i = x ^ 2) (hφe : φl (i+1) = (x + a.dxf i) ^ 2)
    (hφw : φl (i-1) = (x - a.dxf (i-1)) ^ 2) :
    (cartDiffSt a Dl i).lapp φl i = 1 + (a.DX (i+1) + a.DX (i-1)) / (2 * a.DX i) := by
  have e1 : i - 1 + 1 = i := by omega
  have p0 := hpos i; have p1 := hpos (i+1); have p2 := hpos (i-1)
  have d1 : a.dxf i ≠ 0 := by unfold Axis.dxf; positivity
  have d0 : a.dxf (i-1) ≠ 0 := by unfold Axis.dxf; rw [e1]; positivity
  unfold cartDiffSt
  rw [lineDiffSt_lapp, hD1, hD0, hφ, hφe, hφw]
  have n1 : ((x + a.dxf i) ^ 2 - x ^ 2) / a.dxf i = 2 * x + a.dxf i := by field_simp; ring
  have n0 : (x ^ 2 - (x - a.dxf (i-1)) ^ 2) / a.dxf (i-1) = 2 * x - a.dxf (i-1) := by
    field_simp; ring
  rw [n1, n0]
  simp only [Axis.dxf, e1]
  field_simp
  ring

/-- the truncation term is real: sizes `1, 2, 4` give `9/4 ≠ 2` -/
theorem diff_cart_quadratic_nonuniform_ne_two :
    1 + ((4 : ℚ) + 1) / (2 * 2) ≠ 2 := by norm_num

/-! ## 3. cylindrical radius (`V = r_c Δr`, `A = r_f`) -/

/-- uniform radial axis, `D ≡ 1`, `φ = r²`: exactly `4 = (1/r) d/dr (r d(r²)/dr)` -/
theorem diff_cyl_quadratic (a : Axis α) (V A : ℕ → α) (h rc : α) (Dl φl : ℕ → α) (i : ℕ)
    (h1 : 1 ≤ i) (hh : h ≠ 0) (hr : rc ≠ 0)
    (hu0 : a.DX (i-1) = h) (hu1 : a.DX i = h) (hu2 : a.DX (i+1) = h)
    (hV : V i = rc * h) (hAe : A i = rc + h / 2) (hAw : A (i-1) = rc - h / 2)
    (hD1 : Dl i = 1) (hD0 : Dl (i-1) = 1)
    (hφ : φl i = rc ^ 2) (hφe : φl (i+1) = (rc + h) ^ 2) (hφw : φl (i-1) = (rc - h) ^ 2) :
    (lineDiffSt a V A 1 Dl i).lapp φl i = 4 := by
  have e1 : i - 1 + 1 = i := by omega
  simp only [lineDiffSt, St3.lapp, Axis.dxf, e1, hu0, hu1, hu2, hV, hAe, hAw, hD1, hD0, hφ, hφe, hφw]
  field_simp
  ring

/-- same setting, `φ = r`: exactly `1 / r_c = (1/r) d/dr (r dr/dr)` -/
theorem diff_cyl_linear (a : Axis α) (V A : ℕ → α) (h rc : α) (Dl φl : ℕ → α) (i : ℕ)
    (h1 : 1 ≤ i) (hh : h ≠ 0) (hr : rc ≠ 0)
    (hu0 : a.DX (i-1) = h) (hu1 : a.DX i = h) (hu2 : a.DX (i+1) = h)
    (hV : V i = rc * h) (hAe : A i = rc + h / 2) (hAw : A (i-1) = rc - h / 2)
    (hD1 : Dl i = 1) (hD0 : Dl (i-1) = 1)
    (hφ : φl i = rc) (hφe : φl (i+1) = rc + h) (hφw : φl (i-1) = rc - h) :
    (lineDiffSt a V A 1 Dl i).lapp φl i = 1 / rc := by
  have e1 : i - 1 + 1 = i := by omega
  simp only [lineDiffSt, St3.lapp, Axis.dxf, e1, hu0, hu1, hu2, hV, hAe, hAw, hD1, hD0, hφ, hφe, hφw]
  field_simp
  ring

/-- the radial diffusion stencil of the model on the four cylindrical / polar grid classes -/
theorem diff_cyl_quadratic_mesh (M : Mesh α) (hM : M.WF) (hk : M.kind.cylR = true)
    (D : FaceFld α) (φ : CellFld α) (c : Idx) (h : α) (h1 : 1 ≤ c.1) (hn : c.1 ≤ M.ax.n)
    (hu0 : M.ax.DX (c.1 - 1) = h) (hu1 : M.ax.DX c.1 = h) (hu2 : M.ax.DX (c.1 + 1) = h)
    (hD1 : D .x c = 1) (hD0 : D .x (c.prev .x) = 1)
    (hφ : φ c = M.ax.cen c.1 ^ 2) (hφe : φ (c.next .x) = (M.ax.cen c.1 + h) ^ 2)
    (hφw : φ (c.prev .x) = (M.ax.cen c.1 - h) ^ 2) :
    (diffSt M D .x c).app φ .x c = 4 := by
  rw [diffSt_app_line, lineM_x]
  have hh : h ≠ 0 := by rw [← hu1]; exact ne_of_gt (hM.wx.pos _)
  have hr : M.ax.cen c.1 ≠ 0 := ne_of_gt (hM.rpos (cylR_radial hk) c.1 h1 hn)
  apply diff_cyl_quadratic (M.axis .x) _ _ h (M.ax.cen c.1) _ _ (c.get .x) h1 hh hr hu0 hu1 hu2
  · show lineV M .x c.1 = _
    rw [lineV_cylR hk, hu1]
  · show lineA M .x c.1 = _
    rw [lineA_cylR hk, hM.wx.fc_hi c.1 h1 hn, hu1]
  · show lineA M .x (c.1 - 1) = _
    rw [lineA_cylR hk, hM.wx.fc_lo c.1 h1 hn, hu1]
  · rw [lineOf_get]; exact hD1
  · exact hD0
  · rw [lineOf_get]; exact hφ
  · exact hφe
  · exact hφw

theorem diff_cyl_linear_mesh (M : Mesh α) (hM : M.WF) (hk : M.kind.cylR = true)
    (D : FaceFld α) (φ : CellFld α) (c : Idx) (h : α) (h1 : 1 ≤ c.1) (hn : c.1 ≤ M.ax.n)
    (hu0 : M.ax.DX (c.1 - 1) = h) (hu1 : M.ax.DX c.1 = h) (hu2 : M.ax.DX (c.1 + 1) = h)
    (hD1 : D .x c = 1) (hD0 : D .x (c.prev .x) = 1)
    (hφ : φ c = M.ax.cen c.1) (hφe : φ (c.next .x) = M.ax.cen c.1 + h)
    (hφw : φ (c.prev .x) = M.ax.cen c.1 - h) :
    (diffSt M D .x c).app φ .x c = 1 / M.ax.cen c.1 := by
  rw [diffSt_app_line, lineM_x]
  have hh : h ≠ 0 := by rw [← hu1]; exact ne_of_gt (hM.wx.pos _)
  have hr : M.ax.cen c.1 ≠ 0 := ne_of_gt (hM.rpos (cylR_radial hk) c.1 h1 hn)
  apply diff_cyl_linear (M.axis .x) _ _ h (M.ax.cen c.1) _ _ (c.get .x) h1 hh hr hu0 hu1 hu2
  · show lineV M .x c.1 = _
    rw [lineV_cylR hk, hu1]
  · show lineA M .x c.1 = _
    rw [lineA_cylR hk, hM.wx.fc_hi c.1 h1 hn, hu1]
  · show lineA M .x (c.1 - 1) = _
    rw [lineA_cylR hk, hM.wx.fc_lo c.1 h1 hn, hu1]
  · rw [lineOf_get]; exact hD1
  · exact hD0
  · rw [lineOf_get]; exact hφ
  · exact hφe
  · exact hφw

/-! ## 4. spherical radius -/

/-- `SphericalGrid3D` weights (`V = r_c² Δr`, `A = r_f²`), uniform axis, `D ≡ 1`, `φ = r²`:
    the exact discrete value is `6 + h²/(2 r_c²)`; the continuous operator gives `6` -/
theorem diff_sph3_quadratic (a : Axis α) (V A : ℕ → α) (h rc : α) (Dl φl : ℕ → α) (i : ℕ)
    (h1 : 1 ≤ i) (hh : h ≠ 0) (hr : rc ≠ 0)
    (hu0 : a.DX (i-1) = h) (hu1 : a.DX i = h) (hu2 : a.DX (i+1) = h)
    (hV : V i = rc ^ 2 * h) (hAe : A i = (rc + h / 2) ^ 2) (hAw : A (i-1) = (rc - h / 2) ^ 2)
    (hD1 : Dl i = 1) (hD0 : Dl (i-1) = 1)
    (hφ : φl i = rc ^ 2) (hφe : φl (i+1) = (rc + h) ^ 2) (hφw : φl (i-1) = (rc - h) ^ 2) :
    (lineDiffSt a V A 1 Dl i).lapp φl i = 6 + h ^ 2 / (2 * rc ^ 2) := by
  have e1 : i - 1 + 1 = i := by omega
  simp only [lineDiffSt, St3.lapp, Axis.dxf, e1, hu0, hu1, hu2, hV, hAe, hAw, hD1, hD0, hφ, hφe, hφw]
  field_simp
  ring

/-- `SphericalGrid1D` weights (`V = (r_f,i³ − r_f,i−1³)/3`, `A = r_f²`): exactly `6`, remainder `0` -/
theorem diff_sph1_quadratic (a : Axis α) (V A : ℕ → α) (h rc : α) (Dl φl : ℕ → α) (i : ℕ)
    (h1 : 1 ≤ i) (hh : h ≠ 0) (hV0 : V i ≠ 0)
    (hu0 : a.DX (i-1) = h) (hu1 : a.DX i = h) (hu2 : a.DX (i+1) = h)
    (hV : V i = ((rc + h / 2) ^ 3 - (rc - h / 2) ^ 3) / 3)
    (hAe : A i = (rc + h / 2) ^ 2) (hAw : A (i-1) = (rc - h / 2) ^ 2)
    (hD1 : Dl i = 1) (hD0 : Dl (i-1) = 1)
    (hφ : φl i = rc ^ 2) (hφe : φl (i+1) = (rc + h) ^ 2) (hφw : φl (i-1) = (rc - h) ^ 2) :
    (lineDiffSt a V A 1 Dl i).lapp φl i = 6 := by
  have e1 : i - 1 + 1 = i := by omega
  rw [lineDiffSt_lapp]
  simp only [Axis.dxf, e1, hu0, hu1, hu2, hAe, hAw, hD1, hD0, hφ, hφe, hφw]
  have num : (rc + h / 2) ^ 2 * 1 * (((rc + h) ^ 2 - rc ^ 2) / ((h + h) / 2))
      - (rc - h / 2) ^ 2 * 1 * ((rc ^ 2 - (rc - h) ^ 2) / ((h + h) / 2)) = 6 * V i := by
    rw [hV]; field_simp; ring
  rw [num]
  field_simp

/-- the radial stencil of the model on `SphericalGrid3D` -/
theorem diff_sph3_quadratic_mesh (M : Mesh α) (hM : M.WF) (hk : M.kind = .sph3)
    (D : FaceFld α) (φ : CellFld α) (c : Idx) (h : α) (h1 : 1 ≤ c.1) (hn : c.1 ≤ M.ax.n)
    (hu0 : M.ax.DX (c.1 - 1) = h) (hu1 : M.ax.DX c.1 = h) (hu2 : M.ax.DX (c.1 + 1) = h)
    (hD1 : D .x c = 1) (hD0 : D .x (c.prev .x) = 1)
    (hφ : φ c = M.ax.cen c.1 ^ 2) (hφe : φ (c.next .x) = (M.ax.cen c.1 + h) ^ 2)
    (hφw : φ (c.prev .x) = (M.ax.cen c.1 - h) ^ 2) :
    (diffSt M D .x c).app φ .x c = 6 + h ^ 2 / (2 * M.ax.cen c.1 ^ 2) := by
  rw [diffSt_app_line, lineM_x]
  have hh : h ≠ 0 := by rw [← hu1]; exact ne_of_gt (hM.wx.pos _)
  have hr : M.ax.cen c.1 ≠ 0 := ne_of_gt (hM.rpos (by rw [hk]; rfl) c.1 h1 hn)
  apply diff_sph3_quadratic (M.axis .x) _ _ h (M.ax.cen c.1) _ _ (c.get .x) h1 hh hr hu0 hu1 hu2
  · show lineV M .x c.1 = _
    rw [lineV_sph3 hk, hu1]
  · show lineA M .x c.1 = _
    rw [lineA_sph (Or.inr hk), hM.wx.fc_hi c.1 h1 hn, hu1]
  · show lineA M .x (c.1 - 1) = _
    rw [lineA_sph (Or.inr hk), hM.wx.fc_lo c.1 h1 hn, hu1]
  · rw [lineOf_get]; exact hD1
  · exact hD0
  · rw [lineOf_get]; exact hφ
  · exact hφe
  · exact hφw

/-- the radial stencil of the model on `SphericalGrid1D` -/
theorem diff_sph1_quadratic_mesh (M : Mesh α) (hM : M.WF) (hk : M.kind = .sph1)
    (D : FaceFld α) (φ : CellFld α) (c : Idx) (h : α) (h1 : 1 ≤ c.1) (hn : c.1 ≤ M.ax.n)
    (hu0 : M.ax.DX (c.1 - 1) = h) (hu1 : M.ax.DX c.1 = h) (hu2 : M.ax.DX (c.1 + 1) = h)
    (hD1 : D .x c = 1) (hD0 : D .x (c.prev .x) = 1)
    (hφ : φ c = M.ax.cen c.1 ^ 2) (hφe : φ (c.next .x) = (M.ax.cen c.1 + h) ^ 2)
    (hφw : φ (c.prev .x) = (M.ax.cen c.1 - h) ^ 2) :
    (diffSt M D .x c).app φ .x c = 6 := by
  rw [diffSt_app_line, lineM_x]
  have hh : h ≠ 0 := by rw [← hu1]; exact ne_of_gt (hM.wx.pos _)
  have hV0 : lineV M .x (c.get .x) ≠ 0 :=
    ne_of_gt (lineV_pos hM (d := .x) rfl h1 hn)
  apply diff_sph1_quadratic (M.axis .x) _ _ h (M.ax.cen c.1) _ _ (c.get .x) h1 hh hV0 hu0 hu1 hu2
  · show lineV M .x c.1 = _
    rw [lineV_sph1 hk, hM.wx.fc_hi c.1 h1 hn, hM.wx.fc_lo c.1 h1 hn, hu1]
  · show lineA M .x c.1 = _
    rw [lineA_sph (Or.inl hk), hM.wx.fc_hi c.1 h1 hn, hu1]
  · show lineA M .x (c.1 - 1) = _
    rw [lineA_sph (Or.inl hk), hM.wx.fc_lo c.1 h1 hn, hu1]
  · rw [lineOf_get]; exact hD1
  · exact hD0
  · rw [lineOf_get]; exact hφ
  · exact hφe
  · exact hφw

/-! ## 5. convection -/

/-- central scheme, constant velocity `U`, uniform Cartesian axis, linear field of slope `b`:
    exactly `U·b` -/
theorem conv_cart_linear (a : Axis α) (h U b : α) (ul φl : ℕ → α) (i : ℕ)
    (hh : h ≠ 0) (hu0 : a.DX (i-1) = h) (hu1 : a.DX i = h) (hu2 : a.DX (i+1) = h)
    (hU1 : ul i = U) (hU0 : ul (i-1) = U)
    (hφe : φl (i+1) = φl i + b * h) (hφw : φl (i-1) = φl i - b * h) :
    (cartConvSt a ul i).lapp φl i = U * b := by
  simp only [cartConvSt, lineConvSt, St3.lapp, hu0, hu1, hu2, hU1, hU0, hφe, hφw]
  field_simp
  ring

/-- upwind scheme, `U > 0`, any cell but the first one (which carries the boundary correction;
    the last cell is fine: its correction multiplies `u⁻ = 0`): exactly `U·b` -/
theorem upwind_cart_linear_pos (a : Axis α) (h U b : α) (ul φl : ℕ → α) (i : ℕ)
    (hh : h ≠ 0) (hU : 0 < U) (hi : i ≠ 1) (hu1 : a.DX i = h)
    (hU1 : ul i = U) (hU0 : ul (i-1) = U) (hφw : φl (i-1) = φl i - b * h) :
    (cartUpwindSt a ul ul i).lapp φl i = U * b := by
  have n1 : ¬ (U < 0) := not_lt.mpr (le_of_lt hU)
  simp only [cartUpwindSt, lineUpwindSt, St3.lapp, luMin, luMax, hu1, hU1, hU0, hφw, eq_false hi,
    if_false, if_pos hU, if_neg n1]
  by_cases hn : i = a.n
  · simp only [eq_true hn, if_true]; field_simp; ring
  · simp only [eq_false hn, if_false]; field_simp; ring

/-- upwind scheme, `U < 0`, any cell but the last one: exactly `U·b` -/
theorem upwind_cart_linear_neg (a : Axis α) (h U b : α) (ul φl : ℕ → α) (i : ℕ)
    (hh : h ≠ 0) (hU : U < 0) (hi : i ≠ a.n) (hu1 : a.DX i = h)
    (hU1 : ul i = U) (hU0 : ul (i-1) = U) (hφe : φl (i+1) = φl i + b * h) :
    (cartUpwindSt a ul ul i).lapp φl i = U * b := by
  have n1 : ¬ (0 < U) := not_lt.mpr (le_of_lt hU)
  simp only [cartUpwindSt, lineUpwindSt, St3.lapp, luMin, luMax, hu1, hU1, hU0, hφe, eq_false hi,
    if_false, if_pos hU, if_neg n1]
  by_cases h1 : i = 1
  · simp only [eq_true h1, if_true]; field_simp; ring
  · simp only [eq_false h1, if_false]; field_simp; ring

/-- the same for the model stencils on a Cartesian mesh, any direction -/
theorem conv_cart_linear_mesh (M : Mesh α) (hk : M.kind.cartesian = true) (u : FaceFld α)
    (φ : CellFld α) (d : Dir) (c : Idx) (h U b : α) (hh : h ≠ 0)
    (hu0 : (M.axis d).DX (c.get d - 1) = h) (hu1 : (M.axis d).DX (c.get d) = h)
    (hu2 : (M.axis d).DX (c.get d + 1) = h)
    (hU1 : u d c = U) (hU0 : u d (c.prev d) = U)
    (hφe : φ (c.next d) = φ c + b * h) (hφw : φ (c.prev d) = φ c - b * h) :
    (convSt M u d c).app φ d c = U * b := by
  rw [St3.app_eq_lapp, convSt_cart hk]
  apply conv_cart_linear (M.axis d) h U b _ _ (c.get d) hh hu0 hu1 hu2
  · rw [lineOf_get]; exact hU1
  · exact hU0
  · rw [lineOf_get]; exact hφe
  · rw [lineOf_get]; exact hφw

theorem upwind_cart_linear_pos_mesh (M : Mesh α) (hk : M.kind.cartesian = true) (u : FaceFld α)
    (φ : CellFld α) (d : Dir) (c : Idx) (h U b : α) (hh : h ≠ 0) (hU : 0 < U)
    (hi : c.get d ≠ 1) (hu1 : (M.axis d).DX (c.get d) = h)
    (hU1 : u d c = U) (hU0 : u d (c.prev d) = U) (hφw : φ (c.prev d) = φ c - b * h) :
    (upwindSt M u u d c).app φ d c = U * b := by
  rw [St3.app_eq_lapp, upwindSt_cart hk]
  apply upwind_cart_linear_pos (M.axis d) h U b _ _ (c.get d) hh hU hi hu1
  · rw [lineOf_get]; exact hU1
  · exact hU0
  · rw [lineOf_get]; exact hφw

/-- constant face flux `A_f u_f = q` on both faces ⇒ zero discrete divergence along the line -/
theorem div_free_of_flux_const (M : Mesh α) (u : FaceFld α) (d : Dir) (c : Idx) (q : α)
    (h1 : lineA M d (c.get d) * u d c = q) (h0 : lineA M d (c.get d - 1) * u d (c.prev d) = q) :
    divD M u d c = 0 := by
  unfold divD; rw [h1, h0, sub_self, zero_div]

/-- cylindrical / polar grids: `u_r = q / r` is discretely divergence free -/
theorem div_free_radial_cyl (M : Mesh α) (hk : M.kind.cylR = true) (u : FaceFld α) (c : Idx) (q : α)
    (hf1 : M.ax.fc c.1 ≠ 0) (hf0 : M.ax.fc (c.1 - 1) ≠ 0)
    (hu1 : u .x c = q / M.ax.fc c.1) (hu0 : u .x (c.prev .x) = q / M.ax.fc (c.1 - 1)) :
    divD M u .x c = 0 := by
  apply div_free_of_flux_const M u .x c q
  · show lineA M .x c.1 * _ = q
    rw [lineA_cylR hk, hu1]; field_simp
  · show lineA M .x (c.1 - 1) * _ = q
    rw [lineA_cylR hk, hu0]; field_simp

/-- spherical grids: `u_r = q / r²` is discretely divergence free -/
theorem div_free_radial_sph (M : Mesh α) (hk : M.kind = .sph1 ∨ M.kind = .sph3) (u : FaceFld α)
    (c : Idx) (q : α) (hf1 : M.ax.fc c.1 ≠ 0) (hf0 : M.ax.fc (c.1 - 1) ≠ 0)
    (hu1 : u .x c = q / M.ax.fc c.1 ^ 2) (hu0 : u .x (c.prev .x) = q / M.ax.fc (c.1 - 1) ^ 2) :
    divD M u .x c = 0 := by
  apply div_free_of_flux_const M u .x c q
  · show lineA M .x c.1 * _ = q
    rw [lineA_sph hk, hu1]; field_simp
  · show lineA M .x (c.1 - 1) * _ = q
    rw [lineA_sph hk, hu0]; field_simp

/-- hence radial convection (central or upwind) of a constant field vanishes -/
theorem conv_radial_const_zero (M : Mesh α) (u : FaceFld α) (k : α) (c : Idx)
    (hL : LineOK M .x c) (hdiv : divD M u .x c = 0) :
    (convSt M u .x c).app (fun _ => k) .x c = 0 ∧
    (c.get .x ≤ M.n .x → (upwindSt M u u .x c).app (fun _ => k) .x c = 0) := by
  constructor
  · rw [convSt_const M u k .x c hL, hdiv, mul_zero]
  · intro hn
    rw [upwindSt_const M u u k .x c hL hn (upOK_self u), hdiv, mul_zero]

/-! ## 6. Robin ghost values are exact for linear fields -/

/-- high side: `φ(x) = p + s·x`, boundary face at `x_b`, adjacent centre `x_b − h/2`, ghost centre
    `x_b + h/2` (`h = DX (n+1)`, which equals `DX n` on a well-formed axis), boundary data
    `c = a·(s/m) + b·φ(x_b)` (`s/m` is the physical derivative; `m = 1` on Cartesian and radial
    lines): the ghost value is exactly `φ(x_b + h/2)` -/
theorem ghostHi_linear_exact (M : Mesh α) (bc : BCs α) (φ : CellFld α) (d : Dir) (c : Idx)
    (p s xb h : α) (hper : bc.periodicDir d = false) (hm : lineM M d c ≠ 0)
    (hh : (M.axis d).DX (M.n d + 1) = h) (h0 : h ≠ 0)
    (hφ : φ c = p + s * (xb - h / 2))
    (hc : (bc.hi d).c c = (bc.hi d).a c * (s / lineM M d c) + (bc.hi d).b c * (p + s * xb))
    (hg : hiGhostCoef M bc d c ≠ 0) :
    ghostHi M bc φ d c = some (p + s * (xb + h / 2)) := by
  unfold ghostHi sdiv
  simp only [hper, eq_false hg, if_false, Bool.false_eq_true]
  congr 1
  rw [div_eq_iff hg, hc, hφ]
  simp only [hiGhostCoef, hiCellCoef, hh]
  field_simp
  ring

/-- low side: boundary face at `x_b`, adjacent centre `x_b + h/2`, ghost centre `x_b − h/2`,
    `h = DX 0` (`= DX 1` on a well-formed axis) -/
theorem ghostLo_linear_exact (M : Mesh α) (bc : BCs α) (φ : CellFld α) (d : Dir) (c : Idx)
    (p s xb h : α) (hper : bc.periodicDir d = false) (hm : lineM M d c ≠ 0)
    (hh : (M.axis d).DX 0 = h) (h0 : h ≠ 0)
    (hφ : φ c = p + s * (xb + h / 2))
    (hc : (bc.lo d).c c = (bc.lo d).a c * (s / lineM M d c) + (bc.lo d).b c * (p + s * xb))
    (hg : loGhostCoef M bc d c ≠ 0) :
    ghostLo M bc φ d c = some (p + s * (xb - h / 2)) := by
  unfold ghostLo sdiv
  simp only [hper, eq_false hg, if_false, Bool.false_eq_true]
  congr 1
  rw [div_eq_iff hg, hc, hφ]
  simp only [loGhostCoef, loCellCoef, hh]
  field_simp
  ring

/-- the ghost spacing the gradient uses at a boundary face is the cell size of the adjacent cell:
    `dxf 0 = DX 1`, `dxf n = DX n` -/
theorem boundary_dxf {a : Axis α} (h : a.WF) : a.dxf 0 = a.DX 1 ∧ a.dxf a.n = a.DX a.n := by
  unfold Axis.dxf
  rw [h.ghost0, h.ghostN]
  constructor <;> ring

/-! ## 7. abstract error bound (discrete maximum principle) -/

/-- rows `Σ_j a_ij e_j = τ_i` with `a_ij ≤ 0` (`j ≠ i`) and row sums `≥ w > 0`:
    `max_i |e_i| ≤ (1/w) max_i |τ_i|`, in the form: the maximal error is bounded by the
    truncation error of its own row -/
theorem error_bound {ι : Type} [Fintype ι] [Nonempty ι] (A : ι → ι → α) (e τ : ι → α) (w : α)
    (hw : 0 < w) (hrow : ∀ i, ∑ j, A i j * e j = τ i) (hoff : ∀ i j, j ≠ i → A i j ≤ 0)
    (hsum : ∀ i, w ≤ ∑ j, A i j) :
    ∃ k, ∀ i, |e i| ≤ |τ k| / w :=
  mmatrix_error_bound A e τ w hw hrow hoff hsum

/-- with a uniform bound `T` on the truncation errors (no non-emptiness needed) -/
theorem error_bound_unif {ι : Type} [Fintype ι] (A : ι → ι → α) (e τ : ι → α) (w T : α)
    (hw : 0 < w) (hrow : ∀ i, ∑ j, A i j * e j = τ i) (hoff : ∀ i j, j ≠ i → A i j ≤ 0)
    (hsum : ∀ i, w ≤ ∑ j, A i j) (hT : ∀ i, |τ i| ≤ T) :
    ∀ i, |e i| ≤ (1 / w) * T := by
  intro i
  have : Nonempty ι := ⟨i⟩
  obtain ⟨k, hk⟩ := mmatrix_error_bound A e τ w hw hrow hoff hsum
  calc |e i| ≤ |τ k| / w := hk i
    _ ≤ T / w := div_le_div_of_nonneg_right (hT k) (le_of_lt hw)
    _ = (1 / w) * T := by ring

/-! ## 8. non-vacuity over ℚ -/

/-- cylindrical: cell 2 (`r_c = 3/2`, `h = 1`), `φ = r²` gives exactly `4` on the concrete mesh -/
example (D : FaceFld ℚ) (φ : CellFld ℚ) (hD1 : D .x (2,1,1) = 1) (hD0 : D .x (1,1,1) = 1)
    (hφ : φ (2,1,1) = (3/2) ^ 2) (hφe : φ (3,1,1) = (5/2) ^ 2) (hφw : φ (1,1,1) = (1/2) ^ 2) :
    (diffSt (meshU .cyl1) D .x (2,1,1)).app φ .x (2,1,1) = 4 := by
  have hc : (meshU .cyl1).ax.cen 2 = 3/2 := by norm_num [meshU, axU, mkAxisNL]
  apply diff_cyl_quadratic_mesh (meshU .cyl1) (meshU_WF _) rfl D φ (2,1,1) 1
    (by norm_num) (by norm_num [meshU, axU, mkAxisNL])
    (by norm_num [meshU, axU, mkAxisNL]) (by norm_num [meshU, axU, mkAxisNL])
    (by norm_num [meshU, axU, mkAxisNL]) hD1 hD0
  · rw [hc]; exact hφ
  · rw [hc]; show φ (3,1,1) = _; rw [hφe]; norm_num
  · rw [hc]; show φ (1,1,1) = _; rw [hφw]; norm_num

/-- spherical 3-D: the same cell gives `6 + 1/(2·(3/2)²) = 56/9` -/
example (D : FaceFld ℚ) (φ : CellFld ℚ) (hD1 : D .x (2,1,1) = 1) (hD0 : D .x (1,1,1) = 1)
    (hφ : φ (2,1,1) = (3/2) ^ 2) (hφe : φ (3,1,1) = (5/2) ^ 2) (hφw : φ (1,1,1) = (1/2) ^ 2) :
    (diffSt (meshU .sph3) D .x (2,1,1)).app φ .x (2,1,1) = 56 / 9 := by
  have hc : (meshU .sph3).ax.cen 2 = 3/2 := by norm_num [meshU, axU, mkAxisNL]
  have := diff_sph3_quadratic_mesh (meshU .sph3) (meshU_WF _) rfl D φ (2,1,1) 1
    (by norm_num) (by norm_num [meshU, axU, mkAxisNL])
    (by norm_num [meshU, axU, mkAxisNL]) (by norm_num [meshU, axU, mkAxisNL])
    (by norm_num [meshU, axU, mkAxisNL]) hD1 hD0
    (by rw [hc]; exact hφ) (by rw [hc]; show φ (3,1,1) = _; rw [hφe]; norm_num)
    (by rw [hc]; show φ (1,1,1) = _; rw [hφw]; norm_num)
  rw [this, hc]; norm_num

/-- spherical 1-D: exactly `6` -/
example (D : FaceFld ℚ) (φ : CellFld ℚ) (hD1 : D .x (2,1,1) = 1) (hD0 : D .x (1,1,1) = 1)
    (hφ : φ (2,1,1) = (3/2) ^ 2) (hφe : φ (3,1,1) = (5/2) ^ 2) (hφw : φ (1,1,1) = (1/2) ^ 2) :
    (diffSt (meshU .sph1) D .x (2,1,1)).app φ .x (2,1,1) = 6 := by
  have hc : (meshU .sph1).ax.cen 2 = 3/2 := by norm_num [meshU, axU, mkAxisNL]
  apply diff_sph1_quadratic_mesh (meshU .sph1) (meshU_WF _) rfl D φ (2,1,1) 1
    (by norm_num) (by norm_num [meshU, axU, mkAxisNL])
    (by norm_num [meshU, axU, mkAxisNL]) (by norm_num [meshU, axU, mkAxisNL])
    (by norm_num [meshU, axU, mkAxisNL]) hD1 hD0
  · rw [hc]; exact hφ
  · rw [hc]; show φ (3,1,1) = _; rw [hφe]; norm_num
  · rw [hc]; show φ (1,1,1) = _; rw [hφw]; norm_num

/-- linear field on the non-uniform example mesh (sizes 1, 2, 3): the hypotheses of
    `diff_cart_linear_zero_WF` are satisfiable, in every cell of the line through `(·,1,1)` -/
example (i : ℕ) (h1 : 1 ≤ i) (hn : i ≤ 3) :
    (diffSt (Examples.mesh .cart1) (fun _ _ => 5) .x (i,1,1)).app
      (fun c => 7 + 2 * (Examples.mesh .cart1).ax.xc c.1) .x (i,1,1) = 0 :=
  diff_cart_linear_zero_WF (Examples.mesh .cart1) (Examples.mesh_WF _) rfl _ _ .x (i,1,1) 5 7 2
    h1 hn (fun _ => rfl) (fun _ => rfl)

/-- uniform Cartesian axis (`h = 1`), `φ_j = (j − 1/2)²`: the hypotheses of
    `diff_cart_quadratic_uniform` hold in cell 2 -/
example : (cartDiffSt axU (fun _ => 1) 2).lapp (fun j => ((j : ℚ) - 1/2) ^ 2) 2 = 2 :=
  diff_cart_quadratic_uniform axU 1 (3/2) _ _ 2 (by norm_num)
    (fun j => by norm_num [axU, mkAxisNL]) rfl rfl (by norm_num) (by norm_num) (by norm_num)

/-- non-uniform axis with sizes 1, 2, 3 (cell 2): the hypotheses of
    `diff_cart_quadratic_nonuniform` are satisfiable for any `x` -/
example (x : ℚ) :
    (cartDiffSt Examples.ax3 (fun _ => 1) 2).lapp
      (fun j => if j = 2 then x ^ 2 else if j = 3 then (x + Examples.ax3.dxf 2) ^ 2
        else (x - Examples.ax3.dxf 1) ^ 2) 2
      = 1 + (Examples.ax3.DX 3 + Examples.ax3.DX 1) / (2 * Examples.ax3.DX 2) :=
  diff_cart_quadratic_nonuniform Examples.ax3 x _ _ 2 (by norm_num) Examples.ax3_WF.pos rfl rfl
    (by simp) (by simp) (by simp)

/-- central and upwind convection on the uniform axis, `φ_j = 3 + 5 j` -/
example : (cartConvSt axU (fun _ => 7) 2).lapp (fun j => 3 + 5 * (j : ℚ)) 2 = 7 * 5 :=
  conv_cart_linear axU 1 7 5 _ _ 2 (by norm_num) (by norm_num [axU, mkAxisNL])
    (by norm_num [axU, mkAxisNL]) (by norm_num [axU, mkAxisNL]) rfl rfl (by norm_num) (by norm_num)

example : (cartUpwindSt axU (fun _ => 7) (fun _ => 7) 2).lapp (fun j => 3 + 5 * (j : ℚ)) 2 = 7 * 5 :=
  upwind_cart_linear_pos axU 1 7 5 _ _ 2 (by norm_num) (by norm_num) (by norm_num)
    (by norm_num [axU, mkAxisNL]) rfl rfl (by norm_num)

/-- `u_r = q / r` on the concrete cylindrical mesh: faces of cell 2 are at `r = 1` and `r = 2` -/
example (q : ℚ) :
    divD (meshU .cyl1) (fun _ c => q / (meshU .cyl1).ax.fc c.1) .x (2,1,1) = 0 :=
  div_free_radial_cyl (meshU .cyl1) rfl _ (2,1,1) q (by norm_num [meshU, axU, mkAxisNL])
    (by norm_num [meshU, axU, mkAxisNL]) rfl rfl

/-- Robin data `a = 1, b = 1` on the right end (`x_b = 7`, last cell size 3) of the non-uniform
    example mesh, `φ(x) = x`: ghost coefficient `1/3 + 1/2 ≠ 0`, ghost value `7 + 3/2` -/
example (φ : CellFld ℚ) (hφ : φ (3,1,1) = 0 + 1 * (7 - 3 / 2)) :
    ghostHi (Examples.mesh .cart1)
      ⟨fun _ => ⟨fun _ => 0, fun _ => 1, fun _ => 0, false⟩,
       fun _ => ⟨fun _ => 1, fun _ => 1, fun _ => 1 * (1 / 1) + 1 * (0 + 1 * 7), false⟩⟩
      φ .x (3,1,1) = some (0 + 1 * (7 + 3 / 2)) := by
  apply ghostHi_linear_exact _ _ φ .x (3,1,1) 0 1 7 3 rfl
  · norm_num [lineM, Examples.mesh]
  · norm_num [Examples.mesh, Examples.ax3, mkAxisFaces, Mesh.n, Mesh.axis, Examples.f3]
  · norm_num
  · exact hφ
  · norm_num [lineM, Examples.mesh]
  · norm_num [hiGhostCoef, lineM, Examples.mesh, Examples.ax3, mkAxisFaces, Mesh.n, Mesh.axis,
      Examples.f3]

/-- a strictly diagonally dominant 2×2 system for `error_bound` -/
example : ∃ (A : Bool → Bool → ℚ) (w : ℚ), 0 < w ∧ (∀ i j, j ≠ i → A i j ≤ 0) ∧
    ∀ i, w ≤ ∑ j, A i j :=
  ⟨fun i j => if i = j then 3 else -1, 2, by norm_num, by
    intro i j h
    have : ¬ i = j := fun h' => h h'.symm
    simp [this], by
    intro i; cases i <;> simp <;> norm_num⟩

end PyFV.C02
