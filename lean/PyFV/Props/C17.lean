/-
  Property C17 — dimensional homogeneity: rescaling lengths by `L`, time by `T` and the field
  by `K` (every input according to its physical dimension) rescales the solution by exactly `K`;
  every term is linear in its coefficient field.
-/
import PyFV.Lemmas.Scaling
import PyFV.Props.Examples

set_option linter.unusedSectionVars false

namespace PyFV.C17
open PyFV

variable {α : Type} [Field α] [LinearOrder α] [IsStrictOrderedRing α]

/-! ### 1. metric homogeneity -/

/-- volume weights: `lineV` is homogeneous of degree `eV kind d` in the unit of length -/
theorem lineV_homog (L : α) (M : Mesh α) (d : Dir) (i : ℕ) :
    lineV (M.scale L) d i = L ^ eV M.kind d * lineV M d i := lineV_scale L M d i

/-- face area factors: degree `eA kind d` -/
theorem lineA_homog (L : α) (M : Mesh α) (d : Dir) (f : ℕ) :
    lineA (M.scale L) d f = L ^ eA M.kind d * lineA M d f := lineA_scale L M d f

/-- metric scale of a line: degree `eM kind d` -/
theorem lineM_homog (L : α) (M : Mesh α) (d : Dir) (c : Idx) :
    lineM (M.scale L) d c = L ^ eM M.kind d * lineM M d c := lineM_scale L M d c

/-- centre distances: degree `eX kind d` (1 for a length-like coordinate, 0 for an angle) -/
theorem dxf_homog (L : α) (M : Mesh α) (d : Dir) (f : ℕ) :
    ((M.scale L).axis d).dxf f = L ^ eX M.kind d * (M.axis d).dxf f := dxf_scale L M d f

/-- cell sizes: degree `eX kind d` -/
theorem DX_homog (L : α) (M : Mesh α) (d : Dir) (i : ℕ) :
    ((M.scale L).axis d).DX i = L ^ eX M.kind d * (M.axis d).DX i := DX_scale L M d i

/-- `eX` is the indicator of the length-like coordinates -/
theorem pow_eX_eq (L : α) (k : Kind) (d : Dir) :
    L ^ eX k d = if k.lengthLike d then L else 1 := pow_eX L k d

/-- the table of exponents `(eV, eA, eM, eX)`: Cartesian `(1,0,0,1)`; cylindrical/polar radius
    `(2,1,0,1)`; spherical radius `(3,2,0,1)`; polar / cylindrical angle `(0,0,1,0)`; spherical
    θ `(0,0,1,0)` and φ `(0,0,1,0)`; axial `z` of `cyl2`/`cyl3` `(1,0,0,1)` -/
theorem exponent_table :
    (eV .cart1 .x, eA .cart1 .x, eM .cart1 .x, eX .cart1 .x) = (1, 0, 0, 1) ∧
    (eV .cart2 .y, eA .cart2 .y, eM .cart2 .y, eX .cart2 .y) = (1, 0, 0, 1) ∧
    (eV .cart3 .z, eA .cart3 .z, eM .cart3 .z, eX .cart3 .z) = (1, 0, 0, 1) ∧
    (eV .cyl1 .x, eA .cyl1 .x, eM .cyl1 .x, eX .cyl1 .x) = (2, 1, 0, 1) ∧
    (eV .cyl2 .x, eA .cyl2 .x, eM .cyl2 .x, eX .cyl2 .x) = (2, 1, 0, 1) ∧
    (eV .cyl2 .y, eA .cyl2 .y, eM .cyl2 .y, eX .cyl2 .y) = (1, 0, 0, 1) ∧
    (eV .pol2 .x, eA .pol2 .x, eM .pol2 .x, eX .pol2 .x) = (2, 1, 0, 1) ∧
    (eV .pol2 .y, eA .pol2 .y, eM .pol2 .y, eX .pol2 .y) = (0, 0, 1, 0) ∧
    (eV .cyl3 .x, eA .cyl3 .x, eM .cyl3 .x, eX .cyl3 .x) = (2, 1, 0, 1) ∧
    (eV .cyl3 .y, eA .cyl3 .y, eM .cyl3 .y, eX .cyl3 .y) = (0, 0, 1, 0) ∧
    (eV .cyl3 .z, eA .cyl3 .z, eM .cyl3 .z, eX .cyl3 .z) = (1, 0, 0, 1) ∧
    (eV .sph1 .x, eA .sph1 .x, eM .sph1 .x, eX .sph1 .x) = (3, 2, 0, 1) ∧
    (eV .sph3 .x, eA .sph3 .x, eM .sph3 .x, eX .sph3 .x) = (3, 2, 0, 1) ∧
    (eV .sph3 .y, eA .sph3 .y, eM .sph3 .y, eX .sph3 .y) = (0, 0, 1, 0) ∧
    (eV .sph3 .z, eA .sph3 .z, eM .sph3 .z, eX .sph3 .z) = (0, 0, 1, 0) := by
  repeat' apply And.intro
  all_goals rfl

/-- the two balances all term theorems rest on: along every active direction of every grid class
    `m·V` has one more power of length than `A`, and `m·dx` is a length -/
theorem exponent_balance {k : Kind} {d : Dir} (h : k.active d = true) :
    eM k d + eV k d = eA k d + 1 ∧ eM k d + eX k d = 1 :=
  ⟨eM_add_eV h, eM_add_eX h⟩

/-- the balances fail on the inactive unit axes (which is why terms never act along them) -/
theorem exponent_balance_inactive_counterexample :
    Kind.active .cart1 .y = false ∧ eM .cart1 .y + eX .cart1 .y ≠ 1 := by decide

/-! ### 2. operators -/

/-- diffusion stencil with `D` in `L²/T`: every entry × `1/T` -/
theorem diffSt_homog {L T : α} (hL : L ≠ 0) (hT : T ≠ 0) (M : Mesh α) (D : FaceFld α) {d : Dir}
    (hd : M.kind.active d = true) (c : Idx) :
    diffSt (M.scale L) (FaceFld.smul (L ^ 2 / T) D) d c = St3.smul (1 / T) (diffSt M D d c) := by
  rw [diffSt_eq, diffSt_eq]
  simp only [rA_scale hL M hd, gD_scale L M hd, FaceFld.smul, St3.smul, St3.mk.injEq]
  refine ⟨?_, ?_, ?_⟩ <;> field_simp

/-- central convection stencil with `u` in `L/T`: every entry × `1/T` -/
theorem convSt_homog {L T : α} (hL : L ≠ 0) (hT : T ≠ 0) (M : Mesh α) (u : FaceFld α) {d : Dir}
    (hd : M.kind.active d = true) (c : Idx) :
    convSt (M.scale L) (FaceFld.smul (L / T) u) d c = St3.smul (1 / T) (convSt M u d c) := by
  rw [convSt_eq, convSt_eq]
  simp only [rA_scale hL M hd, wR_scale hL, FaceFld.smul, St3.smul, St3.mk.injEq]
  refine ⟨?_, ?_, ?_⟩ <;> field_simp

/-- upwind stencil (boundary-cell corrections included) with `u` and the direction field both in
    `L/T`: every entry × `1/T`; positivity of `L/T` keeps the upwind directions -/
theorem upwindSt_homog {L T : α} (hL : 0 < L) (hT : 0 < T) (M : Mesh α) (u uUp : FaceFld α)
    {d : Dir} (hd : M.kind.active d = true) (c : Idx) :
    upwindSt (M.scale L) (FaceFld.smul (L / T) u) (FaceFld.smul (L / T) uUp) d c
      = St3.smul (1 / T) (upwindSt M u uUp d c) := by
  have hs : 0 < L / T := div_pos hL hT
  have hL' : L ≠ 0 := ne_of_gt hL
  have hT' : T ≠ 0 := ne_of_gt hT
  rw [upwindSt_eq, upwindSt_eq]
  simp only [rA_scale hL' M hd, uMin_smul hs, uMax_smul hs, Mesh.scale_n, St3.smul, St3.mk.injEq]
  refine ⟨?_, ?_, ?_⟩ <;> split_ifs <;> field_simp

/-- divergence along `d` of a face field scaled by `s`: × `s/L` -/
theorem divD_homog {L : α} (hL : L ≠ 0) (s : α) (M : Mesh α) (F : FaceFld α) {d : Dir}
    (hd : M.kind.active d = true) (c : Idx) :
    divD (M.scale L) (FaceFld.smul s F) d c = s / L * divD M F d c := by
  rw [divD_eq, divD_eq, rA_scale hL M hd, rA_scale hL M hd]
  simp only [FaceFld.smul]
  field_simp

/-- gradient along `d` of a cell field scaled by `K`: × `K/L` -/
theorem gradD_homog {L : α} (hL : L ≠ 0) (K : α) (M : Mesh α) (φ : CellFld α) {d : Dir}
    (hd : M.kind.active d = true) (c : Idx) :
    gradD (M.scale L) (CellFld.smul K φ) d c = K / L * gradD M φ d c := by
  rw [gradD_eq, gradD_eq, gD_scale L M hd]
  simp only [CellFld.smul]
  field_simp

/-- the linear face mean does not see the unit of length -/
theorem linMean_homog {L : α} (hL : L ≠ 0) (K : α) (M : Mesh α) (φ : CellFld α) (d : Dir)
    (c : Idx) : linMean (M.scale L) (CellFld.smul K φ) d c = K * linMean M φ d c := by
  simp only [linMean, DX_scale, CellFld.smul]
  rw [show L ^ eX M.kind d * (M.axis d).DX (c.get d + 1) * (K * φ c)
        + L ^ eX M.kind d * (M.axis d).DX (c.get d) * (K * φ (c.next d))
      = L ^ eX M.kind d * (K * ((M.axis d).DX (c.get d + 1) * φ c
        + (M.axis d).DX (c.get d) * φ (c.next d))) by ring,
    ← mul_add, mul_div_mul_left _ _ (pow_ne hL _), mul_div_assoc]

theorem diffusionRow_homog {L T : α} (hL : L ≠ 0) (hT : T ≠ 0) (M : Mesh α) (D : FaceFld α)
    (c : Idx) :
    diffusionRow (M.scale L) (FaceFld.smul (L ^ 2 / T) D) c
      = St7.smul (1 / T) (diffusionRow M D c) := by
  unfold diffusionRow
  rw [Mesh.scale_kind, ← St7.ofDirs_smul]
  exact St7.ofDirs_congr _ _ _ (fun d hd => diffSt_homog hL hT M D hd c)

theorem convectionRow_homog {L T : α} (hL : L ≠ 0) (hT : T ≠ 0) (M : Mesh α) (u : FaceFld α)
    (c : Idx) :
    convectionRow (M.scale L) (FaceFld.smul (L / T) u) c
      = St7.smul (1 / T) (convectionRow M u c) := by
  unfold convectionRow
  rw [Mesh.scale_kind, ← St7.ofDirs_smul]
  exact St7.ofDirs_congr _ _ _ (fun d hd => convSt_homog hL hT M u hd c)

theorem upwindRow_homog {L T : α} (hL : 0 < L) (hT : 0 < T) (M : Mesh α) (u uUp : FaceFld α)
    (c : Idx) :
    upwindRow (M.scale L) (FaceFld.smul (L / T) u) (FaceFld.smul (L / T) uUp) c
      = St7.smul (1 / T) (upwindRow M u uUp c) := by
  unfold upwindRow
  rw [Mesh.scale_kind, ← St7.ofDirs_smul]
  exact St7.ofDirs_congr _ _ _ (fun d hd => upwindSt_homog hL hT M u uUp hd c)

theorem divergence_homog {L : α} (hL : L ≠ 0) (s : α) (M : Mesh α) (F : FaceFld α) (c : Idx) :
    divergence (M.scale L) (FaceFld.smul s F) c = s / L * divergence M F c := by
  unfold divergence
  rw [Mesh.scale_kind, ← sumDirs_mul]
  exact sumDirs_congr _ _ _ (fun d hd => divD_homog hL s M F hd c)

/-! ### 3. sources and the transient term -/

theorem linearSrcRow_homog (T : α) (β : CellFld α) (c : Idx) :
    linearSrcRow (CellFld.smul (1 / T) β) c = St7.smul (1 / T) (linearSrcRow β c) := by
  simp only [linearSrcRow, St7.smul_diag, CellFld.smul]

theorem constSrcRHS_homog (T K : α) (γ : CellFld α) (c : Idx) :
    constSrcRHS (CellFld.smul (K / T) γ) c = K / T * constSrcRHS γ c := rfl

theorem transientRow_homog (T dt : α) (alpha : CellFld α) (c : Idx) :
    transientRow (T * dt) alpha c = St7.smul (1 / T) (transientRow dt alpha c) := by
  simp only [transientRow, St7.smul_diag]
  congr 1; ring

theorem transientRHS_homog (T K dt : α) (old alpha : CellFld α) (c : Idx) :
    transientRHS (CellFld.smul K old) (T * dt) alpha c = K / T * transientRHS old dt alpha c := by
  simp only [transientRHS, CellFld.smul]; ring

/-! ### 4. TVD correction -/

/-- the difference quotient of the TVD ratios: × `K/L_d`, `L_d = L ^ eX kind d`
    (`L` along a length-like coordinate, `1` along an angle) -/
theorem dphi_homog (L K : α) (M : Mesh α) (φ : CellFld α) (d : Dir) (c : Idx) :
    dphi (M.scale L) (CellFld.smul K φ) d c = K / L ^ eX M.kind d * dphi M φ d c := by
  simp only [dphi, dxf_scale, CellFld.smul]; ring

/-- outside the threshold band `_fsign` is the identity -/
theorem fsign_of_ge {e x : α} (he : 0 < e) (h : e ≤ |x|) : fsign e x = x := by
  have hx : x ≠ 0 := abs_pos.mp (lt_of_lt_of_le he h)
  have h2 : ¬ |x| < e := not_lt.mpr h
  simp [fsign, h, hx, h2]

theorem fsign_smul_of_ge {e s x : α} (he : 0 < e) (h1 : e ≤ |x|) (h2 : e ≤ |s * x|) :
    fsign e (s * x) = s * fsign e x := by
  rw [fsign_of_ge he h1, fsign_of_ge he h2]

/-- at a vanishing difference `_fsign` returns the absolute threshold -/
theorem fsign_zero (e : α) : fsign e 0 = e := by
  simp [fsign]

/-- inside the band `_fsign` returns the signed threshold, whatever the magnitude -/
theorem fsign_of_pos_lt {e x : α} (h0 : 0 < x) (h : x < e) : fsign e x = e := by
  have h1 : |x| = x := abs_of_pos h0
  have h2 : ¬ e ≤ x := not_le.mpr h
  have h3 : x ≠ 0 := ne_of_gt h0
  simp [fsign, h1, h2, h3, h, h0]

theorem psiP_homog {e : α} (he : 0 < e) (L K : α) (M : Mesh α) (FL : α → α) (φ : CellFld α)
    (d : Dir) (c : Idx)
    (hb : φ (c.next d) = φ c ∨
      (e ≤ |dphi M φ d c| ∧ e ≤ |dphi (M.scale L) (CellFld.smul K φ) d c|)) :
    psiP (M.scale L) FL e (CellFld.smul K φ) d c = K * psiP M FL e φ d c := by
  unfold psiP
  by_cases h0 : c.get d = 0
  · simp [h0]
  · simp only [if_neg h0]
    rcases hb with hb | ⟨h1, h2⟩
    · simp [CellFld.smul, hb]
    · rw [fsign_of_ge he h1, fsign_of_ge he h2]
      have hne : K / L ^ eX M.kind d ≠ 0 := by
        rw [dphi_homog] at h2
        have : K / L ^ eX M.kind d * dphi M φ d c ≠ 0 := abs_pos.mp (lt_of_lt_of_le he h2)
        exact left_ne_zero_of_mul this
      rw [dphi_homog, dphi_homog, mul_div_mul_left _ _ hne]
      simp only [CellFld.smul]; ring

theorem psiM_homog {e : α} (he : 0 < e) (L K : α) (M : Mesh α) (FL : α → α) (φ : CellFld α)
    (d : Dir) (c : Idx)
    (hb : φ (c.next d) = φ c ∨
      (e ≤ |dphi M φ d c| ∧ e ≤ |dphi (M.scale L) (CellFld.smul K φ) d c|)) :
    psiM (M.scale L) FL e (CellFld.smul K φ) d c = K * psiM M FL e φ d c := by
  unfold psiM
  rw [Mesh.scale_n]
  by_cases h0 : c.get d = M.n d
  · simp [h0]
  · simp only [if_neg h0]
    rcases hb with hb | ⟨h1, h2⟩
    · simp [CellFld.smul, hb]
    · rw [fsign_of_ge he h1, fsign_of_ge he h2]
      have hne : K / L ^ eX M.kind d ≠ 0 := by
        rw [dphi_homog] at h2
        have : K / L ^ eX M.kind d * dphi M φ d c ≠ 0 := abs_pos.mp (lt_of_lt_of_le he h2)
        exact left_ne_zero_of_mul this
      rw [dphi_homog, dphi_homog, mul_div_mul_left _ _ hne]
      simp only [CellFld.smul]; ring

/-- TVD face flux: × `(L/T)·K`, for every flux limiter `FL` -/
theorem tvdFlux_homog {e L T : α} (he : 0 < e) (hL : 0 < L) (hT : 0 < T) (K : α) (M : Mesh α)
    (u uUp : FaceFld α) (FL : α → α) (φ : CellFld α) (hb : OutsideBand e M φ K L) :
    tvdFlux (M.scale L) (FaceFld.smul (L / T) u) (FaceFld.smul (L / T) uUp) FL e
        (CellFld.smul K φ)
      = FaceFld.smul (L / T * K) (tvdFlux M u uUp FL e φ) := by
  have hs : 0 < L / T := div_pos hL hT
  funext d c
  simp only [tvdFlux, FaceFld.smul]
  rw [uMax_smul hs, uMin_smul hs, psiP_homog he L K M FL φ d c (hb d c),
    psiM_homog he L K M FL φ d c (hb d c)]
  ring

/-- TVD right-hand side: × `K/T`, for every flux limiter, on every grid class -/
theorem tvdRHS_homog {e L T : α} (he : 0 < e) (hL : 0 < L) (hT : 0 < T) (K : α) (M : Mesh α)
    (u uUp : FaceFld α) (FL : α → α) (φ : CellFld α) (hb : OutsideBand e M φ K L) (c : Idx) :
    tvdRHS (M.scale L) (FaceFld.smul (L / T) u) (FaceFld.smul (L / T) uUp) FL e
        (CellFld.smul K φ) c
      = K / T * tvdRHS M u uUp FL e φ c := by
  have hL' : L ≠ 0 := ne_of_gt hL
  have hT' : T ≠ 0 := ne_of_gt hT
  unfold tvdRHS
  rw [tvdFlux_homog he hL hT K M u uUp FL φ hb, divergence_homog hL']
  field_simp

/-- The hypothesis `OutsideBand` cannot be dropped: the threshold `eps1` of `_fsign` is an
    absolute number, not a dimensionless one.  On the Cartesian example mesh, with the van Leer
    limiter, `eps1 = 10⁻¹⁶`, unit velocity and the field `φ_i = i·10⁻²⁰` (differences inside the
    band), the TVD right-hand side in the units `L = 1000, T = 1/60, K = 7` is NOT `K/T` times
    the original one. -/
theorem tvd_band_counterexample :
    let M := Examples.mesh .cart1
    let FL : ℚ → ℚ := fun r => (r + |r|) / (1 + |r|)
    let e : ℚ := 1 / 10 ^ 16
    let φ : CellFld ℚ := fun c => (c.1 : ℚ) / 10 ^ 20
    let u : FaceFld ℚ := fun _ _ => 1
    let L : ℚ := 1000
    let T : ℚ := 1 / 60
    let K : ℚ := 7
    tvdRHS (M.scale L) (FaceFld.smul (L / T) u) (FaceFld.smul (L / T) u) FL e
        (CellFld.smul K φ) (2, 1, 1)
      ≠ K / T * tvdRHS M u u FL e φ (2, 1, 1) := by
  decide +kernel

/-- in that counterexample the difference quotients are indeed inside the band, before and
    after the change of units -/
example :
    let M := Examples.mesh .cart1
    let φ : CellFld ℚ := fun c => (c.1 : ℚ) / 10 ^ 20
    0 < |dphi M φ .x (2, 1, 1)| ∧ |dphi M φ .x (2, 1, 1)| < 1 / 10 ^ 16 ∧
    0 < |dphi (M.scale 1000) (CellFld.smul 7 φ) .x (2, 1, 1)| ∧
    |dphi (M.scale 1000) (CellFld.smul 7 φ) .x (2, 1, 1)| < 1 / 10 ^ 16 := by
  decide +kernel

/-! ### 5. boundary conditions -/

/-- ghost value beyond the high end: × `K` (a division by zero stays a division by zero) -/
theorem ghostHi_homog {L : α} (hL : L ≠ 0) (K : α) (M : Mesh α) (bc : BCs α) (φ : CellFld α)
    {d : Dir} (hd : M.kind.active d = true) (c : Idx) :
    ghostHi (M.scale L) (bc.scaleUnits L K) (CellFld.smul K φ) d c
      = (ghostHi M bc φ d c).map (K * ·) := by
  unfold ghostHi
  rw [BCs.scaleUnits_periodicDir, hiCellCoef_scale hL K M bc hd, hiGhostCoef_scale hL K M bc hd]
  split_ifs
  · rfl
  · rw [← sdiv_mul_left]
    congr 1
    simp only [BCs.scaleUnits, BFace.scaleUnits, CellFld.smul]; ring

theorem ghostLo_homog {L : α} (hL : L ≠ 0) (K : α) (M : Mesh α) (bc : BCs α) (φ : CellFld α)
    {d : Dir} (hd : M.kind.active d = true) (c : Idx) :
    ghostLo (M.scale L) (bc.scaleUnits L K) (CellFld.smul K φ) d c
      = (ghostLo M bc φ d c).map (K * ·) := by
  unfold ghostLo
  rw [BCs.scaleUnits_periodicDir, loCellCoef_scale hL K M bc hd, loGhostCoef_scale hL K M bc hd,
    Mesh.scale_n]
  split_ifs
  · rfl
  · rw [← sdiv_mul_left]
    congr 1
    simp only [BCs.scaleUnits, BFace.scaleUnits, CellFld.smul]; ring

/-- the ghosted array built from rescaled interior values is the rescaled ghosted array -/
theorem withGhosts_homog {L : α} (hL : L ≠ 0) (K : α) (M : Mesh α) (bc : BCs α) (φ : CellFld α)
    (c : Idx) :
    withGhosts (M.scale L) (bc.scaleUnits L K) (CellFld.smul K φ) c
      = (withGhosts M bc φ c).map (K * ·) := by
  unfold withGhosts
  simp only [Mesh.scale_outCount, Mesh.scale_outDir, Mesh.scale_n]
  rcases hn : M.outCount c with _ | _ | n
  · rfl
  · have hd := M.outDir_active c hn
    simp only
    split_ifs
    · exact ghostLo_homog hL K M bc φ hd _
    · exact ghostHi_homog hL K M bc φ hd _
  · simp

/-- boundary row of a high-side ghost cell: matrix entries unchanged (periodic or not),
    right-hand side × `K` -/
theorem bcRowHi_homog {L : α} (hL : L ≠ 0) (K : α) (M : Mesh α) (bc : BCs α) {d : Dir}
    (hd : M.kind.active d = true) (c : Idx) :
    bcRowHi (M.scale L) (bc.scaleUnits L K) d c
      = ⟨(bcRowHi M bc d c).entries, K * (bcRowHi M bc d c).rhs⟩ := by
  unfold bcRowHi
  simp only [BCs.scaleUnits_periodicDir, Mesh.scale_n, hiCellCoef_scale hL K M bc hd,
    hiGhostCoef_scale hL K M bc hd, DX_scale, mul_div_mul_left _ _ (pow_ne hL _)]
  split_ifs
  · simp
  · rfl

theorem bcRowLo_homog {L : α} (hL : L ≠ 0) (K : α) (M : Mesh α) (bc : BCs α) {d : Dir}
    (hd : M.kind.active d = true) (c : Idx) :
    bcRowLo (M.scale L) (bc.scaleUnits L K) d c
      = ⟨(bcRowLo M bc d c).entries, K * (bcRowLo M bc d c).rhs⟩ := by
  unfold bcRowLo
  simp only [BCs.scaleUnits_periodicDir, Mesh.scale_n, loCellCoef_scale hL K M bc hd,
    loGhostCoef_scale hL K M bc hd]
  split_ifs
  · simp
  · simp [BCs.scaleUnits, BFace.scaleUnits]

/-- periodic rows do not change at all -/
theorem bcRowHi_periodic_homog {L : α} (hL : L ≠ 0) (K : α) (M : Mesh α) (bc : BCs α) {d : Dir}
    (hd : M.kind.active d = true) (c : Idx) (hp : bc.periodicDir d = true) :
    bcRowHi (M.scale L) (bc.scaleUnits L K) d c = bcRowHi M bc d c := by
  rw [bcRowHi_homog hL K M bc hd]
  simp [bcRowHi, hp]

theorem bcRowLo_periodic_homog {L : α} (hL : L ≠ 0) (K : α) (M : Mesh α) (bc : BCs α) {d : Dir}
    (hd : M.kind.active d = true) (c : Idx) (hp : bc.periodicDir d = true) :
    bcRowLo (M.scale L) (bc.scaleUnits L K) d c = bcRowLo M bc d c := by
  rw [bcRowLo_homog hL K M bc hd]
  simp [bcRowLo, hp]

/-- every row of the boundary system: entries unchanged, right-hand side × `K` — on every grid
    class for interior and face-ghost cells, and for the corner/edge cells of every class except
    `pol2` -/
theorem bcRow_homog {L : α} (hL : L ≠ 0) (K : α) (M : Mesh α) (bc : BCs α) (c : Idx)
    (hk : M.kind ≠ .pol2 ∨ M.outCount c ≤ 1) :
    bcRow (M.scale L) (bc.scaleUnits L K) c
      = ⟨(bcRow M bc c).entries, K * (bcRow M bc c).rhs⟩ := by
  unfold bcRow
  simp only [Mesh.scale_outCount, Mesh.scale_outDir, Mesh.scale_n]
  rcases hn : M.outCount c with _ | _ | n
  · simp
  · have hd := M.outDir_active c hn
    simp only
    split_ifs
    · exact bcRowLo_homog hL K M bc hd _
    · exact bcRowHi_homog hL K M bc hd _
  · rcases hk with hk | hk
    · simp [cornerScale_scale hL K M bc hk]
    · omega

/-- the `pol2` corner rows are NOT unit-independent: `cornerScale` divides the Robin coefficient
    `a` of the top boundary by an angle without the metric factor `r`
    (these rows are decoupled from the rest of the system) -/
theorem bcRow_pol2_corner_counterexample :
    let M := Examples.mesh .pol2
    let bc : BCs ℚ := ⟨fun _ => ⟨fun _ => 1, fun _ => 1, fun _ => 0, false⟩,
                        fun _ => ⟨fun _ => 1, fun _ => 1, fun _ => 0, false⟩⟩
    M.outCount (0, 0, 1) = 2 ∧
    ((bcRow (M.scale 1000) (bc.scaleUnits 1000 7) (0, 0, 1)).entries.map Prod.snd)
      ≠ ((bcRow M bc (0, 0, 1)).entries.map Prod.snd) := by
  decide +kernel

/-! ### 6. the assembled system -/

/-- Homogeneity of one solve.  If `x` solves the system of `ts` on `M`, then `K·x` solves the
    system of the rescaled terms `ts'` on the rescaled mesh with the rescaled boundary data.
    Hypothesis `hcorner` (needed on `pol2` only, see `solves_pol2_corner_counterexample`):
    the decoupled corner cells of the ghosted array hold zero. -/
theorem solves_homog {L T K : α} (hL : L ≠ 0) (M : Mesh α) (bc : BCs α)
    {ts ts' : List (TermObj α)} (hts : List.Forall₂ (TermScaled T K) ts ts') (x : CellFld α)
    (hcorner : M.kind = .pol2 → CornersZero M x)
    (h : Solves M bc ts x) :
    Solves (M.scale L) (bc.scaleUnits L K) ts' (CellFld.smul K x) := by
  intro c hc
  have hc' := (Mesh.scale_inBox L M c).mp hc
  have h0 := h c hc'
  unfold assembleOp assembleRhs at h0 ⊢
  rw [Mesh.scale_outCount]
  by_cases hz : M.outCount c = 0
  · simp only [if_pos hz] at h0 ⊢
    rw [sumRow_scaled hts, sumRhs_scaled hts, St7.smul_app, h0]; ring
  · simp only [if_neg hz] at h0 ⊢
    by_cases h1 : M.kind ≠ .pol2 ∨ M.outCount c ≤ 1
    · rw [bcRow_homog hL K M bc c h1]
      rw [Row.app_smul _ _ (bcRow M bc c).rhs K x]
      show K * (bcRow M bc c).app x = K * (bcRow M bc c).rhs
      rw [h0]
    · have hk : M.kind = .pol2 := by
        by_contra hk; exact h1 (Or.inl hk)
      have h2 : 2 ≤ M.outCount c := by
        by_contra h2; exact h1 (Or.inr (by omega))
      have hx : x c = 0 := hcorner hk c hc' h2
      unfold bcRow
      rw [Mesh.scale_outCount]
      rcases hn : M.outCount c with _ | _ | n
      · omega
      · omega
      · simp [Row.app, CellFld.smul, hx]

/-- the same with the natural sufficient condition: on `pol2` the corner diagonal is non-zero -/
theorem solves_homog_of_cornerScale_ne {L T K : α} (hL : L ≠ 0) (M : Mesh α) (bc : BCs α)
    {ts ts' : List (TermObj α)} (hts : List.Forall₂ (TermScaled T K) ts ts') (x : CellFld α)
    (hcs : M.kind = .pol2 → cornerScale M bc ≠ 0)
    (h : Solves M bc ts x) :
    Solves (M.scale L) (bc.scaleUnits L K) ts' (CellFld.smul K x) :=
  solves_homog hL M bc hts x (fun hk => cornersZero_of_solves h (hcs hk)) h

/-- on every grid class other than `pol2` no extra hypothesis is needed -/
theorem solves_homog_of_ne_pol2 {L T K : α} (hL : L ≠ 0) (M : Mesh α) (bc : BCs α)
    {ts ts' : List (TermObj α)} (hts : List.Forall₂ (TermScaled T K) ts ts') (x : CellFld α)
    (hk : M.kind ≠ .pol2) (h : Solves M bc ts x) :
    Solves (M.scale L) (bc.scaleUnits L K) ts' (CellFld.smul K x) :=
  solves_homog hL M bc hts x (fun hk' => absurd hk' hk) h

/-- Without the corner hypothesis `solves_homog` is false on `pol2`: with top boundary
    `a = 3, b = −2` (so that `b/2 + a/Δθ_end = 0`: singular corner rows, any corner value is a
    solution), the empty term list and `x` = indicator of the corner `(0,0,1)`, `x` solves the
    system but `7·x` does not solve the system in the units `L = 1000` (there the corner diagonal
    is `−1 + 1000 ≠ 0`). -/
theorem solves_pol2_corner_counterexample :
    let M := Examples.mesh .pol2
    let bc : BCs ℚ := ⟨fun _ => ⟨fun _ => 3, fun _ => -2, fun _ => 0, false⟩,
                        fun _ => ⟨fun _ => 3, fun _ => -2, fun _ => 0, false⟩⟩
    let x : CellFld ℚ := fun c => if c = (0, 0, 1) then 1 else 0
    Solves M bc [] x ∧ ¬ Solves (M.scale 1000) (bc.scaleUnits 1000 7) [] (CellFld.smul 7 x) := by
  intro M bc x
  constructor
  · have key : ∀ i, i ≤ 4 → ∀ j, j ≤ 4 →
        assembleOp M bc [] x (i, j, 1) = assembleRhs M bc [] (i, j, 1) := by
      decide +kernel
    intro c hc
    obtain ⟨i, j, k⟩ := c
    have hi : i ≤ 4 := hc.1
    have hj : j ≤ 4 := hc.2.1
    have hk : k = 1 := hc.2.2
    subst hk
    exact key i hi j hj
  · intro h
    have hc : (M.scale 1000).inBox (0, 0, 1) := by
      unfold Mesh.inBox; decide +kernel
    have := h (0, 0, 1) hc
    revert this
    decide +kernel

/-! #### the term builders in the new units -/

theorem termScaled_diffusion {L T : α} (hL : L ≠ 0) (hT : T ≠ 0) (K : α) (M : Mesh α)
    (D : FaceFld α) :
    TermScaled T K (.mat (diffusionRow M D))
      (.mat (diffusionRow (M.scale L) (FaceFld.smul (L ^ 2 / T) D))) :=
  ⟨fun c => diffusionRow_homog hL hT M D c, fun _ => (mul_zero _).symm⟩

theorem termScaled_convection {L T : α} (hL : L ≠ 0) (hT : T ≠ 0) (K : α) (M : Mesh α)
    (u : FaceFld α) :
    TermScaled T K (.mat (convectionRow M u))
      (.mat (convectionRow (M.scale L) (FaceFld.smul (L / T) u))) :=
  ⟨fun c => convectionRow_homog hL hT M u c, fun _ => (mul_zero _).symm⟩

theorem termScaled_upwind {L T : α} (hL : 0 < L) (hT : 0 < T) (K : α) (M : Mesh α)
    (u uUp : FaceFld α) :
    TermScaled T K (.mat (upwindRow M u uUp))
      (.mat (upwindRow (M.scale L) (FaceFld.smul (L / T) u) (FaceFld.smul (L / T) uUp))) :=
  ⟨fun c => upwindRow_homog hL hT M u uUp c, fun _ => (mul_zero _).symm⟩

theorem termScaled_linearSrc (T K : α) (β : CellFld α) :
    TermScaled T K (.mat (linearSrcRow β)) (.mat (linearSrcRow (CellFld.smul (1 / T) β))) :=
  ⟨fun c => linearSrcRow_homog T β c, fun _ => (mul_zero _).symm⟩

theorem termScaled_constSrc (T K : α) (γ : CellFld α) :
    TermScaled T K (.vec (constSrcRHS γ)) (.vec (constSrcRHS (CellFld.smul (K / T) γ))) :=
  ⟨fun _ => (St7.smul_zero _).symm, fun c => constSrcRHS_homog T K γ c⟩

theorem termScaled_transient (T K dt : α) (old alpha : CellFld α) :
    TermScaled T K (.pair (transientRow dt alpha) (transientRHS old dt alpha))
      (.pair (transientRow (T * dt) alpha) (transientRHS (CellFld.smul K old) (T * dt) alpha)) :=
  ⟨fun c => transientRow_homog T dt alpha c, fun c => transientRHS_homog T K dt old alpha c⟩

theorem termScaled_tvd {e L T : α} (he : 0 < e) (hL : 0 < L) (hT : 0 < T) (K : α) (M : Mesh α)
    (u uUp : FaceFld α) (FL : α → α) (φ : CellFld α) (hb : OutsideBand e M φ K L) :
    TermScaled T K (.vec (tvdRHS M u uUp FL e φ))
      (.vec (tvdRHS (M.scale L) (FaceFld.smul (L / T) u) (FaceFld.smul (L / T) uUp) FL e
        (CellFld.smul K φ))) :=
  ⟨fun _ => (St7.smul_zero _).symm, fun c => tvdRHS_homog he hL hT K M u uUp FL φ hb c⟩

/-- signs and numerical factors of terms (`-diffusionTerm`, …) commute with the change of units -/
theorem termScaled_smul {T K : α} (a : α) {t t' : TermObj α} (h : TermScaled T K t t') :
    TermScaled T K (t.smul a) (t'.smul a) := by
  obtain ⟨h1, h2⟩ := h
  constructor
  · intro c
    rw [TermObj.smul_row, TermObj.smul_row, h1 c, St7.smul_smul_comm]
  · intro c
    rw [TermObj.smul_rhs, TermObj.smul_rhs, h2 c]; ring

/-- a complete implicit time step of a transient advection–diffusion–reaction equation with TVD
    correction: the term list in the new units is term-by-term the rescaled one -/
theorem step_terms_scaled {e L T : α} (he : 0 < e) (hL : 0 < L) (hT : 0 < T) (K : α)
    (M : Mesh α) (D u : FaceFld α) (β γ alpha : CellFld α) (dt : α) (FL : α → α)
    (old φ0 : CellFld α) (hb : OutsideBand e M φ0 K L) :
    List.Forall₂ (TermScaled T K)
      [ .pair (transientRow dt alpha) (transientRHS old dt alpha),
        (TermObj.mat (diffusionRow M D)).smul (-1),
        .mat (upwindRow M u u),
        .mat (linearSrcRow β),
        .vec (constSrcRHS γ),
        .vec (tvdRHS M u u FL e φ0) ]
      [ .pair (transientRow (T * dt) alpha) (transientRHS (CellFld.smul K old) (T * dt) alpha),
        (TermObj.mat (diffusionRow (M.scale L) (FaceFld.smul (L ^ 2 / T) D))).smul (-1),
        .mat (upwindRow (M.scale L) (FaceFld.smul (L / T) u) (FaceFld.smul (L / T) u)),
        .mat (linearSrcRow (CellFld.smul (1 / T) β)),
        .vec (constSrcRHS (CellFld.smul (K / T) γ)),
        .vec (tvdRHS (M.scale L) (FaceFld.smul (L / T) u) (FaceFld.smul (L / T) u) FL e
          (CellFld.smul K φ0)) ] := by
  have hL' : L ≠ 0 := ne_of_gt hL
  have hT' : T ≠ 0 := ne_of_gt hT
  refine .cons (termScaled_transient T K dt old alpha)
    (.cons (termScaled_smul (-1) (termScaled_diffusion hL' hT' K M D))
    (.cons (termScaled_upwind hL hT K M u u)
    (.cons (termScaled_linearSrc T K β)
    (.cons (termScaled_constSrc T K γ)
    (.cons (termScaled_tvd he hL hT K M u u FL φ0 hb) .nil)))))

/-- Any number of time steps: if `x 0, …, x n` is a run in the old units (each step's terms
    built from the previous field), then `K·x 0, …, K·x n` is a run in the new units, provided
    the builders correspond along the trajectory. -/
theorem steps_homog {L T K : α} (hL : L ≠ 0) (M : Mesh α) (bc : BCs α)
    (build build' : CellFld α → List (TermObj α)) (x : ℕ → CellFld α) (n : ℕ)
    (hb : ∀ k, k < n → List.Forall₂ (TermScaled T K) (build (x k))
      (build' (CellFld.smul K (x k))))
    (hcs : M.kind = .pol2 → cornerScale M bc ≠ 0)
    (h : Steps M bc build x n) :
    Steps (M.scale L) (bc.scaleUnits L K) build' (fun k => CellFld.smul K (x k)) n := by
  induction n with
  | zero => intro k hk; omega
  | succ n ih =>
    intro k hk
    by_cases hkn : k < n
    · exact ih (fun k hk => hb k (by omega)) (fun k hk => h k (by omega)) k hkn
    · have : k = n := by omega
      subst this
      exact solves_homog_of_cornerScale_ne hL M bc (hb k hk) (x (k + 1)) hcs (h k hk)

/-! ### 7. linearity in the coefficient fields -/

theorem diffSt_add (M : Mesh α) (D E : FaceFld α) (d : Dir) (c : Idx) :
    diffSt M (FaceFld.add D E) d c = St3.add (diffSt M D d c) (diffSt M E d c) := by
  simp only [diffSt, FaceFld.add, St3.add, St3.mk.injEq]
  refine ⟨?_, ?_, ?_⟩ <;> ring

theorem diffSt_smul (M : Mesh α) (a : α) (D : FaceFld α) (d : Dir) (c : Idx) :
    diffSt M (FaceFld.smul a D) d c = St3.smul a (diffSt M D d c) := by
  simp only [diffSt, FaceFld.smul, St3.smul, St3.mk.injEq]
  refine ⟨?_, ?_, ?_⟩ <;> ring

theorem convSt_add (M : Mesh α) (u v : FaceFld α) (d : Dir) (c : Idx) :
    convSt M (FaceFld.add u v) d c = St3.add (convSt M u d c) (convSt M v d c) := by
  simp only [convSt, FaceFld.add, St3.add, St3.mk.injEq]
  refine ⟨?_, ?_, ?_⟩ <;> ring

theorem convSt_smul (M : Mesh α) (a : α) (u : FaceFld α) (d : Dir) (c : Idx) :
    convSt M (FaceFld.smul a u) d c = St3.smul a (convSt M u d c) := by
  simp only [convSt, FaceFld.smul, St3.smul, St3.mk.injEq]
  refine ⟨?_, ?_, ?_⟩ <;> ring

/-- upwind stencil: additive in the velocity at fixed upwind-direction field -/
theorem upwindSt_add (M : Mesh α) (u v uUp : FaceFld α) (d : Dir) (c : Idx) :
    upwindSt M (FaceFld.add u v) uUp d c
      = St3.add (upwindSt M u uUp d c) (upwindSt M v uUp d c) := by
  rw [upwindSt_eq, upwindSt_eq, upwindSt_eq]
  simp only [uMin_add, uMax_add, St3.add, St3.mk.injEq]
  refine ⟨?_, ?_, ?_⟩ <;> split_ifs <;> ring

/-- upwind stencil: homogeneous in the velocity at fixed upwind-direction field (any factor,
    also a negative one: the direction field decides the side) -/
theorem upwindSt_smul (M : Mesh α) (a : α) (u uUp : FaceFld α) (d : Dir) (c : Idx) :
    upwindSt M (FaceFld.smul a u) uUp d c = St3.smul a (upwindSt M u uUp d c) := by
  rw [upwindSt_eq, upwindSt_eq]
  simp only [uMin_smul_left, uMax_smul_left, St3.smul, St3.mk.injEq]
  refine ⟨?_, ?_, ?_⟩ <;> split_ifs <;> ring

theorem divD_add (M : Mesh α) (F G : FaceFld α) (d : Dir) (c : Idx) :
    divD M (FaceFld.add F G) d c = divD M F d c + divD M G d c :=
  PyFV.divD_add M F G d c

theorem divD_smul (M : Mesh α) (a : α) (F : FaceFld α) (d : Dir) (c : Idx) :
    divD M (FaceFld.smul a F) d c = a * divD M F d c :=
  PyFV.divD_smul M a F d c

theorem linearSrcRow_add (β β' : CellFld α) (c : Idx) :
    linearSrcRow (CellFld.add β β') c = St7.add (linearSrcRow β c) (linearSrcRow β' c) := by
  simp [linearSrcRow, St7.diag, St7.add, CellFld.add]

theorem linearSrcRow_smul (a : α) (β : CellFld α) (c : Idx) :
    linearSrcRow (CellFld.smul a β) c = St7.smul a (linearSrcRow β c) := by
  simp only [linearSrcRow, St7.smul_diag, CellFld.smul]

theorem constSrcRHS_add (γ γ' : CellFld α) (c : Idx) :
    constSrcRHS (CellFld.add γ γ') c = constSrcRHS γ c + constSrcRHS γ' c := rfl

theorem constSrcRHS_smul (a : α) (γ : CellFld α) (c : Idx) :
    constSrcRHS (CellFld.smul a γ) c = a * constSrcRHS γ c := rfl

theorem diffusionRow_add (M : Mesh α) (D E : FaceFld α) (c : Idx) :
    diffusionRow M (FaceFld.add D E) c = St7.add (diffusionRow M D c) (diffusionRow M E c) := by
  unfold diffusionRow
  rw [← St7.ofDirs_add]
  exact St7.ofDirs_congr _ _ _ (fun d _ => diffSt_add M D E d c)

theorem diffusionRow_smul (M : Mesh α) (a : α) (D : FaceFld α) (c : Idx) :
    diffusionRow M (FaceFld.smul a D) c = St7.smul a (diffusionRow M D c) := by
  unfold diffusionRow
  rw [← St7.ofDirs_smul]
  exact St7.ofDirs_congr _ _ _ (fun d _ => diffSt_smul M a D d c)

theorem convectionRow_add (M : Mesh α) (u v : FaceFld α) (c : Idx) :
    convectionRow M (FaceFld.add u v) c
      = St7.add (convectionRow M u c) (convectionRow M v c) := by
  unfold convectionRow
  rw [← St7.ofDirs_add]
  exact St7.ofDirs_congr _ _ _ (fun d _ => convSt_add M u v d c)

theorem convectionRow_smul (M : Mesh α) (a : α) (u : FaceFld α) (c : Idx) :
    convectionRow M (FaceFld.smul a u) c = St7.smul a (convectionRow M u c) := by
  unfold convectionRow
  rw [← St7.ofDirs_smul]
  exact St7.ofDirs_congr _ _ _ (fun d _ => convSt_smul M a u d c)

theorem upwindRow_add (M : Mesh α) (u v uUp : FaceFld α) (c : Idx) :
    upwindRow M (FaceFld.add u v) uUp c
      = St7.add (upwindRow M u uUp c) (upwindRow M v uUp c) := by
  unfold upwindRow
  rw [← St7.ofDirs_add]
  exact St7.ofDirs_congr _ _ _ (fun d _ => upwindSt_add M u v uUp d c)

theorem upwindRow_smul (M : Mesh α) (a : α) (u uUp : FaceFld α) (c : Idx) :
    upwindRow M (FaceFld.smul a u) uUp c = St7.smul a (upwindRow M u uUp c) := by
  unfold upwindRow
  rw [← St7.ofDirs_smul]
  exact St7.ofDirs_congr _ _ _ (fun d _ => upwindSt_smul M a u uUp d c)

theorem divergence_add (M : Mesh α) (F G : FaceFld α) (c : Idx) :
    divergence M (FaceFld.add F G) c = divergence M F c + divergence M G c := by
  unfold divergence
  rw [← sumDirs_add]
  exact sumDirs_congr _ _ _ (fun d _ => divD_add M F G d c)

theorem divergence_smul (M : Mesh α) (a : α) (F : FaceFld α) (c : Idx) :
    divergence M (FaceFld.smul a F) c = a * divergence M F c := by
  unfold divergence
  rw [← sumDirs_mul]
  exact sumDirs_congr _ _ _ (fun d _ => divD_smul M a F d c)

/-- the upwind stencil is NOT additive when each summand chooses its own upwind direction:
    `u = 1`, `v = −2` on the Cartesian example mesh -/
theorem upwindSt_add_own_direction_counterexample :
    let M := Examples.mesh .cart1
    let u : FaceFld ℚ := fun _ _ => 1
    let v : FaceFld ℚ := fun _ _ => -2
    (upwindSt M (FaceFld.add u v) (FaceFld.add u v) .x (2, 1, 1)).w
      ≠ (upwindSt M u u .x (2, 1, 1)).w + (upwindSt M v v .x (2, 1, 1)).w := by
  decide +kernel

/-! ### 8. non-vacuity: metres → millimetres, minutes → seconds (`T = 1/60`), field × 7 -/

/-- a change of the unit of length maps well-formed meshes to well-formed meshes -/
theorem scale_WF {L : α} (hL : 0 < L) {M : Mesh α} (h : M.WF) : (M.scale L).WF :=
  Mesh.scale_WF hL h

example (k : Kind) : ((Examples.mesh k).scale 1000).WF ∧
    ((Examples.mesh k).scale 1000).interior (1, 1, 1) :=
  ⟨scale_WF (by norm_num) (Examples.mesh_WF k), by
    have h := Examples.interior_111 k
    unfold Mesh.interior at h ⊢
    rw [Mesh.scale_ax_n, Mesh.scale_ay_n, Mesh.scale_az_n]; exact h⟩

/-- the corner hypothesis of `solves_homog` is satisfiable on `pol2`: with Dirichlet data the
    corner diagonal is `1/2 ≠ 0` -/
example :
    cornerScale (Examples.mesh .pol2)
      (⟨fun _ => ⟨fun _ => 0, fun _ => 1, fun _ => 5, false⟩,
        fun _ => ⟨fun _ => 0, fun _ => 1, fun _ => 5, false⟩⟩ : BCs ℚ) ≠ 0 := by
  decide +kernel

example (k : Kind) (D : FaceFld ℚ) (c : Idx) :
    diffusionRow ((Examples.mesh k).scale 1000) (FaceFld.smul (1000 ^ 2 / (1 / 60)) D) c
      = St7.smul (1 / (1 / 60)) (diffusionRow (Examples.mesh k) D c) :=
  diffusionRow_homog (by norm_num) (by norm_num) _ D c

example (k : Kind) (u : FaceFld ℚ) (c : Idx) :
    convectionRow ((Examples.mesh k).scale 1000) (FaceFld.smul (1000 / (1 / 60)) u) c
      = St7.smul (1 / (1 / 60)) (convectionRow (Examples.mesh k) u c) :=
  convectionRow_homog (by norm_num) (by norm_num) _ u c

example (k : Kind) (u uUp : FaceFld ℚ) (c : Idx) :
    upwindRow ((Examples.mesh k).scale 1000) (FaceFld.smul (1000 / (1 / 60)) u)
        (FaceFld.smul (1000 / (1 / 60)) uUp) c
      = St7.smul (1 / (1 / 60)) (upwindRow (Examples.mesh k) u uUp c) :=
  upwindRow_homog (by norm_num) (by norm_num) _ u uUp c

/-- the identities are not `0 = 0`: e.g. on the spherical 3-D mesh the unit-diffusivity row at
    the interior cell `(1,1,1)` has non-zero entries in all seven positions -/
example :
    let r := diffusionRow (Examples.mesh .sph3) (fun _ _ => (1 : ℚ)) (1, 1, 1)
    r.p ≠ 0 ∧ r.xm ≠ 0 ∧ r.xp ≠ 0 ∧ r.ym ≠ 0 ∧ r.yp ≠ 0 ∧ r.zm ≠ 0 ∧ r.zp ≠ 0 := by
  decide +kernel

/-- … and they can be checked numerically: diffusion row of `sph3` in millimetres and seconds -/
example :
    let r' := diffusionRow ((Examples.mesh .sph3).scale 1000)
        (FaceFld.smul (1000 ^ 2 / (1 / 60)) (fun _ _ => (1 : ℚ))) (1, 1, 1)
    let r := diffusionRow (Examples.mesh .sph3) (fun _ _ => (1 : ℚ)) (1, 1, 1)
    r'.p = 60 * r.p ∧ r'.xm = 60 * r.xm ∧ r'.xp = 60 * r.xp ∧ r'.ym = 60 * r.ym ∧
    r'.yp = 60 * r.yp ∧ r'.zm = 60 * r.zm ∧ r'.zp = 60 * r.zp := by
  decide +kernel

/-- a non-constant field satisfying `OutsideBand` on every example mesh: `φ = i` (the x-index),
    threshold `10⁻⁶`, units `L = 1000`, `K = 7` -/
theorem outsideBand_example (k : Kind) :
    OutsideBand (1 / 10 ^ 6 : ℚ) (Examples.mesh k) (fun c => (c.1 : ℚ)) 7 1000 := by
  intro d c
  cases d
  · right
    have hb := Examples.ax3_dxf_bounds c.1
    have hpos : (0 : ℚ) < Examples.ax3.dxf c.1 := by linarith [hb.1]
    have hd : dphi (Examples.mesh k) (fun c => (c.1 : ℚ)) .x c = 1 / Examples.ax3.dxf c.1 := by
      simp [dphi, Idx.next, Idx.set, Idx.get, Examples.mesh, Mesh.axis]
    have h3 : (1 : ℚ) / 3 ≤ 1 / Examples.ax3.dxf c.1 := one_div_le_one_div_of_le hpos hb.2
    have hx : eX (Examples.mesh k).kind Dir.x = 1 := rfl
    rw [dphi_homog, hd, hx]
    have hq : (0 : ℚ) < 1 / Examples.ax3.dxf c.1 := by positivity
    constructor
    · rw [abs_of_pos hq]; linarith
    · rw [abs_of_pos (by positivity)]; linarith
  · left; rfl
  · left; rfl

example (k : Kind) (u : FaceFld ℚ) (FL : ℚ → ℚ) (c : Idx) :
    tvdRHS ((Examples.mesh k).scale 1000) (FaceFld.smul (1000 / (1 / 60)) u)
        (FaceFld.smul (1000 / (1 / 60)) u) FL (1 / 10 ^ 6) (CellFld.smul 7 (fun c => (c.1 : ℚ))) c
      = 7 / (1 / 60) * tvdRHS (Examples.mesh k) u u FL (1 / 10 ^ 6) (fun c => (c.1 : ℚ)) c :=
  tvdRHS_homog (by norm_num) (by norm_num) (by norm_num) 7 _ u u FL _ (outsideBand_example k) c

/-- a Dirichlet/Robin boundary in the new units: ghost values × 7 on every example mesh -/
example (k : Kind) (bc : BCs ℚ) (φ : CellFld ℚ) (c : Idx) :
    ghostHi ((Examples.mesh k).scale 1000) (bc.scaleUnits 1000 7) (CellFld.smul 7 φ) .x c
      = (ghostHi (Examples.mesh k) bc φ .x c).map (7 * ·) :=
  ghostHi_homog (by norm_num) 7 _ bc φ rfl c

/-- `solves_homog` is not vacuous: on the Cartesian example mesh with Dirichlet value 5 at both
    ends and the single term `β φ = γ` (`β = 2, γ = 10`) the field `φ ≡ 5` is a solution, and
    `7·φ` solves the system in the new units -/
example :
    let M := Examples.mesh .cart1
    let bc : BCs ℚ := ⟨fun _ => ⟨fun _ => 0, fun _ => 1, fun _ => 5, false⟩,
                        fun _ => ⟨fun _ => 0, fun _ => 1, fun _ => 5, false⟩⟩
    let ts : List (TermObj ℚ) := [.mat (linearSrcRow (fun _ => 2)), .vec (constSrcRHS (fun _ => 10))]
    let ts' : List (TermObj ℚ) :=
      [.mat (linearSrcRow (CellFld.smul (1 / (1 / 60)) (fun _ => 2))),
       .vec (constSrcRHS (CellFld.smul (7 / (1 / 60)) (fun _ => 10)))]
    Solves M bc ts (fun _ => 5) ∧
    Solves (M.scale 1000) (bc.scaleUnits 1000 7) ts' (CellFld.smul 7 (fun _ => 5)) := by
  intro M bc ts ts'
  have h : Solves M bc ts (fun _ => 5) := by
    have key : ∀ i, i ≤ 4 →
        assembleOp M bc ts (fun _ => 5) (i, 1, 1) = assembleRhs M bc ts (i, 1, 1) := by
      decide +kernel
    intro c hc
    obtain ⟨i, j, k⟩ := c
    have hi : i ≤ 4 := hc.1
    have hj : j = 1 := hc.2.1
    have hk : k = 1 := hc.2.2
    subst hj hk
    exact key i hi
  refine ⟨h, ?_⟩
  exact solves_homog_of_ne_pol2 (T := 1 / 60) (by norm_num) M bc
    (.cons (termScaled_linearSrc _ _ _) (.cons (termScaled_constSrc _ _ _) .nil)) _
    (by decide) h

end PyFV.C17
