/-
  Property C14 — variable algebra: the VALUE-level clauses, proved from the GENERATED table.

  `PyFV.Gen.Ops` (regenerated on every run from the dunder methods of `CellVariable` / `FaceVariable`)
  is given a semantics in `PyFV.Model.VarAlg`: `callCell powF name self other` looks the method up in
  the generated table and evaluates the row (`evalRow`); `binop` adds Python's dispatch rule.  Every
  theorem below is proved by unfolding that lookup (`cases o <;> rfl`: the kernel evaluates
  `List.lookup name cellVar`), so a change of cell.py / face.py that alters a row makes the
  corresponding theorem fail to compile.

  1. `add_elementwise` … `abs_elementwise` (18 methods; one statement per method, valid for a
     variable, a scalar and an array as the other operand), summarised table-driven in
     `cell_methods_elementwise`; `binop_add` … `binop_le`: `x ∘ y` with the variable on either side
     is `c ↦ x c ∘ y c` — reflected subtraction / division / power / comparisons come out in the
     right order; `binop_and`, `binop_or` only with the variable on the left
     (`logical_ops_not_reflected`: there is no `__rand__` / `__ror__`).
  2. `result_bc_is_self_bc`, `binop_result_bc`: mesh and boundary conditions of the result are those
     of the variable the method was called on = the left-most variable operand.
  3. `result_ghosts_consistent_hi/_lo/_periodic` (any `evalRow` result, stated with the result's own
     boundary conditions) and `result_ghosts_consistent` (table methods, stated with `self`'s
     mesh and boundary conditions): the ghost layer of the result satisfies the Robin relation
     on every non-periodic face with a non-zero ghost coefficient and wraps on periodic axes.
  4. `other_variable_enters_through_interior_only`: a variable as other operand acts exactly like
     the array of its interior values (its mesh, boundary conditions and ghost cells never enter).
     (`operands_unchanged` and "independent of later edits" are vacuous in a functional model:
     the result is a function of the operands' values at call time by construction.)
  5. `copy_equal`, `copy_fields`, `copy_of_result`, `copy_keeps_ghost_layer_as_is`.
  6. `face_*`: the same for FaceVariables, all three components at once.
  7. / 8. sanity examples over ℚ and sensitivity witnesses (hand-altered rows and tables make the
     statements false).
-/
import PyFV.Lemmas.VarAlgLemmas
import Mathlib.Tactic.NormNum

set_option linter.unusedSectionVars false

namespace PyFV.C14Val
open PyFV PyFV.Gen.Ops PyFV.VarEx

variable {α : Type} [Field α] [LinearOrder α] [IsStrictOrderedRing α]
variable (powF : α → α → α)

/-! ### 1. every method acts elementwise on the interior values

`a` is the variable the method is called on, `o` the other operand — a variable (then
`o.val c = b.interior c`), a scalar (`o.val c = s`) or an array (`o.val c = arr c`).  The equation
also says that the call succeeds, that the result lives on `a.mesh` and carries `a.bc`. -/

theorem add_elementwise (a : CellVar α) (o : Operand α) :
    callCell powF "__add__" a o = some ⟨a.mesh, a.bc, fun c => a.interior c + o.val c⟩ := by
  cases o <;> rfl

/-- reflected addition `o + a` (the code computes `a + o`; the same number) -/
theorem radd_elementwise (a : CellVar α) (o : Operand α) :
    callCell powF "__radd__" a o = some ⟨a.mesh, a.bc, fun c => o.val c + a.interior c⟩ := by
  have h : callCell powF "__radd__" a o
      = some ⟨a.mesh, a.bc, fun c => a.interior c + o.val c⟩ := by cases o <;> rfl
  rw [h]; simp only [add_comm]

theorem sub_elementwise (a : CellVar α) (o : Operand α) :
    callCell powF "__sub__" a o = some ⟨a.mesh, a.bc, fun c => a.interior c - o.val c⟩ := by
  cases o <;> rfl

/-- reflected subtraction: `o - a`, NOT `a - o` -/
theorem rsub_elementwise (a : CellVar α) (o : Operand α) :
    callCell powF "__rsub__" a o = some ⟨a.mesh, a.bc, fun c => o.val c - a.interior c⟩ := by
  cases o <;> rfl

theorem mul_elementwise (a : CellVar α) (o : Operand α) :
    callCell powF "__mul__" a o = some ⟨a.mesh, a.bc, fun c => a.interior c * o.val c⟩ := by
  cases o <;> rfl

theorem rmul_elementwise (a : CellVar α) (o : Operand α) :
    callCell powF "__rmul__" a o = some ⟨a.mesh, a.bc, fun c => o.val c * a.interior c⟩ := by
  have h : callCell powF "__rmul__" a o
      = some ⟨a.mesh, a.bc, fun c => a.interior c * o.val c⟩ := by cases o <;> rfl
  rw [h]; simp only [mul_comm]

theorem truediv_elementwise (a : CellVar α) (o : Operand α) :
    callCell powF "__truediv__" a o = some ⟨a.mesh, a.bc, fun c => a.interior c / o.val c⟩ := by
  cases o <;> rfl

/-- reflected division: `o / a` -/
theorem rtruediv_elementwise (a : CellVar α) (o : Operand α) :
    callCell powF "__rtruediv__" a o = some ⟨a.mesh, a.bc, fun c => o.val c / a.interior c⟩ := by
  cases o <;> rfl

theorem neg_elementwise (a : CellVar α) (o : Operand α) :
    callCell powF "__neg__" a o = some ⟨a.mesh, a.bc, fun c => -a.interior c⟩ := by
  cases o <;> rfl

theorem pow_elementwise (a : CellVar α) (o : Operand α) :
    callCell powF "__pow__" a o
      = some ⟨a.mesh, a.bc, fun c => powF (a.interior c) (o.val c)⟩ := by
  cases o <;> rfl

/-- reflected power: `o ** a` -/
theorem rpow_elementwise (a : CellVar α) (o : Operand α) :
    callCell powF "__rpow__" a o
      = some ⟨a.mesh, a.bc, fun c => powF (o.val c) (a.interior c)⟩ := by
  cases o <;> rfl

theorem gt_elementwise (a : CellVar α) (o : Operand α) :
    callCell powF "__gt__" a o
      = some ⟨a.mesh, a.bc, fun c => truth (a.interior c > o.val c)⟩ := by
  cases o <;> rfl

theorem ge_elementwise (a : CellVar α) (o : Operand α) :
    callCell powF "__ge__" a o
      = some ⟨a.mesh, a.bc, fun c => truth (a.interior c ≥ o.val c)⟩ := by
  cases o <;> rfl

theorem lt_elementwise (a : CellVar α) (o : Operand α) :
    callCell powF "__lt__" a o
      = some ⟨a.mesh, a.bc, fun c => truth (a.interior c < o.val c)⟩ := by
  cases o <;> rfl

theorem le_elementwise (a : CellVar α) (o : Operand α) :
    callCell powF "__le__" a o
      = some ⟨a.mesh, a.bc, fun c => truth (a.interior c ≤ o.val c)⟩ := by
  cases o <;> rfl

/-- `&` is `np.logical_and`: true where both values are non-zero -/
theorem and_elementwise (a : CellVar α) (o : Operand α) :
    callCell powF "__and__" a o
      = some ⟨a.mesh, a.bc, fun c => truth (a.interior c ≠ 0 ∧ o.val c ≠ 0)⟩ := by
  cases o <;> rfl

theorem or_elementwise (a : CellVar α) (o : Operand α) :
    callCell powF "__or__" a o
      = some ⟨a.mesh, a.bc, fun c => truth (a.interior c ≠ 0 ∨ o.val c ≠ 0)⟩ := by
  cases o <;> rfl

theorem abs_elementwise (a : CellVar α) (o : Operand α) :
    callCell powF "__abs__" a o = some ⟨a.mesh, a.bc, fun c => |a.interior c|⟩ := by
  cases o <;> rfl

/-- **Table-driven summary.**  For every method of the specification `methodSem`, the generated
    row evaluates to the specified elementwise function, for every kind of operand. -/
theorem cell_methods_elementwise :
    ∀ p ∈ methodSem powF, ∀ (a : CellVar α) (o : Operand α),
      callCell powF p.1 a o
        = some ⟨a.mesh, a.bc, fun c => p.2 (a.interior c) (o.val c)⟩ := by
  intro p hp a o
  simp only [methodSem, List.mem_cons, List.not_mem_nil, or_false] at hp
  rcases hp with rfl | rfl | rfl | rfl | rfl | rfl | rfl | rfl | rfl | rfl | rfl | rfl | rfl
    | rfl | rfl | rfl | rfl | rfl
  · exact add_elementwise powF a o
  · exact radd_elementwise powF a o
  · exact sub_elementwise powF a o
  · exact rsub_elementwise powF a o
  · exact mul_elementwise powF a o
  · exact rmul_elementwise powF a o
  · exact truediv_elementwise powF a o
  · exact rtruediv_elementwise powF a o
  · exact neg_elementwise powF a o
  · exact pow_elementwise powF a o
  · exact rpow_elementwise powF a o
  · exact gt_elementwise powF a o
  · exact ge_elementwise powF a o
  · exact lt_elementwise powF a o
  · exact le_elementwise powF a o
  · exact and_elementwise powF a o
  · exact or_elementwise powF a o
  · exact abs_elementwise powF a o

/-- the specification covers exactly the methods of the generated tables, in the same order -/
theorem methodSem_covers_table :
    (methodSem powF).map (·.1) = cellVar.map (·.1) ∧
    (methodSem powF).map (·.1) = cellOther.map (·.1) ∧
    (methodSem powF).map (·.1) = faceVar.map (·.1) ∧
    (methodSem powF).map (·.1) = faceOther.map (·.1) := ⟨rfl, rfl, rfl, rfl⟩

/-- every method of the generated table is defined on every operand -/
theorem all_methods_total (name : String) (hn : name ∈ cellVar.map (·.1)) (a : CellVar α)
    (o : Operand α) : (callCell powF name a o).isSome = true := by
  rw [← (methodSem_covers_table powF).1, List.mem_map] at hn
  obtain ⟨p, hp, rfl⟩ := hn
  rw [cell_methods_elementwise powF p hp a o]
  rfl

/-! #### the operators `x ∘ y` with the variable on either side (Python dispatch)

`v` is the left-most variable operand.  Scalars on either side, arrays on either side. -/

section binops
variable {x y : Operand α} {v : CellVar α}

theorem binop_add (h : leftmostVar x y = some v) :
    binop powF "__add__" x y = some ⟨v.mesh, v.bc, fun c => x.val c + y.val c⟩ := by
  cases x <;> cases y <;> simp only [leftmostVar, Option.some.injEq, reduceCtorEq] at h <;>
    subst h <;>
    first
    | rfl
    | (refine Eq.trans ?_ (radd_elementwise powF _ _); rfl)

theorem binop_sub (h : leftmostVar x y = some v) :
    binop powF "__sub__" x y = some ⟨v.mesh, v.bc, fun c => x.val c - y.val c⟩ := by
  cases x <;> cases y <;> simp only [leftmostVar, Option.some.injEq, reduceCtorEq] at h <;>
    subst h <;> rfl

theorem binop_mul (h : leftmostVar x y = some v) :
    binop powF "__mul__" x y = some ⟨v.mesh, v.bc, fun c => x.val c * y.val c⟩ := by
  cases x <;> cases y <;> simp only [leftmostVar, Option.some.injEq, reduceCtorEq] at h <;>
    subst h <;>
    first
    | rfl
    | (refine Eq.trans ?_ (rmul_elementwise powF _ _); rfl)

theorem binop_truediv (h : leftmostVar x y = some v) :
    binop powF "__truediv__" x y = some ⟨v.mesh, v.bc, fun c => x.val c / y.val c⟩ := by
  cases x <;> cases y <;> simp only [leftmostVar, Option.some.injEq, reduceCtorEq] at h <;>
    subst h <;> rfl

theorem binop_pow (h : leftmostVar x y = some v) :
    binop powF "__pow__" x y = some ⟨v.mesh, v.bc, fun c => powF (x.val c) (y.val c)⟩ := by
  cases x <;> cases y <;> simp only [leftmostVar, Option.some.injEq, reduceCtorEq] at h <;>
    subst h <;> rfl

/-- `s > a` is evaluated as `a.__lt__(s)`: the same truth value -/
theorem binop_gt (h : leftmostVar x y = some v) :
    binop powF "__gt__" x y = some ⟨v.mesh, v.bc, fun c => truth (x.val c > y.val c)⟩ := by
  cases x <;> cases y <;> simp only [leftmostVar, Option.some.injEq, reduceCtorEq] at h <;>
    subst h <;> rfl

theorem binop_ge (h : leftmostVar x y = some v) :
    binop powF "__ge__" x y = some ⟨v.mesh, v.bc, fun c => truth (x.val c ≥ y.val c)⟩ := by
  cases x <;> cases y <;> simp only [leftmostVar, Option.some.injEq, reduceCtorEq] at h <;>
    subst h <;> rfl

theorem binop_lt (h : leftmostVar x y = some v) :
    binop powF "__lt__" x y = some ⟨v.mesh, v.bc, fun c => truth (x.val c < y.val c)⟩ := by
  cases x <;> cases y <;> simp only [leftmostVar, Option.some.injEq, reduceCtorEq] at h <;>
    subst h <;> rfl

theorem binop_le (h : leftmostVar x y = some v) :
    binop powF "__le__" x y = some ⟨v.mesh, v.bc, fun c => truth (x.val c ≤ y.val c)⟩ := by
  cases x <;> cases y <;> simp only [leftmostVar, Option.some.injEq, reduceCtorEq] at h <;>
    subst h <;> rfl

end binops

/-- `&`, `|` with the variable on the LEFT -/
theorem binop_and (a : CellVar α) (y : Operand α) :
    binop powF "__and__" (.var a) y
      = some ⟨a.mesh, a.bc, fun c => truth (a.interior c ≠ 0 ∧ y.val c ≠ 0)⟩ :=
  and_elementwise powF a y

theorem binop_or (a : CellVar α) (y : Operand α) :
    binop powF "__or__" (.var a) y
      = some ⟨a.mesh, a.bc, fun c => truth (a.interior c ≠ 0 ∨ y.val c ≠ 0)⟩ :=
  or_elementwise powF a y

/-- **Gap in the code** (the property text says "logical operators … mixed with scalars on either
    side"): the generated tables have no `__rand__` / `__ror__`, so `s & a`, `arr | a` with the
    variable on the right are undefined (Python raises `TypeError`). -/
theorem logical_ops_not_reflected (b : CellVar α) (s : α) (arr : CellFld α) :
    cellVar.lookup "__rand__" = none ∧ cellOther.lookup "__rand__" = none ∧
    cellVar.lookup "__ror__" = none ∧ cellOther.lookup "__ror__" = none ∧
    binop powF "__and__" (.scalar s) (.var b) = none ∧
    binop powF "__or__" (.scalar s) (.var b) = none ∧
    binop powF "__and__" (.array arr) (.var b) = none ∧
    binop powF "__or__" (.array arr) (.var b) = none :=
  ⟨rfl, rfl, rfl, rfl, rfl, rfl, rfl, rfl⟩

/-! ### 2. the result carries the mesh and the boundary conditions of the left-most variable -/

/-- every row of the generated CellVariable tables says `deepcopy(self.BCs)` -/
theorem table_bcs_deepcopySelf :
    (∀ p ∈ cellVar, p.2.bcs = "deepcopySelf") ∧ (∀ p ∈ cellOther, p.2.bcs = "deepcopySelf") := by
  decide

/-- Whatever method of the generated table is called, with whatever operand: the result lives on
    `self`'s mesh and carries `self`'s boundary conditions. -/
theorem result_bc_is_self_bc (name : String) (a : CellVar α) (o : Operand α) (r : CellVar α)
    (h : callCell powF name a o = some r) : r.bc = a.bc ∧ r.mesh = a.mesh := by
  unfold callCell callCellIn at h
  cases hi : methodIn cellVar cellOther name o.isVar with
  | none => rw [hi] at h; simp at h
  | some info =>
    rw [hi] at h
    simp only [Option.bind_some] at h
    have hb : info.bcs = "deepcopySelf" := by
      unfold methodIn at hi
      cases hv : o.isVar
      · rw [hv] at hi
        exact (table_bcs_deepcopySelf).2 _ (mem_of_lookup_eq_some hi)
      · rw [hv] at hi
        exact (table_bcs_deepcopySelf).1 _ (mem_of_lookup_eq_some hi)
    obtain ⟨h1, h2⟩ := evalRow_mesh_bc h hb
    exact ⟨h2, h1⟩

/-- **Python dispatch**: for `x ∘ y` (any operator name, any combination of operand kinds) the
    result carries the boundary conditions and the mesh of the left-most variable operand. -/
theorem binop_result_bc (name : String) (x y : Operand α) (v r : CellVar α)
    (hv : leftmostVar x y = some v) (h : binop powF name x y = some r) :
    r.bc = v.bc ∧ r.mesh = v.mesh := by
  cases x <;> cases y <;> simp only [leftmostVar, Option.some.injEq, reduceCtorEq] at hv <;>
    subst hv
  all_goals first
    | exact result_bc_is_self_bc powF name _ _ r h
    | (simp only [binop] at h
       cases hr : reflectedName name with
       | none => rw [hr] at h; simp at h
       | some rn =>
         rw [hr] at h
         simp only [Option.bind_some] at h
         exact result_bc_is_self_bc powF rn _ _ r h)

/-- a left-most variable exists exactly when one of the operands is a variable, and then the
    operators with a reflected method are defined -/
theorem binop_defined (x y : Operand α) (v : CellVar α) (hv : leftmostVar x y = some v) :
    (binop powF "__add__" x y).isSome = true ∧ (binop powF "__sub__" x y).isSome = true ∧
    (binop powF "__mul__" x y).isSome = true ∧ (binop powF "__truediv__" x y).isSome = true ∧
    (binop powF "__pow__" x y).isSome = true ∧ (binop powF "__gt__" x y).isSome = true ∧
    (binop powF "__ge__" x y).isSome = true ∧ (binop powF "__lt__" x y).isSome = true ∧
    (binop powF "__le__" x y).isSome = true := by
  rw [binop_add powF hv, binop_sub powF hv, binop_mul powF hv, binop_truediv powF hv,
    binop_pow powF hv, binop_gt powF hv, binop_ge powF hv, binop_lt powF hv, binop_le powF hv]
  exact ⟨rfl, rfl, rfl, rfl, rfl, rfl, rfl, rfl, rfl⟩

/-! ### 3. the ghost layer of the result is consistent with its boundary conditions -/

/-- high faces, for the result of an ARBITRARY row: on a non-periodic axis, next to every interior
    cell at the high end, where the ghost coefficient does not vanish, the ghost value exists and
    satisfies the Robin relation of the result's boundary conditions -/
theorem result_ghosts_consistent_hi (info : OpInfo) (a : CellVar α) (o : Operand α)
    (r : CellVar α) (_h : evalRow powF info a o = some r) (d : Dir) (c : Idx)
    (hint : r.mesh.interior c) (hd : r.mesh.kind.active d = true) (hc : c.get d = r.mesh.n d)
    (hp : ¬ r.bc.periodicDir d = true) (hg : hiGhostCoef r.mesh r.bc d c ≠ 0)
    (hD : lineM r.mesh d c * (r.mesh.axis d).DX (r.mesh.n d + 1) ≠ 0) :
    ∃ g, r.ghosted (c.set d (r.mesh.n d + 1)) = some g ∧
      (r.bc.hi d).a c * ((g - r.interior c) / (lineM r.mesh d c * (r.mesh.axis d).DX (r.mesh.n d + 1)))
        + (r.bc.hi d).b c * ((r.interior c + g) / 2) = (r.bc.hi d).c c :=
  r.ghosted_hi_robin d c hint hd hc hp hg hD

theorem result_ghosts_consistent_lo (info : OpInfo) (a : CellVar α) (o : Operand α)
    (r : CellVar α) (_h : evalRow powF info a o = some r) (d : Dir) (c : Idx)
    (hint : r.mesh.interior c) (hd : r.mesh.kind.active d = true) (hc : c.get d = 1)
    (hp : ¬ r.bc.periodicDir d = true) (hg : loGhostCoef r.mesh r.bc d c ≠ 0)
    (hD : lineM r.mesh d c * (r.mesh.axis d).DX 0 ≠ 0) :
    ∃ g, r.ghosted (c.set d 0) = some g ∧
      (r.bc.lo d).a c * ((r.interior c - g) / (lineM r.mesh d c * (r.mesh.axis d).DX 0))
        + (r.bc.lo d).b c * ((r.interior c + g) / 2) = (r.bc.lo d).c c :=
  r.ghosted_lo_robin d c hint hd hc hp hg hD

/-- periodic axes: the ghost cells hold the wrapped interior values of the RESULT -/
theorem result_ghosts_consistent_periodic (info : OpInfo) (a : CellVar α) (o : Operand α)
    (r : CellVar α) (_h : evalRow powF info a o = some r) (d : Dir)
    (hd : r.mesh.kind.active d = true) (hp : r.bc.periodicDir d = true) :
    (∀ c, r.mesh.interior c → c.get d = r.mesh.n d →
        r.ghosted (c.set d (r.mesh.n d + 1)) = some (r.interior (c.set d 1))) ∧
    (∀ c, r.mesh.interior c → c.get d = 1 →
        r.ghosted (c.set d 0) = some (r.interior (c.set d (r.mesh.n d)))) :=
  r.ghosted_periodic d hd hp

/-- interior cells of the ghosted array hold the elementwise result -/
theorem result_ghosted_interior (info : OpInfo) (a : CellVar α) (o : Operand α)
    (r : CellVar α) (_h : evalRow powF info a o = some r) (c : Idx) (hint : r.mesh.interior c) :
    r.ghosted c = some (r.interior c) :=
  r.ghosted_interior c hint

/-- **The result of any method of the generated table honours the boundary conditions of the
    variable it was called on** (`a.mesh`, `a.bc` — by `result_bc_is_self_bc` they are the
    result's): Robin relation on non-periodic faces with non-vanishing ghost coefficient (high
    and low side), wrap on periodic axes. -/
theorem result_ghosts_consistent (name : String) (a : CellVar α) (o : Operand α) (r : CellVar α)
    (h : callCell powF name a o = some r) (d : Dir) (hd : a.mesh.kind.active d = true) :
    (¬ a.bc.periodicDir d = true →
      (∀ c, a.mesh.interior c → c.get d = a.mesh.n d → hiGhostCoef a.mesh a.bc d c ≠ 0 →
        lineM a.mesh d c * (a.mesh.axis d).DX (a.mesh.n d + 1) ≠ 0 →
        ∃ g, r.ghosted (c.set d (a.mesh.n d + 1)) = some g ∧
          (a.bc.hi d).a c * ((g - r.interior c) / (lineM a.mesh d c * (a.mesh.axis d).DX (a.mesh.n d + 1)))
            + (a.bc.hi d).b c * ((r.interior c + g) / 2) = (a.bc.hi d).c c) ∧
      (∀ c, a.mesh.interior c → c.get d = 1 → loGhostCoef a.mesh a.bc d c ≠ 0 →
        lineM a.mesh d c * (a.mesh.axis d).DX 0 ≠ 0 →
        ∃ g, r.ghosted (c.set d 0) = some g ∧
          (a.bc.lo d).a c * ((r.interior c - g) / (lineM a.mesh d c * (a.mesh.axis d).DX 0))
            + (a.bc.lo d).b c * ((r.interior c + g) / 2) = (a.bc.lo d).c c)) ∧
    (a.bc.periodicDir d = true →
      (∀ c, a.mesh.interior c → c.get d = a.mesh.n d →
        r.ghosted (c.set d (a.mesh.n d + 1)) = some (r.interior (c.set d 1))) ∧
      (∀ c, a.mesh.interior c → c.get d = 1 →
        r.ghosted (c.set d 0) = some (r.interior (c.set d (a.mesh.n d))))) := by
  obtain ⟨hbc, hm⟩ := result_bc_is_self_bc powF name a o r h
  obtain ⟨a.mesh, a.bc, ri⟩ := r
  simp only at hbc hm
  subst hbc hm
  refine ⟨fun hp => ⟨fun c hint hc hg hD =>
      CellVar.ghosted_hi_robin ⟨a.mesh, a.bc, ri⟩ d c hint hd hc hp hg hD,
    fun c hint hc hg hD => CellVar.ghosted_lo_robin ⟨a.mesh, a.bc, ri⟩ d c hint hd hc hp hg hD⟩,
    fun hp => CellVar.ghosted_periodic ⟨a.mesh, a.bc, ri⟩ d hd hp⟩

/-! ### 4. a variable as other operand acts through its interior values only -/

/-- the two generated tables (other operand a variable / anything else) are the same … -/
theorem tables_agree : cellVar = cellOther ∧ faceVar = faceOther := by decide

/-- … hence, for EVERY method name, `a ∘ b` with a variable `b` is `a ∘ b.value`: the mesh, the
    boundary conditions and the ghost cells of the other variable never enter the result -/
theorem other_variable_enters_through_interior_only (name : String) (a b : CellVar α) :
    callCell powF name a (.var b) = callCell powF name a (.array b.interior) := by
  unfold callCell callCellIn methodIn
  simp only [Operand.isVar, if_true, Bool.false_eq_true, if_false]
  rw [tables_agree.1]
  rfl

/-! ### 5. `copy()` -/

/-- the copy is equal to the original: same mesh, same boundary conditions, same array — interior
    AND ghost layer, whether or not the ghost layer is up to date -/
theorem copy_equal (o : CellObj α) : o.copy = o := rfl

theorem copy_fields (o : CellObj α) :
    o.copy.mesh = o.mesh ∧ o.copy.bc = o.bc ∧ ∀ c, o.copy.arr c = o.arr c :=
  ⟨rfl, rfl, fun _ => rfl⟩

/-- the copy of an operator result (any freshly constructed variable): interior values and the
    ghost layer computed from the boundary conditions -/
theorem copy_of_result (v : CellVar α) :
    v.obj.copy.mesh = v.mesh ∧ v.obj.copy.bc = v.bc ∧ ∀ c, v.obj.copy.arr c = v.ghosted c :=
  ⟨rfl, rfl, fun _ => rfl⟩

/-- `copy()` adopts the ghost layer AS IT IS: it is not the constructor call on the interior
    values (which would recompute the ghost cells) unless the ghost layer was up to date -/
theorem copy_keeps_ghost_layer_as_is (o : CellObj α) (φ : CellFld α) :
    o.copy = construct o.mesh (.interior φ) o.bc ↔ o.arr = withGhosts o.mesh o.bc φ := by
  constructor
  · intro h
    have := congrArg CellObj.arr h
    exact this
  · intro h
    show (⟨o.mesh, o.bc, o.arr⟩ : CellObj α) = ⟨o.mesh, o.bc, withGhosts o.mesh o.bc φ⟩
    rw [h]

/-! ### 6. FaceVariable: the same operation on each of the three components -/

theorem face_add (a : FaceVar α) (o : FaceOperand α) :
    callFace powF "__add__" a o = some ⟨a.mesh, fun d c => a.val d c + o.val d c⟩ := by
  cases o <;> rfl

theorem face_radd (a : FaceVar α) (o : FaceOperand α) :
    callFace powF "__radd__" a o = some ⟨a.mesh, fun d c => o.val d c + a.val d c⟩ := by
  have h : callFace powF "__radd__" a o = some ⟨a.mesh, fun d c => a.val d c + o.val d c⟩ := by
    cases o <;> rfl
  rw [h]; simp only [add_comm]

theorem face_sub (a : FaceVar α) (o : FaceOperand α) :
    callFace powF "__sub__" a o = some ⟨a.mesh, fun d c => a.val d c - o.val d c⟩ := by
  cases o <;> rfl

/-- reflected: `o - a` on every component -/
theorem face_rsub (a : FaceVar α) (o : FaceOperand α) :
    callFace powF "__rsub__" a o = some ⟨a.mesh, fun d c => o.val d c - a.val d c⟩ := by
  cases o <;> rfl

theorem face_mul (a : FaceVar α) (o : FaceOperand α) :
    callFace powF "__mul__" a o = some ⟨a.mesh, fun d c => a.val d c * o.val d c⟩ := by
  cases o <;> rfl

theorem face_rmul (a : FaceVar α) (o : FaceOperand α) :
    callFace powF "__rmul__" a o = some ⟨a.mesh, fun d c => o.val d c * a.val d c⟩ := by
  have h : callFace powF "__rmul__" a o = some ⟨a.mesh, fun d c => a.val d c * o.val d c⟩ := by
    cases o <;> rfl
  rw [h]; simp only [mul_comm]

theorem face_truediv (a : FaceVar α) (o : FaceOperand α) :
    callFace powF "__truediv__" a o = some ⟨a.mesh, fun d c => a.val d c / o.val d c⟩ := by
  cases o <;> rfl

theorem face_rtruediv (a : FaceVar α) (o : FaceOperand α) :
    callFace powF "__rtruediv__" a o = some ⟨a.mesh, fun d c => o.val d c / a.val d c⟩ := by
  cases o <;> rfl

theorem face_neg (a : FaceVar α) (o : FaceOperand α) :
    callFace powF "__neg__" a o = some ⟨a.mesh, fun d c => -a.val d c⟩ := by
  cases o <;> rfl

theorem face_pow (a : FaceVar α) (o : FaceOperand α) :
    callFace powF "__pow__" a o = some ⟨a.mesh, fun d c => powF (a.val d c) (o.val d c)⟩ := by
  cases o <;> rfl

theorem face_rpow (a : FaceVar α) (o : FaceOperand α) :
    callFace powF "__rpow__" a o = some ⟨a.mesh, fun d c => powF (o.val d c) (a.val d c)⟩ := by
  cases o <;> rfl

theorem face_gt (a : FaceVar α) (o : FaceOperand α) :
    callFace powF "__gt__" a o = some ⟨a.mesh, fun d c => truth (a.val d c > o.val d c)⟩ := by
  cases o <;> rfl

theorem face_ge (a : FaceVar α) (o : FaceOperand α) :
    callFace powF "__ge__" a o = some ⟨a.mesh, fun d c => truth (a.val d c ≥ o.val d c)⟩ := by
  cases o <;> rfl

theorem face_lt (a : FaceVar α) (o : FaceOperand α) :
    callFace powF "__lt__" a o = some ⟨a.mesh, fun d c => truth (a.val d c < o.val d c)⟩ := by
  cases o <;> rfl

theorem face_le (a : FaceVar α) (o : FaceOperand α) :
    callFace powF "__le__" a o = some ⟨a.mesh, fun d c => truth (a.val d c ≤ o.val d c)⟩ := by
  cases o <;> rfl

theorem face_and (a : FaceVar α) (o : FaceOperand α) :
    callFace powF "__and__" a o
      = some ⟨a.mesh, fun d c => truth (a.val d c ≠ 0 ∧ o.val d c ≠ 0)⟩ := by
  cases o <;> rfl

theorem face_or (a : FaceVar α) (o : FaceOperand α) :
    callFace powF "__or__" a o
      = some ⟨a.mesh, fun d c => truth (a.val d c ≠ 0 ∨ o.val d c ≠ 0)⟩ := by
  cases o <;> rfl

theorem face_abs (a : FaceVar α) (o : FaceOperand α) :
    callFace powF "__abs__" a o = some ⟨a.mesh, fun d c => |a.val d c|⟩ := by
  cases o <;> rfl

/-- table-driven summary for FaceVariables: every method computes its specified function on the
    `x`, the `y` and the `z` component alike, and the result lives on `self`'s mesh -/
theorem face_methods_elementwise :
    ∀ p ∈ methodSem powF, ∀ (a : FaceVar α) (o : FaceOperand α),
      callFace powF p.1 a o = some ⟨a.mesh, fun d c => p.2 (a.val d c) (o.val d c)⟩ := by
  intro p hp a o
  simp only [methodSem, List.mem_cons, List.not_mem_nil, or_false] at hp
  rcases hp with rfl | rfl | rfl | rfl | rfl | rfl | rfl | rfl | rfl | rfl | rfl | rfl | rfl
    | rfl | rfl | rfl | rfl | rfl
  · exact face_add powF a o
  · exact face_radd powF a o
  · exact face_sub powF a o
  · exact face_rsub powF a o
  · exact face_mul powF a o
  · exact face_rmul powF a o
  · exact face_truediv powF a o
  · exact face_rtruediv powF a o
  · exact face_neg powF a o
  · exact face_pow powF a o
  · exact face_rpow powF a o
  · exact face_gt powF a o
  · exact face_ge powF a o
  · exact face_lt powF a o
  · exact face_le powF a o
  · exact face_and powF a o
  · exact face_or powF a o
  · exact face_abs powF a o

/-- spelled out per component, for the reflected subtraction -/
theorem face_rsub_components (a : FaceVar α) (o : FaceOperand α) (r : FaceVar α)
    (h : callFace powF "__rsub__" a o = some r) (c : Idx) :
    r.val .x c = o.val .x c - a.val .x c ∧ r.val .y c = o.val .y c - a.val .y c ∧
    r.val .z c = o.val .z c - a.val .z c ∧ r.mesh = a.mesh := by
  rw [face_rsub] at h
  obtain rfl := Option.some.inj h
  exact ⟨rfl, rfl, rfl, rfl⟩

section facebinops
variable {x y : FaceOperand α} {v : FaceVar α}

/-- `x - y` with the FaceVariable on either side: reflected subtraction is reversed -/
theorem face_binop_sub (h : leftmostFaceVar x y = some v) :
    faceBinop powF "__sub__" x y = some ⟨v.mesh, fun d c => x.val d c - y.val d c⟩ := by
  cases x <;> cases y <;> simp only [leftmostFaceVar, Option.some.injEq, reduceCtorEq] at h <;>
    subst h <;> rfl

theorem face_binop_truediv (h : leftmostFaceVar x y = some v) :
    faceBinop powF "__truediv__" x y = some ⟨v.mesh, fun d c => x.val d c / y.val d c⟩ := by
  cases x <;> cases y <;> simp only [leftmostFaceVar, Option.some.injEq, reduceCtorEq] at h <;>
    subst h <;> rfl

theorem face_binop_pow (h : leftmostFaceVar x y = some v) :
    faceBinop powF "__pow__" x y = some ⟨v.mesh, fun d c => powF (x.val d c) (y.val d c)⟩ := by
  cases x <;> cases y <;> simp only [leftmostFaceVar, Option.some.injEq, reduceCtorEq] at h <;>
    subst h <;> rfl

theorem face_binop_add (h : leftmostFaceVar x y = some v) :
    faceBinop powF "__add__" x y = some ⟨v.mesh, fun d c => x.val d c + y.val d c⟩ := by
  cases x <;> cases y <;> simp only [leftmostFaceVar, Option.some.injEq, reduceCtorEq] at h <;>
    subst h <;>
    first
    | rfl
    | (refine Eq.trans ?_ (face_radd powF _ _); rfl)

theorem face_binop_mul (h : leftmostFaceVar x y = some v) :
    faceBinop powF "__mul__" x y = some ⟨v.mesh, fun d c => x.val d c * y.val d c⟩ := by
  cases x <;> cases y <;> simp only [leftmostFaceVar, Option.some.injEq, reduceCtorEq] at h <;>
    subst h <;>
    first
    | rfl
    | (refine Eq.trans ?_ (face_rmul powF _ _); rfl)

theorem face_binop_gt (h : leftmostFaceVar x y = some v) :
    faceBinop powF "__gt__" x y = some ⟨v.mesh, fun d c => truth (x.val d c > y.val d c)⟩ := by
  cases x <;> cases y <;> simp only [leftmostFaceVar, Option.some.injEq, reduceCtorEq] at h <;>
    subst h <;> rfl

theorem face_binop_ge (h : leftmostFaceVar x y = some v) :
    faceBinop powF "__ge__" x y = some ⟨v.mesh, fun d c => truth (x.val d c ≥ y.val d c)⟩ := by
  cases x <;> cases y <;> simp only [leftmostFaceVar, Option.some.injEq, reduceCtorEq] at h <;>
    subst h <;> rfl

theorem face_binop_lt (h : leftmostFaceVar x y = some v) :
    faceBinop powF "__lt__" x y = some ⟨v.mesh, fun d c => truth (x.val d c < y.val d c)⟩ := by
  cases x <;> cases y <;> simp only [leftmostFaceVar, Option.some.injEq, reduceCtorEq] at h <;>
    subst h <;> rfl

theorem face_binop_le (h : leftmostFaceVar x y = some v) :
    faceBinop powF "__le__" x y = some ⟨v.mesh, fun d c => truth (x.val d c ≤ y.val d c)⟩ := by
  cases x <;> cases y <;> simp only [leftmostFaceVar, Option.some.injEq, reduceCtorEq] at h <;>
    subst h <;> rfl

end facebinops

/-- the FaceVariable tables have no reflected logical operators either -/
theorem face_logical_ops_not_reflected (b : FaceVar α) (s : α) :
    faceBinop powF "__and__" (.scalar s) (.var b) = none ∧
    faceBinop powF "__or__" (.scalar s) (.var b) = none := ⟨rfl, rfl⟩

/-- for every method name: a FaceVariable as other operand acts through its component arrays … -/
theorem face_result_on_self_mesh (name : String) (a : FaceVar α) (o : FaceOperand α)
    (r : FaceVar α) (h : callFace powF name a o = some r) : r.mesh = a.mesh := by
  unfold callFace callFaceIn at h
  cases hi : methodIn faceVar faceOther name o.isVar with
  | none => rw [hi] at h; simp at h
  | some info =>
    rw [hi] at h
    simp only [Option.bind_some] at h
    obtain ⟨_, _, f, _, rfl⟩ := evalFaceRow_eq_some h
    rfl

/-! ### 7. sanity on concrete data over ℚ -/

section concrete
variable (pw : ℚ → ℚ → ℚ)

/- `aEx k`: the ramp `φ(i,j,k) = i` on the 3-cell example mesh with Dirichlet `φ = 5` everywhere;
   `bEx k`: the constant 2 on the same mesh with the Robin conditions (`PyFV.VarEx`). -/

/-- `3 - a` and `a - 3` differ (cell 1: `2` versus `-2`): the reflected rows matter -/
example (k : Kind) :
    binop pw "__sub__" (.scalar 3) (.var (aEx k)) ≠ binop pw "__sub__" (.var (aEx k)) (.scalar 3) := by
  rw [binop_sub pw (v := aEx k) rfl, binop_sub pw (v := aEx k) rfl]
  intro h
  have h2 := congrFun (congrArg CellVar.interior (Option.some.inj h)) (1, 1, 1)
  norm_num [Operand.val, aEx, BCEx.ramp] at h2

/-- values: `(3 - a)(1) = 2`, `(a - 3)(1) = -2`, `(6 / a)(3) = 2`, `(a / 6)(3) = 1/2` -/
example (k : Kind) :
    (binop pw "__sub__" (.scalar 3) (.var (aEx k))).map (·.interior (1, 1, 1)) = some 2 ∧
    (binop pw "__sub__" (.var (aEx k)) (.scalar 3)).map (·.interior (1, 1, 1)) = some (-2) ∧
    (binop pw "__truediv__" (.scalar 6) (.var (aEx k))).map (·.interior (3, 1, 1)) = some 2 ∧
    (binop pw "__truediv__" (.var (aEx k)) (.scalar 6)).map (·.interior (3, 1, 1)) = some (1 / 2) := by
  rw [binop_sub pw (v := aEx k) rfl, binop_sub pw (v := aEx k) rfl,
    binop_truediv pw (v := aEx k) rfl, binop_truediv pw (v := aEx k) rfl]
  norm_num [Operand.val, aEx, BCEx.ramp]

/-- two variables with different boundary conditions: `a - b` carries `a`'s (Dirichlet),
    `b - a` carries `b`'s (Robin), and the two sets of boundary conditions differ -/
example (k : Kind) :
    (binop pw "__sub__" (.var (aEx k)) (.var (bEx k))).map (·.bc) = some BCEx.dirichlet ∧
    (binop pw "__sub__" (.var (bEx k)) (.var (aEx k))).map (·.bc) = some BCEx.robin ∧
    (BCEx.dirichlet.hi .x).a (1, 1, 1) ≠ (BCEx.robin.hi .x).a (1, 1, 1) := by
  rw [binop_sub pw (v := aEx k) rfl, binop_sub pw (v := bEx k) rfl]
  refine ⟨rfl, rfl, ?_⟩
  norm_num [BCEx.dirichlet, BCEx.dirichletFace, BCEx.robin, BCEx.robinFace]

/-- comparison and logical values are the numbers 1 and 0: `(a > 2) = (0, 0, 1)`,
    `(a > 2) | (a < 2) = (1, 0, 1)` at cells 1, 2, 3 -/
example (k : Kind) :
    (callCell pw "__gt__" (aEx k) (.scalar 2)).map
        (fun r => (r.interior (1, 1, 1), r.interior (2, 1, 1), r.interior (3, 1, 1)))
      = some (0, 0, 1) ∧
    ((callCell pw "__gt__" (aEx k) (.scalar 2)).bind fun g =>
      (callCell pw "__lt__" (aEx k) (.scalar 2)).bind fun l =>
        (callCell pw "__or__" g (.var l)).map
          (fun r => (r.interior (1, 1, 1), r.interior (2, 1, 1), r.interior (3, 1, 1))))
      = some (1, 0, 1) := by
  rw [gt_elementwise, lt_elementwise]
  simp only [Option.bind_some, or_elementwise, Option.map_some]
  norm_num [Operand.val, aEx, BCEx.ramp, truth]

/-- the hypothesis `leftmostVar x y = some v` of the `binop_*` theorems is met whenever an operand
    is a variable — and only then -/
example (a b : CellVar ℚ) (s : ℚ) (arr : CellFld ℚ) :
    leftmostVar (.var a) (.var b) = some a ∧ leftmostVar (.scalar s) (.var b) = some b ∧
    leftmostVar (.array arr) (.var b) = some b ∧ leftmostVar (.var a) (.array arr) = some a ∧
    leftmostVar (.scalar s) (.array arr) = none :=
  ⟨rfl, rfl, rfl, rfl, rfl⟩

/-- hypotheses of `result_ghosts_consistent` (high side) are satisfiable, and the conclusion is
    about a real number: for `r = b * 2` (interior 4, Robin `1·∂φ + 2·φ = 3`, ghost coefficient
    `4/3`) the high `x` ghost is `(3 − 4·(−1/3 + 1))/(4/3) = 1/4` -/
example (k : Kind) :
    ∃ r, callCell pw "__mul__" (bEx k) (.scalar 2) = some r ∧
      (bEx k).mesh.interior (3, 1, 1) ∧ (bEx k).mesh.kind.active .x = true ∧
      Idx.get (3, 1, 1) .x = (bEx k).mesh.n .x ∧
      ¬ (bEx k).bc.periodicDir .x = true ∧
      hiGhostCoef (bEx k).mesh (bEx k).bc .x (3, 1, 1) ≠ 0 ∧
      lineM (bEx k).mesh .x (3, 1, 1) * ((bEx k).mesh.axis .x).DX ((bEx k).mesh.n .x + 1) ≠ 0 ∧
      r.ghosted (4, 1, 1) = some (1 / 4) := by
  refine ⟨_, mul_elementwise pw (bEx k) (.scalar 2), interior_311 k, rfl, rfl,
    (by show ¬ BCEx.robin.periodicDir .x = true; decide), ?_, ?_, ?_⟩
  · show hiGhostCoef (Examples.mesh k) BCEx.robin .x (3, 1, 1) ≠ 0
    rw [C03.robin_hiGhostCoef]; norm_num
  · show lineM (Examples.mesh k) .x (3, 1, 1)
      * ((Examples.mesh k).axis .x).DX ((Examples.mesh k).n .x + 1) ≠ 0
    rw [lineM_x, BCEx.mesh_n_x, BCEx.mesh_DX_x, BCEx.ax3_DX4]; norm_num
  · have e := CellVar.ghosted_hi_eq
      (⟨Examples.mesh k, BCEx.robin, fun c => (2 : ℚ) * (Operand.scalar 2).val c⟩ : CellVar ℚ)
      .x (3, 1, 1) (interior_311 k) rfl rfl
    have e' : (⟨Examples.mesh k, BCEx.robin, fun c => (2 : ℚ) * (Operand.scalar 2).val c⟩ :
        CellVar ℚ).ghosted (4, 1, 1)
        = ghostHi (Examples.mesh k) BCEx.robin (fun c => (2 : ℚ) * (Operand.scalar 2).val c) .x
            (3, 1, 1) := e
    show (⟨Examples.mesh k, BCEx.robin, fun c => (2 : ℚ) * (Operand.scalar 2).val c⟩ :
        CellVar ℚ).ghosted (4, 1, 1) = some (1 / 4)
    rw [e', ghostHi_nonper (by decide), C03.robin_hiGhostCoef, sdiv_of_ne (by norm_num)]
    rw [hiCellCoef, lineM_x, BCEx.mesh_n_x, BCEx.mesh_DX_x, BCEx.ax3_DX4]
    norm_num [BCEx.robin, BCEx.robinFace, Operand.val]

/-- low side: hypotheses satisfiable on the same result -/
example (k : Kind) :
    (bEx k).mesh.interior (1, 1, 1) ∧ Idx.get (1, 1, 1) .x = 1 ∧
    ¬ (bEx k).bc.periodicDir .x = true ∧
    loGhostCoef (bEx k).mesh (bEx k).bc .x (1, 1, 1) ≠ 0 ∧
    lineM (bEx k).mesh .x (1, 1, 1) * ((bEx k).mesh.axis .x).DX 0 ≠ 0 := by
  refine ⟨Examples.interior_111 k, rfl,
    (by show ¬ BCEx.robin.periodicDir .x = true; decide), ?_, ?_⟩
  · show loGhostCoef (Examples.mesh k) BCEx.robin .x (1, 1, 1) ≠ 0
    rw [C03.robin_loGhostCoef]; norm_num
  · show lineM (Examples.mesh k) .x (1, 1, 1) * ((Examples.mesh k).axis .x).DX 0 ≠ 0
    rw [lineM_x, BCEx.mesh_DX_x, BCEx.ax3_DX0]; norm_num

/-- periodic hypothesis satisfiable: `-p` for a variable with the `x` axis flagged periodic
    wraps — the high ghost of the result is its own first interior value `-1` -/
example (k : Kind) :
    ∃ r, callCell pw "__neg__" ⟨Examples.mesh k, BCEx.periodicX, BCEx.ramp⟩ (.scalar 0) = some r ∧
      r.bc.periodicDir .x = true ∧ r.ghosted (4, 1, 1) = some (-1) := by
  refine ⟨_, neg_elementwise pw _ _,
    (by show BCEx.periodicX.periodicDir .x = true; decide), ?_⟩
  have h := ((CellVar.ghosted_periodic
    (⟨Examples.mesh k, BCEx.periodicX, fun c => -BCEx.ramp c⟩ : CellVar ℚ) .x rfl
    (by show BCEx.periodicX.periodicDir .x = true; decide)).1
    (3, 1, 1) (interior_311 k) rfl)
  have h' : (⟨Examples.mesh k, BCEx.periodicX, fun c => -BCEx.ramp c⟩ : CellVar ℚ).ghosted (4, 1, 1)
      = some (-BCEx.ramp (1, 1, 1)) := h
  show (⟨Examples.mesh k, BCEx.periodicX, fun c => -BCEx.ramp c⟩ : CellVar ℚ).ghosted (4, 1, 1)
      = some (-1)
  rw [h']
  norm_num [BCEx.ramp]

/-- `copy()` of an object with an OUTDATED ghost layer keeps the outdated values: the copy is
    equal to the original and differs from a re-construction from the interior values -/
example :
    let stale : CellObj ℚ := ⟨Examples.mesh .cart1, BCEx.dirichlet, fun c => some (BCEx.ramp c)⟩
    stale.copy = stale ∧ stale.copy.arr (4, 1, 1) = some 4 ∧
    (construct stale.mesh (.interior BCEx.ramp) stale.bc).arr (4, 1, 1) = some 7 := by
  refine ⟨rfl, ?_, ?_⟩
  · norm_num [CellObj.copy, construct, BCEx.ramp]
  · show withGhosts (Examples.mesh .cart1) BCEx.dirichlet BCEx.ramp (4, 1, 1) = some 7
    have e := CellVar.ghosted_hi_eq (⟨Examples.mesh .cart1, BCEx.dirichlet, BCEx.ramp⟩ : CellVar ℚ)
      .x (3, 1, 1) (interior_311 _) rfl rfl
    have e' : withGhosts (Examples.mesh .cart1) BCEx.dirichlet BCEx.ramp (4, 1, 1)
        = ghostHi (Examples.mesh .cart1) BCEx.dirichlet BCEx.ramp .x (3, 1, 1) := e
    rw [e']
    exact (C03.ghost_not_wrapped_example .cart1).1

/-- FaceVariable: `3 - f` and `f - 3` differ on every component -/
example (m : Mesh ℚ) (d : Dir) (c : Idx) :
    (faceBinop pw "__sub__" (.scalar 3) (.var ⟨m, fun _ _ => 1⟩)).map (·.val d c) = some 2 ∧
    (faceBinop pw "__sub__" (.var ⟨m, fun _ _ => 1⟩) (.scalar 3)).map (·.val d c) = some (-2) := by
  rw [face_binop_sub pw (v := ⟨m, fun _ _ => 1⟩) rfl, face_binop_sub pw (v := ⟨m, fun _ _ => 1⟩) rfl]
  norm_num [FaceOperand.val]

/-! ### 8. sensitivity witnesses: altered rows falsify the statements -/

/- `rsubWrong = ⟨"sub", "so", true, "deepcopySelf"⟩`: the row `__rsub__` would have if `cell.py`
   computed `self.value - other` there (`PyFV.VarEx`). -/

/-- with that row the statement of `rsub_elementwise` is FALSE on a concrete instance
    (`3 - a` at cell 1 must be 2, the altered row gives −2); with the generated row it holds -/
example (k : Kind) :
    evalRow pw rsubWrong (aEx k) (.scalar 3)
      ≠ some ⟨(aEx k).mesh, (aEx k).bc, fun c => (Operand.scalar 3).val c - (aEx k).interior c⟩ ∧
    (cellOther.lookup "__rsub__").bind (fun info => evalRow pw info (aEx k) (.scalar 3))
      = some ⟨(aEx k).mesh, (aEx k).bc, fun c => (Operand.scalar 3).val c - (aEx k).interior c⟩ := by
  refine ⟨?_, rfl⟩
  intro h
  have h1 : evalRow pw rsubWrong (aEx k) (.scalar 3)
      = some ⟨(aEx k).mesh, (aEx k).bc, fun c => (aEx k).interior c - (Operand.scalar 3).val c⟩ := rfl
  rw [h1] at h
  have h2 := congrFun (congrArg CellVar.interior (Option.some.inj h)) (1, 1, 1)
  norm_num [Operand.val, aEx, BCEx.ramp] at h2

/-- the same at the level of whole TABLES: replace the generated `__rsub__` rows by the altered
    row, leave everything else as generated; then `__rsub__` no longer computes `o - a` -/
example (k : Kind) :
    let alter := fun (t : List (String × OpInfo)) =>
      t.map (fun r => if r.1 == "__rsub__" then (r.1, { r.2 with order := "so" }) else r)
    callCellIn (alter cellVar) (alter cellOther) pw "__rsub__" (aEx k) (.scalar 3)
      ≠ some ⟨(aEx k).mesh, (aEx k).bc, fun c => (Operand.scalar 3).val c - (aEx k).interior c⟩ ∧
    callCellIn (alter cellVar) (alter cellOther) pw "__sub__" (aEx k) (.scalar 3)
      = callCell pw "__sub__" (aEx k) (.scalar 3) := by
  refine ⟨?_, rfl⟩
  intro h
  have h1 : callCellIn
      (cellVar.map (fun r => if r.1 == "__rsub__" then (r.1, { r.2 with order := "so" }) else r))
      (cellOther.map (fun r => if r.1 == "__rsub__" then (r.1, { r.2 with order := "so" }) else r))
      pw "__rsub__" (aEx k) (.scalar 3)
      = some ⟨(aEx k).mesh, (aEx k).bc, fun c => (aEx k).interior c - (Operand.scalar 3).val c⟩ := rfl
  rw [h1] at h
  have h2 := congrFun (congrArg CellVar.interior (Option.some.inj h)) (1, 1, 1)
  norm_num [Operand.val, aEx, BCEx.ramp] at h2

/-- a row whose boundary conditions are not `deepcopy(self.BCs)` (constructor called without `BC`)
    falsifies `result_bc_is_self_bc`: the result would carry the default Neumann conditions -/
example (k : Kind) :
    ∃ r, evalRow pw ⟨"add", "so", true, "none"⟩ (aEx k) (.scalar 3) = some r ∧ r.bc ≠ (aEx k).bc := by
  refine ⟨_, rfl, ?_⟩
  intro h
  have h2 := congrFun (congrArg (fun (b : BCs ℚ) => (b.hi .x).a) h) (1, 1, 1)
  norm_num [BCs.neumann, aEx, BCEx.dirichlet, BCEx.dirichletFace] at h2

/-- rows the model refuses: result not on `self.domain`, boundary conditions of the OTHER operand,
    unknown operation, unknown order -/
example (k : Kind) :
    evalRow pw ⟨"add", "so", false, "deepcopySelf"⟩ (aEx k) (.scalar 3) = none ∧
    evalRow pw ⟨"add", "so", true, "other"⟩ (aEx k) (.scalar 3) = none ∧
    evalRow pw ⟨"floordiv", "so", true, "deepcopySelf"⟩ (aEx k) (.scalar 3) = none ∧
    evalRow pw ⟨"add", "??", true, "deepcopySelf"⟩ (aEx k) (.scalar 3) = none :=
  ⟨rfl, rfl, rfl, rfl⟩

/-- an altered operation: `__mul__` computing a division is detected by `mul_elementwise`'s
    statement (`a * 2` at cell 1 is 2, not 1/2) -/
example (k : Kind) :
    evalRow pw ⟨"div", "so", true, "deepcopySelf"⟩ (aEx k) (.scalar 2)
      ≠ some ⟨(aEx k).mesh, (aEx k).bc, fun c => (aEx k).interior c * (Operand.scalar 2).val c⟩ := by
  intro h
  have h1 : evalRow pw ⟨"div", "so", true, "deepcopySelf"⟩ (aEx k) (.scalar 2)
      = some ⟨(aEx k).mesh, (aEx k).bc, fun c => (aEx k).interior c / (Operand.scalar 2).val c⟩ := rfl
  rw [h1] at h
  have h2 := congrFun (congrArg CellVar.interior (Option.some.inj h)) (1, 1, 1)
  norm_num [Operand.val, aEx, BCEx.ramp] at h2

end concrete

end PyFV.C14Val
