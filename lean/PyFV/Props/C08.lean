/-
  Property C08 — redundant coordinates and symmetries of the grid.

  (1) every per-direction stencil of the model is one generic *line operator*: it depends on the
      mesh only through the axis, the line weights `V A`, the metric scale `m` and the data
      restricted to the grid line; on Cartesian grids (`V = DX`, `A = 1`, `m = 1`) the direction
      itself is irrelevant, hence relabelling the axes together with the data relabels stencils
      and rows;
  (2) mirroring an axis (velocity component reversed) exchanges west and east coefficients,
      reverses the TVD face flux and leaves cell results unchanged;
  (3) a field that does not vary along a direction receives no contribution from that direction;
      the remaining stencils coincide with those of the grid of lower dimension
      (Grid3D→Grid2D→Grid1D, CylindricalGrid3D→CylindricalGrid2D, PolarGrid2D→CylindricalGrid1D),
      so the lift of a reduced solution satisfies the interior rows and the no-flux / periodic
      ghost rows of the big grid;
  (4) on a uniform Cartesian axis the stencils are translation invariant.
-/
import PyFV.Lemmas.Symmetry
import PyFV.Props.Examples

set_option linter.unusedSectionVars false

namespace PyFV.C08
open PyFV

variable {α : Type} [Field α] [LinearOrder α] [IsStrictOrderedRing α]

/-! ## 1. one generic line operator -/

/-- diffusion stencil = line form, for every grid class and direction -/
theorem diffSt_eq_line (M : Mesh α) (D : FaceFld α) (d : Dir) (c : Idx) :
    diffSt M D d c = lineDiffSt (M.axis d) (lineV M d) (lineA M d) (lineM M d c)
      (fun f => D d (c.set d f)) (c.get d) :=
  _root_.PyFV.diffSt_eq_line M D d c

theorem convSt_eq_line (M : Mesh α) (u : FaceFld α) (d : Dir) (c : Idx) :
    convSt M u d c = lineConvSt (M.axis d) (lineV M d) (lineA M d) (lineM M d c)
      (fun f => u d (c.set d f)) (c.get d) :=
  _root_.PyFV.convSt_eq_line M u d c

/-- the line form tests the boundary corrections against `(M.axis d).n`, which is `M.n d` -/
theorem upwindSt_eq_line (M : Mesh α) (u uUp : FaceFld α) (d : Dir) (c : Idx) :
    upwindSt M u uUp d c = lineUpwindSt (M.axis d) (lineV M d) (lineA M d) (lineM M d c)
      (fun f => u d (c.set d f)) (fun f => uUp d (c.set d f)) (c.get d) :=
  _root_.PyFV.upwindSt_eq_line M u uUp d c

theorem divD_eq_line (M : Mesh α) (F : FaceFld α) (d : Dir) (c : Idx) :
    divD M F d c = lineDivD (lineV M d) (lineA M d) (lineM M d c)
      (fun f => F d (c.set d f)) (c.get d) :=
  _root_.PyFV.divD_eq_line M F d c

theorem gradD_eq_line (M : Mesh α) (φ : CellFld α) (d : Dir) (c : Idx) :
    gradD M φ d c = lineGradD (M.axis d) (lineM M d c) (fun j => φ (c.set d j)) (c.get d) :=
  _root_.PyFV.gradD_eq_line M φ d c

theorem tvdFlux_eq_line (M : Mesh α) (u uUp : FaceFld α) (FL : α → α) (e : α) (φ : CellFld α)
    (d : Dir) (c : Idx) :
    tvdFlux M u uUp FL e φ d c
      = lineTvdFlux (M.axis d) (fun f => u d (c.set d f)) (fun f => uUp d (c.set d f)) FL e
          (fun j => φ (c.set d j)) (c.get d) :=
  _root_.PyFV.tvdFlux_eq_line M u uUp FL e φ d c

/-- Cartesian grids: the stencil along `d` depends on the direction only through the axis data
    and the line-restricted coefficient -/
theorem cart_dir_irrelevant {M M' : Mesh α} (hk : M.kind.cartesian = true)
    (hk' : M'.kind.cartesian = true) {D D' : FaceFld α} {d d' : Dir} {c c' : Idx}
    (hax : M.axis d = M'.axis d') (hi : c.get d = c'.get d')
    (hD : ∀ f, D d (c.set d f) = D' d' (c'.set d' f)) :
    diffSt M D d c = diffSt M' D' d' c' :=
  diffSt_transfer hax (by rw [lineV_cart hk, lineV_cart hk', hax])
    (by rw [lineA_cart hk, lineA_cart hk']) (by rw [lineM_cart hk, lineM_cart hk']) hi hD

theorem cart_dir_irrelevant_conv {M M' : Mesh α} (hk : M.kind.cartesian = true)
    (hk' : M'.kind.cartesian = true) {u u' : FaceFld α} {d d' : Dir} {c c' : Idx}
    (hax : M.axis d = M'.axis d') (hi : c.get d = c'.get d')
    (hu : ∀ f, u d (c.set d f) = u' d' (c'.set d' f)) :
    convSt M u d c = convSt M' u' d' c' :=
  convSt_transfer hax (by rw [lineV_cart hk, lineV_cart hk', hax])
    (by rw [lineA_cart hk, lineA_cart hk']) (by rw [lineM_cart hk, lineM_cart hk']) hi hu

theorem cart_dir_irrelevant_upwind {M M' : Mesh α} (hk : M.kind.cartesian = true)
    (hk' : M'.kind.cartesian = true) {u u' uUp uUp' : FaceFld α} {d d' : Dir} {c c' : Idx}
    (hax : M.axis d = M'.axis d') (hi : c.get d = c'.get d')
    (hu : ∀ f, u d (c.set d f) = u' d' (c'.set d' f))
    (hup : ∀ f, uUp d (c.set d f) = uUp' d' (c'.set d' f)) :
    upwindSt M u uUp d c = upwindSt M' u' uUp' d' c' :=
  upwindSt_transfer hax (by rw [lineV_cart hk, lineV_cart hk', hax])
    (by rw [lineA_cart hk, lineA_cart hk']) (by rw [lineM_cart hk, lineM_cart hk']) hi hu hup

theorem cart_dir_irrelevant_div {M M' : Mesh α} (hk : M.kind.cartesian = true)
    (hk' : M'.kind.cartesian = true) {F F' : FaceFld α} {d d' : Dir} {c c' : Idx}
    (hax : M.axis d = M'.axis d') (hi : c.get d = c'.get d')
    (hF : ∀ f, F d (c.set d f) = F' d' (c'.set d' f)) :
    divD M F d c = divD M' F' d' c' :=
  divD_transfer (by rw [lineV_cart hk, lineV_cart hk', hax])
    (by rw [lineA_cart hk, lineA_cart hk']) (by rw [lineM_cart hk, lineM_cart hk']) hi hF

theorem cart_dir_irrelevant_grad {M M' : Mesh α} (hk : M.kind.cartesian = true)
    (hk' : M'.kind.cartesian = true) {φ φ' : CellFld α} {d d' : Dir} {c c' : Idx}
    (hax : M.axis d = M'.axis d') (hi : c.get d = c'.get d')
    (hφ : ∀ j, φ (c.set d j) = φ' (c'.set d' j)) :
    gradD M φ d c = gradD M' φ' d' c' :=
  gradD_transfer hax (by rw [lineM_cart hk, lineM_cart hk']) hi hφ

/-- the TVD face flux carries no metric factor at all: it transfers between any two grids -/
theorem dir_irrelevant_tvdFlux {M M' : Mesh α} {u u' uUp uUp' : FaceFld α} (FL : α → α) (e : α)
    {φ φ' : CellFld α} {d d' : Dir} {c c' : Idx}
    (hax : M.axis d = M'.axis d') (hi : c.get d = c'.get d')
    (hu : ∀ f, u d (c.set d f) = u' d' (c'.set d' f))
    (hup : ∀ f, uUp d (c.set d f) = uUp' d' (c'.set d' f))
    (hφ : ∀ j, φ (c.set d j) = φ' (c'.set d' j)) :
    tvdFlux M u uUp FL e φ d c = tvdFlux M' u' uUp' FL e φ' d' c' :=
  tvdFlux_transfer FL e hax hi hu hup hφ

section perm
variable (M : Mesh α) (hk : M.kind.cartesian = true) (σ τ : Dir → Dir)
  (hστ : ∀ d, σ (τ d) = d) (hτσ : ∀ d, τ (σ d) = d)
include hk hστ hτσ

/-- relabelling the axes of a Cartesian mesh (direction `d` of the new mesh is direction `σ d`
    of the old one; `τ = σ⁻¹`) together with the coefficient relabels the diffusion stencils -/
theorem cart_axis_perm (D : FaceFld α) (d : Dir) (c : Idx) :
    diffSt (M.perm σ) (FaceFld.perm D σ τ) d (c.perm σ) = diffSt M D (σ d) c :=
  cart_dir_irrelevant (M := M.perm σ) (M' := M) hk hk (M.perm_axis σ d) (Idx.perm_get c σ d)
    (fun f => by
      show D (σ d) (((c.perm σ).set d f).perm τ) = _
      rw [Idx.perm_set c σ τ hστ hτσ])

theorem cart_axis_perm_conv (u : FaceFld α) (d : Dir) (c : Idx) :
    convSt (M.perm σ) (FaceFld.perm u σ τ) d (c.perm σ) = convSt M u (σ d) c :=
  cart_dir_irrelevant_conv (M := M.perm σ) (M' := M) hk hk (M.perm_axis σ d) (Idx.perm_get c σ d)
    (fun f => by
      show u (σ d) (((c.perm σ).set d f).perm τ) = _
      rw [Idx.perm_set c σ τ hστ hτσ])

theorem cart_axis_perm_upwind (u uUp : FaceFld α) (d : Dir) (c : Idx) :
    upwindSt (M.perm σ) (FaceFld.perm u σ τ) (FaceFld.perm uUp σ τ) d (c.perm σ)
      = upwindSt M u uUp (σ d) c :=
  cart_dir_irrelevant_upwind (M := M.perm σ) (M' := M) hk hk (M.perm_axis σ d)
    (Idx.perm_get c σ d)
    (fun f => by
      show u (σ d) (((c.perm σ).set d f).perm τ) = _
      rw [Idx.perm_set c σ τ hστ hτσ])
    (fun f => by
      show uUp (σ d) (((c.perm σ).set d f).perm τ) = _
      rw [Idx.perm_set c σ τ hστ hτσ])

theorem cart_axis_perm_tvdFlux (u uUp : FaceFld α) (FL : α → α) (e : α) (φ : CellFld α) (d : Dir)
    (c : Idx) :
    tvdFlux (M.perm σ) (FaceFld.perm u σ τ) (FaceFld.perm uUp σ τ) FL e (CellFld.perm φ τ) d
        (c.perm σ)
      = tvdFlux M u uUp FL e φ (σ d) c :=
  dir_irrelevant_tvdFlux FL e (M.perm_axis σ d) (Idx.perm_get c σ d)
    (fun f => by
      show u (σ d) (((c.perm σ).set d f).perm τ) = _
      rw [Idx.perm_set c σ τ hστ hτσ])
    (fun f => by
      show uUp (σ d) (((c.perm σ).set d f).perm τ) = _
      rw [Idx.perm_set c σ τ hστ hτσ])
    (fun j => by
      show φ (((c.perm σ).set d j).perm τ) = _
      rw [Idx.perm_set c σ τ hστ hτσ])

/-- cell level: the permuted stencil applied to the permuted field at the permuted cell -/
theorem cart_axis_perm_cell (D : FaceFld α) (φ : CellFld α) (d : Dir) (c : Idx) :
    (diffSt (M.perm σ) (FaceFld.perm D σ τ) d (c.perm σ)).app (CellFld.perm φ τ) d (c.perm σ)
      = (diffSt M D (σ d) c).app φ (σ d) c := by
  rw [cart_axis_perm M hk σ τ hστ hτσ D d c]
  exact St3.app_perm _ φ σ τ hστ hτσ d c

/-- row level (`σ` must keep active directions active: any `σ` on `Grid3D`, `x ↔ y` on `Grid2D`):
    the matrix row of the permuted problem applied to the permuted field = the original row
    applied to the original field -/
theorem cart_axis_perm_diffusionRow (hact : ∀ d, M.kind.active (σ d) = M.kind.active d)
    (D : FaceFld α) (φ : CellFld α) (c : Idx) :
    (diffusionRow (M.perm σ) (FaceFld.perm D σ τ) (c.perm σ)).app (CellFld.perm φ τ) (c.perm σ)
      = (diffusionRow M D c).app φ c := by
  unfold diffusionRow
  rw [St7.ofDirs_app, St7.ofDirs_app, Mesh.perm_kind,
    ← sumDirs_perm M.kind σ τ hτσ hact (fun d => (diffSt M D d c).app φ d c)]
  apply sumDirs_congr; intro d _
  rw [cart_axis_perm M hk σ τ hστ hτσ D d c]
  exact St3.app_perm _ φ σ τ hστ hτσ d c

theorem cart_axis_perm_convectionRow (hact : ∀ d, M.kind.active (σ d) = M.kind.active d)
    (u : FaceFld α) (φ : CellFld α) (c : Idx) :
    (convectionRow (M.perm σ) (FaceFld.perm u σ τ) (c.perm σ)).app (CellFld.perm φ τ) (c.perm σ)
      = (convectionRow M u c).app φ c := by
  unfold convectionRow
  rw [St7.ofDirs_app, St7.ofDirs_app, Mesh.perm_kind,
    ← sumDirs_perm M.kind σ τ hτσ hact (fun d => (convSt M u d c).app φ d c)]
  apply sumDirs_congr; intro d _
  rw [cart_axis_perm_conv M hk σ τ hστ hτσ u d c]
  exact St3.app_perm _ φ σ τ hστ hτσ d c

theorem cart_axis_perm_upwindRow (hact : ∀ d, M.kind.active (σ d) = M.kind.active d)
    (u uUp : FaceFld α) (φ : CellFld α) (c : Idx) :
    (upwindRow (M.perm σ) (FaceFld.perm u σ τ) (FaceFld.perm uUp σ τ) (c.perm σ)).app
        (CellFld.perm φ τ) (c.perm σ)
      = (upwindRow M u uUp c).app φ c := by
  unfold upwindRow
  rw [St7.ofDirs_app, St7.ofDirs_app, Mesh.perm_kind,
    ← sumDirs_perm M.kind σ τ hτσ hact (fun d => (upwindSt M u uUp d c).app φ d c)]
  apply sumDirs_congr; intro d _
  rw [cart_axis_perm_upwind M hk σ τ hστ hτσ u uUp d c]
  exact St3.app_perm _ φ σ τ hστ hτσ d c

/-- the TVD right-hand side entry of the permuted problem at the permuted cell -/
theorem cart_axis_perm_tvdRHS (hact : ∀ d, M.kind.active (σ d) = M.kind.active d)
    (u uUp : FaceFld α) (FL : α → α) (e : α) (φ : CellFld α) (c : Idx) :
    tvdRHS (M.perm σ) (FaceFld.perm u σ τ) (FaceFld.perm uUp σ τ) FL e (CellFld.perm φ τ)
        (c.perm σ)
      = tvdRHS M u uUp FL e φ c := by
  unfold tvdRHS divergence
  rw [Mesh.perm_kind,
    ← sumDirs_perm M.kind σ τ hτσ hact (fun d => divD M (tvdFlux M u uUp FL e φ) d c)]
  congr 1
  apply sumDirs_congr; intro d _
  apply cart_dir_irrelevant_div (M := M.perm σ) (M' := M) hk hk (M.perm_axis σ d)
    (Idx.perm_get c σ d)
  intro f
  have hc : (c.perm σ).set d f = (c.set (σ d) f).perm σ := by
    apply Idx.ext_get; intro e'
    rw [Idx.get_set, Idx.perm_get, Idx.perm_get, Idx.get_set]
    by_cases h : d = e'
    · subst h; simp
    · have : ¬ σ d = σ e' := fun h' => h (by rw [← hτσ d, h', hτσ])
      simp [h, this]
  rw [hc]
  exact cart_axis_perm_tvdFlux M hk σ τ hστ hτσ u uUp FL e φ d (c.set (σ d) f)

end perm

/-- `Grid2D` / `Grid3D` with `x` and `y` exchanged -/
theorem cart_swapXY_diffusionRow (M : Mesh α) (hk : M.kind = .cart2 ∨ M.kind = .cart3)
    (D : FaceFld α) (φ : CellFld α) (c : Idx) :
    (diffusionRow (M.perm swapXY) (FaceFld.perm D swapXY swapXY) (c.perm swapXY)).app
        (CellFld.perm φ swapXY) (c.perm swapXY)
      = (diffusionRow M D c).app φ c := by
  have hc : M.kind.cartesian = true := by rcases hk with h | h <;> rw [h] <;> rfl
  have h2 : 2 ≤ M.kind.dim := by rcases hk with h | h <;> rw [h] <;> decide
  exact cart_axis_perm_diffusionRow M hc swapXY swapXY swapXY_invol swapXY_invol
    (swapXY_active M.kind h2) D φ c

/-! ## 2. mirrored axis -/

/-- the mirror image of a well-formed axis is a well-formed axis -/
theorem mirror_WF {a : Axis α} (h : a.WF) : a.mirror.WF := h.mirror

/-- diffusion, `D' f = D (n − f)`, at `i' = n + 1 − i`: `(w', p', e') = (e, p, w)` -/
theorem mirror_diffusion (a : Axis α) (Dl : ℕ → α) (i : ℕ) (h1 : 1 ≤ i) (hn : i ≤ a.n) :
    cartDiffSt a.mirror (fun f => Dl (a.n - f)) (a.n + 1 - i) = (cartDiffSt a Dl i).flip :=
  cartDiffSt_mirror a Dl i h1 hn

/-- central convection, `u' f = −u (n − f)` -/
theorem mirror_convection (a : Axis α) (ul : ℕ → α) (i : ℕ) (h1 : 1 ≤ i) (hn : i ≤ a.n) :
    cartConvSt a.mirror (fun f => -(ul (a.n - f))) (a.n + 1 - i) = (cartConvSt a ul i).flip :=
  cartConvSt_mirror a ul i h1 hn

/-- upwind convection, both boundary corrections included (`i = 1 ↔ i' = n`) -/
theorem mirror_upwind (a : Axis α) (ul uUpl : ℕ → α) (i : ℕ) (h1 : 1 ≤ i) (hn : i ≤ a.n) :
    cartUpwindSt a.mirror (fun f => -(ul (a.n - f))) (fun f => -(uUpl (a.n - f))) (a.n + 1 - i)
      = (cartUpwindSt a ul uUpl i).flip :=
  cartUpwindSt_mirror a ul uUpl i h1 hn

/-- `_fsign` is odd away from zero -/
theorem fsign_odd (e : α) {x : α} (hx : x ≠ 0) : fsign e (-x) = -(fsign e x) := fsign_neg e hx

/-- `_fsign` is NOT odd at zero (`_fsign(±0) = eps1`): the requested unconditional statement
    `fsign e (−x) = −fsign e x` is false -/
theorem fsign_odd_counterexample : ¬ ∀ (e x : ℚ), fsign e (-x) = -(fsign e x) := by
  intro h
  have := h 1 0
  rw [neg_zero, fsign_zero 1 (by norm_num)] at this
  norm_num at this

/-- difference quotient of the mirrored field -/
theorem mirror_dphi (a : Axis α) (φl : ℕ → α) (f : ℕ) (hf : f ≤ a.n) :
    ldphi a.mirror (fun i => φl (a.n + 1 - i)) f = -(ldphi a φl (a.n - f)) :=
  ldphi_mirror a φl f hf

/-- TVD face flux of the mirrored problem: `tvdFlux' f = −tvdFlux (n − f)` on every face, for
    every limiter function.  (Where the difference quotient is exactly zero `_fsign` is not
    odd, but there the flux is multiplied by the vanishing difference; this needs positive
    cell sizes.) -/
theorem mirror_tvdFlux (a : Axis α) (hDX : ∀ i, 0 < a.DX i) (ul uUpl : ℕ → α) (FL : α → α) (e : α)
    (φl : ℕ → α) (f : ℕ) (hf : f ≤ a.n) :
    lineTvdFlux a.mirror (fun f => -(ul (a.n - f))) (fun f => -(uUpl (a.n - f))) FL e
        (fun i => φl (a.n + 1 - i)) f
      = -(lineTvdFlux a ul uUpl FL e φl (a.n - f)) :=
  lineTvdFlux_mirror a hDX ul uUpl FL e φl f hf

/-- hence the TVD right-hand-side entry at `i'` equals the one at `i` -/
theorem mirror_tvd_rhs (a : Axis α) (hDX : ∀ i, 0 < a.DX i) (ul uUpl : ℕ → α) (FL : α → α) (e : α)
    (φl : ℕ → α) (i : ℕ) (h1 : 1 ≤ i) (hn : i ≤ a.n) :
    -(cartDivD a.mirror
        (lineTvdFlux a.mirror (fun f => -(ul (a.n - f))) (fun f => -(uUpl (a.n - f))) FL e
          (fun i => φl (a.n + 1 - i))) (a.n + 1 - i))
      = -(cartDivD a (lineTvdFlux a ul uUpl FL e φl) i) := by
  congr 1
  exact cartDivD_mirror a _ _ i h1 hn (fun f hf => lineTvdFlux_mirror a hDX ul uUpl FL e φl f hf)

/-- cell level: mirrored stencil on the mirrored field at `i'` = stencil on the field at `i` -/
theorem mirror_diffusion_cell (a : Axis α) (Dl φl : ℕ → α) (i : ℕ) (h1 : 1 ≤ i) (hn : i ≤ a.n) :
    (cartDiffSt a.mirror (fun f => Dl (a.n - f)) (a.n + 1 - i)).lapp (fun j => φl (a.n + 1 - j))
        (a.n + 1 - i)
      = (cartDiffSt a Dl i).lapp φl i := by
  rw [mirror_diffusion a Dl i h1 hn]
  exact St3.flip_lapp_mirror _ φl a.n i h1 hn

theorem mirror_convection_cell (a : Axis α) (ul φl : ℕ → α) (i : ℕ) (h1 : 1 ≤ i) (hn : i ≤ a.n) :
    (cartConvSt a.mirror (fun f => -(ul (a.n - f))) (a.n + 1 - i)).lapp
        (fun j => φl (a.n + 1 - j)) (a.n + 1 - i)
      = (cartConvSt a ul i).lapp φl i := by
  rw [mirror_convection a ul i h1 hn]
  exact St3.flip_lapp_mirror _ φl a.n i h1 hn

theorem mirror_upwind_cell (a : Axis α) (ul uUpl φl : ℕ → α) (i : ℕ) (h1 : 1 ≤ i) (hn : i ≤ a.n) :
    (cartUpwindSt a.mirror (fun f => -(ul (a.n - f))) (fun f => -(uUpl (a.n - f)))
        (a.n + 1 - i)).lapp (fun j => φl (a.n + 1 - j)) (a.n + 1 - i)
      = (cartUpwindSt a ul uUpl i).lapp φl i := by
  rw [mirror_upwind a ul uUpl i h1 hn]
  exact St3.flip_lapp_mirror _ φl a.n i h1 hn

/-- the same on meshes: a Cartesian mesh `M'` whose axis `d` is the mirror image of that of `M`,
    with the coefficient reflected along `d` -/
theorem mirror_diffSt_mesh {M M' : Mesh α} (hk : M.kind.cartesian = true)
    (hk' : M'.kind.cartesian = true) (D D' : FaceFld α) (d : Dir) (c c' : Idx)
    (hax : M'.axis d = (M.axis d).mirror) (hi : c'.get d = M.n d + 1 - c.get d)
    (h1 : 1 ≤ c.get d) (hn : c.get d ≤ M.n d)
    (hD : ∀ f, D' d (c'.set d f) = D d (c.set d (M.n d - f))) :
    diffSt M' D' d c' = (diffSt M D d c).flip := by
  rw [diffSt_cart hk', diffSt_cart hk, hax, hi]
  have : lineOf (D' d) d c' = mirrorD (M.axis d).n (lineOf (D d) d c) := funext hD
  rw [this]
  exact cartDiffSt_mirror _ _ _ h1 hn

theorem mirror_convSt_mesh {M M' : Mesh α} (hk : M.kind.cartesian = true)
    (hk' : M'.kind.cartesian = true) (u u' : FaceFld α) (d : Dir) (c c' : Idx)
    (hax : M'.axis d = (M.axis d).mirror) (hi : c'.get d = M.n d + 1 - c.get d)
    (h1 : 1 ≤ c.get d) (hn : c.get d ≤ M.n d)
    (hu : ∀ f, u' d (c'.set d f) = -(u d (c.set d (M.n d - f)))) :
    convSt M' u' d c' = (convSt M u d c).flip := by
  rw [convSt_cart hk', convSt_cart hk, hax, hi]
  have : lineOf (u' d) d c' = mirrorF (M.axis d).n (lineOf (u d) d c) := funext hu
  rw [this]
  exact cartConvSt_mirror _ _ _ h1 hn

theorem mirror_upwindSt_mesh {M M' : Mesh α} (hk : M.kind.cartesian = true)
    (hk' : M'.kind.cartesian = true) (u u' uUp uUp' : FaceFld α) (d : Dir) (c c' : Idx)
    (hax : M'.axis d = (M.axis d).mirror) (hi : c'.get d = M.n d + 1 - c.get d)
    (h1 : 1 ≤ c.get d) (hn : c.get d ≤ M.n d)
    (hu : ∀ f, u' d (c'.set d f) = -(u d (c.set d (M.n d - f))))
    (hup : ∀ f, uUp' d (c'.set d f) = -(uUp d (c.set d (M.n d - f)))) :
    upwindSt M' u' uUp' d c' = (upwindSt M u uUp d c).flip := by
  rw [upwindSt_cart hk', upwindSt_cart hk, hax, hi]
  have e1 : lineOf (u' d) d c' = mirrorF (M.axis d).n (lineOf (u d) d c) := funext hu
  have e2 : lineOf (uUp' d) d c' = mirrorF (M.axis d).n (lineOf (uUp d) d c) := funext hup
  rw [e1, e2]
  exact cartUpwindSt_mirror _ _ _ _ h1 hn

/-! ## 3. redundant axis -/

/-- diffusion along `d` of a field that takes the same value in the two neighbours (no
    hypothesis on mesh or coefficient) -/
theorem diffSt_line_const (M : Mesh α) (D : FaceFld α) (φ : CellFld α) (d : Dir) (c : Idx)
    (h0 : φ (c.prev d) = φ c) (h1 : φ (c.next d) = φ c) : (diffSt M D d c).app φ d c = 0 :=
  _root_.PyFV.diffSt_line_const M D φ d c h0 h1

theorem convSt_line_const (M : Mesh α) (u : FaceFld α) (φ : CellFld α) (d : Dir) (c : Idx)
    (h : LineOK M d c) (h0 : φ (c.prev d) = φ c) (h1 : φ (c.next d) = φ c) :
    (convSt M u d c).app φ d c = φ c * divD M u d c :=
  _root_.PyFV.convSt_line_const M u φ d c h h0 h1

theorem upwindSt_line_const (M : Mesh α) (u uUp : FaceFld α) (φ : CellFld α) (d : Dir) (c : Idx)
    (h : LineOK M d c) (hn : c.get d ≤ M.n d) (hU : UpOK u uUp)
    (h0 : φ (c.prev d) = φ c) (h1 : φ (c.next d) = φ c) :
    (upwindSt M u uUp d c).app φ d c = φ c * divD M u d c :=
  _root_.PyFV.upwindSt_line_const M u uUp φ d c h hn hU h0 h1

/-- `ψ⁺`, `ψ⁻` vanish on both faces of `c` when φ is constant along the whole line: the `d`-part
    of the TVD right-hand side is zero, for every limiter -/
theorem tvd_line_const (M : Mesh α) (u uUp : FaceFld α) (FL : α → α) (e : α) (φ : CellFld α)
    (d : Dir) (c : Idx) (hφ : ∀ j, φ (c.set d j) = φ c) :
    psiP M FL e φ d c = 0 ∧ psiM M FL e φ d c = 0 ∧
    psiP M FL e φ d (c.prev d) = 0 ∧ psiM M FL e φ d (c.prev d) = 0 ∧
    divD M (tvdFlux M u uUp FL e φ) d c = 0 := by
  have a := psiP_line_const M FL e φ d c hφ (c.get d)
  have b := psiM_line_const M FL e φ d c hφ (c.get d)
  rw [Idx.set_get] at a b
  exact ⟨a, b, psiP_line_const M FL e φ d c hφ _, psiM_line_const M FL e φ d c hφ _,
    _root_.PyFV.tvd_line_const M u uUp FL e φ d c hφ⟩

/-- velocity and area factor do not vary along `d` ⇒ no divergence contribution along `d` -/
theorem divD_zero_of_const (M : Mesh α) (u : FaceFld α) (d : Dir) (c : Idx)
    (hA : lineA M d (c.get d) = lineA M d (c.get d - 1)) (hu : u d c = u d (c.prev d)) :
    divD M u d c = 0 :=
  _root_.PyFV.divD_zero_of_const M u d c hA hu

/-- the whole `d`-part of every term vanishes on fields constant along `d` when the velocity has
    no divergence contribution along `d` -/
theorem redundant_dir_vanishes (M : Mesh α) (D u uUp : FaceFld α) (FL : α → α) (e : α)
    (φ : CellFld α) (d : Dir) (c : Idx) (h : LineOK M d c) (hn : c.get d ≤ M.n d)
    (hU : UpOK u uUp) (hφ : ∀ j, φ (c.set d j) = φ c) (hdiv : divD M u d c = 0) :
    (diffSt M D d c).app φ d c = 0 ∧ (convSt M u d c).app φ d c = 0 ∧
    (upwindSt M u uUp d c).app φ d c = 0 ∧ divD M (tvdFlux M u uUp FL e φ) d c = 0 := by
  have h0 : φ (c.prev d) = φ c := hφ _
  have h1 : φ (c.next d) = φ c := hφ _
  refine ⟨_root_.PyFV.diffSt_line_const M D φ d c h0 h1, ?_, ?_,
    _root_.PyFV.tvd_line_const M u uUp FL e φ d c hφ⟩
  · rw [_root_.PyFV.convSt_line_const M u φ d c h h0 h1, hdiv, mul_zero]
  · rw [_root_.PyFV.upwindSt_line_const M u uUp φ d c h hn hU h0 h1, hdiv, mul_zero]

/-- the four pairs of `mesh.py` are reductions -/
theorem grid3D_to_grid2D (M : Mesh α) (hk : M.kind = .cart3) :
    Reduction M M.dropZ id Idx.dropZ .z := reduction_dropZ M hk
theorem grid2D_to_grid1D (M : Mesh α) (hk : M.kind = .cart2) :
    Reduction M M.dropY id Idx.dropY .y := reduction_dropY_cart M hk
theorem polar2D_to_cyl1D (M : Mesh α) (hk : M.kind = .pol2) :
    Reduction M M.dropY id Idx.dropY .y := reduction_dropY_polar M hk
theorem cyl3D_to_cyl2D (M : Mesh α) (hk : M.kind = .cyl3) :
    Reduction M M.dropTheta dirTheta Idx.dropTheta .y := reduction_dropTheta M hk

/-- the reduced meshes of well-formed meshes are well-formed -/
theorem reduced_WF (M : Mesh α) (h : M.WF) :
    (M.kind = .cart3 → M.dropZ.WF) ∧ (M.kind = .cart2 → M.dropY.WF) ∧
    (M.kind = .pol2 → M.dropY.WF) ∧ (M.kind = .cyl3 → M.dropTheta.WF) :=
  ⟨fun _ => h.dropZ, h.dropY_cart, h.dropY_polar, h.dropTheta⟩

/-- remaining directions: the stencils of the big and the reduced mesh coincide -/
theorem embed_diffSt {M M' : Mesh α} {ι : Dir → Dir} {π : Idx → Idx} {dd : Dir}
    (R : Reduction M M' ι π dd) {D D' : FaceFld α} (hD : LiftF ι π M' D D')
    (e : Dir) (he : M'.kind.active e = true) (c : Idx) :
    diffSt M D (ι e) c = diffSt M' D' e (π c) := R.diffSt_eq hD e he c

theorem embed_convSt {M M' : Mesh α} {ι : Dir → Dir} {π : Idx → Idx} {dd : Dir}
    (R : Reduction M M' ι π dd) {u u' : FaceFld α} (hu : LiftF ι π M' u u')
    (e : Dir) (he : M'.kind.active e = true) (c : Idx) :
    convSt M u (ι e) c = convSt M' u' e (π c) := R.convSt_eq hu e he c

theorem embed_upwindSt {M M' : Mesh α} {ι : Dir → Dir} {π : Idx → Idx} {dd : Dir}
    (R : Reduction M M' ι π dd) {u u' uUp uUp' : FaceFld α} (hu : LiftF ι π M' u u')
    (hup : LiftF ι π M' uUp uUp') (e : Dir) (he : M'.kind.active e = true) (c : Idx) :
    upwindSt M u uUp (ι e) c = upwindSt M' u' uUp' e (π c) := R.upwindSt_eq hu hup e he c

theorem embed_divD {M M' : Mesh α} {ι : Dir → Dir} {π : Idx → Idx} {dd : Dir}
    (R : Reduction M M' ι π dd) {F F' : FaceFld α} (hF : LiftF ι π M' F F')
    (e : Dir) (he : M'.kind.active e = true) (c : Idx) :
    divD M F (ι e) c = divD M' F' e (π c) := R.divD_eq hF e he c

theorem embed_gradD {M M' : Mesh α} {ι : Dir → Dir} {π : Idx → Idx} {dd : Dir}
    (R : Reduction M M' ι π dd) (x₂ : CellFld α) (e : Dir) (he : M'.kind.active e = true)
    (c : Idx) :
    gradD M (fun c => x₂ (π c)) (ι e) c = gradD M' x₂ e (π c) := R.gradD_eq x₂ e he c

/-- spelled out: `Grid3D`, direction `x`, coefficient constant along `z` -/
theorem grid3D_x_stencil (M : Mesh α) (hk : M.kind = .cart3) (D D' : FaceFld α)
    (hD : ∀ c, D .x c = D' .x c.dropZ) (hD' : ∀ c, D .y c = D' .y c.dropZ) (c : Idx) :
    diffSt M D .x c = diffSt M.dropZ D' .x c.dropZ ∧ diffSt M D .y c = diffSt M.dropZ D' .y c.dropZ := by
  have hL : LiftF id Idx.dropZ M.dropZ D D' := by
    intro e he c
    cases e
    · exact hD c
    · exact hD' c
    · exact absurd (show Kind.cart2.active .z = true from he) (by decide)
  exact ⟨(reduction_dropZ M hk).diffSt_eq hL .x rfl c, (reduction_dropZ M hk).diffSt_eq hL .y rfl c⟩

/-- spelled out: `CylindricalGrid3D`; the `z` direction of the 3-D grid is the `y` direction of
    `CylindricalGrid2D` -/
theorem cyl3D_z_stencil (M : Mesh α) (hk : M.kind = .cyl3) (D D' : FaceFld α)
    (hD : ∀ c, D .x c = D' .x c.dropTheta) (hD' : ∀ c, D .z c = D' .y c.dropTheta) (c : Idx) :
    diffSt M D .x c = diffSt M.dropTheta D' .x c.dropTheta ∧
    diffSt M D .z c = diffSt M.dropTheta D' .y c.dropTheta := by
  have hL : LiftF dirTheta Idx.dropTheta M.dropTheta D D' := by
    intro e he c
    cases e
    · exact hD c
    · exact hD' c
    · exact absurd (show Kind.cyl2.active .z = true from he) (by decide)
  exact ⟨(reduction_dropTheta M hk).diffSt_eq hL .x rfl c,
    (reduction_dropTheta M hk).diffSt_eq hL .y rfl c⟩

/-- interior rows: the seven-point row of the big mesh applied to the lift `x₃ = x₂ ∘ π` equals the
    row of the reduced mesh applied to `x₂` (data constant along the dropped direction) -/
theorem lifted_solves_interior_diffusion {M M' : Mesh α} {ι : Dir → Dir} {π : Idx → Idx} {dd : Dir}
    (R : Reduction M M' ι π dd) {D D' : FaceFld α} (hD : LiftF ι π M' D D') (x₂ : CellFld α)
    (c : Idx) :
    (diffusionRow M D c).app (fun c => x₂ (π c)) c = (diffusionRow M' D' (π c)).app x₂ (π c) :=
  R.diffusionRow_lift hD x₂ c

theorem lifted_solves_interior_convection {M M' : Mesh α} {ι : Dir → Dir} {π : Idx → Idx}
    {dd : Dir} (R : Reduction M M' ι π dd) {u u' : FaceFld α} (hu : LiftF ι π M' u u')
    (x₂ : CellFld α) (c : Idx) (hL : LineOK M dd c) (hdiv : divD M u dd c = 0) :
    (convectionRow M u c).app (fun c => x₂ (π c)) c = (convectionRow M' u' (π c)).app x₂ (π c) :=
  R.convectionRow_lift hu x₂ c hL hdiv

theorem lifted_solves_interior_upwind {M M' : Mesh α} {ι : Dir → Dir} {π : Idx → Idx}
    {dd : Dir} (R : Reduction M M' ι π dd) {u u' uUp uUp' : FaceFld α} (hu : LiftF ι π M' u u')
    (hup : LiftF ι π M' uUp uUp') (x₂ : CellFld α) (c : Idx) (hL : LineOK M dd c)
    (hn : c.get dd ≤ M.n dd) (hU : UpOK u uUp) (hdiv : divD M u dd c = 0) :
    (upwindRow M u uUp c).app (fun c => x₂ (π c)) c
      = (upwindRow M' u' uUp' (π c)).app x₂ (π c) :=
  R.upwindRow_lift hu hup x₂ c hL hn hU hdiv

/-- the TVD right-hand side of the lift is the TVD right-hand side of the reduced problem
    (no hypothesis on the velocity along the dropped direction: the correction vanishes there) -/
theorem lifted_tvdRHS {M M' : Mesh α} {ι : Dir → Dir} {π : Idx → Idx}
    {dd : Dir} (R : Reduction M M' ι π dd) {u u' uUp uUp' : FaceFld α} (hu : LiftF ι π M' u u')
    (hup : LiftF ι π M' uUp uUp') (FL : α → α) (eps : α) (x₂ : CellFld α) (c : Idx) :
    tvdRHS M u uUp FL eps (fun c => x₂ (π c)) c = tvdRHS M' u' uUp' FL eps x₂ (π c) :=
  R.tvdRHS_lift hu hup FL eps x₂ c

/-- sources and transient terms are diagonal: lifted data give the reduced entries (by `rfl`) -/
theorem lifted_source (β' : CellFld α) (π : Idx → Idx) (x₂ : CellFld α) (c : Idx) :
    (linearSrcRow (fun c => β' (π c)) c).app (fun c => x₂ (π c)) c
      = (linearSrcRow β' (π c)).app x₂ (π c) := by
  simp [linearSrcRow, St7.diag, St7.app]

/-- ghost rows along the dropped direction, no-flux (`a = 1`-type Neumann: `b = 0`, `c = 0`) -/
theorem lift_satisfies_noflux (M : Mesh α) (bc : BCs α) (dd : Dir) (c : Idx) (x : CellFld α)
    (hper : bc.periodicDir dd = false) (hx : ∀ j, x (c.set dd j) = x c) :
    ((bc.hi dd).b c = 0 → (bc.hi dd).c c = 0 →
      (bcRowHi M bc dd c).app x = (bcRowHi M bc dd c).rhs) ∧
    ((bc.lo dd).b c = 0 → (bc.lo dd).c c = 0 →
      (bcRowLo M bc dd c).app x = (bcRowLo M bc dd c).rhs) := by
  constructor
  · intro hb hc
    simp [bcRowHi, hper, Row.app, hiGhostCoef, hiCellCoef, hb, hc, hx]
  · intro hb hc
    simp [bcRowLo, hper, Row.app, loGhostCoef, loCellCoef, hb, hc, hx]

/-- ghost rows along the dropped direction, periodic wrap -/
theorem lift_satisfies_periodic (M : Mesh α) (bc : BCs α) (dd : Dir) (c : Idx) (x : CellFld α)
    (hper : bc.periodicDir dd = true) (hx : ∀ j, x (c.set dd j) = x c) :
    (bcRowHi M bc dd c).app x = (bcRowHi M bc dd c).rhs ∧
    (bcRowLo M bc dd c).app x = (bcRowLo M bc dd c).rhs := by
  constructor
  · simp [bcRowHi, hper, Row.app, hx]
  · simp [bcRowLo, hper, Row.app, hx]

/-- the ghost values the code computes for the lift along the dropped direction are the
    cell value itself: `ghostHi`/`ghostLo` with no-flux data, and the periodic wrap -/
theorem lift_ghost_values (M : Mesh α) (bc : BCs α) (dd : Dir) (c : Idx) (x : CellFld α)
    (hx : ∀ j, x (c.set dd j) = x c) :
    (bc.periodicDir dd = true → ghostHi M bc x dd c = some (x c) ∧ ghostLo M bc x dd c = some (x c)) ∧
    (bc.periodicDir dd = false → (bc.hi dd).b c = 0 → (bc.hi dd).c c = 0 →
      hiGhostCoef M bc dd c ≠ 0 → ghostHi M bc x dd c = some (x c)) ∧
    (bc.periodicDir dd = false → (bc.lo dd).b c = 0 → (bc.lo dd).c c = 0 →
      loGhostCoef M bc dd c ≠ 0 → ghostLo M bc x dd c = some (x c)) := by
  refine ⟨?_, ?_, ?_⟩
  · intro hper
    simp [ghostHi, ghostLo, hper, hx]
  rotate_left
  · intro hper hb hc hg
    have hg' := hg
    simp only [loGhostCoef, hb, zero_div, add_zero] at hg'
    simp only [ghostLo, hper, sdiv, loGhostCoef, loCellCoef, hb, hc, zero_div, add_zero, zero_sub,
      eq_false hg', if_false, Bool.false_eq_true]
    congr 1
    obtain ⟨ha, hmd⟩ := div_ne_zero_iff.mp (neg_ne_zero.mp hg')
    obtain ⟨hm, hd⟩ := mul_ne_zero_iff.mp hmd
    field_simp
  · intro hper hb hc hg
    have hg' := hg
    simp only [hiGhostCoef, hb, zero_div, add_zero] at hg'
    simp only [ghostHi, hper, sdiv, hiGhostCoef, hiCellCoef, hb, hc, zero_div, add_zero, zero_sub,
      eq_false hg', if_false, Bool.false_eq_true]
    congr 1
    obtain ⟨ha, hmd⟩ := div_ne_zero_iff.mp hg'
    obtain ⟨hm, hd⟩ := mul_ne_zero_iff.mp hmd
    field_simp

/-! ## 4. translation along a uniform Cartesian axis -/

/-- diffusion: coefficients at `i` from shifted data = coefficients at `i + s` from the data -/
theorem shift_invariance (a : Axis α) (hunif : ∀ i j, a.DX i = a.DX j) (Dl : ℕ → α) (s i : ℕ)
    (h1 : 1 ≤ i) :
    cartDiffSt a (fun f => Dl (f + s)) i = cartDiffSt a Dl (i + s) := by
  apply cartDiffSt_translate a hunif
  · rfl
  · show Dl (i - 1 + s) = Dl (i + s - 1)
    congr 1; omega

theorem shift_invariance_conv (a : Axis α) (hunif : ∀ i j, a.DX i = a.DX j) (ul : ℕ → α) (s i : ℕ)
    (h1 : 1 ≤ i) :
    cartConvSt a (fun f => ul (f + s)) i = cartConvSt a ul (i + s) := by
  apply cartConvSt_translate a hunif
  · rfl
  · show ul (i - 1 + s) = ul (i + s - 1)
    congr 1; omega

/-- upwind: only for cells away from the boundary corrections, `1 < i`, `i + s < n`
    (the cells `1` and `n` carry the half-weight corrections, which do not translate) -/
theorem shift_invariance_upwind (a : Axis α) (hunif : ∀ i j, a.DX i = a.DX j) (ul uUpl : ℕ → α)
    (s i : ℕ) (h1 : 1 < i) (hn : i + s < a.n) :
    cartUpwindSt a (fun f => ul (f + s)) (fun f => uUpl (f + s)) i
      = cartUpwindSt a ul uUpl (i + s) := by
  have e : i - 1 + s = i + s - 1 := by omega
  apply cartUpwindSt_translate a hunif <;> first | omega | rfl | skip
  · show ul (i - 1 + s) = _; rw [e]
  · show uUpl (i - 1 + s) = _; rw [e]

/-- periodic wrap for diffusion and central convection: with `n`-periodic data the stencil of
    cell `1` computed with the wrapped west face equals the stencil one period further -/
theorem shift_invariance_wrap (a : Axis α) (hunif : ∀ i j, a.DX i = a.DX j) (Dl : ℕ → α) (i : ℕ)
    (h1 : 1 ≤ i) (hper : ∀ f, Dl (f + a.n) = Dl f) :
    cartDiffSt a Dl (i + a.n) = cartDiffSt a Dl i := by
  apply cartDiffSt_translate a hunif
  · exact hper i
  · have e : i + a.n - 1 = i - 1 + a.n := by omega
    rw [e]; exact hper (i - 1)

/-! ## 5. non-vacuity -/

/-- a concrete `Grid3D` reduces to a well-formed `Grid2D` -/
example : Reduction (Examples.mesh .cart3) (Examples.mesh .cart3).dropZ id Idx.dropZ .z ∧
    (Examples.mesh .cart3).dropZ.WF :=
  ⟨reduction_dropZ _ rfl, (Examples.mesh_WF .cart3).dropZ⟩

example : Reduction (Examples.mesh .cyl3) (Examples.mesh .cyl3).dropTheta dirTheta Idx.dropTheta .y ∧
    (Examples.mesh .cyl3).dropTheta.WF :=
  ⟨reduction_dropTheta _ rfl, (Examples.mesh_WF .cyl3).dropTheta rfl⟩

example : Reduction (Examples.mesh .pol2) (Examples.mesh .pol2).dropY id Idx.dropY .y ∧
    (Examples.mesh .pol2).dropY.WF :=
  ⟨reduction_dropY_polar _ rfl, (Examples.mesh_WF .pol2).dropY_polar rfl⟩

example : Reduction (Examples.mesh .cart2) (Examples.mesh .cart2).dropY id Idx.dropY .y ∧
    (Examples.mesh .cart2).dropY.WF :=
  ⟨reduction_dropY_cart _ rfl, (Examples.mesh_WF .cart2).dropY_cart rfl⟩

/-- lifted velocity with zero `z`-component on the concrete `Grid3D`: every hypothesis of
    `lifted_solves_interior_upwind` holds -/
example (u' : FaceFld ℚ) (x₂ : CellFld ℚ) :
    let M := Examples.mesh .cart3
    let u : FaceFld ℚ := fun d c => if d = .z then 0 else u' d c.dropZ
    (upwindRow M u u (1,1,1)).app (fun c => x₂ c.dropZ) (1,1,1)
      = (upwindRow M.dropZ u' u' (1,1,1)).app x₂ (1,1,1) := by
  intro M u
  have hL : LiftF id Idx.dropZ M.dropZ u u' := by
    intro e he c
    cases e
    · rfl
    · rfl
    · exact absurd (show Kind.cart2.active .z = true from he) (by decide)
  exact lifted_solves_interior_upwind (reduction_dropZ M rfl) hL hL x₂ (1,1,1)
    (lineOK_of_WF (Examples.mesh_WF .cart3) rfl (Examples.interior_111 .cart3))
    (Mesh.interior_get (Examples.interior_111 .cart3) .z).2 (upOK_self u)
    (by simp [divD, u])

/-- mirror: the hypotheses `1 ≤ i ≤ n`, positive sizes are met by the non-uniform example axis -/
example : (1 : ℕ) ≤ 2 ∧ 2 ≤ Examples.ax3.n ∧ (∀ i, 0 < Examples.ax3.DX i) ∧ Examples.ax3.mirror.WF :=
  ⟨by norm_num, by norm_num [Examples.ax3, mkAxisFaces], Examples.ax3_WF.pos, Examples.ax3_WF.mirror⟩

/-- a permutation with its inverse: the cyclic relabelling `x → y → z → x` -/
example : ∃ σ τ : Dir → Dir, (∀ d, σ (τ d) = d) ∧ (∀ d, τ (σ d) = d) ∧
    ∀ d, (Examples.mesh .cart3).kind.active (σ d) = (Examples.mesh .cart3).kind.active d :=
  ⟨fun | .x => .y | .y => .z | .z => .x, fun | .x => .z | .y => .x | .z => .y,
    by intro d; cases d <;> rfl, by intro d; cases d <;> rfl, by intro d; cases d <;> rfl⟩

/-- uniform axis for the translation statements -/
example : ∀ i j, (mkAxisNL 5 (1 : ℚ)).DX i = (mkAxisNL 5 (1 : ℚ)).DX j := fun _ _ => rfl

end PyFV.C08
