/-
  Property C12 — time stepping.

  `transientTerm(old, dt, alpha)` is the pair (diagonal `alpha/dt`, vector `alpha·old/dt`), so a
  step of `solvePDE` with it satisfies, in every interior cell,
      alpha·(new − old)/dt + (spatial rows)·new = sources          (backward Euler),
  for scalar or per-cell `alpha`.  Consequences: a steady solution is a fixed point of the step
  for every `dt` and `alpha`; the steady residual of the new field is `(alpha/dt)·(old − new)`
  (small for large `dt`), the change is `(dt/alpha)·(s − L new)` (small for small `dt`).
  `solveExplicitPDE` returns `old + dt·RHS` in the interior with the ghost values re-imposed;
  its difference to the implicit step is `(dt/alpha)²·L(s − L x_impl)`.
-/
import PyFV.Lemmas.Assemble
import PyFV.Props.C04
import Mathlib.Tactic.LinearCombination

set_option linter.unusedSectionVars false

namespace PyFV.C12
open PyFV

variable {α : Type} [Field α] [LinearOrder α] [IsStrictOrderedRing α]

/-! ### 1. the backward-Euler row law -/

/-- row of `transient :: spatial` ⇔ `alpha (x − old)/dt + L x = s` (any cell, any `dt`) -/
theorem transient_row_law (old : CellFld α) (dt : α) (alpha : CellFld α)
    (spatial : List (TermObj α)) (x : CellFld α) (c : Idx) :
    (sumRow (transientObj old dt alpha :: spatial) c).app x c
        = sumRhs (transientObj old dt alpha :: spatial) c
      ↔ alpha c * (x c - old c) / dt + (sumRow spatial c).app x c = sumRhs spatial c := by
  rw [sumRow_cons_app, sumRhs_cons]
  simp only [transientObj, TermObj.row, TermObj.rhs, transientRow, transientRHS, St7.diag_app]
  constructor <;> intro h <;> linear_combination h

/-- the stored result of a `solvePDE` step with a transient term satisfies the backward-Euler
    relation in every interior cell, and the boundary rows of the variable elsewhere -/
theorem transient_step_law (M : Mesh α) (bc : BCs α) (old : CellFld α) (dt : α) (alpha : CellFld α)
    (spatial : List (TermObj α)) (x : CellFld α)
    (hx : Solves M bc (transientObj old dt alpha :: spatial) x) (c : Idx) (hc : M.inBox c) :
    (M.outCount c = 0 →
      alpha c * (x c - old c) / dt + (sumRow spatial c).app x c = sumRhs spatial c)
    ∧ (M.outCount c ≠ 0 → (bcRow M bc c).app x = (bcRow M bc c).rhs) := by
  have h := hx c hc
  constructor
  · intro h0
    rw [assembleOp_interior M bc _ x c h0, assembleRhs_interior M bc _ c h0] at h
    exact (transient_row_law old dt alpha spatial x c).1 h
  · intro h0
    exact (C04.bc_rows_are_robin M bc _ x c h0).1 h

/-! ### 5. per-cell and scalar alpha -/

/-- `alpha` a cell field: the row law holds with the local value of `alpha` -/
theorem transient_alpha_field (old : CellFld α) (dt : α) (alpha : CellFld α)
    (spatial : List (TermObj α)) (x : CellFld α) (c : Idx) :
    (sumRow (transientObj old dt alpha :: spatial) c).app x c
        = sumRhs (transientObj old dt alpha :: spatial) c
      ↔ alpha c * (x c - old c) / dt + (sumRow spatial c).app x c = sumRhs spatial c :=
  transient_row_law old dt alpha spatial x c

/-- `alpha` a scalar (the code broadcasts it to a cell variable): diagonal `a/dt`,
    right-hand side `a·old/dt`, row law with the constant `a` -/
theorem transient_alpha_scalar (old : CellFld α) (dt a : α)
    (spatial : List (TermObj α)) (x : CellFld α) (c : Idx) :
    transientRow dt (fun _ => a) c = St7.diag (a / dt)
    ∧ transientRHS old dt (fun _ => a) c = a * old c / dt
    ∧ ((sumRow (transientObj old dt (fun _ => a) :: spatial) c).app x c
          = sumRhs (transientObj old dt (fun _ => a) :: spatial) c
        ↔ a * (x c - old c) / dt + (sumRow spatial c).app x c = sumRhs spatial c) :=
  ⟨rfl, rfl, transient_row_law old dt (fun _ => a) spatial x c⟩

/-- default `alpha = 1`: `(x − old)/dt + L x = s` -/
theorem transient_alpha_one (old : CellFld α) (dt : α)
    (spatial : List (TermObj α)) (x : CellFld α) (c : Idx) :
    (sumRow (transientObj old dt (fun _ => 1) :: spatial) c).app x c
        = sumRhs (transientObj old dt (fun _ => 1) :: spatial) c
      ↔ (x c - old c) / dt + (sumRow spatial c).app x c = sumRhs spatial c := by
  rw [transient_row_law, one_mul]

/-! ### 2. steady solutions are fixed points of the step -/

/-- a steady row with `old = x` satisfies the transient row for every `dt` and `alpha` -/
theorem steady_is_fixed_point (old : CellFld α) (dt : α) (alpha : CellFld α)
    (spatial : List (TermObj α)) (x : CellFld α) (c : Idx)
    (hs : (sumRow spatial c).app x c = sumRhs spatial c) (ho : old c = x c) :
    (sumRow (transientObj old dt alpha :: spatial) c).app x c
      = sumRhs (transientObj old dt alpha :: spatial) c := by
  rw [transient_row_law, ho, hs]; simp

/-- a steady solution of the whole system solves the transient system started from itself -/
theorem steady_solves_transient (M : Mesh α) (bc : BCs α) (dt : α) (alpha : CellFld α)
    (spatial : List (TermObj α)) (xs : CellFld α) (hs : Solves M bc spatial xs) :
    Solves M bc (transientObj xs dt alpha :: spatial) xs := by
  intro c hc
  have h := hs c hc
  by_cases h0 : M.outCount c = 0
  · rw [assembleOp_interior M bc _ xs c h0, assembleRhs_interior M bc _ c h0] at h ⊢
    exact steady_is_fixed_point xs dt alpha spatial xs c h rfl
  · rw [assembleOp_ghost M bc _ xs c h0, assembleRhs_ghost M bc _ c h0] at h ⊢
    exact h

/-- **reproduced unchanged**: if the transient system started from a steady solution is uniquely
    solvable, the step returns the steady solution on the whole ghosted box -/
theorem steady_reproduced (M : Mesh α) (bc : BCs α) (dt : α) (alpha : CellFld α)
    (spatial : List (TermObj α)) (xs xnew : CellFld α) (hs : Solves M bc spatial xs)
    (hU : UniqueSol M bc (transientObj xs dt alpha :: spatial))
    (hnew : Solves M bc (transientObj xs dt alpha :: spatial) xnew) :
    ∀ c, M.inBox c → xnew c = xs c :=
  C04.solves_unique M bc _ hU xnew xs hnew (steady_solves_transient M bc dt alpha spatial xs hs)

/-- conversely a fixed point of the step (`new = old` in a cell, `dt ≠ 0` not even needed) is
    steady in that cell -/
theorem fixed_point_is_steady (old : CellFld α) (dt : α) (alpha : CellFld α)
    (spatial : List (TermObj α)) (x : CellFld α) (c : Idx) (ho : old c = x c)
    (h : (sumRow (transientObj old dt alpha :: spatial) c).app x c
      = sumRhs (transientObj old dt alpha :: spatial) c) :
    (sumRow spatial c).app x c = sumRhs spatial c := by
  rw [transient_row_law, ho] at h
  simpa using h

/-! ### 3. the two limits, as exact identities with explicit constants -/

/-- steady residual of the new field = `(alpha/dt)·(old − new)` -/
theorem residual_identity (old : CellFld α) (dt : α) (alpha : CellFld α)
    (spatial : List (TermObj α)) (x : CellFld α) (c : Idx)
    (h : (sumRow (transientObj old dt alpha :: spatial) c).app x c
      = sumRhs (transientObj old dt alpha :: spatial) c) :
    (sumRow spatial c).app x c - sumRhs spatial c = alpha c / dt * (old c - x c) := by
  rw [transient_row_law] at h
  linear_combination h

/-- `dt → ∞`: `|L x − s| = (alpha/dt)·|old − x|` — the steady residual of the new field is
    `O(1/dt)` times the change -/
theorem residual_abs_eq (old : CellFld α) (dt : α) (alpha : CellFld α)
    (spatial : List (TermObj α)) (x : CellFld α) (c : Idx) (hdt : 0 < dt) (ha : 0 ≤ alpha c)
    (h : (sumRow (transientObj old dt alpha :: spatial) c).app x c
      = sumRhs (transientObj old dt alpha :: spatial) c) :
    |(sumRow spatial c).app x c - sumRhs spatial c| = alpha c / dt * |old c - x c| := by
  rw [residual_identity old dt alpha spatial x c h, abs_mul, abs_of_nonneg (div_nonneg ha hdt.le)]

theorem residual_bound (old : CellFld α) (dt : α) (alpha : CellFld α)
    (spatial : List (TermObj α)) (x : CellFld α) (c : Idx) (hdt : 0 < dt) (ha : 0 ≤ alpha c)
    (h : (sumRow (transientObj old dt alpha :: spatial) c).app x c
      = sumRhs (transientObj old dt alpha :: spatial) c) :
    |(sumRow spatial c).app x c - sumRhs spatial c| ≤ alpha c / dt * |old c - x c| :=
  le_of_eq (residual_abs_eq old dt alpha spatial x c hdt ha h)

/-- if moreover the change is bounded by `B`, the residual is at most `alpha·B/dt` -/
theorem residual_bound_of_change (old : CellFld α) (dt : α) (alpha : CellFld α)
    (spatial : List (TermObj α)) (x : CellFld α) (c : Idx) (hdt : 0 < dt) (ha : 0 ≤ alpha c)
    (B : α) (hB : |old c - x c| ≤ B)
    (h : (sumRow (transientObj old dt alpha :: spatial) c).app x c
      = sumRhs (transientObj old dt alpha :: spatial) c) :
    |(sumRow spatial c).app x c - sumRhs spatial c| ≤ alpha c * B / dt := by
  rw [residual_abs_eq old dt alpha spatial x c hdt ha h, div_mul_eq_mul_div]
  exact div_le_div_of_nonneg_right (mul_le_mul_of_nonneg_left hB ha) hdt.le

/-- `dt → 0`: `alpha·|x − old| = dt·|s − L x|` — the change is `O(dt)` -/
theorem change_abs_eq (old : CellFld α) (dt : α) (alpha : CellFld α)
    (spatial : List (TermObj α)) (x : CellFld α) (c : Idx) (hdt : 0 < dt) (ha : 0 ≤ alpha c)
    (h : (sumRow (transientObj old dt alpha :: spatial) c).app x c
      = sumRhs (transientObj old dt alpha :: spatial) c) :
    alpha c * |x c - old c| = dt * |sumRhs spatial c - (sumRow spatial c).app x c| := by
  have e : alpha c * (x c - old c) = dt * (sumRhs spatial c - (sumRow spatial c).app x c) := by
    have := residual_identity old dt alpha spatial x c h
    have hd : dt ≠ 0 := ne_of_gt hdt
    field_simp at this
    linear_combination this
  have := congrArg abs e
  rwa [abs_mul, abs_mul, abs_of_nonneg ha, abs_of_pos hdt] at this

/-- signed version, any `dt ≠ 0`, any sign of `alpha` -/
theorem change_identity (old : CellFld α) (dt : α) (alpha : CellFld α)
    (spatial : List (TermObj α)) (x : CellFld α) (c : Idx) (hdt : dt ≠ 0)
    (h : (sumRow (transientObj old dt alpha :: spatial) c).app x c
      = sumRhs (transientObj old dt alpha :: spatial) c) :
    alpha c * (x c - old c) = dt * (sumRhs spatial c - (sumRow spatial c).app x c) := by
  have := residual_identity old dt alpha spatial x c h
  field_simp at this
  linear_combination this

/-- if the residual of the new field is bounded by `R`, the change is at most `dt·R/alpha` -/
theorem change_bound (old : CellFld α) (dt : α) (alpha : CellFld α)
    (spatial : List (TermObj α)) (x : CellFld α) (c : Idx) (hdt : 0 < dt) (ha : 0 < alpha c)
    (R : α) (hR : |sumRhs spatial c - (sumRow spatial c).app x c| ≤ R)
    (h : (sumRow (transientObj old dt alpha :: spatial) c).app x c
      = sumRhs (transientObj old dt alpha :: spatial) c) :
    |x c - old c| ≤ dt * R / alpha c := by
  have e := change_abs_eq old dt alpha spatial x c hdt ha.le h
  rw [le_div_iff₀ ha, mul_comm, e]
  exact mul_le_mul_of_nonneg_left hR hdt.le

/-! ### 4. the explicit step -/

/-- interior cells: `old + dt·RHS` -/
theorem explicit_step (M : Mesh α) (bc : BCs α) (old : CellFld α) (dt : α) (RHS : CellFld α)
    (c : Idx) (h0 : M.outCount c = 0) :
    explicitPDE M bc old dt RHS c = some (old c + dt * RHS c) := by
  simp only [explicitPDE, withGhosts, h0, explicitStep]

/-- face-ghost cells: the value is re-imposed from the boundary conditions and the updated
    interior values (whatever `old + dt·RHS` was there) -/
theorem explicit_step_ghost (M : Mesh α) (bc : BCs α) (old : CellFld α) (dt : α) (RHS : CellFld α)
    (c : Idx) (h1 : M.outCount c = 1) :
    explicitPDE M bc old dt RHS c
      = (if c.get (M.outDir c) = 0
          then ghostLo M bc (explicitStep old dt RHS) (M.outDir c) (c.set (M.outDir c) 1)
          else ghostHi M bc (explicitStep old dt RHS) (M.outDir c)
                (c.set (M.outDir c) (M.n (M.outDir c)))) := by
  simp only [explicitPDE, withGhosts, h1]

/-- the ghost entries of `RHS` and of the old array are irrelevant: two inputs that agree on
    interior cells give the same returned array on all interior and face-ghost cells
    (Robin or periodic boundaries; every axis has at least one cell) -/
theorem explicit_step_ghost_irrelevant (M : Mesh α) (bc : BCs α) (old old' : CellFld α) (dt : α)
    (RHS RHS' : CellFld α) (hn : ∀ d, 1 ≤ M.n d)
    (hint : ∀ c, M.outCount c = 0 → old c = old' c ∧ RHS c = RHS' c)
    (c : Idx) (hc : M.outCount c ≤ 1) :
    explicitPDE M bc old dt RHS c = explicitPDE M bc old' dt RHS' c := by
  have hE : ∀ c, M.outCount c = 0 → explicitStep old dt RHS c = explicitStep old' dt RHS' c := by
    intro c h; simp only [explicitStep, (hint c h).1, (hint c h).2]
  rcases Nat.le_one_iff_eq_zero_or_eq_one.mp hc with h0 | h1
  · rw [explicit_step M bc old dt RHS c h0, explicit_step M bc old' dt RHS' c h0,
      (hint c h0).1, (hint c h0).2]
  · rw [explicit_step_ghost M bc old dt RHS c h1, explicit_step_ghost M bc old' dt RHS' c h1]
    have a1 := M.outCount_set_outDir c h1 1 (le_refl _) (hn _)
    have a2 := M.outCount_set_outDir c h1 (M.n (M.outDir c)) (hn _) (le_refl _)
    simp only [ghostLo, ghostHi, Idx.set_set, hE _ a1, hE _ a2]

/-- explicit vs implicit step for a linear spatial operator `L`, source `s`, constant `alpha = a`:
    with `x_expl = old + (dt/a)(s − L old)` and `a (x_impl − old)/dt + L x_impl = s`,
      `a (x_expl − x_impl)/dt = L (x_impl − old)`,
      `L (x_impl − old) = (dt/a)·L (s − L x_impl)`,
    hence `x_expl − x_impl = (dt/a)²·L (s − L x_impl)`. -/
theorem explicit_vs_implicit_gap (L : CellFld α → CellFld α)
    (hadd : ∀ u v c, L (fun i => u i + v i) c = L u c + L v c)
    (hsmul : ∀ (k : α) u c, L (fun i => k * u i) c = k * L u c)
    (s old xi : CellFld α) (a dt : α) (ha : a ≠ 0) (hdt : dt ≠ 0)
    (himpl : ∀ c, a * (xi c - old c) / dt + L xi c = s c) :
    let xe : CellFld α := explicitStep old dt (fun c => (s c - L old c) / a)
    (∀ c, a * (xe c - xi c) / dt = L (fun i => xi i - old i) c)
    ∧ (∀ c, L (fun i => xi i - old i) c = dt / a * L (fun i => s i - L xi i) c)
    ∧ (∀ c, xe c - xi c = dt ^ 2 / a ^ 2 * L (fun i => s i - L xi i) c) := by
  intro xe
  have hsub : ∀ u v c, L (fun i => u i - v i) c = L u c - L v c := by
    intro u v c
    have e : (fun i => u i - v i) = (fun i => u i + (fun j => (-1) * v j) i) := by
      funext i; ring
    rw [e, hadd, hsmul]; ring
  have h1 : ∀ c, a * (xe c - xi c) / dt = L (fun i => xi i - old i) c := by
    intro c
    rw [hsub]
    have := himpl c
    simp only [xe, explicitStep]
    field_simp
    field_simp at this
    linear_combination -this
  have h2 : ∀ c, L (fun i => xi i - old i) c = dt / a * L (fun i => s i - L xi i) c := by
    intro c
    have e : (fun i => xi i - old i) = (fun i => dt / a * (fun j => s j - L xi j) i) := by
      funext i
      have := himpl i
      field_simp
      field_simp at this
      linear_combination this
    rw [e, hsmul]
  refine ⟨h1, h2, fun c => ?_⟩
  have e1 := h1 c
  rw [h2 c] at e1
  field_simp at e1
  field_simp
  linear_combination e1

/-- with a bound `K` on `|L (s − L x_impl)|` the two steps differ by at most `(dt/a)²·K` -/
theorem explicit_vs_implicit_bound (L : CellFld α → CellFld α)
    (hadd : ∀ u v c, L (fun i => u i + v i) c = L u c + L v c)
    (hsmul : ∀ (k : α) u c, L (fun i => k * u i) c = k * L u c)
    (s old xi : CellFld α) (a dt : α) (ha : a ≠ 0) (hdt : dt ≠ 0)
    (himpl : ∀ c, a * (xi c - old c) / dt + L xi c = s c)
    (K : α) (c : Idx) (hK : |L (fun i => s i - L xi i) c| ≤ K) :
    |explicitStep old dt (fun c => (s c - L old c) / a) c - xi c| ≤ dt ^ 2 / a ^ 2 * K := by
  rw [(explicit_vs_implicit_gap L hadd hsmul s old xi a dt ha hdt himpl).2.2 c, abs_mul,
    abs_of_nonneg (by positivity : (0:α) ≤ dt ^ 2 / a ^ 2)]
  exact mul_le_mul_of_nonneg_left hK (by positivity)

/-- the spatial operator of a term list, `x ↦ (sumRow spatial ·).app x ·`, is such an `L` -/
theorem sumRow_is_linear (spatial : List (TermObj α)) :
    (∀ u v c, (sumRow spatial c).app (fun i => u i + v i) c
        = (sumRow spatial c).app u c + (sumRow spatial c).app v c)
    ∧ (∀ (k : α) u c, (sumRow spatial c).app (fun i => k * u i) c
        = k * (sumRow spatial c).app u c) :=
  ⟨fun u v c => St7.app_add _ u v c, fun k u c => St7.app_smul _ k u c⟩

/-! ### 6. non-vacuity -/

/-- one backward-Euler step on the 3-cell Dirichlet example: `old = 0`, `dt = 1`, `alpha = 1`,
    spatial terms `[linearSourceTerm(1), constantSourceTerm(4)]`: `(x − 0)/1 + x = 4`, `x = 2` -/
theorem ex_transient_solves :
    Solves (Examples.mesh .cart1) (AsmEx.bc 1 3)
      (transientObj (fun _ => 0) 1 (fun _ => 1)
        :: [.mat (linearSrcRow (fun _ => 1)), .vec (constSrcRHS (fun _ => 4))]) AsmEx.sol := by
  intro c hc
  rcases C04.ex_inBox c hc with rfl | rfl | rfl | rfl | rfl <;> decide +kernel

example :
    (1:ℚ) * (AsmEx.sol (2,1,1) - 0) / 1
      + (sumRow [.mat (linearSrcRow (fun _ => (1:ℚ))), .vec (constSrcRHS (fun _ => 4))] (2,1,1)).app
          AsmEx.sol (2,1,1)
      = sumRhs [.mat (linearSrcRow (fun _ => (1:ℚ))), .vec (constSrcRHS (fun _ => 4))] (2,1,1) :=
  (transient_step_law _ _ _ _ _ _ _ ex_transient_solves (2,1,1)
    (by unfold Mesh.inBox; decide +kernel)).1 (by decide +kernel)

/-- the two limit identities on the example cell: residual `1·x − 4 = −2 = (1/1)(0 − 2)`,
    change `1·|2 − 0| = 1·|4 − 2|` -/
example :
    |(sumRow [.mat (linearSrcRow (fun _ => (1:ℚ))), .vec (constSrcRHS (fun _ => 4))] (2,1,1)).app
          AsmEx.sol (2,1,1)
        - sumRhs [.mat (linearSrcRow (fun _ => (1:ℚ))), .vec (constSrcRHS (fun _ => 4))] (2,1,1)|
      = (1:ℚ) / 1 * |(0:ℚ) - AsmEx.sol (2,1,1)| :=
  residual_abs_eq (fun _ => 0) 1 (fun _ => 1) _ AsmEx.sol (2,1,1) (by norm_num) (by norm_num)
    (by
      have h := ex_transient_solves (2,1,1) (by unfold Mesh.inBox; decide +kernel)
      rwa [assembleOp_interior _ _ _ _ _ (by decide +kernel),
        assembleRhs_interior _ _ _ _ (by decide +kernel)] at h)

/-- the transient system of the example is uniquely solvable -/
theorem ex_transient_unique :
    UniqueSol (Examples.mesh .cart1) (AsmEx.bc 1 3)
      (transientObj AsmEx.sol (1/7) (fun _ => 5) :: AsmEx.terms) := by
  intro y hy
  have e0 := hy (0,1,1) (by unfold Mesh.inBox; decide +kernel)
  have e1 := hy (1,1,1) (by unfold Mesh.inBox; decide +kernel)
  have e2 := hy (2,1,1) (by unfold Mesh.inBox; decide +kernel)
  have e3 := hy (3,1,1) (by unfold Mesh.inBox; decide +kernel)
  have e4 := hy (4,1,1) (by unfold Mesh.inBox; decide +kernel)
  simp [assembleOp, Mesh.outCount, Mesh.outDir, Examples.mesh, Examples.ax3, mkAxisFaces,
    Kind.active, Kind.dim, AsmEx.terms, AsmEx.bc, sumRow, TermObj.row, linearSrcRow, St7.add,
    St7.zero, St7.diag, St7.app, bcRow, bcRowLo, bcRowHi, BCs.periodicDir, loCellCoef,
    loGhostCoef, hiCellCoef, hiGhostCoef, Row.app, Idx.get, Idx.set, Mesh.n, Mesh.axis, lineM,
    transientObj, transientRow]
    at e0 e1 e2 e3 e4
  have e1' : y (1,1,1) = 0 := by
    rcases e1 with h | h
    · norm_num at h
    · exact h
  have e2' : y (2,1,1) = 0 := by
    rcases e2 with h | h
    · norm_num at h
    · exact h
  have e3' : y (3,1,1) = 0 := by
    rcases e3 with h | h
    · norm_num at h
    · exact h
  rw [e1'] at e0; rw [e3'] at e4
  have e0' : y (0,1,1) = 0 := by linarith
  have e4' : y (4,1,1) = 0 := by linarith
  intro c hc
  rcases C04.ex_inBox c hc with rfl | rfl | rfl | rfl | rfl <;> assumption

/-- `steady_reproduced` applies: whatever the solver returns for the step from the steady
    solution is the steady solution -/
example (xnew : CellFld ℚ)
    (h : Solves (Examples.mesh .cart1) (AsmEx.bc 1 3)
      (transientObj AsmEx.sol (1/7) (fun _ => 5) :: AsmEx.terms) xnew) :
    ∀ c, (Examples.mesh .cart1).inBox c → xnew c = AsmEx.sol c :=
  steady_reproduced _ _ _ _ _ _ xnew C04.ex_solves ex_transient_unique h

/-- the steady solution of the C04 example is reproduced by a step with `dt = 1/7`, `alpha = 5` -/
example : Solves (Examples.mesh .cart1) (AsmEx.bc 1 3)
    (transientObj AsmEx.sol (1/7) (fun _ => 5) :: AsmEx.terms) AsmEx.sol :=
  steady_solves_transient _ _ _ _ _ _ C04.ex_solves

/-- explicit step on the example: interior value `old + dt·RHS`, ghost re-imposed (Dirichlet 3
    on the right: ghost = 2·3 − cell) -/
example : explicitPDE (Examples.mesh .cart1) (AsmEx.bc 1 3) AsmEx.sol (1/2) (fun _ => 4) (3,1,1)
      = some 4
    ∧ explicitPDE (Examples.mesh .cart1) (AsmEx.bc 1 3) AsmEx.sol (1/2) (fun _ => 4) (4,1,1)
      = some 2 := by
  decide +kernel

/-- `explicit_vs_implicit_gap` instantiated: `L = 2·`, `s = 4`, `old = 0`, `a = 1`, `dt = 1`:
    `x_impl = 4/3`, `x_expl = 4`, gap `8/3 = (1/1)²·L(s − L x_impl)` -/
example (c : Idx) :
    explicitStep (fun _ => (0:ℚ)) 1 (fun c => ((fun _ => 4 : CellFld ℚ) c
        - (fun (u : CellFld ℚ) i => 2 * u i) (fun _ => 0) c) / 1) c - (fun _ => 4/3 : CellFld ℚ) c
      = 1 ^ 2 / 1 ^ 2 * (fun (u : CellFld ℚ) i => 2 * u i)
          (fun i => (fun _ => 4 : CellFld ℚ) i
            - (fun (u : CellFld ℚ) i => 2 * u i) (fun _ => 4/3) i) c :=
  (explicit_vs_implicit_gap (fun (u : CellFld ℚ) i => 2 * u i) (fun _ _ _ => by ring)
    (fun _ _ _ => by ring) (fun _ => 4) (fun _ => 0) (fun _ => 4/3) 1 1 one_ne_zero one_ne_zero
    (fun _ => by norm_num)).2.2 c

/-- every axis of the example meshes has at least one cell (hypothesis of
    `explicit_step_ghost_irrelevant`) -/
example (d : Dir) : 1 ≤ (Examples.mesh .cart1).n d := by
  cases d <;> decide +kernel

end PyFV.C12
