/-
  Property C12, limits — "a step with `dt → ∞` returns the steady solution, a step with `dt → 0`
  returns the old field", as actual limit statements.

  `Props/C12.lean` has the exact identities (`residual_identity`, `change_identity`); a limit needs
  a bound on the new field that is uniform in `dt`.  Here that bound comes from the discrete
  maximum principle, for the monotone class (M-matrix rows).

  1  abstract form (finite index type, ordered field): spatial matrix `A` with non-positive
     off-diagonal entries and row sums `≥ w ≥ 0`, `a > 0`, step `a (x − old)/dt + A x = s`:
       `step_bounded`, `step_bounded_nosink`   dt-independent bounds of `|x|`
       `dt_to_zero_bound`                      `|x − old| ≤ dt · R/min a`        (no sink needed)
       `dt_to_infty_bound`                     `|x − xs| ≤ (max a/dt) · G / w`   (`w > 0`)
       `step_contraction`                      `|x − xs| ≤ max |old − xs|`        (`w ≥ 0`)
       `step_exists_unique`, `steady_exists_unique`
  2  limits over ℝ: `tendsto_dt_zero`, `tendsto_dt_infty`, `step_family_limits`
  3  the model (C07 class: transient − diffusion(D ≥ 0) + upwind(div-free u) + sink(β ≥ 0),
     periodic / Dirichlet / no-flux boundaries, every grid class), for `IsStep` and for `Solves`:
       `model_step_bounded`, `model_dt_to_zero_bound`, `model_dt_to_infty_bound`,
       `model_contraction`, `model_tendsto_dt_zero`, `model_tendsto_dt_infty`
  4  non-vacuity examples
-/
import PyFV.Lemmas.Limits
import PyFV.Props.C07

set_option linter.unusedSectionVars false

namespace PyFV.C12Lim
open PyFV Filter Topology

variable {α : Type} [Field α] [LinearOrder α] [IsStrictOrderedRing α]
variable {ι : Type} [Fintype ι]

/-! ### 1. abstract form: bounds with explicit constants -/

/-- **(a) the new field is bounded independently of `dt`** (sink everywhere / Dirichlet ghosts
    eliminated: row sums of `A` are `≥ w > 0`): `max |x| ≤ max (max|s| / w, max|old|)` -/
theorem step_bounded (A : ι → ι → α) (a old s x : ι → α) (dt w S O : α) (hdt : 0 < dt)
    (hw : 0 < w) (hoff : ∀ i j, j ≠ i → A i j ≤ 0) (hsum : ∀ i, w ≤ ∑ j, A i j)
    (ha : ∀ i, 0 < a i)
    (hx : ∀ i, a i * (x i - old i) / dt + ∑ j, A i j * x j = s i)
    (hS : ∀ i, |s i| ≤ S) (hO : ∀ i, |old i| ≤ O) : ∀ i, |x i| ≤ max (S / w) O := by
  intro i
  have : Nonempty ι := ⟨i⟩
  obtain ⟨k, hk, hb⟩ := step_abs_max A a old s x (fun _ => 0) dt hoff hx
  simp only [sub_zero, mul_zero, Finset.sum_const_zero] at hk hb
  refine le_trans (hk i) ?_
  have hp : 0 < a k / dt := div_pos (ha k) hdt
  have hσ := hsum k
  have hB1 : S ≤ w * max (S / w) O := by
    have := le_max_left (S / w) O
    rw [div_le_iff₀ hw] at this
    linarith
  have hB2 : O ≤ max (S / w) O := le_max_right _ _
  have hB0 : 0 ≤ max (S / w) O := le_trans (le_trans (abs_nonneg _) (hO k)) hB2
  have h1 : |s k + a k / dt * old k| ≤ S + a k / dt * O := by
    refine le_trans (abs_add_le _ _) ?_
    rw [abs_mul, abs_of_pos hp]
    exact add_le_add (hS k) (mul_le_mul_of_nonneg_left (hO k) hp.le)
  have h2 : a k / dt * O ≤ a k / dt * max (S / w) O := mul_le_mul_of_nonneg_left hB2 hp.le
  have h3 : (a k / dt + w) * max (S / w) O ≤ (a k / dt + ∑ j, A k j) * max (S / w) O :=
    mul_le_mul_of_nonneg_right (by linarith) hB0
  have hpos : 0 < a k / dt + ∑ j, A k j := by linarith
  refine le_of_mul_le_mul_right ?_ hpos
  linarith

/-- **(a′) without a sink** (`w = 0` allowed): `max |x| ≤ max|old| + dt · max|s| / min a` -/
theorem step_bounded_nosink (A : ι → ι → α) (a old s x : ι → α) (dt amin S O : α) (hdt : 0 < dt)
    (hoff : ∀ i j, j ≠ i → A i j ≤ 0) (hsum : ∀ i, 0 ≤ ∑ j, A i j)
    (hamin : 0 < amin) (ha : ∀ i, amin ≤ a i)
    (hx : ∀ i, a i * (x i - old i) / dt + ∑ j, A i j * x j = s i)
    (hS : ∀ i, |s i| ≤ S) (hO : ∀ i, |old i| ≤ O) : ∀ i, |x i| ≤ O + dt * (S / amin) := by
  intro i
  have : Nonempty ι := ⟨i⟩
  obtain ⟨k, hk, hb⟩ := step_abs_max A a old s x (fun _ => 0) dt hoff hx
  simp only [sub_zero, mul_zero, Finset.sum_const_zero] at hk hb
  refine le_trans (hk i) ?_
  have hak : 0 < a k := lt_of_lt_of_le hamin (ha k)
  have hp : 0 < a k / dt := div_pos hak hdt
  have hS0 : 0 ≤ S := le_trans (abs_nonneg _) (hS k)
  have h1 : |s k + a k / dt * old k| ≤ S + a k / dt * O := by
    refine le_trans (abs_add_le _ _) ?_
    rw [abs_mul, abs_of_pos hp]
    exact add_le_add (hS k) (mul_le_mul_of_nonneg_left (hO k) hp.le)
  have h2 : |x k| * (a k / dt) ≤ |x k| * (a k / dt + ∑ j, A k j) :=
    mul_le_mul_of_nonneg_left (by linarith [hsum k]) (abs_nonneg _)
  have h3 : S / amin ≥ S / a k := div_le_div_of_nonneg_left hS0 hamin (ha k)
  have h4 : dt * (S / a k) * (a k / dt) = S := by
    field_simp
  have h5 : dt * (S / a k) ≤ dt * (S / amin) := mul_le_mul_of_nonneg_left h3 hdt.le
  refine le_of_mul_le_mul_right (a := a k / dt) ?_ hp
  nlinarith

/-- **(b) `dt → 0`**: `|x − old| ≤ dt · R / min a`, `R` any bound of the steady residual
    `|s − A old|` of the old field.  No sink is needed (row sums of `A` only `≥ 0`), and the bound
    holds for every `dt > 0`. -/
theorem dt_to_zero_bound (A : ι → ι → α) (a old s x : ι → α) (dt amin R : α) (hdt : 0 < dt)
    (hoff : ∀ i j, j ≠ i → A i j ≤ 0) (hsum : ∀ i, 0 ≤ ∑ j, A i j)
    (hamin : 0 < amin) (ha : ∀ i, amin ≤ a i)
    (hx : ∀ i, a i * (x i - old i) / dt + ∑ j, A i j * x j = s i)
    (hR : ∀ i, |s i - ∑ j, A i j * old j| ≤ R) : ∀ i, |x i - old i| ≤ dt * (R / amin) := by
  intro i
  have : Nonempty ι := ⟨i⟩
  obtain ⟨k, hk, hb⟩ := step_abs_max A a old s x old dt hoff hx
  simp only [sub_self, mul_zero, add_zero] at hb
  refine le_trans (hk i) ?_
  have hak : 0 < a k := lt_of_lt_of_le hamin (ha k)
  have hp : 0 < a k / dt := div_pos hak hdt
  have hR0 : 0 ≤ R := le_trans (abs_nonneg _) (hR k)
  have h2 : |x k - old k| * (a k / dt) ≤ |x k - old k| * (a k / dt + ∑ j, A k j) :=
    mul_le_mul_of_nonneg_left (by linarith [hsum k]) (abs_nonneg _)
  have h3 : R / a k ≤ R / amin := div_le_div_of_nonneg_left hR0 hamin (ha k)
  have h4 : dt * (R / a k) * (a k / dt) = R := by
    field_simp
  have h5 : dt * (R / a k) ≤ dt * (R / amin) := mul_le_mul_of_nonneg_left h3 hdt.le
  refine le_of_mul_le_mul_right (a := a k / dt) ?_ hp
  have := hR k
  nlinarith

/-- the difference to a steady solution: at the index `k` where it is largest,
    `|x_k − xs_k| · (a_k/dt + Σ_j A_kj) ≤ (a_k/dt) · |old_k − xs_k|` -/
theorem steady_gap_row (A : ι → ι → α) (a old s x xs : ι → α) (dt : α) (hdt : 0 < dt)
    [Nonempty ι] (hoff : ∀ i j, j ≠ i → A i j ≤ 0) (ha : ∀ i, 0 < a i)
    (hx : ∀ i, a i * (x i - old i) / dt + ∑ j, A i j * x j = s i)
    (hxs : ∀ i, ∑ j, A i j * xs j = s i) :
    ∃ k, (∀ i, |x i - xs i| ≤ |x k - xs k|) ∧
      |x k - xs k| * (a k / dt + ∑ j, A k j) ≤ a k / dt * |old k - xs k| := by
  obtain ⟨k, hk, hb⟩ := step_abs_max A a old s x xs dt hoff hx
  refine ⟨k, hk, ?_⟩
  rw [hxs k, sub_self, zero_add, abs_mul, abs_of_pos (div_pos (ha k) hdt)] at hb
  exact hb

/-- **(c) `dt → ∞`**: with a steady solution `xs` (`A xs = s`) and row sums `≥ w > 0`,
    `|x − xs| ≤ (max a / dt) · max|old − xs| / w` -/
theorem dt_to_infty_bound (A : ι → ι → α) (a old s x xs : ι → α) (dt w amax G : α) (hdt : 0 < dt)
    (hw : 0 < w) (hoff : ∀ i j, j ≠ i → A i j ≤ 0) (hsum : ∀ i, w ≤ ∑ j, A i j)
    (ha : ∀ i, 0 < a i) (hamax : ∀ i, a i ≤ amax)
    (hx : ∀ i, a i * (x i - old i) / dt + ∑ j, A i j * x j = s i)
    (hxs : ∀ i, ∑ j, A i j * xs j = s i) (hG : ∀ i, |old i - xs i| ≤ G) :
    ∀ i, |x i - xs i| ≤ amax / dt * G / w := by
  intro i
  have : Nonempty ι := ⟨i⟩
  obtain ⟨k, hk, hb⟩ := steady_gap_row A a old s x xs dt hdt hoff ha hx hxs
  refine le_trans (hk i) ?_
  have hp : 0 < a k / dt := div_pos (ha k) hdt
  have hG0 : 0 ≤ G := le_trans (abs_nonneg _) (hG k)
  have h1 : |x k - xs k| * w ≤ |x k - xs k| * (a k / dt + ∑ j, A k j) :=
    mul_le_mul_of_nonneg_left (by linarith [hsum k]) (abs_nonneg _)
  have h2 : a k / dt * |old k - xs k| ≤ amax / dt * G :=
    mul_le_mul (div_le_div_of_nonneg_right (hamax k) hdt.le) (hG k) (abs_nonneg _)
      (div_nonneg (le_trans (ha k).le (hamax k)) hdt.le)
  rw [le_div_iff₀ hw]
  linarith

/-- the step is a contraction towards a steady solution in the maximum norm, for every `dt`
    (row sums of `A` only `≥ 0`) -/
theorem step_contraction (A : ι → ι → α) (a old s x xs : ι → α) (dt G : α) (hdt : 0 < dt)
    (hoff : ∀ i j, j ≠ i → A i j ≤ 0) (hsum : ∀ i, 0 ≤ ∑ j, A i j) (ha : ∀ i, 0 < a i)
    (hx : ∀ i, a i * (x i - old i) / dt + ∑ j, A i j * x j = s i)
    (hxs : ∀ i, ∑ j, A i j * xs j = s i) (hG : ∀ i, |old i - xs i| ≤ G) :
    ∀ i, |x i - xs i| ≤ G := by
  intro i
  have : Nonempty ι := ⟨i⟩
  obtain ⟨k, hk, hb⟩ := steady_gap_row A a old s x xs dt hdt hoff ha hx hxs
  refine le_trans (hk i) ?_
  have hp : 0 < a k / dt := div_pos (ha k) hdt
  have h1 : |x k - xs k| * (a k / dt) ≤ |x k - xs k| * (a k / dt + ∑ j, A k j) :=
    mul_le_mul_of_nonneg_left (by linarith [hsum k]) (abs_nonneg _)
  have h2 : a k / dt * |old k - xs k| ≤ a k / dt * G := mul_le_mul_of_nonneg_left (hG k) hp.le
  refine le_of_mul_le_mul_right (a := a k / dt) ?_ hp
  linarith

/-- the step has exactly one solution (strict diagonal dominance of `a/dt·I + A`) -/
theorem step_exists_unique (A : ι → ι → α) (a old s : ι → α) (dt : α) (hdt : 0 < dt)
    (hoff : ∀ i j, j ≠ i → A i j ≤ 0) (hsum : ∀ i, 0 ≤ ∑ j, A i j) (ha : ∀ i, 0 < a i) :
    ∃! x : ι → α, ∀ i, a i * (x i - old i) / dt + ∑ j, A i j * x j = s i := by
  classical
  obtain ⟨x, hx, hu⟩ := mmatrix_bijective (stepMat A a dt) (stepMat_off A a dt hoff)
    (fun i => by rw [stepMat_sum]; have := div_pos (ha i) hdt; linarith [hsum i])
    (fun i => s i + a i / dt * old i)
  refine ⟨x, fun i => ?_, fun y hy => hu y (fun i => ?_)⟩
  · have := hx i
    rw [stepMat_mul] at this
    linear_combination this
  · rw [stepMat_mul]
    linear_combination hy i

/-- with row sums `≥ w > 0` the steady problem has exactly one solution -/
theorem steady_exists_unique (A : ι → ι → α) (s : ι → α) (w : α) (hw : 0 < w)
    (hoff : ∀ i j, j ≠ i → A i j ≤ 0) (hsum : ∀ i, w ≤ ∑ j, A i j) :
    ∃! xs : ι → α, ∀ i, ∑ j, A i j * xs j = s i :=
  mmatrix_bijective A hoff (fun i => lt_of_lt_of_le hw (hsum i)) s

/-! ### 2. the limits over ℝ -/

/-- **`dt → 0+`: the step returns the old field.**  `x dt` solves the step with time step `dt`
    for every `dt > 0`; the spatial matrix has non-positive off-diagonal entries and non-negative
    row sums (no sink needed), `a > 0`. -/
theorem tendsto_dt_zero (A : ι → ι → ℝ) (a old s : ι → ℝ) (x : ℝ → ι → ℝ)
    (hoff : ∀ i j, j ≠ i → A i j ≤ 0) (hsum : ∀ i, 0 ≤ ∑ j, A i j) (ha : ∀ i, 0 < a i)
    (hx : ∀ dt, 0 < dt → ∀ i, a i * (x dt i - old i) / dt + ∑ j, A i j * x dt j = s i)
    (i : ι) : Tendsto (fun dt => x dt i) (𝓝[>] 0) (𝓝 (old i)) := by
  obtain ⟨m, -, hm⟩ := Finset.exists_min_image Finset.univ a ⟨i, Finset.mem_univ i⟩
  have hR : ∀ i, |s i - ∑ j, A i j * old j| ≤ ∑ i, |s i - ∑ j, A i j * old j| := fun i =>
    Finset.single_le_sum (f := fun i => |s i - ∑ j, A i j * old j|)
      (fun _ _ => abs_nonneg _) (Finset.mem_univ i)
  exact tendsto_of_abs_le_mul (fun dt hdt =>
    dt_to_zero_bound A a old s (x dt) dt (a m) _ hdt hoff hsum (ha m)
      (fun j => hm j (Finset.mem_univ j)) (hx dt hdt) hR i)

/-- **`dt → ∞`: the step returns the steady solution.**  Row sums of the spatial matrix `≥ w > 0`
    (a sink everywhere, or Dirichlet ghosts eliminated), `xs` a steady solution. -/
theorem tendsto_dt_infty (A : ι → ι → ℝ) (a old s xs : ι → ℝ) (x : ℝ → ι → ℝ) (w : ℝ)
    (hw : 0 < w) (hoff : ∀ i j, j ≠ i → A i j ≤ 0) (hsum : ∀ i, w ≤ ∑ j, A i j)
    (ha : ∀ i, 0 < a i)
    (hx : ∀ dt, 0 < dt → ∀ i, a i * (x dt i - old i) / dt + ∑ j, A i j * x dt j = s i)
    (hxs : ∀ i, ∑ j, A i j * xs j = s i) (i : ι) :
    Tendsto (fun dt => x dt i) atTop (𝓝 (xs i)) := by
  have hamax : ∀ i, a i ≤ ∑ i, a i := fun i =>
    Finset.single_le_sum (f := a) (fun j _ => (ha j).le) (Finset.mem_univ i)
  have hG : ∀ i, |old i - xs i| ≤ ∑ i, |old i - xs i| := fun i =>
    Finset.single_le_sum (f := fun i => |old i - xs i|) (fun _ _ => abs_nonneg _)
      (Finset.mem_univ i)
  refine tendsto_of_abs_le_div (C := (∑ i, a i) * (∑ i, |old i - xs i|) / w) (fun dt hdt => ?_)
  have := dt_to_infty_bound A a old s (x dt) xs dt w _ _ hdt hw hoff hsum ha hamax (hx dt hdt)
    hxs hG i
  have hd : dt ≠ 0 := hdt.ne'
  have e : (∑ i, a i) / dt * (∑ i, |old i - xs i|) / w
      = (∑ i, a i) * (∑ i, |old i - xs i|) / w / dt := by
    field_simp
  rw [← e]
  exact this

/-- existence and both limits in one statement: under the M-matrix hypotheses with `w > 0` there
    is a family of step solutions (one for every `dt > 0`) and a steady solution, and the family
    tends to the old field as `dt → 0+` and to the steady solution as `dt → ∞` -/
theorem step_family_limits (A : ι → ι → ℝ) (a old s : ι → ℝ) (w : ℝ) (hw : 0 < w)
    (hoff : ∀ i j, j ≠ i → A i j ≤ 0) (hsum : ∀ i, w ≤ ∑ j, A i j) (ha : ∀ i, 0 < a i) :
    ∃ (x : ℝ → ι → ℝ) (xs : ι → ℝ),
      (∀ dt, 0 < dt → ∀ i, a i * (x dt i - old i) / dt + ∑ j, A i j * x dt j = s i) ∧
      (∀ i, ∑ j, A i j * xs j = s i) ∧
      (∀ i, Tendsto (fun dt => x dt i) (𝓝[>] 0) (𝓝 (old i))) ∧
      (∀ i, Tendsto (fun dt => x dt i) atTop (𝓝 (xs i))) := by
  have hsum0 : ∀ i, 0 ≤ ∑ j, A i j := fun i => le_trans hw.le (hsum i)
  have H : ∀ dt : ℝ, ∃ x : ι → ℝ,
      0 < dt → ∀ i, a i * (x i - old i) / dt + ∑ j, A i j * x j = s i := by
    intro dt
    by_cases h : 0 < dt
    · obtain ⟨x, hx, -⟩ := step_exists_unique A a old s dt h hoff hsum0 ha
      exact ⟨x, fun _ => hx⟩
    · exact ⟨old, fun h' => absurd h' h⟩
  choose x hx using H
  obtain ⟨xs, hxs, -⟩ := steady_exists_unique A s w hw hoff hsum
  exact ⟨x, xs, hx, hxs, tendsto_dt_zero A a old s x hoff hsum0 ha hx,
    tendsto_dt_infty A a old s xs x w hw hoff hsum ha hx hxs⟩

/-! ### 3. the model: the C07 class on any well-formed mesh

The unknowns are the interior cells `M.cells`; ghost values are eliminated through the ties the
boundary rows impose (no-flux `x_g = x_c`, Dirichlet `x_g = 2 c_D − x_c`, periodic), in the form
`IsStep` / `NbrTied` that C07 uses: the row argument is run at the cell where `|e|` is largest
(`IsStep.abs_max`) instead of building an `ι`-indexed matrix. -/

/-- `IsStep` form of the contraction: if `e` satisfies the homogeneous-tie step with old field `g`
    then `max |e| ≤ max |g|` -/
theorem step_contraction_isStep (M : Mesh α) (hM : M.WF) (hA : ∀ d f, 0 ≤ lineA M d f)
    (S : Finset Idx) (D u : FaceFld α) (β alpha g e : CellFld α) (dt G : α)
    (h : IsStep M S D u β alpha dt (fun v => v = 0) g e) (hG : ∀ c ∈ S, |g c| ≤ G) :
    ∀ c ∈ S, |e c| ≤ G := by
  intro c hc
  obtain ⟨k, hk, hmax, hb⟩ := h.abs_max hM hA ⟨c, hc⟩
  refine le_trans (hmax c hc) ?_
  have hp : 0 < alpha k / dt := div_pos (h.α0 k hk) h.dt0
  have h1 : alpha k / dt * |e k| ≤ (alpha k / dt + β k) * |e k| :=
    mul_le_mul_of_nonneg_right (by linarith [h.β0 k hk]) (abs_nonneg _)
  have h2 : alpha k / dt * |g k| ≤ alpha k / dt * G := mul_le_mul_of_nonneg_left (hG k hk) hp.le
  refine le_of_mul_le_mul_left (a := alpha k / dt) ?_ hp
  linarith

/-- `IsStep` form of the `1/dt` bound: with a sink `β ≥ β₀ > 0` on `S`,
    `max |e| ≤ (max alpha / dt) · max |g| / β₀` -/
theorem sink_bound_isStep (M : Mesh α) (hM : M.WF) (hA : ∀ d f, 0 ≤ lineA M d f)
    (S : Finset Idx) (D u : FaceFld α) (β alpha g e : CellFld α) (dt G β₀ amax : α)
    (h : IsStep M S D u β alpha dt (fun v => v = 0) g e) (hβ₀ : 0 < β₀)
    (hβ : ∀ c ∈ S, β₀ ≤ β c) (hamax : ∀ c ∈ S, alpha c ≤ amax) (hG : ∀ c ∈ S, |g c| ≤ G) :
    ∀ c ∈ S, |e c| ≤ amax / dt * G / β₀ := by
  intro c hc
  obtain ⟨k, hk, hmax, hb⟩ := h.abs_max hM hA ⟨c, hc⟩
  refine le_trans (hmax c hc) ?_
  have hp : 0 < alpha k / dt := div_pos (h.α0 k hk) h.dt0
  have h1 : β₀ * |e k| ≤ (alpha k / dt + β k) * |e k| :=
    mul_le_mul_of_nonneg_right (by linarith [hβ k hk]) (abs_nonneg _)
  have h2 : alpha k / dt * |g k| ≤ amax / dt * G :=
    mul_le_mul (div_le_div_of_nonneg_right (hamax k hk) h.dt0.le) (hG k hk) (abs_nonneg _)
      (div_nonneg (le_trans (h.α0 k hk).le (hamax k hk)) h.dt0.le)
  rw [le_div_iff₀ hβ₀]
  linarith

/-- **(a) on the model**: the new interior values are bounded, independently of `dt`, by any
    bound `B ≥ 0` of the old interior values and the Dirichlet data (the maximum principle of
    C07 read as an a-priori bound) -/
theorem model_step_bounded (M : Mesh α) (hM : M.WF) (hA : ∀ d f, 0 ≤ lineA M d f)
    (bc : BCs α) (D u : FaceFld α) (β alpha old : CellFld α) (dt B : α) (hB : 0 ≤ B)
    (hbc : BCsOK M bc (fun v => -B ≤ v ∧ v ≤ B))
    (hD : ∀ d c, 0 ≤ D d c) (hdiv : ∀ c ∈ M.cells, divergence M u c = 0)
    (hβ : ∀ c ∈ M.cells, 0 ≤ β c) (hα : ∀ c ∈ M.cells, 0 < alpha c) (hdt : 0 < dt)
    (x : CellFld α) (hx : Solves M bc (stepTerms M D u β old dt alpha) x)
    (hold : ∀ c ∈ M.cells, |old c| ≤ B) : ∀ c ∈ M.cells, |x c| ≤ B := by
  intro c hc
  have h := C07.range_preserved M hM hA M.cells D u β alpha old x dt (-B) B
    (isStep_of_solves M hM bc _ hbc D u β alpha old dt hD hdiv hβ hα hdt x hx)
    (fun c hc => abs_le.1 (hold c hc)) (fun _ => ⟨by linarith, hB⟩) c hc
  exact abs_le.2 h

/-- the difference of a step solution and a boundary-consistent reference field `y` that solves
    the step from `old'` is a homogeneous-tie step with old field `old − old'` -/
theorem isStep_sub (M : Mesh α) (hM : M.WF) (bc : BCs α) (P : α → Prop) (hbc : BCsOK M bc P)
    (D u : FaceFld α) (β alpha old old' : CellFld α) (dt : α)
    (hD : ∀ d c, 0 ≤ D d c) (hdiv : ∀ c ∈ M.cells, divergence M u c = 0)
    (hβ : ∀ c ∈ M.cells, 0 ≤ β c) (hα : ∀ c ∈ M.cells, 0 < alpha c) (hdt : 0 < dt)
    (x y : CellFld α) (hx : Solves M bc (stepTerms M D u β old dt alpha) x)
    (hy : Solves M bc (stepTerms M D u β old' dt alpha) y) :
    IsStep M M.cells D u β alpha dt (fun v => v = 0) (fun c => old c - old' c)
      (fun c => x c - y c) :=
  isStep_of_solves M hM bc.homog (fun v => v = 0) (hbc.homog _ rfl) D u β alpha _ dt hD hdiv hβ hα
    hdt _ (Solves.sub_old hx hy)

/-- **(b) on the model, `dt → 0`**: for a solution `x` of the assembled step and an old field
    whose ghost entries are consistent with the boundary conditions,
    `|x c − old c| ≤ dt · R / min alpha` in every interior cell, `R` any bound of the spatial
    operator applied to the old field `|(L old) c|` on the interior cells.  No sink needed. -/
theorem model_dt_to_zero_bound (M : Mesh α) (hM : M.WF) (hA : ∀ d f, 0 ≤ lineA M d f)
    (bc : BCs α) (P : α → Prop) (hbc : BCsOK M bc P) (D u : FaceFld α) (β alpha old : CellFld α)
    (dt : α) (hD : ∀ d c, 0 ≤ D d c) (hdiv : ∀ c ∈ M.cells, divergence M u c = 0)
    (hβ : ∀ c ∈ M.cells, 0 ≤ β c) (hα : ∀ c ∈ M.cells, 0 < alpha c) (hdt : 0 < dt)
    (x : CellFld α) (hx : Solves M bc (stepTerms M D u β old dt alpha) x)
    (hold : BCConsistent M bc old) (amin R : α) (hamin : 0 < amin)
    (ha : ∀ c ∈ M.cells, amin ≤ alpha c)
    (hR : ∀ c ∈ M.cells, |spatialApp M D u β old c| ≤ R) :
    ∀ c ∈ M.cells, |x c - old c| ≤ dt * (R / amin) := by
  have hy := hold.solves_backShift D u β alpha dt hdt.ne' (fun c hc => (hα c hc).ne')
  have hstep := isStep_sub M hM bc P hbc D u β alpha old _ dt hD hdiv hβ hα hdt x old hx hy
  refine step_contraction_isStep M hM hA M.cells D u β alpha _ _ dt _ hstep (fun c hc => ?_)
  have hac := hα c hc
  have hR0 : 0 ≤ R := le_trans (abs_nonneg _) (hR c hc)
  have e : old c - backShift M D u β alpha dt old c
      = -(dt / alpha c * spatialApp M D u β old c) := by
    simp only [backShift]; ring
  rw [e, abs_neg, abs_mul, abs_of_pos (div_pos hdt hac)]
  calc dt / alpha c * |spatialApp M D u β old c| ≤ dt / alpha c * R :=
        mul_le_mul_of_nonneg_left (hR c hc) (div_pos hdt hac).le
    _ = dt * (R / alpha c) := by ring
    _ ≤ dt * (R / amin) :=
        mul_le_mul_of_nonneg_left (div_le_div_of_nonneg_left hR0 hamin (ha c hc)) hdt.le

/-- **(c) on the model, `dt → ∞`**: with a sink `β ≥ β₀ > 0` on the interior cells and a steady
    solution `xs` of the assembled spatial system (same boundary conditions),
    `|x c − xs c| ≤ (max alpha / dt) · max |old − xs| / β₀` in every interior cell -/
theorem model_dt_to_infty_bound (M : Mesh α) (hM : M.WF) (hA : ∀ d f, 0 ≤ lineA M d f)
    (bc : BCs α) (P : α → Prop) (hbc : BCsOK M bc P) (D u : FaceFld α) (β alpha old : CellFld α)
    (dt : α) (hD : ∀ d c, 0 ≤ D d c) (hdiv : ∀ c ∈ M.cells, divergence M u c = 0)
    (hα : ∀ c ∈ M.cells, 0 < alpha c) (hdt : 0 < dt)
    (x : CellFld α) (hx : Solves M bc (stepTerms M D u β old dt alpha) x)
    (xs : CellFld α) (hxs : Solves M bc (spatialTerms M D u β) xs)
    (β₀ amax G : α) (hβ₀ : 0 < β₀) (hβ : ∀ c ∈ M.cells, β₀ ≤ β c)
    (hamax : ∀ c ∈ M.cells, alpha c ≤ amax) (hG : ∀ c ∈ M.cells, |old c - xs c| ≤ G) :
    ∀ c ∈ M.cells, |x c - xs c| ≤ amax / dt * G / β₀ :=
  sink_bound_isStep M hM hA M.cells D u β alpha _ _ dt G β₀ amax
    (isStep_sub M hM bc P hbc D u β alpha old xs dt hD hdiv
      (fun c hc => le_trans hβ₀.le (hβ c hc)) hα hdt x xs hx (steady_solves_step hxs dt alpha))
    hβ₀ hβ hamax hG

/-- on the model the step is a contraction towards a steady solution for every `dt`
    (sink not needed): `max |x − xs| ≤ max |old − xs|` over the interior cells -/
theorem model_contraction (M : Mesh α) (hM : M.WF) (hA : ∀ d f, 0 ≤ lineA M d f)
    (bc : BCs α) (P : α → Prop) (hbc : BCsOK M bc P) (D u : FaceFld α) (β alpha old : CellFld α)
    (dt : α) (hD : ∀ d c, 0 ≤ D d c) (hdiv : ∀ c ∈ M.cells, divergence M u c = 0)
    (hβ : ∀ c ∈ M.cells, 0 ≤ β c) (hα : ∀ c ∈ M.cells, 0 < alpha c) (hdt : 0 < dt)
    (x : CellFld α) (hx : Solves M bc (stepTerms M D u β old dt alpha) x)
    (xs : CellFld α) (hxs : Solves M bc (spatialTerms M D u β) xs)
    (G : α) (hG : ∀ c ∈ M.cells, |old c - xs c| ≤ G) :
    ∀ c ∈ M.cells, |x c - xs c| ≤ G :=
  step_contraction_isStep M hM hA M.cells D u β alpha _ _ dt G
    (isStep_sub M hM bc P hbc D u β alpha old xs dt hD hdiv hβ hα hdt x xs hx
      (steady_solves_step hxs dt alpha)) hG

/-- **`dt → 0+` on the model**: whatever `solvePDE` returns for the step with time step `dt`
    tends, in every interior cell, to the old value -/
theorem model_tendsto_dt_zero (M : Mesh ℝ) (hM : M.WF) (hA : ∀ d f, 0 ≤ lineA M d f)
    (bc : BCs ℝ) (P : ℝ → Prop) (hbc : BCsOK M bc P) (D u : FaceFld ℝ) (β alpha old : CellFld ℝ)
    (hD : ∀ d c, 0 ≤ D d c) (hdiv : ∀ c ∈ M.cells, divergence M u c = 0)
    (hβ : ∀ c ∈ M.cells, 0 ≤ β c) (hα : ∀ c ∈ M.cells, 0 < alpha c)
    (x : ℝ → CellFld ℝ)
    (hx : ∀ dt, 0 < dt → Solves M bc (stepTerms M D u β old dt alpha) (x dt))
    (hold : BCConsistent M bc old) (c : Idx) (hc : c ∈ M.cells) :
    Tendsto (fun dt => x dt c) (𝓝[>] 0) (𝓝 (old c)) := by
  obtain ⟨m, hm, hmin⟩ := Finset.exists_min_image M.cells alpha ⟨c, hc⟩
  have hR : ∀ c ∈ M.cells,
      |spatialApp M D u β old c| ≤ ∑ c ∈ M.cells, |spatialApp M D u β old c| := fun c hc =>
    Finset.single_le_sum (f := fun c => |spatialApp M D u β old c|)
      (fun _ _ => abs_nonneg _) hc
  exact tendsto_of_abs_le_mul (fun dt hdt =>
    model_dt_to_zero_bound M hM hA bc P hbc D u β alpha old dt hD hdiv hβ hα hdt (x dt)
      (hx dt hdt) hold (alpha m) _ (hα m hm) hmin hR c hc)

/-- **`dt → ∞` on the model**: with a sink `β ≥ β₀ > 0`, whatever `solvePDE` returns for the step
    with time step `dt` tends, in every interior cell, to the steady solution -/
theorem model_tendsto_dt_infty (M : Mesh ℝ) (hM : M.WF) (hA : ∀ d f, 0 ≤ lineA M d f)
    (bc : BCs ℝ) (P : ℝ → Prop) (hbc : BCsOK M bc P) (D u : FaceFld ℝ) (β alpha old : CellFld ℝ)
    (hD : ∀ d c, 0 ≤ D d c) (hdiv : ∀ c ∈ M.cells, divergence M u c = 0)
    (hα : ∀ c ∈ M.cells, 0 < alpha c) (β₀ : ℝ) (hβ₀ : 0 < β₀) (hβ : ∀ c ∈ M.cells, β₀ ≤ β c)
    (x : ℝ → CellFld ℝ)
    (hx : ∀ dt, 0 < dt → Solves M bc (stepTerms M D u β old dt alpha) (x dt))
    (xs : CellFld ℝ) (hxs : Solves M bc (spatialTerms M D u β) xs) (c : Idx) (hc : c ∈ M.cells) :
    Tendsto (fun dt => x dt c) atTop (𝓝 (xs c)) := by
  have hamax : ∀ c ∈ M.cells, alpha c ≤ ∑ c ∈ M.cells, alpha c := fun c hc =>
    Finset.single_le_sum (f := alpha) (fun j hj => (hα j hj).le) hc
  have hG : ∀ c ∈ M.cells, |old c - xs c| ≤ ∑ c ∈ M.cells, |old c - xs c| := fun c hc =>
    Finset.single_le_sum (f := fun c => |old c - xs c|) (fun _ _ => abs_nonneg _) hc
  refine tendsto_of_abs_le_div
    (C := (∑ c ∈ M.cells, alpha c) * (∑ c ∈ M.cells, |old c - xs c|) / β₀) (fun dt hdt => ?_)
  have := model_dt_to_infty_bound M hM hA bc P hbc D u β alpha old dt hD hdiv hα hdt (x dt)
    (hx dt hdt) xs hxs β₀ _ _ hβ₀ hβ hamax hG c hc
  have hd : dt ≠ 0 := hdt.ne'
  have e : (∑ c ∈ M.cells, alpha c) / dt * (∑ c ∈ M.cells, |old c - xs c|) / β₀
      = (∑ c ∈ M.cells, alpha c) * (∑ c ∈ M.cells, |old c - xs c|) / β₀ / dt := by
    field_simp
  rw [← e]
  exact this

/-- the ghost entries of the stored old array do not matter: the step reads `old` on the interior
    cells only, so `model_dt_to_zero_bound` holds with any boundary-consistent field `old'` that
    agrees with `old` on the interior cells (the residual bound `R` is taken for `old'`) -/
theorem model_dt_to_zero_bound_ext (M : Mesh α) (hM : M.WF) (hA : ∀ d f, 0 ≤ lineA M d f)
    (bc : BCs α) (P : α → Prop) (hbc : BCsOK M bc P) (D u : FaceFld α) (β alpha old : CellFld α)
    (dt : α) (hD : ∀ d c, 0 ≤ D d c) (hdiv : ∀ c ∈ M.cells, divergence M u c = 0)
    (hβ : ∀ c ∈ M.cells, 0 ≤ β c) (hα : ∀ c ∈ M.cells, 0 < alpha c) (hdt : 0 < dt)
    (x : CellFld α) (hx : Solves M bc (stepTerms M D u β old dt alpha) x)
    (old' : CellFld α) (hagree : ∀ c ∈ M.cells, old' c = old c) (hold : BCConsistent M bc old')
    (amin R : α) (hamin : 0 < amin) (ha : ∀ c ∈ M.cells, amin ≤ alpha c)
    (hR : ∀ c ∈ M.cells, |spatialApp M D u β old' c| ≤ R) :
    ∀ c ∈ M.cells, |x c - old c| ≤ dt * (R / amin) := by
  intro c hc
  rw [← hagree c hc]
  exact model_dt_to_zero_bound M hM hA bc P hbc D u β alpha old' dt hD hdiv hβ hα hdt x
    (Solves.congr_old hagree hx) hold amin R hamin ha hR c hc

/-- `model_tendsto_dt_zero` with the ghost entries of the old array arbitrary -/
theorem model_tendsto_dt_zero_ext (M : Mesh ℝ) (hM : M.WF) (hA : ∀ d f, 0 ≤ lineA M d f)
    (bc : BCs ℝ) (P : ℝ → Prop) (hbc : BCsOK M bc P) (D u : FaceFld ℝ) (β alpha old : CellFld ℝ)
    (hD : ∀ d c, 0 ≤ D d c) (hdiv : ∀ c ∈ M.cells, divergence M u c = 0)
    (hβ : ∀ c ∈ M.cells, 0 ≤ β c) (hα : ∀ c ∈ M.cells, 0 < alpha c)
    (x : ℝ → CellFld ℝ)
    (hx : ∀ dt, 0 < dt → Solves M bc (stepTerms M D u β old dt alpha) (x dt))
    (old' : CellFld ℝ) (hagree : ∀ c ∈ M.cells, old' c = old c) (hold : BCConsistent M bc old')
    (c : Idx) (hc : c ∈ M.cells) :
    Tendsto (fun dt => x dt c) (𝓝[>] 0) (𝓝 (old c)) := by
  rw [← hagree c hc]
  exact model_tendsto_dt_zero M hM hA bc P hbc D u β alpha old' hD hdiv hβ hα x
    (fun dt hdt => Solves.congr_old hagree (hx dt hdt)) hold c hc

/-! ### 4. non-vacuity -/

/-- the hypotheses of the abstract bounds hold for the 2-cell system `A = [[2,−1],[−1,2]]`
    (`w = 1`), `a = 1`, `old = 0`, `s = 1`, `dt = 1`; the step returns `1/2`, the steady solution
    is `1`.  (a): `|1/2| ≤ max (1/1) 0` -/
example : ∀ _ : Fin 2, |(1 / (1 + 1) : ℚ)| ≤ max (1 / 1) 0 :=
  step_bounded exA2 (fun _ => 1) (fun _ => 0) (fun _ => 1) (fun _ => 1 / (1 + 1)) 1 1 1 0
    one_pos one_pos exA2_off (fun i => (exA2_sum i).ge) (fun _ => one_pos)
    (exA2_step 1 one_pos) (fun _ => by norm_num) (fun _ => by norm_num)

/-- (a′): `|1/2| ≤ 0 + 1·(1/1)` -/
example : ∀ _ : Fin 2, |(1 / (1 + 1) : ℚ)| ≤ 0 + 1 * (1 / 1) :=
  step_bounded_nosink exA2 (fun _ => 1) (fun _ => 0) (fun _ => 1) (fun _ => 1 / (1 + 1)) 1 1 1 0
    one_pos exA2_off (fun i => by rw [exA2_sum i]; exact zero_le_one) one_pos (fun _ => le_refl _)
    (exA2_step 1 one_pos) (fun _ => by norm_num) (fun _ => by norm_num)

/-- (b) for every `dt > 0`: `|dt/(1+dt) − 0| ≤ dt·(1/1)` -/
example (dt : ℚ) (hdt : 0 < dt) : ∀ _ : Fin 2, |dt / (1 + dt) - 0| ≤ dt * (1 / 1) :=
  dt_to_zero_bound exA2 (fun _ => 1) (fun _ => 0) (fun _ => 1) (fun _ => dt / (1 + dt)) dt 1 1
    hdt exA2_off (fun i => by rw [exA2_sum i]; exact zero_le_one) one_pos (fun _ => le_refl _)
    (exA2_step dt hdt) (fun _ => by simp)

/-- (c) for every `dt > 0`: `|dt/(1+dt) − 1| ≤ (1/dt)·1/1` -/
example (dt : ℚ) (hdt : 0 < dt) : ∀ _ : Fin 2, |dt / (1 + dt) - 1| ≤ 1 / dt * 1 / 1 :=
  dt_to_infty_bound exA2 (fun _ => 1) (fun _ => 0) (fun _ => 1) (fun _ => dt / (1 + dt))
    (fun _ => 1) dt 1 1 1 hdt one_pos exA2_off (fun i => (exA2_sum i).ge) (fun _ => one_pos)
    (fun _ => le_refl _) (exA2_step dt hdt) exA2_steady (fun _ => by norm_num)

/-- the constants evaluated at `dt = 1/10` and `dt = 10` -/
example : |(1/10 : ℚ) / (1 + 1/10) - 0| ≤ 1/10 * (1 / 1)
    ∧ |(10 : ℚ) / (1 + 10) - 1| ≤ 1 / 10 * 1 / 1 := by
  decide +kernel

/-- the two limits of the 2-cell system: `dt/(1+dt) → 0 = old` and `→ 1 = xs` -/
example : Tendsto (fun dt : ℝ => dt / (1 + dt)) (𝓝[>] 0) (𝓝 0) :=
  tendsto_dt_zero exA2 (fun _ => 1) (fun _ => 0) (fun _ => 1) (fun dt _ => dt / (1 + dt))
    exA2_off (fun i => by rw [exA2_sum i]; exact zero_le_one) (fun _ => one_pos)
    (fun dt hdt => exA2_step dt hdt) 0

example : Tendsto (fun dt : ℝ => dt / (1 + dt)) atTop (𝓝 1) :=
  tendsto_dt_infty exA2 (fun _ => 1) (fun _ => 0) (fun _ => 1) (fun _ => 1)
    (fun dt _ => dt / (1 + dt)) 1 one_pos exA2_off (fun i => (exA2_sum i).ge) (fun _ => one_pos)
    (fun dt hdt => exA2_step dt hdt) exA2_steady 0

/-- existence: the 2-cell step has exactly one solution for `dt = 1/10` -/
example : ∃! x : Fin 2 → ℚ, ∀ i, (1 : ℚ) * (x i - 0) / (1/10) + ∑ j, exA2 i j * x j = 1 :=
  step_exists_unique exA2 (fun _ => 1) (fun _ => 0) (fun _ => 1) (1/10) (by norm_num) exA2_off
    (fun i => by rw [exA2_sum i]; exact zero_le_one) (fun _ => one_pos)

/-- the model theorems on the 3-cell mesh with no-flux walls: any `D ≥ 0`, no velocity, sink
    `β ≡ 1`, `alpha ≡ 1`, `old ≡ 1`: the step returns `1/(1+dt)` (`limMesh_const_solves`), the
    steady solution is `0`.  (b): `|1/(1+dt) − 1| ≤ dt·(1/1)` in every interior cell -/
example (D : FaceFld ℚ) (hD : ∀ d c, 0 ≤ D d c) (dt : ℚ) (hdt : 0 < dt) :
    ∀ c ∈ (limMesh : Mesh ℚ).cells, |1 / (1 + dt) - 1| ≤ dt * (1 / 1) :=
  model_dt_to_zero_bound limMesh limMesh_WF limMesh_lineA nfBC (fun _ => True) (nfBC_ok _) D
    (fun _ _ => 0) (fun _ => 1) (fun _ => 1) (fun _ => 1) dt hD (fun c _ => divergence_zero _ c)
    (fun _ _ => zero_le_one) (fun _ _ => one_pos) hdt (fun _ => 1 / (1 + dt))
    (limMesh_const_solves D 1 dt 1 _ (by have : dt ≠ 0 := hdt.ne'; field_simp))
    (limMesh_bc_const 1) 1 1 one_pos (fun _ _ => le_refl _)
    (fun c hc => by
      rw [spatialApp_const _ limMesh_WF _ _ _ _ _ (Mesh.interior_of_mem_cells limMesh_WF hc),
        divergence_zero]
      norm_num)

/-- (c): `|1/(1+dt) − 0| ≤ (1/dt)·1/1` in every interior cell -/
example (D : FaceFld ℚ) (hD : ∀ d c, 0 ≤ D d c) (dt : ℚ) (hdt : 0 < dt) :
    ∀ c ∈ (limMesh : Mesh ℚ).cells, |1 / (1 + dt) - 0| ≤ 1 / dt * 1 / 1 :=
  model_dt_to_infty_bound limMesh limMesh_WF limMesh_lineA nfBC (fun _ => True) (nfBC_ok _) D
    (fun _ _ => 0) (fun _ => 1) (fun _ => 1) (fun _ => 1) dt hD (fun c _ => divergence_zero _ c)
    (fun _ _ => one_pos) hdt (fun _ => 1 / (1 + dt))
    (limMesh_const_solves D 1 dt 1 _ (by have : dt ≠ 0 := hdt.ne'; field_simp))
    (fun _ => 0) (limMesh_zero_steady D 1) 1 1 1 one_pos (fun _ _ => le_refl _)
    (fun _ _ => le_refl _) (fun _ _ => by norm_num)

/-- (a): `|1/(1+dt)| ≤ 1` in every interior cell -/
example (D : FaceFld ℚ) (hD : ∀ d c, 0 ≤ D d c) (dt : ℚ) (hdt : 0 < dt) :
    ∀ c ∈ (limMesh : Mesh ℚ).cells, |1 / (1 + dt)| ≤ 1 :=
  model_step_bounded limMesh limMesh_WF limMesh_lineA nfBC D (fun _ _ => 0) (fun _ => 1)
    (fun _ => 1) (fun _ => 1) dt 1 zero_le_one (nfBC_ok _) hD (fun c _ => divergence_zero _ c)
    (fun _ _ => zero_le_one) (fun _ _ => one_pos) hdt (fun _ => 1 / (1 + dt))
    (limMesh_const_solves D 1 dt 1 _ (by have : dt ≠ 0 := hdt.ne'; field_simp))
    (fun _ _ => by norm_num)

/-- the two limits on the model over ℝ: `1/(1+dt) → 1 = old` as `dt → 0+`, `→ 0 = xs` as
    `dt → ∞`, in the interior cell `(1,1,1)` -/
example (D : FaceFld ℝ) (hD : ∀ d c, 0 ≤ D d c) :
    Tendsto (fun dt : ℝ => 1 / (1 + dt)) (𝓝[>] 0) (𝓝 1) :=
  model_tendsto_dt_zero limMesh limMesh_WF limMesh_lineA nfBC (fun _ => True) (nfBC_ok _) D
    (fun _ _ => 0) (fun _ => 1) (fun _ => 1) (fun _ => 1) hD (fun c _ => divergence_zero _ c)
    (fun _ _ => zero_le_one) (fun _ _ => one_pos) (fun dt _ => 1 / (1 + dt))
    (fun dt hdt => limMesh_const_solves D 1 dt 1 _ (by have : dt ≠ 0 := hdt.ne'; field_simp))
    (limMesh_bc_const 1) (1, 1, 1) limMesh_mem_cells

example (D : FaceFld ℝ) (hD : ∀ d c, 0 ≤ D d c) :
    Tendsto (fun dt : ℝ => 1 / (1 + dt)) atTop (𝓝 0) :=
  model_tendsto_dt_infty limMesh limMesh_WF limMesh_lineA nfBC (fun _ => True) (nfBC_ok _) D
    (fun _ _ => 0) (fun _ => 1) (fun _ => 1) (fun _ => 1) hD (fun c _ => divergence_zero _ c)
    (fun _ _ => one_pos) 1 one_pos (fun _ _ => le_refl _) (fun dt _ => 1 / (1 + dt))
    (fun dt hdt => limMesh_const_solves D 1 dt 1 _ (by have : dt ≠ 0 := hdt.ne'; field_simp))
    (fun _ => 0) (limMesh_zero_steady D 1) (1, 1, 1) limMesh_mem_cells

end PyFV.C12Lim
