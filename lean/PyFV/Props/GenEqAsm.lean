/-
  PyFV.Props.GenEqAsm — the numerical payload of `solvePDE`, `solveExplicitPDE`, `solveMatrixPDE`, REGENERATED
  FROM THE PYTHON SOURCE by the translator T-asm (harness/translate/tasm.py → PyFV/Gen/AsmGen.lean, rewritten on
  every run), means what the model says (PyFV/Model/Solve.lean, BC.lean; C04, C12).

  `AsmGen` is a DESCRIPTION of the three function bodies (accumulator initialisation, the classification cascade
  of a term as the ordered list of paths through its if-tree, the accumulator updates with their operators and
  signs, the arguments of the solver call, the store, the update formula of the explicit step).
  `AsmEval` (PyFV/Lemmas/AsmEval.lean) evaluates that description on Python-level objects; the model's term
  objects are embedded by `pyOf` (matrices / vectors of term builders have entries in interior rows only;
  `phi._BCsTerm` = the rows of `bcRow`).  Below:

    1  scope: nothing untranslated; the recognised statement sequences and the (separately checked) state
       statements are exactly where they are expected;
    2  the cascade: order of tests and exceptions; every model term kind is accepted and contributes its row /
       its right-hand side with sign +; exactly those three shapes are accepted, everything else raises TypeError;
    3  the generated loop on any term list = `assembleOp` / `assembleRhs` in every cell (interior rows: `sumRow`,
       `sumRhs`; other rows: `bcRow` only); the accumulators are copies, so the cached boundary term is not
       written to;
    4  the solver receives exactly `(assembled operator, assembled right-hand side)` in this order, and the
       solver contract on that input is `Solves`;
    5  the store replaces the whole ghosted array by the solver result reshaped to `dims + 2` (the numbering of
       the unknowns), the same object `phi` is returned;
    6  `solveExplicitPDE`: the stored array is `old + dt·rhs` elementwise on the ghosted array (= `explicitStep`,
       hence C12 `explicit_step` on interior cells), it is a fresh array, no input is modified or assigned, the
       result is a new variable;
    7  `solveMatrixPDE`: the caller's `(M, RHS)` go to the solver in this order, the result is a new variable.

  A change of an operator, a sign, a test, the order of the branches, an argument, a dropped `.copy()`, a
  different reshape, ... in pdesolver.py changes the generated description and breaks the theorem named in
  DESIGN.md / the sensitivity table at build time; a construct T-asm does not understand removes the
  definitions (`AsmGen.untranslated`), which breaks this file as well.
-/
import PyFV.Gen.AsmGen
import PyFV.Lemmas.AsmEval
import PyFV.Props.C12
import Mathlib.Tactic.Ring

set_option linter.unusedSectionVars false
set_option linter.unusedSimpArgs false
set_option linter.unusedVariables false

namespace PyFV.GenEqAsm
open PyFV PyFV.Gen PyFV.Gen.AsmGen PyFV.AsmEval

variable {α : Type} [Field α] [LinearOrder α] [IsStrictOrderedRing α]

/-! ### 1. scope, statement sequences, state statements -/

/-- nothing in the scope of T-asm (3 functions, module level, 2 cross-module checks) was left untranslated -/
theorem untranslated_eq : AsmGen.untranslated = [] := rfl

/-- `phi._BCsTerm` is only ever assigned `boundaryConditionsTerm(self.BCs)`; `dims` is an ndarray -/
theorem cross_module_checks :
    AsmGen.cachedTermBuilder = "boundaryConditionsTerm(self.BCs)" ∧ AsmGen.meshDimsIsNdarray = true :=
  ⟨rfl, rfl⟩

/-- `solvePDE`: solver selection, refresh prologue, read of the cached term, the two accumulators, the loop, the
    solver call, the store, `apply_BCs`, return — nothing else, in this order -/
theorem solvePDE_sequence_eq :
    AsmGen.solvePDE_sequence
      = ["select_solver", "state:refresh_or_build_BCsTerm", "read_cached_term", "init_acc0", "init_acc1",
         "loop", "solve", "store", "state:apply_BCs", "return"] := rfl

/-- the two state statements of `solvePDE` (modelled by the state translator), verbatim -/
theorem solvePDE_stateStmts_eq :
    AsmGen.solvePDE_stateStmts
      = ["if not phi.BCsTerm_precalc:\n    phi.BCsTerm_precalc = True\n    phi.apply_BCs()\nelif phi._BCs_outdated():\n    phi.apply_BCs()",
         "phi.apply_BCs()"] := rfl

theorem explicit_sequence_eq :
    AsmGen.explicit_sequence
      = ["state:refresh_if_outdated", "read_old", "compute", "construct_result", "store", "state:apply_BCs",
         "return"] := rfl

theorem explicit_stateStmts_eq :
    AsmGen.explicit_stateStmts
      = ["if phi_old._BCs_outdated():\n    phi_old.apply_BCs()", "phi.apply_BCs()"] := rfl

theorem matrix_sequence_eq :
    AsmGen.matrix_sequence = ["select_solver", "solve", "construct_result", "return"] := rfl

/-- the default solver is scipy's `spsolve` with UMFPACK switched off; a given `externalsolver` replaces it -/
theorem solver_selection :
    AsmGen.solvePDE_solver = ⟨2, "scipy.sparse.linalg.spsolve"⟩
    ∧ AsmGen.solvePDE_params = [("phi", none), ("eqnterms", none), ("externalsolver", some "None")]
    ∧ AsmGen.matrix_solver = ⟨3, "scipy.sparse.linalg.spsolve"⟩
    ∧ AsmGen.matrix_params = [("m", none), ("M", none), ("RHS", none), ("externalsolver", some "None")]
    ∧ AsmGen.useUmfpack = some false :=
  ⟨rfl, rfl, rfl, rfl, rfl⟩

/-! ### 2. the classification cascade -/

/-- the order of the tests and the exceptions: tuple first (length, then `ndim` of the two components), then
    `ndim == 1` (right-hand side), then `ndim == 2` (matrix), otherwise `TypeError` -/
/- not a proof obligation (an `example`): it can only fail on rewrites that keep the accepted shapes and their
   contributions (`classify_*`, `reject_*`, `accepted_iff`, `genAssemble_eq` are the obligations) -/
example :
    AsmGen.solvePDE_loopPaths =
      [⟨[(.isTuple .term, true), (.lenEq .term 2, false)], .raise "TypeError"⟩,
       ⟨[(.isTuple .term, true), (.lenEq .term 2, true), (.ndimEq (.comp 0) 2, false)], .raise "TypeError"⟩,
       ⟨[(.isTuple .term, true), (.lenEq .term 2, true), (.ndimEq (.comp 0) 2, true),
         (.ndimEq (.comp 1) 1, false)], .raise "TypeError"⟩,
       ⟨[(.isTuple .term, true), (.lenEq .term 2, true), (.ndimEq (.comp 0) 2, true),
         (.ndimEq (.comp 1) 1, true)],
        .updates [⟨0, .iadd, false, .comp 0⟩, ⟨1, .iadd, false, .comp 1⟩]⟩,
       ⟨[(.isTuple .term, false), (.ndimEq .term 1, true)], .updates [⟨1, .iadd, false, .term⟩]⟩,
       ⟨[(.isTuple .term, false), (.ndimEq .term 1, false), (.ndimEq .term 2, true)],
        .updates [⟨0, .iadd, false, .term⟩]⟩,
       ⟨[(.isTuple .term, false), (.ndimEq .term 1, false), (.ndimEq .term 2, false)],
        .raise "TypeError"⟩] := rfl

/-- the loop runs over the parameter `eqnterms` -/
theorem loop_over_term_list : AsmGen.solvePDE_loopOver = 1 := rfl

/-- a matrix term is added to the matrix accumulator, sign + -/
theorem classify_mat (M : Mesh α) (A : CellFld α → Idx → α) (b : Idx → α) (r : Idx → St7 α) :
    genStep solvePDE_loopPaths (.mat A, .vec b) (pyOf M (.mat r))
      = .ok (.mat (fun x c => A x c + rowOp M r x c), .vec b) := rfl

/-- a vector term is added to the right-hand-side accumulator, sign + -/
theorem classify_vec (M : Mesh α) (A : CellFld α → Idx → α) (b : Idx → α) (v : Idx → α) :
    genStep solvePDE_loopPaths (.mat A, .vec b) (pyOf M (.vec v))
      = .ok (.mat A, .vec (fun c => b c + vecG M v c)) := rfl

/-- a pair contributes to both -/
theorem classify_pair (M : Mesh α) (A : CellFld α → Idx → α) (b : Idx → α) (r : Idx → St7 α)
    (v : Idx → α) :
    genStep solvePDE_loopPaths (.mat A, .vec b) (pyOf M (.pair r v))
      = .ok (.mat (fun x c => A x c + rowOp M r x c), .vec (fun c => b c + vecG M v c)) := rfl

/-- **the classification table is the model's**: for every term object the generated loop body adds
    `TermObj.row` to the matrix and `TermObj.rhs` to the right-hand side (interior rows only) -/
theorem classify_step (M : Mesh α) (A : CellFld α → Idx → α) (b : Idx → α) (t : TermObj α) :
    genStep solvePDE_loopPaths (.mat A, .vec b) (pyOf M t)
      = .ok (.mat (fun x c => A x c + termOp M t x c), .vec (fun c => b c + termVec M t c)) := by
  cases t with
  | mat r =>
    rw [classify_mat]
    have e : b = fun c => b c + termVec M (.mat r) c := by
      funext c; simp [termVec, TermObj.rhs]
    rw [← e]; rfl
  | vec v =>
    rw [classify_vec]
    have e : A = fun x c => A x c + termOp M (.vec v) x c := by
      funext x c; simp [termOp, TermObj.row, St7.zero_app]
    rw [← e]; rfl
  | pair r v => rw [classify_pair]; rfl

/-- a tuple whose length is not 2 raises `TypeError` -/
theorem reject_tuple_len (s : Accs α) (n : Nat) (hn : n ≠ 2) :
    genStep solvePDE_loopPaths s (.tupleLen n) = .error "TypeError" := by
  have h : (some n == some 2) = false := by simp [hn]
  simp [genStep, selectPath, solvePDE_loopPaths, guardsHold, evalTest, Obj.get, Obj.isTuple, Obj.len, h]

/-- a pair whose first component is not a matrix or whose second is not a vector raises `TypeError` -/
theorem reject_pair_ndim (s : Accs α) (a b : Obj α) (h : a.ndim ≠ some 2 ∨ b.ndim ≠ some 1) :
    genStep solvePDE_loopPaths s (.pair a b) = .error "TypeError" := by
  cases a <;> cases b <;>
    simp_all [genStep, selectPath, solvePDE_loopPaths, guardsHold, evalTest, Obj.get, Obj.isTuple, Obj.len,
      Obj.ndim]

/-- anything that is neither a tuple nor has `ndim` 1 or 2 raises `TypeError` -/
theorem reject_other (s : Accs α) : genStep solvePDE_loopPaths s (.other : Obj α) = .error "TypeError" := rfl

/-- **exactly the three shapes of `TermObj` are accepted** -/
theorem accepted_iff (A : CellFld α → Idx → α) (b : Idx → α) (o : Obj α) :
    (∃ s', genStep solvePDE_loopPaths (.mat A, .vec b) o = .ok s')
      ↔ ((∃ B, o = .mat B) ∨ (∃ v, o = .vec v) ∨ (∃ B v, o = .pair (.mat B) (.vec v))) := by
  constructor
  · rintro ⟨s', h⟩
    cases o with
    | mat B => exact Or.inl ⟨B, rfl⟩
    | vec v => exact Or.inr (Or.inl ⟨v, rfl⟩)
    | pair a c =>
      by_cases hh : a.ndim ≠ some 2 ∨ c.ndim ≠ some 1
      · rw [reject_pair_ndim _ a c hh] at h; cases h
      · cases a <;> cases c <;> simp [Obj.ndim] at hh
        exact Or.inr (Or.inr ⟨_, _, rfl⟩)
    | tupleLen n =>
      by_cases hn : n = 2
      · subst hn
        simp [genStep, selectPath, solvePDE_loopPaths, guardsHold, evalTest, Obj.get, Obj.isTuple, Obj.len,
          Obj.ndim, applyUpds, applyUpd] at h
      · rw [reject_tuple_len _ n hn] at h; cases h
    | other => rw [reject_other] at h; cases h
  · rintro (⟨B, rfl⟩ | ⟨v, rfl⟩ | ⟨B, v, rfl⟩)
    · exact ⟨_, rfl⟩
    · exact ⟨_, rfl⟩
    · exact ⟨_, rfl⟩

/-! ### 3. the generated loop = the assembled system of the model -/

/-- the accumulators start from components 0 and 1 of the cached boundary term, both as COPIES -/
theorem acc_init_eq :
    AsmGen.solvePDE_cachedArity = 2
    ∧ AsmGen.solvePDE_accInit0 = ⟨0, true⟩ ∧ AsmGen.solvePDE_accInit1 = ⟨1, true⟩ := ⟨rfl, rfl, rfl⟩

/-- no in-place update reaches the cached boundary term `phi._BCsTerm` -/
theorem cached_term_protected : cachedTermProtected = true := by decide

/-- the loop on any term list: the accumulators grow by the interior-only contributions of the terms -/
theorem genLoop_eq (M : Mesh α) (ts : List (TermObj α)) (A : CellFld α → Idx → α) (b : Idx → α) :
    genLoop solvePDE_loopPaths (.mat A, .vec b) (ts.map (pyOf M))
      = .ok (.mat (ts.foldl (fun (B : CellFld α → Idx → α) t => fun x c => B x c + termOp M t x c) A),
             .vec (ts.foldl (fun (b : Idx → α) t => fun c => b c + termVec M t c) b)) := by
  induction ts generalizing A b with
  | nil => rfl
  | cons t ts ih =>
    simp only [List.map_cons, genLoop, classify_step, List.foldl_cons]
    exact ih _ _

/-- **assembled system**: for every term list the generated assembly raises nothing and yields the operator
    `assembleOp` and the right-hand side `assembleRhs` of the model -/
theorem genAssemble_eq (M : Mesh α) (bc : BCs α) (ts : List (TermObj α)) :
    genAssemble M bc ts = .ok (.mat (assembleOp M bc ts), .vec (assembleRhs M bc ts)) := by
  have hA : (ts.foldl (fun (B : CellFld α → Idx → α) t => fun x c => B x c + termOp M t x c)
      (fun x c => (bcRow M bc c).app x)) = assembleOp M bc ts := by
    funext x c; rw [foldl_termOp, bc_plus_terms_op]
  have hb : (ts.foldl (fun (b : Idx → α) t => fun c => b c + termVec M t c)
      (fun c => (bcRow M bc c).rhs)) = assembleRhs M bc ts := by
    funext c; rw [foldl_termVec, bc_plus_terms_rhs]
  show genLoop solvePDE_loopPaths (.mat (fun x c => (bcRow M bc c).app x), .vec (fun c => (bcRow M bc c).rhs))
      (ts.map (pyOf M)) = _
  rw [genLoop_eq, hA, hb]

theorem genAssembleRow_eq_assembleOp (M : Mesh α) (bc : BCs α) (ts : List (TermObj α)) (x : CellFld α)
    (c : Idx) : genAssembleRow M bc ts x c = assembleOp M bc ts x c := by
  simp only [genAssembleRow, genAssemble_eq]

theorem genAssembleRhs_eq_assembleRhs (M : Mesh α) (bc : BCs α) (ts : List (TermObj α)) (c : Idx) :
    genAssembleRhs M bc ts c = assembleRhs M bc ts c := by
  simp only [genAssembleRhs, genAssemble_eq]

/-- interior rows come from the terms only: the summed rows of the term list -/
theorem genAssembleRow_interior (M : Mesh α) (bc : BCs α) (ts : List (TermObj α)) (x : CellFld α)
    (c : Idx) (h : M.outCount c = 0) : genAssembleRow M bc ts x c = (sumRow ts c).app x c := by
  rw [genAssembleRow_eq_assembleOp, assembleOp_interior M bc ts x c h]

theorem genAssembleRhs_interior (M : Mesh α) (bc : BCs α) (ts : List (TermObj α)) (c : Idx)
    (h : M.outCount c = 0) : genAssembleRhs M bc ts c = sumRhs ts c := by
  rw [genAssembleRhs_eq_assembleRhs, assembleRhs_interior M bc ts c h]

/-- ghost rows come from the boundary term only -/
theorem genAssembleRow_ghost (M : Mesh α) (bc : BCs α) (ts : List (TermObj α)) (x : CellFld α)
    (c : Idx) (h : M.outCount c ≠ 0) : genAssembleRow M bc ts x c = (bcRow M bc c).app x := by
  rw [genAssembleRow_eq_assembleOp, assembleOp_ghost M bc ts x c h]

theorem genAssembleRhs_ghost (M : Mesh α) (bc : BCs α) (ts : List (TermObj α)) (c : Idx)
    (h : M.outCount c ≠ 0) : genAssembleRhs M bc ts c = (bcRow M bc c).rhs := by
  rw [genAssembleRhs_eq_assembleRhs, assembleRhs_ghost M bc ts c h]

/-! ### 4. the solver call -/

/-- `solver(M, RHS)`: matrix accumulator first, right-hand-side accumulator second, no sign change -/
theorem solver_args_eq : AsmGen.solvePDE_solverArgs = [⟨.acc 0, false⟩, ⟨.acc 1, false⟩] := rfl

/-- **the system handed to the solver** is exactly (assembled operator, assembled right-hand side), in this order -/
theorem solver_input_eq (M : Mesh α) (bc : BCs α) (ts : List (TermObj α)) :
    genSolverInput M bc ts = some [.mat (assembleOp M bc ts), .vec (assembleRhs M bc ts)] := by
  simp only [genSolverInput, genAssemble_eq]
  rfl

/-- the solver contract on that input is the model's `Solves` -/
theorem solver_contract (M : Mesh α) (bc : BCs α) (ts : List (TermObj α)) (x : CellFld α) :
    ∃ args, genSolverInput M bc ts = some args ∧ (IsSolution M args x ↔ Solves M bc ts x) :=
  ⟨_, solver_input_eq M bc ts, Iff.rfl⟩

/-! ### 5. the store and the returned object -/

/-- `phi._value = TrackedArray(np.reshape(<solver result>, ...))`: the attribute of the INPUT variable is rebound
    to a whole new array (no slice assignment) -/
theorem store_eq :
    AsmGen.solvePDE_store = ⟨.param 0, "_value", "TrackedArray", .reshapedSolverResult⟩ := rfl

/-- the solver result is reshaped to the ghosted shape `dims + 2` -/
theorem store_shape (dims : List Nat) : AsmGen.solvePDE_storeShape dims = dims.map (· + 2) := rfl

/-- hence the value stored at the cell with multi-index `idx` is the unknown number `cellNumber dims idx`
    (C order over the ghosted shape — the numbering the matrix rows use) of the solver result -/
theorem stored_cell_is_unknown (dims idx : List Nat) :
    flatPos (AsmGen.solvePDE_storeShape dims) idx = cellNumber dims idx := rfl

/-- `solvePDE` returns its first argument, the same object -/
theorem solvePDE_returns_input : AsmGen.solvePDE_return = .param 0 := rfl

/-! ### 6. `solveExplicitPDE` -/

/-- the generated update formula is the model's explicit step, on every cell of the ghosted array -/
theorem explicitUpdate_eq_step (old RHS : CellFld α) (dt : α) (c : Idx) :
    AsmGen.explicitUpdate (old c) (RHS c) dt = explicitStep old dt RHS c := by
  unfold AsmGen.explicitUpdate explicitStep
  ring

/-- interior cells of the returned variable: C12 `explicit_step` -/
theorem explicit_interior (M : Mesh α) (bc : BCs α) (old : CellFld α) (dt : α) (RHS : CellFld α)
    (c : Idx) (h0 : M.outCount c = 0) :
    explicitPDE M bc old dt RHS c = some (AsmGen.explicitUpdate (old c) (RHS c) dt) := by
  rw [C12.explicit_step M bc old dt RHS c h0, explicitUpdate_eq_step]; rfl

/-- the whole returned array: `apply_BCs` on the generated update -/
theorem explicit_returned_array (M : Mesh α) (bc : BCs α) (old : CellFld α) (dt : α) (RHS : CellFld α) :
    explicitPDE M bc old dt RHS
      = withGhosts M bc (fun c => AsmGen.explicitUpdate (old c) (RHS c) dt) := by
  funext c
  have e : (fun c => AsmGen.explicitUpdate (old c) (RHS c) dt) = explicitStep old dt RHS := by
    funext c; exact explicitUpdate_eq_step old RHS dt c
  rw [e]; rfl

/-- the stored array is new memory; neither `RHS` nor `phi_old._value` is written to (no in-place operation
    on a view of an input) -/
theorem explicit_inputs_unmodified :
    AsmGen.explicit_storedFresh = true ∧ AsmGen.explicit_mutatedInputs = [] := ⟨rfl, rfl⟩

/-- no attribute of the input variable is assigned -/
theorem explicit_input_not_assigned : AsmGen.explicit_assignedInputAttrs = [] := rfl

/-- the result is a NEW variable on the same mesh, sharing the boundary-conditions object of the input,
    constructed with `BCsTerm_precalc = False`; the computed array is stored into it and it is returned -/
theorem explicit_result_new :
    AsmGen.explicit_result = some ⟨"0.0", "input", false, [("BCsTerm_precalc", "False")]⟩
    ∧ AsmGen.explicit_store = ⟨.newVar, "_value", "TrackedArray", .computed⟩
    ∧ AsmGen.explicit_return = .newVar
    ∧ AsmGen.explicit_params = ["phi_old", "dt", "RHS"] := ⟨rfl, rfl, rfl, rfl⟩

/-! ### 7. `solveMatrixPDE` -/

/-- `solver(M, RHS)` with the caller's matrix and right-hand side, in this order, unchanged -/
theorem matrix_solver_args : AsmGen.matrix_solverArgs = [⟨.param 1, false⟩, ⟨.param 2, false⟩] := rfl

/-- the result is a new variable on the mesh argument holding the solver result reshaped to `dims + 2` -/
theorem matrix_result_new (dims idx : List Nat) :
    AsmGen.matrix_store = ⟨.newVar, "<constructor value>", "", .reshapedSolverResult⟩
    ∧ AsmGen.matrix_return = .newVar
    ∧ AsmGen.matrix_storeShape dims = dims.map (· + 2)
    ∧ flatPos (AsmGen.matrix_storeShape dims) idx = cellNumber dims idx := ⟨rfl, rfl, rfl, rfl⟩

/-- handing the assembled system of `solvePDE` to `solveMatrixPDE` poses the same problem (C04 §7) -/
theorem matrix_same_system (M : Mesh α) (bc : BCs α) (ts : List (TermObj α)) (x : CellFld α) :
    IsSolution M [.mat (assembleOp M bc ts), .vec (assembleRhs M bc ts)] x ↔ Solves M bc ts x :=
  (C04.solveMatrixPDE_same M bc ts x).symm

/-! ### 8. non-vacuity -/

/-- the generated assembly on the 3-cell Dirichlet example `[linearSourceTerm(2), constantSourceTerm(4)]`:
    interior row `2·x`, right-hand side 4; right ghost row `x_ghost/2 + x_cell/2 = 3` -/
example :
    genAssembleRow (Examples.mesh .cart1) (AsmEx.bc 1 3) AsmEx.terms AsmEx.sol (2,1,1) = 4
    ∧ genAssembleRhs (Examples.mesh .cart1) (AsmEx.bc 1 3) AsmEx.terms (2,1,1) = 4
    ∧ genAssembleRow (Examples.mesh .cart1) (AsmEx.bc 1 3) AsmEx.terms AsmEx.sol (4,1,1) = 3
    ∧ genAssembleRhs (Examples.mesh .cart1) (AsmEx.bc 1 3) AsmEx.terms (4,1,1) = 3 := by
  simp only [genAssembleRow_eq_assembleOp, genAssembleRhs_eq_assembleRhs]
  decide +kernel

/-- the example solution satisfies the solver contract on the generated solver input -/
example : ∃ args, genSolverInput (Examples.mesh .cart1) (AsmEx.bc 1 3) AsmEx.terms = some args
    ∧ IsSolution (Examples.mesh .cart1) args AsmEx.sol :=
  ⟨_, solver_input_eq _ _ _, C04.ex_solves⟩

/-- a 3-tuple and a pair (vector, matrix) in the wrong order are rejected; a pair (matrix, vector) is accepted -/
example (A : CellFld ℚ → Idx → ℚ) (b : Idx → ℚ) :
    genStep solvePDE_loopPaths (.mat A, .vec b) (.tupleLen 3) = .error "TypeError"
    ∧ genStep solvePDE_loopPaths (.mat A, .vec b) (.pair (.vec b) (.mat A)) = .error "TypeError"
    ∧ ∃ s', genStep solvePDE_loopPaths (.mat A, .vec b) (.pair (.mat A) (.vec b)) = .ok s' :=
  ⟨reject_tuple_len _ 3 (by decide), reject_pair_ndim _ _ _ (Or.inl (by simp [Obj.ndim])),
    (accepted_iff A b _).2 (Or.inr (Or.inr ⟨A, b, rfl⟩))⟩

/-- C-order positions on a 2-D grid with `dims = [3, 4]` (ghosted shape 5 × 6): cell (2, 3) is unknown 15 -/
example : flatPos (AsmGen.solvePDE_storeShape [3, 4]) [2, 3] = 15 ∧ cellNumber [3, 4] [2, 3] = 15 := by
  decide

/-- explicit step on the example (old = 2 in cell 3, dt = 1/2, RHS = 4): 2 + (1/2)·4 = 4 -/
example : AsmGen.explicitUpdate (AsmEx.sol (3,1,1)) (4 : ℚ) (1/2) = 4
    ∧ explicitPDE (Examples.mesh .cart1) (AsmEx.bc 1 3) AsmEx.sol (1/2) (fun _ => 4) (3,1,1)
        = some (AsmGen.explicitUpdate (AsmEx.sol (3,1,1)) 4 (1/2)) := by
  refine ⟨by decide +kernel, ?_⟩
  exact explicit_interior _ _ _ _ (fun _ => 4) (3,1,1) (by decide +kernel)

end PyFV.GenEqAsm
