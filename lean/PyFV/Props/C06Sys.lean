/-
  Property C06, whole-system form — "a uniform field with matching boundary values in a
  discretely divergence-free flow is a steady state of `solvePDE` for every time step, and the
  linear and constant source terms act cell-locally".

  `Props/C06.lean` proves the per-row facts (diffusion of a constant is zero, advection of a
  constant is `k · div u`, the TVD correction of a constant is zero, `β φ = γ` is cell-local).
  Here the consequences for the linear system `solvePDE` assembles (`Solves`):

  1  `uniformField`                     the ghosted uniform array (`k`; `0` in edge/corner cells)
  2  `uniform_satisfies_bc_rows`        boundary rows hold iff periodic or `b·k = c`
  3  `uniform_solves_steady`            the uniform field solves the steady system
     `uniform_solves_any_steady_list`   … for every list of terms of the C06 family
     `uniform_solves_iff`               … exact characterisation for arbitrary term lists
  4  `uniform_is_fixed_point_of_step`   … and the backward-Euler system of every time step
  5  `uniform_is_the_solution`          under the hypotheses of the C07 maximum principle every
                                        solution of the step equals `k` in all interior cells
     `uniform_stays_uniform`            … for any number of steps
  6  `sources_alone_solve_cellwise`     `[linearSourceTerm β, constantSourceTerm γ]` ⇔ `x = γ/β`
  7  non-vacuity examples on `Examples.mesh k` (all nine grid classes)
  8  `uniform_not_solution_if_bc_mismatch`   the matching hypothesis cannot be dropped
-/
import PyFV.Lemmas.C06SysLemmas
import PyFV.Props.C07
import PyFV.Props.C12

set_option linter.unusedSectionVars false

namespace PyFV.C06Sys
open PyFV

variable {α : Type} [Field α] [LinearOrder α] [IsStrictOrderedRing α]

/-! ### 1. the ghosted uniform field -/

/-- `uniformField M k` is `k` on interior and face-ghost cells and `0` on edge / corner cells -/
theorem uniformField_spec (M : Mesh α) (k : α) (c : Idx) :
    (M.outCount c ≤ 1 → uniformField M k c = k) ∧ (2 ≤ M.outCount c → uniformField M k c = 0) :=
  ⟨uniformField_of_le, uniformField_of_ge⟩

/-- every unknown that carries a PDE row has the value `k` -/
theorem uniformField_cells (M : Mesh α) (k : α) (c : Idx) (hc : c ∈ M.cells) :
    uniformField M k c = k :=
  uniformField_of_le (by rw [(Mesh.cell_facts hc).2]; exact Nat.zero_le 1)

/-- an interior row cannot tell the uniform field from the constant function -/
theorem interior_row_sees_constant (M : Mesh α) (k : α) (R : St7 α) (c : Idx)
    (h0 : M.outCount c = 0) : R.app (uniformField M k) c = R.app (fun _ => k) c :=
  St7_app_uniform M k R c h0

/-- **It is the array the code builds.**  `cellValuesWithBoundaries` (`withGhosts`) applied to the
    constant interior values `k` returns the uniform field, provided that on every non-periodic
    face the data match (`b·k = c`) and the ghost coefficient the code divides by is non-zero:
    interior cells `k`, ghosts of periodic axes `k` (wrapped), Robin ghosts
    `(c − k·cellCoef)/ghostCoef = k`, edge / corner cells `0`. -/
theorem uniformField_is_withGhosts (M : Mesh α) (bc : BCs α) (k : α) (g : Idx)
    (hlo : M.outCount g = 1 → bc.periodicDir (M.outDir g) = false → g.get (M.outDir g) = 0 →
      (bc.lo (M.outDir g)).b (g.set (M.outDir g) 1) * k
        = (bc.lo (M.outDir g)).c (g.set (M.outDir g) 1)
      ∧ loGhostCoef M bc (M.outDir g) (g.set (M.outDir g) 1) ≠ 0)
    (hhi : M.outCount g = 1 → bc.periodicDir (M.outDir g) = false → g.get (M.outDir g) ≠ 0 →
      (bc.hi (M.outDir g)).b (g.set (M.outDir g) (M.n (M.outDir g))) * k
        = (bc.hi (M.outDir g)).c (g.set (M.outDir g) (M.n (M.outDir g)))
      ∧ hiGhostCoef M bc (M.outDir g) (g.set (M.outDir g) (M.n (M.outDir g))) ≠ 0) :
    withGhosts M bc (fun _ => k) g = some (uniformField M k g) := by
  unfold withGhosts
  split
  · rename_i h0
    rw [uniformField_of_le (by omega)]
  · rename_i h1
    rw [uniformField_of_le (by omega)]
    by_cases hper : bc.periodicDir (M.outDir g) = true
    · simp only [ghostLo, ghostHi, hper, if_true, ite_self]
    · have hper' : bc.periodicDir (M.outDir g) = false := by simpa using hper
      by_cases h0 : g.get (M.outDir g) = 0
      · obtain ⟨hm, hnz⟩ := hlo h1 hper' h0
        simp only [h0, if_true, ghostLo, hper', Bool.false_eq_true, if_false, sdiv, if_neg hnz]
        congr 1
        rw [div_eq_iff hnz]
        unfold loCellCoef loGhostCoef
        linear_combination (-1 : α) * hm
      · obtain ⟨hm, hnz⟩ := hhi h1 hper' h0
        simp only [h0, if_false, ghostHi, hper', Bool.false_eq_true, sdiv, if_neg hnz]
        congr 1
        rw [div_eq_iff hnz]
        unfold hiCellCoef hiGhostCoef
        linear_combination (-1 : α) * hm
  · rename_i h0 h1
    have a0 : M.outCount g ≠ 0 := h0
    have a1 : M.outCount g ≠ 1 := h1
    rw [uniformField_of_ge (by omega)]

/-! ### 2. the boundary rows -/

/-- **Face-ghost rows.**  `g` a face-ghost cell, `d` its out-direction.  If the axis `d` is not
    periodic and the Robin data of the face owned by `g` satisfy `b · k = c` (Dirichlet value `k`;
    no-flux `b = 0, c = 0`; any Robin data consistent with the constant), the boundary row of `g`
    holds for the uniform field; along a periodic axis it holds unconditionally.  No hypothesis
    on the mesh (spacings, metric) is needed. -/
theorem uniform_satisfies_bc_rows (M : Mesh α) (bc : BCs α) (k : α) (g : Idx)
    (h1 : M.outCount g = 1)
    (hlo : bc.periodicDir (M.outDir g) = false → g.get (M.outDir g) = 0 →
      (bc.lo (M.outDir g)).b (g.set (M.outDir g) 1) * k
        = (bc.lo (M.outDir g)).c (g.set (M.outDir g) 1))
    (hhi : bc.periodicDir (M.outDir g) = false → g.get (M.outDir g) ≠ 0 →
      (bc.hi (M.outDir g)).b (g.set (M.outDir g) (M.n (M.outDir g))) * k
        = (bc.hi (M.outDir g)).c (g.set (M.outDir g) (M.n (M.outDir g)))) :
    (bcRow M bc g).app (uniformField M k) = (bcRow M bc g).rhs := by
  refine (bcRow_uniform_face_iff M bc k g h1).2 ?_
  by_cases hper : bc.periodicDir (M.outDir g) = true
  · exact Or.inl hper
  · have hper' : bc.periodicDir (M.outDir g) = false := by simpa using hper
    refine Or.inr ?_
    unfold faceMatch
    split_ifs with h0
    · exact hlo hper' h0
    · exact hhi hper' h0

/-- … and the hypothesis is exactly what is needed: the row holds **iff** the axis is periodic or
    `b · k = c` on that face -/
theorem uniform_bc_row_iff (M : Mesh α) (bc : BCs α) (k : α) (g : Idx) (h1 : M.outCount g = 1) :
    (bcRow M bc g).app (uniformField M k) = (bcRow M bc g).rhs
      ↔ (bc.periodicDir (M.outDir g) = true ∨
          (if g.get (M.outDir g) = 0 then
            (bc.lo (M.outDir g)).b (g.set (M.outDir g) 1) * k
              = (bc.lo (M.outDir g)).c (g.set (M.outDir g) 1)
          else
            (bc.hi (M.outDir g)).b (g.set (M.outDir g) (M.n (M.outDir g))) * k
              = (bc.hi (M.outDir g)).c (g.set (M.outDir g) (M.n (M.outDir g))))) :=
  bcRow_uniform_face_iff M bc k g h1

/-- periodic rows hold for the uniform field whatever the data `a, b, c` -/
theorem uniform_satisfies_periodic_rows (M : Mesh α) (bc : BCs α) (k : α) (g : Idx)
    (h1 : M.outCount g = 1) (hper : bc.periodicDir (M.outDir g) = true) :
    (bcRow M bc g).app (uniformField M k) = (bcRow M bc g).rhs :=
  (bcRow_uniform_face_iff M bc k g h1).2 (Or.inl hper)

/-- the decoupled edge / corner rows `cornerScale · x = 0` hold by construction -/
theorem uniform_satisfies_corner_rows (M : Mesh α) (bc : BCs α) (k : α) (g : Idx)
    (h2 : 2 ≤ M.outCount g) :
    (bcRow M bc g).app (uniformField M k) = (bcRow M bc g).rhs :=
  bcRow_uniform_corner M bc k g h2

/-- the three standard ways of matching: Dirichlet value `k`, no-flux, consistent Robin data -/
theorem matching_values (b c k : α) :
    (b = 1 ∧ c = k → b * k = c) ∧ (b = 0 ∧ c = 0 → b * k = c) ∧ (c = b * k → b * k = c) := by
  refine ⟨?_, ?_, fun h => h.symm⟩
  · rintro ⟨rfl, rfl⟩; exact one_mul _
  · rintro ⟨rfl, rfl⟩; exact zero_mul _

/-- all boundary rows of the ghosted box at once: matching data (`MatchesBC`: `b·k = c` on every
    non-periodic boundary face) make every non-interior row hold -/
theorem uniform_satisfies_all_boundary_rows (M : Mesh α) (bc : BCs α) (k : α)
    (hbc : MatchesBC M bc k) (g : Idx) (hb : M.inBox g) (hg : M.outCount g ≠ 0) :
    (bcRow M bc g).app (uniformField M k) = (bcRow M bc g).rhs := by
  by_cases h1 : M.outCount g = 1
  · refine (bcRow_uniform_face_iff M bc k g h1).2 ?_
    by_cases hper : bc.periodicDir (M.outDir g) = true
    · exact Or.inl hper
    · exact Or.inr (hbc g hb h1 (by simpa using hper))
  · exact bcRow_uniform_corner M bc k g (by omega)

/-- face-wise form of the matching hypothesis -/
theorem matchesBC_of_face_data (M : Mesh α) (bc : BCs α) (k : α)
    (h : ∀ d, M.kind.active d = true → bc.periodicDir d = false →
      ∀ c, (bc.lo d).b c * k = (bc.lo d).c c ∧ (bc.hi d).b c * k = (bc.hi d).c c) :
    MatchesBC M bc k :=
  matchesBC_of_faces M bc k h

/-- periodic / Dirichlet-with-value-`k` / no-flux boundaries (the classes of C07) match -/
theorem matchesBC_of_dirichlet_noflux_periodic (M : Mesh α) (bc : BCs α) (k : α)
    (h : BCsOK M bc (fun v => v = k)) : MatchesBC M bc k :=
  matchesBC_of_BCsOK M bc k h

/-! ### 3. the steady system -/

/-- **Exact characterisation** for an arbitrary term list: the uniform field solves the assembled
    system iff every interior row balances on it and the boundary data match. -/
theorem uniform_solves_iff (M : Mesh α) (bc : BCs α) (ts : List (TermObj α)) (k : α) :
    Solves M bc ts (uniformField M k) ↔
      (∀ c ∈ M.cells, (sumRow ts c).app (uniformField M k) c = sumRhs ts c) ∧ MatchesBC M bc k :=
  solves_uniform_iff M bc ts k

/-- **Any list of terms of the C06 family** (`SteadyTerm`: `diffusionTerm(D)`,
    `convectionTerm(u)` / `convectionUpwindTerm(u, uUp)` with `div u = 0`, the TVD right-hand side
    of a uniform iterate, `transientTerm` with uniform old values, `linearSourceTerm(β)` with
    `β·k = 0`, and all scalar multiples `a·term`, `-term` of these — in any order, any number of
    times, any sublist): the uniform field solves the assembled system. -/
theorem uniform_solves_any_steady_list (M : Mesh α) (hM : M.WF) (bc : BCs α) (k : α)
    (ts : List (TermObj α)) (hts : ∀ t ∈ ts, SteadyTerm M k t) (hbc : MatchesBC M bc k) :
    Solves M bc ts (uniformField M k) :=
  solves_of_balanced M bc ts k (fun t ht => (hts t ht).balanced hM) hbc

/-- **The steady system.**  `[-diffusionTerm(D), convectionTerm(u), convectionUpwindTerm(u', uUp),
    convectionTvdRHSTerm(w, wUp, FL)]` (the last one evaluated at the uniform iterate) with
    matching boundary data and discretely divergence-free `u`, `u'`: the uniform field solves the
    assembled system — every grid class, any cell counts, any spacing, any velocity signs, any
    limiter, any TVD velocity. -/
theorem uniform_solves_steady (M : Mesh α) (hM : M.WF) (bc : BCs α) (D u u' uUp w wUp : FaceFld α)
    (hU : UpOK u' uUp) (FL : α → α) (e k : α) (hbc : MatchesBC M bc k)
    (hdiv : ∀ c ∈ M.cells, divergence M u c = 0) (hdiv' : ∀ c ∈ M.cells, divergence M u' c = 0) :
    Solves M bc
      [ TermObj.smul (-1) (.mat (diffusionRow M D)),
        .mat (convectionRow M u),
        .mat (upwindRow M u' uUp),
        .vec (tvdRHS M w wUp FL e (uniformField M k)) ]
      (uniformField M k) := by
  refine uniform_solves_any_steady_list M hM bc k _ (fun t ht => ?_) hbc
  simp only [List.mem_cons, List.not_mem_nil, or_false] at ht
  rcases ht with rfl | rfl | rfl | rfl
  · exact .smul _ _ (.diffusion D)
  · exact .convection u hdiv
  · exact .upwind u' uUp hU hdiv'
  · exact .tvd w wUp FL e _ (fun c' hc' => uniformField_of_le hc')

/-- … and so does it solve the system of every sublist of these terms -/
theorem uniform_solves_steady_sublist (M : Mesh α) (hM : M.WF) (bc : BCs α)
    (D u u' uUp w wUp : FaceFld α) (hU : UpOK u' uUp) (FL : α → α) (e k : α)
    (hbc : MatchesBC M bc k)
    (hdiv : ∀ c ∈ M.cells, divergence M u c = 0) (hdiv' : ∀ c ∈ M.cells, divergence M u' c = 0)
    (l : List (TermObj α))
    (hl : l.Sublist
      [ TermObj.smul (-1) (.mat (diffusionRow M D)),
        .mat (convectionRow M u),
        .mat (upwindRow M u' uUp),
        .vec (tvdRHS M w wUp FL e (uniformField M k)) ]) :
    Solves M bc l (uniformField M k) := by
  refine uniform_solves_any_steady_list M hM bc k _ (fun t ht => ?_) hbc
  have ht' := hl.subset ht
  simp only [List.mem_cons, List.not_mem_nil, or_false] at ht'
  rcases ht' with rfl | rfl | rfl | rfl
  · exact .smul _ _ (.diffusion D)
  · exact .convection u hdiv
  · exact .upwind u' uUp hU hdiv'
  · exact .tvd w wUp FL e _ (fun c' hc' => uniformField_of_le hc')

/-- the default upwind direction `uUp = u'` -/
theorem uniform_solves_steady_default (M : Mesh α) (hM : M.WF) (bc : BCs α) (D u u' : FaceFld α)
    (FL : α → α) (e k : α) (hbc : MatchesBC M bc k)
    (hdiv : ∀ c ∈ M.cells, divergence M u c = 0) (hdiv' : ∀ c ∈ M.cells, divergence M u' c = 0) :
    Solves M bc
      [ TermObj.smul (-1) (.mat (diffusionRow M D)),
        .mat (convectionRow M u),
        .mat (upwindRow M u' u'),
        .vec (tvdRHS M u' u' FL e (uniformField M k)) ]
      (uniformField M k) :=
  uniform_solves_steady M hM bc D u u' u' u' u' (upOK_self u') FL e k hbc hdiv hdiv'

/-! ### 4. every time step -/

/-- **Fixed point of the step.**  With `transientTerm(old, dt, alpha)` added, the old interior
    values being `k`: the uniform field solves the backward-Euler system — for every `dt`
    (`dt ≠ 0` is not even needed in the model: both sides carry the same `1/dt`) and every
    `alpha`. -/
theorem uniform_is_fixed_point_of_step (M : Mesh α) (hM : M.WF) (bc : BCs α)
    (D u u' uUp w wUp : FaceFld α) (hU : UpOK u' uUp) (FL : α → α) (e k : α)
    (old alpha : CellFld α) (dt : α) (hold : ∀ c ∈ M.cells, old c = k) (hbc : MatchesBC M bc k)
    (hdiv : ∀ c ∈ M.cells, divergence M u c = 0) (hdiv' : ∀ c ∈ M.cells, divergence M u' c = 0) :
    Solves M bc
      [ transientObj old dt alpha,
        TermObj.smul (-1) (.mat (diffusionRow M D)),
        .mat (convectionRow M u),
        .mat (upwindRow M u' uUp),
        .vec (tvdRHS M w wUp FL e (uniformField M k)) ]
      (uniformField M k) := by
  refine uniform_solves_any_steady_list M hM bc k _ (fun t ht => ?_) hbc
  simp only [List.mem_cons, List.not_mem_nil, or_false] at ht
  rcases ht with rfl | rfl | rfl | rfl | rfl
  · exact .transient old dt alpha hold
  · exact .smul _ _ (.diffusion D)
  · exact .convection u hdiv
  · exact .upwind u' uUp hU hdiv'
  · exact .tvd w wUp FL e _ (fun c' hc' => uniformField_of_le hc')

/-- the same with `old` the ghosted uniform array itself, a whole sequence of time steps and
    transient coefficients: the uniform field solves the system of **every** step -/
theorem uniform_is_fixed_point_of_every_step (M : Mesh α) (hM : M.WF) (bc : BCs α)
    (D u u' uUp w wUp : FaceFld α) (hU : UpOK u' uUp) (FL : α → α) (e k : α)
    (alpha : ℕ → CellFld α) (dt : ℕ → α) (hbc : MatchesBC M bc k)
    (hdiv : ∀ c ∈ M.cells, divergence M u c = 0) (hdiv' : ∀ c ∈ M.cells, divergence M u' c = 0)
    (n : ℕ) :
    Solves M bc
      [ transientObj (uniformField M k) (dt n) (alpha n),
        TermObj.smul (-1) (.mat (diffusionRow M D)),
        .mat (convectionRow M u),
        .mat (upwindRow M u' uUp),
        .vec (tvdRHS M w wUp FL e (uniformField M k)) ]
      (uniformField M k) :=
  uniform_is_fixed_point_of_step M hM bc D u u' uUp w wUp hU FL e k _ _ _
    (fun c hc => uniformField_cells M k c hc) hbc hdiv hdiv'

/-- the term list of C07 (`stepTerms`: transient, `-diffusion`, upwind, linear source): the
    uniform field solves the step when `β·k = 0` in every cell (no sink, or `k = 0`) -/
theorem uniform_solves_stepTerms (M : Mesh α) (hM : M.WF) (bc : BCs α) (D u : FaceFld α)
    (β alpha old : CellFld α) (dt k : α) (hbc : MatchesBC M bc k)
    (hdiv : ∀ c ∈ M.cells, divergence M u c = 0) (hβk : ∀ c ∈ M.cells, β c * k = 0)
    (hold : ∀ c ∈ M.cells, old c = k) :
    Solves M bc (stepTerms M D u β old dt alpha) (uniformField M k) := by
  refine uniform_solves_any_steady_list M hM bc k _ (fun t ht => ?_) hbc
  simp only [stepTerms, List.mem_cons, List.not_mem_nil, or_false] at ht
  rcases ht with rfl | rfl | rfl | rfl
  · exact .transient old dt alpha hold
  · exact .smul _ _ (.diffusion D)
  · exact .upwind u u (upOK_self u) hdiv
  · exact .linearSrc β hβk

/-- consistency with C12: the fixed-point property is `C12.steady_solves_transient` applied to the
    steady solution of §3 -/
theorem uniform_fixed_point_via_C12 (M : Mesh α) (bc : BCs α) (spatial : List (TermObj α)) (k : α)
    (hs : Solves M bc spatial (uniformField M k)) (dt : α) (alpha : CellFld α) :
    Solves M bc (transientObj (uniformField M k) dt alpha :: spatial) (uniformField M k) :=
  C12.steady_solves_transient M bc dt alpha spatial _ hs

/-! ### 5. `solvePDE` has no other answer -/

/-- **The uniform field is the solution.**  Hypotheses of the C07 maximum principle (`M.WF`,
    non-negative area factors, `D ≥ 0`, `alpha > 0`, `dt > 0`, upwind advection in a discretely
    divergence-free field, boundaries periodic / Dirichlet with value `k` / no-flux, a sink
    `β ≥ 0` only if it does not act on `k`): **every** solution of the step from uniform old
    values `k` equals `k` in all interior cells.  Derived from `C07.max_principle_solves` and
    `C07.min_principle_solves` with `Mx = Mn = k`. -/
theorem uniform_is_the_solution (M : Mesh α) (hM : M.WF) (hA : ∀ d f, 0 ≤ lineA M d f)
    (bc : BCs α) (D u : FaceFld α) (β alpha old : CellFld α) (dt k : α)
    (hbc : BCsOK M bc (fun v => v = k))
    (hD : ∀ d c, 0 ≤ D d c) (hdiv : ∀ c ∈ M.cells, divergence M u c = 0)
    (hβ : ∀ c ∈ M.cells, 0 ≤ β c) (hβk : ∀ c ∈ M.cells, β c * k = 0)
    (hα : ∀ c ∈ M.cells, 0 < alpha c) (hdt : 0 < dt)
    (hold : ∀ c ∈ M.cells, old c = k)
    (x : CellFld α) (hx : Solves M bc (stepTerms M D u β old dt alpha) x) :
    ∀ c ∈ M.cells, x c = k := by
  intro c hc
  have hk0 : (∃ c ∈ M.cells, 0 < β c) → k = 0 := fun ⟨c', hc', hp⟩ =>
    (mul_eq_zero.1 (hβk c' hc')).resolve_left (ne_of_gt hp)
  have h1 := C07.max_principle_solves M hM hA bc D u β alpha old dt k
    (bcsOK_mono (fun v (hv : v = k) => le_of_eq hv) hbc) hD hdiv hβ hα hdt x hx
    (fun c' hc' => le_of_eq (hold c' hc')) (fun h => le_of_eq (hk0 h).symm) c hc
  have h2 := C07.min_principle_solves M hM hA bc D u β alpha old dt k
    (bcsOK_mono (fun v (hv : v = k) => ge_of_eq hv) hbc) hD hdiv hβ hα hdt x hx
    (fun c' hc' => ge_of_eq (hold c' hc')) (fun h => le_of_eq (hk0 h)) c hc
  exact le_antisymm h1 h2

/-- existence and uniqueness together: the uniform field solves the step, and whatever the sparse
    solver returns agrees with it on every interior cell -/
theorem uniform_is_the_unique_solution (M : Mesh α) (hM : M.WF) (hA : ∀ d f, 0 ≤ lineA M d f)
    (bc : BCs α) (D u : FaceFld α) (β alpha old : CellFld α) (dt k : α)
    (hbc : BCsOK M bc (fun v => v = k))
    (hD : ∀ d c, 0 ≤ D d c) (hdiv : ∀ c ∈ M.cells, divergence M u c = 0)
    (hβ : ∀ c ∈ M.cells, 0 ≤ β c) (hβk : ∀ c ∈ M.cells, β c * k = 0)
    (hα : ∀ c ∈ M.cells, 0 < alpha c) (hdt : 0 < dt)
    (hold : ∀ c ∈ M.cells, old c = k) :
    Solves M bc (stepTerms M D u β old dt alpha) (uniformField M k) ∧
    ∀ x, Solves M bc (stepTerms M D u β old dt alpha) x →
      ∀ c ∈ M.cells, x c = uniformField M k c :=
  ⟨uniform_solves_stepTerms M hM bc D u β alpha old dt k (matchesBC_of_BCsOK M bc k hbc) hdiv hβk
      hold,
   fun x hx c hc => by
    rw [uniformField_cells M k c hc]
    exact uniform_is_the_solution M hM hA bc D u β alpha old dt k hbc hD hdiv hβ hβk hα hdt hold
      x hx c hc⟩

/-- **Any number of steps.**  `xs 0` has interior values `k`, `xs (n+1)` is whatever solves step
    `n` (own coefficients, velocity and time step) started from `xs n`: all iterates have interior
    values `k` — the uniform state is reproduced by `solvePDE` for every time step. -/
theorem uniform_stays_uniform (M : Mesh α) (hM : M.WF) (hA : ∀ d f, 0 ≤ lineA M d f) (bc : BCs α)
    (D u : ℕ → FaceFld α) (β alpha : ℕ → CellFld α) (dt : ℕ → α) (k : α) (xs : ℕ → CellFld α)
    (hbc : BCsOK M bc (fun v => v = k))
    (hD : ∀ n d c, 0 ≤ D n d c) (hdiv : ∀ n, ∀ c ∈ M.cells, divergence M (u n) c = 0)
    (hβ : ∀ n, ∀ c ∈ M.cells, 0 ≤ β n c) (hβk : ∀ n, ∀ c ∈ M.cells, β n c * k = 0)
    (hα : ∀ n, ∀ c ∈ M.cells, 0 < alpha n c) (hdt : ∀ n, 0 < dt n)
    (h0 : ∀ c ∈ M.cells, xs 0 c = k)
    (hx : ∀ n, Solves M bc (stepTerms M (D n) (u n) (β n) (xs n) (dt n) (alpha n)) (xs (n+1))) :
    ∀ n, ∀ c ∈ M.cells, xs n c = k := by
  intro n
  induction n with
  | zero => exact h0
  | succ n ih =>
    exact uniform_is_the_solution M hM hA bc (D n) (u n) (β n) (alpha n) (xs n) (dt n) k hbc
      (hD n) (hdiv n) (hβ n) (hβk n) (hα n) (hdt n) ih (xs (n+1)) (hx n)

/-! ### 6. sources act cell-locally -/

/-- **Sources alone.**  For `[linearSourceTerm(β), constantSourceTerm(γ)]` (the equation
    `β φ = γ`) with `β ≠ 0` in the cells: `x` satisfies all interior rows of the assembled system
    iff `x = γ/β` in every cell — on every grid, whatever the boundary conditions. -/
theorem sources_alone_solve_cellwise (M : Mesh α) (bc : BCs α) (β γ : CellFld α)
    (hβ : ∀ c ∈ M.cells, β c ≠ 0) (x : CellFld α) :
    (∀ c, M.inBox c → M.outCount c = 0 →
        assembleOp M bc [.mat (linearSrcRow β), .vec (constSrcRHS γ)] x c
          = assembleRhs M bc [.mat (linearSrcRow β), .vec (constSrcRHS γ)] c)
      ↔ ∀ c ∈ M.cells, x c = γ c / β c := by
  have key : ∀ c, M.outCount c = 0 →
      (assembleOp M bc [.mat (linearSrcRow β), .vec (constSrcRHS γ)] x c
          = assembleRhs M bc [.mat (linearSrcRow β), .vec (constSrcRHS γ)] c
        ↔ (linearSrcRow β c).app x c = constSrcRHS γ c) := by
    intro c h0
    rw [assembleOp_interior M bc _ x c h0, assembleRhs_interior M bc _ c h0]
    simp only [sumRow_cons_app, sumRhs_cons, sumRow_nil_app, sumRhs_nil, TermObj.row, TermObj.rhs,
      St7.zero_app, add_zero, zero_add]
  constructor
  · intro h c hc
    obtain ⟨hb, h0⟩ := Mesh.cell_facts hc
    exact (C06.source_local β γ c (hβ c hc) x).1 ((key c h0).1 (h c hb h0))
  · intro h c hb h0
    have hc := mem_cells_of_inBox hb h0
    exact (key c h0).2 ((C06.source_local β γ c (hβ c hc) x).2 (h c hc))

/-- the whole system: `x` solves it iff `x = γ/β` in the cells **and** the boundary rows hold —
    the boundary conditions only determine the ghost values -/
theorem sources_alone_solves_iff (M : Mesh α) (bc : BCs α) (β γ : CellFld α)
    (hβ : ∀ c ∈ M.cells, β c ≠ 0) (x : CellFld α) :
    Solves M bc [.mat (linearSrcRow β), .vec (constSrcRHS γ)] x
      ↔ (∀ c ∈ M.cells, x c = γ c / β c)
        ∧ ∀ g, M.inBox g → M.outCount g ≠ 0 → (bcRow M bc g).app x = (bcRow M bc g).rhs := by
  rw [← sources_alone_solve_cellwise M bc β γ hβ x]
  constructor
  · intro h
    refine ⟨fun c hb _ => h c hb, fun g hb hg => ?_⟩
    have := h g hb
    rwa [assembleOp_ghost M bc _ x g hg, assembleRhs_ghost M bc _ g hg] at this
  · rintro ⟨hi, hg⟩ c hb
    by_cases h0 : M.outCount c = 0
    · exact hi c hb h0
    · rw [assembleOp_ghost M bc _ x c h0, assembleRhs_ghost M bc _ c h0]
      exact hg c hb h0

/-- in particular uniform `β`, `γ` give the uniform solution `γ/β`, provided the boundary data
    match that value -/
theorem sources_uniform_solution (M : Mesh α) (bc : BCs α) (b g : α) (hb : b ≠ 0)
    (hbc : MatchesBC M bc (g / b)) :
    Solves M bc [.mat (linearSrcRow (fun _ => b)), .vec (constSrcRHS (fun _ => g))]
      (uniformField M (g / b)) :=
  (sources_alone_solves_iff M bc _ _ (fun _ _ => hb) _).2
    ⟨fun c hc => uniformField_cells M _ c hc,
     fun c hc hg => uniform_satisfies_all_boundary_rows M bc _ hbc c hc hg⟩

/-! ### 8. the matching hypothesis cannot be dropped -/

/-- a mismatch on one non-periodic face of the box is enough: the uniform field then solves no
    assembled system at all -/
theorem not_solves_of_bc_mismatch (M : Mesh α) (bc : BCs α) (ts : List (TermObj α)) (k : α)
    (g : Idx) (hb : M.inBox g) (h1 : M.outCount g = 1)
    (hper : bc.periodicDir (M.outDir g) = false) (hmis : ¬ faceMatch M bc k g) :
    ¬ Solves M bc ts (uniformField M k) :=
  fun h => hmis (((solves_uniform_iff M bc ts k).1 h).2 g hb h1 hper)

/-- **Sanity (negative direction).**  3-cell Cartesian mesh over ℚ, Dirichlet value `5` on the
    left and `2` on the right, uniform field `k = 2`: on the left face `b·k = 2 ≠ 5 = c`, the
    boundary row of the left ghost cell fails (`-2 ≠ -5`) while that of the right one holds, and
    the uniform field solves no system with these boundary conditions. -/
theorem uniform_not_solution_if_bc_mismatch :
    ((AsmEx.bc 5 2).lo .x).b (1, 1, 1) * 2 ≠ ((AsmEx.bc 5 2).lo .x).c (1, 1, 1)
    ∧ (bcRow (Examples.mesh .cart1) (AsmEx.bc 5 2) (0, 1, 1)).app
          (uniformField (Examples.mesh .cart1) 2)
        ≠ (bcRow (Examples.mesh .cart1) (AsmEx.bc 5 2) (0, 1, 1)).rhs
    ∧ (bcRow (Examples.mesh .cart1) (AsmEx.bc 5 2) (4, 1, 1)).app
          (uniformField (Examples.mesh .cart1) 2)
        = (bcRow (Examples.mesh .cart1) (AsmEx.bc 5 2) (4, 1, 1)).rhs
    ∧ ∀ ts, ¬ Solves (Examples.mesh .cart1) (AsmEx.bc 5 2) ts
          (uniformField (Examples.mesh .cart1) 2) := by
  refine ⟨by decide +kernel, by decide +kernel, by decide +kernel, fun ts h => ?_⟩
  have := h (0, 1, 1) (by unfold Mesh.inBox; decide +kernel)
  rw [assembleOp_ghost _ _ _ _ _ (by decide +kernel),
    assembleRhs_ghost _ _ _ _ (by decide +kernel)] at this
  revert this
  decide +kernel

/-! ### 7. non-vacuity -/

/-- the matching hypothesis is satisfiable on every grid class: Dirichlet value `v` on one face,
    no-flux elsewhere; consistent Robin data; a periodic axis -/
example (kd : Kind) (v : ℚ) :
    MatchesBC (Examples.mesh kd) (Ex.bcDirNoFlux v) v
    ∧ MatchesBC (Examples.mesh kd) (Ex.bcRobin v) v
    ∧ MatchesBC (Examples.mesh kd) Ex.bcPerX v :=
  ⟨matchesBC_of_BCsOK _ _ v (Ex.bcDirNoFlux_ok _ v), Ex.bcRobin_matches _ v,
   matchesBC_of_BCsOK _ _ v (Ex.bcPerX_ok _ v)⟩

/-- … and it is not trivially true: there is a face-ghost cell in the box that owns a
    non-periodic boundary row -/
example (kd : Kind) :
    (Examples.mesh kd).inBox (0, 1, 1) ∧ (Examples.mesh kd).outCount (0, 1, 1) = 1
    ∧ (Ex.bcDirNoFlux 7).periodicDir ((Examples.mesh kd).outDir (0, 1, 1)) = false := by
  cases kd <;> (unfold Mesh.inBox; decide +kernel)

/-- hypotheses of `uniform_satisfies_bc_rows` on a concrete face-ghost cell of every grid class -/
example (kd : Kind) (v : ℚ) :
    (bcRow (Examples.mesh kd) (Ex.bcDirNoFlux v) (0, 1, 1)).app (uniformField (Examples.mesh kd) v)
      = (bcRow (Examples.mesh kd) (Ex.bcDirNoFlux v) (0, 1, 1)).rhs :=
  uniform_satisfies_all_boundary_rows _ _ v (matchesBC_of_BCsOK _ _ v (Ex.bcDirNoFlux_ok _ v))
    (0, 1, 1) (by cases kd <;> (unfold Mesh.inBox; decide +kernel))
    (by cases kd <;> decide +kernel)

/-- `uniformField_is_withGhosts` on concrete cells: Dirichlet ghost, no-flux ghost, interior cell
    and a corner cell of the 2-D mesh -/
example :
    withGhosts (Examples.mesh .cart2) (Ex.bcDirNoFlux 7) (fun _ => 7) (0, 1, 1)
        = some (uniformField (Examples.mesh .cart2) 7 (0, 1, 1))
    ∧ withGhosts (Examples.mesh .cart2) (Ex.bcDirNoFlux 7) (fun _ => 7) (2, 4, 1)
        = some (uniformField (Examples.mesh .cart2) 7 (2, 4, 1))
    ∧ withGhosts (Examples.mesh .cart2) (Ex.bcDirNoFlux 7) (fun _ => 7) (2, 2, 1) = some 7
    ∧ withGhosts (Examples.mesh .cart2) (Ex.bcDirNoFlux 7) (fun _ => 7) (0, 0, 1) = some 0
    ∧ uniformField (Examples.mesh .cart2) 7 (0, 1, 1) = 7
    ∧ uniformField (Examples.mesh .cart2) 7 (0, 0, 1) = 0 := by
  decide +kernel

/-- the zero velocity field is discretely divergence-free on every grid class: the steady system,
    every time step and the C07 step are solved by the uniform field, with Dirichlet value `v`
    on one face and no-flux on the others -/
example (kd : Kind) (D : FaceFld ℚ) (FL : ℚ → ℚ) (e v dt : ℚ) (alpha : CellFld ℚ) :
    Solves (Examples.mesh kd) (Ex.bcDirNoFlux v)
      [ TermObj.smul (-1) (.mat (diffusionRow (Examples.mesh kd) D)),
        .mat (convectionRow (Examples.mesh kd) (fun _ _ => 0)),
        .mat (upwindRow (Examples.mesh kd) (fun _ _ => 0) (fun _ _ => 0)),
        .vec (tvdRHS (Examples.mesh kd) (fun _ _ => 0) (fun _ _ => 0) FL e
          (uniformField (Examples.mesh kd) v)) ]
      (uniformField (Examples.mesh kd) v)
    ∧ Solves (Examples.mesh kd) (Ex.bcDirNoFlux v)
      [ transientObj (uniformField (Examples.mesh kd) v) dt alpha,
        TermObj.smul (-1) (.mat (diffusionRow (Examples.mesh kd) D)),
        .mat (convectionRow (Examples.mesh kd) (fun _ _ => 0)),
        .mat (upwindRow (Examples.mesh kd) (fun _ _ => 0) (fun _ _ => 0)),
        .vec (tvdRHS (Examples.mesh kd) (fun _ _ => 0) (fun _ _ => 0) FL e
          (uniformField (Examples.mesh kd) v)) ]
      (uniformField (Examples.mesh kd) v) :=
  ⟨uniform_solves_steady_default _ (Examples.mesh_WF kd) _ D _ _ FL e v
      (matchesBC_of_BCsOK _ _ v (Ex.bcDirNoFlux_ok _ v))
      (fun c _ => divergence_zero _ c) (fun c _ => divergence_zero _ c),
   uniform_is_fixed_point_of_step _ (Examples.mesh_WF kd) _ D _ _ _ _ _ (upOK_self _) FL e v _ alpha
      dt (fun c hc => uniformField_cells _ v c hc)
      (matchesBC_of_BCsOK _ _ v (Ex.bcDirNoFlux_ok _ v))
      (fun c _ => divergence_zero _ c) (fun c _ => divergence_zero _ c)⟩

/-- a non-zero divergence-free velocity: constant `u ≡ 3` (central), `u' ≡ -2` (upwind, flowing
    towards the Dirichlet face) on the non-uniform 1-D Cartesian mesh -/
example (D : FaceFld ℚ) (FL : ℚ → ℚ) (e v dt : ℚ) (alpha : CellFld ℚ) :
    Solves (Examples.mesh .cart1) (Ex.bcDirNoFlux v)
      [ transientObj (uniformField (Examples.mesh .cart1) v) dt alpha,
        TermObj.smul (-1) (.mat (diffusionRow (Examples.mesh .cart1) D)),
        .mat (convectionRow (Examples.mesh .cart1) (fun _ _ => 3)),
        .mat (upwindRow (Examples.mesh .cart1) (fun _ _ => -2) (fun _ _ => -2)),
        .vec (tvdRHS (Examples.mesh .cart1) (fun _ _ => -2) (fun _ _ => -2) FL e
          (uniformField (Examples.mesh .cart1) v)) ]
      (uniformField (Examples.mesh .cart1) v) :=
  uniform_is_fixed_point_of_step _ (Examples.mesh_WF _) _ D _ _ _ _ _ (upOK_self _) FL e v _ alpha
    dt (fun c hc => uniformField_cells _ v c hc)
    (matchesBC_of_BCsOK _ _ v (Ex.bcDirNoFlux_ok _ v))
    (fun c _ => Ex.divergence_const_cart1 _ rfl 3 c)
    (fun c _ => Ex.divergence_const_cart1 _ rfl (-2) c)

/-- all hypotheses of `uniform_is_the_solution` / `uniform_is_the_unique_solution` hold on every
    grid class (`D ≡ 1`, `u ≡ 0`, no sink, `alpha ≡ 1`, `dt = 1/10`, Dirichlet `v` / no-flux):
    a solution exists, and every solution is `v` in the cells -/
example (kd : Kind) (v : ℚ) :
    Solves (Examples.mesh kd) (Ex.bcDirNoFlux v)
        (stepTerms (Examples.mesh kd) (fun _ _ => 1) (fun _ _ => 0) (fun _ => 0)
          (uniformField (Examples.mesh kd) v) (1/10) (fun _ => 1))
        (uniformField (Examples.mesh kd) v)
    ∧ ∀ x, Solves (Examples.mesh kd) (Ex.bcDirNoFlux v)
        (stepTerms (Examples.mesh kd) (fun _ _ => 1) (fun _ _ => 0) (fun _ => 0)
          (uniformField (Examples.mesh kd) v) (1/10) (fun _ => 1)) x →
        ∀ c ∈ (Examples.mesh kd).cells, x c = uniformField (Examples.mesh kd) v c :=
  uniform_is_the_unique_solution _ (Examples.mesh_WF kd) (C07.examples_lineA_nonneg kd) _
    (fun _ _ => 1) (fun _ _ => 0) (fun _ => 0) (fun _ => 1) _ (1/10) v (Ex.bcDirNoFlux_ok _ v)
    (fun _ _ => zero_le_one) (fun c _ => divergence_zero _ c) (fun _ _ => le_refl 0)
    (fun _ _ => zero_mul v) (fun _ _ => zero_lt_one) (by norm_num)
    (fun c hc => uniformField_cells _ v c hc)

/-- the same on the 1-D Cartesian mesh with a non-zero velocity `u ≡ -2` and a periodic axis -/
example (v : ℚ) (x : CellFld ℚ)
    (hx : Solves (Examples.mesh .cart1) Ex.bcPerX
      (stepTerms (Examples.mesh .cart1) (fun _ _ => 1) (fun _ _ => -2) (fun _ => 0)
        (fun _ => v) (1/10) (fun _ => 1)) x) :
    ∀ c ∈ (Examples.mesh .cart1).cells, x c = v :=
  uniform_is_the_solution _ (Examples.mesh_WF _) (C07.examples_lineA_nonneg _) _
    (fun _ _ => 1) (fun _ _ => -2) (fun _ => 0) (fun _ => 1) _ (1/10) v (Ex.bcPerX_ok _ v)
    (fun _ _ => zero_le_one) (fun c _ => Ex.divergence_const_cart1 _ rfl (-2) c)
    (fun _ _ => le_refl 0) (fun _ _ => zero_mul v) (fun _ _ => zero_lt_one) (by norm_num)
    (fun _ _ => rfl) x hx

/-- sources alone on every grid class: `β ≡ 2`, `γ ≡ 4` give `φ ≡ 2`, with Dirichlet value `2`
    on one face and no-flux elsewhere; the cell set is not empty -/
example (kd : Kind) :
    Solves (Examples.mesh kd) (Ex.bcDirNoFlux (4 / 2))
      [.mat (linearSrcRow (fun _ => 2)), .vec (constSrcRHS (fun _ => 4))]
      (uniformField (Examples.mesh kd) (4 / 2))
    ∧ (1, 1, 1) ∈ (Examples.mesh kd).cells :=
  ⟨sources_uniform_solution _ _ 2 4 (by norm_num)
      (matchesBC_of_BCsOK _ _ _ (Ex.bcDirNoFlux_ok _ _)),
   mem_cells_of_inBox (by cases kd <;> (unfold Mesh.inBox; decide +kernel))
      (by cases kd <;> decide +kernel)⟩

/-- hypothesis `β ≠ 0` of `sources_alone_solve_cellwise` with a non-uniform source on the C04
    example: the interior rows of `[linearSourceTerm 2, constantSourceTerm 4]` force `φ = 2` -/
example (x : CellFld ℚ)
    (hx : Solves (Examples.mesh .cart1) (AsmEx.bc 1 3) AsmEx.terms x) :
    ∀ c ∈ (Examples.mesh .cart1).cells, x c = 4 / 2 :=
  ((sources_alone_solves_iff _ _ (fun _ => (2 : ℚ)) (fun _ => 4) (fun _ _ => by norm_num) x).1
    hx).1

end PyFV.C06Sys
