/-
  Property C01, lifted to the box — the number `CellVariable.domainIntegral()` reports.

  `C01` proves that along every grid line the `Vcons`-weighted sum of a flux-form term
  telescopes to the two boundary faces.  Here the three nested sums over the interior cells
  of the 3-D index box (`boxSum`) are reordered (`boxSum_lines`, i.e. `Finset.sum_comm`) so
  that any chosen direction is innermost; the box sum of a divergence is therefore the sum
  over the cross sections of the boundary-face contributions of the ACTIVE directions only,
  for every grid class, any number of cells, any spacing, any coefficients and any ghosted
  field.  With closed (or periodic) boundaries it vanishes, so an implicit step conserves
  `∑ V·α·x` — and, on the eight classes where `cellvolume = κ·Vcons`, `domainIntegral`.
-/
import PyFV.Lemmas.BoxSum

set_option linter.unusedSectionVars false

namespace PyFV.C01Box
open PyFV Finset C01

variable {α : Type} [Field α] [LinearOrder α] [IsStrictOrderedRing α]

/-! ### 2. the box sum of one directional divergence -/

/-- minimal hypotheses: the metric scale does not vanish on interior cells and the line weight
    of direction `d` does not vanish on `1..n_d` (nothing is asked of the other directions) -/
theorem boxSum_divD_of_ne (M : Mesh α) (F : FaceFld α) (d : Dir)
    (hm : ∀ c, M.interior c → lineM M d c ≠ 0)
    (hV : ∀ i, 1 ≤ i → i ≤ M.n d → lineV M d i ≠ 0) :
    boxSum M (fun c => Vcons M c * divD M F d c) = crossSum M d (bndFlux M F d) := by
  rw [boxSum_lines M d]
  by_cases hn : 1 ≤ M.n d
  · apply crossSum_congr M d hn
    intro c hc _
    exact line_sum_divergence M F d c (M.n d) (hm c hc) hV
  · have h0 : M.n d = 0 := by omega
    have e1 : ∀ c, (∑ i ∈ range (M.n d),
        Vcons M (Idx.set c d (i+1)) * divD M F d (Idx.set c d (i+1))) = 0 := by
      intro c; rw [h0]; simp
    have e2 : ∀ c, bndFlux M F d c = 0 := by
      intro c; simp only [bndFlux, h0, sub_self, mul_zero]
    simp only [e1]
    rw [show bndFlux M F d = fun _ => (0 : α) from funext e2]

/-- well-formed mesh, ANY direction (active or not), any face field -/
theorem boxSum_divD (M : Mesh α) (hM : M.WF) (F : FaceFld α) (d : Dir) :
    boxSum M (fun c => Vcons M c * divD M F d c) = crossSum M d (bndFlux M F d) :=
  boxSum_divD_of_ne M F d (fun _ hc => ne_of_gt (lineM_pos hM d hc))
    (fun _ h1 hn => ne_of_gt (lineV_pos_any hM d h1 hn))

/-- direction `x`, written out: only the faces `0` and `nx` of every `(j,k)` line remain -/
theorem boxSum_divD_x (M : Mesh α) (hM : M.WF) (F : FaceFld α) :
    boxSum M (fun c => Vcons M c * divD M F .x c)
      = faceSumX M (fun j k => cross M .x (1, j, k)
          * (lineA M .x M.ax.n * F .x (M.ax.n, j, k) - lineA M .x 0 * F .x (0, j, k))) :=
  boxSum_divD M hM F .x

theorem boxSum_divD_y (M : Mesh α) (hM : M.WF) (F : FaceFld α) :
    boxSum M (fun c => Vcons M c * divD M F .y c)
      = faceSumY M (fun i k => cross M .y (i, 1, k)
          * (lineA M .y M.ay.n * F .y (i, M.ay.n, k) - lineA M .y 0 * F .y (i, 0, k))) :=
  boxSum_divD M hM F .y

theorem boxSum_divD_z (M : Mesh α) (hM : M.WF) (F : FaceFld α) :
    boxSum M (fun c => Vcons M c * divD M F .z c)
      = faceSumZ M (fun i j => cross M .z (i, j, 1)
          * (lineA M .z M.az.n * F .z (i, j, M.az.n) - lineA M .z 0 * F .z (i, j, 0))) :=
  boxSum_divD M hM F .z

/-- the same three statements under the minimal non-degeneracy hypotheses -/
theorem boxSum_divD_x_of_ne (M : Mesh α) (F : FaceFld α)
    (hm : ∀ c, M.interior c → lineM M .x c ≠ 0)
    (hV : ∀ i, 1 ≤ i → i ≤ M.ax.n → lineV M .x i ≠ 0) :
    boxSum M (fun c => Vcons M c * divD M F .x c)
      = faceSumX M (fun j k => cross M .x (1, j, k)
          * (lineA M .x M.ax.n * F .x (M.ax.n, j, k) - lineA M .x 0 * F .x (0, j, k))) :=
  boxSum_divD_of_ne M F .x hm hV

theorem boxSum_divD_y_of_ne (M : Mesh α) (F : FaceFld α)
    (hm : ∀ c, M.interior c → lineM M .y c ≠ 0)
    (hV : ∀ i, 1 ≤ i → i ≤ M.ay.n → lineV M .y i ≠ 0) :
    boxSum M (fun c => Vcons M c * divD M F .y c)
      = faceSumY M (fun i k => cross M .y (i, 1, k)
          * (lineA M .y M.ay.n * F .y (i, M.ay.n, k) - lineA M .y 0 * F .y (i, 0, k))) :=
  boxSum_divD_of_ne M F .y hm hV

theorem boxSum_divD_z_of_ne (M : Mesh α) (F : FaceFld α)
    (hm : ∀ c, M.interior c → lineM M .z c ≠ 0)
    (hV : ∀ i, 1 ≤ i → i ≤ M.az.n → lineV M .z i ≠ 0) :
    boxSum M (fun c => Vcons M c * divD M F .z c)
      = faceSumZ M (fun i j => cross M .z (i, j, 1)
          * (lineA M .z M.az.n * F .z (i, j, M.az.n) - lineA M .z 0 * F .z (i, j, 0))) :=
  boxSum_divD_of_ne M F .z hm hV

/-! ### 3. the box sum of the full divergence: active directions only -/

/-- **Interior fluxes cancel in the whole box.**  For every grid class the `Vcons`-weighted
    box sum of `divergenceTerm(F)` is the sum, over the ACTIVE directions, of the cross sums of
    the boundary-face contributions. -/
theorem boxSum_divergence (M : Mesh α) (hM : M.WF) (F : FaceFld α) :
    boxSum M (fun c => Vcons M c * divergence M F c)
      = sumDirs M.kind (fun d => crossSum M d (bndFlux M F d)) := by
  unfold divergence
  simp_rw [← sumDirs_mul]
  rw [boxSum_sumDirs]
  exact sumDirs_congr _ _ _ (fun d _ => boxSum_divD M hM F d)

theorem boxSum_divergence_1d (M : Mesh α) (hM : M.WF) (F : FaceFld α) (h : M.kind.dim = 1) :
    boxSum M (fun c => Vcons M c * divergence M F c) = crossSum M .x (bndFlux M F .x) := by
  rw [boxSum_divergence M hM F]
  simp [sumDirs, Kind.active, h]

theorem boxSum_divergence_2d (M : Mesh α) (hM : M.WF) (F : FaceFld α) (h : M.kind.dim = 2) :
    boxSum M (fun c => Vcons M c * divergence M F c)
      = crossSum M .x (bndFlux M F .x) + crossSum M .y (bndFlux M F .y) := by
  rw [boxSum_divergence M hM F]
  simp [sumDirs, Kind.active, h]

theorem boxSum_divergence_3d (M : Mesh α) (hM : M.WF) (F : FaceFld α) (h : M.kind.dim = 3) :
    boxSum M (fun c => Vcons M c * divergence M F c)
      = crossSum M .x (bndFlux M F .x) + crossSum M .y (bndFlux M F .y)
        + crossSum M .z (bndFlux M F .z) := by
  rw [boxSum_divergence M hM F]
  simp [sumDirs, Kind.active, h]

/-! ### 4. the matrix terms: box sum = boundary terms of their face flux -/

/-- diffusion: `F = D · ∂φ` -/
theorem boxSum_diffusion (M : Mesh α) (hM : M.WF) (D : FaceFld α) (φ : CellFld α) :
    boxSum M (fun c => Vcons M c * (diffusionRow M D c).app φ c)
      = sumDirs M.kind (fun d => crossSum M d (bndFlux M (FaceFld.mul D (gradD M φ)) d)) := by
  rw [← boxSum_divergence M hM]
  exact boxSum_congr M _ _ (fun c hc => by rw [C05.diffusion_eq_div_grad M hM D φ c hc])

/-- central convection: `F = u · linearMean φ` -/
theorem boxSum_convection (M : Mesh α) (hM : M.WF) (u : FaceFld α) (φ : CellFld α) :
    boxSum M (fun c => Vcons M c * (convectionRow M u c).app φ c)
      = sumDirs M.kind (fun d => crossSum M d (bndFlux M (FaceFld.mul u (linMean M φ)) d)) := by
  rw [← boxSum_divergence M hM]
  exact boxSum_congr M _ _ (fun c hc => by rw [C05.convection_eq_div_lin M hM u φ c hc])

/-- upwind convection, any upwind-direction field: `F = upFlux` (selected velocities × donor values) -/
theorem boxSum_upwind (M : Mesh α) (hM : M.WF) (u uUp : FaceFld α) (φ : CellFld α) :
    boxSum M (fun c => Vcons M c * (upwindRow M u uUp c).app φ c)
      = sumDirs M.kind (fun d => crossSum M d (bndFlux M (upFlux M u uUp φ) d)) := by
  rw [← boxSum_divergence M hM]
  exact boxSum_congr M _ _ (fun c hc => by rw [upwindRow_eq_div_upFlux M hM u uUp φ c hc])

/-- upwind convection under `UpOK` (e.g. the default `uUp = u`): `F = u · upwindMean φ` -/
theorem boxSum_upwind_upMean (M : Mesh α) (hM : M.WF) (u uUp : FaceFld α) (hU : UpOK u uUp)
    (φ : CellFld α) :
    boxSum M (fun c => Vcons M c * (upwindRow M u uUp c).app φ c)
      = sumDirs M.kind (fun d => crossSum M d (bndFlux M (FaceFld.mul u (upMean M φ uUp)) d)) := by
  rw [← boxSum_divergence M hM]
  exact boxSum_congr M _ _ (fun c hc => by rw [C05.upwind_eq_div_upMean M hM u uUp hU φ c hc])

/-- TVD right-hand side: `−` the boundary terms of `tvdFlux` -/
theorem boxSum_tvd (M : Mesh α) (hM : M.WF) (u uUp : FaceFld α) (FL : α → α) (e : α) (φ : CellFld α) :
    boxSum M (fun c => Vcons M c * tvdRHS M u uUp FL e φ c)
      = -sumDirs M.kind (fun d => crossSum M d (bndFlux M (tvdFlux M u uUp FL e φ) d)) := by
  rw [← boxSum_divergence M hM, ← boxSum_neg]
  exact boxSum_congr M _ _ (fun c _ => by unfold tvdRHS; ring)

/-- explicit `divergenceTerm(F)`: by definition -/
theorem boxSum_explicit_divergence (M : Mesh α) (hM : M.WF) (F : FaceFld α) :
    boxSum M (fun c => Vcons M c * divergence M F c)
      = sumDirs M.kind (fun d => crossSum M d (bndFlux M F d)) :=
  boxSum_divergence M hM F

/-! ### 5. closed or periodic boundaries: the box sum vanishes -/

/-- balanced end faces on every line of every active direction ⇒ zero box sum -/
theorem boxSum_balanced (M : Mesh α) (hM : M.WF) (F : FaceFld α) (h : FluxBalanced M F) :
    boxSum M (fun c => Vcons M c * divergence M F c) = 0 := by
  rw [boxSum_divergence M hM F, ← sumDirs_zero (α := α) M.kind]
  apply sumDirs_congr
  intro d hd
  apply crossSum_eq_zero M d (hM.axis d).npos
  intro c hc _
  simp only [bndFlux, h d hd c hc, sub_self, mul_zero]

theorem fluxBalanced_of_closed (M : Mesh α) (F : FaceFld α) (h : FluxClosed M F) :
    FluxBalanced M F := by
  intro d hd c hc
  rw [(h d hd c hc).1, (h d hd c hc).2, mul_zero, mul_zero]

/-- **closed box**: the flux vanishes on every boundary face of every active direction -/
theorem boxSum_closed (M : Mesh α) (hM : M.WF) (F : FaceFld α) (h : FluxClosed M F) :
    boxSum M (fun c => Vcons M c * divergence M F c) = 0 :=
  boxSum_balanced M hM F (fluxBalanced_of_closed M F h)

/-- each active direction is either walled (ghost = adjacent cell on both boundary faces) or
    periodic: the diffusive flux is balanced -/
theorem diffusion_fluxBalanced (M : Mesh α) (hM : M.WF) (D : FaceFld α) (φ : CellFld α)
    (h : ∀ d, M.kind.active d = true → NoFluxDir M φ d ∨ PeriodicDir M D φ d) :
    FluxBalanced M (FaceFld.mul D (gradD M φ)) := by
  intro d hd c hc
  rcases h d hd with hw | ⟨hA, hDX, hp⟩
  · rw [diffFlux_wall M D φ d c (M.n d) (hw c hc).2, diffFlux_wall M D φ d c 0 (hw c hc).1,
      mul_zero, mul_zero]
  · obtain ⟨hw0, hwn, hD⟩ := hp c hc
    exact diffFlux_periodic M hM D φ d c hw0 hwn hD hA hDX

/-- diffusion, walls and/or periodic directions in any combination: no change of the box integral -/
theorem boxSum_diffusion_walls_or_periodic (M : Mesh α) (hM : M.WF) (D : FaceFld α) (φ : CellFld α)
    (h : ∀ d, M.kind.active d = true → NoFluxDir M φ d ∨ PeriodicDir M D φ d) :
    boxSum M (fun c => Vcons M c * (diffusionRow M D c).app φ c) = 0 := by
  rw [← boxSum_balanced M hM _ (diffusion_fluxBalanced M hM D φ h)]
  exact boxSum_congr M _ _ (fun c hc => by rw [C05.diffusion_eq_div_grad M hM D φ c hc])

/-- diffusion with no-flux walls on all boundary faces -/
theorem boxSum_diffusion_closed (M : Mesh α) (hM : M.WF) (D : FaceFld α) (φ : CellFld α)
    (h : NoFluxWalls M φ) :
    boxSum M (fun c => Vcons M c * (diffusionRow M D c).app φ c) = 0 :=
  boxSum_diffusion_walls_or_periodic M hM D φ (fun d hd => Or.inl (h d hd))

/-- diffusion, all active directions periodic -/
theorem boxSum_diffusion_periodic (M : Mesh α) (hM : M.WF) (D : FaceFld α) (φ : CellFld α)
    (h : ∀ d, M.kind.active d = true → PeriodicDir M D φ d) :
    boxSum M (fun c => Vcons M c * (diffusionRow M D c).app φ c) = 0 :=
  boxSum_diffusion_walls_or_periodic M hM D φ (fun d hd => Or.inr (h d hd))

/-- central convection, zero wall-normal velocity -/
theorem boxSum_convection_closed (M : Mesh α) (hM : M.WF) (u : FaceFld α) (φ : CellFld α)
    (h : WallNormalZero M u) :
    boxSum M (fun c => Vcons M c * (convectionRow M u c).app φ c) = 0 := by
  rw [← boxSum_closed M hM (FaceFld.mul u (linMean M φ))
    (fun d hd c hc => ⟨convFlux_wall M u φ d _ (h d hd c hc).2, convFlux_wall M u φ d _ (h d hd c hc).1⟩)]
  exact boxSum_congr M _ _ (fun c hc => by rw [C05.convection_eq_div_lin M hM u φ c hc])

/-- upwind convection (any `uUp`), zero wall-normal velocity -/
theorem boxSum_upwind_closed (M : Mesh α) (hM : M.WF) (u uUp : FaceFld α) (φ : CellFld α)
    (h : WallNormalZero M u) :
    boxSum M (fun c => Vcons M c * (upwindRow M u uUp c).app φ c) = 0 := by
  rw [← boxSum_closed M hM (upFlux M u uUp φ)
    (fun d hd c hc => ⟨upFlux_zero M u uUp φ d _ (h d hd c hc).2, upFlux_zero M u uUp φ d _ (h d hd c hc).1⟩)]
  exact boxSum_congr M _ _ (fun c hc => by rw [upwindRow_eq_div_upFlux M hM u uUp φ c hc])

/-- TVD right-hand side, zero wall-normal velocity, any limiter -/
theorem boxSum_tvd_closed (M : Mesh α) (hM : M.WF) (u uUp : FaceFld α) (FL : α → α) (e : α)
    (φ : CellFld α) (h : WallNormalZero M u) :
    boxSum M (fun c => Vcons M c * tvdRHS M u uUp FL e φ c) = 0 := by
  have h0 := boxSum_closed M hM (tvdFlux M u uUp FL e φ)
    (fun d hd c hc => ⟨tvdFlux_zero M u uUp FL e φ d _ (h d hd c hc).2,
      tvdFlux_zero M u uUp FL e φ d _ (h d hd c hc).1⟩)
  rw [← neg_zero, ← h0, ← boxSum_neg]
  exact boxSum_congr M _ _ (fun c _ => by unfold tvdRHS; ring)

/-! ### 6. a closed implicit step conserves the box integral / `domainIntegral` -/

/-- If every interior row reads `α_c (x_c − old_c)/dt + L_c = 0` and the `Vcons`-weighted box
    sum of `L` vanishes (flux-form terms with closed or periodic boundaries, theorems above),
    then the weighted box sum of `α·x` is unchanged: any `dt ≠ 0`, any number of cells. -/
theorem closed_step_box (M : Mesh α) (alpha x old L : Idx → α) (dt : α) (hdt : dt ≠ 0)
    (hrow : ∀ c, M.interior c → alpha c * (x c - old c) / dt + L c = 0)
    (hL : boxSum M (fun c => Vcons M c * L c) = 0) :
    boxSum M (fun c => Vcons M c * (alpha c * x c))
      = boxSum M (fun c => Vcons M c * (alpha c * old c)) := by
  simp only [boxSum_eq_sum_boxCells] at hL ⊢
  exact closed_step_conserves (boxCells M) (Vcons M) alpha x old L dt hdt
    (fun c hc => hrow c ((mem_boxCells M c).mp hc)) hL

/-- explicit step `x = old − dt·L(old)`: same conservation, any `dt` -/
theorem explicit_step_box (M : Mesh α) (x old L : Idx → α) (dt : α)
    (hrow : ∀ c, M.interior c → x c = old c + dt * (-(L c)))
    (hL : boxSum M (fun c => Vcons M c * L c) = 0) :
    boxSum M (fun c => Vcons M c * x c) = boxSum M (fun c => Vcons M c * old c) := by
  simp only [boxSum_eq_sum_boxCells] at hL ⊢
  exact explicit_step_conserves (boxCells M) (Vcons M) x old L dt
    (fun c hc => hrow c ((mem_boxCells M c).mp hc)) hL

/-- on the eight classes other than SphericalGrid3D, with unit axes in the missing directions,
    a `cellvolume`-weighted box sum is `κ ×` the `Vcons`-weighted one -/
theorem boxSum_cellVolume (M : Mesh α) (hM : M.WF) (hk : M.kind ≠ .sph3) (hu : UnitInactive M)
    (f : Idx → α) :
    boxSum M (fun c => cellVolume M c * f c) = kappa M * boxSum M (fun c => Vcons M c * f c) := by
  rw [← boxSum_mul_left]
  apply boxSum_congr
  intro c hc
  rw [cellVolume_eq_Vcons M hM c hc hk
    (fun h => lineV_unitAxis M .y h (hu .y h) _ hc.2.2.1 hc.2.2.2.1)
    (fun h => lineV_unitAxis M .z h (hu .z h) _ hc.2.2.2.2.1 hc.2.2.2.2.2)]
  ring

/-- `domainIntegral(φ) = κ · ∑ Vcons · φ` on those classes -/
theorem domainIntegral_eq (M : Mesh α) (hM : M.WF) (hk : M.kind ≠ .sph3) (hu : UnitInactive M)
    (φ : CellFld α) :
    domainIntegral M φ = kappa M * boxSum M (fun c => Vcons M c * φ c) :=
  boxSum_cellVolume M hM hk hu φ

/-- **`domainIntegral` is conserved by a closed implicit step** (eight classes): the reported
    integral of `α·x` equals that of `α·old`. -/
theorem domainIntegral_conserved (M : Mesh α) (hM : M.WF) (hk : M.kind ≠ .sph3) (hu : UnitInactive M)
    (alpha x old L : Idx → α) (dt : α) (hdt : dt ≠ 0)
    (hrow : ∀ c, M.interior c → alpha c * (x c - old c) / dt + L c = 0)
    (hL : boxSum M (fun c => Vcons M c * L c) = 0) :
    domainIntegral M (fun c => alpha c * x c) = domainIntegral M (fun c => alpha c * old c) := by
  rw [domainIntegral_eq M hM hk hu, domainIntegral_eq M hM hk hu,
    closed_step_box M alpha x old L dt hdt hrow hL]

/-- unit transient coefficient: `domainIntegral(x) = domainIntegral(old)` -/
theorem domainIntegral_conserved_unit (M : Mesh α) (hM : M.WF) (hk : M.kind ≠ .sph3)
    (hu : UnitInactive M) (x old L : Idx → α) (dt : α) (hdt : dt ≠ 0)
    (hrow : ∀ c, M.interior c → (1 : α) * (x c - old c) / dt + L c = 0)
    (hL : boxSum M (fun c => Vcons M c * L c) = 0) :
    domainIntegral M x = domainIntegral M old := by
  have h := domainIntegral_conserved M hM hk hu (fun _ => 1) x old L dt hdt hrow hL
  simpa using h

/-- the flux-form part `−diffusion + upwind convection + central convection − TVD correction`
    has zero box sum in a closed box (ghosts of `x` mirror the adjacent cell, zero wall-normal
    velocities); the TVD correction may be evaluated at any field `ψ` (previous iterate) -/
theorem closed_terms_boxSum (M : Mesh α) (hM : M.WF) (D u uUp v w wUp : FaceFld α) (FL : α → α) (e : α)
    (x ψ : CellFld α) (hx : NoFluxWalls M x) (hu : WallNormalZero M u) (hv : WallNormalZero M v)
    (hw : WallNormalZero M w) :
    boxSum M (fun c => Vcons M c *
      (-(diffusionRow M D c).app x c + (upwindRow M u uUp c).app x c
        + (convectionRow M v c).app x c - tvdRHS M w wUp FL e ψ c)) = 0 := by
  have e1 : (fun c => Vcons M c *
      (-(diffusionRow M D c).app x c + (upwindRow M u uUp c).app x c
        + (convectionRow M v c).app x c - tvdRHS M w wUp FL e ψ c))
      = fun c => (-(Vcons M c * (diffusionRow M D c).app x c)
          + Vcons M c * (upwindRow M u uUp c).app x c
          + Vcons M c * (convectionRow M v c).app x c)
          - Vcons M c * tvdRHS M w wUp FL e ψ c := by
    funext c; ring
  rw [e1, boxSum_sub, boxSum_add, boxSum_add, boxSum_neg, boxSum_diffusion_closed M hM D x hx,
    boxSum_upwind_closed M hM u uUp x hu, boxSum_convection_closed M hM v x hv,
    boxSum_tvd_closed M hM w wUp FL e ψ hw]
  ring

/-- **closed diffusion–advection step**: transient − diffusion + upwind + central convection with
    the TVD correction on the right-hand side, no sources, closed box ⇒ `∑ V·α·x` is conserved -/
theorem closed_step_diffusion_advection (M : Mesh α) (hM : M.WF) (D u uUp v w wUp : FaceFld α)
    (FL : α → α) (e : α) (alpha x old ψ : CellFld α) (dt : α) (hdt : dt ≠ 0)
    (hrow : ∀ c, M.interior c → alpha c * (x c - old c) / dt
      + (-(diffusionRow M D c).app x c + (upwindRow M u uUp c).app x c
          + (convectionRow M v c).app x c - tvdRHS M w wUp FL e ψ c) = 0)
    (hx : NoFluxWalls M x) (hu : WallNormalZero M u) (hv : WallNormalZero M v)
    (hw : WallNormalZero M w) :
    boxSum M (fun c => Vcons M c * (alpha c * x c))
      = boxSum M (fun c => Vcons M c * (alpha c * old c)) :=
  closed_step_box M alpha x old _ dt hdt hrow
    (closed_terms_boxSum M hM D u uUp v w wUp FL e x ψ hx hu hv hw)

/-- the same step conserves the reported `domainIntegral` on the eight classes -/
theorem domainIntegral_conserved_diffusion_advection (M : Mesh α) (hM : M.WF) (hk : M.kind ≠ .sph3)
    (hU : UnitInactive M) (D u uUp v w wUp : FaceFld α)
    (FL : α → α) (e : α) (alpha x old ψ : CellFld α) (dt : α) (hdt : dt ≠ 0)
    (hrow : ∀ c, M.interior c → alpha c * (x c - old c) / dt
      + (-(diffusionRow M D c).app x c + (upwindRow M u uUp c).app x c
          + (convectionRow M v c).app x c - tvdRHS M w wUp FL e ψ c) = 0)
    (hx : NoFluxWalls M x) (hu : WallNormalZero M u) (hv : WallNormalZero M v)
    (hw : WallNormalZero M w) :
    domainIntegral M (fun c => alpha c * x c) = domainIntegral M (fun c => alpha c * old c) :=
  domainIntegral_conserved M hM hk hU alpha x old _ dt hdt hrow
    (closed_terms_boxSum M hM D u uUp v w wUp FL e x ψ hx hu hv hw)

/-! ### 7. non-vacuity on the concrete meshes `Examples.mesh k` -/

/-- the example meshes carry unit axes in the missing directions -/
theorem examples_unitInactive (k : Kind) : UnitInactive (Examples.mesh k) := by
  intro d hd
  cases d <;> simp only [Examples.mesh, Mesh.axis] at hd ⊢
  · exact absurd hd (by simp [Kind.active])
  · rw [if_neg (by simp [hd])]
  · rw [if_neg (by simp [hd])]

example (k : Kind) : (Examples.mesh k).WF ∧ UnitInactive (Examples.mesh k) :=
  ⟨Examples.mesh_WF k, examples_unitInactive k⟩

/-- a non-constant field with no-flux walls exists on every example mesh -/
example (k : Kind) : NoFluxWalls (Examples.mesh k) (BoxEx.wallPhi (Examples.mesh k)) :=
  BoxEx.wallPhi_noFlux _ (Examples.mesh_WF k)

/-- a velocity field with zero wall-normal component (non-zero inside) exists -/
example (k : Kind) : WallNormalZero (Examples.mesh k) (BoxEx.wallU (Examples.mesh k)) :=
  BoxEx.wallU_zero _

example : BoxEx.wallU (Examples.mesh .cart3) .x (2, 1, 1) = 2 := by decide +kernel

/-- the closed-box theorems, instantiated -/
example (k : Kind) :
    boxSum (Examples.mesh k) (fun c => Vcons (Examples.mesh k) c *
      (diffusionRow (Examples.mesh k) BoxEx.coefD c).app (BoxEx.wallPhi (Examples.mesh k)) c) = 0 :=
  boxSum_diffusion_closed _ (Examples.mesh_WF k) _ _ (BoxEx.wallPhi_noFlux _ (Examples.mesh_WF k))

example (k : Kind) (φ : CellFld ℚ) :
    boxSum (Examples.mesh k) (fun c => Vcons (Examples.mesh k) c *
      (upwindRow (Examples.mesh k) (BoxEx.wallU (Examples.mesh k)) (BoxEx.wallU (Examples.mesh k)) c).app φ c) = 0 :=
  boxSum_upwind_closed _ (Examples.mesh_WF k) _ _ φ (BoxEx.wallU_zero _)

/-- independent check by kernel evaluation of the model on a 3×3 cylindrical mesh with
    non-uniform spacing and a non-constant coefficient: the 9-cell sum is exactly 0 -/
example :
    boxSum (Examples.mesh .cyl2) (fun c => Vcons (Examples.mesh .cyl2) c *
      (diffusionRow (Examples.mesh .cyl2) BoxEx.coefD c).app (BoxEx.wallPhi (Examples.mesh .cyl2)) c) = 0 := by
  decide +kernel

/-- … and the wall condition matters: with a field whose ghosts do not mirror the adjacent
    cells (`φ = i`), the same sum is not zero (it is the boundary flux) -/
example :
    boxSum (Examples.mesh .cyl2) (fun c => Vcons (Examples.mesh .cyl2) c *
      (diffusionRow (Examples.mesh .cyl2) BoxEx.coefD c).app (fun c => (c.1 : ℚ)) c) ≠ 0 := by
  decide +kernel

/-- the periodic hypotheses are satisfiable (uniform 2-cell periodic line with a non-constant
    wrapped field), and the theorem gives a zero sum there -/
example : C01.perMesh.WF ∧ ∀ d, C01.perMesh.kind.active d = true →
    PeriodicDir C01.perMesh (fun _ _ => 1) C01.perPhi d :=
  ⟨BoxEx.perMesh_WF, BoxEx.perPhi_periodic⟩

example :
    boxSum C01.perMesh (fun c => Vcons C01.perMesh c *
      (diffusionRow C01.perMesh (fun _ _ => 1) c).app C01.perPhi c) = 0 :=
  boxSum_diffusion_periodic _ BoxEx.perMesh_WF _ _ BoxEx.perPhi_periodic

/-- the step hypotheses are satisfiable: `x = old` with the (vanishing) diffusion of a constant -/
example (k : Kind) :
    ∃ (alpha x old L : Idx → ℚ) (dt : ℚ), dt ≠ 0 ∧
      (∀ c, (Examples.mesh k).interior c → alpha c * (x c - old c) / dt + L c = 0) ∧
      boxSum (Examples.mesh k) (fun c => Vcons (Examples.mesh k) c * L c) = 0 :=
  ⟨fun _ => 1, fun _ => 2, fun _ => 2, fun _ => 0, 1, one_ne_zero,
    fun _ _ => by norm_num, by simp [boxSum]⟩

/-- `domainIntegral` on a concrete mesh is the familiar number: the cylinder `1 ≤ r ≤ 7`,
    `1 ≤ z ≤ 7` has volume `π (7² − 1²) · 6 = 288 π` (`π := 3` in the example meshes) -/
example : domainIntegral (Examples.mesh .cyl2) (fun _ => 1) = 288 * (Examples.mesh .cyl2).pi := by
  decide +kernel

end PyFV.C01Box
