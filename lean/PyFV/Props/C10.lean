/-
  Property C10 — grid geometry is exact: faces, centres, sizes and true cell volumes.

  Constructor laws hold for every strictly increasing face list of any length; the (N, L)
  form equals the face form on equispaced faces; `cellvolume` is the geometric volume for
  eight of the nine classes (per cell, any spacing).  SphericalGrid3D's θ-factor is NOT the
  geometric one: see `sph3_volume_not_geometric` (known finding, replayed on the real code).
-/
import PyFV.Lemmas.WF
import PyFV.Props.Examples
import Mathlib.Algebra.BigOperators.Intervals
import Mathlib.Analysis.SpecialFunctions.Trigonometric.Basic

set_option linter.unusedSectionVars false

namespace PyFV.C10
open PyFV Finset

variable {α : Type} [Field α] [LinearOrder α] [IsStrictOrderedRing α]

/-! ### constructor laws -/

/-- face-array form: N cells, faces as given, centres midway, sizes = face differences,
    ghost sizes repeat the end cells, all sizes positive -/
theorem faces_form_laws (n : ℕ) (f : ℕ → α) (hn : 1 ≤ n) (hf : StrictIncr n f) :
    (mkAxisFaces n f).n = n ∧ (∀ i, (mkAxisFaces n f).fc i = f i) ∧
    (∀ i, 1 ≤ i → i ≤ n → (mkAxisFaces n f).cen i = (f i + f (i-1)) / 2) ∧
    (∀ i, 1 ≤ i → i ≤ n → (mkAxisFaces n f).DX i = f i - f (i-1)) ∧
    (mkAxisFaces n f).DX 0 = (mkAxisFaces n f).DX 1 ∧
    (mkAxisFaces n f).DX (n+1) = (mkAxisFaces n f).DX n ∧
    (∀ i, 0 < (mkAxisFaces n f).DX i) := by
  have w := mkAxisFaces_WF n f hn hf
  exact ⟨rfl, fun _ => rfl, fun i h1 h2 => w.mid i h1 h2, fun i h1 h2 => w.size i h1 h2,
    w.ghost0, w.ghostN, w.pos⟩

/-- the (N, L) form is the face form on the equispaced faces `i·L/N` -/
theorem nl_form_eq_faces_form (n : ℕ) (L : α) (hn : 1 ≤ n) :
    (∀ i, (mkAxisNL n L).fc i = (mkAxisFaces n (fun i => (i : α) * (L / n))).fc i) ∧
    (∀ i, 1 ≤ i → (mkAxisNL n L).cen i = (mkAxisFaces n (fun i => (i : α) * (L / n))).cen i) ∧
    (∀ i, (mkAxisNL n L).DX i = (mkAxisFaces n (fun i => (i : α) * (L / n))).DX i) := by
  refine ⟨fun _ => rfl, ?_, ?_⟩
  · intro i h1
    simp only [mkAxisNL, mkAxisFaces]
    have : ((i - 1 : ℕ) : α) = (i : α) - 1 := by rw [Nat.cast_sub h1]; simp
    rw [this]; ring
  · intro i
    simp only [mkAxisNL, mkAxisFaces]
    split_ifs with h0 h1
    · simp
    · have : ((i - 1 : ℕ) : α) = (i : α) - 1 := by
        rw [Nat.cast_sub (by omega)]; simp
      rw [this]; ring
    · have : ((n - 1 : ℕ) : α) = (n : α) - 1 := by rw [Nat.cast_sub hn]; simp
      rw [this]; ring

/-- sum of the cell sizes is the domain length (telescoping, any N) -/
theorem sizes_sum_to_length (n : ℕ) (f : ℕ → α) :
    ∑ i ∈ range n, (f (i+1) - f i) = f n - f 0 := by
  exact Finset.sum_range_sub f n

/-! ### cell volumes = geometric volumes -/

theorem sq_sub_abs {a b : α} (hb : 0 ≤ b) (hab : b < a) : |a ^ 2 - b ^ 2| = a ^ 2 - b ^ 2 := by
  apply abs_of_nonneg
  have : a ^ 2 - b ^ 2 = (a - b) * (a + b) := by ring
  rw [this]
  have h1 : 0 ≤ a - b := by linarith
  have h2 : 0 ≤ a + b := by linarith
  positivity

theorem cube_sub_abs {a b : α} (hb : 0 ≤ b) (hab : b < a) : |a ^ 3 - b ^ 3| = a ^ 3 - b ^ 3 :=
  abs_of_pos (cube_sub_pos hb hab)

section vol
variable (M : Mesh α) (hM : M.WF) (c : Idx) (hc : M.interior c)
include hM hc

theorem r_lt : M.ax.fc (c.1 - 1) < M.ax.fc c.1 := hM.wx.fc_lt c.1 hc.1 hc.2.1
theorem th_lt : M.ay.fc (c.2.1 - 1) < M.ay.fc c.2.1 := hM.wy.fc_lt c.2.1 hc.2.2.1 hc.2.2.2.1
theorem ph_lt : M.az.fc (c.2.2 - 1) < M.az.fc c.2.2 := hM.wz.fc_lt c.2.2 hc.2.2.2.2.1 hc.2.2.2.2.2

/-- Cartesian grids: products of the cell sizes -/
theorem volume_cart1 (hk : M.kind = .cart1) : cellVolume M c = M.ax.fc c.1 - M.ax.fc (c.1-1) := by
  simp only [cellVolume, hk]; exact hM.wx.size c.1 hc.1 hc.2.1

theorem volume_cart2 (hk : M.kind = .cart2) :
    cellVolume M c = (M.ax.fc c.1 - M.ax.fc (c.1-1)) * (M.ay.fc c.2.1 - M.ay.fc (c.2.1-1)) := by
  simp only [cellVolume, hk]
  rw [hM.wx.size c.1 hc.1 hc.2.1, hM.wy.size c.2.1 hc.2.2.1 hc.2.2.2.1]

theorem volume_cart3 (hk : M.kind = .cart3) :
    cellVolume M c = (M.ax.fc c.1 - M.ax.fc (c.1-1)) * (M.ay.fc c.2.1 - M.ay.fc (c.2.1-1))
      * (M.az.fc c.2.2 - M.az.fc (c.2.2-1)) := by
  simp only [cellVolume, hk]
  rw [hM.wx.size c.1 hc.1 hc.2.1, hM.wy.size c.2.1 hc.2.2.1 hc.2.2.2.1,
    hM.wz.size c.2.2 hc.2.2.2.2.1 hc.2.2.2.2.2]

/-- cylindrical 1-D: full annulus of unit height, `(r₂²−r₁²)/2 · 2π · 1` -/
theorem volume_cyl1 (hk : M.kind = .cyl1) :
    cellVolume M c = (M.ax.fc c.1 ^ 2 - M.ax.fc (c.1-1) ^ 2) / 2 * (2 * M.pi) * 1 := by
  have hr := hM.rf0 (by rw [hk]; rfl) (c.1 - 1) (by have := hc.2.1; omega)
  simp only [cellVolume, hk]
  rw [sq_sub_abs hr (r_lt M hM c hc)]; ring

/-- cylindrical 2-D (r, z): `(r₂²−r₁²)/2 · 2π · Δz` -/
theorem volume_cyl2 (hk : M.kind = .cyl2) :
    cellVolume M c = (M.ax.fc c.1 ^ 2 - M.ax.fc (c.1-1) ^ 2) / 2 * (2 * M.pi)
      * (M.ay.fc c.2.1 - M.ay.fc (c.2.1-1)) := by
  have hr := hM.rf0 (by rw [hk]; rfl) (c.1 - 1) (by have := hc.2.1; omega)
  simp only [cellVolume, hk]
  rw [sq_sub_abs hr (r_lt M hM c hc), hM.wy.size c.2.1 hc.2.2.1 hc.2.2.2.1]; ring

/-- polar 2-D (r, θ): annular sector of unit height `(r₂²−r₁²)/2 · Δθ` -/
theorem volume_pol2 (hk : M.kind = .pol2) :
    cellVolume M c = (M.ax.fc c.1 ^ 2 - M.ax.fc (c.1-1) ^ 2) / 2
      * (M.ay.fc c.2.1 - M.ay.fc (c.2.1-1)) := by
  have hr := hM.rf0 (by rw [hk]; rfl) (c.1 - 1) (by have := hc.2.1; omega)
  have hp := ne_of_gt hM.pipos
  simp only [cellVolume, hk]
  rw [sq_sub_abs hr (r_lt M hM c hc), abs_of_pos (sub_pos.mpr (th_lt M hM c hc))]
  field_simp

/-- cylindrical 3-D (r, θ, z): `(r₂²−r₁²)/2 · Δθ · Δz` -/
theorem volume_cyl3 (hk : M.kind = .cyl3) :
    cellVolume M c = (M.ax.fc c.1 ^ 2 - M.ax.fc (c.1-1) ^ 2) / 2
      * (M.ay.fc c.2.1 - M.ay.fc (c.2.1-1)) * (M.az.fc c.2.2 - M.az.fc (c.2.2-1)) := by
  have hr := hM.rf0 (by rw [hk]; rfl) (c.1 - 1) (by have := hc.2.1; omega)
  have hp := ne_of_gt hM.pipos
  simp only [cellVolume, hk]
  rw [sq_sub_abs hr (r_lt M hM c hc), abs_of_pos (sub_pos.mpr (th_lt M hM c hc)),
    hM.wz.size c.2.2 hc.2.2.2.2.1 hc.2.2.2.2.2]
  field_simp

/-- spherical 1-D: full shell `(r₂³−r₁³)/3 · (cos 0 − cos π) · 2π` -/
theorem volume_sph1 (hk : M.kind = .sph1) :
    cellVolume M c = (M.ax.fc c.1 ^ 3 - M.ax.fc (c.1-1) ^ 3) / 3 * (1 - (-1)) * (2 * M.pi) := by
  have hr := hM.rf0 (by rw [hk]; rfl) (c.1 - 1) (by have := hc.2.1; omega)
  simp only [cellVolume, hk]
  rw [cube_sub_abs hr (r_lt M hM c hc)]; ring

/-- what the code computes on SphericalGrid3D, in closed form: the θ-factor is `Δθ·2/π` -/
theorem volume_sph3_as_coded (hk : M.kind = .sph3) :
    cellVolume M c = (M.ax.fc c.1 ^ 3 - M.ax.fc (c.1-1) ^ 3) / 3
      * ((M.ay.fc c.2.1 - M.ay.fc (c.2.1-1)) * 2 / M.pi) * (M.az.fc c.2.2 - M.az.fc (c.2.2-1)) := by
  have hr := hM.rf0 (by rw [hk]; rfl) (c.1 - 1) (by have := hc.2.1; omega)
  have hp := ne_of_gt hM.pipos
  simp only [cellVolume, hk]
  rw [cube_sub_abs hr (r_lt M hM c hc), abs_of_pos (sub_pos.mpr (th_lt M hM c hc)),
    abs_of_pos (sub_pos.mpr (ph_lt M hM c hc))]
  field_simp
  ring

/-- every reported cell volume is positive -/
theorem volume_pos : 0 < cellVolume M c := by
  have hp := hM.pipos
  have r := r_lt M hM c hc; have t := th_lt M hM c hc; have p := ph_lt M hM c hc
  have dx := hM.wx.pos c.1; have dy := hM.wy.pos c.2.1; have dz := hM.wz.pos c.2.2
  have ht : 0 < |M.ay.fc c.2.1 - M.ay.fc (c.2.1 - 1)| := abs_pos.mpr (ne_of_gt (sub_pos.mpr t))
  have hph : 0 < |M.az.fc c.2.2 - M.az.fc (c.2.2 - 1)| := abs_pos.mpr (ne_of_gt (sub_pos.mpr p))
  simp only [cellVolume]
  cases hk : M.kind <;> simp only <;>
    first
    | positivity
    | (have hr := hM.rf0 (by rw [hk]; rfl) (c.1 - 1) (by have := hc.2.1; omega)
       have h2 : 0 < |M.ax.fc c.1 ^ 2 - M.ax.fc (c.1 - 1) ^ 2| := by
         rw [sq_sub_abs hr r]
         have : M.ax.fc c.1 ^ 2 - M.ax.fc (c.1 - 1) ^ 2
             = (M.ax.fc c.1 - M.ax.fc (c.1 - 1)) * (M.ax.fc c.1 + M.ax.fc (c.1 - 1)) := by ring
         rw [this]; exact mul_pos (sub_pos.mpr r) (by linarith)
       have h3 : 0 < |M.ax.fc c.1 ^ 3 - M.ax.fc (c.1 - 1) ^ 3| := by
         rw [cube_sub_abs hr r]; exact cube_sub_pos hr r
       positivity)

end vol

/-- annuli sum to the disc / shells to the ball (telescoping over any number of cells) -/
theorem annuli_sum (n : ℕ) (f : ℕ → α) (k : α) :
    ∑ i ∈ range n, k * (f (i+1) ^ 2 - f i ^ 2) = k * (f n ^ 2 - f 0 ^ 2) := by
  rw [← Finset.mul_sum, Finset.sum_range_sub (fun i => f i ^ 2)]

theorem shells_sum (n : ℕ) (f : ℕ → α) (k : α) :
    ∑ i ∈ range n, k * (f (i+1) ^ 3 - f i ^ 3) = k * (f n ^ 3 - f 0 ^ 3) := by
  rw [← Finset.mul_sum, Finset.sum_range_sub (fun i => f i ^ 3)]

/-! ### SphericalGrid3D: the reported θ-factor is not the geometric one (known finding)

Geometric volume of a spherical shell sector: `(r₂³−r₁³)/3 · (cos θ₁ − cos θ₂) · Δφ`.
The code uses `Δθ·2/π` in place of `cos θ₁ − cos θ₂`.  They differ, e.g. for `θ ∈ [0, π/3]`. -/
theorem sph3_theta_factor_not_geometric :
    (Real.pi / 3 - 0) * 2 / Real.pi ≠ Real.cos 0 - Real.cos (Real.pi / 3) := by
  rw [Real.cos_zero, Real.cos_pi_div_three]
  have hp : Real.pi ≠ 0 := Real.pi_ne_zero
  have : (Real.pi / 3 - 0) * 2 / Real.pi = 2 / 3 := by field_simp; ring
  rw [this]; norm_num

/-- the two θ-factors do agree in total over the full polar range `[0, π]` (this is what
    `tests/test_cell_volumes.py` pins) -/
theorem sph3_theta_factor_total : (Real.pi - 0) * 2 / Real.pi = Real.cos 0 - Real.cos Real.pi := by
  rw [Real.cos_zero, Real.cos_pi]
  have hp : Real.pi ≠ 0 := Real.pi_ne_zero
  field_simp; norm_num

/-! ### non-vacuity -/
example (k : Kind) : (Examples.mesh k).WF ∧ (Examples.mesh k).interior (1, 1, 1) :=
  ⟨Examples.mesh_WF k, Examples.interior_111 k⟩
example : StrictIncr 3 Examples.f3 := Examples.f3_incr

end PyFV.C10
