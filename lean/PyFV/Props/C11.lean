/-
  Property C11 — the face averages of `averaging.py`.

  Two-point level: `arithmeticMean`, `linearMean` are convex combinations of the two adjacent
  cell values for every data; `harmonicMean`, `geometricMean` lie between them for positive data;
  all reproduce constants; `harmonic ≤ geometric ≤ arithmetic` with the same width weighting;
  `linearMean` reproduces linear fields exactly at the face of a non-uniform grid; the 1-D loop
  formula of `harmonicMean` agrees with the N-D closed form wherever both are defined.

  Mesh level: every face value depends on the two cells adjacent to the face only; `upwindMean`
  takes the donor cell (the boundary-face average on an inflow boundary face, the plain average
  where the velocity vanishes); the 1-D `harmonicMean` is total (explicit zero branch) whereas the
  N-D closed form is `0/0` for two adjacent zeros; `geometricMean` is 0 next to a zero.
-/
import PyFV.Lemmas.Means
import PyFV.Props.Examples

set_option linter.unusedSectionVars false
set_option linter.unusedVariables false

namespace PyFV.C11
open PyFV

variable {α : Type} [Field α] [LinearOrder α] [IsStrictOrderedRing α]

/-! ## two-point level -/

/-- `arithmeticMean` is a convex combination: any data, positive widths -/
theorem amean2_between {w0 w1 : α} (h0 : 0 < w0) (h1 : 0 < w1) (p0 p1 : α) :
    min p0 p1 ≤ amean2 w0 w1 p0 p1 ∧ amean2 w0 w1 p0 p1 ≤ max p0 p1 :=
  ⟨amean2_ge_of_le h0 h1 (min_le_left _ _) (min_le_right _ _),
   amean2_le_of_ge h0 h1 (le_max_left _ _) (le_max_right _ _)⟩

/-- `linearMean` is a convex combination: any data, positive widths -/
theorem lmean2_between {w0 w1 : α} (h0 : 0 < w0) (h1 : 0 < w1) (p0 p1 : α) :
    min p0 p1 ≤ lmean2 w0 w1 p0 p1 ∧ lmean2 w0 w1 p0 p1 ≤ max p0 p1 :=
  ⟨lmean2_ge_of_le h0 h1 (min_le_left _ _) (min_le_right _ _),
   lmean2_le_of_ge h0 h1 (le_max_left _ _) (le_max_right _ _)⟩

/-- `harmonicMean` lies between positive neighbours -/
theorem hmean2_between {w0 w1 p0 p1 : α} (h0 : 0 < w0) (h1 : 0 < w1) (hp0 : 0 < p0)
    (hp1 : 0 < p1) :
    min p0 p1 ≤ hmean2 w0 w1 p0 p1 ∧ hmean2 w0 w1 p0 p1 ≤ max p0 p1 :=
  ⟨hmean2_ge_of_le h0 h1 hp0 hp1 (min_le_left _ _) (min_le_right _ _),
   hmean2_le_of_ge h0 h1 hp0 hp1 (le_max_left _ _) (le_max_right _ _)⟩

theorem amean2_const {w0 w1 : α} (h0 : 0 < w0) (h1 : 0 < w1) (p : α) :
    amean2 w0 w1 p p = p := by
  have := wsum_ne h0 h1
  unfold amean2
  field_simp
  ring

theorem lmean2_const {w0 w1 : α} (h0 : 0 < w0) (h1 : 0 < w1) (p : α) :
    lmean2 w0 w1 p p = p := by
  have := wsum_ne h0 h1
  unfold lmean2
  field_simp

theorem hmean2_const {w0 w1 p : α} (h0 : 0 < w0) (h1 : 0 < w1) (hp : p ≠ 0) :
    hmean2 w0 w1 p p = p := by
  have := wsum_ne h0 h1
  have e : w1 * p + w0 * p = (w1 + w0) * p := by ring
  unfold hmean2
  rw [e]
  field_simp

theorem hmean2'_const {w0 w1 p : α} (h0 : 0 < w0) (h1 : 0 < w1) (hp : p ≠ 0) :
    hmean2' w0 w1 p p = p := by
  have := wsum_ne h0 h1
  have e : w1 / p + w0 / p = (w1 + w0) / p := by ring
  unfold hmean2'
  rw [e]
  field_simp

/-- the 1-D loop formula of `harmonicMean` equals the N-D closed form (non-zero neighbours) -/
theorem hmean2_eq_hmean2' {w0 w1 p0 p1 : α} (hp0 : p0 ≠ 0) (hp1 : p1 ≠ 0)
    (hd : w1 * p0 + w0 * p1 ≠ 0) : hmean2' w0 w1 p0 p1 = hmean2 w0 w1 p0 p1 := by
  have e : w1 / p1 + w0 / p0 = (w1 * p0 + w0 * p1) / (p1 * p0) := by
    field_simp
  unfold hmean2' hmean2
  rw [e, div_div_eq_mul_div]
  ring

/-- the two divisors vanish together: the 1-D loop divides by zero exactly where the closed
    form does (non-zero neighbours) -/
theorem hmean2'_den_ne_iff {w0 w1 p0 p1 : α} (hp0 : p0 ≠ 0) (hp1 : p1 ≠ 0) :
    w1 / p1 + w0 / p0 ≠ 0 ↔ w1 * p0 + w0 * p1 ≠ 0 := by
  have e : w1 / p1 + w0 / p0 = (w1 * p0 + w0 * p1) / (p1 * p0) := by
    field_simp
  rw [e]
  simp [hp0, hp1]

/-- weighted HM ≤ AM, same widths on the same cells, over any ordered field:
    `AM − HM = w0 w1 (p0 − p1)² / ((w0+w1)(w1 p0 + w0 p1))` -/
theorem hmean2_le_amean2 {w0 w1 p0 p1 : α} (h0 : 0 < w0) (h1 : 0 < w1) (hp0 : 0 < p0)
    (hp1 : 0 < p1) : hmean2 w0 w1 p0 p1 ≤ amean2 w0 w1 p0 p1 := by
  unfold hmean2 amean2
  rw [div_le_div_iff₀ (hden_pos h0 h1 hp0 hp1) (wsum_pos h0 h1)]
  have := mul_nonneg (mul_pos h0 h1).le (sq_nonneg (p0 - p1))
  nlinarith

/-- `linearMean` reproduces linear fields exactly at the face `xf` of a non-uniform grid
    (cell centres `xf − w0/2` and `xf + w1/2`) -/
theorem lmean2_linear_exact {w0 w1 : α} (h0 : 0 < w0) (h1 : 0 < w1) (a b xf x0 x1 p0 p1 : α)
    (hx0 : x0 = xf - w0 / 2) (hx1 : x1 = xf + w1 / 2)
    (e0 : p0 = a + b * x0) (e1 : p1 = a + b * x1) :
    lmean2 w0 w1 p0 p1 = a + b * xf := by
  have := wsum_ne h0 h1
  subst hx0 hx1 e0 e1
  unfold lmean2
  field_simp
  ring

/-- `arithmeticMean` (cell-size weights on the *same* cell) does not interpolate linearly on a
    non-uniform grid: widths 1 and 3 around the face `xf = 1`, field `φ = x` -/
theorem amean2_not_linear_exact :
    amean2 (1 : ℚ) 3 (1 - 1 / 2) (1 + 3 / 2) ≠ 1 := by
  norm_num [amean2]

/-! ### the geometric mean over `ℝ` -/

theorem gmean2_le_amean2 {w0 w1 p0 p1 : ℝ} (h0 : 0 < w0) (h1 : 0 < w1) (hp0 : 0 < p0)
    (hp1 : 0 < p1) : gmean2 w0 w1 p0 p1 ≤ amean2 w0 w1 p0 p1 := by
  rw [gmean2_eq_rpow h0 h1 hp0 hp1]
  have hs : w0 + w1 ≠ 0 := ne_of_gt (add_pos h0 h1)
  have hs' : w1 + w0 ≠ 0 := wsum_ne h0 h1
  have key := Real.geom_mean_le_arith_mean2_weighted (w₁ := w0 / (w0 + w1))
    (w₂ := w1 / (w0 + w1)) (p₁ := p0) (p₂ := p1) (by positivity) (by positivity) hp0.le hp1.le
    (by field_simp)
  refine le_trans key (le_of_eq ?_)
  unfold amean2
  field_simp
  ring

theorem hmean2_le_gmean2 {w0 w1 p0 p1 : ℝ} (h0 : 0 < w0) (h1 : 0 < w1) (hp0 : 0 < p0)
    (hp1 : 0 < p1) : hmean2 w0 w1 p0 p1 ≤ gmean2 w0 w1 p0 p1 := by
  have key := gmean2_le_amean2 h0 h1 (inv_pos.2 hp0) (inv_pos.2 hp1)
  rw [gmean2_inv] at key
  rw [hmean2_eq_inv_amean2_inv (ne_of_gt hp0) (ne_of_gt hp1)]
  have hg := gmean2_pos w0 w1 p0 p1
  have ha : 0 < amean2 w0 w1 p0⁻¹ p1⁻¹ := lt_of_lt_of_le (inv_pos.2 hg) key
  exact (inv_le_comm₀ hg ha).1 key

/-- `harmonic ≤ geometric ≤ arithmetic`, same width weighting, positive data -/
theorem hmean2_le_gmean2_le_amean2 {w0 w1 p0 p1 : ℝ} (h0 : 0 < w0) (h1 : 0 < w1) (hp0 : 0 < p0)
    (hp1 : 0 < p1) :
    hmean2 w0 w1 p0 p1 ≤ gmean2 w0 w1 p0 p1 ∧ gmean2 w0 w1 p0 p1 ≤ amean2 w0 w1 p0 p1 :=
  ⟨hmean2_le_gmean2 h0 h1 hp0 hp1, gmean2_le_amean2 h0 h1 hp0 hp1⟩

theorem gmean2_between {w0 w1 p0 p1 : ℝ} (h0 : 0 < w0) (h1 : 0 < w1) (hp0 : 0 < p0)
    (hp1 : 0 < p1) :
    min p0 p1 ≤ gmean2 w0 w1 p0 p1 ∧ gmean2 w0 w1 p0 p1 ≤ max p0 p1 := by
  have hmin : 0 < min p0 p1 := lt_min hp0 hp1
  have hmax : 0 < max p0 p1 := lt_of_lt_of_le hp0 (le_max_left _ _)
  rw [gmean2_eq_exp_amean2]
  constructor
  · have := amean2_ge_of_le (m := Real.log (min p0 p1)) h0 h1
      (Real.log_le_log hmin (min_le_left _ _)) (Real.log_le_log hmin (min_le_right _ _))
    calc min p0 p1 = Real.exp (Real.log (min p0 p1)) := (Real.exp_log hmin).symm
      _ ≤ _ := Real.exp_le_exp.2 this
  · have := amean2_le_of_ge (m := Real.log (max p0 p1)) h0 h1
      (Real.log_le_log hp0 (le_max_left _ _)) (Real.log_le_log hp1 (le_max_right _ _))
    calc _ ≤ Real.exp (Real.log (max p0 p1)) := Real.exp_le_exp.2 this
      _ = max p0 p1 := Real.exp_log hmax

theorem gmean2_const {w0 w1 p : ℝ} (h0 : 0 < w0) (h1 : 0 < w1) (hp : 0 < p) :
    gmean2 w0 w1 p p = p := by
  rw [gmean2_eq_exp_amean2, amean2_const h0 h1, Real.exp_log hp]

/-! ## mesh level -/

theorem linMean_eq (M : Mesh α) (φ : CellFld α) (d : Dir) (c : Idx) :
    linMean M φ d c
      = lmean2 ((M.axis d).DX (c.get d)) ((M.axis d).DX (c.get d + 1)) (φ c) (φ (c.next d)) := rfl

theorem arithMean_eq (M : Mesh α) (φ : CellFld α) (d : Dir) (c : Idx) :
    arithMean M φ d c
      = amean2 ((M.axis d).DX (c.get d)) ((M.axis d).DX (c.get d + 1)) (φ c) (φ (c.next d)) := rfl

/-- N-D `harmonicMean`: the closed form wherever its divisor is non-zero -/
theorem harmMean_eq_nd (M : Mesh α) (φ : CellFld α) (d : Dir) (c : Idx) (hk : M.kind.dim ≠ 1)
    (hd : (M.axis d).DX (c.get d + 1) * φ c + (M.axis d).DX (c.get d) * φ (c.next d) ≠ 0) :
    harmMean M φ d c
      = some (hmean2 ((M.axis d).DX (c.get d)) ((M.axis d).DX (c.get d + 1)) (φ c)
          (φ (c.next d))) := by
  by_cases hz : φ c = 0 ∨ φ (c.next d) = 0
  · rcases hz with h | h <;> simp [harmMean, h, hmean2]
  · simp [harmMean, hk, sdiv, hd, hmean2, hz]

/-- `geometricMean` over `Real.exp`/`Real.log`: the two-point formula for non-zero neighbours -/
theorem geoMean_eq (M : Mesh ℝ) (φ : CellFld ℝ) (d : Dir) (c : Idx) (hp0 : φ c ≠ 0)
    (hp1 : φ (c.next d) ≠ 0) :
    geoMean Real.exp Real.log M φ d c
      = gmean2 ((M.axis d).DX (c.get d)) ((M.axis d).DX (c.get d + 1)) (φ c) (φ (c.next d)) := by
  simp [geoMean, hp0, hp1, gmean2]

/-! ### locality: a face value depends on the two cells adjacent to the face only -/

theorem linMean_local (M : Mesh α) (φ ψ : CellFld α) (d : Dir) (c : Idx)
    (hc : φ c = ψ c) (hn : φ (c.next d) = ψ (c.next d)) : linMean M φ d c = linMean M ψ d c := by
  simp only [linMean, hc, hn]

theorem arithMean_local (M : Mesh α) (φ ψ : CellFld α) (d : Dir) (c : Idx)
    (hc : φ c = ψ c) (hn : φ (c.next d) = ψ (c.next d)) :
    arithMean M φ d c = arithMean M ψ d c := by
  simp only [arithMean, hc, hn]

theorem harmMean_local (M : Mesh α) (φ ψ : CellFld α) (d : Dir) (c : Idx)
    (hc : φ c = ψ c) (hn : φ (c.next d) = ψ (c.next d)) :
    harmMean M φ d c = harmMean M ψ d c := by
  simp only [harmMean, hc, hn]

theorem geoMean_local (ex lg : α → α) (M : Mesh α) (φ ψ : CellFld α) (d : Dir) (c : Idx)
    (hc : φ c = ψ c) (hn : φ (c.next d) = ψ (c.next d)) :
    geoMean ex lg M φ d c = geoMean ex lg M ψ d c := by
  simp only [geoMean, hc, hn]

/-- `upwindMean` on a face of the mesh (`c.get d ≤ n_d`): agreement on the two cells adjacent
    to the face suffices, ghost cells and boundary faces included -/
theorem upMean_local (M : Mesh α) (φ ψ : CellFld α) (u : FaceFld α) (d : Dir) (c : Idx)
    (hf : c.get d ≤ M.n d)
    (hc : φ c = ψ c) (hn : φ (c.next d) = ψ (c.next d)) :
    upMean M φ u d c = upMean M ψ u d c := by
  have b : ¬ c.get d = M.n d + 1 := by omega
  have e1 : phiTmp M φ d c = phiTmp M ψ d c := by
    simp only [phiTmp, b, if_false, hc, hn]
  have a' : ¬ c.get d + 1 = 0 := by omega
  have e2 : phiTmp M φ d (c.next d) = phiTmp M ψ d (c.next d) := by
    simp only [phiTmp, Idx.next_get, Idx.prev_next, a', if_false, hc, hn]
  simp only [upMean, e1, e2, hc, hn]

/-- the face-range hypothesis of `upMean_local` is needed: at the out-of-range position
    `c.get d = n_d + 1` (not a face of the mesh) `phiTmp` reads `c.prev d` -/
theorem upMean_local_offrange_counterexample :
    ∃ (M : Mesh ℚ) (φ ψ : CellFld ℚ) (u : FaceFld ℚ) (d : Dir) (c : Idx),
      φ c = ψ c ∧ φ (c.next d) = ψ (c.next d) ∧ upMean M φ u d c ≠ upMean M ψ u d c := by
  refine ⟨Examples.mesh .cart1, fun _ => 0, fun c => if c = (3, 1, 1) then 1 else 0,
    fun _ _ => 1, .x, (4, 1, 1), ?_, ?_, ?_⟩
  · simp
  · simp [Idx.next, Idx.set, Idx.get]
  · simp [upMean, phiTmp, Idx.next, Idx.prev, Idx.set, Idx.get, Mesh.n, Mesh.axis, Examples.mesh,
      Examples.ax3, mkAxisFaces]

/-! ### `upwindMean` takes the donor -/

/-- positive velocity on a face whose west cell is interior: the west (donor) cell value.
    (`c.get d ≤ n_d`: the position is a face of the mesh.) -/
theorem upMean_donor_pos (M : Mesh α) (φ : CellFld α) (u : FaceFld α) (d : Dir) (c : Idx)
    (hu : 0 < u d c) (h1 : 1 ≤ c.get d) (hf : c.get d ≤ M.n d) : upMean M φ u d c = φ c := by
  have a : ¬ u d c < 0 := not_lt.2 hu.le
  have b : ¬ u d c = 0 := ne_of_gt hu
  simp [upMean, hu, a, b, phiTmp_interior M φ d c h1 hf]

/-- negative velocity on a face whose east cell is interior: the east (donor) cell value -/
theorem upMean_donor_neg (M : Mesh α) (φ : CellFld α) (u : FaceFld α) (d : Dir) (c : Idx)
    (hu : u d c < 0) (hn : c.get d + 1 ≤ M.n d) : upMean M φ u d c = φ (c.next d) := by
  have a : ¬ 0 < u d c := not_lt.2 hu.le
  have b : ¬ u d c = 0 := ne_of_lt hu
  simp [upMean, hu, a, b, phiTmp_next_interior M φ d c hn]

/-- inflow through the low boundary face: the boundary value `(ghost + first cell)/2` -/
theorem upMean_inflow_lo (M : Mesh α) (φ : CellFld α) (u : FaceFld α) (d : Dir) (c : Idx)
    (hu : 0 < u d c) (h0 : c.get d = 0) : upMean M φ u d c = (φ c + φ (c.next d)) / 2 := by
  have a : ¬ u d c < 0 := not_lt.2 hu.le
  have b : ¬ u d c = 0 := ne_of_gt hu
  simp [upMean, hu, a, b, phiTmp_lo M φ d c h0]

/-- inflow through the high boundary face: the boundary value `(last cell + ghost)/2` -/
theorem upMean_inflow_hi (M : Mesh α) (φ : CellFld α) (u : FaceFld α) (d : Dir) (c : Idx)
    (hu : u d c < 0) (hn : c.get d = M.n d) : upMean M φ u d c = (φ c + φ (c.next d)) / 2 := by
  have a : ¬ 0 < u d c := not_lt.2 hu.le
  have b : ¬ u d c = 0 := ne_of_lt hu
  simp [upMean, hu, a, b, phiTmp_next_hi M φ d c hn]

/-- zero velocity: the plain average -/
theorem upMean_zero (M : Mesh α) (φ : CellFld α) (u : FaceFld α) (d : Dir) (c : Idx)
    (hu : u d c = 0) : upMean M φ u d c = (φ c + φ (c.next d)) / 2 := by
  simp [upMean, hu]

/-- without `c.get d ≤ n_d` the donor statement fails: at the out-of-range position
    `n_d + 1` the "donor" is the high ghost cell, which `phiTmp` replaces by the boundary average -/
theorem upMean_donor_pos_offrange_counterexample :
    ∃ (M : Mesh ℚ) (φ : CellFld ℚ) (u : FaceFld ℚ) (d : Dir) (c : Idx),
      0 < u d c ∧ 1 ≤ c.get d ∧ upMean M φ u d c ≠ φ c := by
  refine ⟨Examples.mesh .cart1, fun c => if c = (3, 1, 1) then 1 else 0,
    fun _ _ => 1, .x, (4, 1, 1), by norm_num, by simp [Idx.get], ?_⟩
  simp [upMean, phiTmp, Idx.next, Idx.prev, Idx.set, Idx.get, Mesh.n, Mesh.axis, Examples.mesh,
    Examples.ax3, mkAxisFaces]

/-! ### `harmonicMean`: 1-D loop vs N-D closed form -/

/-- 1-D grids: the loop never divides by a zero *value*: a zero neighbour gives `some 0`, and two
    non-zero neighbours give the loop formula whenever its divisor is non-zero -/
theorem harmMean_total_1d (M : Mesh α) (φ : CellFld α) (d : Dir) (c : Idx)
    (hk : M.kind.dim = 1) :
    ((φ c = 0 ∨ φ (c.next d) = 0) → harmMean M φ d c = some 0) ∧
    (φ c ≠ 0 → φ (c.next d) ≠ 0 →
      (M.axis d).DX (c.get d + 1) / φ (c.next d) + (M.axis d).DX (c.get d) / φ c ≠ 0 →
      harmMean M φ d c
        = some (hmean2' ((M.axis d).DX (c.get d)) ((M.axis d).DX (c.get d + 1)) (φ c)
            (φ (c.next d)))) := by
  constructor
  · intro h
    simp [harmMean, hk, h]
  · intro hp0 hp1 hd
    simp [harmMean, hk, hp0, hp1, sdiv, hd, hmean2']

/-- 1-D grids, positive widths, neighbours of one sign or zero: always `some _`, and the value
    is the N-D closed form when both are non-zero -/
theorem harmMean_1d_some_of_nonneg (M : Mesh α) (φ : CellFld α) (d : Dir) (c : Idx)
    (hk : M.kind.dim = 1) (hw : ∀ i, 0 < (M.axis d).DX i)
    (hp0 : 0 ≤ φ c) (hp1 : 0 ≤ φ (c.next d)) :
    ∃ v, harmMean M φ d c = some v ∧ 0 ≤ v ∧
      (0 < φ c → 0 < φ (c.next d) →
        v = hmean2 ((M.axis d).DX (c.get d)) ((M.axis d).DX (c.get d + 1)) (φ c)
          (φ (c.next d))) := by
  by_cases hz : φ c = 0 ∨ φ (c.next d) = 0
  · refine ⟨0, (harmMean_total_1d M φ d c hk).1 hz, le_refl _, ?_⟩
    intro a b
    rcases hz with h | h
    · exact absurd h (ne_of_gt a)
    · exact absurd h (ne_of_gt b)
  · have hz' := not_or.1 hz
    have q0 : 0 < φ c := lt_of_le_of_ne hp0 (Ne.symm hz'.1)
    have q1 : 0 < φ (c.next d) := lt_of_le_of_ne hp1 (Ne.symm hz'.2)
    have hd := ne_of_gt (hden_pos (hw (c.get d)) (hw (c.get d + 1)) q0 q1)
    have hd' := (hmean2'_den_ne_iff hz'.1 hz'.2).2 hd
    refine ⟨_, (harmMean_total_1d M φ d c hk).2 hz'.1 hz'.2 hd', ?_, ?_⟩
    · rw [hmean2_eq_hmean2' hz'.1 hz'.2 hd]
      exact (hmean2_pos (hw _) (hw _) q0 q1).le
    · intro _ _
      exact hmean2_eq_hmean2' hz'.1 hz'.2 hd

/-- N-D grids: a zero neighbour (one or both) gives 0, exactly as in the 1-D loop — "identically
    in 1D, 2D and 3D, including data that contain zeros" -/
theorem harmMean_nd_zero (M : Mesh α) (φ : CellFld α) (d : Dir) (c : Idx)
    (h : φ c = 0 ∨ φ (c.next d) = 0) : harmMean M φ d c = some 0 := by
  simp [harmMean, h]

/-- the two code paths agree on the same data whenever a neighbour is zero -/
theorem harmMean_1d_nd_agree_on_zeros (M N : Mesh α) (φ : CellFld α) (d : Dir) (c : Idx)
    (h : φ c = 0 ∨ φ (c.next d) = 0) : harmMean M φ d c = harmMean N φ d c := by
  rw [harmMean_nd_zero M φ d c h, harmMean_nd_zero N φ d c h]

/-- and on non-zero data with a non-vanishing divisor both give the same two-point value -/
theorem harmMean_1d_nd_agree_nonzero (M N : Mesh α) (φ : CellFld α) (d : Dir) (c : Idx)
    (hM : M.kind.dim = 1) (hN : N.kind.dim ≠ 1) (hax : M.axis d = N.axis d)
    (hp0 : φ c ≠ 0) (hp1 : φ (c.next d) ≠ 0)
    (hd : (N.axis d).DX (c.get d + 1) * φ c + (N.axis d).DX (c.get d) * φ (c.next d) ≠ 0) :
    harmMean M φ d c = harmMean N φ d c := by
  have hd' := (hmean2'_den_ne_iff hp0 hp1).2 hd
  have e := hmean2_eq_hmean2' hp0 hp1 hd
  simp only [hmean2, hmean2'] at e hd'
  simp [harmMean, hM, hN, hp0, hp1, sdiv, hd, hd', hax, e]

/-! ### `geometricMean` -/

theorem geoMean_zero (ex lg : α → α) (M : Mesh α) (φ : CellFld α) (d : Dir) (c : Idx)
    (h : φ c = 0 ∨ φ (c.next d) = 0) : geoMean ex lg M φ d c = 0 := by
  simp [geoMean, h]

/-! ### mesh-level corollaries of the two-point bounds -/

theorem linMean_between (M : Mesh α) (φ : CellFld α) (d : Dir) (c : Idx)
    (hw : ∀ i, 0 < (M.axis d).DX i) :
    min (φ c) (φ (c.next d)) ≤ linMean M φ d c ∧ linMean M φ d c ≤ max (φ c) (φ (c.next d)) :=
  lmean2_between (hw _) (hw _) _ _

theorem arithMean_between (M : Mesh α) (φ : CellFld α) (d : Dir) (c : Idx)
    (hw : ∀ i, 0 < (M.axis d).DX i) :
    min (φ c) (φ (c.next d)) ≤ arithMean M φ d c ∧
      arithMean M φ d c ≤ max (φ c) (φ (c.next d)) :=
  amean2_between (hw _) (hw _) _ _

theorem geoMean_between (M : Mesh ℝ) (φ : CellFld ℝ) (d : Dir) (c : Idx)
    (hw : ∀ i, 0 < (M.axis d).DX i) (hp0 : 0 < φ c) (hp1 : 0 < φ (c.next d)) :
    min (φ c) (φ (c.next d)) ≤ geoMean Real.exp Real.log M φ d c ∧
      geoMean Real.exp Real.log M φ d c ≤ max (φ c) (φ (c.next d)) := by
  rw [geoMean_eq M φ d c (ne_of_gt hp0) (ne_of_gt hp1)]
  exact gmean2_between (hw _) (hw _) hp0 hp1

/-! ## non-vacuity -/

example : amean2 (1 : ℚ) 3 2 6 = 5 := by norm_num [amean2]
example : lmean2 (1 : ℚ) 3 2 6 = 3 := by norm_num [lmean2]
example : hmean2 (1 : ℚ) 3 2 6 = 4 := by norm_num [hmean2]
example : hmean2' (1 : ℚ) 3 2 6 = 4 := by norm_num [hmean2']
example : hmean2 (1 : ℚ) 3 2 6 ≤ amean2 (1 : ℚ) 3 2 6 :=
  hmean2_le_amean2 (by norm_num) (by norm_num) (by norm_num) (by norm_num)
example : min (2 : ℚ) 6 ≤ hmean2 (1 : ℚ) 3 2 6 ∧ hmean2 (1 : ℚ) 3 2 6 ≤ max (2 : ℚ) 6 :=
  hmean2_between (by norm_num) (by norm_num) (by norm_num) (by norm_num)
/-- convexity holds for data of mixed sign -/
example : min (-2 : ℚ) 6 ≤ lmean2 (1 : ℚ) 3 (-2) 6 ∧ lmean2 (1 : ℚ) 3 (-2) 6 ≤ max (-2 : ℚ) 6 :=
  lmean2_between (by norm_num) (by norm_num) _ _
/-- linear field `φ = 1 + 2x`, face at `xf = 5`, widths 1 and 3 -/
example : lmean2 (1 : ℚ) 3 (1 + 2 * (5 - 1 / 2)) (1 + 2 * (5 + 3 / 2)) = 1 + 2 * 5 := by
  norm_num [lmean2]
example : lmean2 (1 : ℚ) 3 (1 + 2 * (5 - 1 / 2)) (1 + 2 * (5 + 3 / 2)) = 1 + 2 * 5 :=
  lmean2_linear_exact (by norm_num) (by norm_num) 1 2 5 _ _ _ _ rfl rfl rfl rfl
/-- the hypotheses of `hmean2_eq_hmean2'` do not force positivity: mixed signs -/
example : hmean2' (1 : ℚ) 3 (-2) 1 = hmean2 (1 : ℚ) 3 (-2) 1 :=
  hmean2_eq_hmean2' (by norm_num) (by norm_num) (by norm_num)
/-- non-zero neighbours of opposite sign can still make both divisors vanish -/
example : (3 : ℚ) * (-1) + 1 * 3 = 0 ∧ (3 : ℚ) / 3 + 1 / (-1) = 0 := by norm_num

example : hmean2 (1 : ℝ) 3 2 6 ≤ gmean2 1 3 2 6 ∧ gmean2 (1 : ℝ) 3 2 6 ≤ amean2 1 3 2 6 :=
  hmean2_le_gmean2_le_amean2 (by norm_num) (by norm_num) (by norm_num) (by norm_num)
example : gmean2 (1 : ℝ) 3 5 5 = 5 := gmean2_const (by norm_num) (by norm_num) (by norm_num)
example : (4 : ℝ) ≤ gmean2 1 3 2 6 ∧ gmean2 (1 : ℝ) 3 2 6 ≤ 5 := by
  have h := hmean2_le_gmean2_le_amean2 (w0 := (1 : ℝ)) (w1 := 3) (p0 := 2) (p1 := 6)
    (by norm_num) (by norm_num) (by norm_num) (by norm_num)
  have e1 : hmean2 (1 : ℝ) 3 2 6 = 4 := by norm_num [hmean2]
  have e2 : amean2 (1 : ℝ) 3 2 6 = 5 := by norm_num [amean2]
  rw [e1, e2] at h
  exact h

/-- the example meshes have positive widths along every axis -/
example (k : Kind) (d : Dir) (i : ℕ) : 0 < ((Examples.mesh k).axis d).DX i := by
  have h := Examples.mesh_WF k
  cases d
  · exact h.wx.pos i
  · exact h.wy.pos i
  · exact h.wz.pos i

/-- 1-D and 2-D example meshes agree on the zero field at the cell (1,1,1) -/
example :
    harmMean (Examples.mesh .cart1) (fun _ => (0 : ℚ)) .x (1, 1, 1) = some 0 ∧
    harmMean (Examples.mesh .cart2) (fun _ => (0 : ℚ)) .x (1, 1, 1) = some 0 :=
  ⟨harmMean_nd_zero _ _ _ _ (Or.inl rfl), harmMean_nd_zero _ _ _ _ (Or.inl rfl)⟩

/-- donor on an interior face of the example mesh -/
example (φ : CellFld ℚ) :
    upMean (Examples.mesh .cart2) φ (fun _ _ => 1) .x (1, 1, 1) = φ (1, 1, 1) :=
  upMean_donor_pos _ _ _ _ _ (by norm_num) (by simp [Idx.get])
    (by simp [Idx.get, Mesh.n, Mesh.axis, Examples.mesh, Examples.ax3, mkAxisFaces])

/-- inflow through the high boundary face (face 3 of a 3-cell axis) -/
example (φ : CellFld ℚ) :
    upMean (Examples.mesh .cart2) φ (fun _ _ => -1) .x (3, 1, 1)
      = (φ (3, 1, 1) + φ (4, 1, 1)) / 2 :=
  upMean_inflow_hi _ _ _ _ _ (by norm_num)
    (by simp [Idx.get, Mesh.n, Mesh.axis, Examples.mesh, Examples.ax3, mkAxisFaces])

end PyFV.C11
