/-
  PyFV.Props.GenEqUpw — the UPWIND coefficient formulas and the TVD right-hand sides REGENERATED FROM THE PYTHON
  SOURCE by the translator T-upw (harness/translate/tupw.py → PyFV/Gen/StencilsUpw.lean, rewritten on every run)
  are EQUAL to the hand-written model (`upwindSt`, `fsign`, `tvdRHS` of PyFV/Model/Terms.lean).

  `Gen.StencilsUpw.<builder>_<d> M u uUp i j k` is the (w, p, e) triple the Python builder writes into the matrix
  row of the interior cell at 0-based position (i, j, k) (model cell (i+1, j+1, k+1)), INCLUDING the in-place
  corrections of the cells next to the boundary, which the translator turns into `if i = 0 …` / `if i + 1 = M.ax.n …`
  in statement order (on a one-cell axis both corrections of the diagonal hit the same cell: the generated formula
  has the nested `if M.ax.n = 1` and agrees with the model's `p1`/`p2` chain).

  Hypotheses.  Upwind: only `M.kind` (the formulas agree as field expressions, `x / 0 = 0` included; no bound on
  i, j, k is needed because model and code test the same index equalities).  TVD: `M.kind` and the index bounds
  `i < M.ax.n` (…): the code writes the limiter terms only on faces `1..n` / `0..n-1` (slice assignments into
  `np.zeros`), the model tests `f = 0` / `f = n` only, so the two differ outside the grid
  (`convectionTvdRHS1D_needs_bound`).
-/
import PyFV.Gen.StencilsUpw
import PyFV.Props.Examples
import PyFV.Lemmas.GenEqTac
import Mathlib.Tactic.Ring
import Mathlib.Tactic.FieldSimp
import Mathlib.Tactic.NormNum

set_option linter.unusedSectionVars false
set_option linter.unusedSimpArgs false
set_option linter.unusedTactic false
set_option linter.unreachableTactic false
set_option linter.unusedVariables false

namespace PyFV.GenEqUpw
open PyFV

variable {α : Type} [Field α] [LinearOrder α] [IsStrictOrderedRing α]

/-- nothing in the scope of T-upw (18 functions) was left untranslated -/
theorem untranslated_eq : Gen.StencilsUpw.untranslated = [] := rfl

/-! ### advection.py: the nine `convectionUpwindTerm*` builders -/

theorem convectionUpwindTerm1D_x_eq (M : Mesh α) (hk : M.kind = .cart1) (u uUp : FaceFld α) (i j k : ℕ) :
    Gen.StencilsUpw.convectionUpwindTerm1D_x M u uUp i j k = upwindSt M u uUp .x (i+1, 1, 1) := by
  simp only [Gen.StencilsUpw.convectionUpwindTerm1D_x, upwindSt, uMin, uMax, lineA, lineV, lineM, hk, Mesh.axis, Mesh.n,
    Idx.get, Idx.prev, Idx.set, Nat.add_sub_cancel, Nat.add_eq_right]
  generalize M.ax.n = N
  by_cases h0 : i = 0 <;> by_cases hn : i + 1 = N
  · subst h0; subst hn; simp only [zero_add, ↓reduceIte, Nat.sub_self]; congr 1 <;> geq_cases
  · subst h0; simp only [zero_add, ↓reduceIte, hn, Nat.sub_self]; congr 1 <;> geq_cases
  · subst hn; simp only [↓reduceIte, h0, Nat.add_sub_cancel, Nat.add_eq_right]; congr 1 <;> geq_cases
  · simp only [↓reduceIte, h0, hn]; congr 1 <;> geq_cases

/-- without the extra argument the upwind direction is taken from `u` itself -/
theorem convectionUpwindTerm1D_x_noarg_eq (M : Mesh α) (hk : M.kind = .cart1) (u : FaceFld α) (i j k : ℕ) :
    Gen.StencilsUpw.convectionUpwindTerm1D_x_noarg M u i j k = upwindSt M u u .x (i+1, 1, 1) :=
  convectionUpwindTerm1D_x_eq M hk u u i j k

theorem convectionUpwindTerm1D_dirs_eq : Gen.StencilsUpw.convectionUpwindTerm1D_dirs = Kind.dirs .cart1 := rfl

theorem convectionUpwindTermCylindrical1D_x_eq (M : Mesh α) (hk : M.kind = .cyl1) (u uUp : FaceFld α) (i j k : ℕ) :
    Gen.StencilsUpw.convectionUpwindTermCylindrical1D_x M u uUp i j k = upwindSt M u uUp .x (i+1, 1, 1) := by
  simp only [Gen.StencilsUpw.convectionUpwindTermCylindrical1D_x, upwindSt, uMin, uMax, lineA, lineV, lineM, hk, Mesh.axis, Mesh.n,
    Idx.get, Idx.prev, Idx.set, Nat.add_sub_cancel, Nat.add_eq_right]
  generalize M.ax.n = N
  by_cases h0 : i = 0 <;> by_cases hn : i + 1 = N
  · subst h0; subst hn; simp only [zero_add, ↓reduceIte, Nat.sub_self]; congr 1 <;> geq_cases
  · subst h0; simp only [zero_add, ↓reduceIte, hn, Nat.sub_self]; congr 1 <;> geq_cases
  · subst hn; simp only [↓reduceIte, h0, Nat.add_sub_cancel, Nat.add_eq_right]; congr 1 <;> geq_cases
  · simp only [↓reduceIte, h0, hn]; congr 1 <;> geq_cases

/-- without the extra argument the upwind direction is taken from `u` itself -/
theorem convectionUpwindTermCylindrical1D_x_noarg_eq (M : Mesh α) (hk : M.kind = .cyl1) (u : FaceFld α) (i j k : ℕ) :
    Gen.StencilsUpw.convectionUpwindTermCylindrical1D_x_noarg M u i j k = upwindSt M u u .x (i+1, 1, 1) :=
  convectionUpwindTermCylindrical1D_x_eq M hk u u i j k

theorem convectionUpwindTermCylindrical1D_dirs_eq : Gen.StencilsUpw.convectionUpwindTermCylindrical1D_dirs = Kind.dirs .cyl1 := rfl

theorem convectionUpwindTermSpherical1D_x_eq (M : Mesh α) (hk : M.kind = .sph1) (u uUp : FaceFld α) (i j k : ℕ) :
    Gen.StencilsUpw.convectionUpwindTermSpherical1D_x M u uUp i j k = upwindSt M u uUp .x (i+1, 1, 1) := by
  simp only [Gen.StencilsUpw.convectionUpwindTermSpherical1D_x, upwindSt, uMin, uMax, lineA, lineV, lineM, hk, Mesh.axis, Mesh.n,
    Idx.get, Idx.prev, Idx.set, Nat.add_sub_cancel, Nat.add_eq_right]
  generalize M.ax.n = N
  by_cases h0 : i = 0 <;> by_cases hn : i + 1 = N
  · subst h0; subst hn; simp only [zero_add, ↓reduceIte, Nat.sub_self]; generalize M.ax.fc 1 ^ 3 - M.ax.fc 0 ^ 3 = V; congr 1 <;> geq_cases
  · subst h0; simp only [zero_add, ↓reduceIte, hn, Nat.sub_self]; generalize M.ax.fc 1 ^ 3 - M.ax.fc 0 ^ 3 = V; congr 1 <;> geq_cases
  · subst hn; simp only [↓reduceIte, h0, Nat.add_sub_cancel, Nat.add_eq_right]; generalize M.ax.fc (i + 1) ^ 3 - M.ax.fc i ^ 3 = V; congr 1 <;> geq_cases
  · simp only [↓reduceIte, h0, hn]; generalize M.ax.fc (i + 1) ^ 3 - M.ax.fc i ^ 3 = V; congr 1 <;> geq_cases

/-- without the extra argument the upwind direction is taken from `u` itself -/
theorem convectionUpwindTermSpherical1D_x_noarg_eq (M : Mesh α) (hk : M.kind = .sph1) (u : FaceFld α) (i j k : ℕ) :
    Gen.StencilsUpw.convectionUpwindTermSpherical1D_x_noarg M u i j k = upwindSt M u u .x (i+1, 1, 1) :=
  convectionUpwindTermSpherical1D_x_eq M hk u u i j k

theorem convectionUpwindTermSpherical1D_dirs_eq : Gen.StencilsUpw.convectionUpwindTermSpherical1D_dirs = Kind.dirs .sph1 := rfl

theorem convectionUpwindTerm2D_x_eq (M : Mesh α) (hk : M.kind = .cart2) (u uUp : FaceFld α) (i j k : ℕ) :
    Gen.StencilsUpw.convectionUpwindTerm2D_x M u uUp i j k = upwindSt M u uUp .x (i+1, j+1, 1) := by
  simp only [Gen.StencilsUpw.convectionUpwindTerm2D_x, upwindSt, uMin, uMax, lineA, lineV, lineM, hk, Mesh.axis, Mesh.n,
    Idx.get, Idx.prev, Idx.set, Nat.add_sub_cancel, Nat.add_eq_right]
  generalize M.ax.n = N
  by_cases h0 : i = 0 <;> by_cases hn : i + 1 = N
  · subst h0; subst hn; simp only [zero_add, ↓reduceIte, Nat.sub_self]; congr 1 <;> geq_cases
  · subst h0; simp only [zero_add, ↓reduceIte, hn, Nat.sub_self]; congr 1 <;> geq_cases
  · subst hn; simp only [↓reduceIte, h0, Nat.add_sub_cancel, Nat.add_eq_right]; congr 1 <;> geq_cases
  · simp only [↓reduceIte, h0, hn]; congr 1 <;> geq_cases

/-- without the extra argument the upwind direction is taken from `u` itself -/
theorem convectionUpwindTerm2D_x_noarg_eq (M : Mesh α) (hk : M.kind = .cart2) (u : FaceFld α) (i j k : ℕ) :
    Gen.StencilsUpw.convectionUpwindTerm2D_x_noarg M u i j k = upwindSt M u u .x (i+1, j+1, 1) :=
  convectionUpwindTerm2D_x_eq M hk u u i j k

theorem convectionUpwindTerm2D_y_eq (M : Mesh α) (hk : M.kind = .cart2) (u uUp : FaceFld α) (i j k : ℕ) :
    Gen.StencilsUpw.convectionUpwindTerm2D_y M u uUp i j k = upwindSt M u uUp .y (i+1, j+1, 1) := by
  simp only [Gen.StencilsUpw.convectionUpwindTerm2D_y, upwindSt, uMin, uMax, lineA, lineV, lineM, hk, Mesh.axis, Mesh.n,
    Idx.get, Idx.prev, Idx.set, Nat.add_sub_cancel, Nat.add_eq_right]
  generalize M.ay.n = N
  by_cases h0 : j = 0 <;> by_cases hn : j + 1 = N
  · subst h0; subst hn; simp only [zero_add, ↓reduceIte, Nat.sub_self]; congr 1 <;> geq_cases
  · subst h0; simp only [zero_add, ↓reduceIte, hn, Nat.sub_self]; congr 1 <;> geq_cases
  · subst hn; simp only [↓reduceIte, h0, Nat.add_sub_cancel, Nat.add_eq_right]; congr 1 <;> geq_cases
  · simp only [↓reduceIte, h0, hn]; congr 1 <;> geq_cases

/-- without the extra argument the upwind direction is taken from `u` itself -/
theorem convectionUpwindTerm2D_y_noarg_eq (M : Mesh α) (hk : M.kind = .cart2) (u : FaceFld α) (i j k : ℕ) :
    Gen.StencilsUpw.convectionUpwindTerm2D_y_noarg M u i j k = upwindSt M u u .y (i+1, j+1, 1) :=
  convectionUpwindTerm2D_y_eq M hk u u i j k

theorem convectionUpwindTerm2D_dirs_eq : Gen.StencilsUpw.convectionUpwindTerm2D_dirs = Kind.dirs .cart2 := rfl

theorem convectionUpwindTermCylindrical2D_x_eq (M : Mesh α) (hk : M.kind = .cyl2) (u uUp : FaceFld α) (i j k : ℕ) :
    Gen.StencilsUpw.convectionUpwindTermCylindrical2D_x M u uUp i j k = upwindSt M u uUp .x (i+1, j+1, 1) := by
  simp only [Gen.StencilsUpw.convectionUpwindTermCylindrical2D_x, upwindSt, uMin, uMax, lineA, lineV, lineM, hk, Mesh.axis, Mesh.n,
    Idx.get, Idx.prev, Idx.set, Nat.add_sub_cancel, Nat.add_eq_right]
  generalize M.ax.n = N
  by_cases h0 : i = 0 <;> by_cases hn : i + 1 = N
  · subst h0; subst hn; simp only [zero_add, ↓reduceIte, Nat.sub_self]; congr 1 <;> geq_cases
  · subst h0; simp only [zero_add, ↓reduceIte, hn, Nat.sub_self]; congr 1 <;> geq_cases
  · subst hn; simp only [↓reduceIte, h0, Nat.add_sub_cancel, Nat.add_eq_right]; congr 1 <;> geq_cases
  · simp only [↓reduceIte, h0, hn]; congr 1 <;> geq_cases

/-- without the extra argument the upwind direction is taken from `u` itself -/
theorem convectionUpwindTermCylindrical2D_x_noarg_eq (M : Mesh α) (hk : M.kind = .cyl2) (u : FaceFld α) (i j k : ℕ) :
    Gen.StencilsUpw.convectionUpwindTermCylindrical2D_x_noarg M u i j k = upwindSt M u u .x (i+1, j+1, 1) :=
  convectionUpwindTermCylindrical2D_x_eq M hk u u i j k

theorem convectionUpwindTermCylindrical2D_y_eq (M : Mesh α) (hk : M.kind = .cyl2) (u uUp : FaceFld α) (i j k : ℕ) :
    Gen.StencilsUpw.convectionUpwindTermCylindrical2D_y M u uUp i j k = upwindSt M u uUp .y (i+1, j+1, 1) := by
  simp only [Gen.StencilsUpw.convectionUpwindTermCylindrical2D_y, upwindSt, uMin, uMax, lineA, lineV, lineM, hk, Mesh.axis, Mesh.n,
    Idx.get, Idx.prev, Idx.set, Nat.add_sub_cancel, Nat.add_eq_right]
  generalize M.ay.n = N
  by_cases h0 : j = 0 <;> by_cases hn : j + 1 = N
  · subst h0; subst hn; simp only [zero_add, ↓reduceIte, Nat.sub_self]; congr 1 <;> geq_cases
  · subst h0; simp only [zero_add, ↓reduceIte, hn, Nat.sub_self]; congr 1 <;> geq_cases
  · subst hn; simp only [↓reduceIte, h0, Nat.add_sub_cancel, Nat.add_eq_right]; congr 1 <;> geq_cases
  · simp only [↓reduceIte, h0, hn]; congr 1 <;> geq_cases

/-- without the extra argument the upwind direction is taken from `u` itself -/
theorem convectionUpwindTermCylindrical2D_y_noarg_eq (M : Mesh α) (hk : M.kind = .cyl2) (u : FaceFld α) (i j k : ℕ) :
    Gen.StencilsUpw.convectionUpwindTermCylindrical2D_y_noarg M u i j k = upwindSt M u u .y (i+1, j+1, 1) :=
  convectionUpwindTermCylindrical2D_y_eq M hk u u i j k

theorem convectionUpwindTermCylindrical2D_dirs_eq : Gen.StencilsUpw.convectionUpwindTermCylindrical2D_dirs = Kind.dirs .cyl2 := rfl

theorem convectionUpwindTermPolar2D_x_eq (M : Mesh α) (hk : M.kind = .pol2) (u uUp : FaceFld α) (i j k : ℕ) :
    Gen.StencilsUpw.convectionUpwindTermPolar2D_x M u uUp i j k = upwindSt M u uUp .x (i+1, j+1, 1) := by
  simp only [Gen.StencilsUpw.convectionUpwindTermPolar2D_x, upwindSt, uMin, uMax, lineA, lineV, lineM, hk, Mesh.axis, Mesh.n,
    Idx.get, Idx.prev, Idx.set, Nat.add_sub_cancel, Nat.add_eq_right]
  generalize M.ax.n = N
  by_cases h0 : i = 0 <;> by_cases hn : i + 1 = N
  · subst h0; subst hn; simp only [zero_add, ↓reduceIte, Nat.sub_self]; congr 1 <;> geq_cases
  · subst h0; simp only [zero_add, ↓reduceIte, hn, Nat.sub_self]; congr 1 <;> geq_cases
  · subst hn; simp only [↓reduceIte, h0, Nat.add_sub_cancel, Nat.add_eq_right]; congr 1 <;> geq_cases
  · simp only [↓reduceIte, h0, hn]; congr 1 <;> geq_cases

/-- without the extra argument the upwind direction is taken from `u` itself -/
theorem convectionUpwindTermPolar2D_x_noarg_eq (M : Mesh α) (hk : M.kind = .pol2) (u : FaceFld α) (i j k : ℕ) :
    Gen.StencilsUpw.convectionUpwindTermPolar2D_x_noarg M u i j k = upwindSt M u u .x (i+1, j+1, 1) :=
  convectionUpwindTermPolar2D_x_eq M hk u u i j k

theorem convectionUpwindTermPolar2D_y_eq (M : Mesh α) (hk : M.kind = .pol2) (u uUp : FaceFld α) (i j k : ℕ) :
    Gen.StencilsUpw.convectionUpwindTermPolar2D_y M u uUp i j k = upwindSt M u uUp .y (i+1, j+1, 1) := by
  simp only [Gen.StencilsUpw.convectionUpwindTermPolar2D_y, upwindSt, uMin, uMax, lineA, lineV, lineM, hk, Mesh.axis, Mesh.n,
    Idx.get, Idx.prev, Idx.set, Nat.add_sub_cancel, Nat.add_eq_right]
  generalize M.ay.n = N
  by_cases h0 : j = 0 <;> by_cases hn : j + 1 = N
  · subst h0; subst hn; simp only [zero_add, ↓reduceIte, Nat.sub_self]; congr 1 <;> geq_cases
  · subst h0; simp only [zero_add, ↓reduceIte, hn, Nat.sub_self]; congr 1 <;> geq_cases
  · subst hn; simp only [↓reduceIte, h0, Nat.add_sub_cancel, Nat.add_eq_right]; congr 1 <;> geq_cases
  · simp only [↓reduceIte, h0, hn]; congr 1 <;> geq_cases

/-- without the extra argument the upwind direction is taken from `u` itself -/
theorem convectionUpwindTermPolar2D_y_noarg_eq (M : Mesh α) (hk : M.kind = .pol2) (u : FaceFld α) (i j k : ℕ) :
    Gen.StencilsUpw.convectionUpwindTermPolar2D_y_noarg M u i j k = upwindSt M u u .y (i+1, j+1, 1) :=
  convectionUpwindTermPolar2D_y_eq M hk u u i j k

theorem convectionUpwindTermPolar2D_dirs_eq : Gen.StencilsUpw.convectionUpwindTermPolar2D_dirs = Kind.dirs .pol2 := rfl

theorem convectionUpwindTerm3D_x_eq (M : Mesh α) (hk : M.kind = .cart3) (u uUp : FaceFld α) (i j k : ℕ) :
    Gen.StencilsUpw.convectionUpwindTerm3D_x M u uUp i j k = upwindSt M u uUp .x (i+1, j+1, k+1) := by
  simp only [Gen.StencilsUpw.convectionUpwindTerm3D_x, upwindSt, uMin, uMax, lineA, lineV, lineM, hk, Mesh.axis, Mesh.n,
    Idx.get, Idx.prev, Idx.set, Nat.add_sub_cancel, Nat.add_eq_right]
  generalize M.ax.n = N
  by_cases h0 : i = 0 <;> by_cases hn : i + 1 = N
  · subst h0; subst hn; simp only [zero_add, ↓reduceIte, Nat.sub_self]; congr 1 <;> geq_cases
  · subst h0; simp only [zero_add, ↓reduceIte, hn, Nat.sub_self]; congr 1 <;> geq_cases
  · subst hn; simp only [↓reduceIte, h0, Nat.add_sub_cancel, Nat.add_eq_right]; congr 1 <;> geq_cases
  · simp only [↓reduceIte, h0, hn]; congr 1 <;> geq_cases

/-- without the extra argument the upwind direction is taken from `u` itself -/
theorem convectionUpwindTerm3D_x_noarg_eq (M : Mesh α) (hk : M.kind = .cart3) (u : FaceFld α) (i j k : ℕ) :
    Gen.StencilsUpw.convectionUpwindTerm3D_x_noarg M u i j k = upwindSt M u u .x (i+1, j+1, k+1) :=
  convectionUpwindTerm3D_x_eq M hk u u i j k

theorem convectionUpwindTerm3D_y_eq (M : Mesh α) (hk : M.kind = .cart3) (u uUp : FaceFld α) (i j k : ℕ) :
    Gen.StencilsUpw.convectionUpwindTerm3D_y M u uUp i j k = upwindSt M u uUp .y (i+1, j+1, k+1) := by
  simp only [Gen.StencilsUpw.convectionUpwindTerm3D_y, upwindSt, uMin, uMax, lineA, lineV, lineM, hk, Mesh.axis, Mesh.n,
    Idx.get, Idx.prev, Idx.set, Nat.add_sub_cancel, Nat.add_eq_right]
  generalize M.ay.n = N
  by_cases h0 : j = 0 <;> by_cases hn : j + 1 = N
  · subst h0; subst hn; simp only [zero_add, ↓reduceIte, Nat.sub_self]; congr 1 <;> geq_cases
  · subst h0; simp only [zero_add, ↓reduceIte, hn, Nat.sub_self]; congr 1 <;> geq_cases
  · subst hn; simp only [↓reduceIte, h0, Nat.add_sub_cancel, Nat.add_eq_right]; congr 1 <;> geq_cases
  · simp only [↓reduceIte, h0, hn]; congr 1 <;> geq_cases

/-- without the extra argument the upwind direction is taken from `u` itself -/
theorem convectionUpwindTerm3D_y_noarg_eq (M : Mesh α) (hk : M.kind = .cart3) (u : FaceFld α) (i j k : ℕ) :
    Gen.StencilsUpw.convectionUpwindTerm3D_y_noarg M u i j k = upwindSt M u u .y (i+1, j+1, k+1) :=
  convectionUpwindTerm3D_y_eq M hk u u i j k

theorem convectionUpwindTerm3D_z_eq (M : Mesh α) (hk : M.kind = .cart3) (u uUp : FaceFld α) (i j k : ℕ) :
    Gen.StencilsUpw.convectionUpwindTerm3D_z M u uUp i j k = upwindSt M u uUp .z (i+1, j+1, k+1) := by
  simp only [Gen.StencilsUpw.convectionUpwindTerm3D_z, upwindSt, uMin, uMax, lineA, lineV, lineM, hk, Mesh.axis, Mesh.n,
    Idx.get, Idx.prev, Idx.set, Nat.add_sub_cancel, Nat.add_eq_right]
  generalize M.az.n = N
  by_cases h0 : k = 0 <;> by_cases hn : k + 1 = N
  · subst h0; subst hn; simp only [zero_add, ↓reduceIte, Nat.sub_self]; congr 1 <;> geq_cases
  · subst h0; simp only [zero_add, ↓reduceIte, hn, Nat.sub_self]; congr 1 <;> geq_cases
  · subst hn; simp only [↓reduceIte, h0, Nat.add_sub_cancel, Nat.add_eq_right]; congr 1 <;> geq_cases
  · simp only [↓reduceIte, h0, hn]; congr 1 <;> geq_cases

/-- without the extra argument the upwind direction is taken from `u` itself -/
theorem convectionUpwindTerm3D_z_noarg_eq (M : Mesh α) (hk : M.kind = .cart3) (u : FaceFld α) (i j k : ℕ) :
    Gen.StencilsUpw.convectionUpwindTerm3D_z_noarg M u i j k = upwindSt M u u .z (i+1, j+1, k+1) :=
  convectionUpwindTerm3D_z_eq M hk u u i j k

theorem convectionUpwindTerm3D_dirs_eq : Gen.StencilsUpw.convectionUpwindTerm3D_dirs = Kind.dirs .cart3 := rfl

theorem convectionUpwindTermCylindrical3D_x_eq (M : Mesh α) (hk : M.kind = .cyl3) (u uUp : FaceFld α) (i j k : ℕ) :
    Gen.StencilsUpw.convectionUpwindTermCylindrical3D_x M u uUp i j k = upwindSt M u uUp .x (i+1, j+1, k+1) := by
  simp only [Gen.StencilsUpw.convectionUpwindTermCylindrical3D_x, upwindSt, uMin, uMax, lineA, lineV, lineM, hk, Mesh.axis, Mesh.n,
    Idx.get, Idx.prev, Idx.set, Nat.add_sub_cancel, Nat.add_eq_right]
  generalize M.ax.n = N
  by_cases h0 : i = 0 <;> by_cases hn : i + 1 = N
  · subst h0; subst hn; simp only [zero_add, ↓reduceIte, Nat.sub_self]; congr 1 <;> geq_cases
  · subst h0; simp only [zero_add, ↓reduceIte, hn, Nat.sub_self]; congr 1 <;> geq_cases
  · subst hn; simp only [↓reduceIte, h0, Nat.add_sub_cancel, Nat.add_eq_right]; congr 1 <;> geq_cases
  · simp only [↓reduceIte, h0, hn]; congr 1 <;> geq_cases

/-- without the extra argument the upwind direction is taken from `u` itself -/
theorem convectionUpwindTermCylindrical3D_x_noarg_eq (M : Mesh α) (hk : M.kind = .cyl3) (u : FaceFld α) (i j k : ℕ) :
    Gen.StencilsUpw.convectionUpwindTermCylindrical3D_x_noarg M u i j k = upwindSt M u u .x (i+1, j+1, k+1) :=
  convectionUpwindTermCylindrical3D_x_eq M hk u u i j k

theorem convectionUpwindTermCylindrical3D_y_eq (M : Mesh α) (hk : M.kind = .cyl3) (u uUp : FaceFld α) (i j k : ℕ) :
    Gen.StencilsUpw.convectionUpwindTermCylindrical3D_y M u uUp i j k = upwindSt M u uUp .y (i+1, j+1, k+1) := by
  simp only [Gen.StencilsUpw.convectionUpwindTermCylindrical3D_y, upwindSt, uMin, uMax, lineA, lineV, lineM, hk, Mesh.axis, Mesh.n,
    Idx.get, Idx.prev, Idx.set, Nat.add_sub_cancel, Nat.add_eq_right]
  generalize M.ay.n = N
  by_cases h0 : j = 0 <;> by_cases hn : j + 1 = N
  · subst h0; subst hn; simp only [zero_add, ↓reduceIte, Nat.sub_self]; congr 1 <;> geq_cases
  · subst h0; simp only [zero_add, ↓reduceIte, hn, Nat.sub_self]; congr 1 <;> geq_cases
  · subst hn; simp only [↓reduceIte, h0, Nat.add_sub_cancel, Nat.add_eq_right]; congr 1 <;> geq_cases
  · simp only [↓reduceIte, h0, hn]; congr 1 <;> geq_cases

/-- without the extra argument the upwind direction is taken from `u` itself -/
theorem convectionUpwindTermCylindrical3D_y_noarg_eq (M : Mesh α) (hk : M.kind = .cyl3) (u : FaceFld α) (i j k : ℕ) :
    Gen.StencilsUpw.convectionUpwindTermCylindrical3D_y_noarg M u i j k = upwindSt M u u .y (i+1, j+1, k+1) :=
  convectionUpwindTermCylindrical3D_y_eq M hk u u i j k

theorem convectionUpwindTermCylindrical3D_z_eq (M : Mesh α) (hk : M.kind = .cyl3) (u uUp : FaceFld α) (i j k : ℕ) :
    Gen.StencilsUpw.convectionUpwindTermCylindrical3D_z M u uUp i j k = upwindSt M u uUp .z (i+1, j+1, k+1) := by
  simp only [Gen.StencilsUpw.convectionUpwindTermCylindrical3D_z, upwindSt, uMin, uMax, lineA, lineV, lineM, hk, Mesh.axis, Mesh.n,
    Idx.get, Idx.prev, Idx.set, Nat.add_sub_cancel, Nat.add_eq_right]
  generalize M.az.n = N
  by_cases h0 : k = 0 <;> by_cases hn : k + 1 = N
  · subst h0; subst hn; simp only [zero_add, ↓reduceIte, Nat.sub_self]; congr 1 <;> geq_cases
  · subst h0; simp only [zero_add, ↓reduceIte, hn, Nat.sub_self]; congr 1 <;> geq_cases
  · subst hn; simp only [↓reduceIte, h0, Nat.add_sub_cancel, Nat.add_eq_right]; congr 1 <;> geq_cases
  · simp only [↓reduceIte, h0, hn]; congr 1 <;> geq_cases

/-- without the extra argument the upwind direction is taken from `u` itself -/
theorem convectionUpwindTermCylindrical3D_z_noarg_eq (M : Mesh α) (hk : M.kind = .cyl3) (u : FaceFld α) (i j k : ℕ) :
    Gen.StencilsUpw.convectionUpwindTermCylindrical3D_z_noarg M u i j k = upwindSt M u u .z (i+1, j+1, k+1) :=
  convectionUpwindTermCylindrical3D_z_eq M hk u u i j k

theorem convectionUpwindTermCylindrical3D_dirs_eq : Gen.StencilsUpw.convectionUpwindTermCylindrical3D_dirs = Kind.dirs .cyl3 := rfl

theorem convectionUpwindTermSpherical3D_x_eq (M : Mesh α) (hk : M.kind = .sph3) (u uUp : FaceFld α) (i j k : ℕ) :
    Gen.StencilsUpw.convectionUpwindTermSpherical3D_x M u uUp i j k = upwindSt M u uUp .x (i+1, j+1, k+1) := by
  simp only [Gen.StencilsUpw.convectionUpwindTermSpherical3D_x, upwindSt, uMin, uMax, lineA, lineV, lineM, hk, Mesh.axis, Mesh.n,
    Idx.get, Idx.prev, Idx.set, Nat.add_sub_cancel, Nat.add_eq_right]
  generalize M.ax.n = N
  by_cases h0 : i = 0 <;> by_cases hn : i + 1 = N
  · subst h0; subst hn; simp only [zero_add, ↓reduceIte, Nat.sub_self]; congr 1 <;> geq_cases
  · subst h0; simp only [zero_add, ↓reduceIte, hn, Nat.sub_self]; congr 1 <;> geq_cases
  · subst hn; simp only [↓reduceIte, h0, Nat.add_sub_cancel, Nat.add_eq_right]; congr 1 <;> geq_cases
  · simp only [↓reduceIte, h0, hn]; congr 1 <;> geq_cases

/-- without the extra argument the upwind direction is taken from `u` itself -/
theorem convectionUpwindTermSpherical3D_x_noarg_eq (M : Mesh α) (hk : M.kind = .sph3) (u : FaceFld α) (i j k : ℕ) :
    Gen.StencilsUpw.convectionUpwindTermSpherical3D_x_noarg M u i j k = upwindSt M u u .x (i+1, j+1, k+1) :=
  convectionUpwindTermSpherical3D_x_eq M hk u u i j k

theorem convectionUpwindTermSpherical3D_y_eq (M : Mesh α) (hk : M.kind = .sph3) (u uUp : FaceFld α) (i j k : ℕ) :
    Gen.StencilsUpw.convectionUpwindTermSpherical3D_y M u uUp i j k = upwindSt M u uUp .y (i+1, j+1, k+1) := by
  simp only [Gen.StencilsUpw.convectionUpwindTermSpherical3D_y, upwindSt, uMin, uMax, lineA, lineV, lineM, hk, Mesh.axis, Mesh.n,
    Idx.get, Idx.prev, Idx.set, Nat.add_sub_cancel, Nat.add_eq_right]
  generalize M.ay.n = N
  by_cases h0 : j = 0 <;> by_cases hn : j + 1 = N
  · subst h0; subst hn; simp only [zero_add, ↓reduceIte, Nat.sub_self]; congr 1 <;> geq_cases
  · subst h0; simp only [zero_add, ↓reduceIte, hn, Nat.sub_self]; congr 1 <;> geq_cases
  · subst hn; simp only [↓reduceIte, h0, Nat.add_sub_cancel, Nat.add_eq_right]; congr 1 <;> geq_cases
  · simp only [↓reduceIte, h0, hn]; congr 1 <;> geq_cases

/-- without the extra argument the upwind direction is taken from `u` itself -/
theorem convectionUpwindTermSpherical3D_y_noarg_eq (M : Mesh α) (hk : M.kind = .sph3) (u : FaceFld α) (i j k : ℕ) :
    Gen.StencilsUpw.convectionUpwindTermSpherical3D_y_noarg M u i j k = upwindSt M u u .y (i+1, j+1, k+1) :=
  convectionUpwindTermSpherical3D_y_eq M hk u u i j k

theorem convectionUpwindTermSpherical3D_z_eq (M : Mesh α) (hk : M.kind = .sph3) (u uUp : FaceFld α) (i j k : ℕ) :
    Gen.StencilsUpw.convectionUpwindTermSpherical3D_z M u uUp i j k = upwindSt M u uUp .z (i+1, j+1, k+1) := by
  simp only [Gen.StencilsUpw.convectionUpwindTermSpherical3D_z, upwindSt, uMin, uMax, lineA, lineV, lineM, hk, Mesh.axis, Mesh.n,
    Idx.get, Idx.prev, Idx.set, Nat.add_sub_cancel, Nat.add_eq_right]
  generalize M.az.n = N
  by_cases h0 : k = 0 <;> by_cases hn : k + 1 = N
  · subst h0; subst hn; simp only [zero_add, ↓reduceIte, Nat.sub_self]; congr 1 <;> geq_cases
  · subst h0; simp only [zero_add, ↓reduceIte, hn, Nat.sub_self]; congr 1 <;> geq_cases
  · subst hn; simp only [↓reduceIte, h0, Nat.add_sub_cancel, Nat.add_eq_right]; congr 1 <;> geq_cases
  · simp only [↓reduceIte, h0, hn]; congr 1 <;> geq_cases

/-- without the extra argument the upwind direction is taken from `u` itself -/
theorem convectionUpwindTermSpherical3D_z_noarg_eq (M : Mesh α) (hk : M.kind = .sph3) (u : FaceFld α) (i j k : ℕ) :
    Gen.StencilsUpw.convectionUpwindTermSpherical3D_z_noarg M u i j k = upwindSt M u u .z (i+1, j+1, k+1) :=
  convectionUpwindTermSpherical3D_z_eq M hk u u i j k

theorem convectionUpwindTermSpherical3D_dirs_eq : Gen.StencilsUpw.convectionUpwindTermSpherical3D_dirs = Kind.dirs .sph3 := rfl

/-- the dispatcher `convectionUpwindTerm` calls, for each grid class, the builder proved equal to the model of that class -/
theorem dispatch_convectionUpwindTerm_eq (k : Kind) :
    Gen.StencilsUpw.dispatch_convectionUpwindTerm.lookup k = some (match k with
      | .cart1 => "convectionUpwindTerm1D"
      | .cyl1 => "convectionUpwindTermCylindrical1D"
      | .sph1 => "convectionUpwindTermSpherical1D"
      | .cart2 => "convectionUpwindTerm2D"
      | .cyl2 => "convectionUpwindTermCylindrical2D"
      | .pol2 => "convectionUpwindTermPolar2D"
      | .cart3 => "convectionUpwindTerm3D"
      | .cyl3 => "convectionUpwindTermCylindrical3D"
      | .sph3 => "convectionUpwindTermSpherical3D") := by
  cases k <;> rfl

/-! ### advection.py: `_fsign` and the nine `convectionTvdRHS*` right-hand sides -/

/-- the translated `_fsign` is the model's `fsign` at the threshold read from the source (`eps1=1e-16`) -/
theorem fn_fsign_eq (x : α) :
    Gen.StencilsUpw.fn_fsign x = fsign (Gen.StencilsUpw.fn_fsign_eps1 : α) x := by
  simp only [Gen.StencilsUpw.fn_fsign, fsign, ite_mul, mul_ite, one_mul, zero_mul, mul_one, mul_zero]
  split_ifs <;> geq_ring

/-- the threshold read from the source is the IEEE double nearest to `1e-16` -/
theorem fn_fsign_eps1_val : (Gen.StencilsUpw.fn_fsign_eps1 : α) = 2028240960365167 / 2 ^ 104 := by
  unfold Gen.StencilsUpw.fn_fsign_eps1; norm_num

theorem fn_fsign_eps1_pos : (0 : α) < Gen.StencilsUpw.fn_fsign_eps1 := by
  unfold Gen.StencilsUpw.fn_fsign_eps1; positivity

theorem convectionTvdRHS1D_eq (M : Mesh α) (hk : M.kind = .cart1) (u uUp : FaceFld α) (FL : α → α)
    (φ : CellFld α) (i j k : ℕ) (hv : i < M.ax.n) :
    Gen.StencilsUpw.convectionTvdRHS1D M u uUp FL φ i j k = tvdRHS M u uUp FL (Gen.StencilsUpw.fn_fsign_eps1 : α) φ (i+1, 1, 1) := by
  have hdx : ∀ a b : α, (1:α)/2 * (a + b) = (a + b)/2 := by intros; ring
  simp only [Gen.StencilsUpw.convectionTvdRHS1D, tvdRHS, divergence, sumDirs, divD, tvdFlux, psiP, psiM, dphi,
    uMin, uMax, lineA, lineV, lineM, hk, Mesh.axis, Mesh.n, Axis.dxf, Idx.get, Idx.prev, Idx.next, Idx.set,
    Kind.active, Kind.dim, Nat.add_sub_cancel, Nat.not_ofNat_le_one, Nat.reduceLeDiff, le_refl,
    decide_true, decide_false, Bool.false_eq_true, ↓reduceIte, add_zero, fn_fsign_eq, hdx, hv,
    Nat.add_assoc, Nat.reduceAdd, Nat.add_eq_zero_iff, one_ne_zero, and_false]
  generalize M.ax.n = N at *
  have hN : ¬ i = N := by omega
  by_cases hn : i + 1 = N
  · rcases Nat.eq_zero_or_pos i with h0 | h0
    · subst h0; subst hn
      simp only [↓reduceIte, zero_add, hN]
      geq_cases
    · obtain ⟨i, rfl⟩ : ∃ v', i = v' + 1 := ⟨i - 1, by omega⟩
      simp only [↓reduceIte, hn, hN, Nat.add_sub_cancel, Nat.add_eq_zero_iff, one_ne_zero, and_false,
        Nat.le_add_left, Nat.add_assoc, Nat.reduceAdd]
      geq_cases
  · have hn' : i + 1 < N := by omega
    rcases Nat.eq_zero_or_pos i with h0 | h0
    · subst h0
      simp only [↓reduceIte, zero_add, hN, hn, hn']
      geq_cases
    · obtain ⟨i, rfl⟩ : ∃ v', i = v' + 1 := ⟨i - 1, by omega⟩
      simp only [↓reduceIte, hn, hn', hN, Nat.add_sub_cancel, Nat.add_eq_zero_iff, one_ne_zero, and_false,
        Nat.le_add_left, Nat.add_assoc, Nat.reduceAdd]
      geq_cases

/-- without the extra argument the upwind direction is taken from `u` itself -/
theorem convectionTvdRHS1D_noarg_eq (M : Mesh α) (hk : M.kind = .cart1) (u : FaceFld α) (FL : α → α)
    (φ : CellFld α) (i j k : ℕ) (hv : i < M.ax.n) :
    Gen.StencilsUpw.convectionTvdRHS1D_noarg M u FL φ i j k = tvdRHS M u u FL (Gen.StencilsUpw.fn_fsign_eps1 : α) φ (i+1, 1, 1) :=
  convectionTvdRHS1D_eq M hk u u FL φ i j k hv

theorem convectionTvdRHSCylindrical1D_eq (M : Mesh α) (hk : M.kind = .cyl1) (u uUp : FaceFld α) (FL : α → α)
    (φ : CellFld α) (i j k : ℕ) (hv : i < M.ax.n) :
    Gen.StencilsUpw.convectionTvdRHSCylindrical1D M u uUp FL φ i j k = tvdRHS M u uUp FL (Gen.StencilsUpw.fn_fsign_eps1 : α) φ (i+1, 1, 1) := by
  have hdx : ∀ a b : α, (1:α)/2 * (a + b) = (a + b)/2 := by intros; ring
  simp only [Gen.StencilsUpw.convectionTvdRHSCylindrical1D, tvdRHS, divergence, sumDirs, divD, tvdFlux, psiP, psiM, dphi,
    uMin, uMax, lineA, lineV, lineM, hk, Mesh.axis, Mesh.n, Axis.dxf, Idx.get, Idx.prev, Idx.next, Idx.set,
    Kind.active, Kind.dim, Nat.add_sub_cancel, Nat.not_ofNat_le_one, Nat.reduceLeDiff, le_refl,
    decide_true, decide_false, Bool.false_eq_true, ↓reduceIte, add_zero, fn_fsign_eq, hdx, hv,
    Nat.add_assoc, Nat.reduceAdd, Nat.add_eq_zero_iff, one_ne_zero, and_false]
  generalize M.ax.n = N at *
  have hN : ¬ i = N := by omega
  by_cases hn : i + 1 = N
  · rcases Nat.eq_zero_or_pos i with h0 | h0
    · subst h0; subst hn
      simp only [↓reduceIte, zero_add, hN]
      geq_cases
    · obtain ⟨i, rfl⟩ : ∃ v', i = v' + 1 := ⟨i - 1, by omega⟩
      simp only [↓reduceIte, hn, hN, Nat.add_sub_cancel, Nat.add_eq_zero_iff, one_ne_zero, and_false,
        Nat.le_add_left, Nat.add_assoc, Nat.reduceAdd]
      geq_cases
  · have hn' : i + 1 < N := by omega
    rcases Nat.eq_zero_or_pos i with h0 | h0
    · subst h0
      simp only [↓reduceIte, zero_add, hN, hn, hn']
      geq_cases
    · obtain ⟨i, rfl⟩ : ∃ v', i = v' + 1 := ⟨i - 1, by omega⟩
      simp only [↓reduceIte, hn, hn', hN, Nat.add_sub_cancel, Nat.add_eq_zero_iff, one_ne_zero, and_false,
        Nat.le_add_left, Nat.add_assoc, Nat.reduceAdd]
      geq_cases

/-- without the extra argument the upwind direction is taken from `u` itself -/
theorem convectionTvdRHSCylindrical1D_noarg_eq (M : Mesh α) (hk : M.kind = .cyl1) (u : FaceFld α) (FL : α → α)
    (φ : CellFld α) (i j k : ℕ) (hv : i < M.ax.n) :
    Gen.StencilsUpw.convectionTvdRHSCylindrical1D_noarg M u FL φ i j k = tvdRHS M u u FL (Gen.StencilsUpw.fn_fsign_eps1 : α) φ (i+1, 1, 1) :=
  convectionTvdRHSCylindrical1D_eq M hk u u FL φ i j k hv

theorem convectionTvdRHSSpherical1D_eq (M : Mesh α) (hk : M.kind = .sph1) (u uUp : FaceFld α) (FL : α → α)
    (φ : CellFld α) (i j k : ℕ) (hv : i < M.ax.n) :
    Gen.StencilsUpw.convectionTvdRHSSpherical1D M u uUp FL φ i j k = tvdRHS M u uUp FL (Gen.StencilsUpw.fn_fsign_eps1 : α) φ (i+1, 1, 1) := by
  have hdx : ∀ a b : α, (1:α)/2 * (a + b) = (a + b)/2 := by intros; ring
  simp only [Gen.StencilsUpw.convectionTvdRHSSpherical1D, tvdRHS, divergence, sumDirs, divD, tvdFlux, psiP, psiM, dphi,
    uMin, uMax, lineA, lineV, lineM, hk, Mesh.axis, Mesh.n, Axis.dxf, Idx.get, Idx.prev, Idx.next, Idx.set,
    Kind.active, Kind.dim, Nat.add_sub_cancel, Nat.not_ofNat_le_one, Nat.reduceLeDiff, le_refl,
    decide_true, decide_false, Bool.false_eq_true, ↓reduceIte, add_zero, fn_fsign_eq, hdx, hv,
    Nat.add_assoc, Nat.reduceAdd, Nat.add_eq_zero_iff, one_ne_zero, and_false]
  generalize M.ax.n = N at *
  have hN : ¬ i = N := by omega
  by_cases hn : i + 1 = N
  · rcases Nat.eq_zero_or_pos i with h0 | h0
    · subst h0; subst hn
      simp only [↓reduceIte, zero_add, hN]
      geq_cases
    · obtain ⟨i, rfl⟩ : ∃ v', i = v' + 1 := ⟨i - 1, by omega⟩
      simp only [↓reduceIte, hn, hN, Nat.add_sub_cancel, Nat.add_eq_zero_iff, one_ne_zero, and_false,
        Nat.le_add_left, Nat.add_assoc, Nat.reduceAdd]
      geq_cases
  · have hn' : i + 1 < N := by omega
    rcases Nat.eq_zero_or_pos i with h0 | h0
    · subst h0
      simp only [↓reduceIte, zero_add, hN, hn, hn']
      geq_cases
    · obtain ⟨i, rfl⟩ : ∃ v', i = v' + 1 := ⟨i - 1, by omega⟩
      simp only [↓reduceIte, hn, hn', hN, Nat.add_sub_cancel, Nat.add_eq_zero_iff, one_ne_zero, and_false,
        Nat.le_add_left, Nat.add_assoc, Nat.reduceAdd]
      geq_cases

/-- without the extra argument the upwind direction is taken from `u` itself -/
theorem convectionTvdRHSSpherical1D_noarg_eq (M : Mesh α) (hk : M.kind = .sph1) (u : FaceFld α) (FL : α → α)
    (φ : CellFld α) (i j k : ℕ) (hv : i < M.ax.n) :
    Gen.StencilsUpw.convectionTvdRHSSpherical1D_noarg M u FL φ i j k = tvdRHS M u u FL (Gen.StencilsUpw.fn_fsign_eps1 : α) φ (i+1, 1, 1) :=
  convectionTvdRHSSpherical1D_eq M hk u u FL φ i j k hv

theorem convectionTvdRHS2D_x_eq (M : Mesh α) (hk : M.kind = .cart2) (u uUp : FaceFld α) (FL : α → α)
    (φ : CellFld α) (i j k : ℕ) (hv : i < M.ax.n) :
    Gen.StencilsUpw.convectionTvdRHS2D_x M u uUp FL φ i j k = -(divD M (tvdFlux M u uUp FL (Gen.StencilsUpw.fn_fsign_eps1 : α) φ) .x (i+1, j+1, 1)) := by
  have hdx : ∀ a b : α, (1:α)/2 * (a + b) = (a + b)/2 := by intros; ring
  simp only [Gen.StencilsUpw.convectionTvdRHS2D_x, divD, tvdFlux, psiP, psiM, dphi,
    uMin, uMax, lineA, lineV, lineM, hk, Mesh.axis, Mesh.n, Axis.dxf, Idx.get, Idx.prev, Idx.next, Idx.set,
    Kind.active, Kind.dim, Nat.add_sub_cancel, Nat.not_ofNat_le_one, Nat.reduceLeDiff, le_refl,
    decide_true, decide_false, Bool.false_eq_true, ↓reduceIte, add_zero, fn_fsign_eq, hdx, hv,
    Nat.add_assoc, Nat.reduceAdd, Nat.add_eq_zero_iff, one_ne_zero, and_false]
  generalize M.ax.n = N at *
  have hN : ¬ i = N := by omega
  by_cases hn : i + 1 = N
  · rcases Nat.eq_zero_or_pos i with h0 | h0
    · subst h0; subst hn
      simp only [↓reduceIte, zero_add, hN]
      geq_cases
    · obtain ⟨i, rfl⟩ : ∃ v', i = v' + 1 := ⟨i - 1, by omega⟩
      simp only [↓reduceIte, hn, hN, Nat.add_sub_cancel, Nat.add_eq_zero_iff, one_ne_zero, and_false,
        Nat.le_add_left, Nat.add_assoc, Nat.reduceAdd]
      geq_cases
  · have hn' : i + 1 < N := by omega
    rcases Nat.eq_zero_or_pos i with h0 | h0
    · subst h0
      simp only [↓reduceIte, zero_add, hN, hn, hn']
      geq_cases
    · obtain ⟨i, rfl⟩ : ∃ v', i = v' + 1 := ⟨i - 1, by omega⟩
      simp only [↓reduceIte, hn, hn', hN, Nat.add_sub_cancel, Nat.add_eq_zero_iff, one_ne_zero, and_false,
        Nat.le_add_left, Nat.add_assoc, Nat.reduceAdd]
      geq_cases

theorem convectionTvdRHS2D_y_eq (M : Mesh α) (hk : M.kind = .cart2) (u uUp : FaceFld α) (FL : α → α)
    (φ : CellFld α) (i j k : ℕ) (hv : j < M.ay.n) :
    Gen.StencilsUpw.convectionTvdRHS2D_y M u uUp FL φ i j k = -(divD M (tvdFlux M u uUp FL (Gen.StencilsUpw.fn_fsign_eps1 : α) φ) .y (i+1, j+1, 1)) := by
  have hdx : ∀ a b : α, (1:α)/2 * (a + b) = (a + b)/2 := by intros; ring
  simp only [Gen.StencilsUpw.convectionTvdRHS2D_y, divD, tvdFlux, psiP, psiM, dphi,
    uMin, uMax, lineA, lineV, lineM, hk, Mesh.axis, Mesh.n, Axis.dxf, Idx.get, Idx.prev, Idx.next, Idx.set,
    Kind.active, Kind.dim, Nat.add_sub_cancel, Nat.not_ofNat_le_one, Nat.reduceLeDiff, le_refl,
    decide_true, decide_false, Bool.false_eq_true, ↓reduceIte, add_zero, fn_fsign_eq, hdx, hv,
    Nat.add_assoc, Nat.reduceAdd, Nat.add_eq_zero_iff, one_ne_zero, and_false]
  generalize M.ay.n = N at *
  have hN : ¬ j = N := by omega
  by_cases hn : j + 1 = N
  · rcases Nat.eq_zero_or_pos j with h0 | h0
    · subst h0; subst hn
      simp only [↓reduceIte, zero_add, hN]
      geq_cases
    · obtain ⟨j, rfl⟩ : ∃ v', j = v' + 1 := ⟨j - 1, by omega⟩
      simp only [↓reduceIte, hn, hN, Nat.add_sub_cancel, Nat.add_eq_zero_iff, one_ne_zero, and_false,
        Nat.le_add_left, Nat.add_assoc, Nat.reduceAdd]
      geq_cases
  · have hn' : j + 1 < N := by omega
    rcases Nat.eq_zero_or_pos j with h0 | h0
    · subst h0
      simp only [↓reduceIte, zero_add, hN, hn, hn']
      geq_cases
    · obtain ⟨j, rfl⟩ : ∃ v', j = v' + 1 := ⟨j - 1, by omega⟩
      simp only [↓reduceIte, hn, hn', hN, Nat.add_sub_cancel, Nat.add_eq_zero_iff, one_ne_zero, and_false,
        Nat.le_add_left, Nat.add_assoc, Nat.reduceAdd]
      geq_cases

theorem convectionTvdRHS2D_eq (M : Mesh α) (hk : M.kind = .cart2) (u uUp : FaceFld α) (FL : α → α)
    (φ : CellFld α) (i j k : ℕ) (hi : i < M.ax.n) (hj : j < M.ay.n) :
    Gen.StencilsUpw.convectionTvdRHS2D M u uUp FL φ i j k = tvdRHS M u uUp FL (Gen.StencilsUpw.fn_fsign_eps1 : α) φ (i+1, j+1, 1) := by
  have hs : Gen.StencilsUpw.convectionTvdRHS2D M u uUp FL φ i j k = Gen.StencilsUpw.convectionTvdRHS2D_x M u uUp FL φ i j k + Gen.StencilsUpw.convectionTvdRHS2D_y M u uUp FL φ i j k := rfl
  rw [hs, convectionTvdRHS2D_x_eq M hk u uUp FL φ i j k hi, convectionTvdRHS2D_y_eq M hk u uUp FL φ i j k hj]
  simp only [tvdRHS, divergence, sumDirs, hk, Kind.active, Kind.dim, Nat.not_ofNat_le_one, Nat.reduceLeDiff, le_refl,
    decide_true, decide_false, Bool.false_eq_true, ↓reduceIte, add_zero]
  geq_cases

/-- without the extra argument the upwind direction is taken from `u` itself -/
theorem convectionTvdRHS2D_noarg_eq (M : Mesh α) (hk : M.kind = .cart2) (u : FaceFld α) (FL : α → α)
    (φ : CellFld α) (i j k : ℕ) (hi : i < M.ax.n) (hj : j < M.ay.n) :
    Gen.StencilsUpw.convectionTvdRHS2D_noarg M u FL φ i j k = tvdRHS M u u FL (Gen.StencilsUpw.fn_fsign_eps1 : α) φ (i+1, j+1, 1) :=
  convectionTvdRHS2D_eq M hk u u FL φ i j k hi hj

theorem convectionTvdRHSCylindrical2D_x_eq (M : Mesh α) (hk : M.kind = .cyl2) (u uUp : FaceFld α) (FL : α → α)
    (φ : CellFld α) (i j k : ℕ) (hv : i < M.ax.n) :
    Gen.StencilsUpw.convectionTvdRHSCylindrical2D_x M u uUp FL φ i j k = -(divD M (tvdFlux M u uUp FL (Gen.StencilsUpw.fn_fsign_eps1 : α) φ) .x (i+1, j+1, 1)) := by
  have hdx : ∀ a b : α, (1:α)/2 * (a + b) = (a + b)/2 := by intros; ring
  simp only [Gen.StencilsUpw.convectionTvdRHSCylindrical2D_x, divD, tvdFlux, psiP, psiM, dphi,
    uMin, uMax, lineA, lineV, lineM, hk, Mesh.axis, Mesh.n, Axis.dxf, Idx.get, Idx.prev, Idx.next, Idx.set,
    Kind.active, Kind.dim, Nat.add_sub_cancel, Nat.not_ofNat_le_one, Nat.reduceLeDiff, le_refl,
    decide_true, decide_false, Bool.false_eq_true, ↓reduceIte, add_zero, fn_fsign_eq, hdx, hv,
    Nat.add_assoc, Nat.reduceAdd, Nat.add_eq_zero_iff, one_ne_zero, and_false]
  generalize M.ax.n = N at *
  have hN : ¬ i = N := by omega
  by_cases hn : i + 1 = N
  · rcases Nat.eq_zero_or_pos i with h0 | h0
    · subst h0; subst hn
      simp only [↓reduceIte, zero_add, hN]
      geq_cases
    · obtain ⟨i, rfl⟩ : ∃ v', i = v' + 1 := ⟨i - 1, by omega⟩
      simp only [↓reduceIte, hn, hN, Nat.add_sub_cancel, Nat.add_eq_zero_iff, one_ne_zero, and_false,
        Nat.le_add_left, Nat.add_assoc, Nat.reduceAdd]
      geq_cases
  · have hn' : i + 1 < N := by omega
    rcases Nat.eq_zero_or_pos i with h0 | h0
    · subst h0
      simp only [↓reduceIte, zero_add, hN, hn, hn']
      geq_cases
    · obtain ⟨i, rfl⟩ : ∃ v', i = v' + 1 := ⟨i - 1, by omega⟩
      simp only [↓reduceIte, hn, hn', hN, Nat.add_sub_cancel, Nat.add_eq_zero_iff, one_ne_zero, and_false,
        Nat.le_add_left, Nat.add_assoc, Nat.reduceAdd]
      geq_cases

theorem convectionTvdRHSCylindrical2D_y_eq (M : Mesh α) (hk : M.kind = .cyl2) (u uUp : FaceFld α) (FL : α → α)
    (φ : CellFld α) (i j k : ℕ) (hv : j < M.ay.n) :
    Gen.StencilsUpw.convectionTvdRHSCylindrical2D_y M u uUp FL φ i j k = -(divD M (tvdFlux M u uUp FL (Gen.StencilsUpw.fn_fsign_eps1 : α) φ) .y (i+1, j+1, 1)) := by
  have hdx : ∀ a b : α, (1:α)/2 * (a + b) = (a + b)/2 := by intros; ring
  simp only [Gen.StencilsUpw.convectionTvdRHSCylindrical2D_y, divD, tvdFlux, psiP, psiM, dphi,
    uMin, uMax, lineA, lineV, lineM, hk, Mesh.axis, Mesh.n, Axis.dxf, Idx.get, Idx.prev, Idx.next, Idx.set,
    Kind.active, Kind.dim, Nat.add_sub_cancel, Nat.not_ofNat_le_one, Nat.reduceLeDiff, le_refl,
    decide_true, decide_false, Bool.false_eq_true, ↓reduceIte, add_zero, fn_fsign_eq, hdx, hv,
    Nat.add_assoc, Nat.reduceAdd, Nat.add_eq_zero_iff, one_ne_zero, and_false]
  generalize M.ay.n = N at *
  have hN : ¬ j = N := by omega
  by_cases hn : j + 1 = N
  · rcases Nat.eq_zero_or_pos j with h0 | h0
    · subst h0; subst hn
      simp only [↓reduceIte, zero_add, hN]
      geq_cases
    · obtain ⟨j, rfl⟩ : ∃ v', j = v' + 1 := ⟨j - 1, by omega⟩
      simp only [↓reduceIte, hn, hN, Nat.add_sub_cancel, Nat.add_eq_zero_iff, one_ne_zero, and_false,
        Nat.le_add_left, Nat.add_assoc, Nat.reduceAdd]
      geq_cases
  · have hn' : j + 1 < N := by omega
    rcases Nat.eq_zero_or_pos j with h0 | h0
    · subst h0
      simp only [↓reduceIte, zero_add, hN, hn, hn']
      geq_cases
    · obtain ⟨j, rfl⟩ : ∃ v', j = v' + 1 := ⟨j - 1, by omega⟩
      simp only [↓reduceIte, hn, hn', hN, Nat.add_sub_cancel, Nat.add_eq_zero_iff, one_ne_zero, and_false,
        Nat.le_add_left, Nat.add_assoc, Nat.reduceAdd]
      geq_cases

theorem convectionTvdRHSCylindrical2D_eq (M : Mesh α) (hk : M.kind = .cyl2) (u uUp : FaceFld α) (FL : α → α)
    (φ : CellFld α) (i j k : ℕ) (hi : i < M.ax.n) (hj : j < M.ay.n) :
    Gen.StencilsUpw.convectionTvdRHSCylindrical2D M u uUp FL φ i j k = tvdRHS M u uUp FL (Gen.StencilsUpw.fn_fsign_eps1 : α) φ (i+1, j+1, 1) := by
  have hs : Gen.StencilsUpw.convectionTvdRHSCylindrical2D M u uUp FL φ i j k = Gen.StencilsUpw.convectionTvdRHSCylindrical2D_x M u uUp FL φ i j k + Gen.StencilsUpw.convectionTvdRHSCylindrical2D_y M u uUp FL φ i j k := rfl
  rw [hs, convectionTvdRHSCylindrical2D_x_eq M hk u uUp FL φ i j k hi, convectionTvdRHSCylindrical2D_y_eq M hk u uUp FL φ i j k hj]
  simp only [tvdRHS, divergence, sumDirs, hk, Kind.active, Kind.dim, Nat.not_ofNat_le_one, Nat.reduceLeDiff, le_refl,
    decide_true, decide_false, Bool.false_eq_true, ↓reduceIte, add_zero]
  geq_cases

/-- without the extra argument the upwind direction is taken from `u` itself -/
theorem convectionTvdRHSCylindrical2D_noarg_eq (M : Mesh α) (hk : M.kind = .cyl2) (u : FaceFld α) (FL : α → α)
    (φ : CellFld α) (i j k : ℕ) (hi : i < M.ax.n) (hj : j < M.ay.n) :
    Gen.StencilsUpw.convectionTvdRHSCylindrical2D_noarg M u FL φ i j k = tvdRHS M u u FL (Gen.StencilsUpw.fn_fsign_eps1 : α) φ (i+1, j+1, 1) :=
  convectionTvdRHSCylindrical2D_eq M hk u u FL φ i j k hi hj

theorem convectionTvdRHSPolar2D_x_eq (M : Mesh α) (hk : M.kind = .pol2) (u uUp : FaceFld α) (FL : α → α)
    (φ : CellFld α) (i j k : ℕ) (hv : i < M.ax.n) :
    Gen.StencilsUpw.convectionTvdRHSPolar2D_x M u uUp FL φ i j k = -(divD M (tvdFlux M u uUp FL (Gen.StencilsUpw.fn_fsign_eps1 : α) φ) .x (i+1, j+1, 1)) := by
  have hdx : ∀ a b : α, (1:α)/2 * (a + b) = (a + b)/2 := by intros; ring
  simp only [Gen.StencilsUpw.convectionTvdRHSPolar2D_x, divD, tvdFlux, psiP, psiM, dphi,
    uMin, uMax, lineA, lineV, lineM, hk, Mesh.axis, Mesh.n, Axis.dxf, Idx.get, Idx.prev, Idx.next, Idx.set,
    Kind.active, Kind.dim, Nat.add_sub_cancel, Nat.not_ofNat_le_one, Nat.reduceLeDiff, le_refl,
    decide_true, decide_false, Bool.false_eq_true, ↓reduceIte, add_zero, fn_fsign_eq, hdx, hv,
    Nat.add_assoc, Nat.reduceAdd, Nat.add_eq_zero_iff, one_ne_zero, and_false]
  generalize M.ax.n = N at *
  have hN : ¬ i = N := by omega
  by_cases hn : i + 1 = N
  · rcases Nat.eq_zero_or_pos i with h0 | h0
    · subst h0; subst hn
      simp only [↓reduceIte, zero_add, hN]
      geq_cases
    · obtain ⟨i, rfl⟩ : ∃ v', i = v' + 1 := ⟨i - 1, by omega⟩
      simp only [↓reduceIte, hn, hN, Nat.add_sub_cancel, Nat.add_eq_zero_iff, one_ne_zero, and_false,
        Nat.le_add_left, Nat.add_assoc, Nat.reduceAdd]
      geq_cases
  · have hn' : i + 1 < N := by omega
    rcases Nat.eq_zero_or_pos i with h0 | h0
    · subst h0
      simp only [↓reduceIte, zero_add, hN, hn, hn']
      geq_cases
    · obtain ⟨i, rfl⟩ : ∃ v', i = v' + 1 := ⟨i - 1, by omega⟩
      simp only [↓reduceIte, hn, hn', hN, Nat.add_sub_cancel, Nat.add_eq_zero_iff, one_ne_zero, and_false,
        Nat.le_add_left, Nat.add_assoc, Nat.reduceAdd]
      geq_cases

theorem convectionTvdRHSPolar2D_y_eq (M : Mesh α) (hk : M.kind = .pol2) (u uUp : FaceFld α) (FL : α → α)
    (φ : CellFld α) (i j k : ℕ) (hv : j < M.ay.n) :
    Gen.StencilsUpw.convectionTvdRHSPolar2D_y M u uUp FL φ i j k = -(divD M (tvdFlux M u uUp FL (Gen.StencilsUpw.fn_fsign_eps1 : α) φ) .y (i+1, j+1, 1)) := by
  have hdx : ∀ a b : α, (1:α)/2 * (a + b) = (a + b)/2 := by intros; ring
  simp only [Gen.StencilsUpw.convectionTvdRHSPolar2D_y, divD, tvdFlux, psiP, psiM, dphi,
    uMin, uMax, lineA, lineV, lineM, hk, Mesh.axis, Mesh.n, Axis.dxf, Idx.get, Idx.prev, Idx.next, Idx.set,
    Kind.active, Kind.dim, Nat.add_sub_cancel, Nat.not_ofNat_le_one, Nat.reduceLeDiff, le_refl,
    decide_true, decide_false, Bool.false_eq_true, ↓reduceIte, add_zero, fn_fsign_eq, hdx, hv,
    Nat.add_assoc, Nat.reduceAdd, Nat.add_eq_zero_iff, one_ne_zero, and_false]
  generalize M.ay.n = N at *
  have hN : ¬ j = N := by omega
  by_cases hn : j + 1 = N
  · rcases Nat.eq_zero_or_pos j with h0 | h0
    · subst h0; subst hn
      simp only [↓reduceIte, zero_add, hN]
      geq_cases
    · obtain ⟨j, rfl⟩ : ∃ v', j = v' + 1 := ⟨j - 1, by omega⟩
      simp only [↓reduceIte, hn, hN, Nat.add_sub_cancel, Nat.add_eq_zero_iff, one_ne_zero, and_false,
        Nat.le_add_left, Nat.add_assoc, Nat.reduceAdd]
      geq_cases
  · have hn' : j + 1 < N := by omega
    rcases Nat.eq_zero_or_pos j with h0 | h0
    · subst h0
      simp only [↓reduceIte, zero_add, hN, hn, hn']
      geq_cases
    · obtain ⟨j, rfl⟩ : ∃ v', j = v' + 1 := ⟨j - 1, by omega⟩
      simp only [↓reduceIte, hn, hn', hN, Nat.add_sub_cancel, Nat.add_eq_zero_iff, one_ne_zero, and_false,
        Nat.le_add_left, Nat.add_assoc, Nat.reduceAdd]
      geq_cases

theorem convectionTvdRHSPolar2D_eq (M : Mesh α) (hk : M.kind = .pol2) (u uUp : FaceFld α) (FL : α → α)
    (φ : CellFld α) (i j k : ℕ) (hi : i < M.ax.n) (hj : j < M.ay.n) :
    Gen.StencilsUpw.convectionTvdRHSPolar2D M u uUp FL φ i j k = tvdRHS M u uUp FL (Gen.StencilsUpw.fn_fsign_eps1 : α) φ (i+1, j+1, 1) := by
  have hs : Gen.StencilsUpw.convectionTvdRHSPolar2D M u uUp FL φ i j k = Gen.StencilsUpw.convectionTvdRHSPolar2D_x M u uUp FL φ i j k + Gen.StencilsUpw.convectionTvdRHSPolar2D_y M u uUp FL φ i j k := rfl
  rw [hs, convectionTvdRHSPolar2D_x_eq M hk u uUp FL φ i j k hi, convectionTvdRHSPolar2D_y_eq M hk u uUp FL φ i j k hj]
  simp only [tvdRHS, divergence, sumDirs, hk, Kind.active, Kind.dim, Nat.not_ofNat_le_one, Nat.reduceLeDiff, le_refl,
    decide_true, decide_false, Bool.false_eq_true, ↓reduceIte, add_zero]
  geq_cases

/-- without the extra argument the upwind direction is taken from `u` itself -/
theorem convectionTvdRHSPolar2D_noarg_eq (M : Mesh α) (hk : M.kind = .pol2) (u : FaceFld α) (FL : α → α)
    (φ : CellFld α) (i j k : ℕ) (hi : i < M.ax.n) (hj : j < M.ay.n) :
    Gen.StencilsUpw.convectionTvdRHSPolar2D_noarg M u FL φ i j k = tvdRHS M u u FL (Gen.StencilsUpw.fn_fsign_eps1 : α) φ (i+1, j+1, 1) :=
  convectionTvdRHSPolar2D_eq M hk u u FL φ i j k hi hj

theorem convectionTvdRHS3D_x_eq (M : Mesh α) (hk : M.kind = .cart3) (u uUp : FaceFld α) (FL : α → α)
    (φ : CellFld α) (i j k : ℕ) (hv : i < M.ax.n) :
    Gen.StencilsUpw.convectionTvdRHS3D_x M u uUp FL φ i j k = -(divD M (tvdFlux M u uUp FL (Gen.StencilsUpw.fn_fsign_eps1 : α) φ) .x (i+1, j+1, k+1)) := by
  have hdx : ∀ a b : α, (1:α)/2 * (a + b) = (a + b)/2 := by intros; ring
  simp only [Gen.StencilsUpw.convectionTvdRHS3D_x, divD, tvdFlux, psiP, psiM, dphi,
    uMin, uMax, lineA, lineV, lineM, hk, Mesh.axis, Mesh.n, Axis.dxf, Idx.get, Idx.prev, Idx.next, Idx.set,
    Kind.active, Kind.dim, Nat.add_sub_cancel, Nat.not_ofNat_le_one, Nat.reduceLeDiff, le_refl,
    decide_true, decide_false, Bool.false_eq_true, ↓reduceIte, add_zero, fn_fsign_eq, hdx, hv,
    Nat.add_assoc, Nat.reduceAdd, Nat.add_eq_zero_iff, one_ne_zero, and_false]
  generalize M.ax.n = N at *
  have hN : ¬ i = N := by omega
  by_cases hn : i + 1 = N
  · rcases Nat.eq_zero_or_pos i with h0 | h0
    · subst h0; subst hn
      simp only [↓reduceIte, zero_add, hN]
      geq_cases
    · obtain ⟨i, rfl⟩ : ∃ v', i = v' + 1 := ⟨i - 1, by omega⟩
      simp only [↓reduceIte, hn, hN, Nat.add_sub_cancel, Nat.add_eq_zero_iff, one_ne_zero, and_false,
        Nat.le_add_left, Nat.add_assoc, Nat.reduceAdd]
      geq_cases
  · have hn' : i + 1 < N := by omega
    rcases Nat.eq_zero_or_pos i with h0 | h0
    · subst h0
      simp only [↓reduceIte, zero_add, hN, hn, hn']
      geq_cases
    · obtain ⟨i, rfl⟩ : ∃ v', i = v' + 1 := ⟨i - 1, by omega⟩
      simp only [↓reduceIte, hn, hn', hN, Nat.add_sub_cancel, Nat.add_eq_zero_iff, one_ne_zero, and_false,
        Nat.le_add_left, Nat.add_assoc, Nat.reduceAdd]
      geq_cases

theorem convectionTvdRHS3D_y_eq (M : Mesh α) (hk : M.kind = .cart3) (u uUp : FaceFld α) (FL : α → α)
    (φ : CellFld α) (i j k : ℕ) (hv : j < M.ay.n) :
    Gen.StencilsUpw.convectionTvdRHS3D_y M u uUp FL φ i j k = -(divD M (tvdFlux M u uUp FL (Gen.StencilsUpw.fn_fsign_eps1 : α) φ) .y (i+1, j+1, k+1)) := by
  have hdx : ∀ a b : α, (1:α)/2 * (a + b) = (a + b)/2 := by intros; ring
  simp only [Gen.StencilsUpw.convectionTvdRHS3D_y, divD, tvdFlux, psiP, psiM, dphi,
    uMin, uMax, lineA, lineV, lineM, hk, Mesh.axis, Mesh.n, Axis.dxf, Idx.get, Idx.prev, Idx.next, Idx.set,
    Kind.active, Kind.dim, Nat.add_sub_cancel, Nat.not_ofNat_le_one, Nat.reduceLeDiff, le_refl,
    decide_true, decide_false, Bool.false_eq_true, ↓reduceIte, add_zero, fn_fsign_eq, hdx, hv,
    Nat.add_assoc, Nat.reduceAdd, Nat.add_eq_zero_iff, one_ne_zero, and_false]
  generalize M.ay.n = N at *
  have hN : ¬ j = N := by omega
  by_cases hn : j + 1 = N
  · rcases Nat.eq_zero_or_pos j with h0 | h0
    · subst h0; subst hn
      simp only [↓reduceIte, zero_add, hN]
      geq_cases
    · obtain ⟨j, rfl⟩ : ∃ v', j = v' + 1 := ⟨j - 1, by omega⟩
      simp only [↓reduceIte, hn, hN, Nat.add_sub_cancel, Nat.add_eq_zero_iff, one_ne_zero, and_false,
        Nat.le_add_left, Nat.add_assoc, Nat.reduceAdd]
      geq_cases
  · have hn' : j + 1 < N := by omega
    rcases Nat.eq_zero_or_pos j with h0 | h0
    · subst h0
      simp only [↓reduceIte, zero_add, hN, hn, hn']
      geq_cases
    · obtain ⟨j, rfl⟩ : ∃ v', j = v' + 1 := ⟨j - 1, by omega⟩
      simp only [↓reduceIte, hn, hn', hN, Nat.add_sub_cancel, Nat.add_eq_zero_iff, one_ne_zero, and_false,
        Nat.le_add_left, Nat.add_assoc, Nat.reduceAdd]
      geq_cases

theorem convectionTvdRHS3D_z_eq (M : Mesh α) (hk : M.kind = .cart3) (u uUp : FaceFld α) (FL : α → α)
    (φ : CellFld α) (i j k : ℕ) (hv : k < M.az.n) :
    Gen.StencilsUpw.convectionTvdRHS3D_z M u uUp FL φ i j k = -(divD M (tvdFlux M u uUp FL (Gen.StencilsUpw.fn_fsign_eps1 : α) φ) .z (i+1, j+1, k+1)) := by
  have hdx : ∀ a b : α, (1:α)/2 * (a + b) = (a + b)/2 := by intros; ring
  simp only [Gen.StencilsUpw.convectionTvdRHS3D_z, divD, tvdFlux, psiP, psiM, dphi,
    uMin, uMax, lineA, lineV, lineM, hk, Mesh.axis, Mesh.n, Axis.dxf, Idx.get, Idx.prev, Idx.next, Idx.set,
    Kind.active, Kind.dim, Nat.add_sub_cancel, Nat.not_ofNat_le_one, Nat.reduceLeDiff, le_refl,
    decide_true, decide_false, Bool.false_eq_true, ↓reduceIte, add_zero, fn_fsign_eq, hdx, hv,
    Nat.add_assoc, Nat.reduceAdd, Nat.add_eq_zero_iff, one_ne_zero, and_false]
  generalize M.az.n = N at *
  have hN : ¬ k = N := by omega
  by_cases hn : k + 1 = N
  · rcases Nat.eq_zero_or_pos k with h0 | h0
    · subst h0; subst hn
      simp only [↓reduceIte, zero_add, hN]
      geq_cases
    · obtain ⟨k, rfl⟩ : ∃ v', k = v' + 1 := ⟨k - 1, by omega⟩
      simp only [↓reduceIte, hn, hN, Nat.add_sub_cancel, Nat.add_eq_zero_iff, one_ne_zero, and_false,
        Nat.le_add_left, Nat.add_assoc, Nat.reduceAdd]
      geq_cases
  · have hn' : k + 1 < N := by omega
    rcases Nat.eq_zero_or_pos k with h0 | h0
    · subst h0
      simp only [↓reduceIte, zero_add, hN, hn, hn']
      geq_cases
    · obtain ⟨k, rfl⟩ : ∃ v', k = v' + 1 := ⟨k - 1, by omega⟩
      simp only [↓reduceIte, hn, hn', hN, Nat.add_sub_cancel, Nat.add_eq_zero_iff, one_ne_zero, and_false,
        Nat.le_add_left, Nat.add_assoc, Nat.reduceAdd]
      geq_cases

theorem convectionTvdRHS3D_eq (M : Mesh α) (hk : M.kind = .cart3) (u uUp : FaceFld α) (FL : α → α)
    (φ : CellFld α) (i j k : ℕ) (hi : i < M.ax.n) (hj : j < M.ay.n) (hl : k < M.az.n) :
    Gen.StencilsUpw.convectionTvdRHS3D M u uUp FL φ i j k = tvdRHS M u uUp FL (Gen.StencilsUpw.fn_fsign_eps1 : α) φ (i+1, j+1, k+1) := by
  have hs : Gen.StencilsUpw.convectionTvdRHS3D M u uUp FL φ i j k = Gen.StencilsUpw.convectionTvdRHS3D_x M u uUp FL φ i j k + Gen.StencilsUpw.convectionTvdRHS3D_y M u uUp FL φ i j k + Gen.StencilsUpw.convectionTvdRHS3D_z M u uUp FL φ i j k := rfl
  rw [hs, convectionTvdRHS3D_x_eq M hk u uUp FL φ i j k hi, convectionTvdRHS3D_y_eq M hk u uUp FL φ i j k hj, convectionTvdRHS3D_z_eq M hk u uUp FL φ i j k hl]
  simp only [tvdRHS, divergence, sumDirs, hk, Kind.active, Kind.dim, Nat.not_ofNat_le_one, Nat.reduceLeDiff, le_refl,
    decide_true, decide_false, Bool.false_eq_true, ↓reduceIte, add_zero]
  geq_cases

/-- without the extra argument the upwind direction is taken from `u` itself -/
theorem convectionTvdRHS3D_noarg_eq (M : Mesh α) (hk : M.kind = .cart3) (u : FaceFld α) (FL : α → α)
    (φ : CellFld α) (i j k : ℕ) (hi : i < M.ax.n) (hj : j < M.ay.n) (hl : k < M.az.n) :
    Gen.StencilsUpw.convectionTvdRHS3D_noarg M u FL φ i j k = tvdRHS M u u FL (Gen.StencilsUpw.fn_fsign_eps1 : α) φ (i+1, j+1, k+1) :=
  convectionTvdRHS3D_eq M hk u u FL φ i j k hi hj hl

theorem convectionTvdRHSCylindrical3D_x_eq (M : Mesh α) (hk : M.kind = .cyl3) (u uUp : FaceFld α) (FL : α → α)
    (φ : CellFld α) (i j k : ℕ) (hv : i < M.ax.n) :
    Gen.StencilsUpw.convectionTvdRHSCylindrical3D_x M u uUp FL φ i j k = -(divD M (tvdFlux M u uUp FL (Gen.StencilsUpw.fn_fsign_eps1 : α) φ) .x (i+1, j+1, k+1)) := by
  have hdx : ∀ a b : α, (1:α)/2 * (a + b) = (a + b)/2 := by intros; ring
  simp only [Gen.StencilsUpw.convectionTvdRHSCylindrical3D_x, divD, tvdFlux, psiP, psiM, dphi,
    uMin, uMax, lineA, lineV, lineM, hk, Mesh.axis, Mesh.n, Axis.dxf, Idx.get, Idx.prev, Idx.next, Idx.set,
    Kind.active, Kind.dim, Nat.add_sub_cancel, Nat.not_ofNat_le_one, Nat.reduceLeDiff, le_refl,
    decide_true, decide_false, Bool.false_eq_true, ↓reduceIte, add_zero, fn_fsign_eq, hdx, hv,
    Nat.add_assoc, Nat.reduceAdd, Nat.add_eq_zero_iff, one_ne_zero, and_false]
  generalize M.ax.n = N at *
  have hN : ¬ i = N := by omega
  by_cases hn : i + 1 = N
  · rcases Nat.eq_zero_or_pos i with h0 | h0
    · subst h0; subst hn
      simp only [↓reduceIte, zero_add, hN]
      geq_cases
    · obtain ⟨i, rfl⟩ : ∃ v', i = v' + 1 := ⟨i - 1, by omega⟩
      simp only [↓reduceIte, hn, hN, Nat.add_sub_cancel, Nat.add_eq_zero_iff, one_ne_zero, and_false,
        Nat.le_add_left, Nat.add_assoc, Nat.reduceAdd]
      geq_cases
  · have hn' : i + 1 < N := by omega
    rcases Nat.eq_zero_or_pos i with h0 | h0
    · subst h0
      simp only [↓reduceIte, zero_add, hN, hn, hn']
      geq_cases
    · obtain ⟨i, rfl⟩ : ∃ v', i = v' + 1 := ⟨i - 1, by omega⟩
      simp only [↓reduceIte, hn, hn', hN, Nat.add_sub_cancel, Nat.add_eq_zero_iff, one_ne_zero, and_false,
        Nat.le_add_left, Nat.add_assoc, Nat.reduceAdd]
      geq_cases

theorem convectionTvdRHSCylindrical3D_y_eq (M : Mesh α) (hk : M.kind = .cyl3) (u uUp : FaceFld α) (FL : α → α)
    (φ : CellFld α) (i j k : ℕ) (hv : j < M.ay.n) :
    Gen.StencilsUpw.convectionTvdRHSCylindrical3D_y M u uUp FL φ i j k = -(divD M (tvdFlux M u uUp FL (Gen.StencilsUpw.fn_fsign_eps1 : α) φ) .y (i+1, j+1, k+1)) := by
  have hdx : ∀ a b : α, (1:α)/2 * (a + b) = (a + b)/2 := by intros; ring
  simp only [Gen.StencilsUpw.convectionTvdRHSCylindrical3D_y, divD, tvdFlux, psiP, psiM, dphi,
    uMin, uMax, lineA, lineV, lineM, hk, Mesh.axis, Mesh.n, Axis.dxf, Idx.get, Idx.prev, Idx.next, Idx.set,
    Kind.active, Kind.dim, Nat.add_sub_cancel, Nat.not_ofNat_le_one, Nat.reduceLeDiff, le_refl,
    decide_true, decide_false, Bool.false_eq_true, ↓reduceIte, add_zero, fn_fsign_eq, hdx, hv,
    Nat.add_assoc, Nat.reduceAdd, Nat.add_eq_zero_iff, one_ne_zero, and_false]
  generalize M.ay.n = N at *
  have hN : ¬ j = N := by omega
  by_cases hn : j + 1 = N
  · rcases Nat.eq_zero_or_pos j with h0 | h0
    · subst h0; subst hn
      simp only [↓reduceIte, zero_add, hN]
      geq_cases
    · obtain ⟨j, rfl⟩ : ∃ v', j = v' + 1 := ⟨j - 1, by omega⟩
      simp only [↓reduceIte, hn, hN, Nat.add_sub_cancel, Nat.add_eq_zero_iff, one_ne_zero, and_false,
        Nat.le_add_left, Nat.add_assoc, Nat.reduceAdd]
      geq_cases
  · have hn' : j + 1 < N := by omega
    rcases Nat.eq_zero_or_pos j with h0 | h0
    · subst h0
      simp only [↓reduceIte, zero_add, hN, hn, hn']
      geq_cases
    · obtain ⟨j, rfl⟩ : ∃ v', j = v' + 1 := ⟨j - 1, by omega⟩
      simp only [↓reduceIte, hn, hn', hN, Nat.add_sub_cancel, Nat.add_eq_zero_iff, one_ne_zero, and_false,
        Nat.le_add_left, Nat.add_assoc, Nat.reduceAdd]
      geq_cases

theorem convectionTvdRHSCylindrical3D_z_eq (M : Mesh α) (hk : M.kind = .cyl3) (u uUp : FaceFld α) (FL : α → α)
    (φ : CellFld α) (i j k : ℕ) (hv : k < M.az.n) :
    Gen.StencilsUpw.convectionTvdRHSCylindrical3D_z M u uUp FL φ i j k = -(divD M (tvdFlux M u uUp FL (Gen.StencilsUpw.fn_fsign_eps1 : α) φ) .z (i+1, j+1, k+1)) := by
  have hdx : ∀ a b : α, (1:α)/2 * (a + b) = (a + b)/2 := by intros; ring
  simp only [Gen.StencilsUpw.convectionTvdRHSCylindrical3D_z, divD, tvdFlux, psiP, psiM, dphi,
    uMin, uMax, lineA, lineV, lineM, hk, Mesh.axis, Mesh.n, Axis.dxf, Idx.get, Idx.prev, Idx.next, Idx.set,
    Kind.active, Kind.dim, Nat.add_sub_cancel, Nat.not_ofNat_le_one, Nat.reduceLeDiff, le_refl,
    decide_true, decide_false, Bool.false_eq_true, ↓reduceIte, add_zero, fn_fsign_eq, hdx, hv,
    Nat.add_assoc, Nat.reduceAdd, Nat.add_eq_zero_iff, one_ne_zero, and_false]
  generalize M.az.n = N at *
  have hN : ¬ k = N := by omega
  by_cases hn : k + 1 = N
  · rcases Nat.eq_zero_or_pos k with h0 | h0
    · subst h0; subst hn
      simp only [↓reduceIte, zero_add, hN]
      geq_cases
    · obtain ⟨k, rfl⟩ : ∃ v', k = v' + 1 := ⟨k - 1, by omega⟩
      simp only [↓reduceIte, hn, hN, Nat.add_sub_cancel, Nat.add_eq_zero_iff, one_ne_zero, and_false,
        Nat.le_add_left, Nat.add_assoc, Nat.reduceAdd]
      geq_cases
  · have hn' : k + 1 < N := by omega
    rcases Nat.eq_zero_or_pos k with h0 | h0
    · subst h0
      simp only [↓reduceIte, zero_add, hN, hn, hn']
      geq_cases
    · obtain ⟨k, rfl⟩ : ∃ v', k = v' + 1 := ⟨k - 1, by omega⟩
      simp only [↓reduceIte, hn, hn', hN, Nat.add_sub_cancel, Nat.add_eq_zero_iff, one_ne_zero, and_false,
        Nat.le_add_left, Nat.add_assoc, Nat.reduceAdd]
      geq_cases

theorem convectionTvdRHSCylindrical3D_eq (M : Mesh α) (hk : M.kind = .cyl3) (u uUp : FaceFld α) (FL : α → α)
    (φ : CellFld α) (i j k : ℕ) (hi : i < M.ax.n) (hj : j < M.ay.n) (hl : k < M.az.n) :
    Gen.StencilsUpw.convectionTvdRHSCylindrical3D M u uUp FL φ i j k = tvdRHS M u uUp FL (Gen.StencilsUpw.fn_fsign_eps1 : α) φ (i+1, j+1, k+1) := by
  have hs : Gen.StencilsUpw.convectionTvdRHSCylindrical3D M u uUp FL φ i j k = Gen.StencilsUpw.convectionTvdRHSCylindrical3D_x M u uUp FL φ i j k + Gen.StencilsUpw.convectionTvdRHSCylindrical3D_y M u uUp FL φ i j k + Gen.StencilsUpw.convectionTvdRHSCylindrical3D_z M u uUp FL φ i j k := rfl
  rw [hs, convectionTvdRHSCylindrical3D_x_eq M hk u uUp FL φ i j k hi, convectionTvdRHSCylindrical3D_y_eq M hk u uUp FL φ i j k hj, convectionTvdRHSCylindrical3D_z_eq M hk u uUp FL φ i j k hl]
  simp only [tvdRHS, divergence, sumDirs, hk, Kind.active, Kind.dim, Nat.not_ofNat_le_one, Nat.reduceLeDiff, le_refl,
    decide_true, decide_false, Bool.false_eq_true, ↓reduceIte, add_zero]
  geq_cases

/-- without the extra argument the upwind direction is taken from `u` itself -/
theorem convectionTvdRHSCylindrical3D_noarg_eq (M : Mesh α) (hk : M.kind = .cyl3) (u : FaceFld α) (FL : α → α)
    (φ : CellFld α) (i j k : ℕ) (hi : i < M.ax.n) (hj : j < M.ay.n) (hl : k < M.az.n) :
    Gen.StencilsUpw.convectionTvdRHSCylindrical3D_noarg M u FL φ i j k = tvdRHS M u u FL (Gen.StencilsUpw.fn_fsign_eps1 : α) φ (i+1, j+1, k+1) :=
  convectionTvdRHSCylindrical3D_eq M hk u u FL φ i j k hi hj hl

theorem convectionTvdRHSSpherical3D_x_eq (M : Mesh α) (hk : M.kind = .sph3) (u uUp : FaceFld α) (FL : α → α)
    (φ : CellFld α) (i j k : ℕ) (hv : i < M.ax.n) :
    Gen.StencilsUpw.convectionTvdRHSSpherical3D_x M u uUp FL φ i j k = -(divD M (tvdFlux M u uUp FL (Gen.StencilsUpw.fn_fsign_eps1 : α) φ) .x (i+1, j+1, k+1)) := by
  have hdx : ∀ a b : α, (1:α)/2 * (a + b) = (a + b)/2 := by intros; ring
  simp only [Gen.StencilsUpw.convectionTvdRHSSpherical3D_x, divD, tvdFlux, psiP, psiM, dphi,
    uMin, uMax, lineA, lineV, lineM, hk, Mesh.axis, Mesh.n, Axis.dxf, Idx.get, Idx.prev, Idx.next, Idx.set,
    Kind.active, Kind.dim, Nat.add_sub_cancel, Nat.not_ofNat_le_one, Nat.reduceLeDiff, le_refl,
    decide_true, decide_false, Bool.false_eq_true, ↓reduceIte, add_zero, fn_fsign_eq, hdx, hv,
    Nat.add_assoc, Nat.reduceAdd, Nat.add_eq_zero_iff, one_ne_zero, and_false]
  generalize M.ax.n = N at *
  have hN : ¬ i = N := by omega
  by_cases hn : i + 1 = N
  · rcases Nat.eq_zero_or_pos i with h0 | h0
    · subst h0; subst hn
      simp only [↓reduceIte, zero_add, hN]
      geq_cases
    · obtain ⟨i, rfl⟩ : ∃ v', i = v' + 1 := ⟨i - 1, by omega⟩
      simp only [↓reduceIte, hn, hN, Nat.add_sub_cancel, Nat.add_eq_zero_iff, one_ne_zero, and_false,
        Nat.le_add_left, Nat.add_assoc, Nat.reduceAdd]
      geq_cases
  · have hn' : i + 1 < N := by omega
    rcases Nat.eq_zero_or_pos i with h0 | h0
    · subst h0
      simp only [↓reduceIte, zero_add, hN, hn, hn']
      geq_cases
    · obtain ⟨i, rfl⟩ : ∃ v', i = v' + 1 := ⟨i - 1, by omega⟩
      simp only [↓reduceIte, hn, hn', hN, Nat.add_sub_cancel, Nat.add_eq_zero_iff, one_ne_zero, and_false,
        Nat.le_add_left, Nat.add_assoc, Nat.reduceAdd]
      geq_cases

theorem convectionTvdRHSSpherical3D_y_eq (M : Mesh α) (hk : M.kind = .sph3) (u uUp : FaceFld α) (FL : α → α)
    (φ : CellFld α) (i j k : ℕ) (hv : j < M.ay.n) :
    Gen.StencilsUpw.convectionTvdRHSSpherical3D_y M u uUp FL φ i j k = -(divD M (tvdFlux M u uUp FL (Gen.StencilsUpw.fn_fsign_eps1 : α) φ) .y (i+1, j+1, k+1)) := by
  have hdx : ∀ a b : α, (1:α)/2 * (a + b) = (a + b)/2 := by intros; ring
  simp only [Gen.StencilsUpw.convectionTvdRHSSpherical3D_y, divD, tvdFlux, psiP, psiM, dphi,
    uMin, uMax, lineA, lineV, lineM, hk, Mesh.axis, Mesh.n, Axis.dxf, Idx.get, Idx.prev, Idx.next, Idx.set,
    Kind.active, Kind.dim, Nat.add_sub_cancel, Nat.not_ofNat_le_one, Nat.reduceLeDiff, le_refl,
    decide_true, decide_false, Bool.false_eq_true, ↓reduceIte, add_zero, fn_fsign_eq, hdx, hv,
    Nat.add_assoc, Nat.reduceAdd, Nat.add_eq_zero_iff, one_ne_zero, and_false]
  generalize M.ay.n = N at *
  have hN : ¬ j = N := by omega
  by_cases hn : j + 1 = N
  · rcases Nat.eq_zero_or_pos j with h0 | h0
    · subst h0; subst hn
      simp only [↓reduceIte, zero_add, hN]
      geq_cases
    · obtain ⟨j, rfl⟩ : ∃ v', j = v' + 1 := ⟨j - 1, by omega⟩
      simp only [↓reduceIte, hn, hN, Nat.add_sub_cancel, Nat.add_eq_zero_iff, one_ne_zero, and_false,
        Nat.le_add_left, Nat.add_assoc, Nat.reduceAdd]
      geq_cases
  · have hn' : j + 1 < N := by omega
    rcases Nat.eq_zero_or_pos j with h0 | h0
    · subst h0
      simp only [↓reduceIte, zero_add, hN, hn, hn']
      geq_cases
    · obtain ⟨j, rfl⟩ : ∃ v', j = v' + 1 := ⟨j - 1, by omega⟩
      simp only [↓reduceIte, hn, hn', hN, Nat.add_sub_cancel, Nat.add_eq_zero_iff, one_ne_zero, and_false,
        Nat.le_add_left, Nat.add_assoc, Nat.reduceAdd]
      geq_cases

theorem convectionTvdRHSSpherical3D_z_eq (M : Mesh α) (hk : M.kind = .sph3) (u uUp : FaceFld α) (FL : α → α)
    (φ : CellFld α) (i j k : ℕ) (hv : k < M.az.n) :
    Gen.StencilsUpw.convectionTvdRHSSpherical3D_z M u uUp FL φ i j k = -(divD M (tvdFlux M u uUp FL (Gen.StencilsUpw.fn_fsign_eps1 : α) φ) .z (i+1, j+1, k+1)) := by
  have hdx : ∀ a b : α, (1:α)/2 * (a + b) = (a + b)/2 := by intros; ring
  simp only [Gen.StencilsUpw.convectionTvdRHSSpherical3D_z, divD, tvdFlux, psiP, psiM, dphi,
    uMin, uMax, lineA, lineV, lineM, hk, Mesh.axis, Mesh.n, Axis.dxf, Idx.get, Idx.prev, Idx.next, Idx.set,
    Kind.active, Kind.dim, Nat.add_sub_cancel, Nat.not_ofNat_le_one, Nat.reduceLeDiff, le_refl,
    decide_true, decide_false, Bool.false_eq_true, ↓reduceIte, add_zero, fn_fsign_eq, hdx, hv,
    Nat.add_assoc, Nat.reduceAdd, Nat.add_eq_zero_iff, one_ne_zero, and_false]
  generalize M.az.n = N at *
  have hN : ¬ k = N := by omega
  by_cases hn : k + 1 = N
  · rcases Nat.eq_zero_or_pos k with h0 | h0
    · subst h0; subst hn
      simp only [↓reduceIte, zero_add, hN]
      geq_cases
    · obtain ⟨k, rfl⟩ : ∃ v', k = v' + 1 := ⟨k - 1, by omega⟩
      simp only [↓reduceIte, hn, hN, Nat.add_sub_cancel, Nat.add_eq_zero_iff, one_ne_zero, and_false,
        Nat.le_add_left, Nat.add_assoc, Nat.reduceAdd]
      geq_cases
  · have hn' : k + 1 < N := by omega
    rcases Nat.eq_zero_or_pos k with h0 | h0
    · subst h0
      simp only [↓reduceIte, zero_add, hN, hn, hn']
      geq_cases
    · obtain ⟨k, rfl⟩ : ∃ v', k = v' + 1 := ⟨k - 1, by omega⟩
      simp only [↓reduceIte, hn, hn', hN, Nat.add_sub_cancel, Nat.add_eq_zero_iff, one_ne_zero, and_false,
        Nat.le_add_left, Nat.add_assoc, Nat.reduceAdd]
      geq_cases

theorem convectionTvdRHSSpherical3D_eq (M : Mesh α) (hk : M.kind = .sph3) (u uUp : FaceFld α) (FL : α → α)
    (φ : CellFld α) (i j k : ℕ) (hi : i < M.ax.n) (hj : j < M.ay.n) (hl : k < M.az.n) :
    Gen.StencilsUpw.convectionTvdRHSSpherical3D M u uUp FL φ i j k = tvdRHS M u uUp FL (Gen.StencilsUpw.fn_fsign_eps1 : α) φ (i+1, j+1, k+1) := by
  have hs : Gen.StencilsUpw.convectionTvdRHSSpherical3D M u uUp FL φ i j k = Gen.StencilsUpw.convectionTvdRHSSpherical3D_x M u uUp FL φ i j k + Gen.StencilsUpw.convectionTvdRHSSpherical3D_y M u uUp FL φ i j k + Gen.StencilsUpw.convectionTvdRHSSpherical3D_z M u uUp FL φ i j k := rfl
  rw [hs, convectionTvdRHSSpherical3D_x_eq M hk u uUp FL φ i j k hi, convectionTvdRHSSpherical3D_y_eq M hk u uUp FL φ i j k hj, convectionTvdRHSSpherical3D_z_eq M hk u uUp FL φ i j k hl]
  simp only [tvdRHS, divergence, sumDirs, hk, Kind.active, Kind.dim, Nat.not_ofNat_le_one, Nat.reduceLeDiff, le_refl,
    decide_true, decide_false, Bool.false_eq_true, ↓reduceIte, add_zero]
  geq_cases

/-- without the extra argument the upwind direction is taken from `u` itself -/
theorem convectionTvdRHSSpherical3D_noarg_eq (M : Mesh α) (hk : M.kind = .sph3) (u : FaceFld α) (FL : α → α)
    (φ : CellFld α) (i j k : ℕ) (hi : i < M.ax.n) (hj : j < M.ay.n) (hl : k < M.az.n) :
    Gen.StencilsUpw.convectionTvdRHSSpherical3D_noarg M u FL φ i j k = tvdRHS M u u FL (Gen.StencilsUpw.fn_fsign_eps1 : α) φ (i+1, j+1, k+1) :=
  convectionTvdRHSSpherical3D_eq M hk u u FL φ i j k hi hj hl

/-- the dispatcher `convectionTVDupwindRHSTerm` calls, for each grid class, the builder proved equal to the model of that class -/
theorem dispatch_convectionTVDupwindRHSTerm_eq (k : Kind) :
    Gen.StencilsUpw.dispatch_convectionTVDupwindRHSTerm.lookup k = some (match k with
      | .cart1 => "convectionTvdRHS1D"
      | .cyl1 => "convectionTvdRHSCylindrical1D"
      | .sph1 => "convectionTvdRHSSpherical1D"
      | .cart2 => "convectionTvdRHS2D"
      | .cyl2 => "convectionTvdRHSCylindrical2D"
      | .pol2 => "convectionTvdRHSPolar2D"
      | .cart3 => "convectionTvdRHS3D"
      | .cyl3 => "convectionTvdRHSCylindrical3D"
      | .sph3 => "convectionTvdRHSSpherical3D") := by
  cases k <;> rfl

/-! ### the hypotheses are necessary and satisfiable -/

/-- the index bound of the TVD theorems cannot be dropped: one position past the last cell the code has 0
    (nothing is written outside `RHS[1:Nx+1]`), the model formula does not vanish -/
theorem convectionTvdRHS1D_needs_bound :
    ∃ (M : Mesh ℚ) (u : FaceFld ℚ) (FL : ℚ → ℚ) (φ : CellFld ℚ) (i : ℕ), M.kind = .cart1 ∧ i = M.ax.n ∧
      Gen.StencilsUpw.convectionTvdRHS1D M u u FL φ i 0 0
        ≠ tvdRHS M u u FL (Gen.StencilsUpw.fn_fsign_eps1 : ℚ) φ (i+1, 1, 1) := by
  refine ⟨Examples.mesh .cart1, fun _ _ => 1, fun _ => 1, fun c => if c.1 = 5 then 1 else 0, 3, rfl, rfl, ?_⟩
  decide +kernel

example (k : Kind) : (Examples.mesh k).kind = k := rfl
/-- interior positions of the example meshes satisfy the index bounds -/
example (k : Kind) : 0 < (Examples.mesh k).ax.n ∧ 0 < (Examples.mesh k).ay.n ∧ 0 < (Examples.mesh k).az.n :=
  ⟨(Examples.mesh_WF k).wx.npos, (Examples.mesh_WF k).wy.npos, (Examples.mesh_WF k).wz.npos⟩
example (u uUp : FaceFld ℚ) (i j k : ℕ) :
    Gen.StencilsUpw.convectionUpwindTermSpherical3D_y (Examples.mesh .sph3) u uUp i j k
      = upwindSt (Examples.mesh .sph3) u uUp .y (i+1, j+1, k+1) :=
  convectionUpwindTermSpherical3D_y_eq _ rfl u uUp i j k
example (u uUp : FaceFld ℚ) (FL : ℚ → ℚ) (φ : CellFld ℚ) :
    Gen.StencilsUpw.convectionTvdRHSSpherical3D (Examples.mesh .sph3) u uUp FL φ 2 0 1
      = tvdRHS (Examples.mesh .sph3) u uUp FL Gen.StencilsUpw.fn_fsign_eps1 φ (3, 1, 2) :=
  convectionTvdRHSSpherical3D_eq _ rfl u uUp FL φ 2 0 1 (by decide) (by decide) (by decide)
/-- a one-cell axis (both in-place corrections of the diagonal hit the same cell; the generated formula takes its
    `if M.ax.n = 1` branch): code and model still agree, no `2 ≤ n` is needed -/
example (u uUp : FaceFld ℚ) :
    ({ Examples.mesh .cart1 with ax := unitAxis } : Mesh ℚ).ax.n = 1 ∧
    Gen.StencilsUpw.convectionUpwindTerm1D_x { Examples.mesh .cart1 with ax := unitAxis } u uUp 0 0 0
      = upwindSt { Examples.mesh .cart1 with ax := unitAxis } u uUp .x (1, 1, 1) :=
  ⟨rfl, convectionUpwindTerm1D_x_eq _ rfl u uUp 0 0 0⟩

end PyFV.GenEqUpw
