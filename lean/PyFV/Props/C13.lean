/-
  Property C13 — flux limiters.

  Every named flux limiter of `pyfvtool.utilities.fluxLimiter` (the generated terms `PyFV.Gen.X`,
  translated from the Python source on every run) evaluates the published closed form of that
  name (`PyFV.Spec.X`, hand-written) for every gradient ratio `r` and every guard `eps > 0`;
  every denominator occurring in the generated formula is non-zero (so the value is finite also
  at the removable singularities, where it is the limit value `0`); `ψ(1) = 1`,
  `0 ≤ ψ(r) ≤ min(2r, 4)` for `r > 0`, and the limiters defined by clipping vanish for `r ≤ 0`.
  An unknown name falls back to SUPERBEE.  The divisor `fsign eps1 x` of the gradient ratio is
  never zero (`|fsign eps1 x| ≥ eps1 > 0`), so the TVD correction is finite for every field.

  Only theorems and examples here; helper lemmas are in `PyFV.Lemmas.Limiters`.
-/
import PyFV.Lemmas.Limiters
import Mathlib.Algebra.Order.Field.Rat

set_option linter.unusedSectionVars false
set_option linter.unusedVariables false

namespace PyFV.C13
open PyFV PyFV.Lim

variable {α : Type} [Field α] [LinearOrder α] [IsStrictOrderedRing α]

/-! ## The four guarded rational limiters -/

/-! ### CHARM — pole of the formula at `r = -1` -/

theorem CHARM_total (eps r : α) (heps : 0 < eps) : ∀ d ∈ Gen.CHARM_dens eps r, d ≠ 0 := by
  intro d hd
  simp only [Gen.CHARM_dens, List.mem_singleton] at hd
  subst hd
  exact (CHARM_den_pos eps r heps).ne'

/-- Full strength, all `r`.  At the pole `r = -1` (and for every `r ≤ 0`) the factor `(r > 0)`
    makes the numerator vanish, the guarded denominator is `eps ≠ 0`, and the generated value is
    `0 / eps = 0`; `Spec.CHARM` says `0` there by its explicit `else` branch (the limit value),
    not by the convention `x / 0 = 0`. -/
theorem CHARM_eq_spec (eps r : α) (heps : 0 < eps) : Gen.CHARM eps r = Spec.CHARM r := by
  unfold Gen.CHARM Spec.CHARM
  by_cases h : 0 < r
  · have h1 : ¬ r = -1 := by intro h'; rw [h'] at h; linarith
    rw [ind_true (show r > 0 from h), ind_false h1, if_pos h]
    simp
  · rw [ind_false (show ¬ r > 0 from h), if_neg h]
    simp

/-- the value at the removable singularity is the limit value `0` -/
theorem CHARM_at_pole (eps : α) (heps : 0 < eps) : Gen.CHARM eps (-1) = 0 := by
  rw [CHARM_eq_spec eps _ heps, Spec.CHARM, if_neg (by norm_num)]

theorem CHARM_one (eps : α) (heps : 0 < eps) : Gen.CHARM eps 1 = 1 := by
  rw [CHARM_eq_spec eps _ heps, Spec.CHARM, if_pos one_pos]
  norm_num

theorem CHARM_bounds (eps r : α) (heps : 0 < eps) (hr : 0 < r) :
    0 ≤ Gen.CHARM eps r ∧ Gen.CHARM eps r ≤ min (2 * r) 4 := by
  rw [CHARM_eq_spec eps _ heps, Spec.CHARM, if_pos hr]
  refine ⟨by positivity, le_min ?_ ?_⟩
  · rw [div_le_iff₀ (by positivity)]
    nlinarith [mul_pos hr hr, mul_pos (mul_pos hr hr) hr]
  · rw [div_le_iff₀ (by positivity)]
    nlinarith [mul_pos hr hr]

/-! ### HCUS — pole of the formula at `r = -2` -/

theorem HCUS_total (eps r : α) (heps : 0 < eps) : ∀ d ∈ Gen.HCUS_dens eps r, d ≠ 0 := by
  intro d hd
  simp only [Gen.HCUS_dens, List.mem_singleton] at hd
  subst hd
  exact HCUS_den_ne eps r heps

/-- Full strength, all `r`.  At the pole `r = -2` the numerator `r + |r|` vanishes, the guarded
    denominator is `eps ≠ 0` and the generated value is `0 / eps = 0`; `Spec.HCUS` gives the limit
    value `0` there by an explicit `if` (not by `x / 0 = 0`). -/
theorem HCUS_eq_spec (eps r : α) (heps : 0 < eps) : Gen.HCUS eps r = Spec.HCUS r := by
  unfold Gen.HCUS Spec.HCUS
  by_cases h : r = -2
  · rw [if_pos h, add_abs_of_nonpos (by rw [h]; norm_num)]
    simp
  · have h1 : r + 2 ≠ 0 := fun h' => h (eq_neg_of_add_eq_zero_left h')
    rw [if_neg h, ind_false h, mul_zero, add_zero,
      div_eq_div_iff h1 (mul_ne_zero (by positivity) h1)]
    ring

theorem HCUS_at_pole (eps : α) (heps : 0 < eps) : Gen.HCUS eps (-2) = 0 := by
  rw [HCUS_eq_spec eps _ heps, Spec.HCUS, if_pos rfl]

theorem HCUS_one (eps : α) (heps : 0 < eps) : Gen.HCUS eps 1 = 1 := by
  rw [HCUS_eq_spec eps _ heps, Spec.HCUS_of_ne (by intro h; linarith)]
  norm_num

theorem HCUS_bounds (eps r : α) (heps : 0 < eps) (hr : 0 < r) :
    0 ≤ Gen.HCUS eps r ∧ Gen.HCUS eps r ≤ min (2 * r) 4 := by
  rw [HCUS_eq_spec eps _ heps, Spec.HCUS_of_ne (by intro h; linarith), add_abs_of_pos hr]
  refine ⟨by positivity, le_min ?_ ?_⟩
  · rw [div_le_iff₀ (by positivity)]
    nlinarith [mul_pos hr hr]
  · rw [div_le_iff₀ (by positivity)]
    nlinarith [mul_pos hr hr]

theorem HCUS_nonpos (eps r : α) (heps : 0 < eps) (hr : r ≤ 0) : Gen.HCUS eps r = 0 := by
  unfold Gen.HCUS
  rw [add_abs_of_nonpos hr]
  simp

/-! ### HQUICK — pole of the formula at `r = -3` -/

theorem HQUICK_total (eps r : α) (heps : 0 < eps) : ∀ d ∈ Gen.HQUICK_dens eps r, d ≠ 0 := by
  intro d hd
  simp only [Gen.HQUICK_dens, List.mem_singleton] at hd
  subst hd
  exact HQUICK_den_ne eps r heps

/-- Full strength, all `r`.  At the pole `r = -3` the numerator `r + |r|` vanishes, the guarded
    denominator is `eps ≠ 0` and the generated value is `0 / eps = 0`; `Spec.HQUICK` gives the
    limit value `0` there by an explicit `if` (not by `x / 0 = 0`). -/
theorem HQUICK_eq_spec (eps r : α) (heps : 0 < eps) : Gen.HQUICK eps r = Spec.HQUICK r := by
  unfold Gen.HQUICK Spec.HQUICK
  by_cases h : r = -3
  · rw [if_pos h, add_abs_of_nonpos (by rw [h]; norm_num)]
    simp
  · rw [if_neg h, ind_false h]
    simp

theorem HQUICK_at_pole (eps : α) (heps : 0 < eps) : Gen.HQUICK eps (-3) = 0 := by
  rw [HQUICK_eq_spec eps _ heps, Spec.HQUICK, if_pos rfl]

theorem HQUICK_one (eps : α) (heps : 0 < eps) : Gen.HQUICK eps 1 = 1 := by
  rw [HQUICK_eq_spec eps _ heps, Spec.HQUICK_of_ne (by intro h; linarith)]
  norm_num

theorem HQUICK_bounds (eps r : α) (heps : 0 < eps) (hr : 0 < r) :
    0 ≤ Gen.HQUICK eps r ∧ Gen.HQUICK eps r ≤ min (2 * r) 4 := by
  rw [HQUICK_eq_spec eps _ heps, Spec.HQUICK_of_ne (by intro h; linarith), add_abs_of_pos hr]
  refine ⟨by positivity, le_min ?_ ?_⟩
  · rw [div_le_iff₀ (by positivity)]
    nlinarith [mul_pos hr hr]
  · rw [div_le_iff₀ (by positivity)]
    nlinarith [mul_pos hr hr]

theorem HQUICK_nonpos (eps r : α) (heps : 0 < eps) (hr : r ≤ 0) : Gen.HQUICK eps r = 0 := by
  unfold Gen.HQUICK
  rw [add_abs_of_nonpos hr]
  simp

/-! ### ospre — no real pole -/

/-- `r (r + 1) + 1 > 0`, so the guard `(r*(r+1)+1 == 0)` of the Python code is dead code -/
theorem ospre_guard_never_fires (r : α) : (Gen.ind (r * (r + 1) + 1 = 0) : α) = 0 :=
  ind_false (ospre_den_pos r).ne'

/-- consequently the value does not depend on `eps` at all (any sign, including `0`) -/
theorem ospre_eps_irrelevant (eps eps' r : α) : Gen.ospre eps r = Gen.ospre eps' r := by
  unfold Gen.ospre
  rw [ospre_guard_never_fires]
  simp

theorem ospre_total (eps r : α) (heps : 0 < eps) : ∀ d ∈ Gen.ospre_dens eps r, d ≠ 0 := by
  intro d hd
  simp only [Gen.ospre_dens, List.mem_singleton] at hd
  subst hd
  rw [ospre_guard_never_fires]
  simpa using (ospre_den_pos r).ne'

theorem ospre_eq_spec (eps r : α) (heps : 0 < eps) : Gen.ospre eps r = Spec.ospre r := by
  unfold Gen.ospre Spec.ospre
  rw [ospre_guard_never_fires]
  have h1 := (ospre_den_pos r).ne'
  have h2 := (ospre_den_pos' r).ne'
  rw [mul_zero, add_zero, div_eq_div_iff h1 (mul_ne_zero (by positivity) h2)]
  ring

theorem ospre_one (eps : α) (heps : 0 < eps) : Gen.ospre eps 1 = 1 := by
  rw [ospre_eq_spec eps _ heps, Spec.ospre]
  norm_num

theorem ospre_bounds (eps r : α) (heps : 0 < eps) (hr : 0 < r) :
    0 ≤ Gen.ospre eps r ∧ Gen.ospre eps r ≤ min (2 * r) 4 := by
  rw [ospre_eq_spec eps _ heps, Spec.ospre]
  refine ⟨by positivity, le_min ?_ ?_⟩
  · rw [div_le_iff₀ (by positivity)]
    nlinarith [mul_pos hr hr, mul_pos (mul_pos hr hr) hr]
  · rw [div_le_iff₀ (by positivity)]
    nlinarith [mul_pos hr hr]

/-! ## The three unguarded rational limiters -/

/-! ### VanLeer -/

theorem VanLeer_total (eps r : α) (heps : 0 < eps) : ∀ d ∈ Gen.VanLeer_dens eps r, d ≠ 0 := by
  intro d hd
  simp only [Gen.VanLeer_dens, List.mem_singleton] at hd
  subst hd
  exact (one_add_abs_pos r).ne'

theorem VanLeer_eq_spec (eps r : α) (heps : 0 < eps) : Gen.VanLeer eps r = Spec.VanLeer r := rfl

theorem VanLeer_one (eps : α) (heps : 0 < eps) : Gen.VanLeer eps 1 = 1 := by
  unfold Gen.VanLeer
  rw [abs_one]
  norm_num

theorem VanLeer_bounds (eps r : α) (heps : 0 < eps) (hr : 0 < r) :
    0 ≤ Gen.VanLeer eps r ∧ Gen.VanLeer eps r ≤ min (2 * r) 4 := by
  unfold Gen.VanLeer
  rw [abs_of_pos hr]
  refine ⟨by positivity, le_min ?_ ?_⟩
  · rw [div_le_iff₀ (by positivity)]
    nlinarith [mul_pos hr hr]
  · rw [div_le_iff₀ (by positivity)]
    nlinarith [mul_pos hr hr]

theorem VanLeer_nonpos (eps r : α) (heps : 0 < eps) (hr : r ≤ 0) : Gen.VanLeer eps r = 0 := by
  unfold Gen.VanLeer
  rw [add_abs_of_nonpos hr]
  simp

/-! ### VanAlbada1 -/

theorem VanAlbada1_total (eps r : α) (heps : 0 < eps) :
    ∀ d ∈ Gen.VanAlbada1_dens eps r, d ≠ 0 := by
  intro d hd
  simp only [Gen.VanAlbada1_dens, List.mem_singleton] at hd
  subst hd
  exact (one_add_sq_pos r).ne'

theorem VanAlbada1_eq_spec (eps r : α) (heps : 0 < eps) :
    Gen.VanAlbada1 eps r = Spec.VanAlbada1 r := by
  unfold Gen.VanAlbada1 Spec.VanAlbada1
  rw [show r + r * r = r ^ 2 + r by ring, show 1 + r * r = r ^ 2 + 1 by ring]

theorem VanAlbada1_one (eps : α) (heps : 0 < eps) : Gen.VanAlbada1 eps 1 = 1 := by
  unfold Gen.VanAlbada1
  norm_num

theorem VanAlbada1_bounds (eps r : α) (heps : 0 < eps) (hr : 0 < r) :
    0 ≤ Gen.VanAlbada1 eps r ∧ Gen.VanAlbada1 eps r ≤ min (2 * r) 4 := by
  unfold Gen.VanAlbada1
  refine ⟨by positivity, le_min ?_ ?_⟩
  · rw [div_le_iff₀ (by positivity)]
    nlinarith [mul_pos hr hr, mul_pos (mul_pos hr hr) hr, sq_nonneg (r - 1),
      mul_nonneg hr.le (sq_nonneg (2 * r - 1))]
  · rw [div_le_iff₀ (by positivity)]
    nlinarith [mul_pos hr hr, sq_nonneg (r - 1)]

/-! ### VanAlbada2 -/

theorem VanAlbada2_total (eps r : α) (heps : 0 < eps) :
    ∀ d ∈ Gen.VanAlbada2_dens eps r, d ≠ 0 := by
  intro d hd
  simp only [Gen.VanAlbada2_dens, List.mem_singleton] at hd
  subst hd
  exact (one_add_sq_pos r).ne'

theorem VanAlbada2_eq_spec (eps r : α) (heps : 0 < eps) :
    Gen.VanAlbada2 eps r = Spec.VanAlbada2 r := by
  unfold Gen.VanAlbada2 Spec.VanAlbada2
  rw [show 1 + r * r = r ^ 2 + 1 by ring]

theorem VanAlbada2_one (eps : α) (heps : 0 < eps) : Gen.VanAlbada2 eps 1 = 1 := by
  unfold Gen.VanAlbada2
  norm_num

theorem VanAlbada2_bounds (eps r : α) (heps : 0 < eps) (hr : 0 < r) :
    0 ≤ Gen.VanAlbada2 eps r ∧ Gen.VanAlbada2 eps r ≤ min (2 * r) 4 := by
  unfold Gen.VanAlbada2
  refine ⟨by positivity, le_min ?_ ?_⟩
  · rw [div_le_iff₀ (by positivity)]
    nlinarith [mul_pos hr hr, mul_pos (mul_pos hr hr) hr]
  · rw [div_le_iff₀ (by positivity)]
    nlinarith [mul_pos hr hr, sq_nonneg (r - 1), sq_nonneg (2 * r - 1)]

/-! ## The nine limiters defined by clipping (no denominators) -/

/-! ### MinMod -/

theorem MinMod_total (eps r : α) (heps : 0 < eps) : ∀ d ∈ Gen.MinMod_dens eps r, d ≠ 0 := by
  simp [Gen.MinMod_dens]

theorem MinMod_eq_spec (eps r : α) (heps : 0 < eps) : Gen.MinMod eps r = Spec.MinMod r := by
  unfold Gen.MinMod Spec.MinMod
  by_cases h : 0 < r
  · rw [ind_true (show r > 0 from h), one_mul, min_comm,
      max_eq_right (le_min zero_le_one h.le)]
  · rw [ind_false (show ¬ r > 0 from h), zero_mul,
      max_eq_left ((min_le_right _ _).trans (not_lt.mp h))]

theorem MinMod_one (eps : α) (heps : 0 < eps) : Gen.MinMod eps 1 = 1 := by
  rw [MinMod_eq_spec eps _ heps, Spec.MinMod]
  norm_num

theorem MinMod_bounds (eps r : α) (heps : 0 < eps) (hr : 0 < r) :
    0 ≤ Gen.MinMod eps r ∧ Gen.MinMod eps r ≤ min (2 * r) 4 := by
  rw [MinMod_eq_spec eps _ heps, Spec.MinMod]
  exact clip_bounds hr ((min_le_right _ _).trans (by linarith))
    ((min_le_left _ _).trans (by norm_num))

theorem MinMod_nonpos (eps r : α) (heps : 0 < eps) (hr : r ≤ 0) : Gen.MinMod eps r = 0 := by
  rw [MinMod_eq_spec eps _ heps, Spec.MinMod]
  exact clip_nonpos ((min_le_right _ _).trans hr)

/-! ### SUPERBEE -/

theorem SUPERBEE_total (eps r : α) (heps : 0 < eps) : ∀ d ∈ Gen.SUPERBEE_dens eps r, d ≠ 0 := by
  simp [Gen.SUPERBEE_dens]

theorem SUPERBEE_eq_spec (eps r : α) (heps : 0 < eps) : Gen.SUPERBEE eps r = Spec.SUPERBEE r := rfl

theorem SUPERBEE_one (eps : α) (heps : 0 < eps) : Gen.SUPERBEE eps 1 = 1 := by
  unfold Gen.SUPERBEE; norm_num

theorem SUPERBEE_bounds (eps r : α) (heps : 0 < eps) (hr : 0 < r) :
    0 ≤ Gen.SUPERBEE eps r ∧ Gen.SUPERBEE eps r ≤ min (2 * r) 4 := by
  unfold Gen.SUPERBEE
  exact clip_bounds hr
    (max_le (min_le_left _ _) ((min_le_left _ _).trans (by linarith)))
    (max_le ((min_le_right _ _).trans (by norm_num)) ((min_le_right _ _).trans (by norm_num)))

theorem SUPERBEE_nonpos (eps r : α) (heps : 0 < eps) (hr : r ≤ 0) : Gen.SUPERBEE eps r = 0 := by
  unfold Gen.SUPERBEE
  exact clip_nonpos
    (max_le ((min_le_left _ _).trans (by linarith)) ((min_le_left _ _).trans hr))

/-! ### Osher -/

theorem Osher_total (eps r : α) (heps : 0 < eps) : ∀ d ∈ Gen.Osher_dens eps r, d ≠ 0 := by
  simp [Gen.Osher_dens]

theorem Osher_eq_spec (eps r : α) (heps : 0 < eps) : Gen.Osher eps r = Spec.Osher r := rfl

theorem Osher_one (eps : α) (heps : 0 < eps) : Gen.Osher eps 1 = 1 := by
  unfold Gen.Osher; norm_num

theorem Osher_bounds (eps r : α) (heps : 0 < eps) (hr : 0 < r) :
    0 ≤ Gen.Osher eps r ∧ Gen.Osher eps r ≤ min (2 * r) 4 := by
  unfold Gen.Osher
  exact clip_bounds hr ((min_le_left _ _).trans (by linarith))
    ((min_le_right _ _).trans (by norm_num))

theorem Osher_nonpos (eps r : α) (heps : 0 < eps) (hr : r ≤ 0) : Gen.Osher eps r = 0 := by
  unfold Gen.Osher
  exact clip_nonpos ((min_le_left _ _).trans hr)

/-! ### Sweby -/

theorem Sweby_total (eps r : α) (heps : 0 < eps) : ∀ d ∈ Gen.Sweby_dens eps r, d ≠ 0 := by
  simp [Gen.Sweby_dens]

theorem Sweby_eq_spec (eps r : α) (heps : 0 < eps) : Gen.Sweby eps r = Spec.Sweby r := rfl

theorem Sweby_one (eps : α) (heps : 0 < eps) : Gen.Sweby eps 1 = 1 := by
  unfold Gen.Sweby; norm_num

theorem Sweby_bounds (eps r : α) (heps : 0 < eps) (hr : 0 < r) :
    0 ≤ Gen.Sweby eps r ∧ Gen.Sweby eps r ≤ min (2 * r) 4 := by
  unfold Gen.Sweby
  exact clip_bounds hr
    (max_le ((min_le_left _ _).trans (by linarith)) ((min_le_left _ _).trans (by linarith)))
    (max_le ((min_le_right _ _).trans (by norm_num)) ((min_le_right _ _).trans (by norm_num)))

theorem Sweby_nonpos (eps r : α) (heps : 0 < eps) (hr : r ≤ 0) : Gen.Sweby eps r = 0 := by
  unfold Gen.Sweby
  exact clip_nonpos
    (max_le ((min_le_left _ _).trans (by linarith)) ((min_le_left _ _).trans hr))

/-! ### smart -/

theorem smart_total (eps r : α) (heps : 0 < eps) : ∀ d ∈ Gen.smart_dens eps r, d ≠ 0 := by
  simp [Gen.smart_dens]

theorem smart_eq_spec (eps r : α) (heps : 0 < eps) : Gen.smart eps r = Spec.smart r := by
  unfold Gen.smart Spec.smart
  simp only [min_comm, min_left_comm]

theorem smart_one (eps : α) (heps : 0 < eps) : Gen.smart eps 1 = 1 := by
  unfold Gen.smart; norm_num

theorem smart_bounds (eps r : α) (heps : 0 < eps) (hr : 0 < r) :
    0 ≤ Gen.smart eps r ∧ Gen.smart eps r ≤ min (2 * r) 4 := by
  unfold Gen.smart
  exact clip_bounds hr ((min_le_right _ _).trans (min_le_right _ _)) (min_le_left _ _)

theorem smart_nonpos (eps r : α) (heps : 0 < eps) (hr : r ≤ 0) : Gen.smart eps r = 0 := by
  unfold Gen.smart
  exact clip_nonpos (((min_le_right _ _).trans (min_le_right _ _)).trans (by linarith))

/-! ### Koren -/

theorem Koren_total (eps r : α) (heps : 0 < eps) : ∀ d ∈ Gen.Koren_dens eps r, d ≠ 0 := by
  simp [Gen.Koren_dens]

theorem Koren_eq_spec (eps r : α) (heps : 0 < eps) : Gen.Koren eps r = Spec.Koren r := rfl

theorem Koren_one (eps : α) (heps : 0 < eps) : Gen.Koren eps 1 = 1 := by
  unfold Gen.Koren; norm_num

theorem Koren_bounds (eps r : α) (heps : 0 < eps) (hr : 0 < r) :
    0 ≤ Gen.Koren eps r ∧ Gen.Koren eps r ≤ min (2 * r) 4 := by
  unfold Gen.Koren
  exact clip_bounds hr (min_le_left _ _)
    (((min_le_right _ _).trans (min_le_right _ _)).trans (by norm_num))

theorem Koren_nonpos (eps r : α) (heps : 0 < eps) (hr : r ≤ 0) : Gen.Koren eps r = 0 := by
  unfold Gen.Koren
  exact clip_nonpos ((min_le_left _ _).trans (by linarith))

/-! ### MUSCL -/

theorem MUSCL_total (eps r : α) (heps : 0 < eps) : ∀ d ∈ Gen.MUSCL_dens eps r, d ≠ 0 := by
  simp [Gen.MUSCL_dens]

theorem MUSCL_eq_spec (eps r : α) (heps : 0 < eps) : Gen.MUSCL eps r = Spec.MUSCL r := by
  unfold Gen.MUSCL Spec.MUSCL
  rw [show (1 : α) / 2 * (1 + r) = (1 + r) / 2 by ring]

theorem MUSCL_one (eps : α) (heps : 0 < eps) : Gen.MUSCL eps 1 = 1 := by
  unfold Gen.MUSCL; norm_num

theorem MUSCL_bounds (eps r : α) (heps : 0 < eps) (hr : 0 < r) :
    0 ≤ Gen.MUSCL eps r ∧ Gen.MUSCL eps r ≤ min (2 * r) 4 := by
  unfold Gen.MUSCL
  exact clip_bounds hr (min_le_left _ _)
    (((min_le_right _ _).trans (min_le_right _ _)).trans (by norm_num))

theorem MUSCL_nonpos (eps r : α) (heps : 0 < eps) (hr : r ≤ 0) : Gen.MUSCL eps r = 0 := by
  unfold Gen.MUSCL
  exact clip_nonpos ((min_le_left _ _).trans (by linarith))

/-! ### QUICK -/

theorem QUICK_total (eps r : α) (heps : 0 < eps) : ∀ d ∈ Gen.QUICK_dens eps r, d ≠ 0 := by
  simp [Gen.QUICK_dens]

theorem QUICK_eq_spec (eps r : α) (heps : 0 < eps) : Gen.QUICK eps r = Spec.QUICK r := by
  unfold Gen.QUICK Spec.QUICK
  simp only [min_comm, min_left_comm]

theorem QUICK_one (eps : α) (heps : 0 < eps) : Gen.QUICK eps 1 = 1 := by
  unfold Gen.QUICK; norm_num

theorem QUICK_bounds (eps r : α) (heps : 0 < eps) (hr : 0 < r) :
    0 ≤ Gen.QUICK eps r ∧ Gen.QUICK eps r ≤ min (2 * r) 4 := by
  unfold Gen.QUICK
  exact clip_bounds hr ((min_le_right _ _).trans (min_le_left _ _))
    ((min_le_left _ _).trans (by norm_num))

theorem QUICK_nonpos (eps r : α) (heps : 0 < eps) (hr : r ≤ 0) : Gen.QUICK eps r = 0 := by
  unfold Gen.QUICK
  exact clip_nonpos (((min_le_right _ _).trans (min_le_left _ _)).trans (by linarith))

/-! ### UMIST -/

theorem UMIST_total (eps r : α) (heps : 0 < eps) : ∀ d ∈ Gen.UMIST_dens eps r, d ≠ 0 := by
  simp [Gen.UMIST_dens]

theorem UMIST_eq_spec (eps r : α) (heps : 0 < eps) : Gen.UMIST eps r = Spec.UMIST r := by
  unfold Gen.UMIST Spec.UMIST
  simp only [min_comm, min_left_comm]

theorem UMIST_one (eps : α) (heps : 0 < eps) : Gen.UMIST eps 1 = 1 := by
  unfold Gen.UMIST; norm_num

theorem UMIST_bounds (eps r : α) (heps : 0 < eps) (hr : 0 < r) :
    0 ≤ Gen.UMIST eps r ∧ Gen.UMIST eps r ≤ min (2 * r) 4 := by
  unfold Gen.UMIST
  exact clip_bounds hr ((min_le_right _ _).trans (min_le_left _ _))
    ((min_le_left _ _).trans (by norm_num))

theorem UMIST_nonpos (eps r : α) (heps : 0 < eps) (hr : r ≤ 0) : Gen.UMIST eps r = 0 := by
  unfold Gen.UMIST
  exact clip_nonpos (((min_le_right _ _).trans (min_le_left _ _)).trans (by linarith))

/-! ## Dispatch by name -/

theorem fallback_is_superbee : (Gen.fallback : α → α → α) = Gen.SUPERBEE := rfl

theorem unknown_name_falls_back (eps r : α) :
    Gen.limiterByName "no such limiter" eps r = Gen.SUPERBEE eps r := rfl

/-- *every* string that is not one of the sixteen names gets the SUPERBEE formula -/
theorem every_unknown_name_falls_back (eps r : α) (n : String) (hn : n ∉ Gen.limiterNames) :
    Gen.limiterByName n eps r = Gen.SUPERBEE eps r := by
  unfold Gen.limiterByName
  split
  all_goals first
    | rfl
    | (exfalso; apply hn; simp [Gen.limiterNames])

/-- every denominator of every limiter, selected by an arbitrary string, is non-zero -/
theorem byName_total (eps r : α) (heps : 0 < eps) (n : String) :
    ∀ d ∈ Gen.limiterDens n eps r, d ≠ 0 := by
  unfold Gen.limiterDens
  split
  · exact CHARM_total eps r heps
  · exact HCUS_total eps r heps
  · exact HQUICK_total eps r heps
  · exact ospre_total eps r heps
  · exact VanLeer_total eps r heps
  · exact VanAlbada1_total eps r heps
  · exact VanAlbada2_total eps r heps
  · exact MinMod_total eps r heps
  · exact SUPERBEE_total eps r heps
  · exact Osher_total eps r heps
  · exact Sweby_total eps r heps
  · exact smart_total eps r heps
  · exact Koren_total eps r heps
  · exact MUSCL_total eps r heps
  · exact QUICK_total eps r heps
  · exact UMIST_total eps r heps
  · simp [Gen.fallback_dens]

theorem byNameO_isSome (eps r : α) (heps : 0 < eps) (n : String) :
    (Gen.limiterByNameO n eps r).isSome := by
  have h : (Gen.limiterDens n eps r).all (fun d => decide (d ≠ 0)) = true := by
    rw [List.all_eq_true]
    intro d hd
    exact decide_eq_true (byName_total eps r heps n d hd)
  unfold Gen.limiterByNameO
  rw [if_pos h]
  rfl

/-- … and the value it carries is the one of `limiterByName` -/
theorem byNameO_eq_some (eps r : α) (heps : 0 < eps) (n : String) :
    Gen.limiterByNameO n eps r = some (Gen.limiterByName n eps r) := by
  have h : (Gen.limiterDens n eps r).all (fun d => decide (d ≠ 0)) = true := by
    rw [List.all_eq_true]
    intro d hd
    exact decide_eq_true (byName_total eps r heps n d hd)
  unfold Gen.limiterByNameO
  rw [if_pos h]

/-- `ψ(1) = 1` for whatever `limiterByName` selects (any string, the fallback included) -/
theorem byName_one (eps : α) (heps : 0 < eps) (n : String) :
    Gen.limiterByName n eps 1 = 1 := by
  unfold Gen.limiterByName
  split
  · exact CHARM_one eps heps
  · exact HCUS_one eps heps
  · exact HQUICK_one eps heps
  · exact ospre_one eps heps
  · exact VanLeer_one eps heps
  · exact VanAlbada1_one eps heps
  · exact VanAlbada2_one eps heps
  · exact MinMod_one eps heps
  · exact SUPERBEE_one eps heps
  · exact Osher_one eps heps
  · exact Sweby_one eps heps
  · exact smart_one eps heps
  · exact Koren_one eps heps
  · exact MUSCL_one eps heps
  · exact QUICK_one eps heps
  · exact UMIST_one eps heps
  · exact SUPERBEE_one eps heps

/-- `0 ≤ ψ(r) ≤ min(2r, 4)` for whatever `limiterByName` selects (any string) -/
theorem byName_bounds (eps r : α) (heps : 0 < eps) (hr : 0 < r) (n : String) :
    0 ≤ Gen.limiterByName n eps r ∧ Gen.limiterByName n eps r ≤ min (2 * r) 4 := by
  unfold Gen.limiterByName
  split
  · exact CHARM_bounds eps r heps hr
  · exact HCUS_bounds eps r heps hr
  · exact HQUICK_bounds eps r heps hr
  · exact ospre_bounds eps r heps hr
  · exact VanLeer_bounds eps r heps hr
  · exact VanAlbada1_bounds eps r heps hr
  · exact VanAlbada2_bounds eps r heps hr
  · exact MinMod_bounds eps r heps hr
  · exact SUPERBEE_bounds eps r heps hr
  · exact Osher_bounds eps r heps hr
  · exact Sweby_bounds eps r heps hr
  · exact smart_bounds eps r heps hr
  · exact Koren_bounds eps r heps hr
  · exact MUSCL_bounds eps r heps hr
  · exact QUICK_bounds eps r heps hr
  · exact UMIST_bounds eps r heps hr
  · exact SUPERBEE_bounds eps r heps hr

/-! ## `fsign` — the divisor of the gradient ratio in `psiP` / `psiM` -/

theorem fsign_abs_ge (e x : α) (he : 0 < e) : e ≤ |fsign e x| := by
  rcases le_or_gt e |x| with h | h
  · rw [fsign_of_le he.le h]; exact h
  · rcases lt_trichotomy x 0 with hx | hx | hx
    · rw [fsign_of_lt_neg h hx, abs_neg, abs_of_pos he]
    · rw [hx, fsign_zero he, abs_of_pos he]
    · rw [fsign_of_lt_pos h hx, abs_of_pos he]

theorem fsign_ne_zero (e x : α) (he : 0 < e) : fsign e x ≠ 0 := by
  intro h
  have := fsign_abs_ge e x he
  rw [h, abs_zero] at this
  linarith

/-- Stated with `0 ≤ e` (weaker than the `0 < e` of the other two): without any sign condition
    on `e` the statement is false, see `fsign_eq_self_counterexample`. -/
theorem fsign_eq_self (e x : α) (he : 0 ≤ e) (h : e ≤ |x|) : fsign e x = x :=
  fsign_of_le he h

/-- `e ≤ |x| → fsign e x = x` fails for a negative `e`: `fsign (-1) 0 = -1`. -/
theorem fsign_eq_self_counterexample : ¬ ∀ e x : ℚ, e ≤ |x| → fsign e x = x := by
  intro h
  have := h (-1) 0 (by norm_num)
  norm_num [fsign] at this

/-- the gradient ratio handed to the limiter has a non-zero divisor, hence every limiter value
    used by `psiP`/`psiM` is `limiterByName n eps (a / fsign eps1 b)` with `fsign eps1 b ≠ 0`
    and all its own denominators non-zero -/
theorem tvd_ratio_total (eps eps1 a b : α) (heps : 0 < eps) (heps1 : 0 < eps1) (n : String) :
    fsign eps1 b ≠ 0 ∧ ∀ d ∈ Gen.limiterDens n eps (a / fsign eps1 b), d ≠ 0 :=
  ⟨fsign_ne_zero eps1 b heps1, byName_total eps _ heps n⟩

/-! ## Non-vacuity -/

example : Gen.Koren (1 / 1000 : ℚ) 2 = 5 / 3 := by norm_num [Gen.Koren]
example : Gen.CHARM (1 / 1000 : ℚ) 3 = 15 / 8 := by norm_num [Gen.CHARM, Gen.ind]
example : Gen.CHARM (1 / 1000 : ℚ) (-1) = 0 := CHARM_at_pole _ (by norm_num)
example : Gen.HCUS (1 / 1000 : ℚ) (-2) = 0 := by norm_num [Gen.HCUS, Gen.ind]
example : Gen.HCUS_dens (1 / 1000 : ℚ) (-2) = [1 / 1000] := by norm_num [Gen.HCUS_dens, Gen.ind]
example : Gen.SUPERBEE (1 / 1000 : ℚ) (3 / 4) = 1 := by norm_num [Gen.SUPERBEE]
example : Gen.limiterByName "UMIST" (1 / 1000 : ℚ) 1 = 1 := byName_one _ (by norm_num) _
example : 0 ≤ Gen.smart (1 / 1000 : ℚ) 7 ∧ Gen.smart (1 / 1000 : ℚ) 7 ≤ min (2 * 7) 4 :=
  smart_bounds _ _ (by norm_num) (by norm_num)
example : Gen.smart (1 / 1000 : ℚ) 7 = 4 := by norm_num [Gen.smart]
example : fsign (1 / 10 : ℚ) 0 = 1 / 10 := by norm_num [fsign]
example : fsign (1 / 10 : ℚ) (-1 / 100) = -1 / 10 := by norm_num [fsign, abs_of_neg]

/-- the HCUS guard matters: without `eps` the denominator vanishes at `r = -2` -/
example : Gen.HCUS_dens (0 : ℚ) (-2) = [0] := by norm_num [Gen.HCUS_dens]
/-- likewise for CHARM and HQUICK -/
example : Gen.CHARM_dens (0 : ℚ) (-1) = [0] := by norm_num [Gen.CHARM_dens]
example : Gen.HQUICK_dens (0 : ℚ) (-3) = [0] := by norm_num [Gen.HQUICK_dens]
/-- `eps > 0` cannot be dropped from `HCUS_total` -/
example : ¬ ∀ d ∈ Gen.HCUS_dens (0 : ℚ) (-2), d ≠ 0 := by norm_num [Gen.HCUS_dens]

end PyFV.C13
