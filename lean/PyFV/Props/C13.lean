/-
  Property C13 — flux limiters.

  Every named flux limiter of `pyfvtool.utilities.fluxLimiter` (the generated terms `PyFV.Gen.X`,
  translated from the Python source on every run) evaluates the published closed form of that
  name (`PyFV.Spec.X`, hand-written) for every gradient ratio `r` and every guard `eps > 0`;
  every denominator occurring in the generated formula is non-zero (so the value is finite also
  at the removable singularities, where it is the limit value `0`); `ψ(1) = 1`,
  `0 ≤ ψ(r) ≤ min(2r, 4)` for `r > 0`, and the limiters defined by clipping vanish for `r ≤ 0`.
  An unknown name falls back to SUPERBEE.  The divisor `fsign eps1 x` of the gradient ratio is
  never zero (`|fsign eps1 x| ≥ eps1 > 0`), so the TVD correction is finite for every field.

  Only theorems and examples here; helper lemmas are in `PyFV.Lemmas.Limiters`.

  The generated terms follow the SPELLING of the Python source (operand order, association, `r*r` vs `r**2`,
  temporaries substituted by the translator).  No proof below depends on that spelling: `X_eq_spec` is closed
  semantically (`geq_ring` / `geq_field` / `lim_ac` / `lim_cases`), `X_total` by order arguments on whatever
  denominators were generated, and `X_one`, `X_bounds`, `X_nonpos`, `X_at_pole` are transported through
  `X_eq_spec` from the properties of the published closed form (`Lim.spec_X_…`).  A behaviour-CHANGING edit
  makes `X_eq_spec` (and with it everything after it) fail.
-/
import PyFV.Lemmas.Limiters
import Mathlib.Algebra.Order.Field.Rat

set_option linter.unusedSectionVars false
set_option linter.unusedVariables false
set_option linter.unusedSimpArgs false
set_option linter.unusedTactic false
set_option linter.unreachableTactic false

namespace PyFV.C13
open PyFV PyFV.Lim

variable {α : Type} [Field α] [LinearOrder α] [IsStrictOrderedRing α]

/-! ## The four guarded rational limiters -/

/-! ### CHARM — pole of the formula at `r = -1` -/

theorem CHARM_total (eps r : α) (heps : 0 < eps) : ∀ d ∈ Gen.CHARM_dens eps r, d ≠ 0 := by
  simp only [Gen.CHARM_dens, List.forall_mem_cons, List.not_mem_nil, false_imp_iff, implies_true, and_true,
    Gen.ind]
  split_ifs with h
  · have hr : r = -1 := by linarith
    rw [hr]
    exact ne_of_gt (by nlinarith [heps])
  · have h1 : r + 1 ≠ 0 := fun h' => h (by linarith)
    have h2 : 0 < (r + 1) ^ 2 := lt_of_le_of_ne (sq_nonneg _) (Ne.symm (pow_ne_zero 2 h1))
    exact ne_of_gt (by nlinarith [h2])

/-- Full strength, all `r`.  At the pole `r = -1` (and for every `r ≤ 0`) the factor `(r > 0)`
    makes the numerator vanish, the guarded denominator is `eps ≠ 0`, and the generated value is
    `0 / eps = 0`; `Spec.CHARM` says `0` there by its explicit `else` branch (the limit value),
    not by the convention `x / 0 = 0`. -/
theorem CHARM_eq_spec (eps r : α) (heps : 0 < eps) : Gen.CHARM eps r = Spec.CHARM r := by
  unfold Gen.CHARM Spec.CHARM Gen.ind
  lim_cases

/-- the value at the removable singularity is the limit value `0` -/
theorem CHARM_at_pole (eps : α) (heps : 0 < eps) : Gen.CHARM eps (-1) = 0 := by
  rw [CHARM_eq_spec eps _ heps, Spec.CHARM, if_neg (by norm_num)]

theorem CHARM_one (eps : α) (heps : 0 < eps) : Gen.CHARM eps 1 = 1 := by
  rw [CHARM_eq_spec eps _ heps]
  exact spec_CHARM_one

theorem CHARM_bounds (eps r : α) (heps : 0 < eps) (hr : 0 < r) :
    0 ≤ Gen.CHARM eps r ∧ Gen.CHARM eps r ≤ min (2 * r) 4 := by
  rw [CHARM_eq_spec eps _ heps]
  exact spec_CHARM_bounds hr

/-! ### HCUS — pole of the formula at `r = -2` -/

theorem HCUS_total (eps r : α) (heps : 0 < eps) : ∀ d ∈ Gen.HCUS_dens eps r, d ≠ 0 := by
  simp only [Gen.HCUS_dens, List.forall_mem_cons, List.not_mem_nil, false_imp_iff, implies_true, and_true,
    Gen.ind]
  split_ifs with h
  · exact ne_of_gt (by linarith)
  · exact fun h0 => h (by linarith)

/-- Full strength, all `r`.  At the pole `r = -2` the numerator `r + |r|` vanishes, the guarded
    denominator is `eps ≠ 0` and the generated value is `0 / eps = 0`; `Spec.HCUS` gives the limit
    value `0` there by an explicit `if` (not by `x / 0 = 0`). -/
theorem HCUS_eq_spec (eps r : α) (heps : 0 < eps) : Gen.HCUS eps r = Spec.HCUS r := by
  unfold Gen.HCUS Spec.HCUS Gen.ind
  rcases le_or_gt r 0 with hr | hr
  · simp only [abs_of_nonpos hr]
    lim_cases
  · simp only [abs_of_pos hr]
    lim_cases

theorem HCUS_at_pole (eps : α) (heps : 0 < eps) : Gen.HCUS eps (-2) = 0 := by
  rw [HCUS_eq_spec eps _ heps, Spec.HCUS, if_pos rfl]

theorem HCUS_one (eps : α) (heps : 0 < eps) : Gen.HCUS eps 1 = 1 := by
  rw [HCUS_eq_spec eps _ heps]
  exact spec_HCUS_one

theorem HCUS_bounds (eps r : α) (heps : 0 < eps) (hr : 0 < r) :
    0 ≤ Gen.HCUS eps r ∧ Gen.HCUS eps r ≤ min (2 * r) 4 := by
  rw [HCUS_eq_spec eps _ heps]
  exact spec_HCUS_bounds hr

theorem HCUS_nonpos (eps r : α) (heps : 0 < eps) (hr : r ≤ 0) : Gen.HCUS eps r = 0 := by
  rw [HCUS_eq_spec eps _ heps]
  exact spec_HCUS_nonpos hr

/-! ### HQUICK — pole of the formula at `r = -3` -/

theorem HQUICK_total (eps r : α) (heps : 0 < eps) : ∀ d ∈ Gen.HQUICK_dens eps r, d ≠ 0 := by
  simp only [Gen.HQUICK_dens, List.forall_mem_cons, List.not_mem_nil, false_imp_iff, implies_true, and_true,
    Gen.ind]
  split_ifs with h
  · exact ne_of_gt (by linarith)
  · exact fun h0 => h (by linarith)

/-- Full strength, all `r`.  At the pole `r = -3` the numerator `r + |r|` vanishes, the guarded
    denominator is `eps ≠ 0` and the generated value is `0 / eps = 0`; `Spec.HQUICK` gives the
    limit value `0` there by an explicit `if` (not by `x / 0 = 0`). -/
theorem HQUICK_eq_spec (eps r : α) (heps : 0 < eps) : Gen.HQUICK eps r = Spec.HQUICK r := by
  unfold Gen.HQUICK Spec.HQUICK Gen.ind
  rcases le_or_gt r 0 with hr | hr
  · simp only [abs_of_nonpos hr]
    lim_cases
  · simp only [abs_of_pos hr]
    lim_cases

theorem HQUICK_at_pole (eps : α) (heps : 0 < eps) : Gen.HQUICK eps (-3) = 0 := by
  rw [HQUICK_eq_spec eps _ heps, Spec.HQUICK, if_pos rfl]

theorem HQUICK_one (eps : α) (heps : 0 < eps) : Gen.HQUICK eps 1 = 1 := by
  rw [HQUICK_eq_spec eps _ heps]
  exact spec_HQUICK_one

theorem HQUICK_bounds (eps r : α) (heps : 0 < eps) (hr : 0 < r) :
    0 ≤ Gen.HQUICK eps r ∧ Gen.HQUICK eps r ≤ min (2 * r) 4 := by
  rw [HQUICK_eq_spec eps _ heps]
  exact spec_HQUICK_bounds hr

theorem HQUICK_nonpos (eps r : α) (heps : 0 < eps) (hr : r ≤ 0) : Gen.HQUICK eps r = 0 := by
  rw [HQUICK_eq_spec eps _ heps]
  exact spec_HQUICK_nonpos hr

/-! ### ospre — no real pole -/

/-- `r (r + 1) + 1 > 0`, so the guard `(r*(r+1)+1 == 0)` of the Python code is dead code -/
theorem ospre_guard_never_fires (r : α) : (Gen.ind (r * (r + 1) + 1 = 0) : α) = 0 :=
  ind_false (ospre_den_pos r).ne'

/-- consequently the value does not depend on `eps` at all (any sign, including `0`) -/
theorem ospre_eps_irrelevant (eps eps' r : α) : Gen.ospre eps r = Gen.ospre eps' r := by
  have key : ∀ e : α, Gen.ospre e r = Spec.ospre r := by
    intro e
    unfold Gen.ospre Spec.ospre Gen.ind
    split_ifs with h
    · exact absurd h (ne_of_gt (by nlinarith [sq_nonneg (2 * r + 1)]))
    · geq_ring
  rw [key eps, key eps']

theorem ospre_total (eps r : α) (heps : 0 < eps) : ∀ d ∈ Gen.ospre_dens eps r, d ≠ 0 := by
  simp only [Gen.ospre_dens, List.forall_mem_cons, List.not_mem_nil, false_imp_iff, implies_true, and_true,
    Gen.ind]
  split_ifs with h
  · exact absurd h (ne_of_gt (by nlinarith [sq_nonneg (2 * r + 1)]))
  · exact ne_of_gt (by nlinarith [sq_nonneg (2 * r + 1)])

theorem ospre_eq_spec (eps r : α) (heps : 0 < eps) : Gen.ospre eps r = Spec.ospre r := by
  unfold Gen.ospre Spec.ospre Gen.ind
  split_ifs with h
  · exact absurd h (ne_of_gt (by nlinarith [sq_nonneg (2 * r + 1)]))
  · geq_ring

theorem ospre_one (eps : α) (heps : 0 < eps) : Gen.ospre eps 1 = 1 := by
  rw [ospre_eq_spec eps _ heps]
  exact spec_ospre_one

theorem ospre_bounds (eps r : α) (heps : 0 < eps) (hr : 0 < r) :
    0 ≤ Gen.ospre eps r ∧ Gen.ospre eps r ≤ min (2 * r) 4 := by
  rw [ospre_eq_spec eps _ heps]
  exact spec_ospre_bounds hr

/-! ## The three unguarded rational limiters -/

/-! ### VanLeer -/

theorem VanLeer_total (eps r : α) (heps : 0 < eps) : ∀ d ∈ Gen.VanLeer_dens eps r, d ≠ 0 := by
  simp only [Gen.VanLeer_dens, List.forall_mem_cons, List.not_mem_nil, false_imp_iff, implies_true, and_true]
  have := abs_nonneg r
  exact ne_of_gt (by linarith)

theorem VanLeer_eq_spec (eps r : α) (heps : 0 < eps) : Gen.VanLeer eps r = Spec.VanLeer r := by
  unfold Gen.VanLeer Spec.VanLeer
  geq_ring

theorem VanLeer_one (eps : α) (heps : 0 < eps) : Gen.VanLeer eps 1 = 1 := by
  rw [VanLeer_eq_spec eps _ heps]
  exact spec_VanLeer_one

theorem VanLeer_bounds (eps r : α) (heps : 0 < eps) (hr : 0 < r) :
    0 ≤ Gen.VanLeer eps r ∧ Gen.VanLeer eps r ≤ min (2 * r) 4 := by
  rw [VanLeer_eq_spec eps _ heps]
  exact spec_VanLeer_bounds hr

theorem VanLeer_nonpos (eps r : α) (heps : 0 < eps) (hr : r ≤ 0) : Gen.VanLeer eps r = 0 := by
  rw [VanLeer_eq_spec eps _ heps]
  exact spec_VanLeer_nonpos hr

/-! ### VanAlbada1 -/

theorem VanAlbada1_total (eps r : α) (heps : 0 < eps) :
    ∀ d ∈ Gen.VanAlbada1_dens eps r, d ≠ 0 := by
  simp only [Gen.VanAlbada1_dens, List.forall_mem_cons, List.not_mem_nil, false_imp_iff, implies_true, and_true]
  exact ne_of_gt (by nlinarith [sq_nonneg r])

theorem VanAlbada1_eq_spec (eps r : α) (heps : 0 < eps) :
    Gen.VanAlbada1 eps r = Spec.VanAlbada1 r := by
  unfold Gen.VanAlbada1 Spec.VanAlbada1
  geq_ring

theorem VanAlbada1_one (eps : α) (heps : 0 < eps) : Gen.VanAlbada1 eps 1 = 1 := by
  rw [VanAlbada1_eq_spec eps _ heps]
  exact spec_VanAlbada1_one

theorem VanAlbada1_bounds (eps r : α) (heps : 0 < eps) (hr : 0 < r) :
    0 ≤ Gen.VanAlbada1 eps r ∧ Gen.VanAlbada1 eps r ≤ min (2 * r) 4 := by
  rw [VanAlbada1_eq_spec eps _ heps]
  exact spec_VanAlbada1_bounds hr

/-! ### VanAlbada2 -/

theorem VanAlbada2_total (eps r : α) (heps : 0 < eps) :
    ∀ d ∈ Gen.VanAlbada2_dens eps r, d ≠ 0 := by
  simp only [Gen.VanAlbada2_dens, List.forall_mem_cons, List.not_mem_nil, false_imp_iff, implies_true, and_true]
  exact ne_of_gt (by nlinarith [sq_nonneg r])

theorem VanAlbada2_eq_spec (eps r : α) (heps : 0 < eps) :
    Gen.VanAlbada2 eps r = Spec.VanAlbada2 r := by
  unfold Gen.VanAlbada2 Spec.VanAlbada2
  geq_ring

theorem VanAlbada2_one (eps : α) (heps : 0 < eps) : Gen.VanAlbada2 eps 1 = 1 := by
  rw [VanAlbada2_eq_spec eps _ heps]
  exact spec_VanAlbada2_one

theorem VanAlbada2_bounds (eps r : α) (heps : 0 < eps) (hr : 0 < r) :
    0 ≤ Gen.VanAlbada2 eps r ∧ Gen.VanAlbada2 eps r ≤ min (2 * r) 4 := by
  rw [VanAlbada2_eq_spec eps _ heps]
  exact spec_VanAlbada2_bounds hr

/-! ## The nine limiters defined by clipping (no denominators) -/

/-! ### MinMod -/

theorem MinMod_total (eps r : α) (heps : 0 < eps) : ∀ d ∈ Gen.MinMod_dens eps r, d ≠ 0 := by
  simp only [Gen.MinMod_dens, List.forall_mem_cons, List.not_mem_nil, false_imp_iff, implies_true, and_true]

theorem MinMod_eq_spec (eps r : α) (heps : 0 < eps) : Gen.MinMod eps r = Spec.MinMod r := by
  unfold Gen.MinMod Spec.MinMod Gen.ind
  rcases lt_trichotomy r 0 with h | h | h
  · rw [max_eq_left ((min_le_right _ _).trans h.le)]
    split_ifs <;> first | (exfalso; linarith) | geq_ring
  · subst h
    norm_num
  · rw [max_eq_right (le_min zero_le_one h.le)]
    split_ifs <;> first | (exfalso; linarith) | lim_ac

theorem MinMod_one (eps : α) (heps : 0 < eps) : Gen.MinMod eps 1 = 1 := by
  rw [MinMod_eq_spec eps _ heps]
  exact spec_MinMod_one

theorem MinMod_bounds (eps r : α) (heps : 0 < eps) (hr : 0 < r) :
    0 ≤ Gen.MinMod eps r ∧ Gen.MinMod eps r ≤ min (2 * r) 4 := by
  rw [MinMod_eq_spec eps _ heps]
  exact spec_MinMod_bounds hr

theorem MinMod_nonpos (eps r : α) (heps : 0 < eps) (hr : r ≤ 0) : Gen.MinMod eps r = 0 := by
  rw [MinMod_eq_spec eps _ heps]
  exact spec_MinMod_nonpos hr

/-! ### SUPERBEE -/

theorem SUPERBEE_total (eps r : α) (heps : 0 < eps) : ∀ d ∈ Gen.SUPERBEE_dens eps r, d ≠ 0 := by
  simp only [Gen.SUPERBEE_dens, List.forall_mem_cons, List.not_mem_nil, false_imp_iff, implies_true, and_true]

theorem SUPERBEE_eq_spec (eps r : α) (heps : 0 < eps) : Gen.SUPERBEE eps r = Spec.SUPERBEE r := by
  unfold Gen.SUPERBEE Spec.SUPERBEE
  lim_ac

theorem SUPERBEE_one (eps : α) (heps : 0 < eps) : Gen.SUPERBEE eps 1 = 1 := by
  rw [SUPERBEE_eq_spec eps _ heps]
  exact spec_SUPERBEE_one

theorem SUPERBEE_bounds (eps r : α) (heps : 0 < eps) (hr : 0 < r) :
    0 ≤ Gen.SUPERBEE eps r ∧ Gen.SUPERBEE eps r ≤ min (2 * r) 4 := by
  rw [SUPERBEE_eq_spec eps _ heps]
  exact spec_SUPERBEE_bounds hr

theorem SUPERBEE_nonpos (eps r : α) (heps : 0 < eps) (hr : r ≤ 0) : Gen.SUPERBEE eps r = 0 := by
  rw [SUPERBEE_eq_spec eps _ heps]
  exact spec_SUPERBEE_nonpos hr

/-! ### Osher -/

theorem Osher_total (eps r : α) (heps : 0 < eps) : ∀ d ∈ Gen.Osher_dens eps r, d ≠ 0 := by
  simp only [Gen.Osher_dens, List.forall_mem_cons, List.not_mem_nil, false_imp_iff, implies_true, and_true]

theorem Osher_eq_spec (eps r : α) (heps : 0 < eps) : Gen.Osher eps r = Spec.Osher r := by
  unfold Gen.Osher Spec.Osher
  lim_ac

theorem Osher_one (eps : α) (heps : 0 < eps) : Gen.Osher eps 1 = 1 := by
  rw [Osher_eq_spec eps _ heps]
  exact spec_Osher_one

theorem Osher_bounds (eps r : α) (heps : 0 < eps) (hr : 0 < r) :
    0 ≤ Gen.Osher eps r ∧ Gen.Osher eps r ≤ min (2 * r) 4 := by
  rw [Osher_eq_spec eps _ heps]
  exact spec_Osher_bounds hr

theorem Osher_nonpos (eps r : α) (heps : 0 < eps) (hr : r ≤ 0) : Gen.Osher eps r = 0 := by
  rw [Osher_eq_spec eps _ heps]
  exact spec_Osher_nonpos hr

/-! ### Sweby -/

theorem Sweby_total (eps r : α) (heps : 0 < eps) : ∀ d ∈ Gen.Sweby_dens eps r, d ≠ 0 := by
  simp only [Gen.Sweby_dens, List.forall_mem_cons, List.not_mem_nil, false_imp_iff, implies_true, and_true]

theorem Sweby_eq_spec (eps r : α) (heps : 0 < eps) : Gen.Sweby eps r = Spec.Sweby r := by
  unfold Gen.Sweby Spec.Sweby
  lim_ac

theorem Sweby_one (eps : α) (heps : 0 < eps) : Gen.Sweby eps 1 = 1 := by
  rw [Sweby_eq_spec eps _ heps]
  exact spec_Sweby_one

theorem Sweby_bounds (eps r : α) (heps : 0 < eps) (hr : 0 < r) :
    0 ≤ Gen.Sweby eps r ∧ Gen.Sweby eps r ≤ min (2 * r) 4 := by
  rw [Sweby_eq_spec eps _ heps]
  exact spec_Sweby_bounds hr

theorem Sweby_nonpos (eps r : α) (heps : 0 < eps) (hr : r ≤ 0) : Gen.Sweby eps r = 0 := by
  rw [Sweby_eq_spec eps _ heps]
  exact spec_Sweby_nonpos hr

/-! ### smart -/

theorem smart_total (eps r : α) (heps : 0 < eps) : ∀ d ∈ Gen.smart_dens eps r, d ≠ 0 := by
  simp only [Gen.smart_dens, List.forall_mem_cons, List.not_mem_nil, false_imp_iff, implies_true, and_true]

theorem smart_eq_spec (eps r : α) (heps : 0 < eps) : Gen.smart eps r = Spec.smart r := by
  unfold Gen.smart Spec.smart
  lim_ac

theorem smart_one (eps : α) (heps : 0 < eps) : Gen.smart eps 1 = 1 := by
  rw [smart_eq_spec eps _ heps]
  exact spec_smart_one

theorem smart_bounds (eps r : α) (heps : 0 < eps) (hr : 0 < r) :
    0 ≤ Gen.smart eps r ∧ Gen.smart eps r ≤ min (2 * r) 4 := by
  rw [smart_eq_spec eps _ heps]
  exact spec_smart_bounds hr

theorem smart_nonpos (eps r : α) (heps : 0 < eps) (hr : r ≤ 0) : Gen.smart eps r = 0 := by
  rw [smart_eq_spec eps _ heps]
  exact spec_smart_nonpos hr

/-! ### Koren -/

theorem Koren_total (eps r : α) (heps : 0 < eps) : ∀ d ∈ Gen.Koren_dens eps r, d ≠ 0 := by
  simp only [Gen.Koren_dens, List.forall_mem_cons, List.not_mem_nil, false_imp_iff, implies_true, and_true]

theorem Koren_eq_spec (eps r : α) (heps : 0 < eps) : Gen.Koren eps r = Spec.Koren r := by
  unfold Gen.Koren Spec.Koren
  lim_ac

theorem Koren_one (eps : α) (heps : 0 < eps) : Gen.Koren eps 1 = 1 := by
  rw [Koren_eq_spec eps _ heps]
  exact spec_Koren_one

theorem Koren_bounds (eps r : α) (heps : 0 < eps) (hr : 0 < r) :
    0 ≤ Gen.Koren eps r ∧ Gen.Koren eps r ≤ min (2 * r) 4 := by
  rw [Koren_eq_spec eps _ heps]
  exact spec_Koren_bounds hr

theorem Koren_nonpos (eps r : α) (heps : 0 < eps) (hr : r ≤ 0) : Gen.Koren eps r = 0 := by
  rw [Koren_eq_spec eps _ heps]
  exact spec_Koren_nonpos hr

/-! ### MUSCL -/

theorem MUSCL_total (eps r : α) (heps : 0 < eps) : ∀ d ∈ Gen.MUSCL_dens eps r, d ≠ 0 := by
  simp only [Gen.MUSCL_dens, List.forall_mem_cons, List.not_mem_nil, false_imp_iff, implies_true, and_true]

theorem MUSCL_eq_spec (eps r : α) (heps : 0 < eps) : Gen.MUSCL eps r = Spec.MUSCL r := by
  unfold Gen.MUSCL Spec.MUSCL
  lim_ac

theorem MUSCL_one (eps : α) (heps : 0 < eps) : Gen.MUSCL eps 1 = 1 := by
  rw [MUSCL_eq_spec eps _ heps]
  exact spec_MUSCL_one

theorem MUSCL_bounds (eps r : α) (heps : 0 < eps) (hr : 0 < r) :
    0 ≤ Gen.MUSCL eps r ∧ Gen.MUSCL eps r ≤ min (2 * r) 4 := by
  rw [MUSCL_eq_spec eps _ heps]
  exact spec_MUSCL_bounds hr

theorem MUSCL_nonpos (eps r : α) (heps : 0 < eps) (hr : r ≤ 0) : Gen.MUSCL eps r = 0 := by
  rw [MUSCL_eq_spec eps _ heps]
  exact spec_MUSCL_nonpos hr

/-! ### QUICK -/

theorem QUICK_total (eps r : α) (heps : 0 < eps) : ∀ d ∈ Gen.QUICK_dens eps r, d ≠ 0 := by
  simp only [Gen.QUICK_dens, List.forall_mem_cons, List.not_mem_nil, false_imp_iff, implies_true, and_true]

theorem QUICK_eq_spec (eps r : α) (heps : 0 < eps) : Gen.QUICK eps r = Spec.QUICK r := by
  unfold Gen.QUICK Spec.QUICK
  lim_ac

theorem QUICK_one (eps : α) (heps : 0 < eps) : Gen.QUICK eps 1 = 1 := by
  rw [QUICK_eq_spec eps _ heps]
  exact spec_QUICK_one

theorem QUICK_bounds (eps r : α) (heps : 0 < eps) (hr : 0 < r) :
    0 ≤ Gen.QUICK eps r ∧ Gen.QUICK eps r ≤ min (2 * r) 4 := by
  rw [QUICK_eq_spec eps _ heps]
  exact spec_QUICK_bounds hr

theorem QUICK_nonpos (eps r : α) (heps : 0 < eps) (hr : r ≤ 0) : Gen.QUICK eps r = 0 := by
  rw [QUICK_eq_spec eps _ heps]
  exact spec_QUICK_nonpos hr

/-! ### UMIST -/

theorem UMIST_total (eps r : α) (heps : 0 < eps) : ∀ d ∈ Gen.UMIST_dens eps r, d ≠ 0 := by
  simp only [Gen.UMIST_dens, List.forall_mem_cons, List.not_mem_nil, false_imp_iff, implies_true, and_true]

theorem UMIST_eq_spec (eps r : α) (heps : 0 < eps) : Gen.UMIST eps r = Spec.UMIST r := by
  unfold Gen.UMIST Spec.UMIST
  lim_ac

theorem UMIST_one (eps : α) (heps : 0 < eps) : Gen.UMIST eps 1 = 1 := by
  rw [UMIST_eq_spec eps _ heps]
  exact spec_UMIST_one

theorem UMIST_bounds (eps r : α) (heps : 0 < eps) (hr : 0 < r) :
    0 ≤ Gen.UMIST eps r ∧ Gen.UMIST eps r ≤ min (2 * r) 4 := by
  rw [UMIST_eq_spec eps _ heps]
  exact spec_UMIST_bounds hr

theorem UMIST_nonpos (eps r : α) (heps : 0 < eps) (hr : r ≤ 0) : Gen.UMIST eps r = 0 := by
  rw [UMIST_eq_spec eps _ heps]
  exact spec_UMIST_nonpos hr

/-! ## Dispatch by name -/

theorem fallback_is_superbee : (Gen.fallback : α → α → α) = Gen.SUPERBEE := by
  funext eps r
  unfold Gen.fallback Gen.SUPERBEE
  lim_ac

theorem unknown_name_falls_back (eps r : α) :
    Gen.limiterByName "no such limiter" eps r = Gen.SUPERBEE eps r :=
  (show Gen.limiterByName "no such limiter" eps r = Gen.fallback eps r from rfl).trans
    (congrFun (congrFun fallback_is_superbee eps) r)

/-- *every* string that is not one of the sixteen names gets the SUPERBEE formula -/
theorem every_unknown_name_falls_back (eps r : α) (n : String) (hn : n ∉ Gen.limiterNames) :
    Gen.limiterByName n eps r = Gen.SUPERBEE eps r := by
  unfold Gen.limiterByName
  split
  all_goals first
    | exact congrFun (congrFun fallback_is_superbee eps) r
    | (exfalso; apply hn; simp [Gen.limiterNames])

/-- every denominator of every limiter, selected by an arbitrary string, is non-zero -/
theorem byName_total (eps r : α) (heps : 0 < eps) (n : String) :
    ∀ d ∈ Gen.limiterDens n eps r, d ≠ 0 := by
  unfold Gen.limiterDens
  split
  all_goals first
    | exact CHARM_total eps r heps
    | exact HCUS_total eps r heps
    | exact HQUICK_total eps r heps
    | exact ospre_total eps r heps
    | exact VanLeer_total eps r heps
    | exact VanAlbada1_total eps r heps
    | exact VanAlbada2_total eps r heps
    | exact MinMod_total eps r heps
    | exact SUPERBEE_total eps r heps
    | exact Osher_total eps r heps
    | exact Sweby_total eps r heps
    | exact smart_total eps r heps
    | exact Koren_total eps r heps
    | exact MUSCL_total eps r heps
    | exact QUICK_total eps r heps
    | exact UMIST_total eps r heps
    | (simp only [Gen.fallback_dens, List.forall_mem_cons, List.not_mem_nil, false_imp_iff, implies_true, and_true])

theorem byNameO_isSome (eps r : α) (heps : 0 < eps) (n : String) :
    (Gen.limiterByNameO n eps r).isSome := by
  have h : (Gen.limiterDens n eps r).all (fun d => decide (d ≠ 0)) = true := by
    rw [List.all_eq_true]
    intro d hd
    exact decide_eq_true (byName_total eps r heps n d hd)
  unfold Gen.limiterByNameO
  rw [if_pos h]
  rfl

/-- … and the value it carries is the one of `limiterByName` -/
theorem byNameO_eq_some (eps r : α) (heps : 0 < eps) (n : String) :
    Gen.limiterByNameO n eps r = some (Gen.limiterByName n eps r) := by
  have h : (Gen.limiterDens n eps r).all (fun d => decide (d ≠ 0)) = true := by
    rw [List.all_eq_true]
    intro d hd
    exact decide_eq_true (byName_total eps r heps n d hd)
  unfold Gen.limiterByNameO
  rw [if_pos h]

/-- `ψ(1) = 1` for whatever `limiterByName` selects (any string, the fallback included) -/
theorem byName_one (eps : α) (heps : 0 < eps) (n : String) :
    Gen.limiterByName n eps 1 = 1 := by
  unfold Gen.limiterByName
  split
  all_goals first
    | exact CHARM_one eps heps
    | exact HCUS_one eps heps
    | exact HQUICK_one eps heps
    | exact ospre_one eps heps
    | exact VanLeer_one eps heps
    | exact VanAlbada1_one eps heps
    | exact VanAlbada2_one eps heps
    | exact MinMod_one eps heps
    | exact SUPERBEE_one eps heps
    | exact Osher_one eps heps
    | exact Sweby_one eps heps
    | exact smart_one eps heps
    | exact Koren_one eps heps
    | exact MUSCL_one eps heps
    | exact QUICK_one eps heps
    | exact UMIST_one eps heps
    | (rw [fallback_is_superbee]; exact SUPERBEE_one eps heps)

/-- `0 ≤ ψ(r) ≤ min(2r, 4)` for whatever `limiterByName` selects (any string) -/
theorem byName_bounds (eps r : α) (heps : 0 < eps) (hr : 0 < r) (n : String) :
    0 ≤ Gen.limiterByName n eps r ∧ Gen.limiterByName n eps r ≤ min (2 * r) 4 := by
  unfold Gen.limiterByName
  split
  all_goals first
    | exact CHARM_bounds eps r heps hr
    | exact HCUS_bounds eps r heps hr
    | exact HQUICK_bounds eps r heps hr
    | exact ospre_bounds eps r heps hr
    | exact VanLeer_bounds eps r heps hr
    | exact VanAlbada1_bounds eps r heps hr
    | exact VanAlbada2_bounds eps r heps hr
    | exact MinMod_bounds eps r heps hr
    | exact SUPERBEE_bounds eps r heps hr
    | exact Osher_bounds eps r heps hr
    | exact Sweby_bounds eps r heps hr
    | exact smart_bounds eps r heps hr
    | exact Koren_bounds eps r heps hr
    | exact MUSCL_bounds eps r heps hr
    | exact QUICK_bounds eps r heps hr
    | exact UMIST_bounds eps r heps hr
    | (rw [fallback_is_superbee]; exact SUPERBEE_bounds eps r heps hr)

/-- the default value of the guard `eps` of `fluxLimiter` (translated from the signature) is positive: the hypothesis
    `0 < eps` of the theorems above holds for every call `fluxLimiter(name)` that does not pass `eps` -/
theorem epsDefault_pos : 0 < (Gen.epsDefault : α) := by
  unfold Gen.epsDefault
  positivity

/-! ## `fsign` — the divisor of the gradient ratio in `psiP` / `psiM` -/

theorem fsign_abs_ge (e x : α) (he : 0 < e) : e ≤ |fsign e x| := by
  rcases le_or_gt e |x| with h | h
  · rw [fsign_of_le he.le h]; exact h
  · rcases lt_trichotomy x 0 with hx | hx | hx
    · rw [fsign_of_lt_neg h hx, abs_neg, abs_of_pos he]
    · rw [hx, fsign_zero he, abs_of_pos he]
    · rw [fsign_of_lt_pos h hx, abs_of_pos he]

theorem fsign_ne_zero (e x : α) (he : 0 < e) : fsign e x ≠ 0 := by
  intro h
  have := fsign_abs_ge e x he
  rw [h, abs_zero] at this
  linarith

/-- Stated with `0 ≤ e` (weaker than the `0 < e` of the other two): without any sign condition
    on `e` the statement is false, see `fsign_eq_self_counterexample`. -/
theorem fsign_eq_self (e x : α) (he : 0 ≤ e) (h : e ≤ |x|) : fsign e x = x :=
  fsign_of_le he h

/-- `e ≤ |x| → fsign e x = x` fails for a negative `e`: `fsign (-1) 0 = -1`. -/
theorem fsign_eq_self_counterexample : ¬ ∀ e x : ℚ, e ≤ |x| → fsign e x = x := by
  intro h
  have := h (-1) 0 (by norm_num)
  norm_num [fsign] at this

/-- the gradient ratio handed to the limiter has a non-zero divisor, hence every limiter value
    used by `psiP`/`psiM` is `limiterByName n eps (a / fsign eps1 b)` with `fsign eps1 b ≠ 0`
    and all its own denominators non-zero -/
theorem tvd_ratio_total (eps eps1 a b : α) (heps : 0 < eps) (heps1 : 0 < eps1) (n : String) :
    fsign eps1 b ≠ 0 ∧ ∀ d ∈ Gen.limiterDens n eps (a / fsign eps1 b), d ≠ 0 :=
  ⟨fsign_ne_zero eps1 b heps1, byName_total eps _ heps n⟩

/-! ## Non-vacuity -/

example : Gen.Koren (1 / 1000 : ℚ) 2 = 5 / 3 := by norm_num [Gen.Koren]
example : Gen.CHARM (1 / 1000 : ℚ) 3 = 15 / 8 := by norm_num [Gen.CHARM, Gen.ind]
example : Gen.CHARM (1 / 1000 : ℚ) (-1) = 0 := CHARM_at_pole _ (by norm_num)
example : Gen.HCUS (1 / 1000 : ℚ) (-2) = 0 := by norm_num [Gen.HCUS, Gen.ind]
example : Gen.HCUS_dens (1 / 1000 : ℚ) (-2) = [1 / 1000] := by norm_num [Gen.HCUS_dens, Gen.ind]
example : Gen.SUPERBEE (1 / 1000 : ℚ) (3 / 4) = 1 := by norm_num [Gen.SUPERBEE]
example : Gen.limiterByName "UMIST" (1 / 1000 : ℚ) 1 = 1 := byName_one _ (by norm_num) _
example : 0 ≤ Gen.smart (1 / 1000 : ℚ) 7 ∧ Gen.smart (1 / 1000 : ℚ) 7 ≤ min (2 * 7) 4 :=
  smart_bounds _ _ (by norm_num) (by norm_num)
example : Gen.smart (1 / 1000 : ℚ) 7 = 4 := by norm_num [Gen.smart]
example : fsign (1 / 10 : ℚ) 0 = 1 / 10 := by norm_num [fsign]
example : fsign (1 / 10 : ℚ) (-1 / 100) = -1 / 10 := by norm_num [fsign, abs_of_neg]

/-- the HCUS guard matters: without `eps` the denominator vanishes at `r = -2` -/
example : Gen.HCUS_dens (0 : ℚ) (-2) = [0] := by norm_num [Gen.HCUS_dens]
/-- likewise for CHARM and HQUICK -/
example : Gen.CHARM_dens (0 : ℚ) (-1) = [0] := by norm_num [Gen.CHARM_dens]
example : Gen.HQUICK_dens (0 : ℚ) (-3) = [0] := by norm_num [Gen.HQUICK_dens]
/-- `eps > 0` cannot be dropped from `HCUS_total` -/
example : ¬ ∀ d ∈ Gen.HCUS_dens (0 : ℚ) (-2), d ≠ 0 := by norm_num [Gen.HCUS_dens]

end PyFV.C13
