/-
  Property C03 — boundary values honour the boundary conditions.

  * the ghost value `apply_BCs` computes satisfies the Robin relation
    `a·(normal difference quotient, metric factor included) + b·(face average) = c`
    face by face (`ghostHi_satisfies`, `ghostLo_satisfies`), it is defined exactly when the
    ghost coefficient is non-zero (`ghostHi_isSome_iff`), and where that coefficient vanishes
    the relation does not involve the ghost at all (`ghost_undefined_means_unconstrained`);
  * the rows `boundaryConditionsTerm` hands to the solver encode the same relation
    (`bcRowHi_iff_robin`), so the ghost unknown of a solution is the value `apply_BCs` reports
    afterwards (`solved_ghost_eq_reported`);
  * multiplying `(a, b, c)` by a non-zero factor changes neither the ghost values nor the
    solution set of any boundary row (`ghost_scale`, `bcRow_scale_iff`, `solves_scale_iff`);
  * the values wrap exactly on the axes flagged periodic on either side
    (`ghost_periodic_wraps`, `ghost_wraps_only_if_periodic`, `periodicDir_iff`);
  * the periodic rows define the wrapped ghost values iff the two end cells of the axis have
    equal size (`periodic_rows_iff_wrap`); with unequal end cells they do not
    (`periodic_rows_unequal_end_cells`, `periodic_wrap_inconsistent_counterexample` — known finding);
  * interior values are never altered, edge/corner cells are zero (`withGhosts_interior`,
    `withGhosts_corner_zero`).
-/
import PyFV.Lemmas.BCLemmas
import PyFV.Props.Examples

set_option linter.unusedSectionVars false

namespace PyFV.C03
open PyFV

variable {α : Type} [Field α] [LinearOrder α] [IsStrictOrderedRing α]

/-! ### 0. the interior is never altered; edge and corner cells are zero -/

theorem withGhosts_interior (M : Mesh α) (bc : BCs α) (φ : CellFld α) (c : Idx)
    (h : M.outCount c = 0) : withGhosts M bc φ c = some (φ c) := by
  unfold withGhosts; rw [h]; rfl

theorem withGhosts_interior' (M : Mesh α) (bc : BCs α) (φ : CellFld α) (c : Idx)
    (h : M.interior c) : withGhosts M bc φ c = some (φ c) :=
  withGhosts_interior M bc φ c (outCount_of_interior h)

theorem withGhosts_corner_zero (M : Mesh α) (bc : BCs α) (φ : CellFld α) (c : Idx)
    (h : 2 ≤ M.outCount c) : withGhosts M bc φ c = some 0 := by
  obtain ⟨k, hk⟩ : ∃ k, M.outCount c = k + 2 := ⟨M.outCount c - 2, by omega⟩
  unfold withGhosts; rw [hk]; rfl

/-- a face ghost of the ghosted array is the low/high ghost value of its grid line -/
theorem withGhosts_face (M : Mesh α) (bc : BCs α) (φ : CellFld α) (c : Idx)
    (h : M.outCount c = 1) :
    withGhosts M bc φ c =
      if c.get (M.outDir c) = 0 then ghostLo M bc φ (M.outDir c) (c.set (M.outDir c) 1)
      else ghostHi M bc φ (M.outDir c) (c.set (M.outDir c) (M.n (M.outDir c))) := by
  unfold withGhosts; rw [h]; rfl

/-! ### 1. the reported ghost value satisfies the Robin relation -/

/-- high side: `a·(g − φ_c)/(m·dx_end) + b·(φ_c + g)/2 = c` -/
theorem ghostHi_satisfies (M : Mesh α) (bc : BCs α) (φ : CellFld α) (d : Dir) (c : Idx) (g : α)
    (hp : ¬ bc.periodicDir d = true) (_hg : hiGhostCoef M bc d c ≠ 0)
    (_hD : lineM M d c * (M.axis d).DX (M.n d + 1) ≠ 0)
    (h : ghostHi M bc φ d c = some g) :
    (bc.hi d).a c * ((g - φ c) / (lineM M d c * (M.axis d).DX (M.n d + 1)))
      + (bc.hi d).b c * ((φ c + g) / 2) = (bc.hi d).c c := by
  rw [ghostHi_nonper (periodicDir_false_of_not hp), sdiv_eq_some] at h
  obtain ⟨_, rfl⟩ := h
  rw [robin_split_hi]
  change _ * hiGhostCoef M bc d c + _ * hiCellCoef M bc d c = _
  field_simp
  ring

/-- low side: `a·(φ_c − g)/(m·dx_1) + b·(φ_c + g)/2 = c` -/
theorem ghostLo_satisfies (M : Mesh α) (bc : BCs α) (φ : CellFld α) (d : Dir) (c : Idx) (g : α)
    (hp : ¬ bc.periodicDir d = true) (_hg : loGhostCoef M bc d c ≠ 0)
    (_hD : lineM M d c * (M.axis d).DX 0 ≠ 0)
    (h : ghostLo M bc φ d c = some g) :
    (bc.lo d).a c * ((φ c - g) / (lineM M d c * (M.axis d).DX 0))
      + (bc.lo d).b c * ((φ c + g) / 2) = (bc.lo d).c c := by
  rw [ghostLo_nonper (periodicDir_false_of_not hp), sdiv_eq_some] at h
  obtain ⟨_, rfl⟩ := h
  rw [robin_split_lo]
  change _ * loGhostCoef M bc d c + _ * loCellCoef M bc d c = _
  field_simp
  ring

/-! ### 2. definedness -/

theorem ghostHi_isSome_iff (M : Mesh α) (bc : BCs α) (φ : CellFld α) (d : Dir) (c : Idx)
    (hp : ¬ bc.periodicDir d = true) :
    (ghostHi M bc φ d c).isSome = true ↔ hiGhostCoef M bc d c ≠ 0 := by
  rw [ghostHi_nonper (periodicDir_false_of_not hp), sdiv_isSome]

theorem ghostLo_isSome_iff (M : Mesh α) (bc : BCs α) (φ : CellFld α) (d : Dir) (c : Idx)
    (hp : ¬ bc.periodicDir d = true) :
    (ghostLo M bc φ d c).isSome = true ↔ loGhostCoef M bc d c ≠ 0 := by
  rw [ghostLo_nonper (periodicDir_false_of_not hp), sdiv_isSome]

/-- on a periodic axis the ghost values are always defined -/
theorem ghost_isSome_of_periodic (M : Mesh α) (bc : BCs α) (φ : CellFld α) (d : Dir) (c : Idx)
    (hp : bc.periodicDir d = true) :
    (ghostHi M bc φ d c).isSome = true ∧ (ghostLo M bc φ d c).isSome = true := by
  rw [ghostHi_per hp, ghostLo_per hp]; exact ⟨rfl, rfl⟩

/-- where the ghost coefficient vanishes, the left-hand side of the Robin relation is the same
    for every ghost value: the relation does not constrain the ghost -/
theorem ghost_undefined_means_unconstrained (M : Mesh α) (bc : BCs α) (d : Dir) (c : Idx)
    (p : α) (h0 : hiGhostCoef M bc d c = 0) (g g' : α) :
    (bc.hi d).a c * ((g - p) / (lineM M d c * (M.axis d).DX (M.n d + 1)))
      + (bc.hi d).b c * ((p + g) / 2)
    = (bc.hi d).a c * ((g' - p) / (lineM M d c * (M.axis d).DX (M.n d + 1)))
      + (bc.hi d).b c * ((p + g') / 2) := by
  rw [robin_split_hi, robin_split_hi]
  unfold hiGhostCoef at h0
  rw [h0]; ring

theorem ghostLo_undefined_means_unconstrained (M : Mesh α) (bc : BCs α) (d : Dir) (c : Idx)
    (p : α) (h0 : loGhostCoef M bc d c = 0) (g g' : α) :
    (bc.lo d).a c * ((p - g) / (lineM M d c * (M.axis d).DX 0))
      + (bc.lo d).b c * ((p + g) / 2)
    = (bc.lo d).a c * ((p - g') / (lineM M d c * (M.axis d).DX 0))
      + (bc.lo d).b c * ((p + g') / 2) := by
  rw [robin_split_lo, robin_split_lo]
  unfold loGhostCoef at h0
  rw [h0]; ring

/-- … hence with a vanishing ghost coefficient a ghost value satisfies the relation iff the
    interior value alone happens to: `φ_c · (−a/(m·dx) + b/2) = c`; and `apply_BCs` reports
    no value (`none` = the `inf`/`nan` of the code) -/
theorem ghost_undefined_satisfiable_iff (M : Mesh α) (bc : BCs α) (φ : CellFld α) (d : Dir)
    (c : Idx) (hp : ¬ bc.periodicDir d = true) (h0 : hiGhostCoef M bc d c = 0) :
    ghostHi M bc φ d c = none ∧
    ∀ g, ((bc.hi d).a c * ((g - φ c) / (lineM M d c * (M.axis d).DX (M.n d + 1)))
            + (bc.hi d).b c * ((φ c + g) / 2) = (bc.hi d).c c
          ↔ φ c * hiCellCoef M bc d c = (bc.hi d).c c) := by
  refine ⟨?_, fun g => ?_⟩
  · rw [ghostHi_nonper (periodicDir_false_of_not hp), sdiv_eq_none]; exact h0
  · rw [robin_split_hi]
    unfold hiGhostCoef at h0
    unfold hiCellCoef
    rw [h0, mul_zero, zero_add]

theorem ghostLo_undefined_satisfiable_iff (M : Mesh α) (bc : BCs α) (φ : CellFld α) (d : Dir)
    (c : Idx) (hp : ¬ bc.periodicDir d = true) (h0 : loGhostCoef M bc d c = 0) :
    ghostLo M bc φ d c = none ∧
    ∀ g, ((bc.lo d).a c * ((φ c - g) / (lineM M d c * (M.axis d).DX 0))
            + (bc.lo d).b c * ((φ c + g) / 2) = (bc.lo d).c c
          ↔ φ c * loCellCoef M bc d c = (bc.lo d).c c) := by
  refine ⟨?_, fun g => ?_⟩
  · rw [ghostLo_nonper (periodicDir_false_of_not hp), sdiv_eq_none]; exact h0
  · rw [robin_split_lo]
    unfold loGhostCoef at h0
    unfold loCellCoef
    rw [h0, mul_zero, zero_add]

/-! ### 3. scaling `(a, b, c)` by a non-zero factor -/

theorem ghostHi_scale (M : Mesh α) (bc : BCs α) (φ : CellFld α) (d : Dir) (c : Idx) {l : α}
    (hl : l ≠ 0) : ghostHi M (BCs.scale l bc) φ d c = ghostHi M bc φ d c := by
  unfold ghostHi
  rw [BCs.periodicDir_scale, hiGhostCoef_scale, hiCellCoef_scale, hi_c_scale]
  have e : l * (bc.hi d).c c - φ c * (l * hiCellCoef M bc d c)
      = l * ((bc.hi d).c c - φ c * hiCellCoef M bc d c) := by ring
  rw [e, sdiv_scale hl]

theorem ghostLo_scale (M : Mesh α) (bc : BCs α) (φ : CellFld α) (d : Dir) (c : Idx) {l : α}
    (hl : l ≠ 0) : ghostLo M (BCs.scale l bc) φ d c = ghostLo M bc φ d c := by
  unfold ghostLo
  rw [BCs.periodicDir_scale, loGhostCoef_scale, loCellCoef_scale, lo_c_scale]
  have e : l * (bc.lo d).c c - φ c * (l * loCellCoef M bc d c)
      = l * ((bc.lo d).c c - φ c * loCellCoef M bc d c) := by ring
  rw [e, sdiv_scale hl]

theorem withGhosts_scale (M : Mesh α) (bc : BCs α) (φ : CellFld α) (c : Idx) {l : α}
    (hl : l ≠ 0) : withGhosts M (BCs.scale l bc) φ c = withGhosts M bc φ c := by
  unfold withGhosts
  simp only [ghostHi_scale M bc φ _ _ hl, ghostLo_scale M bc φ _ _ hl]

/-- the reported ghost values and the whole ghosted array do not depend on the scale of
    `(a, b, c)` -/
theorem ghost_scale (M : Mesh α) (bc : BCs α) (φ : CellFld α) {l : α} (hl : l ≠ 0) :
    (∀ d c, ghostHi M (BCs.scale l bc) φ d c = ghostHi M bc φ d c) ∧
    (∀ d c, ghostLo M (BCs.scale l bc) φ d c = ghostLo M bc φ d c) ∧
    (∀ c, withGhosts M (BCs.scale l bc) φ c = withGhosts M bc φ c) :=
  ⟨fun d c => ghostHi_scale M bc φ d c hl, fun d c => ghostLo_scale M bc φ d c hl,
   fun c => withGhosts_scale M bc φ c hl⟩

/-- non-periodic high row: every entry and the right-hand side are multiplied by `l` -/
theorem bcRowHi_scale (M : Mesh α) (bc : BCs α) (d : Dir) (c : Idx) (l : α)
    (hp : ¬ bc.periodicDir d = true) :
    bcRowHi M (BCs.scale l bc) d c = Row.smul l (bcRowHi M bc d c) := by
  have h := periodicDir_false_of_not hp
  rw [bcRowHi_nonper (bc := BCs.scale l bc) h, bcRowHi_nonper h]
  simp [Row.smul, hiGhostCoef_scale, hiCellCoef_scale, hi_c_scale]

theorem bcRowLo_scale (M : Mesh α) (bc : BCs α) (d : Dir) (c : Idx) (l : α)
    (hp : ¬ bc.periodicDir d = true) :
    bcRowLo M (BCs.scale l bc) d c = Row.smul l (bcRowLo M bc d c) := by
  have h := periodicDir_false_of_not hp
  rw [bcRowLo_nonper (bc := BCs.scale l bc) h, bcRowLo_nonper h]
  simp [Row.smul, loGhostCoef_scale, loCellCoef_scale, lo_c_scale]

/-- periodic rows do not contain `(a, b, c)` at all -/
theorem bcRow_scale_periodic (M : Mesh α) (bc : BCs α) (d : Dir) (c : Idx) (l : α)
    (hp : bc.periodicDir d = true) :
    bcRowHi M (BCs.scale l bc) d c = bcRowHi M bc d c ∧
    bcRowLo M (BCs.scale l bc) d c = bcRowLo M bc d c := by
  rw [bcRowHi_per (bc := BCs.scale l bc) hp, bcRowHi_per hp,
    bcRowLo_per (bc := BCs.scale l bc) hp, bcRowLo_per hp]
  exact ⟨rfl, rfl⟩

/-- the solution set of each face row is unchanged by the scaling (periodic or not) -/
theorem bcRow_scale_iff (M : Mesh α) (bc : BCs α) (d : Dir) (c : Idx) {l : α} (hl : l ≠ 0)
    (x : CellFld α) :
    ((bcRowHi M (BCs.scale l bc) d c).app x = (bcRowHi M (BCs.scale l bc) d c).rhs
      ↔ (bcRowHi M bc d c).app x = (bcRowHi M bc d c).rhs) ∧
    ((bcRowLo M (BCs.scale l bc) d c).app x = (bcRowLo M (BCs.scale l bc) d c).rhs
      ↔ (bcRowLo M bc d c).app x = (bcRowLo M bc d c).rhs) := by
  by_cases hp : bc.periodicDir d = true
  · obtain ⟨e1, e2⟩ := bcRow_scale_periodic M bc d c l hp
    rw [e1, e2]
    exact ⟨Iff.rfl, Iff.rfl⟩
  · rw [bcRowHi_scale M bc d c l hp, bcRowLo_scale M bc d c l hp]
    exact ⟨Row.smul_solves_iff hl _ x, Row.smul_solves_iff hl _ x⟩

/-- the same for the row `boundaryConditionsTerm` attaches to any cell of the ghosted box;
    the decoupled corner/edge rows `s·x_corner = 0` keep their solutions as long as the
    scaling does not change whether the corner diagonal `s` vanishes -/
theorem bcRow_cell_scale_iff (M : Mesh α) (bc : BCs α) (c : Idx) {l : α} (hl : l ≠ 0)
    (hs : cornerScale M (BCs.scale l bc) = 0 ↔ cornerScale M bc = 0) (x : CellFld α) :
    (bcRow M (BCs.scale l bc) c).app x = (bcRow M (BCs.scale l bc) c).rhs
      ↔ (bcRow M bc c).app x = (bcRow M bc c).rhs := by
  unfold bcRow
  split
  · exact Iff.rfl
  · simp only
    split
    · exact (bcRow_scale_iff M bc _ _ hl x).2
    · exact (bcRow_scale_iff M bc _ _ hl x).1
  · simp only [Row.app_one, mul_eq_zero, hs]

/-- **Scaling changes nothing in the solution**: the assembled system with the scaled boundary
    conditions has exactly the same solutions (interior, face ghosts and corner cells). -/
theorem solves_scale_iff (M : Mesh α) (bc : BCs α) (ts : List (TermObj α)) {l : α} (hl : l ≠ 0)
    (hs : cornerScale M (BCs.scale l bc) = 0 ↔ cornerScale M bc = 0) (x : CellFld α) :
    Solves M (BCs.scale l bc) ts x ↔ Solves M bc ts x := by
  unfold Solves assembleOp assembleRhs
  refine forall_congr' (fun c => imp_congr_right (fun _ => ?_))
  by_cases h : M.outCount c = 0
  · simp only [eq_true h, if_true]
  · simp only [eq_false h, if_false]
    exact bcRow_cell_scale_iff M bc c hl hs x

/-- the corner hypothesis holds for every 1-D and 3-D grid (diagonal 1) … -/
theorem solves_scale_iff_of_dim_ne_two (M : Mesh α) (bc : BCs α) (ts : List (TermObj α)) {l : α}
    (hl : l ≠ 0) (hd : M.kind.dim ≠ 2) (x : CellFld α) :
    Solves M (BCs.scale l bc) ts x ↔ Solves M bc ts x := by
  apply solves_scale_iff M bc ts hl
  rw [cornerScale_of_dim_ne M _ hd, cornerScale_of_dim_ne M _ hd]

/-- … and for every grid when the factor is positive (the 2-D corner diagonal is a maximum,
    which commutes with positive factors only) -/
theorem solves_scale_iff_of_pos (M : Mesh α) (bc : BCs α) (ts : List (TermObj α)) {l : α}
    (hl : 0 < l) (x : CellFld α) :
    Solves M (BCs.scale l bc) ts x ↔ Solves M bc ts x := by
  apply solves_scale_iff M bc ts (ne_of_gt hl)
  rw [cornerScale_scale_pos M (le_of_lt hl)]
  by_cases h : M.kind.dim = 2
  · simp only [eq_true h, if_true, mul_eq_zero, ne_of_gt hl, false_or]
  · simp only [eq_false h, if_false, cornerScale_of_dim_ne M bc h]

/-! ### 4. the solver's boundary rows encode the same Robin relation -/

theorem bcRowHi_iff_robin (M : Mesh α) (bc : BCs α) (d : Dir) (c : Idx) (x : CellFld α)
    (hp : ¬ bc.periodicDir d = true) (hc : c.get d = M.n d)
    (_hD : lineM M d c * (M.axis d).DX (M.n d + 1) ≠ 0) :
    (bcRowHi M bc d c).app x = (bcRowHi M bc d c).rhs
      ↔ (bc.hi d).a c * ((x (c.set d (M.n d + 1)) - x c)
            / (lineM M d c * (M.axis d).DX (M.n d + 1)))
          + (bc.hi d).b c * ((x c + x (c.set d (M.n d + 1))) / 2) = (bc.hi d).c c := by
  have e : c.set d (M.n d) = c := by rw [← hc]; exact Idx.set_get c d
  rw [bcRowHi_nonper (periodicDir_false_of_not hp), Row.app_two, e, robin_split_hi]
  unfold hiGhostCoef hiCellCoef
  constructor <;> intro h <;> linear_combination h

theorem bcRowLo_iff_robin (M : Mesh α) (bc : BCs α) (d : Dir) (c : Idx) (x : CellFld α)
    (hp : ¬ bc.periodicDir d = true) (hc : c.get d = 1)
    (_hD : lineM M d c * (M.axis d).DX 0 ≠ 0) :
    (bcRowLo M bc d c).app x = (bcRowLo M bc d c).rhs
      ↔ (bc.lo d).a c * ((x c - x (c.set d 0)) / (lineM M d c * (M.axis d).DX 0))
          + (bc.lo d).b c * ((x c + x (c.set d 0)) / 2) = (bc.lo d).c c := by
  have e : c.set d 1 = c := by rw [← hc]; exact Idx.set_get c d
  rw [bcRowLo_nonper (periodicDir_false_of_not hp), Row.app_two, e, robin_split_lo]
  unfold loGhostCoef loCellCoef
  constructor <;> intro h <;> linear_combination (-1 : α) * h

/-! ### 5. the ghost unknown of a solution is the value reported afterwards -/

theorem solved_ghost_eq_reported (M : Mesh α) (bc : BCs α) (d : Dir) (c : Idx) (x : CellFld α)
    (hp : ¬ bc.periodicDir d = true) (hc : c.get d = M.n d) (hg : hiGhostCoef M bc d c ≠ 0)
    (hrow : (bcRowHi M bc d c).app x = (bcRowHi M bc d c).rhs) :
    ghostHi M bc x d c = some (x (c.set d (M.n d + 1))) := by
  have e : c.set d (M.n d) = c := by rw [← hc]; exact Idx.set_get c d
  rw [bcRowHi_nonper (periodicDir_false_of_not hp), Row.app_two, e] at hrow
  have hrow' : hiGhostCoef M bc d c * x (c.set d (M.n d + 1)) + hiCellCoef M bc d c * x c
      = (bc.hi d).c c := hrow
  rw [ghostHi_nonper (periodicDir_false_of_not hp), sdiv_of_ne hg]
  congr 1
  rw [div_eq_iff hg]
  linear_combination (-1 : α) * hrow'

theorem solved_ghostLo_eq_reported (M : Mesh α) (bc : BCs α) (d : Dir) (c : Idx) (x : CellFld α)
    (hp : ¬ bc.periodicDir d = true) (hc : c.get d = 1) (hg : loGhostCoef M bc d c ≠ 0)
    (hrow : (bcRowLo M bc d c).app x = (bcRowLo M bc d c).rhs) :
    ghostLo M bc x d c = some (x (c.set d 0)) := by
  have e : c.set d 1 = c := by rw [← hc]; exact Idx.set_get c d
  rw [bcRowLo_nonper (periodicDir_false_of_not hp), Row.app_two, e] at hrow
  have hrow' : -loCellCoef M bc d c * x c + -loGhostCoef M bc d c * x (c.set d 0)
      = -(bc.lo d).c c := hrow
  rw [ghostLo_nonper (periodicDir_false_of_not hp), sdiv_of_ne hg]
  congr 1
  rw [div_eq_iff hg]
  linear_combination hrow'

/-- **Solved interior and reported boundary values are mutually consistent.**  For a solution
    `x` of the assembled system, an interior cell `c` at the high end of an active,
    non-periodic direction with a non-zero ghost coefficient: `apply_BCs` applied to `x`
    reports in the ghost cell exactly the ghost unknown the solver computed. -/
theorem solves_reported_consistent_hi (M : Mesh α) (bc : BCs α) (ts : List (TermObj α))
    (x : CellFld α) (hx : Solves M bc ts x) (d : Dir) (c : Idx) (hint : M.interior c)
    (hd : M.kind.active d = true) (hp : ¬ bc.periodicDir d = true) (hc : c.get d = M.n d)
    (hg : hiGhostCoef M bc d c ≠ 0) (hbox : M.inBox (c.set d (M.n d + 1))) :
    withGhosts M bc x (c.set d (M.n d + 1)) = some (x (c.set d (M.n d + 1))) := by
  obtain ⟨h1, h2⟩ := ghostCell_hi hint hd
  have e : c.set d (M.n d) = c := by rw [← hc]; exact Idx.set_get c d
  have hne : ¬ M.n d + 1 = 0 := by omega
  have hrow := hx _ hbox
  unfold assembleOp assembleRhs at hrow
  have h0 : ¬ M.outCount (c.set d (M.n d + 1)) = 0 := by omega
  simp only [eq_false h0, if_false] at hrow
  rw [bcRow_face M bc _ h1, h2, Idx.get_set_same] at hrow
  simp only [Idx.set_set, eq_false hne, if_false, e] at hrow
  rw [withGhosts_face M bc x _ h1, h2, Idx.get_set_same]
  simp only [Idx.set_set, eq_false hne, if_false, e]
  exact solved_ghost_eq_reported M bc d c x hp hc hg hrow

theorem solves_reported_consistent_lo (M : Mesh α) (bc : BCs α) (ts : List (TermObj α))
    (x : CellFld α) (hx : Solves M bc ts x) (d : Dir) (c : Idx) (hint : M.interior c)
    (hd : M.kind.active d = true) (hp : ¬ bc.periodicDir d = true) (hc : c.get d = 1)
    (hg : loGhostCoef M bc d c ≠ 0) (hbox : M.inBox (c.set d 0)) :
    withGhosts M bc x (c.set d 0) = some (x (c.set d 0)) := by
  obtain ⟨h1, h2⟩ := ghostCell_lo hint hd
  have e : c.set d 1 = c := by rw [← hc]; exact Idx.set_get c d
  have hrow := hx _ hbox
  unfold assembleOp assembleRhs at hrow
  have h0 : ¬ M.outCount (c.set d 0) = 0 := by omega
  simp only [eq_false h0, if_false] at hrow
  rw [bcRow_face M bc _ h1, h2, Idx.get_set_same] at hrow
  simp only [Idx.set_set, if_true, e] at hrow
  rw [withGhosts_face M bc x _ h1, h2, Idx.get_set_same]
  simp only [Idx.set_set, if_true, e]
  exact solved_ghostLo_eq_reported M bc d c x hp hc hg hrow

/-! ### 6. periodic axes: wrap exactly there -/

theorem periodicDir_iff (bc : BCs α) (d : Dir) :
    bc.periodicDir d = true ↔ (bc.lo d).periodic = true ∨ (bc.hi d).periodic = true := by
  simp [BCs.periodicDir]

theorem ghost_periodic_wraps (M : Mesh α) (bc : BCs α) (φ : CellFld α) (d : Dir) (c : Idx)
    (hp : bc.periodicDir d = true) :
    ghostHi M bc φ d c = some (φ (c.set d 1)) ∧
    ghostLo M bc φ d c = some (φ (c.set d (M.n d))) :=
  ⟨ghostHi_per hp φ c, ghostLo_per hp φ c⟩

/-- on an axis that is not periodic the ghost values are the Robin values, not the wrapped ones -/
theorem ghost_wraps_only_if_periodic (M : Mesh α) (bc : BCs α) (φ : CellFld α) (d : Dir)
    (c : Idx) (hp : ¬ bc.periodicDir d = true) :
    ghostHi M bc φ d c
        = sdiv ((bc.hi d).c c - φ c * hiCellCoef M bc d c) (hiGhostCoef M bc d c) ∧
    ghostLo M bc φ d c
        = sdiv ((bc.lo d).c c - φ c * loCellCoef M bc d c) (loGhostCoef M bc d c) :=
  ⟨ghostHi_nonper (periodicDir_false_of_not hp) φ c,
   ghostLo_nonper (periodicDir_false_of_not hp) φ c⟩

/-- Dirichlet face (`a = 0`, `b = 1`) on a non-periodic axis: the ghost is `2c − φ_c` -/
theorem ghostHi_dirichlet (M : Mesh α) (bc : BCs α) (φ : CellFld α) (d : Dir) (c : Idx)
    (hp : ¬ bc.periodicDir d = true) (ha : (bc.hi d).a c = 0) (hb : (bc.hi d).b c = 1) :
    ghostHi M bc φ d c = some (2 * (bc.hi d).c c - φ c) := by
  have hg : hiGhostCoef M bc d c = 1 / 2 := by simp [hiGhostCoef, ha, hb]
  have hcc : hiCellCoef M bc d c = 1 / 2 := by simp [hiCellCoef, ha, hb]
  rw [ghostHi_nonper (periodicDir_false_of_not hp), hg, hcc, sdiv_of_ne (by norm_num)]
  congr 1
  ring

theorem ghostLo_dirichlet (M : Mesh α) (bc : BCs α) (φ : CellFld α) (d : Dir) (c : Idx)
    (hp : ¬ bc.periodicDir d = true) (ha : (bc.lo d).a c = 0) (hb : (bc.lo d).b c = 1) :
    ghostLo M bc φ d c = some (2 * (bc.lo d).c c - φ c) := by
  have hg : loGhostCoef M bc d c = 1 / 2 := by simp [loGhostCoef, ha, hb]
  have hcc : loCellCoef M bc d c = 1 / 2 := by simp [loCellCoef, ha, hb]
  rw [ghostLo_nonper (periodicDir_false_of_not hp), hg, hcc, sdiv_of_ne (by norm_num)]
  congr 1
  ring

/-- concrete instance: Dirichlet `φ = 5`, field `φ(i) = i` on the 3-cell example mesh; the high
    ghost is `2·5 − 3 = 7`, the wrapped value would be `φ(1) = 1` -/
theorem ghost_not_wrapped_example (k : Kind) :
    ghostHi (Examples.mesh k) BCEx.dirichlet BCEx.ramp .x (3, 1, 1) = some 7 ∧
    ghostHi (Examples.mesh k) BCEx.dirichlet BCEx.ramp .x (3, 1, 1)
      ≠ some (BCEx.ramp (Idx.set (3, 1, 1) .x 1)) := by
  have h : ghostHi (Examples.mesh k) BCEx.dirichlet BCEx.ramp .x (3, 1, 1) = some 7 := by
    rw [ghostHi_dirichlet _ _ _ _ _ (by decide) rfl rfl]
    norm_num [BCEx.dirichlet, BCEx.dirichletFace, BCEx.ramp]
  refine ⟨h, ?_⟩
  rw [h]
  norm_num [BCEx.ramp, Idx.set]

/-! ### 7. periodic rows versus the reported wrap -/

/-- with end cells of equal size the two periodic rows of a grid line say exactly
    `x₀ = x_n` and `x_{n+1} = x₁` -/
theorem periodic_rows_iff_wrap (M : Mesh α) (bc : BCs α) (d : Dir) (c : Idx) (x : CellFld α)
    (hp : bc.periodicDir d = true)
    (hE : (M.axis d).DX 0 = (M.axis d).DX (M.n d + 1)) (h0 : (M.axis d).DX 0 ≠ 0) :
    ((bcRowHi M bc d c).app x = (bcRowHi M bc d c).rhs ∧
      (bcRowLo M bc d c).app x = (bcRowLo M bc d c).rhs)
    ↔ (x (c.set d 0) = x (c.set d (M.n d)) ∧ x (c.set d (M.n d + 1)) = x (c.set d 1)) := by
  rw [bcRowHi_per hp, bcRowLo_per hp, Row.app_four, Row.app_four, ← hE, div_self h0]
  constructor
  · rintro ⟨h1, h2⟩
    constructor
    · linear_combination (1 / 2 : α) * h1 + (1 / 2 : α) * h2
    · linear_combination (1 / 2 : α) * h1 - (1 / 2 : α) * h2
  · rintro ⟨h1, h2⟩
    constructor
    · linear_combination h1 + h2
    · linear_combination h1 - h2

/-- without that hypothesis the rows say: equal sums across the two ends, and the end
    differences in the ratio of the end-cell sizes -/
theorem periodic_rows_unequal_end_cells (M : Mesh α) (bc : BCs α) (d : Dir) (c : Idx)
    (x : CellFld α) (hp : bc.periodicDir d = true) :
    ((bcRowHi M bc d c).app x = (bcRowHi M bc d c).rhs ∧
      (bcRowLo M bc d c).app x = (bcRowLo M bc d c).rhs)
    ↔ (x (c.set d 0) + x (c.set d 1) = x (c.set d (M.n d)) + x (c.set d (M.n d + 1)) ∧
        x (c.set d (M.n d + 1)) - x (c.set d (M.n d))
          = (M.axis d).DX (M.n d + 1) / (M.axis d).DX 0 * (x (c.set d 1) - x (c.set d 0))) := by
  rw [bcRowHi_per hp, bcRowLo_per hp, Row.app_four, Row.app_four]
  constructor
  · rintro ⟨h1, h2⟩
    exact ⟨by linear_combination h2, by linear_combination h1⟩
  · rintro ⟨h1, h2⟩
    exact ⟨by linear_combination h2, by linear_combination h1⟩

/-- **Known finding** (periodic axis whose end cells differ in size).  On the well-formed 3-cell
    example mesh (`dx = 1, 2, 3`; ghost sizes 1 and 3) with the `x` axis periodic, the field with
    the wrapped ghost values `x₀ = x₃`, `x₄ = x₁` — which is what `apply_BCs` reports —
    satisfies the low row but NOT the high row the solver uses. -/
theorem periodic_wrap_inconsistent_counterexample (k : Kind) :
    (Examples.mesh k).WF ∧
    BCEx.periodicX.periodicDir .x = true ∧
    ((Examples.mesh k).axis .x).DX 0 ≠ ((Examples.mesh k).axis .x).DX ((Examples.mesh k).n .x + 1) ∧
    -- the ghosts hold the wrapped values …
    BCEx.wrapped (Idx.set (1, 1, 1) .x 0) = BCEx.wrapped (Idx.set (1, 1, 1) .x ((Examples.mesh k).n .x)) ∧
    BCEx.wrapped (Idx.set (1, 1, 1) .x ((Examples.mesh k).n .x + 1)) = BCEx.wrapped (Idx.set (1, 1, 1) .x 1) ∧
    -- … which are exactly what `apply_BCs` reports from the interior …
    ghostLo (Examples.mesh k) BCEx.periodicX BCEx.wrapped .x (1, 1, 1)
      = some (BCEx.wrapped (Idx.set (1, 1, 1) .x 0)) ∧
    ghostHi (Examples.mesh k) BCEx.periodicX BCEx.wrapped .x (3, 1, 1)
      = some (BCEx.wrapped (Idx.set (1, 1, 1) .x ((Examples.mesh k).n .x + 1))) ∧
    -- … the low row holds, the high row does not
    (bcRowLo (Examples.mesh k) BCEx.periodicX .x (1, 1, 1)).app BCEx.wrapped
      = (bcRowLo (Examples.mesh k) BCEx.periodicX .x (1, 1, 1)).rhs ∧
    (bcRowHi (Examples.mesh k) BCEx.periodicX .x (1, 1, 1)).app BCEx.wrapped
      ≠ (bcRowHi (Examples.mesh k) BCEx.periodicX .x (1, 1, 1)).rhs := by
  have hp : BCEx.periodicX.periodicDir .x = true := by decide
  refine ⟨Examples.mesh_WF k, hp, ?_, ?_, ?_, ?_, ?_, ?_, ?_⟩
  · rw [BCEx.mesh_n_x, BCEx.mesh_DX_x, BCEx.mesh_DX_x, BCEx.ax3_DX0, BCEx.ax3_DX4]; norm_num
  · rw [BCEx.mesh_n_x]; norm_num [BCEx.wrapped, Idx.set]
  · rw [BCEx.mesh_n_x]; norm_num [BCEx.wrapped, Idx.set]
  · rw [ghostLo_per hp, BCEx.mesh_n_x]; norm_num [BCEx.wrapped, Idx.set]
  · rw [ghostHi_per hp, BCEx.mesh_n_x]; norm_num [BCEx.wrapped, Idx.set]
  · rw [bcRowLo_per hp, Row.app_four, BCEx.mesh_n_x]; norm_num [BCEx.wrapped, Idx.set]
  · rw [bcRowHi_per hp, Row.app_four, BCEx.mesh_n_x, BCEx.mesh_DX_x, BCEx.mesh_DX_x,
      BCEx.ax3_DX0, BCEx.ax3_DX4]
    norm_num [BCEx.wrapped, Idx.set]

/-! ### 9. non-vacuity on the concrete meshes -/

/-- the Robin face `1·∂φ + 2·φ = 3` on the high `x` side of every example mesh: ghost
    coefficient `1/(1·3) + 1 = 4/3 ≠ 0` -/
theorem robin_hiGhostCoef (k : Kind) :
    hiGhostCoef (Examples.mesh k) BCEx.robin .x (3, 1, 1) = 4 / 3 := by
  rw [hiGhostCoef, lineM_x, BCEx.mesh_n_x, BCEx.mesh_DX_x, BCEx.ax3_DX4]
  norm_num [BCEx.robin, BCEx.robinFace]

theorem robin_loGhostCoef (k : Kind) :
    loGhostCoef (Examples.mesh k) BCEx.robin .x (1, 1, 1) = 2 := by
  rw [loGhostCoef, lineM_x, BCEx.mesh_DX_x, BCEx.ax3_DX0]
  norm_num [BCEx.robin, BCEx.robinFaceLo]

/-- hypotheses of `ghostHi_satisfies` are met, and its conclusion is about a real value:
    `φ_c = 3`, ghost `= (3 − 3·(−1/3 + 1))/(4/3) = 3/4` -/
example (k : Kind) :
    ¬ BCEx.robin.periodicDir .x = true ∧
    hiGhostCoef (Examples.mesh k) BCEx.robin .x (3, 1, 1) ≠ 0 ∧
    lineM (Examples.mesh k) .x (3, 1, 1)
      * ((Examples.mesh k).axis .x).DX ((Examples.mesh k).n .x + 1) ≠ 0 ∧
    ghostHi (Examples.mesh k) BCEx.robin BCEx.ramp .x (3, 1, 1) = some (3 / 4) := by
  refine ⟨by decide, by rw [robin_hiGhostCoef]; norm_num, ?_, ?_⟩
  · rw [lineM_x, BCEx.mesh_n_x, BCEx.mesh_DX_x, BCEx.ax3_DX4]; norm_num
  · rw [ghostHi_nonper (by decide), robin_hiGhostCoef, sdiv_of_ne (by norm_num)]
    rw [hiCellCoef, lineM_x, BCEx.mesh_n_x, BCEx.mesh_DX_x, BCEx.ax3_DX4]
    norm_num [BCEx.robin, BCEx.robinFace, BCEx.ramp]

example (k : Kind) :
    (1 : ℚ) * ((3 / 4 - BCEx.ramp (3, 1, 1)) / (lineM (Examples.mesh k) .x (3, 1, 1)
        * ((Examples.mesh k).axis .x).DX ((Examples.mesh k).n .x + 1)))
      + 2 * ((BCEx.ramp (3, 1, 1) + 3 / 4) / 2) = 3 := by
  rw [lineM_x, BCEx.mesh_n_x, BCEx.mesh_DX_x, BCEx.ax3_DX4]
  norm_num [BCEx.ramp]

/-- low side -/
example (k : Kind) :
    ¬ BCEx.robin.periodicDir .x = true ∧
    loGhostCoef (Examples.mesh k) BCEx.robin .x (1, 1, 1) ≠ 0 ∧
    lineM (Examples.mesh k) .x (1, 1, 1) * ((Examples.mesh k).axis .x).DX 0 ≠ 0 ∧
    (ghostLo (Examples.mesh k) BCEx.robin BCEx.ramp .x (1, 1, 1)).isSome = true := by
  refine ⟨by decide, by rw [robin_loGhostCoef]; norm_num, ?_, ?_⟩
  · rw [lineM_x, BCEx.mesh_DX_x, BCEx.ax3_DX0]; norm_num
  · rw [ghostLo_isSome_iff _ _ _ _ _ (by decide), robin_loGhostCoef]; norm_num

/-- the undefined case is real: the triple `(1, 2, 3)` on the LOW `x` side of the example
    meshes has ghost coefficient `−1/(1·1) + 2/2 = 0`, so `apply_BCs` reports no value there -/
example (k : Kind) :
    loGhostCoef (Examples.mesh k) BCEx.robinDegenerate .x (1, 1, 1) = 0 ∧
    ghostLo (Examples.mesh k) BCEx.robinDegenerate BCEx.ramp .x (1, 1, 1) = none := by
  have h0 : loGhostCoef (Examples.mesh k) BCEx.robinDegenerate .x (1, 1, 1) = 0 := by
    rw [loGhostCoef, lineM_x, BCEx.mesh_DX_x, BCEx.ax3_DX0]
    norm_num [BCEx.robinDegenerate, BCEx.robinFace]
  exact ⟨h0, (ghostLo_undefined_satisfiable_iff _ _ _ _ _ (by decide) h0).1⟩

/-- positivity route for any direction and grid class: non-negative `a`, positive `b` on a
    well-formed mesh next to an interior cell give a defined high ghost -/
example (k : Kind) (d : Dir) :
    hiGhostCoef (Examples.mesh k) BCEx.robin d (1, 1, 1) ≠ 0 :=
  ne_of_gt (hiGhostCoef_pos (by norm_num [BCEx.robin, BCEx.robinFace])
    (by norm_num [BCEx.robin, BCEx.robinFace])
    (lineM_pos (Examples.mesh_WF k) d (Examples.interior_111 k))
    (((Examples.mesh_WF k).axis d).pos _))

example (k : Kind) (d : Dir) :
    loGhostCoef (Examples.mesh k) BCEx.robin d (1, 1, 1) ≠ 0 :=
  ne_of_gt (loGhostCoef_pos (by norm_num [BCEx.robin, BCEx.robinFaceLo])
    (by norm_num [BCEx.robin, BCEx.robinFaceLo])
    (lineM_pos (Examples.mesh_WF k) d (Examples.interior_111 k))
    (((Examples.mesh_WF k).axis d).pos _))

/-- periodic flags: only the low `x` side is flagged, the axis `x` is periodic, `y` is not -/
example : BCEx.periodicX.periodicDir .x = true ∧ (BCEx.periodicX.hi .x).periodic = false ∧
    ¬ BCEx.periodicX.periodicDir .y = true := by decide

/-- scaling by `−2 ≠ 0`; the corner hypothesis of `solves_scale_iff` on a 1-D/3-D mesh -/
example (ts : List (TermObj ℚ)) (x : CellFld ℚ) :
    Solves (Examples.mesh .cart3) (BCs.scale (-2) BCEx.robin) ts x
      ↔ Solves (Examples.mesh .cart3) BCEx.robin ts x :=
  solves_scale_iff_of_dim_ne_two _ _ ts (by norm_num) (by decide) x

/-- equal end cells exist (uniform axis), so `periodic_rows_iff_wrap` is not vacuous -/
example : ((mkAxisNL 4 (2 : ℚ)).DX 0 = (mkAxisNL 4 (2 : ℚ)).DX (4 + 1)) ∧
    (mkAxisNL 4 (2 : ℚ)).DX 0 ≠ 0 := by
  constructor
  · rfl
  · norm_num [mkAxisNL]

/-- interior and corner cells of the 2-D example mesh -/
example : (Examples.mesh .cart2).outCount (1, 1, 1) = 0 ∧
    2 ≤ (Examples.mesh .cart2).outCount (0, 0, 1) ∧
    (Examples.mesh .cart2).outCount (0, 1, 1) = 1 := by
  refine ⟨outCount_of_interior (Examples.interior_111 _), ?_, ?_⟩ <;>
    simp [Mesh.outCount, Examples.mesh, Kind.active, Kind.dim, Examples.ax3, mkAxisFaces]

/-- the row hypothesis of `solved_ghost_eq_reported` is met by a concrete field: ramp interior,
    ghost `3/4`; and then the reported ghost is that `3/4` -/
example (k : Kind) :
    (bcRowHi (Examples.mesh k) BCEx.robin .x (3, 1, 1)).app BCEx.solvedRamp
      = (bcRowHi (Examples.mesh k) BCEx.robin .x (3, 1, 1)).rhs ∧
    ghostHi (Examples.mesh k) BCEx.robin BCEx.solvedRamp .x (3, 1, 1) = some (3 / 4) := by
  have hrow : (bcRowHi (Examples.mesh k) BCEx.robin .x (3, 1, 1)).app BCEx.solvedRamp
      = (bcRowHi (Examples.mesh k) BCEx.robin .x (3, 1, 1)).rhs := by
    rw [bcRowHi_nonper (by decide), Row.app_two, robin_hiGhostCoef, hiCellCoef, lineM_x,
      BCEx.mesh_n_x, BCEx.mesh_DX_x, BCEx.ax3_DX4]
    norm_num [BCEx.robin, BCEx.robinFace, BCEx.solvedRamp, Idx.set]
  refine ⟨hrow, ?_⟩
  have := solved_ghost_eq_reported (Examples.mesh k) BCEx.robin .x (3, 1, 1) BCEx.solvedRamp
    (by decide) rfl (by rw [robin_hiGhostCoef]; norm_num) hrow
  rw [this]
  norm_num [BCEx.solvedRamp, Idx.set, BCEx.mesh_n_x]

/-- `Solves` is satisfiable: with no terms (`0 = 0` in the interior) the field `solvedRamp`
    solves the assembled 1-D system with the `robin` boundary conditions, and the consistency
    theorem applies to it -/
example : Solves (Examples.mesh .cart1) BCEx.robin [] BCEx.solvedRamp := by
  intro c hc
  obtain ⟨i, j, k⟩ := c
  obtain ⟨h1, h2, h3⟩ := hc
  simp only [Examples.mesh, Kind.active, Kind.dim] at h2 h3
  norm_num at h2 h3
  subst h2 h3
  have hi : i = 0 ∨ i = 1 ∨ i = 2 ∨ i = 3 ∨ i = 4 := by
    have : i ≤ 4 := h1
    omega
  rcases hi with rfl | rfl | rfl | rfl | rfl <;> decide +kernel

/-- `periodic_rows_iff_wrap` applies to a periodic uniform axis -/
example (x : CellFld ℚ) :
    ((bcRowHi BCEx.uniMesh BCEx.periodicX .x (1, 1, 1)).app x
        = (bcRowHi BCEx.uniMesh BCEx.periodicX .x (1, 1, 1)).rhs ∧
      (bcRowLo BCEx.uniMesh BCEx.periodicX .x (1, 1, 1)).app x
        = (bcRowLo BCEx.uniMesh BCEx.periodicX .x (1, 1, 1)).rhs)
    ↔ (x (0, 1, 1) = x (4, 1, 1) ∧ x (5, 1, 1) = x (1, 1, 1)) :=
  periodic_rows_iff_wrap BCEx.uniMesh BCEx.periodicX .x (1, 1, 1) x (by decide) rfl
    (by norm_num [BCEx.uniMesh, Mesh.axis, mkAxisNL])

/-- positive factor on a 2-D mesh -/
example (ts : List (TermObj ℚ)) (x : CellFld ℚ) :
    Solves (Examples.mesh .cart2) (BCs.scale 2 BCEx.robin) ts x
      ↔ Solves (Examples.mesh .cart2) BCEx.robin ts x :=
  solves_scale_iff_of_pos _ _ ts (by norm_num) x

end PyFV.C03
