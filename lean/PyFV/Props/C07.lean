/-
  Property C07 — discrete maximum principle.

  Implicit steps with diffusion (`D ≥ 0`), upwind advection in a discretely divergence-free
  velocity field, a non-negative linear sink and Dirichlet / no-flux / periodic boundaries never
  produce a cell value outside the range spanned by the previous values and the Dirichlet data
  (the range being extended by `0` when a sink `β > 0` is present) — for every time step,
  coefficient contrast, spacing and grid class.

  B  `row_structure`       one interior row is an M-matrix row with sum `alpha/dt + β`
  C  `max_principle_cell`  the row maximum lemma applied to that row
  D  `ghost_*`             what the model's boundary rows say about the ghost values
                           (periodic: for arbitrary, also unequal, end cells)
  E  `max_principle`, `min_principle`, `range_preserved`, `nonneg_preserved`, `steps`
                           on an abstract finite cell set with tied ghosts (`IsStep`)
  E′ `*_solves`, `solution_unique`
                           the same for solutions of the assembled system (`Solves`)
  F  non-vacuity examples, and `sink_hull_counterexample` (why 0 joins the hull when `β > 0`)
-/
import PyFV.Lemmas.MMatrix
import PyFV.Props.Examples
import Mathlib.Algebra.BigOperators.Fin

set_option linter.unusedSectionVars false

namespace PyFV.C07
open PyFV

variable {α : Type} [Field α] [LinearOrder α] [IsStrictOrderedRing α]

/-! ### B — the structure of one interior row -/

/-- the entries of an upwind row sum to the discrete divergence of the velocity
    (cells next to the boundary, with their corrected entries, included) -/
theorem upwindRow_sum (M : Mesh α) (hM : M.WF) (u uUp : FaceFld α) (hU : UpOK u uUp) (c : Idx)
    (hc : M.interior c) :
    (upwindRow M u uUp c).p + (upwindRow M u uUp c).xm + (upwindRow M u uUp c).xp
      + (upwindRow M u uUp c).ym + (upwindRow M u uUp c).yp
      + (upwindRow M u uUp c).zm + (upwindRow M u uUp c).zp = divergence M u c :=
  upwindRow_total M hM u uUp hU c hc

/-- **Row structure.**  The interior row of
    `[transientTerm(old,dt,alpha), -diffusionTerm(D), convectionUpwindTerm(u), linearSourceTerm(β)]`
    has (i) non-positive off-diagonal entries, (ii) entry sum `alpha/dt + β`,
    (iii) right-hand side `(alpha/dt)·old`; (iv) entries along inactive directions are zero. -/
theorem row_structure (M : Mesh α) (hM : M.WF) (hA : ∀ d f, 0 ≤ lineA M d f)
    (D u : FaceFld α) (hD : ∀ d c', 0 ≤ D d c') (β alpha old : CellFld α) (dt : α) (c : Idx)
    (hc : M.interior c) (hdiv : divergence M u c = 0) :
    let R := stepRow M D u β dt alpha c
    (R.xm ≤ 0 ∧ R.xp ≤ 0 ∧ R.ym ≤ 0 ∧ R.yp ≤ 0 ∧ R.zm ≤ 0 ∧ R.zp ≤ 0) ∧
    R.p + R.xm + R.xp + R.ym + R.yp + R.zm + R.zp = alpha c / dt + β c ∧
    stepRhs old dt alpha c = alpha c / dt * old c ∧
    (M.kind.active .y = false → R.ym = 0 ∧ R.yp = 0) ∧
    (M.kind.active .z = false → R.zm = 0 ∧ R.zp = 0) := by
  intro R
  have h := stepRow_off_nonpos M hM hA D u hD β dt alpha c hc
  refine ⟨⟨h .x false, h .x true, h .y false, h .y true, h .z false, h .z true⟩, ?_,
    stepRhs_eq old dt alpha c, ?_, ?_⟩
  · have := stepRow_total M hM D u β dt alpha c hc
    rw [hdiv, add_zero] at this
    exact this
  · intro hy
    exact ⟨stepRow_off_inactive M D u β dt alpha c .y hy false,
      stepRow_off_inactive M D u β dt alpha c .y hy true⟩
  · intro hz
    exact ⟨stepRow_off_inactive M D u β dt alpha c .z hz false,
      stepRow_off_inactive M D u β dt alpha c .z hz true⟩

/-- the row is strictly diagonally dominant: `alpha/dt + β > 0` -/
theorem row_sum_pos (M : Mesh α) (hM : M.WF) (D u : FaceFld α) (β alpha : CellFld α) (dt : α)
    (c : Idx) (hc : M.interior c) (hdiv : divergence M u c = 0) (hβ : 0 ≤ β c) (hα : 0 < alpha c)
    (hdt : 0 < dt) : 0 < (stepRow M D u β dt alpha c).total := by
  rw [stepRow_total M hM D u β dt alpha c hc, hdiv, add_zero]
  have : 0 < alpha c / dt := div_pos hα hdt
  linarith

/-! ### C — the maximum principle in one cell -/

/-- **Local maximum principle.**  If `x` satisfies the interior row at `c`, no neighbour along an
    active direction exceeds `x c`, `old c ≤ Mx` (and `0 ≤ Mx` if there is a sink), then
    `x c ≤ Mx`.  (Neighbours along inactive directions do not enter: their entries are zero.) -/
theorem max_principle_cell (M : Mesh α) (hM : M.WF) (hA : ∀ d f, 0 ≤ lineA M d f)
    (D u : FaceFld α) (hD : ∀ d c', 0 ≤ D d c') (β alpha old : CellFld α) (dt : α) (c : Idx)
    (hc : M.interior c) (hdiv : divergence M u c = 0) (hβ : 0 ≤ β c) (hα : 0 < alpha c)
    (hdt : 0 < dt) (x : CellFld α)
    (hrow : (stepRow M D u β dt alpha c).app x c = stepRhs old dt alpha c)
    (hnb : ∀ d, M.kind.active d = true → ∀ b, x (c.nbr d b) ≤ x c)
    (Mx : α) (hold : old c ≤ Mx) (hM0 : 0 < β c → 0 ≤ Mx) : x c ≤ Mx := by
  have hw : 0 < alpha c / dt := div_pos hα hdt
  refine St7.row_max (stepRow M D u β dt alpha c) x c (w := alpha c / dt) (sk := β c)
    (rhs := stepRhs old dt alpha c) ?_ hw hβ hrow ?_ ?_ hM0
  · rw [stepRow_total M hM D u β dt alpha c hc, hdiv, add_zero]
  · intro d b
    by_cases hd : M.kind.active d = true
    · exact mul_nonneg_of_nonpos_of_nonpos (stepRow_off_nonpos M hM hA D u hD β dt alpha c hc d b)
        (sub_nonpos.2 (hnb d hd b))
    · rw [stepRow_off_inactive M D u β dt alpha c d (by simpa using hd) b, zero_mul]
  · rw [stepRhs_eq]
    exact mul_le_mul_of_nonneg_left hold hw.le

/-- the six-neighbour form of `max_principle_cell` -/
theorem max_principle_cell_six (M : Mesh α) (hM : M.WF) (hA : ∀ d f, 0 ≤ lineA M d f)
    (D u : FaceFld α) (hD : ∀ d c', 0 ≤ D d c') (β alpha old : CellFld α) (dt : α) (c : Idx)
    (hc : M.interior c) (hdiv : divergence M u c = 0) (hβ : 0 ≤ β c) (hα : 0 < alpha c)
    (hdt : 0 < dt) (x : CellFld α)
    (hrow : (stepRow M D u β dt alpha c).app x c = stepRhs old dt alpha c)
    (hxm : x (c.prev .x) ≤ x c) (hxp : x (c.next .x) ≤ x c)
    (hym : x (c.prev .y) ≤ x c) (hyp : x (c.next .y) ≤ x c)
    (hzm : x (c.prev .z) ≤ x c) (hzp : x (c.next .z) ≤ x c)
    (Mx : α) (hold : old c ≤ Mx) (hM0 : 0 < β c → 0 ≤ Mx) : x c ≤ Mx :=
  max_principle_cell M hM hA D u hD β alpha old dt c hc hdiv hβ hα hdt x hrow
    (fun d _ b => by cases d <;> cases b <;> assumption) Mx hold hM0

/-- mirror image: the minimum principle in one cell -/
theorem min_principle_cell (M : Mesh α) (hM : M.WF) (hA : ∀ d f, 0 ≤ lineA M d f)
    (D u : FaceFld α) (hD : ∀ d c', 0 ≤ D d c') (β alpha old : CellFld α) (dt : α) (c : Idx)
    (hc : M.interior c) (hdiv : divergence M u c = 0) (hβ : 0 ≤ β c) (hα : 0 < alpha c)
    (hdt : 0 < dt) (x : CellFld α)
    (hrow : (stepRow M D u β dt alpha c).app x c = stepRhs old dt alpha c)
    (hnb : ∀ d, M.kind.active d = true → ∀ b, x c ≤ x (c.nbr d b))
    (Mn : α) (hold : Mn ≤ old c) (hM0 : 0 < β c → Mn ≤ 0) : Mn ≤ x c := by
  have h := max_principle_cell M hM hA D u hD β alpha (fun c' => -old c') dt c hc hdiv hβ hα hdt
    (fun c' => -x c') (by rw [St7.app_neg, stepRhs_neg, hrow])
    (fun d hd b => neg_le_neg (hnb d hd b)) (-Mn) (neg_le_neg hold)
    (fun h => neg_nonneg.2 (hM0 h))
  exact neg_le_neg_iff.1 h

/-! ### D — the ghost values produced by the model's boundary rows -/

/-- Dirichlet face (`a = 0`, `b = 1`), high end: the boundary row says `x_ghost = 2 c_D − x_cell` -/
theorem ghost_dirichlet_hi (M : Mesh α) (bc : BCs α) (d : Dir) (c : Idx) (x : CellFld α)
    (hper : bc.periodicDir d = false) (h : (bc.hi d).a c = 0 ∧ (bc.hi d).b c = 1)
    (hrow : (bcRowHi M bc d c).app x = (bcRowHi M bc d c).rhs) :
    x (c.set d (M.n d + 1)) = 2 * (bc.hi d).c c - x (c.set d (M.n d)) :=
  bcRowHi_dirichlet M bc d c x hper h hrow

theorem ghost_dirichlet_lo (M : Mesh α) (bc : BCs α) (d : Dir) (c : Idx) (x : CellFld α)
    (hper : bc.periodicDir d = false) (h : (bc.lo d).a c = 0 ∧ (bc.lo d).b c = 1)
    (hrow : (bcRowLo M bc d c).app x = (bcRowLo M bc d c).rhs) :
    x (c.set d 0) = 2 * (bc.lo d).c c - x (c.set d 1) :=
  bcRowLo_dirichlet M bc d c x hper h hrow

/-- no-flux face (`b = 0`, `c = 0`, `a ≠ 0`; the default is `a = 1`): `x_ghost = x_cell` -/
theorem ghost_noflux_hi (M : Mesh α) (hM : M.WF) (bc : BCs α) (d : Dir) (c : Idx) (x : CellFld α)
    (hc : M.interior c) (hper : bc.periodicDir d = false)
    (h : (bc.hi d).a c ≠ 0 ∧ (bc.hi d).b c = 0 ∧ (bc.hi d).c c = 0)
    (hrow : (bcRowHi M bc d c).app x = (bcRowHi M bc d c).rhs) :
    x (c.set d (M.n d + 1)) = x (c.set d (M.n d)) :=
  bcRowHi_noflux M bc d c x hper h (ne_of_gt (lineM_pos hM d hc))
    (ne_of_gt ((hM.axis d).pos _)) hrow

theorem ghost_noflux_lo (M : Mesh α) (hM : M.WF) (bc : BCs α) (d : Dir) (c : Idx) (x : CellFld α)
    (hc : M.interior c) (hper : bc.periodicDir d = false)
    (h : (bc.lo d).a c ≠ 0 ∧ (bc.lo d).b c = 0 ∧ (bc.lo d).c c = 0)
    (hrow : (bcRowLo M bc d c).app x = (bcRowLo M bc d c).rhs) :
    x (c.set d 0) = x (c.set d 1) :=
  bcRowLo_noflux M bc d c x hper h (ne_of_gt (lineM_pos hM d hc))
    (ne_of_gt ((hM.axis d).pos _)) hrow

/-- periodic direction with equal end cells: the two boundary rows of a line say that each ghost
    carries the value of the interior cell at the opposite end -/
theorem ghost_periodic (M : Mesh α) (hM : M.WF) (bc : BCs α) (d : Dir) (c : Idx) (x : CellFld α)
    (hper : bc.periodicDir d = true) (heq : (M.axis d).DX (M.n d + 1) = (M.axis d).DX 0)
    (hhi : (bcRowHi M bc d c).app x = (bcRowHi M bc d c).rhs)
    (hlo : (bcRowLo M bc d c).app x = (bcRowLo M bc d c).rhs) :
    x (c.set d (M.n d + 1)) = x (c.set d 1) ∧ x (c.set d 0) = x (c.set d (M.n d)) :=
  bcRow_periodic M bc d c x hper heq (ne_of_gt ((hM.axis d).pos _)) hhi hlo

/-- periodic direction, arbitrary end cells (`r = DX_{n+1}/DX_0`, `θ = 2/(1+r)`): each ghost is
    `x_cell + (non-negative factor) · (x_opposite − x_cell)` — so it never exceeds its cell when
    that cell carries the maximum, whatever the spacing -/
theorem ghost_periodic_general (M : Mesh α) (hM : M.WF) (bc : BCs α) (d : Dir) (c : Idx)
    (x : CellFld α) (hper : bc.periodicDir d = true)
    (hhi : (bcRowHi M bc d c).app x = (bcRowHi M bc d c).rhs)
    (hlo : (bcRowLo M bc d c).app x = (bcRowLo M bc d c).rhs) :
    ∃ θ r : α, 0 < θ ∧ 0 < r ∧
      x (c.set d (M.n d + 1)) = x (c.set d (M.n d)) + r * θ * (x (c.set d 1) - x (c.set d (M.n d))) ∧
      x (c.set d 0) = x (c.set d 1) + θ * (x (c.set d (M.n d)) - x (c.set d 1)) := by
  have hn := (hM.axis d).pos (M.n d + 1)
  have h0 := (hM.axis d).pos 0
  exact ⟨_, _, div_pos two_pos (add_pos one_pos (div_pos hn h0)), div_pos hn h0,
    (bcRow_periodic_general M bc d c x hper hn h0 hhi hlo).1,
    (bcRow_periodic_general M bc d c x hper hn h0 hhi hlo).2⟩

/-- **The ghost never exceeds a maximal cell that exceeds the bound** (high end of the line
    through `c` along `d`; the adjacent cell is `c.set d n`).  Dirichlet: `x_g = 2c_D − x_c < x_c`
    because `c_D ≤ Mx < x_c`; no-flux: `x_g = x_c`; periodic: `x_g = x_c + rθ (x_first − x_c)` with
    `rθ > 0` (`= x_first` for equal end cells), `x_first` being an interior value. -/
theorem ghost_le_of_bc_hi (M : Mesh α) (hM : M.WF) (bc : BCs α) (d : Dir) (c : Idx)
    (x : CellFld α) (Mx : α) (hc : M.interior c)
    (hkind : (bc.periodicDir d = true
                ∧ (bcRowLo M bc d c).app x = (bcRowLo M bc d c).rhs) ∨
             (bc.periodicDir d = false ∧
                (((bc.hi d).isDirichlet c ∧ (bc.hi d).c c ≤ Mx) ∨ (bc.hi d).isNoFlux c)))
    (hhi : (bcRowHi M bc d c).app x = (bcRowHi M bc d c).rhs)
    (hmax : x (c.set d 1) ≤ x (c.set d (M.n d))) (hgt : Mx < x (c.set d (M.n d))) :
    x (c.set d (M.n d + 1)) ≤ x (c.set d (M.n d)) := by
  rcases hkind with ⟨hper, hlo⟩ | ⟨hper, ⟨hdir, hle⟩ | hnf⟩
  · obtain ⟨θ, r, hθ, hr, e, -⟩ := ghost_periodic_general M hM bc d c x hper hhi hlo
    have := mul_nonneg (mul_pos hr hθ).le (sub_nonneg.2 hmax)
    rw [e]; nlinarith
  · rw [ghost_dirichlet_hi M bc d c x hper hdir hhi]; linarith
  · exact le_of_eq (ghost_noflux_hi M hM bc d c x hc hper hnf hhi)

/-- the same at the low end (adjacent cell `c.set d 1`) -/
theorem ghost_le_of_bc_lo (M : Mesh α) (hM : M.WF) (bc : BCs α) (d : Dir) (c : Idx)
    (x : CellFld α) (Mx : α) (hc : M.interior c)
    (hkind : (bc.periodicDir d = true
                ∧ (bcRowHi M bc d c).app x = (bcRowHi M bc d c).rhs) ∨
             (bc.periodicDir d = false ∧
                (((bc.lo d).isDirichlet c ∧ (bc.lo d).c c ≤ Mx) ∨ (bc.lo d).isNoFlux c)))
    (hlo : (bcRowLo M bc d c).app x = (bcRowLo M bc d c).rhs)
    (hmax : x (c.set d (M.n d)) ≤ x (c.set d 1)) (hgt : Mx < x (c.set d 1)) :
    x (c.set d 0) ≤ x (c.set d 1) := by
  rcases hkind with ⟨hper, hhi⟩ | ⟨hper, ⟨hdir, hle⟩ | hnf⟩
  · obtain ⟨θ, r, hθ, hr, -, e⟩ := ghost_periodic_general M hM bc d c x hper hhi hlo
    have := mul_nonneg hθ.le (sub_nonneg.2 hmax)
    rw [e]; nlinarith
  · rw [ghost_dirichlet_lo M bc d c x hper hdir hlo]; linarith
  · exact le_of_eq (ghost_noflux_lo M hM bc d c x hc hper hnf hlo)

/-! ### E — the global statement on a finite set of cells -/

/-- the value at a tied neighbour of a maximal cell that exceeds the bound does not exceed it
    (abstract form of `ghost_le_of_bc`) -/
theorem nbr_le_of_tied {S : Finset Idx} {x : CellFld α} {Mx : α} {c nb : Idx}
    (hmax : ∀ c' ∈ S, x c' ≤ x c) (hgt : Mx < x c)
    (h : NbrTied S x (fun v => v ≤ Mx) c nb) : x nb ≤ x c := by
  rcases h with h | h | ⟨c', hc', θ, hθ, h⟩ | ⟨cD, hP, h⟩
  · exact hmax nb h
  · exact le_of_eq h
  · have := mul_nonneg hθ (sub_nonneg.2 (hmax c' hc'))
    rw [h]; nlinarith
  · rw [h]; linarith

/-- **Discrete maximum principle** for one implicit step on the cell set `S`:
    every new value is `≤` any bound `Mx` of the old values on `S` and the Dirichlet data
    (`0 ≤ Mx` being required only when some `β > 0`). -/
theorem max_principle (M : Mesh α) (hM : M.WF) (hA : ∀ d f, 0 ≤ lineA M d f) (S : Finset Idx)
    (D u : FaceFld α) (β alpha old x : CellFld α) (dt Mx : α)
    (h : IsStep M S D u β alpha dt (fun v => v ≤ Mx) old x)
    (hold : ∀ c ∈ S, old c ≤ Mx) (hβM : (∃ c ∈ S, 0 < β c) → 0 ≤ Mx) :
    ∀ c ∈ S, x c ≤ Mx := by
  intro c hc
  obtain ⟨c0, hc0, hmax⟩ := Finset.exists_max_image S x ⟨c, hc⟩
  refine le_trans (hmax c hc) ?_
  by_contra hgt
  have hgt : Mx < x c0 := not_le.mp hgt
  exact absurd
    (max_principle_cell M hM hA D u h.D0 β alpha old dt c0 (h.int c0 hc0) (h.div0 c0 hc0)
      (h.β0 c0 hc0) (h.α0 c0 hc0) h.dt0 x (h.row c0 hc0)
      (fun d hd b => nbr_le_of_tied hmax hgt (h.nbr c0 hc0 d hd b)) Mx (hold c0 hc0)
      (fun hb => hβM ⟨c0, hc0, hb⟩))
    (not_le.mpr hgt)

/-- **Discrete minimum principle** (the maximum principle applied to `−x`, `−old`, `−cD`) -/
theorem min_principle (M : Mesh α) (hM : M.WF) (hA : ∀ d f, 0 ≤ lineA M d f) (S : Finset Idx)
    (D u : FaceFld α) (β alpha old x : CellFld α) (dt Mn : α)
    (h : IsStep M S D u β alpha dt (fun v => Mn ≤ v) old x)
    (hold : ∀ c ∈ S, Mn ≤ old c) (hβM : (∃ c ∈ S, 0 < β c) → Mn ≤ 0) :
    ∀ c ∈ S, Mn ≤ x c := by
  intro c hc
  have h' : IsStep M S D u β alpha dt (fun v => v ≤ -Mn) (fun c => -old c) (fun c => -x c) :=
    h.neg.mono (fun v hv => by linarith)
  have := max_principle M hM hA S D u β alpha _ _ dt (-Mn) h'
    (fun c hc => neg_le_neg (hold c hc)) (fun hb => neg_nonneg.2 (hβM hb)) c hc
  exact neg_le_neg_iff.1 this

/-- both bounds at once: the new values stay in the hull `[Mn, Mx]` of the old values and the
    Dirichlet data (with `Mn ≤ 0 ≤ Mx` required only in the presence of a sink) -/
theorem range_preserved (M : Mesh α) (hM : M.WF) (hA : ∀ d f, 0 ≤ lineA M d f) (S : Finset Idx)
    (D u : FaceFld α) (β alpha old x : CellFld α) (dt Mn Mx : α)
    (h : IsStep M S D u β alpha dt (fun v => Mn ≤ v ∧ v ≤ Mx) old x)
    (hold : ∀ c ∈ S, Mn ≤ old c ∧ old c ≤ Mx)
    (hβM : (∃ c ∈ S, 0 < β c) → Mn ≤ 0 ∧ 0 ≤ Mx) :
    ∀ c ∈ S, Mn ≤ x c ∧ x c ≤ Mx := fun c hc =>
  ⟨min_principle M hM hA S D u β alpha old x dt Mn (h.mono (fun _ hv => hv.1))
      (fun c hc => (hold c hc).1) (fun hb => (hβM hb).1) c hc,
   max_principle M hM hA S D u β alpha old x dt Mx (h.mono (fun _ hv => hv.2))
      (fun c hc => (hold c hc).2) (fun hb => (hβM hb).2) c hc⟩

/-- non-negative old values and non-negative Dirichlet data give non-negative new values
    (with or without a sink) -/
theorem nonneg_preserved (M : Mesh α) (hM : M.WF) (hA : ∀ d f, 0 ≤ lineA M d f) (S : Finset Idx)
    (D u : FaceFld α) (β alpha old x : CellFld α) (dt : α)
    (h : IsStep M S D u β alpha dt (fun v => 0 ≤ v) old x)
    (hold : ∀ c ∈ S, 0 ≤ old c) : ∀ c ∈ S, 0 ≤ x c :=
  min_principle M hM hA S D u β alpha old x dt 0 h hold (fun _ => le_refl 0)

/-- **Any number of steps.**  `xs 0` is the initial field, `xs (k+1)` solves step `k` (its own
    coefficients, time step and Dirichlet data) with `old = xs k`: every iterate stays in the
    hull `[Mn, Mx]` of the initial values and all Dirichlet data. -/
theorem steps (M : Mesh α) (hM : M.WF) (hA : ∀ d f, 0 ≤ lineA M d f) (S : Finset Idx)
    (D u : ℕ → FaceFld α) (β alpha : ℕ → CellFld α) (dt : ℕ → α) (xs : ℕ → CellFld α) (N : ℕ)
    (Mn Mx : α)
    (h : ∀ k, k < N →
      IsStep M S (D k) (u k) (β k) (alpha k) (dt k) (fun v => Mn ≤ v ∧ v ≤ Mx) (xs k) (xs (k+1)))
    (h0 : ∀ c ∈ S, Mn ≤ xs 0 c ∧ xs 0 c ≤ Mx)
    (hβM : (∃ k, k < N ∧ ∃ c ∈ S, 0 < β k c) → Mn ≤ 0 ∧ 0 ≤ Mx) :
    ∀ k, k ≤ N → ∀ c ∈ S, Mn ≤ xs k c ∧ xs k c ≤ Mx := by
  intro k
  induction k with
  | zero => exact fun _ => h0
  | succ k ih =>
    intro hk
    exact range_preserved M hM hA S (D k) (u k) (β k) (alpha k) (xs k) (xs (k+1)) (dt k) Mn Mx
      (h k (by omega)) (ih (by omega)) (fun ⟨c, hc, hb⟩ => hβM ⟨k, by omega, c, hc, hb⟩)

/-- non-negativity propagates through any number of steps -/
theorem steps_nonneg (M : Mesh α) (hM : M.WF) (hA : ∀ d f, 0 ≤ lineA M d f) (S : Finset Idx)
    (D u : ℕ → FaceFld α) (β alpha : ℕ → CellFld α) (dt : ℕ → α) (xs : ℕ → CellFld α) (N : ℕ)
    (h : ∀ k, k < N →
      IsStep M S (D k) (u k) (β k) (alpha k) (dt k) (fun v => 0 ≤ v) (xs k) (xs (k+1)))
    (h0 : ∀ c ∈ S, 0 ≤ xs 0 c) : ∀ k, k ≤ N → ∀ c ∈ S, 0 ≤ xs k c := by
  intro k
  induction k with
  | zero => exact fun _ => h0
  | succ k ih =>
    intro hk
    exact nonneg_preserved M hM hA S (D k) (u k) (β k) (alpha k) (xs k) (xs (k+1)) (dt k)
      (h k (by omega)) (ih (by omega))

/-! ### E′ — the same for the linear system `solvePDE` assembles (`Solves`) -/

/-- **Maximum principle for the assembled system.**  `x` solves the system assembled from
    `[transientTerm(old,dt,alpha), -diffusionTerm(D), convectionUpwindTerm(u), linearSourceTerm(β)]`
    and boundary conditions that are, per active direction, periodic (any end cells) or
    face-wise Dirichlet / no-flux: every interior value of `x` is `≤` any bound of the old
    interior values and the Dirichlet data (`0 ≤ Mx` required only if some `β > 0`). -/
theorem max_principle_solves (M : Mesh α) (hM : M.WF) (hA : ∀ d f, 0 ≤ lineA M d f)
    (bc : BCs α) (D u : FaceFld α) (β alpha old : CellFld α) (dt Mx : α)
    (hbc : BCsOK M bc (fun v => v ≤ Mx))
    (hD : ∀ d c, 0 ≤ D d c) (hdiv : ∀ c ∈ M.cells, divergence M u c = 0)
    (hβ : ∀ c ∈ M.cells, 0 ≤ β c) (hα : ∀ c ∈ M.cells, 0 < alpha c) (hdt : 0 < dt)
    (x : CellFld α) (hx : Solves M bc (stepTerms M D u β old dt alpha) x)
    (hold : ∀ c ∈ M.cells, old c ≤ Mx) (hβM : (∃ c ∈ M.cells, 0 < β c) → 0 ≤ Mx) :
    ∀ c ∈ M.cells, x c ≤ Mx :=
  max_principle M hM hA M.cells D u β alpha old x dt Mx
    (isStep_of_solves M hM bc _ hbc D u β alpha old dt hD hdiv hβ hα hdt x hx) hold hβM

theorem min_principle_solves (M : Mesh α) (hM : M.WF) (hA : ∀ d f, 0 ≤ lineA M d f)
    (bc : BCs α) (D u : FaceFld α) (β alpha old : CellFld α) (dt Mn : α)
    (hbc : BCsOK M bc (fun v => Mn ≤ v))
    (hD : ∀ d c, 0 ≤ D d c) (hdiv : ∀ c ∈ M.cells, divergence M u c = 0)
    (hβ : ∀ c ∈ M.cells, 0 ≤ β c) (hα : ∀ c ∈ M.cells, 0 < alpha c) (hdt : 0 < dt)
    (x : CellFld α) (hx : Solves M bc (stepTerms M D u β old dt alpha) x)
    (hold : ∀ c ∈ M.cells, Mn ≤ old c) (hβM : (∃ c ∈ M.cells, 0 < β c) → Mn ≤ 0) :
    ∀ c ∈ M.cells, Mn ≤ x c :=
  min_principle M hM hA M.cells D u β alpha old x dt Mn
    (isStep_of_solves M hM bc _ hbc D u β alpha old dt hD hdiv hβ hα hdt x hx) hold hβM

/-- non-negative data stay non-negative -/
theorem nonneg_preserved_solves (M : Mesh α) (hM : M.WF) (hA : ∀ d f, 0 ≤ lineA M d f)
    (bc : BCs α) (D u : FaceFld α) (β alpha old : CellFld α) (dt : α)
    (hbc : BCsOK M bc (fun v => 0 ≤ v))
    (hD : ∀ d c, 0 ≤ D d c) (hdiv : ∀ c ∈ M.cells, divergence M u c = 0)
    (hβ : ∀ c ∈ M.cells, 0 ≤ β c) (hα : ∀ c ∈ M.cells, 0 < alpha c) (hdt : 0 < dt)
    (x : CellFld α) (hx : Solves M bc (stepTerms M D u β old dt alpha) x)
    (hold : ∀ c ∈ M.cells, 0 ≤ old c) : ∀ c ∈ M.cells, 0 ≤ x c :=
  min_principle_solves M hM hA bc D u β alpha old dt 0 hbc hD hdiv hβ hα hdt x hx hold
    (fun _ => le_refl 0)

/-- any number of `solvePDE` steps (fixed boundary conditions; coefficients and time step may
    change from step to step) -/
theorem steps_solves (M : Mesh α) (hM : M.WF) (hA : ∀ d f, 0 ≤ lineA M d f) (bc : BCs α)
    (D u : ℕ → FaceFld α) (β alpha : ℕ → CellFld α) (dt : ℕ → α) (xs : ℕ → CellFld α) (N : ℕ)
    (Mn Mx : α) (hbc : BCsOK M bc (fun v => Mn ≤ v ∧ v ≤ Mx))
    (hD : ∀ k d c, 0 ≤ D k d c) (hdiv : ∀ k, ∀ c ∈ M.cells, divergence M (u k) c = 0)
    (hβ : ∀ k, ∀ c ∈ M.cells, 0 ≤ β k c) (hα : ∀ k, ∀ c ∈ M.cells, 0 < alpha k c)
    (hdt : ∀ k, 0 < dt k)
    (hx : ∀ k, k < N →
      Solves M bc (stepTerms M (D k) (u k) (β k) (xs k) (dt k) (alpha k)) (xs (k+1)))
    (h0 : ∀ c ∈ M.cells, Mn ≤ xs 0 c ∧ xs 0 c ≤ Mx)
    (hβM : (∃ k, k < N ∧ ∃ c ∈ M.cells, 0 < β k c) → Mn ≤ 0 ∧ 0 ≤ Mx) :
    ∀ k, k ≤ N → ∀ c ∈ M.cells, Mn ≤ xs k c ∧ xs k c ≤ Mx :=
  steps M hM hA M.cells D u β alpha dt xs N Mn Mx
    (fun k hk => isStep_of_solves M hM bc _ hbc (D k) (u k) (β k) (alpha k) (xs k) (dt k)
      (hD k) (hdiv k) (hβ k) (hα k) (hdt k) (xs (k+1)) (hx k hk)) h0 hβM

/-- **Uniqueness.**  The assembled system determines the interior values: two solutions of the
    same step agree on every interior cell (maximum and minimum principle applied to their
    difference, which solves the homogeneous step) — the model-level form of `mmatrix_unique`. -/
theorem solution_unique (M : Mesh α) (hM : M.WF) (hA : ∀ d f, 0 ≤ lineA M d f)
    (bc : BCs α) (P : α → Prop) (hbc : BCsOK M bc P) (D u : FaceFld α) (β alpha old : CellFld α)
    (dt : α) (hD : ∀ d c, 0 ≤ D d c) (hdiv : ∀ c ∈ M.cells, divergence M u c = 0)
    (hβ : ∀ c ∈ M.cells, 0 ≤ β c) (hα : ∀ c ∈ M.cells, 0 < alpha c) (hdt : 0 < dt)
    (x y : CellFld α) (hx : Solves M bc (stepTerms M D u β old dt alpha) x)
    (hy : Solves M bc (stepTerms M D u β old dt alpha) y) : ∀ c ∈ M.cells, x c = y c := by
  intro c hc
  have hz := Solves.sub hx hy
  have h1 := max_principle_solves M hM hA bc.homog D u β alpha (fun _ => 0) dt 0
    (hbc.homog _ (le_refl 0)) hD hdiv hβ hα hdt _ hz (fun _ _ => le_refl 0) (fun _ => le_refl 0) c hc
  have h2 := min_principle_solves M hM hA bc.homog D u β alpha (fun _ => 0) dt 0
    (hbc.homog _ (le_refl 0)) hD hdiv hβ hα hdt _ hz (fun _ _ => le_refl 0) (fun _ => le_refl 0) c hc
  linarith

/-- the interior `Finset` is exactly the set of interior cells inside the index box -/
theorem mem_cells_iff (M : Mesh α) (hM : M.WF) (c : Idx) :
    c ∈ M.cells ↔ M.interior c ∧ M.inBox c := by
  constructor
  · intro hc
    exact ⟨Mesh.interior_of_mem_cells hM hc, (Mesh.cell_facts hc).1⟩
  · rintro ⟨hi, hb⟩
    rw [Mesh.mem_cells]
    intro d
    rw [Mesh.mem_rng]
    refine ⟨fun _ => Mesh.interior_get hi d, fun hd => ?_⟩
    obtain ⟨_, hy, hz⟩ := hb
    cases d
    · exact absurd hd (by simp [Kind.active_x])
    · simpa [hd, Idx.get] using hy
    · simpa [hd, Idx.get] using hz

/-! ### F — non-vacuity -/

/-- the area factors of every example mesh are non-negative -/
theorem examples_lineA_nonneg (k : Kind) (d : Dir) (f : ℕ) : 0 ≤ lineA (Examples.mesh k) d f := by
  have h3 : 0 ≤ Examples.f3 f := by unfold Examples.f3; split_ifs <;> norm_num
  cases k <;> cases d <;> simp only [lineA, Examples.mesh, Examples.ax3, mkAxisFaces] <;>
    first
    | exact h3
    | positivity

/-- `row_structure` instantiated over ℚ on the non-uniform cylindrical example mesh:
    `D ≡ 1`, `u ≡ 0`, `β ≡ 0`, `alpha ≡ 1`, `dt = 1/10` -/
example (old : CellFld ℚ) :
    let R := stepRow (Examples.mesh .cyl2) (fun _ _ => 1) (fun _ _ => 0) (fun _ => 0) (1/10)
      (fun _ => 1) (1, 1, 1)
    (R.xm ≤ 0 ∧ R.xp ≤ 0 ∧ R.ym ≤ 0 ∧ R.yp ≤ 0 ∧ R.zm ≤ 0 ∧ R.zp ≤ 0) ∧
    R.p + R.xm + R.xp + R.ym + R.yp + R.zm + R.zp = (1 : ℚ) / (1/10) + 0 ∧
    stepRhs old (1/10) (fun _ => 1) (1, 1, 1) = (1 : ℚ) / (1/10) * old (1, 1, 1) ∧
    ((Examples.mesh .cyl2).kind.active .y = false → R.ym = 0 ∧ R.yp = 0) ∧
    ((Examples.mesh .cyl2).kind.active .z = false → R.zm = 0 ∧ R.zp = 0) :=
  row_structure (Examples.mesh .cyl2) (Examples.mesh_WF _) (examples_lineA_nonneg _)
    (fun _ _ => 1) (fun _ _ => 0) (fun _ _ => zero_le_one) (fun _ => 0) (fun _ => 1) old (1/10)
    (1, 1, 1) (Examples.interior_111 _) (divergence_zero _ _)

/-- the hypotheses of the global theorems are satisfiable on every grid class: a uniform field is
    a step (no-flux ties) for any `D ≥ 0`, with a sink-free, velocity-free term list -/
example (k : Kind) (D : FaceFld ℚ) (hD : ∀ d c, 0 ≤ D d c) (v : ℚ) :
    IsStep (Examples.mesh k) (Examples.mesh k).cells D (fun _ _ => 0) (fun _ => 0) (fun _ => 1)
      (1/10) (fun w => w ≤ v) (fun _ => v) (fun _ => v) where
  int := fun c hc => Mesh.interior_of_mem_cells (Examples.mesh_WF k) hc
  D0 := hD
  div0 := fun c _ => divergence_zero _ c
  β0 := fun _ _ => le_refl 0
  α0 := fun _ _ => zero_lt_one
  dt0 := by norm_num
  row := fun c hc => by
    rw [St7.app_const, stepRow_total _ (Examples.mesh_WF k) _ _ _ _ _ _
      (Mesh.interior_of_mem_cells (Examples.mesh_WF k) hc), divergence_zero, stepRhs_eq]
    ring
  nbr := fun _ _ _ _ _ => Or.inr (Or.inl rfl)

/-- … and so are those of the `Solves`-level theorems: on the 1-D Cartesian example mesh with the
    default no-flux boundary conditions the uniform field solves the assembled system -/
example (D : FaceFld ℚ) (v : ℚ) :
    BCsOK (Examples.mesh .cart1)
      ⟨fun _ => ⟨fun _ => 1, fun _ => 0, fun _ => 0, false⟩,
       fun _ => ⟨fun _ => 1, fun _ => 0, fun _ => 0, false⟩⟩ (fun w => w ≤ v) ∧
    Solves (Examples.mesh .cart1)
      ⟨fun _ => ⟨fun _ => 1, fun _ => 0, fun _ => 0, false⟩,
       fun _ => ⟨fun _ => 1, fun _ => 0, fun _ => 0, false⟩⟩
      (stepTerms (Examples.mesh .cart1) D (fun _ _ => 0) (fun _ => 0) (fun _ => v) (1/10)
        (fun _ => 1)) (fun _ => v) := by
  constructor
  · intro d _
    refine Or.inr ⟨rfl, fun c => ⟨Or.inr ⟨one_ne_zero, rfl, rfl⟩, Or.inr ⟨one_ne_zero, rfl, rfl⟩⟩⟩
  · intro c _
    unfold assembleOp assembleRhs
    by_cases h0 : (Examples.mesh .cart1).outCount c = 0
    · simp only [h0, if_true, sumRow_stepTerms, sumRhs_stepTerms, St7.app_const, stepRhs_eq]
      simp only [stepRow, St7.total_add, St7.total_smul, transientRow, linearSrcRow,
        St7.total_diag, diffusionRow_total, upwindRow_zero_total]
      ring
    · have h1 : (Examples.mesh .cart1).outCount c = 1 := by
        have : (Examples.mesh .cart1).outCount c ≤ 1 := by
          simp only [Mesh.outCount, Kind.active, Kind.dim, Examples.mesh]
          by_cases h : c.1 = 0 ∨ c.1 = Examples.ax3.n + 1 <;> simp [h]
        omega
      rw [if_neg h0, if_neg h0]
      simp only [bcRow, h1]
      split_ifs <;>
        simp [bcRowLo, bcRowHi, BCs.periodicDir, Row.app_two, loCellCoef, loGhostCoef,
          hiCellCoef, hiGhostCoef]

/-- the cell set is not empty -/
example (k : Kind) : (1, 1, 1) ∈ (Examples.mesh k).cells := by
  rw [mem_cells_iff _ (Examples.mesh_WF k)]
  refine ⟨Examples.interior_111 k, Nat.le_add_left _ _, ?_, ?_⟩ <;>
  · split_ifs
    · exact Nat.le_add_left _ _
    · rfl

/-- **Why the hull must contain 0 when there is a sink.**  The literal reading "the new values
    stay between the minimum and maximum of the old values" is false for `β > 0`: with
    `old ≡ 1`, `β ≡ 1`, `alpha ≡ 1`, `dt = 1/10`, no flux, the step gives `x ≡ 10/11 < 1`.
    (So `min_principle` needs `Mn ≤ 0` in the presence of a sink.) -/
theorem sink_hull_counterexample :
    ∃ x : CellFld ℚ,
      IsStep (Examples.mesh .cart1) (Examples.mesh .cart1).cells (fun _ _ => 1) (fun _ _ => 0)
        (fun _ => 1) (fun _ => 1) (1/10) (fun _ => True) (fun _ => 1) x ∧
      ∀ c ∈ (Examples.mesh .cart1).cells, x c < 1 := by
  refine ⟨fun _ => 10/11, ?_, fun _ _ => by norm_num⟩
  exact
    { int := fun c hc => Mesh.interior_of_mem_cells (Examples.mesh_WF _) hc
      D0 := fun _ _ => zero_le_one
      div0 := fun c _ => divergence_zero _ c
      β0 := fun _ _ => zero_le_one
      α0 := fun _ _ => zero_lt_one
      dt0 := by norm_num
      row := fun c hc => by
        rw [St7.app_const, stepRow_total _ (Examples.mesh_WF _) _ _ _ _ _ _
          (Mesh.interior_of_mem_cells (Examples.mesh_WF _) hc), divergence_zero, stepRhs_eq]
        norm_num
      nbr := fun _ _ _ _ _ => Or.inr (Or.inl rfl) }

/-- periodic directions (any end cells) and Dirichlet faces are admissible too -/
example (k : Kind) (v : ℚ) :
    BCsOK (Examples.mesh k)
      ⟨fun _ => ⟨fun _ => 1, fun _ => 0, fun _ => 0, true⟩,
       fun _ => ⟨fun _ => 1, fun _ => 0, fun _ => 0, true⟩⟩ (fun w => w ≤ v) ∧
    BCsOK (Examples.mesh k)
      ⟨fun _ => ⟨fun _ => 0, fun _ => 1, fun _ => v, false⟩,
       fun _ => ⟨fun _ => 0, fun _ => 1, fun _ => v - 1, false⟩⟩ (fun w => w ≤ v) :=
  ⟨fun _ _ => Or.inl rfl,
   fun _ _ => Or.inr ⟨rfl, fun _ => ⟨Or.inl ⟨⟨rfl, rfl⟩, le_refl v⟩,
     Or.inl ⟨⟨rfl, rfl⟩, by simp⟩⟩⟩⟩

/-- the abstract M-matrix hypotheses are satisfiable (a 2×2 implicit-diffusion matrix) -/
example : ∀ x y : Fin 2 → ℚ,
    (∀ i, ∑ j, (if i = j then (3 : ℚ) else -1) * x j = ∑ j, (if i = j then (3 : ℚ) else -1) * y j)
      → x = y :=
  fun x y h => mmatrix_unique (fun i j => if i = j then (3 : ℚ) else -1)
    (fun i j hij => by simp [Ne.symm hij])
    (Fin.forall_fin_two.2 ⟨by simp [Fin.sum_univ_two], by simp [Fin.sum_univ_two]⟩)
    x y h

end PyFV.C07
