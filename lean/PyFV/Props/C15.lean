/-
  Property C15 — soundness of the effect / alias certificate checker (`PyFV.Model.Effects`),
  proved ONCE for all programs, by induction over execution traces of unbounded length:

    if `safe p c mutable allowedRet` checks (and the certificate is well scoped, see below),
    then on every well-formed caller heap, for every order and repetition of the program's
    instructions and every oracle,
      * protected input regions are never modified (value and stored references),
      * every returned location is newly allocated (or in an explicitly allowed region),
      * newly allocated objects contain only newly allocated objects, mesh OBJECTS, or
        explicitly allowed regions — never mesh data, never an input array,
      * module-level state is never written.

  SCOPING.  `Cert.listed` only constrains `pts x` for `x < c.nvars` and `Cert.initOK` only
  `cont r` for `r ∈ c.regions`, and nothing forces the program's variables to be `< c.nvars`.
  Soundness needs that the container variable of every `load x y` denotes listed regions only
  (`c.pts y ⊆ c.regions`, `Cert.loadsListed`); `Cert.instrOK (.load x y)` checks exactly this
  (`loadsListed_of_closed`).  Before that conjunct was added the checker was unsound: the
  certificate `Ex.certBad` (`nvars = 0`) passed `safe` for `Ex.progBad`, which overwrites an
  input array, returns it and stores it in a fresh returned object (section "the scoping check
  is necessary" below shows the certificate is now rejected and the bad run is real).
-/
import PyFV.Lemmas.EffectsSound

namespace PyFV.C15
open PyFV.Eff

variable {p : Prog} {c : Cert} {σ₀ σ : Conf} {mutable allowedRet : List Region}

/-! ### 1. the invariant -/

/-- the invariant holds initially -/
theorem inv_init (hc : c.closed p = true) (h0 : InitOK p σ₀) : Inv p c σ₀ σ₀ :=
  inv_init_aux hc h0

/-- one instruction OF THE PROGRAM, with any oracle choice, preserves the invariant -/
theorem inv_step (hc : c.closed p = true) (h : Inv p c σ₀ σ)
    (i : Instr) (ch : Choice) (hi : i ∈ p.body) : Inv p c σ₀ (stepI σ ch i) :=
  inv_step_aux hc (scoped_of_closed hc) h i ch hi

/-- every execution (any order, any repetition, any length, any oracle) keeps the invariant -/
theorem inv_exec (hc : c.closed p = true) (h0 : InitOK p σ₀)
    (tr : List (Instr × Choice)) (htr : ∀ ic ∈ tr, ic.1 ∈ p.body) :
    Inv p c σ₀ (exec σ₀ tr) :=
  inv_exec_aux hc (scoped_of_closed hc) tr σ₀ (inv_init hc h0) htr

/-- the requested unrestricted containment clause
    `∀ l l', l < next → l' ∈ refs l → reg l' ∈ c.cont (reg l)` is FALSE already initially:
    the caller heap may hold objects of regions the certificate does not list.  (Hence clause
    `Inv.refs` is restricted to containers of listed regions.) -/
theorem inv_b_unrestricted_counterexample :
    ∃ (p : Prog) (c : Cert) (σ₀ : Conf), c.closed p = true ∧ c.scoped p = true ∧ InitOK p σ₀ ∧
      ∃ l l', l < σ₀.heap.next ∧ l' ∈ σ₀.heap.refs l ∧
        σ₀.heap.reg l' ∉ c.cont (σ₀.heap.reg l) :=
  ⟨⟨[], []⟩, Ex.certEmpty, Ex.σglob, by decide, by decide, Ex.initGlob, 0, 1, by decide,
    by simp [Ex.σglob], by simp [Ex.certEmpty]⟩

/-! ### 2. inputs outside the write set are unchanged -/

/-- a location that existed before the call and whose region is not in the certificate's write
    set has the same value and the same stored references after every execution -/
theorem inputs_unchanged (hc : c.closed p = true) (h0 : InitOK p σ₀)
    (tr : List (Instr × Choice)) (htr : ∀ ic ∈ tr, ic.1 ∈ p.body) :
    ∀ l, l < σ₀.heap.next → (exec σ₀ tr).heap.reg l ∉ c.writes →
      (exec σ₀ tr).heap.val l = σ₀.heap.val l ∧ (exec σ₀ tr).heap.refs l = σ₀.heap.refs l := by
  intro l hl hw
  have hI := inv_exec hc h0 tr htr
  refine ⟨Classical.byContradiction fun h => hw (hI.writes l hl (Or.inl h)),
    Classical.byContradiction fun h => hw (hI.writes l hl (Or.inr h))⟩

/-- region tags of pre-existing locations never change (so "the region of `l`" is unambiguous) -/
theorem region_stable (hc : c.closed p = true) (h0 : InitOK p σ₀)
    (tr : List (Instr × Choice)) (htr : ∀ ic ∈ tr, ic.1 ∈ p.body) :
    ∀ l, l < σ₀.heap.next → (exec σ₀ tr).heap.reg l = σ₀.heap.reg l :=
  fun l hl => ((inv_exec hc h0 tr htr).oldReg l hl).1

/-! ### 3. purity -/

/-- If `safe` checks, every initially allocated location whose region is not declared `mutable`
    is unchanged (value and references) by every execution.
    `mutable = []`: "builders never modify their inputs";
    `mutable = [.inp 0]`: "solvePDE modifies only its solution variable". -/
theorem pure_of_safe (hsafe : safe p c mutable allowedRet = true) (h0 : InitOK p σ₀) (tr : List (Instr × Choice)) (htr : ∀ ic ∈ tr, ic.1 ∈ p.body) :
    ∀ l, l < σ₀.heap.next → σ₀.heap.reg l ∉ mutable →
      (exec σ₀ tr).heap.val l = σ₀.heap.val l ∧ (exec σ₀ tr).heap.refs l = σ₀.heap.refs l := by
  intro l hl hm
  have hc := safe_closed hsafe
  have hI := inv_exec hc h0 tr htr
  apply inputs_unchanged hc h0 tr htr l hl
  intro hw
  obtain ⟨e, hnf⟩ := hI.oldReg l hl
  rcases safe_writes hsafe _ hw with h | h
  · rw [hnf] at h; cases h
  · exact hm (e ▸ h)

/-! ### 4. what is returned is freshly allocated -/

/-- If `safe` checks, every returned location is allocated and is either NEWLY allocated
    (`σ₀.heap.next ≤ l`) or a pre-existing location of an explicitly allowed region. -/
theorem returns_fresh (hsafe : safe p c mutable allowedRet = true) (h0 : InitOK p σ₀) (tr : List (Instr × Choice)) (htr : ∀ ic ∈ tr, ic.1 ∈ p.body) :
    ∀ l, l ∈ (exec σ₀ tr).returned → l < (exec σ₀ tr).heap.next ∧
      (σ₀.heap.next ≤ l ∨ (l < σ₀.heap.next ∧ σ₀.heap.reg l ∈ allowedRet)) := by
  intro l hl
  have hI := inv_exec (safe_closed hsafe) h0 tr htr
  obtain ⟨h1, h2⟩ := hI.returned l hl
  refine ⟨h1, ?_⟩
  rcases Nat.lt_or_ge l σ₀.heap.next with hlt | hge
  · right
    obtain ⟨e, hnf⟩ := hI.oldReg l hlt
    rcases safe_rets hsafe _ h2 with h | h
    · rw [hnf] at h; cases h
    · exact ⟨hlt, e ▸ h⟩
  · exact Or.inl hge

/-- with no allowed return region, a returned location is distinct from every location that
    existed before the call: the result cannot alias input or mesh storage -/
theorem returns_no_alias (hsafe : safe p c mutable [] = true) (h0 : InitOK p σ₀) (tr : List (Instr × Choice)) (htr : ∀ ic ∈ tr, ic.1 ∈ p.body) :
    ∀ l, l ∈ (exec σ₀ tr).returned → ∀ l₀, l₀ < σ₀.heap.next → l ≠ l₀ := by
  intro l hl l₀ hl₀ e
  rcases (returns_fresh hsafe h0 tr htr l hl).2 with h | ⟨_, h⟩
  · exact absurd hl₀ (Nat.not_lt.mpr (e ▸ h))
  · cases h

/-! ### 5. contents of freshly allocated objects -/

/-- If `safe` checks, every reference stored in ANY newly allocated object points to a newly
    allocated location, or to a mesh OBJECT, or into an allowed region. -/
theorem fresh_object_contents (hsafe : safe p c mutable allowedRet = true)
    (h0 : InitOK p σ₀) (tr : List (Instr × Choice))
    (htr : ∀ ic ∈ tr, ic.1 ∈ p.body) :
    ∀ l l', σ₀.heap.next ≤ l → l < (exec σ₀ tr).heap.next → l' ∈ (exec σ₀ tr).heap.refs l →
      l' < (exec σ₀ tr).heap.next ∧
      (σ₀.heap.next ≤ l' ∨ (exec σ₀ tr).heap.reg l' = .meshObj ∨
        (exec σ₀ tr).heap.reg l' ∈ allowedRet) := by
  intro l l' hge hlt hm
  have hI := inv_exec (safe_closed hsafe) h0 tr htr
  obtain ⟨hf, hr⟩ := hI.newReg l hge hlt
  have hr : (exec σ₀ tr).heap.reg l ∈ c.regions := by
    rcases hr with hr | hr
    · exact hr
    · rw [hr] at hm; cases hm
  refine ⟨hI.refsAlloc l l' hlt hm, ?_⟩
  rcases safe_cont hsafe _ hr hf _ (hI.refs l l' hlt hr hm) with h | h | h
  · left
    rcases Nat.lt_or_ge l' σ₀.heap.next with hlt' | hge'
    · rw [(hI.oldReg l' hlt').2] at h; cases h
    · exact hge'
  · exact Or.inr (Or.inl h)
  · exact Or.inr (Or.inr h)

/-- … in particular for returned objects -/
theorem returned_object_contents (hsafe : safe p c mutable allowedRet = true)
    (h0 : InitOK p σ₀) (tr : List (Instr × Choice))
    (htr : ∀ ic ∈ tr, ic.1 ∈ p.body) :
    ∀ l l', l ∈ (exec σ₀ tr).returned → σ₀.heap.next ≤ l → l' ∈ (exec σ₀ tr).heap.refs l →
      σ₀.heap.next ≤ l' ∨ (exec σ₀ tr).heap.reg l' = .meshObj ∨
        (exec σ₀ tr).heap.reg l' ∈ allowedRet := by
  intro l l' hl hge hm
  have hI := inv_exec (safe_closed hsafe) h0 tr htr
  exact (fresh_object_contents hsafe h0 tr htr l l' hge (hI.returned l hl).1 hm).2

/-- a newly allocated object never holds a reference to mesh DATA (unless allowed) -/
theorem fresh_object_no_meshData (hsafe : safe p c mutable allowedRet = true)
    (h0 : InitOK p σ₀) (tr : List (Instr × Choice))
    (htr : ∀ ic ∈ tr, ic.1 ∈ p.body) (hna : Region.meshData ∉ allowedRet) :
    ∀ l l', σ₀.heap.next ≤ l → l < (exec σ₀ tr).heap.next → l' ∈ (exec σ₀ tr).heap.refs l →
      (exec σ₀ tr).heap.reg l' ≠ .meshData := by
  intro l l' hge hlt hm e
  have hI := inv_exec (safe_closed hsafe) h0 tr htr
  obtain ⟨hl', h⟩ := fresh_object_contents hsafe h0 tr htr l l' hge hlt hm
  rcases h with h | h | h
  · have := (hI.newReg l' h hl').1
    rw [e] at this; cases this
  · rw [e] at h; cases h
  · exact hna (e ▸ h)

/-- a newly allocated object never holds a reference to an input array (unless allowed) -/
theorem fresh_object_no_input (hsafe : safe p c mutable allowedRet = true)
    (h0 : InitOK p σ₀) (tr : List (Instr × Choice))
    (htr : ∀ ic ∈ tr, ic.1 ∈ p.body) (i : Nat) (hna : Region.inp i ∉ allowedRet) :
    ∀ l l', σ₀.heap.next ≤ l → l < (exec σ₀ tr).heap.next → l' ∈ (exec σ₀ tr).heap.refs l →
      (exec σ₀ tr).heap.reg l' ≠ .inp i := by
  intro l l' hge hlt hm e
  have hI := inv_exec (safe_closed hsafe) h0 tr htr
  obtain ⟨hl', h⟩ := fresh_object_contents hsafe h0 tr htr l l' hge hlt hm
  rcases h with h | h | h
  · have := (hI.newReg l' h hl').1
    rw [e] at this; cases this
  · rw [e] at h; cases h
  · exact hna (e ▸ h)

/-! ### 6. no writes to module-level state

  `no_global_writes` + `globals_unchanged` + `pure_of_safe`: a `safe` function reads its inputs
  and module-level state but modifies neither, and its result is built from fresh storage.  This
  is the model-level content of "repeated calls with equal inputs return identical results":
  no call leaves a trace in any state a later call could read.  (Determinism of numpy / scipy
  itself is trusted, not modelled.) -/

theorem no_global_writes (hsafe : safe p c mutable allowedRet = true)
    (hg : Region.glob ∉ mutable) : Region.glob ∉ c.writes := by
  intro hw
  rcases safe_writes hsafe _ hw with h | h
  · cases h
  · exact hg h

/-- module-level objects are never modified -/
theorem globals_unchanged (hsafe : safe p c mutable allowedRet = true) (hg : Region.glob ∉ mutable) (h0 : InitOK p σ₀) (tr : List (Instr × Choice))
    (htr : ∀ ic ∈ tr, ic.1 ∈ p.body) :
    ∀ l, l < σ₀.heap.next → σ₀.heap.reg l = .glob →
      (exec σ₀ tr).heap.val l = σ₀.heap.val l ∧ (exec σ₀ tr).heap.refs l = σ₀.heap.refs l :=
  fun l hl e => pure_of_safe hsafe h0 tr htr l hl (e ▸ hg)

/-! ### the scoping check is necessary -/

/-- the checker enforces that `load` containers denote listed regions only -/
theorem loadsListed_of_closed (hc : c.closed p = true) : c.loadsListed p = true :=
  PyFV.Eff.loadsListed_of_closed hc

/-- the natural scoping check (all body variables `< c.nvars`) is a sufficient alternative -/
theorem loadsListed_of_scoped (hc : c.closed p = true) (hs : c.scoped p = true) :
    c.loadsListed p = true :=
  PyFV.Eff.loadsListed_of_scoped hc hs

/-- The certificate `Ex.certBad` (`nvars = 0`, `cont _ = []`, `writes = [fresh 0]`) for
    `Ex.progBad = [load 1 0, write 1, ret 1, fresh 2 0, storeRef 2 1, ret 2]` passed the checker
    before `instrOK (.load x y)` required `pts y ⊆ regions`; it is rejected now, precisely
    because of that conjunct (every other instruction still checks). -/
example : Ex.certBad.closed Ex.progBad = false := by decide
example : safe Ex.progBad Ex.certBad [] [] = false := by decide
example : Ex.certBad.loadsListed Ex.progBad = false := by decide
example : Ex.certBad.initOK = true ∧ Ex.certBad.paramsOK Ex.progBad = true ∧
    Ex.certBad.listed = true ∧
    (Ex.progBad.body.filter (fun i => !Ex.certBad.instrOK i)) = [.load 1 0] := by decide

/-- … and rightly so: on a well-formed caller heap a run of that program overwrites an input
    array (region `.inp 0 ∉ c.writes`), returns it, and stores it in a newly allocated object
    that is returned as well — everything statements 2–5 exclude. -/
theorem rejected_certificate_bad_run :
    ∃ (σ₀ : Conf) (tr : List (Instr × Choice)), InitOK Ex.progBad σ₀ ∧
      (∀ ic ∈ tr, ic.1 ∈ Ex.progBad.body) ∧
      (∃ l, l < σ₀.heap.next ∧ (exec σ₀ tr).heap.reg l ∉ Ex.certBad.writes ∧
        (exec σ₀ tr).heap.val l ≠ σ₀.heap.val l) ∧
      (∃ l, l ∈ (exec σ₀ tr).returned ∧ l < σ₀.heap.next) ∧
      (∃ l l', l ∈ (exec σ₀ tr).returned ∧ σ₀.heap.next ≤ l ∧ l' ∈ (exec σ₀ tr).heap.refs l ∧
        l' < σ₀.heap.next ∧ (exec σ₀ tr).heap.reg l' = .inp 0) :=
  ⟨Ex.σbad,
    [(.load 1 0, ⟨0, 0⟩), (.write 1, ⟨0, 5⟩), (.ret 1, ⟨0, 0⟩), (.fresh 2 0, ⟨0, 0⟩),
      (.storeRef 2 1, ⟨0, 0⟩), (.ret 2, ⟨0, 0⟩)],
    Ex.initBad, by decide,
    ⟨1, by decide, by decide, by decide⟩, ⟨1, by decide, by decide⟩,
    ⟨2, 1, by decide, by decide, by decide, by decide, by decide⟩⟩

/-! ### 7. worked examples -/

/-- `X._xvalue = m.facecenters._x` then `return X`: the certificate is closed and scoped, but
    the check fails — the returned object would contain mesh data -/
example : Ex.certAlias.closed Ex.progAlias = true := by decide
example : Ex.certAlias.scoped Ex.progAlias = true := by decide
example : Ex.certAlias.loadsListed Ex.progAlias = true := by decide
example : safe Ex.progAlias Ex.certAlias [] [] = false := by decide

/-- … and the failure is real: the straight-line run returns location 2 whose only reference is
    location 1, the caller's mesh array -/
example :
    let σ := exec Ex.σmesh [(.fresh 1 0, ⟨0, 0⟩), (.load 2 0, ⟨0, 0⟩), (.storeRef 1 2, ⟨0, 0⟩),
      (.ret 1, ⟨0, 0⟩)]
    σ.returned = [2] ∧ σ.heap.refs 2 = [1] ∧ σ.heap.reg 1 = .meshData ∧ 1 < Ex.σmesh.heap.next := by
  decide

/-- the repaired builder (copy instead of alias) passes -/
example : safe Ex.progCopy Ex.certCopy [] [] = true := by decide
example : Ex.certCopy.scoped Ex.progCopy = true := by decide
example : Ex.certCopy.loadsListed Ex.progCopy = true := by decide

/-- the hypotheses of the theorems are satisfiable -/
example : InitOK Ex.progCopy Ex.σmesh := Ex.initMesh _

/-- theorem 3 on the repaired builder: the mesh object and the mesh array are untouched by
    every execution -/
example (tr : List (Instr × Choice)) (htr : ∀ ic ∈ tr, ic.1 ∈ Ex.progCopy.body) (l : Loc)
    (hl : l < 2) :
    (exec Ex.σmesh tr).heap.val l = Ex.σmesh.heap.val l ∧
    (exec Ex.σmesh tr).heap.refs l = Ex.σmesh.heap.refs l :=
  pure_of_safe (mutable := []) (allowedRet := []) (p := Ex.progCopy) (c := Ex.certCopy)
    (by decide) (Ex.initMesh _) tr htr l hl (by simp)

/-- theorem 4 on the repaired builder: whatever is returned is neither the mesh object (0) nor
    the mesh array (1) -/
example (tr : List (Instr × Choice)) (htr : ∀ ic ∈ tr, ic.1 ∈ Ex.progCopy.body) (l : Loc)
    (hl : l ∈ (exec Ex.σmesh tr).returned) : l ≠ 0 ∧ l ≠ 1 :=
  have h := returns_no_alias (mutable := []) (p := Ex.progCopy) (c := Ex.certCopy) (by decide)
    (Ex.initMesh _) tr htr l hl
  ⟨h 0 (by decide), h 1 (by decide)⟩

/-- theorem 5 on the repaired builder: no newly allocated object ever refers to mesh data -/
example (tr : List (Instr × Choice)) (htr : ∀ ic ∈ tr, ic.1 ∈ Ex.progCopy.body) (l l' : Loc)
    (h1 : 2 ≤ l) (h2 : l < (exec Ex.σmesh tr).heap.next)
    (hm : l' ∈ (exec Ex.σmesh tr).heap.refs l) :
    (exec Ex.σmesh tr).heap.reg l' ≠ .meshData :=
  fresh_object_no_meshData (mutable := []) (allowedRet := []) (p := Ex.progCopy)
    (c := Ex.certCopy) (by decide) (Ex.initMesh _) tr htr (by simp) l l' h1 h2 hm

/-- a concrete run of the repaired builder: the result (2) refers to the fresh copy (3) -/
example :
    let σ := exec Ex.σmesh [(.fresh 1 0, ⟨0, 0⟩), (.load 2 0, ⟨0, 0⟩), (.fresh 3 1, ⟨0, 0⟩),
      (.storeRef 1 3, ⟨0, 0⟩), (.ret 1, ⟨0, 0⟩)]
    σ.returned = [2] ∧ σ.heap.refs 2 = [3] ∧ σ.heap.reg 3 = .fresh 1 := by
  decide

/-- `a[:] = 0` on an input array: rejected as a pure builder, accepted when parameter 0 is
    declared mutable (the `solvePDE` pattern: only the solution variable is modified) -/
example : safe Ex.progWrite Ex.certWrite [] [] = false := by decide
example : safe Ex.progWrite Ex.certWrite [.inp 0] [] = true := by decide
example : Ex.certWrite.scoped Ex.progWrite = true := by decide
example : Region.glob ∉ Ex.certWrite.writes :=
  no_global_writes (mutable := [.inp 0]) (allowedRet := []) (p := Ex.progWrite) (by decide)
    (by simp)

end PyFV.C15
