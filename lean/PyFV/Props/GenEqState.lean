/-
  PyFV.Props.GenEqState — the programs REGENERATED FROM THE PYTHON SOURCE by the translator T-state
  (harness/translate/tstate.py → PyFV/Gen/StateGen.lean, rewritten on every run), interpreted by
  `StateIR.exec`, are EQUAL to the hand-written state machine `PyFV.Model.State` (`applyBCs`, `outdated`,
  `step`) — for EVERY state `s` (reachable or not) and all live ids.

  `interp s v p w b` is the state after running program `p` on behalf of variable `v` (second variable `w`,
  user-supplied BC object `b`), `runProg …` the whole configuration (state, registers, the observation
  "`_BCsTerm` was read: cache c, interior i" and the returned variable).

  A change of a tracked statement of cell.py / pdesolver.py / boundary.py changes the generated program and
  breaks the theorem about that function at build time; a statement the translator does not understand
  removes the definition (`Gen.StateGen.untranslated`), which breaks it as well.

  Sections 1–6: semantic equalities.  Section 7: the flag level of boundary.py.  Section 8: the generated
  programs themselves (`*_prog`, by `rfl`): a tripwire for edits that are semantically neutral in the model
  (e.g. a reordering of two flag resets) — such an edit breaks only its `*_prog` example.  They are `example`s, not
  theorems: they are NOT proof obligations of any property (they can only fail on edits that preserve the
  behaviour), they just make such an edit visible in the build log.
-/
import PyFV.Gen.StateGen
import PyFV.Lemmas.StateIRLemmas

namespace PyFV.GenEqState

open PyFV PyFV.State PyFV.StateIR PyFV.Gen.StateGen

/-- nothing in the scope of T-state was left untranslated -/
theorem untranslated_eq : Gen.StateGen.untranslated = [] := rfl

/-! ## 1. `apply_BCs` and `_BCs_outdated` -/

/-- `apply_BCs`, as a configuration transformer (used for the calls inside the solvers) -/
theorem exec_apply_BCs (c : Cfg) :
    exec apply_BCs c = { c with st := applyBCs c.st c.regs.self } := by
  by_cases hp : (c.st.vars c.regs.self).precalc = true <;>
  · simp only [apply_BCs, Prog.block, exec, execPrim, evalB, Regs.get, modVar]
    apply Cfg.ext9 <;> intros <;> simp [hp, applyBCs] <;> (try split) <;> simp_all

/-- `CellVariable.apply_BCs` = `State.applyBCs`, for every state and every id -/
theorem apply_BCs_eq (s : St) (v : Nat) : interp s v apply_BCs = applyBCs s v := by
  simp only [interp, runProg, exec_apply_BCs]

theorem exec_call_apply_BCs (r : Ref) (c : Cfg) :
    exec (.call apply_BCs r) c = { c with st := applyBCs c.st (c.regs.get r) } := by
  rw [exec_call, exec_apply_BCs]

theorem evalB_BCs_outdated (s : St) (g : Regs) :
    evalB s g BCs_outdated = outdated s (s.vars g.self) := by
  simp only [BCs_outdated, evalB, Regs.get, outdated] <;>
    first
    | rfl
    | ac_rfl
    | (simp only [Bool.or_assoc, Bool.or_comm, Bool.or_left_comm, Bool.and_assoc, Bool.and_comm, Bool.and_left_comm] <;> done)
    | (cases (s.bcs (s.vars g.self).bc).modified <;> cases (s.vars g.self).valMod <;> simp <;> done)

/-- `CellVariable._BCs_outdated` = `State.outdated` -/
theorem BCs_outdated_eq (s : St) (v : Nat) : eval s v BCs_outdated = outdated s (s.vars v) := by
  simp only [eval, evalB_BCs_outdated]

theorem evalB_call_BCs_outdated (s : St) (g : Regs) (r : Ref) :
    evalB s g (.call BCs_outdated r) = outdated s (s.vars (g.get r)) := by
  rw [evalB_call, evalB_BCs_outdated]


/-! ## 2. `solvePDE` -/

/-- `solvePDE`, as a configuration transformer: prologue (`State.preSolve`: build the missing boundary terms /
    re-apply when outdated), `_BCsTerm` is read AFTER it, the result replaces the interior, `apply_BCs()` -/
theorem exec_solvePDE (c : Cfg) :
    exec solvePDE c =
      { c with st := postSolve (preSolve c.st c.regs.self) c.regs.self,
               read := some (((preSolve c.st c.regs.self).vars c.regs.self).cache,
                             ((preSolve c.st c.regs.self).vars c.regs.self).interior),
               ret := some c.regs.self } := by
  by_cases hp : (c.st.vars c.regs.self).precalc = true <;>
  by_cases ho : outdated c.st (c.st.vars c.regs.self) = true <;>
  · ir_unfold [solvePDE, exec_call_apply_BCs, evalB_call_BCs_outdated]
    simp only [preSolve, postSolve]
    apply Cfg.ext9 <;> intros <;> simp [hp, ho, applyBCs] <;> (try split) <;> simp_all

/-- `solvePDE(v, …)` = `step s (.solve v)`: same final state, same observation "used cache c, started from
    interior i", and the function returns its argument -/
theorem solvePDE_eq (s : St) {v : Nat} (hv : v < s.nV) :
    interp s v solvePDE = (step s (.solve v)).1 ∧
    (runProg s v solvePDE).solved = (step s (.solve v)).2 ∧
    (runProg s v solvePDE).ret = some v := by
  rw [step_solve hv]
  simp only [interp, runProg, exec_solvePDE, Cfg.solved]
  exact ⟨trivial, trivial, trivial⟩

/-! ## 3. `solveExplicitPDE` -/

/-- `solveExplicitPDE`, as a configuration transformer: prologue (`State.preExplicit`), construction of the result on
    the SAME BC object with `BCsTerm_precalc = False`, the computed array replaces `_value`, `apply_BCs()` -/
theorem exec_solveExplicitPDE (c : Cfg) :
    exec solveExplicitPDE c =
      { c with st := postExplicit (preExplicit c.st c.regs.self) (c.st.vars c.regs.self).bc,
               regs := { c.regs with new := c.st.nV, bc := (c.st.vars c.regs.self).bc },
               ret := some c.st.nV } := by
  by_cases ho : outdated c.st (c.st.vars c.regs.self) = true <;>
  · ir_unfold [solveExplicitPDE, exec_call_apply_BCs, evalB_call_BCs_outdated]
    simp only [preExplicit, postExplicit]
    apply Cfg.ext9 <;> intros <;> simp [ho, applyBCs, mkVar, default_var] <;> (try split) <;> simp_all

/-- `solveExplicitPDE(v, …)` = `step s (.solveExplicit v)`: same final state (the result shares the BC object of
    `v`, has `BCsTerm_precalc = False` and no boundary terms), the new variable is returned -/
theorem solveExplicitPDE_eq (s : St) {v : Nat} (hv : v < s.nV) :
    interp s v solveExplicitPDE = (step s (.solveExplicit v)).1 ∧
    (runProg s v solveExplicitPDE).created = (step s (.solveExplicit v)).2 := by
  rw [step_solveExplicit hv]
  simp only [interp, runProg, exec_solveExplicitPDE, Cfg.created, preExplicit_nV]
  exact ⟨trivial, trivial⟩

/-! ## 4. `copy`, `update_value`, the `value` setter -/

/-- `v.copy()` = `step s (.copy v)`: deep copy of the BC object, ghosted array copied as it is, boundary terms built
    from the BC copy, `_BCs_applied` and `value.modified` carried over; the new variable is returned -/
theorem copy_eq (s : St) {v : Nat} (hv : v < s.nV) :
    interp s v copy = (step s (.copy v)).1 ∧ (runProg s v copy).created = (step s (.copy v)).2 := by
  have hne : v ≠ s.nV := Nat.ne_of_lt hv
  simp only [interp, runProg, Cfg.created, step, if_pos hv]
  ir_unfold [copy]
  constructor
  · apply St.ext' <;> intros <;> simp [default_var, hne] <;> (try split) <;> simp_all
  · simp

/-- `v.update_value(w)` = `step s (.updateValue v w)`: interior AND ghost stamps of `w`, `modified` set -/
theorem update_value_eq (s : St) {v w : Nat} (hv : v < s.nV) (hw : w < s.nV) :
    interp s v update_value w = (step s (.updateValue v w)).1 := by
  simp only [interp, runProg, step, if_pos (And.intro hv hw)]
  ir_unfold [update_value]
  apply St.ext' <;> intros <;> simp <;> (try split) <;> simp_all

/-- `v.value = values` (the property setter) = `step s (.editVal v)` -/
theorem value_setter_eq (s : St) {v : Nat} (hv : v < s.nV) :
    interp s v value_setter = (step s (.editVal v)).1 := by
  simp only [interp, runProg, step, if_pos hv]
  ir_unfold [value_setter]
  apply St.ext' <;> intros <;> simp <;> (try split) <;> simp_all

/-- `v.value[idx] = u` (through the view and `TrackedArray.__setitem__`) = `step s (.editVal v)` -/
theorem value_item_assign_eq (s : St) {v : Nat} (hv : v < s.nV) :
    interp s v value_item_assign = (step s (.editVal v)).1 := by
  simp only [interp, runProg, step, if_pos hv]
  ir_unfold [value_item_assign]
  apply St.ext' <;> intros <;> simp <;> (try split) <;> simp_all


/-! ## 5. constructor paths -/

/-- `CellVariable(mesh, values, bc)` on the user's (possibly shared) BC object `b` = `step s (.newVar b)`;
    `v`, `w` are irrelevant -/
theorem ctor_user_bc_eq (s : St) (v w : Nat) {b : Nat} (hb : b < s.nB) :
    interp s v ctor_user_bc w b = (step s (.newVar b)).1 ∧
    (runProg s v ctor_user_bc w b).created = (step s (.newVar b)).2 := by
  simp only [interp, runProg, Cfg.created, step, if_pos hb]
  ir_unfold [ctor_user_bc]
  constructor
  · apply St.ext' <;> intros <;> simp [default_var, mkVar] <;> (try split) <;> simp_all
  · simp

/-- `CellVariable(mesh, values)` (the constructor creates the BC object first, stamp `s.next`, then the ghost layer
    from the values, stamp `s.next + 1`) = `step s .newVarDefault` -/
theorem ctor_user_default_eq (s : St) (v w b : Nat) :
    interp s v ctor_user_default w b = (step s .newVarDefault).1 ∧
    (runProg s v ctor_user_default w b).created = (step s .newVarDefault).2 := by
  simp only [interp, runProg, Cfg.created, step]
  ir_unfold [ctor_user_default]
  constructor
  · apply St.ext' <;> intros <;> simp [default_var, mkVar] <;> (try split) <;> simp_all
  · simp


/-! ## 6. operators and `funceval` -/

/-- every operator method (`arith_methods`) = `step s (.arith v)`: `CellVariable(self.domain, …, deepcopy(self.BCs))` -/
theorem arith_eq (s : St) {v : Nat} (hv : v < s.nV) :
    interp s v arith = (step s (.arith v)).1 ∧ (runProg s v arith).created = (step s (.arith v)).2 := by
  simp only [interp, runProg, Cfg.created, step, if_pos hv]
  ir_unfold [arith]
  constructor
  · apply St.ext' <;> intros <;> simp [default_var, mkVar] <;> (try split) <;> simp_all
  · simp

/-- `funceval` has literally the program of the operators -/
theorem funceval_eq : funceval = arith := rfl

/-- `funceval(f, v, …)` = `step s (.arith v)` -/
theorem funceval_eq' (s : St) {v : Nat} (hv : v < s.nV) :
    interp s v funceval = (step s (.arith v)).1 ∧ (runProg s v funceval).created = (step s (.arith v)).2 := by
  rw [funceval_eq]; exact arith_eq s hv

/-! ## 7. boundary.py: the `modified` flags and the state token

  `BCObj.modified` abstracts the 18 flags `F : BCFlags` of a BC object by `F.any`. -/

/-- the getter of `BoundaryFace.modified` is the OR of the three flags -/
theorem BoundaryFace_modified_get_eq (f : FaceFlags) : BoundaryFace_modified_get f = f.any := by
  cases f; simp [BoundaryFace_modified_get, FaceFlags.any]

theorem BoundaryFace_modified_set_eq (f : FaceFlags) (val : Bool) :
    BoundaryFace_modified_set f val = ⟨val, val, val⟩ := rfl

/-- the getter of `BoundaryConditionsBase.modified` is the abstraction `F.any` (all six faces are read) -/
theorem BCs_modified_get_eq (F : BCFlags) : BCs_modified_get F = F.any := by
  rcases F with ⟨⟨a1, b1, c1⟩, ⟨a2, b2, c2⟩, ⟨a3, b3, c3⟩, ⟨a4, b4, c4⟩, ⟨a5, b5, c5⟩, ⟨a6, b6, c6⟩⟩
  simp only [BCs_modified_get, BoundaryFace_modified_get, BCFlags.any, FaceFlags.any]
  cases a1 <;> cases b1 <;> cases c1 <;> cases a2 <;> cases b2 <;> cases c2 <;> simp <;>
    cases a3 <;> cases b3 <;> cases c3 <;> simp <;> cases a4 <;> cases b4 <;> cases c4 <;> simp <;>
    cases a5 <;> cases b5 <;> cases c5 <;> simp

/-- the setter of `BoundaryConditionsBase.modified` reaches every flag of every face -/
theorem BCs_modified_set_clears (F : BCFlags) (val : Bool) :
    BCs_modified_set F val = ⟨⟨false, false, false⟩, ⟨false, false, false⟩, ⟨false, false, false⟩,
      ⟨false, false, false⟩, ⟨false, false, false⟩, ⟨false, false, false⟩⟩ ∧
    (BCs_modified_set F val).any = false := ⟨rfl, rfl⟩

/-- every editing method of a face (coefficient setters, `periodic`, the utility methods) raises a flag -/
theorem face_edit_sets_flag :
    ∀ m ∈ face_edit_methods, ∀ f : FaceFlags, (m.2 f).any = true := by
  intro m hm f
  simp only [face_edit_methods, List.mem_cons, List.mem_nil_iff, or_false] at hm
  rcases f with ⟨a, b, c⟩
  rcases hm with rfl | rfl | rfl | rfl | rfl | rfl | rfl | rfl <;>
    simp [BoundaryFace_set_a, BoundaryFace_set_b, BoundaryFace_set_c, BoundaryFace_set_periodic,
      BoundaryFace_modified_set, BoundaryFace_defaultNoFlux, BoundaryFace_fixedValue, BoundaryFace_fixedGradient,
      BoundaryFace_newtonCooling, FaceFlags.any]

theorem face_edit_methods_names :
    face_edit_methods.map (·.1) = ["a.setter", "b.setter", "c.setter", "periodic.setter", "defaultNoFlux",
      "fixedValue", "fixedGradient", "newtonCooling"] := rfl

/-- … hence, on whatever face `sd` of a BC object, `modified` reads `True` afterwards -/
theorem bc_edit_sets_flag (F : BCFlags) (sd : Side) :
    ∀ m ∈ face_edit_methods, (F.set sd (m.2 (F.get sd))).any = true := by
  intro m hm
  have h := face_edit_sets_flag m hm (F.get sd)
  cases sd <;> simp [BCFlags.set, BCFlags.any, BCFlags.get] at h ⊢ <;> simp [h]

/-- `_state_token()` covers every content field of every face (so `_BCs_applied != token` is `applied != content`) -/
theorem state_token_complete : state_token_fields = allSides.flatMap (fun sd => allCoefs.map (fun k => (sd, k))) := rfl
theorem state_token_mem (sd : Side) (k : Coef) : (sd, k) ∈ state_token_fields := by
  cases sd <;> cases k <;> decide

/-- link to the model: whatever editing method is used on whatever face, the abstraction of the flags afterwards is
    the `modified := true` of `step s (.editBC b)` -/
theorem editBC_modified (s : St) {b : Nat} (hb : b < s.nB) (F : BCFlags) (sd : Side) :
    ∀ m ∈ face_edit_methods, ((step s (.editBC b)).1.bcs b).modified = (F.set sd (m.2 (F.get sd))).any := by
  intro m hm
  rw [bc_edit_sets_flag F sd m hm]
  simp [step, hb]

/-- link to the model: `self.BCs.modified = False` of `apply_BCs` is the `modified := false` of `State.applyBCs` -/
theorem applyBCs_modified (s : St) (v : Nat) (F : BCFlags) :
    ((applyBCs s v).bcs (s.vars v).bc).modified = (BCs_modified_set F false).any := by
  rw [(BCs_modified_set_clears F false).2, applyBCs_bcs, if_pos rfl]

/-- REMARK (code, not model): the setter of `BoundaryConditionsBase.modified` ignores the assigned value —
    `bc.modified = True` CLEARS every flag.  The state machine never assigns `True`. -/
theorem BCs_modified_set_ignores_value (F : BCFlags) : BCs_modified_set F true = BCs_modified_set F false := rfl

/-! ## 8. the generated programs (tripwire) -/

example : BCs_outdated =
  BExp.or (.or (.bcModified .self) (.valModified .self)) (.appliedNeToken .self) := rfl

example : apply_BCs =
  Prog.block [
    .prim (.ghostFromCurrent .self),
    .prim (.setValMod .self false),
    .ite (.precalc .self)
        (.block [
          .prim (.cacheFromCurrent .self)])
        (.block []),
    .prim (.setApplied .self),
    .prim (.setBCMod .self false),
    .prim (.setValMod .self false)] := rfl

example : update_value =
  Prog.block [
    .prim (.valueFrom .self .other),
    .prim (.setValMod .self true)] := rfl

example : copy =
  Prog.block [
    .prim (.bcDeepcopy .self),
    .prim .allocVar,
    .prim (.setPrecalc .new true),
    .prim (.valueFrom .new .self),
    .prim (.setValMod .new false),
    .prim (.bindBC .new),
    .ite (.precalc .new)
        (.block [
          .prim (.cacheFromCurrent .new)])
        (.block []),
    .prim (.setApplied .new),
    .prim (.setValMod .new false),
    .prim (.copyApplied .new .self),
    .prim (.copyValMod .new .self),
    .prim (.ret .new)] := rfl

example : value_setter =
  Prog.block [
    .prim (.newInterior .self),
    .prim (.setValMod .self true)] := rfl

example : value_item_assign =
  Prog.block [
    .prim (.newInterior .self),
    .prim (.setValMod .self true)] := rfl

example : ctor_user_bc =
  Prog.block [
    .prim .bcArg,
    .prim .allocVar,
    .prim (.setPrecalc .new true),
    .prim (.bindBC .new),
    .prim (.initFresh .new),
    .prim (.setValMod .new false),
    .ite (.precalc .new)
        (.block [
          .prim (.cacheFromCurrent .new)])
        (.block []),
    .prim (.setApplied .new),
    .prim (.setValMod .new false),
    .prim (.ret .new)] := rfl

example : ctor_user_default =
  Prog.block [
    .prim .allocVar,
    .prim (.setPrecalc .new true),
    .prim .bcDefault,
    .prim (.bindBC .new),
    .prim (.initFresh .new),
    .prim (.setValMod .new false),
    .ite (.precalc .new)
        (.block [
          .prim (.cacheFromCurrent .new)])
        (.block []),
    .prim (.setApplied .new),
    .prim (.setValMod .new false),
    .prim (.ret .new)] := rfl

example : arith =
  Prog.block [
    .prim (.bcDeepcopy .self),
    .prim .allocVar,
    .prim (.setPrecalc .new true),
    .prim (.bindBC .new),
    .prim (.initFresh .new),
    .prim (.setValMod .new false),
    .ite (.precalc .new)
        (.block [
          .prim (.cacheFromCurrent .new)])
        (.block []),
    .prim (.setApplied .new),
    .prim (.setValMod .new false),
    .prim (.ret .new)] := rfl

example : funceval =
  Prog.block [
    .prim (.bcDeepcopy .self),
    .prim .allocVar,
    .prim (.setPrecalc .new true),
    .prim (.bindBC .new),
    .prim (.initFresh .new),
    .prim (.setValMod .new false),
    .ite (.precalc .new)
        (.block [
          .prim (.cacheFromCurrent .new)])
        (.block []),
    .prim (.setApplied .new),
    .prim (.setValMod .new false),
    .prim (.ret .new)] := rfl

example : solvePDE =
  Prog.block [
    .ite (.not (.precalc .self))
        (.block [
          .prim (.setPrecalc .self true),
          .call apply_BCs .self])
        (.block [
          .ite (.call BCs_outdated .self)
              (.block [
                .call apply_BCs .self])
              (.block [])]),
    .prim (.readCache .self),
    .prim (.newInterior .self),
    .prim (.setValMod .self false),
    .call apply_BCs .self,
    .prim (.ret .self)] := rfl

example : solveExplicitPDE =
  Prog.block [
    .ite (.call BCs_outdated .self)
        (.block [
          .call apply_BCs .self])
        (.block []),
    .prim (.bcOf .self),
    .prim .allocVar,
    .prim (.setPrecalc .new false),
    .prim (.bindBC .new),
    .prim (.initConst .new),
    .prim (.setValMod .new false),
    .ite (.precalc .new)
        (.block [
          .prim (.cacheFromCurrent .new)])
        (.block []),
    .prim (.setApplied .new),
    .prim (.setValMod .new false),
    .prim (.newInterior .new),
    .prim (.setValMod .new false),
    .call apply_BCs .new,
    .prim (.ret .new)] := rfl

/-- the operator methods that were translated (all to `arith`) -/
theorem arith_methods_eq : arith_methods =
  ["__add__", "__radd__", "__rsub__", "__sub__", "__mul__", "__rmul__", "__truediv__", "__rtruediv__", "__neg__", "__pow__", "__rpow__", "__gt__", "__ge__", "__lt__", "__le__", "__and__", "__or__", "__abs__"] := rfl

/-! ## 9. Non-vacuity -/

/-- the hypotheses `v < s.nV`, `b < s.nB` are satisfiable in a reachable state with sharing, copies, explicit results -/
example : 5 < (State.run demoHistory).nV ∧ 3 < (State.run demoHistory).nB := by decide

example : interp (State.run demoHistory) 1 solvePDE = (step (State.run demoHistory) (.solve 1)).1 :=
  (solvePDE_eq _ (by decide)).1

/-- evaluated: a variable whose boundary conditions were edited solves with the NEW content (stamp 3) from its
    interior (stamp 2), and returns itself -/
example : (runProg (State.run [.newVarDefault, .editBC 0]) 0 solvePDE).solved = .solved (some 3) 2 ∧
    (runProg (State.run [.newVarDefault, .editBC 0]) 0 solvePDE).ret = some 0 := by decide

/-- evaluated: the explicit result (variable 1) has no boundary terms and `precalc = false`, shares BC object 0 -/
example :
    let t := interp (State.run [.newVarDefault]) 0 solveExplicitPDE
    t.nV = 2 ∧ (t.vars 1).cache = none ∧ (t.vars 1).precalc = false ∧ (t.vars 1).bc = 0 ∧ (t.vars 1).interior = 3 := by
  decide

/-- evaluated: `copy()` of an outdated variable carries `_BCs_applied` and `value.modified` over -/
example :
    let s := State.run [.newVarDefault, .editBCSilent 0, .editVal 0]
    let t := interp s 0 copy
    (t.vars 1).applied = (s.vars 0).applied ∧ (t.vars 1).valMod = true ∧ (t.vars 1).bc = 1 ∧
      outdated t (t.vars 1) = true := by decide

example : eval (State.run [.newVarDefault, .editBC 0]) 0 BCs_outdated = true ∧
    eval (State.run [.newVarDefault]) 0 BCs_outdated = false := by decide

end PyFV.GenEqState
