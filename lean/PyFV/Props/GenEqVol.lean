/-
  PyFV.Props.GenEqVol — the nine `_getCellVolumes` formulas REGENERATED FROM mesh.py by the translator T-num
  (harness/translate/tnum.py → PyFV/Gen/Stencils.lean, rewritten on every run) are EQUAL to the hand-written
  model `cellVolume` (PyFV/Model/Geom.lean), for every mesh of the right grid class and every cell
  (0-based array position (i, j, k) = model cell (i+1, j+1, k+1)).  Only `M.kind` is needed.
  (Split from PyFV.Props.GenEq so that property C10 depends on the volume formulas only.)
-/
import PyFV.Gen.Stencils
import PyFV.Props.Examples
import PyFV.Lemmas.GenEqTac
import Mathlib.Tactic.Ring
import Mathlib.Tactic.FieldSimp
import Mathlib.Tactic.NormNum

set_option linter.unusedSectionVars false
set_option linter.unusedSimpArgs false
set_option linter.unusedTactic false
set_option linter.unreachableTactic false

namespace PyFV.GenEqVol
open PyFV

variable {α : Type} [Field α] [LinearOrder α] [IsStrictOrderedRing α]

/-- no `_getCellVolumes` method was left untranslated by T-num -/
theorem volumes_translated : Gen.Stencils.untranslated.filter (fun s => s.endsWith "_getCellVolumes") = [] := by decide

/-! ### mesh.py: the nine `_getCellVolumes` -/

theorem cellVolume_Grid1D_eq (M : Mesh α) (hk : M.kind = .cart1) (i j k : ℕ) :
    Gen.Stencils.cellVolume_Grid1D M i j k = cellVolume M (i+1, j+1, k+1) := by
  simp only [Gen.Stencils.cellVolume_Grid1D, cellVolume, hk, Nat.add_sub_cancel] <;> geq_ring

theorem cellVolume_CylindricalGrid1D_eq (M : Mesh α) (hk : M.kind = .cyl1) (i j k : ℕ) :
    Gen.Stencils.cellVolume_CylindricalGrid1D M i j k = cellVolume M (i+1, j+1, k+1) := by
  simp only [Gen.Stencils.cellVolume_CylindricalGrid1D, cellVolume, hk, Nat.add_sub_cancel] <;> geq_ring

theorem cellVolume_SphericalGrid1D_eq (M : Mesh α) (hk : M.kind = .sph1) (i j k : ℕ) :
    Gen.Stencils.cellVolume_SphericalGrid1D M i j k = cellVolume M (i+1, j+1, k+1) := by
  simp only [Gen.Stencils.cellVolume_SphericalGrid1D, cellVolume, hk, Nat.add_sub_cancel] <;> geq_ring

theorem cellVolume_Grid2D_eq (M : Mesh α) (hk : M.kind = .cart2) (i j k : ℕ) :
    Gen.Stencils.cellVolume_Grid2D M i j k = cellVolume M (i+1, j+1, k+1) := by
  simp only [Gen.Stencils.cellVolume_Grid2D, cellVolume, hk, Nat.add_sub_cancel] <;> geq_ring

theorem cellVolume_CylindricalGrid2D_eq (M : Mesh α) (hk : M.kind = .cyl2) (i j k : ℕ) :
    Gen.Stencils.cellVolume_CylindricalGrid2D M i j k = cellVolume M (i+1, j+1, k+1) := by
  simp only [Gen.Stencils.cellVolume_CylindricalGrid2D, cellVolume, hk, Nat.add_sub_cancel] <;> geq_ring

theorem cellVolume_PolarGrid2D_eq (M : Mesh α) (hk : M.kind = .pol2) (i j k : ℕ) :
    Gen.Stencils.cellVolume_PolarGrid2D M i j k = cellVolume M (i+1, j+1, k+1) := by
  simp only [Gen.Stencils.cellVolume_PolarGrid2D, cellVolume, hk, Nat.add_sub_cancel] <;> geq_ring

theorem cellVolume_Grid3D_eq (M : Mesh α) (hk : M.kind = .cart3) (i j k : ℕ) :
    Gen.Stencils.cellVolume_Grid3D M i j k = cellVolume M (i+1, j+1, k+1) := by
  simp only [Gen.Stencils.cellVolume_Grid3D, cellVolume, hk, Nat.add_sub_cancel] <;> geq_ring

theorem cellVolume_CylindricalGrid3D_eq (M : Mesh α) (hk : M.kind = .cyl3) (i j k : ℕ) :
    Gen.Stencils.cellVolume_CylindricalGrid3D M i j k = cellVolume M (i+1, j+1, k+1) := by
  simp only [Gen.Stencils.cellVolume_CylindricalGrid3D, cellVolume, hk, Nat.add_sub_cancel] <;> geq_ring

theorem cellVolume_SphericalGrid3D_eq (M : Mesh α) (hk : M.kind = .sph3) (i j k : ℕ) :
    Gen.Stencils.cellVolume_SphericalGrid3D M i j k = cellVolume M (i+1, j+1, k+1) := by
  simp only [Gen.Stencils.cellVolume_SphericalGrid3D, cellVolume, hk, Nat.add_sub_cancel] <;> geq_ring

end PyFV.GenEqVol
