/-
  Property C04 — what `solvePDE` solves.

  The assembled system is: in every interior cell (sum of the matrix rows of the terms)·φ =
  (sum of the vector parts of the terms); in every non-interior cell the boundary row of the
  variable.  Matrix terms, vector terms and (matrix, vector) pairs enter by plain summation, so
  order, sign conventions and scalings behave as in ordinary algebra; terms never touch a
  boundary row; the operator is linear, hence (given a unique solution) the solution depends
  linearly on sources, boundary data `c` and previous-step values; an external solver receives
  the identical system.
-/
import PyFV.Lemmas.Assemble
import PyFV.Props.Examples

set_option linter.unusedSectionVars false

namespace PyFV.C04
open PyFV

variable {α : Type} [Field α] [LinearOrder α] [IsStrictOrderedRing α]

/-! ### 1. assembled = sum of the terms -/

theorem sumRow_app (ts : List (TermObj α)) (x : CellFld α) (c : Idx) :
    (sumRow ts c).app x c = (ts.map (fun t => (t.row c).app x c)).sum := by
  unfold sumRow
  rw [foldl_row_app, St7.zero_app, zero_add]

theorem sumRhs_eq (ts : List (TermObj α)) (c : Idx) :
    sumRhs ts c = (ts.map (·.rhs c)).sum := by
  unfold sumRhs
  rw [foldl_rhs, zero_add]

/-- a matrix term contributes its row and no right-hand side, a vector term no row, a pair both -/
theorem term_kinds (r : Idx → St7 α) (v : Idx → α) (x : CellFld α) (c : Idx) :
    ((TermObj.mat r).row c = r c ∧ (TermObj.mat r : TermObj α).rhs c = 0)
    ∧ (((TermObj.vec v : TermObj α).row c).app x c = 0 ∧ (TermObj.vec v : TermObj α).rhs c = v c)
    ∧ ((TermObj.pair r v).row c = r c ∧ (TermObj.pair r v).rhs c = v c) :=
  ⟨⟨rfl, rfl⟩, ⟨St7.zero_app x c, rfl⟩, ⟨rfl, rfl⟩⟩

/-- a pair `(M, RHS)` is the same as the two separate terms `M`, `RHS` -/
theorem pair_eq_mat_vec (r : Idx → St7 α) (v : Idx → α) (ts : List (TermObj α)) (x : CellFld α)
    (c : Idx) :
    (sumRow (.pair r v :: ts) c).app x c = (sumRow (.mat r :: .vec v :: ts) c).app x c
    ∧ sumRhs (.pair r v :: ts) c = sumRhs (.mat r :: .vec v :: ts) c := by
  simp only [sumRow_cons_app, sumRhs_cons, TermObj.row, TermObj.rhs, St7.zero_app]
  constructor <;> ring

/-! ### 2. the order of the term list is irrelevant -/

theorem assemble_perm {ts ts' : List (TermObj α)} (h : ts.Perm ts') (x : CellFld α) (c : Idx) :
    (sumRow ts c).app x c = (sumRow ts' c).app x c ∧ sumRhs ts c = sumRhs ts' c := by
  constructor
  · rw [sumRow_perm h c]
  · rw [sumRhs_eq, sumRhs_eq]; exact (h.map _).sum_eq

theorem assembleOp_perm (M : Mesh α) (bc : BCs α) {ts ts' : List (TermObj α)} (h : ts.Perm ts')
    (x : CellFld α) (c : Idx) :
    assembleOp M bc ts x c = assembleOp M bc ts' x c
    ∧ assembleRhs M bc ts c = assembleRhs M bc ts' c := by
  unfold assembleOp assembleRhs
  rw [(assemble_perm h x c).1, (assemble_perm h x c).2]
  exact ⟨rfl, rfl⟩

theorem solves_perm (M : Mesh α) (bc : BCs α) {ts ts' : List (TermObj α)} (h : ts.Perm ts')
    (x : CellFld α) : Solves M bc ts x ↔ Solves M bc ts' x := by
  unfold Solves
  constructor
  · intro H c hc
    rw [← (assembleOp_perm M bc h x c).1, ← (assembleOp_perm M bc h x c).2]; exact H c hc
  · intro H c hc
    rw [(assembleOp_perm M bc h x c).1, (assembleOp_perm M bc h x c).2]; exact H c hc

/-! ### 3. negated and scaled terms -/

theorem smul_row (a : α) (t : TermObj α) (c : Idx) :
    (TermObj.smul a t).row c = St7.smul a (t.row c) := TermObj.smul_row a t c

theorem smul_rhs (a : α) (t : TermObj α) (c : Idx) :
    (TermObj.smul a t).rhs c = a * t.rhs c := TermObj.smul_rhs a t c

/-- `-M` acts as minus the row, `-RHS` is minus the vector -/
theorem neg_term (t : TermObj α) (x : CellFld α) (c : Idx) :
    ((TermObj.smul (-1) t).row c).app x c = -((t.row c).app x c)
    ∧ (TermObj.smul (-1) t).rhs c = -(t.rhs c) := by
  rw [smul_row, smul_rhs, St7.smul_app]
  constructor <;> ring

/-- scaling every term of the list by `a` scales both sides by `a` -/
theorem assemble_smul_all (a : α) (ts : List (TermObj α)) (x : CellFld α) (c : Idx) :
    (sumRow (ts.map (TermObj.smul a)) c).app x c = a * (sumRow ts c).app x c
    ∧ sumRhs (ts.map (TermObj.smul a)) c = a * sumRhs ts c :=
  ⟨sumRow_map_smul_app a ts x c, sumRhs_map_smul a ts c⟩

/-- … and, for `a ≠ 0`, leaves the solution set unchanged -/
theorem solves_smul_all (M : Mesh α) (bc : BCs α) (a : α) (ha : a ≠ 0) (ts : List (TermObj α))
    (x : CellFld α) : Solves M bc (ts.map (TermObj.smul a)) x ↔ Solves M bc ts x := by
  unfold Solves assembleOp assembleRhs
  refine forall_congr' (fun c => forall_congr' (fun _ => ?_))
  by_cases h : M.outCount c = 0
  · simp only [if_pos h, sumRow_map_smul_app, sumRhs_map_smul]
    exact mul_right_inj' ha
  · simp only [if_neg h]

/-- replacing every term by its negation negates both sides: same solutions -/
theorem assemble_neg_neg (M : Mesh α) (bc : BCs α) (ts : List (TermObj α)) (x : CellFld α) :
    (∀ c, (sumRow (ts.map (TermObj.smul (-1))) c).app x c = -((sumRow ts c).app x c)
        ∧ sumRhs (ts.map (TermObj.smul (-1))) c = -(sumRhs ts c))
    ∧ (Solves M bc (ts.map (TermObj.smul (-1))) x ↔ Solves M bc ts x) := by
  refine ⟨fun c => ?_, solves_smul_all M bc (-1) (by norm_num) ts x⟩
  rw [sumRow_map_smul_app, sumRhs_map_smul]
  constructor <;> ring

/-- moving a source from one side to the other: `… + M_s` on the left with `0` on the right is
    the same equation as `…` on the left with the row applied on the right — stated for vector
    terms: `RHS v` and `-RHS (-v)` are the same term -/
theorem neg_neg_term (t : TermObj α) (x : CellFld α) (c : Idx) :
    ((TermObj.smul (-1) (TermObj.smul (-1) t)).row c).app x c = (t.row c).app x c
    ∧ (TermObj.smul (-1) (TermObj.smul (-1) t)).rhs c = t.rhs c := by
  rw [smul_row, smul_rhs, smul_row, smul_rhs, St7.smul_app, St7.smul_app]
  constructor <;> ring

/-! ### 4. terms contribute to interior-cell equations only -/

theorem terms_interior_only (M : Mesh α) (bc bc' : BCs α) (ts ts' : List (TermObj α))
    (x : CellFld α) (c : Idx) :
    (M.outCount c ≠ 0 →
        assembleOp M bc ts x c = assembleOp M bc ts' x c
        ∧ assembleRhs M bc ts c = assembleRhs M bc ts' c
        ∧ assembleOp M bc ts x c = (bcRow M bc c).app x
        ∧ assembleRhs M bc ts c = (bcRow M bc c).rhs)
    ∧ (M.outCount c = 0 →
        assembleOp M bc ts x c = assembleOp M bc' ts x c
        ∧ assembleRhs M bc ts c = assembleRhs M bc' ts c
        ∧ assembleOp M bc ts x c = (sumRow ts c).app x c
        ∧ assembleRhs M bc ts c = sumRhs ts c) := by
  constructor
  · intro h
    simp only [assembleOp_ghost M bc _ x c h, assembleRhs_ghost M bc _ c h, and_self]
  · intro h
    simp only [assembleOp_interior M _ ts x c h, assembleRhs_interior M _ ts c h, and_self]

/-- in particular the empty term list has the same boundary equations -/
theorem ghost_rows_of_nil (M : Mesh α) (bc : BCs α) (ts : List (TermObj α)) (x : CellFld α)
    (c : Idx) (h : M.outCount c ≠ 0) :
    assembleOp M bc ts x c = assembleOp M bc [] x c
    ∧ assembleRhs M bc ts c = assembleRhs M bc [] c :=
  ⟨((terms_interior_only M bc bc ts [] x c).1 h).1, ((terms_interior_only M bc bc ts [] x c).1 h).2.1⟩

/-! ### 5. linearity -/

theorem assembleOp_add (M : Mesh α) (bc : BCs α) (ts : List (TermObj α)) (x y : CellFld α)
    (c : Idx) :
    assembleOp M bc ts (fun i => x i + y i) c = assembleOp M bc ts x c + assembleOp M bc ts y c :=
  assembleOp_add' M bc ts x y c

theorem assembleOp_smul (M : Mesh α) (bc : BCs α) (ts : List (TermObj α)) (a : α) (x : CellFld α)
    (c : Idx) :
    assembleOp M bc ts (fun i => a * x i) c = a * assembleOp M bc ts x c :=
  assembleOp_smul' M bc ts a x c

/-- superposition, abstract form: three systems with one and the same operator whose right-hand
    sides satisfy `b₃ = s·b₁ + b₂` -/
theorem solves_superpose (M : Mesh α) (bc₁ bc₂ bc₃ : BCs α) (ts₁ ts₂ ts₃ : List (TermObj α))
    (s : α) (x₁ x₂ : CellFld α)
    (hop₁ : ∀ x c, M.inBox c → assembleOp M bc₁ ts₁ x c = assembleOp M bc₃ ts₃ x c)
    (hop₂ : ∀ x c, M.inBox c → assembleOp M bc₂ ts₂ x c = assembleOp M bc₃ ts₃ x c)
    (hrhs : ∀ c, M.inBox c →
      assembleRhs M bc₃ ts₃ c = s * assembleRhs M bc₁ ts₁ c + assembleRhs M bc₂ ts₂ c)
    (h₁ : Solves M bc₁ ts₁ x₁) (h₂ : Solves M bc₂ ts₂ x₂) :
    Solves M bc₃ ts₃ (fun i => s * x₁ i + x₂ i) := by
  intro c hc
  rw [assembleOp_add, assembleOp_smul, ← hop₁ x₁ c hc, ← hop₂ x₂ c hc, h₁ c hc, h₂ c hc,
    hrhs c hc]

/-- the hypotheses of `solves_superpose` from concrete data: the three term lists have the same
    rows, interior right-hand sides `s·rhs₁ + rhs₂`; the three boundary-condition structures have
    the same `a`, `b`, periodic flags and data `s·c₁ + c₂` -/
theorem superpose_hyps (M : Mesh α) (bc₁ bc₂ bc₃ : BCs α) (ts₁ ts₂ ts₃ : List (TermObj α)) (s : α)
    (hb₁ : BCs.SameAB bc₁ bc₃) (hb₂ : BCs.SameAB bc₂ bc₃)
    (hlo : ∀ d i, (bc₃.lo d).c i = s * (bc₁.lo d).c i + (bc₂.lo d).c i)
    (hhi : ∀ d i, (bc₃.hi d).c i = s * (bc₁.hi d).c i + (bc₂.hi d).c i)
    (hr₁ : ∀ x c, (sumRow ts₁ c).app x c = (sumRow ts₃ c).app x c)
    (hr₂ : ∀ x c, (sumRow ts₂ c).app x c = (sumRow ts₃ c).app x c)
    (hs : ∀ c, sumRhs ts₃ c = s * sumRhs ts₁ c + sumRhs ts₂ c) :
    (∀ x c, assembleOp M bc₁ ts₁ x c = assembleOp M bc₃ ts₃ x c)
    ∧ (∀ x c, assembleOp M bc₂ ts₂ x c = assembleOp M bc₃ ts₃ x c)
    ∧ (∀ c, assembleRhs M bc₃ ts₃ c = s * assembleRhs M bc₁ ts₁ c + assembleRhs M bc₂ ts₂ c) := by
  refine ⟨fun x c => ?_, fun x c => ?_, fun c => ?_⟩
  · unfold assembleOp
    split_ifs
    · exact hr₁ x c
    · exact bcRow_app_congr M hb₁ c x
  · unfold assembleOp
    split_ifs
    · exact hr₂ x c
    · exact bcRow_app_congr M hb₂ c x
  · unfold assembleRhs
    split_ifs
    · exact hs c
    · exact bcRow_rhs_linear M s hb₁ hb₂ hlo hhi c

/-- superposition, concrete form -/
theorem solves_superpose_bc (M : Mesh α) (bc₁ bc₂ bc₃ : BCs α) (ts₁ ts₂ ts₃ : List (TermObj α))
    (s : α) (x₁ x₂ : CellFld α)
    (hb₁ : BCs.SameAB bc₁ bc₃) (hb₂ : BCs.SameAB bc₂ bc₃)
    (hlo : ∀ d i, (bc₃.lo d).c i = s * (bc₁.lo d).c i + (bc₂.lo d).c i)
    (hhi : ∀ d i, (bc₃.hi d).c i = s * (bc₁.hi d).c i + (bc₂.hi d).c i)
    (hr₁ : ∀ x c, (sumRow ts₁ c).app x c = (sumRow ts₃ c).app x c)
    (hr₂ : ∀ x c, (sumRow ts₂ c).app x c = (sumRow ts₃ c).app x c)
    (hs : ∀ c, sumRhs ts₃ c = s * sumRhs ts₁ c + sumRhs ts₂ c)
    (h₁ : Solves M bc₁ ts₁ x₁) (h₂ : Solves M bc₂ ts₂ x₂) :
    Solves M bc₃ ts₃ (fun i => s * x₁ i + x₂ i) := by
  obtain ⟨e₁, e₂, e₃⟩ := superpose_hyps M bc₁ bc₂ bc₃ ts₁ ts₂ ts₃ s hb₁ hb₂ hlo hhi hr₁ hr₂ hs
  exact solves_superpose M bc₁ bc₂ bc₃ ts₁ ts₂ ts₃ s x₁ x₂ (fun x c _ => e₁ x c)
    (fun x c _ => e₂ x c) (fun c _ => e₃ c) h₁ h₂

/-- two solutions of one uniquely solvable system agree on the ghosted box -/
theorem solves_unique (M : Mesh α) (bc : BCs α) (ts : List (TermObj α)) (hU : UniqueSol M bc ts)
    (x y : CellFld α) (hx : Solves M bc ts x) (hy : Solves M bc ts y) :
    ∀ c, M.inBox c → x c = y c := by
  intro c hc
  have key : ∀ c, M.inBox c → assembleOp M bc ts (fun i => (-1) * y i + x i) c = 0 := by
    intro c hc
    rw [assembleOp_add, assembleOp_smul, hx c hc, hy c hc]; ring
  have : (-1) * y c + x c = 0 := hU _ key c hc
  linarith

/-- **The solution map is linear.**  If the system is uniquely solvable, the solution for the
    data (interior right-hand sides `s·rhs₁ + rhs₂`, boundary data `s·c₁ + c₂`) is `s·x₁ + x₂`
    on the whole ghosted box. -/
theorem solution_linear (M : Mesh α) (bc₁ bc₂ bc₃ : BCs α) (ts₁ ts₂ ts₃ : List (TermObj α))
    (s : α) (x₁ x₂ x₃ : CellFld α)
    (hb₁ : BCs.SameAB bc₁ bc₃) (hb₂ : BCs.SameAB bc₂ bc₃)
    (hlo : ∀ d i, (bc₃.lo d).c i = s * (bc₁.lo d).c i + (bc₂.lo d).c i)
    (hhi : ∀ d i, (bc₃.hi d).c i = s * (bc₁.hi d).c i + (bc₂.hi d).c i)
    (hr₁ : ∀ x c, (sumRow ts₁ c).app x c = (sumRow ts₃ c).app x c)
    (hr₂ : ∀ x c, (sumRow ts₂ c).app x c = (sumRow ts₃ c).app x c)
    (hs : ∀ c, sumRhs ts₃ c = s * sumRhs ts₁ c + sumRhs ts₂ c)
    (hU : UniqueSol M bc₃ ts₃)
    (h₁ : Solves M bc₁ ts₁ x₁) (h₂ : Solves M bc₂ ts₂ x₂) (h₃ : Solves M bc₃ ts₃ x₃) :
    ∀ c, M.inBox c → x₃ c = s * x₁ c + x₂ c :=
  solves_unique M bc₃ ts₃ hU x₃ _ h₃
    (solves_superpose_bc M bc₁ bc₂ bc₃ ts₁ ts₂ ts₃ s x₁ x₂ hb₁ hb₂ hlo hhi hr₁ hr₂ hs h₁ h₂)

/-- the row/right-hand-side hypotheses of `solution_linear` for the typical step
    `[transientTerm(old, dt, alpha), constantSourceTerm(f)] ++ L` with `L` a list of matrix terms:
    sources `f` and previous values `old` enter the right-hand side linearly, the rows not at all -/
theorem transient_source_hyps (dt : α) (alpha old₁ old₂ f₁ f₂ : CellFld α) (s : α)
    (L : List (TermObj α)) (hL : ∀ c, sumRhs L c = 0) :
    let T := fun (old f : CellFld α) => transientObj old dt alpha :: TermObj.vec f :: L
    (∀ x c, (sumRow (T old₁ f₁) c).app x c
        = (sumRow (T (fun i => s * old₁ i + old₂ i) (fun i => s * f₁ i + f₂ i)) c).app x c)
    ∧ (∀ x c, (sumRow (T old₂ f₂) c).app x c
        = (sumRow (T (fun i => s * old₁ i + old₂ i) (fun i => s * f₁ i + f₂ i)) c).app x c)
    ∧ (∀ c, sumRhs (T (fun i => s * old₁ i + old₂ i) (fun i => s * f₁ i + f₂ i)) c
        = s * sumRhs (T old₁ f₁) c + sumRhs (T old₂ f₂) c) := by
  refine ⟨fun x c => ?_, fun x c => ?_, fun c => ?_⟩
  · simp only [sumRow_cons_app, transientObj, TermObj.row]
  · simp only [sumRow_cons_app, transientObj, TermObj.row]
  · simp only [sumRhs_cons, transientObj, TermObj.rhs, transientRHS, hL]; ring

/-! ### 6. the non-interior rows are the Robin rows of C03 -/

theorem bc_rows_are_robin (M : Mesh α) (bc : BCs α) (ts : List (TermObj α)) (x : CellFld α)
    (c : Idx) (h : M.outCount c ≠ 0) :
    (assembleOp M bc ts x c = assembleRhs M bc ts c)
      ↔ ((bcRow M bc c).app x = (bcRow M bc c).rhs) := by
  rw [assembleOp_ghost M bc ts x c h, assembleRhs_ghost M bc ts c h]

/-- high-side face ghost (non-periodic): the stored values satisfy
    `(a/(m·dx) + b/2)·φ_ghost + (−a/(m·dx) + b/2)·φ_cell = c`, i.e. `a·∂φ + b·φ_face = c` -/
theorem solves_robin_hi (M : Mesh α) (bc : BCs α) (ts : List (TermObj α)) (x : CellFld α)
    (hx : Solves M bc ts x) (c : Idx) (hc : M.inBox c)
    (h1 : M.outCount c = 1) (h0 : c.get (M.outDir c) ≠ 0)
    (hnp : bc.periodicDir (M.outDir c) = false) :
    hiGhostCoef M bc (M.outDir c) (c.set (M.outDir c) (M.n (M.outDir c))) * x c
      + hiCellCoef M bc (M.outDir c) (c.set (M.outDir c) (M.n (M.outDir c)))
          * x (c.set (M.outDir c) (M.n (M.outDir c)))
      = (bc.hi (M.outDir c)).c (c.set (M.outDir c) (M.n (M.outDir c))) := by
  have h := (bc_rows_are_robin M bc ts x c (by omega)).1 (hx c hc)
  obtain ⟨e1, e2⟩ := bcRow_hi_explicit M bc x c h1 h0 hnp
  rw [← e1, ← e2]; exact h

/-- low-side face ghost (non-periodic) -/
theorem solves_robin_lo (M : Mesh α) (bc : BCs α) (ts : List (TermObj α)) (x : CellFld α)
    (hx : Solves M bc ts x) (c : Idx) (hc : M.inBox c)
    (h1 : M.outCount c = 1) (h0 : c.get (M.outDir c) = 0)
    (hnp : bc.periodicDir (M.outDir c) = false) :
    loGhostCoef M bc (M.outDir c) (c.set (M.outDir c) 1) * x c
      + loCellCoef M bc (M.outDir c) (c.set (M.outDir c) 1) * x (c.set (M.outDir c) 1)
      = (bc.lo (M.outDir c)).c (c.set (M.outDir c) 1) := by
  have h := (bc_rows_are_robin M bc ts x c (by omega)).1 (hx c hc)
  obtain ⟨e1, e2⟩ := bcRow_lo_explicit M bc x c h1 h0 hnp
  rw [e1, e2] at h
  exact neg_injective h

/-- interior cells: the stored values satisfy (sum of matrix terms)·φ = sum of vector terms -/
theorem solves_interior (M : Mesh α) (bc : BCs α) (ts : List (TermObj α)) (x : CellFld α)
    (hx : Solves M bc ts x) (c : Idx) (hc : M.inBox c) (h0 : M.outCount c = 0) :
    (ts.map (fun t => (t.row c).app x c)).sum = (ts.map (·.rhs c)).sum := by
  have := hx c hc
  rwa [assembleOp_interior M bc ts x c h0, assembleRhs_interior M bc ts c h0, sumRow_app,
    sumRhs_eq] at this

/-! ### 7. an external solver / `solveMatrixPDE` is handed the identical system -/

theorem solveMatrixPDE_same (M : Mesh α) (bc : BCs α) (ts : List (TermObj α)) (x : CellFld α) :
    Solves M bc ts x ↔
      (let A := assembleOp M bc ts; let b := assembleRhs M bc ts; ∀ c, M.inBox c → A x c = b c) :=
  Iff.rfl

/-! ### 8. non-vacuity: a concrete 3-cell Dirichlet problem and its solution -/

theorem ex_inBox (c : Idx) (hc : (Examples.mesh .cart1).inBox c) :
    c = (0,1,1) ∨ c = (1,1,1) ∨ c = (2,1,1) ∨ c = (3,1,1) ∨ c = (4,1,1) := by
  obtain ⟨a, b, c⟩ := c
  simp only [Mesh.inBox, Examples.mesh, Kind.active, Kind.dim, Examples.ax3, mkAxisFaces] at hc
  obtain ⟨h1, h2, h3⟩ := hc
  simp only [Nat.reduceLeDiff, decide_false, Bool.false_eq_true, if_false] at h2 h3
  subst h2 h3
  have : a = 0 ∨ a = 1 ∨ a = 2 ∨ a = 3 ∨ a = 4 := by omega
  rcases this with rfl | rfl | rfl | rfl | rfl <;> simp

/-- `[linearSourceTerm(2), constantSourceTerm(4)]` with Dirichlet values 1 and 3:
    `φ = 2` in the cells, ghosts 0 and 4 -/
theorem ex_solves : Solves (Examples.mesh .cart1) (AsmEx.bc 1 3) AsmEx.terms AsmEx.sol := by
  intro c hc
  rcases ex_inBox c hc with rfl | rfl | rfl | rfl | rfl <;> decide +kernel

/-- the example system is uniquely solvable -/
theorem ex_unique : UniqueSol (Examples.mesh .cart1) (AsmEx.bc 1 3) AsmEx.terms := by
  intro y hy
  have e0 := hy (0,1,1) (by unfold Mesh.inBox; decide +kernel)
  have e1 := hy (1,1,1) (by unfold Mesh.inBox; decide +kernel)
  have e2 := hy (2,1,1) (by unfold Mesh.inBox; decide +kernel)
  have e3 := hy (3,1,1) (by unfold Mesh.inBox; decide +kernel)
  have e4 := hy (4,1,1) (by unfold Mesh.inBox; decide +kernel)
  simp [assembleOp, Mesh.outCount, Mesh.outDir, Examples.mesh, Examples.ax3, mkAxisFaces,
    Kind.active, Kind.dim, AsmEx.terms, AsmEx.bc, sumRow, TermObj.row, linearSrcRow, St7.add,
    St7.zero, St7.diag, St7.app, bcRow, bcRowLo, bcRowHi, BCs.periodicDir, loCellCoef,
    loGhostCoef, hiCellCoef, hiGhostCoef, Row.app, Idx.get, Idx.set, Mesh.n, Mesh.axis, lineM]
    at e0 e1 e2 e3 e4
  rw [e1] at e0; rw [e3] at e4
  have e0' : y (0,1,1) = 0 := by linarith
  have e4' : y (4,1,1) = 0 := by linarith
  intro c hc
  rcases ex_inBox c hc with rfl | rfl | rfl | rfl | rfl <;> assumption

example : ∃ x, Solves (Examples.mesh .cart1) (AsmEx.bc 1 3) AsmEx.terms x := ⟨_, ex_solves⟩

/-- the hypotheses of `solution_linear` are satisfiable (all three systems the example system,
    `s = 0`): the conclusion is then the uniqueness of the example solution -/
example (x₃ : CellFld ℚ) (h₃ : Solves (Examples.mesh .cart1) (AsmEx.bc 1 3) AsmEx.terms x₃) :
    ∀ c, (Examples.mesh .cart1).inBox c → x₃ c = AsmEx.sol c :=
  solves_unique _ _ _ ex_unique x₃ AsmEx.sol h₃ ex_solves

/-- superposition on the example: doubling sources and Dirichlet data doubles the solution -/
example : Solves (Examples.mesh .cart1) (AsmEx.bc 2 6)
    [.mat (linearSrcRow (fun _ => 2)), .vec (constSrcRHS (fun _ => 8))]
    (fun i => 1 * AsmEx.sol i + AsmEx.sol i) :=
  solves_superpose_bc (Examples.mesh .cart1) (AsmEx.bc 1 3) (AsmEx.bc 1 3) (AsmEx.bc 2 6)
    AsmEx.terms AsmEx.terms _ 1 AsmEx.sol AsmEx.sol
    (fun _ => ⟨rfl, rfl, rfl, rfl, rfl, rfl⟩) (fun _ => ⟨rfl, rfl, rfl, rfl, rfl, rfl⟩)
    (fun _ _ => by norm_num [AsmEx.bc]) (fun _ _ => by norm_num [AsmEx.bc])
    (fun _ _ => rfl) (fun _ _ => rfl)
    (fun _ => by norm_num [AsmEx.terms, sumRhs, TermObj.rhs, constSrcRHS])
    ex_solves ex_solves

/-- a face-ghost cell of the example and its explicit Robin row -/
example : (Examples.mesh .cart1).outCount (4,1,1) = 1
    ∧ Idx.get (4,1,1) ((Examples.mesh .cart1).outDir (4,1,1)) ≠ 0
    ∧ (AsmEx.bc 1 3).periodicDir ((Examples.mesh .cart1).outDir (4,1,1)) = false := by
  decide +kernel

end PyFV.C04
