/-
  Property C02, convergence part — "for smooth solutions the error of the computed numbers against
  the exact solution decreases under grid refinement at the order of the scheme", as a theorem
  over ℝ with explicit constants, for the model's own operators.

  Part A: Taylor consistency of the three difference quotients (second difference, gradient,
          linear mean) with explicit constants, and the exact leading term of the ghost-cell
          Dirichlet boundary row (which is NOT consistent: its truncation error is `−u''/4 + O(h)`).
  Part B: the same for the model's `diffusionRow`, `gradD`, `linMean` on the uniform 1-D
          Cartesian mesh (`mkAxisNL N L`).
  Part C: convergence `|x_c − u(x_c)| ≤ (M4 L²/96 + 7 M2/8) h²` of ANY solution of the model's
          discrete Poisson–Dirichlet system, for every `N ≥ 2`.
  Part D: one backward-Euler step of the heat equation (first order in time, second in space).

  Smoothness: `u` is assumed `ContDiff ℝ k u` on the whole line (so that `deriv`, `iteratedDeriv`
  are the classical derivatives everywhere, also at the end points of the interval); the BOUNDS on
  the derivatives are required only on the closed interval the stencil touches (`[0, L]` in
  Part C; `u` is never evaluated outside `[0, L]` there).
-/
import PyFV.Lemmas.Taylor

set_option linter.unusedSectionVars false

namespace PyFV.C02Conv
open PyFV Set

/-! ## Part A — Taylor consistency with explicit constants -/

/-- **A1.** second difference: `|(u(x+h) − 2u(x) + u(x−h))/h² − u''(x)| ≤ M4 h²/12` -/
theorem second_difference_error {u : ℝ → ℝ} (hu : ContDiff ℝ 4 u) (a b M4 : ℝ)
    (hb : ∀ y ∈ Icc a b, |iteratedDeriv 4 u y| ≤ M4) (x h : ℝ) (hh : 0 < h)
    (hlo : a ≤ x - h) (hhi : x + h ≤ b) :
    |(u (x + h) - 2 * u x + u (x - h)) / h ^ 2 - deriv (deriv u) x| ≤ M4 * h ^ 2 / 12 := by
  have hx : x ∈ Icc a b := ⟨by linarith, by linarith⟩
  have R1 := taylor4_bound hu x h M4
    (fun y hy => hb y (uIcc_subset_Icc hx ⟨by linarith, by linarith⟩ hy))
  have R2 := taylor4_bound hu x (-h) M4
    (fun y hy => hb y (uIcc_subset_Icc hx ⟨by linarith, by linarith⟩ hy))
  rw [show (-h) ^ 4 = h ^ 4 by ring] at R2
  have hp : 0 < h ^ 2 := pow_pos hh 2
  have key : (u (x + h) - 2 * u x + u (x - h)) / h ^ 2 - deriv (deriv u) x
      = ((u (x + h) - (u x + h * deriv u x + h ^ 2 / 2 * deriv (deriv u) x
            + h ^ 3 / 6 * iteratedDeriv 3 u x))
        + (u (x + -h) - (u x + -h * deriv u x + (-h) ^ 2 / 2 * deriv (deriv u) x
            + (-h) ^ 3 / 6 * iteratedDeriv 3 u x))) / h ^ 2 := by
    rw [show x + -h = x - h by ring]
    field_simp
    ring
  rw [key, abs_div, abs_of_pos hp, div_le_iff₀ hp]
  calc _ ≤ _ := abs_add_le _ _
    _ ≤ M4 * h ^ 4 / 24 + M4 * h ^ 4 / 24 := add_le_add R1 R2
    _ = M4 * h ^ 2 / 12 * h ^ 2 := by ring

/-- **A2.** central gradient at the mid-point: `|(u(x+h) − u(x))/h − u'(x+h/2)| ≤ M3 h²/24` -/
theorem central_gradient_error {u : ℝ → ℝ} (hu : ContDiff ℝ 3 u) (a b M3 : ℝ)
    (hb : ∀ y ∈ Icc a b, |iteratedDeriv 3 u y| ≤ M3) (x h : ℝ) (hh : 0 < h)
    (hlo : a ≤ x) (hhi : x + h ≤ b) :
    |(u (x + h) - u x) / h - deriv u (x + h / 2)| ≤ M3 * h ^ 2 / 24 := by
  have hm : x + h / 2 ∈ Icc a b := ⟨by linarith, by linarith⟩
  have R1 := taylor3_bound hu (x + h / 2) (h / 2) M3
    (fun y hy => hb y (uIcc_subset_Icc hm ⟨by linarith, by linarith⟩ hy))
  have R2 := taylor3_bound hu (x + h / 2) (-(h / 2)) M3
    (fun y hy => hb y (uIcc_subset_Icc hm ⟨by linarith, by linarith⟩ hy))
  rw [abs_neg] at R2
  rw [abs_of_pos (by positivity : 0 < h / 2)] at R1 R2
  rw [show x + h / 2 + h / 2 = x + h by ring] at R1
  rw [show x + h / 2 + -(h / 2) = x by ring] at R2
  have key : (u (x + h) - u x) / h - deriv u (x + h / 2)
      = ((u (x + h) - (u (x + h / 2) + h / 2 * deriv u (x + h / 2)
            + (h / 2) ^ 2 / 2 * deriv (deriv u) (x + h / 2)))
        - (u x - (u (x + h / 2) + -(h / 2) * deriv u (x + h / 2)
            + (-(h / 2)) ^ 2 / 2 * deriv (deriv u) (x + h / 2)))) / h := by
    field_simp
    ring
  rw [key, abs_div, abs_of_pos hh, div_le_iff₀ hh]
  calc _ ≤ _ := abs_sub _ _
    _ ≤ M3 * (h / 2) ^ 3 / 6 + M3 * (h / 2) ^ 3 / 6 := add_le_add R1 R2
    _ = M3 * h ^ 2 / 24 * h := by ring

/-- **A3.** linear mean at the mid-point: `|(u(x+h) + u(x))/2 − u(x+h/2)| ≤ M2 h²/8` -/
theorem linear_mean_error {u : ℝ → ℝ} (hu : ContDiff ℝ 2 u) (a b M2 : ℝ)
    (hb : ∀ y ∈ Icc a b, |deriv (deriv u) y| ≤ M2) (x h : ℝ) (hh : 0 < h)
    (hlo : a ≤ x) (hhi : x + h ≤ b) :
    |(u (x + h) + u x) / 2 - u (x + h / 2)| ≤ M2 * h ^ 2 / 8 := by
  have hm : x + h / 2 ∈ Icc a b := ⟨by linarith, by linarith⟩
  have R1 := taylor2_bound hu (x + h / 2) (h / 2) M2
    (fun y hy => hb y (uIcc_subset_Icc hm ⟨by linarith, by linarith⟩ hy))
  have R2 := taylor2_bound hu (x + h / 2) (-(h / 2)) M2
    (fun y hy => hb y (uIcc_subset_Icc hm ⟨by linarith, by linarith⟩ hy))
  rw [show x + h / 2 + h / 2 = x + h by ring] at R1
  rw [show x + h / 2 + -(h / 2) = x by ring, show (-(h / 2)) ^ 2 = (h / 2) ^ 2 by ring] at R2
  have key : (u (x + h) + u x) / 2 - u (x + h / 2)
      = ((u (x + h) - (u (x + h / 2) + h / 2 * deriv u (x + h / 2)))
        + (u x - (u (x + h / 2) + -(h / 2) * deriv u (x + h / 2)))) / 2 := by
    ring
  rw [key, abs_div, abs_of_pos (by norm_num : (0 : ℝ) < 2), div_le_iff₀ (by norm_num)]
  calc _ ≤ _ := abs_add_le _ _
    _ ≤ M2 * (h / 2) ^ 2 / 2 + M2 * (h / 2) ^ 2 / 2 := add_le_add R1 R2
    _ = M2 * h ^ 2 / 8 * 2 := by ring

/-- the boundary stencil in mid-point form (`t = h` at the low end, `t = −h` at the high end):
    `u(m+t) − 3u(m) + 2u(m−t/2) = (3/4) t² u''(m) + O(M3 |t|³)` -/
theorem boundary_stencil_leading {u : ℝ → ℝ} (hu : ContDiff ℝ 3 u) (a b M3 : ℝ)
    (hb : ∀ y ∈ Icc a b, |iteratedDeriv 3 u y| ≤ M3) (m t : ℝ)
    (hm : m ∈ Icc a b) (h1 : m + t ∈ Icc a b) (h2 : m - t / 2 ∈ Icc a b) :
    |u (m + t) - 3 * u m + 2 * u (m - t / 2) - 3 / 4 * t ^ 2 * deriv (deriv u) m|
      ≤ 5 / 24 * M3 * |t| ^ 3 := by
  have R1 := taylor3_bound hu m t M3 (fun y hy => hb y (uIcc_subset_Icc hm h1 hy))
  have R2 := taylor3_bound hu m (-(t / 2)) M3
    (fun y hy => hb y (uIcc_subset_Icc hm (by rw [← sub_eq_add_neg]; exact h2) hy))
  rw [abs_neg, abs_div, abs_of_pos (by norm_num : (0 : ℝ) < 2)] at R2
  have key : u (m + t) - 3 * u m + 2 * u (m - t / 2) - 3 / 4 * t ^ 2 * deriv (deriv u) m
      = (u (m + t) - (u m + t * deriv u m + t ^ 2 / 2 * deriv (deriv u) m))
        + 2 * (u (m + -(t / 2)) - (u m + -(t / 2) * deriv u m
            + (-(t / 2)) ^ 2 / 2 * deriv (deriv u) m)) := by
    rw [← sub_eq_add_neg]
    ring
  rw [key]
  calc _ ≤ _ := abs_add_le _ _
    _ ≤ M3 * |t| ^ 3 / 6 + 2 * (M3 * (|t| / 2) ^ 3 / 6) := by
        rw [abs_mul, abs_of_pos (by norm_num : (0 : ℝ) < 2)]
        exact add_le_add R1 (mul_le_mul_of_nonneg_left R2 (by norm_num))
    _ = 5 / 24 * M3 * |t| ^ 3 := by ring

/-- the boundary stencil is bounded by the second derivative alone:
    `|u(m+t) − 3u(m) + 2u(m−t/2)| ≤ (3/4) M2 t²` -/
theorem boundary_stencil_bound {u : ℝ → ℝ} (hu : ContDiff ℝ 2 u) (a b M2 : ℝ)
    (hb : ∀ y ∈ Icc a b, |deriv (deriv u) y| ≤ M2) (m t : ℝ)
    (hm : m ∈ Icc a b) (h1 : m + t ∈ Icc a b) (h2 : m - t / 2 ∈ Icc a b) :
    |u (m + t) - 3 * u m + 2 * u (m - t / 2)| ≤ 3 / 4 * M2 * t ^ 2 := by
  have R1 := taylor2_bound hu m t M2 (fun y hy => hb y (uIcc_subset_Icc hm h1 hy))
  have R2 := taylor2_bound hu m (-(t / 2)) M2
    (fun y hy => hb y (uIcc_subset_Icc hm (by rw [← sub_eq_add_neg]; exact h2) hy))
  have key : u (m + t) - 3 * u m + 2 * u (m - t / 2)
      = (u (m + t) - (u m + t * deriv u m))
        + 2 * (u (m + -(t / 2)) - (u m + -(t / 2) * deriv u m)) := by
    rw [← sub_eq_add_neg]
    ring
  rw [key]
  calc _ ≤ _ := abs_add_le _ _
    _ ≤ M2 * t ^ 2 / 2 + 2 * (M2 * (-(t / 2)) ^ 2 / 2) := by
        rw [abs_mul, abs_of_pos (by norm_num : (0 : ℝ) < 2)]
        exact add_le_add R1 (mul_le_mul_of_nonneg_left R2 (by norm_num))
    _ = 3 / 4 * M2 * t ^ 2 := by ring

/-- **A4.** ghost-cell Dirichlet boundary row at the low end `a` (ghost eliminated):
    the stencil `(u(a+3h/2) − 3u(a+h/2) + 2u(a))/h²` approximates `(3/4)·u''(a+h/2)`, not
    `u''(a+h/2)`: `|… − (3/4) u''(a+h/2)| ≤ (5/24) M3 h`. -/
theorem boundary_row_leading_term {u : ℝ → ℝ} (hu : ContDiff ℝ 3 u) (a b M3 : ℝ)
    (hb : ∀ y ∈ Icc a b, |iteratedDeriv 3 u y| ≤ M3) (h : ℝ) (hh : 0 < h)
    (hhi : a + 3 * h / 2 ≤ b) :
    |(u (a + 3 * h / 2) - 3 * u (a + h / 2) + 2 * u a) / h ^ 2
        - 3 / 4 * deriv (deriv u) (a + h / 2)| ≤ 5 / 24 * M3 * h := by
  have R := boundary_stencil_leading hu a b M3 hb (a + h / 2) h
    ⟨by linarith, by linarith⟩ ⟨by linarith, by linarith⟩ ⟨by linarith, by linarith⟩
  rw [show a + h / 2 + h = a + 3 * h / 2 by ring, show a + h / 2 - h / 2 = a by ring,
    abs_of_pos hh] at R
  have hp : 0 < h ^ 2 := pow_pos hh 2
  have key : (u (a + 3 * h / 2) - 3 * u (a + h / 2) + 2 * u a) / h ^ 2
        - 3 / 4 * deriv (deriv u) (a + h / 2)
      = (u (a + 3 * h / 2) - 3 * u (a + h / 2) + 2 * u a
          - 3 / 4 * h ^ 2 * deriv (deriv u) (a + h / 2)) / h ^ 2 := by
    field_simp
  rw [key, abs_div, abs_of_pos hp, div_le_iff₀ hp]
  calc _ ≤ _ := R
    _ = 5 / 24 * M3 * h * h ^ 2 := by ring

/-- hence the truncation error of the boundary row against `u''` is `−u''/4 + O(h)`:
    it does NOT tend to zero with `h` (order-0 inconsistency of the boundary row) -/
theorem boundary_row_truncation {u : ℝ → ℝ} (hu : ContDiff ℝ 3 u) (a b M3 : ℝ)
    (hb : ∀ y ∈ Icc a b, |iteratedDeriv 3 u y| ≤ M3) (h : ℝ) (hh : 0 < h)
    (hhi : a + 3 * h / 2 ≤ b) :
    |((u (a + 3 * h / 2) - 3 * u (a + h / 2) + 2 * u a) / h ^ 2 - deriv (deriv u) (a + h / 2))
        - (-(1 / 4) * deriv (deriv u) (a + h / 2))| ≤ 5 / 24 * M3 * h := by
  have := boundary_row_leading_term hu a b M3 hb h hh hhi
  convert this using 2
  ring

/-- … so wherever `|u''(a+h/2)| ≥ m2 > 0` near the boundary the truncation error of the boundary
    row stays `≥ m2/4 − (5/24) M3 h` -/
theorem boundary_row_truncation_lower {u : ℝ → ℝ} (hu : ContDiff ℝ 3 u) (a b M3 m2 : ℝ)
    (hb : ∀ y ∈ Icc a b, |iteratedDeriv 3 u y| ≤ M3) (h : ℝ) (hh : 0 < h)
    (hhi : a + 3 * h / 2 ≤ b) (hm2 : m2 ≤ |deriv (deriv u) (a + h / 2)|) :
    m2 / 4 - 5 / 24 * M3 * h
      ≤ |(u (a + 3 * h / 2) - 3 * u (a + h / 2) + 2 * u a) / h ^ 2
          - deriv (deriv u) (a + h / 2)| := by
  have h1 := boundary_row_truncation hu a b M3 hb h hh hhi
  have h2 : |-(1 / 4) * deriv (deriv u) (a + h / 2)|
      - |(u (a + 3 * h / 2) - 3 * u (a + h / 2) + 2 * u a) / h ^ 2 - deriv (deriv u) (a + h / 2)|
      ≤ |((u (a + 3 * h / 2) - 3 * u (a + h / 2) + 2 * u a) / h ^ 2 - deriv (deriv u) (a + h / 2))
        - (-(1 / 4) * deriv (deriv u) (a + h / 2))| := by
    rw [abs_sub_comm ((u (a + 3 * h / 2) - 3 * u (a + h / 2) + 2 * u a) / h ^ 2
      - deriv (deriv u) (a + h / 2))]
    exact abs_sub_abs_le_abs_sub _ _
  have h3 : |-(1 / 4) * deriv (deriv u) (a + h / 2)| = |deriv (deriv u) (a + h / 2)| / 4 := by
    rw [abs_mul, abs_neg, abs_of_pos (by norm_num : (0 : ℝ) < 1 / 4)]; ring
  rw [h3] at h2
  linarith

/-! ## Part B — the model's operators on the uniform 1-D Cartesian mesh -/

/-- **B1.** the model's diffusion row (`diffusionTerm(1)`, i.e. `+div grad`) applied to the exact
    solution sampled at the cell centres differs from `u''(x_c)` by at most `M4 h²/12` in every
    cell `2 ≤ i ≤ N−1` (both neighbours are interior cells) -/
theorem diffusionRow_consistent {M : Mesh ℝ} {N : ℕ} {L : ℝ} (hM : IsUniform1D M N L)
    (hL : 0 < L) {u : ℝ → ℝ} (hu : ContDiff ℝ 4 u) (M4 : ℝ)
    (hb : ∀ y ∈ Icc 0 L, |iteratedDeriv 4 u y| ≤ M4) (φ : CellFld ℝ) (i j k : ℕ)
    (h2 : 2 ≤ i) (hN : i + 1 ≤ N)
    (hφ : ∀ i', i - 1 ≤ i' → i' ≤ i + 1 → φ (i', j, k) = u (M.ax.cen i')) :
    |(diffusionRow M oneFace (i, j, k)).app φ (i, j, k) - deriv (deriv u) (M.ax.cen i)|
      ≤ M4 * (L / N) ^ 2 / 12 := by
  have hNpos : (0 : ℝ) < N := by exact_mod_cast (by omega : 0 < N)
  have hh : 0 < L / (N : ℝ) := div_pos hL hNpos
  rw [diffusionRow_uniform1D_app hM (by omega) hL, hφ (i + 1) (by omega) (by omega),
    hφ i (by omega) (by omega), hφ (i - 1) (by omega) (by omega), hM.ax,
    cenNL_succ, cenNL_pred N L i (by omega)]
  have b1 := cenNL_bounds N L hL (i - 1) (by omega) (by omega)
  have b2 := cenNL_bounds N L hL (i + 1) (by omega) (by omega)
  rw [cenNL_pred N L i (by omega)] at b1
  rw [cenNL_succ] at b2
  exact second_difference_error hu 0 L M4 hb _ _ hh (by linarith [b1.1]) (by linarith [b2.2])

/-- **B2.** the model's `gradientTerm` at the interior face `i` (`1 ≤ i ≤ N−1`) -/
theorem gradD_consistent {M : Mesh ℝ} {N : ℕ} {L : ℝ} (hM : IsUniform1D M N L)
    (hL : 0 < L) {u : ℝ → ℝ} (hu : ContDiff ℝ 3 u) (M3 : ℝ)
    (hb : ∀ y ∈ Icc 0 L, |iteratedDeriv 3 u y| ≤ M3) (φ : CellFld ℝ) (i j k : ℕ)
    (h1 : 1 ≤ i) (hN : i + 1 ≤ N)
    (hφ0 : φ (i, j, k) = u (M.ax.cen i)) (hφ1 : φ (i + 1, j, k) = u (M.ax.cen (i + 1))) :
    |gradD M φ .x (i, j, k) - deriv u (M.ax.fc i)| ≤ M3 * (L / N) ^ 2 / 24 := by
  have hNpos : (0 : ℝ) < N := by exact_mod_cast (by omega : 0 < N)
  have hh : 0 < L / (N : ℝ) := div_pos hL hNpos
  rw [gradD_uniform1D hM, hφ0, hφ1, hM.ax, cenNL_succ, fcNL_eq_cen]
  have b1 := cenNL_bounds N L hL i h1 (by omega)
  have b2 := cenNL_bounds N L hL (i + 1) (by omega) hN
  rw [cenNL_succ] at b2
  exact central_gradient_error hu 0 L M3 hb _ _ hh (by linarith [b1.1]) (by linarith [b2.2])

/-- **B3.** the model's `linearMean` at the interior face `i` (`1 ≤ i ≤ N−1`) -/
theorem linMean_consistent {M : Mesh ℝ} {N : ℕ} {L : ℝ} (hM : IsUniform1D M N L)
    (hL : 0 < L) {u : ℝ → ℝ} (hu : ContDiff ℝ 2 u) (M2 : ℝ)
    (hb : ∀ y ∈ Icc 0 L, |deriv (deriv u) y| ≤ M2) (φ : CellFld ℝ) (i j k : ℕ)
    (h1 : 1 ≤ i) (hN : i + 1 ≤ N)
    (hφ0 : φ (i, j, k) = u (M.ax.cen i)) (hφ1 : φ (i + 1, j, k) = u (M.ax.cen (i + 1))) :
    |linMean M φ .x (i, j, k) - u (M.ax.fc i)| ≤ M2 * (L / N) ^ 2 / 8 := by
  have hNpos : (0 : ℝ) < N := by exact_mod_cast (by omega : 0 < N)
  have hh : 0 < L / (N : ℝ) := div_pos hL hNpos
  rw [linMean_uniform1D hM (by omega) hL, hφ0, hφ1, hM.ax, cenNL_succ, fcNL_eq_cen]
  have b1 := cenNL_bounds N L hL i h1 (by omega)
  have b2 := cenNL_bounds N L hL (i + 1) (by omega) hN
  rw [cenNL_succ] at b2
  exact linear_mean_error hu 0 L M2 hb _ _ hh (by linarith [b1.1]) (by linarith [b2.2])

/-! ## Part C — convergence of the discrete Poisson–Dirichlet problem -/

/-- **Convergence from truncation bounds** (no smoothness: pure discrete comparison principle).
    Values `xs` on the ghosted line `0..N+1`, reference values `refSol` (`u` at the centres,
    Dirichlet reflection in the ghosts).  If the discrete operator applied to the error is bounded
    by `Ti` in rows `2..N−1` and by `Tb` in rows `1` and `N`, the error is at most
    `Ti L²/8 + Tb h²/2`. -/
theorem poisson_dirichlet_converges_of_truncation (N : ℕ) (hN : 2 ≤ N) (L : ℝ) (hL : 0 < L)
    (u : ℝ → ℝ) (Ti Tb : ℝ) (hTi : 0 ≤ Ti) (xs : ℕ → ℝ)
    (hlo : xs 0 = 2 * u 0 - xs 1) (hhi : xs (N + 1) = 2 * u L - xs N)
    (hτi : ∀ i, 2 ≤ i → i + 1 ≤ N →
      |-((xs (i + 1) - refSol N L u (i + 1)) - 2 * (xs i - refSol N L u i)
          + (xs (i - 1) - refSol N L u (i - 1))) / (L / N) ^ 2| ≤ Ti)
    (hτb : ∀ i, i = 1 ∨ i = N →
      |-((xs (i + 1) - refSol N L u (i + 1)) - 2 * (xs i - refSol N L u i)
          + (xs (i - 1) - refSol N L u (i - 1))) / (L / N) ^ 2| ≤ Tb) :
    ∀ i, 1 ≤ i → i ≤ N →
      |xs i - u ((mkAxisNL N L).cen i)| ≤ Ti * L ^ 2 / 8 + Tb * (L / N) ^ 2 / 2 := by
  intro i hi1 hiN
  have := poisson_error_of_truncation N hN L hL Ti Tb hTi (fun j => xs j - refSol N L u j)
    (fun j => -((xs (j + 1) - refSol N L u (j + 1)) - 2 * (xs j - refSol N L u j)
          + (xs (j - 1) - refSol N L u (j - 1))) / (L / N) ^ 2)
    (fun j _ _ => rfl)
    (by
      show xs 0 - refSol N L u 0 = -(xs 1 - refSol N L u 1)
      rw [refSol_zero, refSol_interior N L u 1 (by omega) (by omega), hlo]; ring)
    (by
      show xs (N + 1) - refSol N L u (N + 1) = -(xs N - refSol N L u N)
      rw [refSol_last, refSol_interior N L u N (by omega) (by omega), hhi]; ring)
    hτi (hτb 1 (Or.inl rfl)) (hτb N (Or.inr rfl)) i hi1 hiN
  rwa [refSol_interior N L u i hi1 hiN] at this

/-- truncation error of the reference values (`u` at the centres) in the rows `2..N−1`:
    `|δ²u/h² − u''(x_i)| ≤ M4 h²/12` -/
theorem reference_truncation_interior (N : ℕ) (L : ℝ) (hL : 0 < L) {u : ℝ → ℝ}
    (hu : ContDiff ℝ 4 u) (M4 : ℝ) (h4 : ∀ y ∈ Icc 0 L, |iteratedDeriv 4 u y| ≤ M4)
    (i : ℕ) (hi2 : 2 ≤ i) (hiN : i + 1 ≤ N) :
    |(refSol N L u (i + 1) - 2 * refSol N L u i + refSol N L u (i - 1)) / (L / N) ^ 2
        - deriv (deriv u) ((mkAxisNL N L).cen i)| ≤ M4 * (L / N) ^ 2 / 12 := by
  have hNpos : (0 : ℝ) < N := by exact_mod_cast (by omega : 0 < N)
  have hh : 0 < L / (N : ℝ) := div_pos hL hNpos
  rw [refSol_interior N L u (i + 1) (by omega) (by omega),
    refSol_interior N L u i (by omega) (by omega),
    refSol_interior N L u (i - 1) (by omega) (by omega), cenNL_succ,
    cenNL_pred N L i (by omega)]
  have b1 := cenNL_bounds N L hL (i - 1) (by omega) (by omega)
  have b2 := cenNL_bounds N L hL (i + 1) (by omega) (by omega)
  rw [cenNL_pred N L i (by omega)] at b1
  rw [cenNL_succ] at b2
  exact second_difference_error hu 0 L M4 h4 _ _ hh (by linarith [b1.1]) (by linarith [b2.2])

/-- truncation error of the reference values in the rows `1` and `N`, where the reference ghost
    is the Dirichlet reflection `2u(boundary) − u(adjacent centre)`: bounded by `(7/4) M2`, and
    (by `boundary_row_truncation`) NOT small -/
theorem reference_truncation_boundary (N : ℕ) (hN : 2 ≤ N) (L : ℝ) (hL : 0 < L) {u : ℝ → ℝ}
    (hu : ContDiff ℝ 2 u) (M2 : ℝ) (h2 : ∀ y ∈ Icc 0 L, |deriv (deriv u) y| ≤ M2)
    (i : ℕ) (hi : i = 1 ∨ i = N) :
    |(refSol N L u (i + 1) - 2 * refSol N L u i + refSol N L u (i - 1)) / (L / N) ^ 2
        - deriv (deriv u) ((mkAxisNL N L).cen i)| ≤ 7 * M2 / 4 := by
  have hNpos : (0 : ℝ) < N := by exact_mod_cast (by omega : 0 < N)
  have hh : 0 < L / (N : ℝ) := div_pos hL hNpos
  have hp : 0 < (L / (N : ℝ)) ^ 2 := pow_pos hh 2
  rcases hi with rfl | rfl
  · -- first row: reference ghost 2u(0) − u(x₁)
    rw [show 1 - 1 = 0 from rfl, refSol_zero,
      refSol_interior N L u (1 + 1) (by omega) (by omega),
      refSol_interior N L u 1 (by omega) (by omega), cenNL_succ, cenNL_one]
    have c1 := (cenNL_bounds N L hL 1 (by omega) (by omega)).2
    have c2 := (cenNL_bounds N L hL (1 + 1) (by omega) (by omega)).2
    rw [cenNL_one] at c1
    rw [cenNL_succ, cenNL_one] at c2
    have B := boundary_stencil_bound hu 0 L M2 h2 (L / N / 2) (L / N)
      ⟨by linarith, by linarith⟩ ⟨by linarith, by linarith⟩ ⟨by linarith, by linarith⟩
    rw [show L / N / 2 - L / N / 2 = 0 by ring] at B
    have D := h2 (L / N / 2) ⟨by linarith, by linarith⟩
    have key : (u (L / N / 2 + L / N) - 2 * u (L / N / 2) + (2 * u 0 - u (L / N / 2)))
          / (L / N) ^ 2 - deriv (deriv u) (L / N / 2)
        = (u (L / N / 2 + L / N) - 3 * u (L / N / 2) + 2 * u 0) / (L / N) ^ 2
          - deriv (deriv u) (L / N / 2) := by ring
    rw [key]
    have B' : |(u (L / N / 2 + L / N) - 3 * u (L / N / 2) + 2 * u 0) / (L / N) ^ 2|
        ≤ 3 / 4 * M2 := by
      rw [abs_div, abs_of_pos hp, div_le_iff₀ hp]; exact B
    calc _ ≤ _ := abs_sub _ _
      _ ≤ 3 / 4 * M2 + M2 := add_le_add B' D
      _ = 7 * M2 / 4 := by ring
  · -- last row: reference ghost 2u(L) − u(x_N)
    rw [refSol_last, refSol_interior i L u i (by omega) (le_refl _),
      refSol_interior i L u (i - 1) (by omega) (by omega), cenNL_pred i L i (by omega),
      cenNL_last i L (by omega)]
    have c1 := (cenNL_bounds i L hL i (by omega) (le_refl _)).1
    have c2 := (cenNL_bounds i L hL (i - 1) (by omega) (by omega)).1
    rw [cenNL_last i L (by omega)] at c1
    rw [cenNL_pred i L i (by omega), cenNL_last i L (by omega)] at c2
    have B := boundary_stencil_bound hu 0 L M2 h2 (L - L / i / 2) (-(L / i))
      ⟨by linarith, by linarith⟩ ⟨by linarith, by linarith⟩ ⟨by linarith, by linarith⟩
    rw [show L - L / i / 2 - -(L / i) / 2 = L by ring,
      show L - L / i / 2 + -(L / i) = L - L / i / 2 - L / i by ring,
      show (-(L / (i : ℝ))) ^ 2 = (L / i) ^ 2 by ring] at B
    have D := h2 (L - L / i / 2) ⟨by linarith, by linarith⟩
    have key : (2 * u L - u (L - L / i / 2) - 2 * u (L - L / i / 2)
          + u (L - L / i / 2 - L / i)) / (L / i) ^ 2 - deriv (deriv u) (L - L / i / 2)
        = (u (L - L / i / 2 - L / i) - 3 * u (L - L / i / 2) + 2 * u L) / (L / i) ^ 2
          - deriv (deriv u) (L - L / i / 2) := by ring
    rw [key]
    have B' : |(u (L - L / i / 2 - L / i) - 3 * u (L - L / i / 2) + 2 * u L) / (L / i) ^ 2|
        ≤ 3 / 4 * M2 := by
      rw [abs_div, abs_of_pos hp, div_le_iff₀ hp]; exact B
    calc _ ≤ _ := abs_sub _ _
      _ ≤ 3 / 4 * M2 + M2 := add_le_add B' D
      _ = 7 * M2 / 4 := by ring

/-- **Convergence on the ghosted line.**  `u ∈ C⁴`, `−u'' = f` on `[0, L]`, `|u''| ≤ M2` and
    `|u⁗| ≤ M4` on `[0, L]`; `xs` satisfies the `N ≥ 2` interior rows
    `−(xs_{i+1} − 2 xs_i + xs_{i−1})/h² = f(x_i)` and the two Dirichlet ghost relations.  Then
    `|xs_i − u(x_i)| ≤ (M4 L²/96 + 7 M2/8) h²` in every cell. -/
theorem poisson_dirichlet_converges_line (N : ℕ) (hN : 2 ≤ N) (L : ℝ) (hL : 0 < L)
    (u f : ℝ → ℝ) (hu : ContDiff ℝ 4 u) (M2 M4 : ℝ)
    (hf : ∀ y ∈ Icc 0 L, -(deriv (deriv u) y) = f y)
    (h2 : ∀ y ∈ Icc 0 L, |deriv (deriv u) y| ≤ M2)
    (h4 : ∀ y ∈ Icc 0 L, |iteratedDeriv 4 u y| ≤ M4)
    (xs : ℕ → ℝ)
    (hrow : ∀ i, 1 ≤ i → i ≤ N →
      -((xs (i + 1) - 2 * xs i + xs (i - 1)) / (L / N) ^ 2) = f ((mkAxisNL N L).cen i))
    (hlo : xs 0 = 2 * u 0 - xs 1) (hhi : xs (N + 1) = 2 * u L - xs N) :
    ∀ i, 1 ≤ i → i ≤ N →
      |xs i - u ((mkAxisNL N L).cen i)| ≤ (M4 * L ^ 2 / 96 + 7 * M2 / 8) * (L / N) ^ 2 := by
  have hNpos : (0 : ℝ) < N := by exact_mod_cast (by omega : 0 < N)
  have hh : 0 < L / (N : ℝ) := div_pos hL hNpos
  have hp : 0 < (L / (N : ℝ)) ^ 2 := pow_pos hh 2
  have h0mem : (0 : ℝ) ∈ Icc 0 L := ⟨le_refl _, hL.le⟩
  have hM2 : 0 ≤ M2 := le_trans (abs_nonneg _) (h2 0 h0mem)
  have hM4 : 0 ≤ M4 := le_trans (abs_nonneg _) (h4 0 h0mem)
  have hu2 : ContDiff ℝ 2 u := hu.of_le (by norm_num)
  -- the row of the error: δ²(reference)/h² − u''
  have hdd : ∀ i, 1 ≤ i → i ≤ N → deriv (deriv u) ((mkAxisNL N L).cen i)
      = (xs (i + 1) - 2 * xs i + xs (i - 1)) / (L / N) ^ 2 := by
    intro i h1 hN'
    have a := hrow i h1 hN'
    have b := hf _ (cenNL_mem N L hL i h1 hN')
    linarith
  have hτ : ∀ i, 1 ≤ i → i ≤ N →
      -((xs (i + 1) - refSol N L u (i + 1)) - 2 * (xs i - refSol N L u i)
          + (xs (i - 1) - refSol N L u (i - 1))) / (L / N) ^ 2
      = (refSol N L u (i + 1) - 2 * refSol N L u i + refSol N L u (i - 1)) / (L / N) ^ 2
        - deriv (deriv u) ((mkAxisNL N L).cen i) := by
    intro i h1 hN'
    rw [hdd i h1 hN']; ring
  have hres := poisson_dirichlet_converges_of_truncation N hN L hL u (M4 * (L / N) ^ 2 / 12)
    (7 * M2 / 4) (by positivity) xs hlo hhi
    (fun i hi2 hiN => by
      rw [hτ i (by omega) (by omega)]
      exact reference_truncation_interior N L hL hu M4 h4 i hi2 hiN)
    (fun i hi => by
      rw [hτ i (by omega) (by omega)]
      exact reference_truncation_boundary N hN L hL hu2 M2 h2 i hi)
  intro i hi1 hiN
  calc _ ≤ _ := hres i hi1 hiN
    _ = (M4 * L ^ 2 / 96 + 7 * M2 / 8) * (L / N) ^ 2 := by ring

/-- **Main theorem (C02, convergence).**  `M` is the uniform 1-D Cartesian mesh with `N ≥ 2`
    cells on `[0, L]` (`h = L/N`); `u ∈ C⁴` solves `−u'' = f` on `[0, L]` with `|u''| ≤ M2`,
    `|u⁗| ≤ M4` there.  Let `x` be ANY ghosted field satisfying the model's discrete equations
    for the term list `[-diffusionTerm(1), constantSourceTerm(f(x_c))]`:
    the accumulated interior row (`sumRow`/`sumRhs`, the loop of `solvePDE`) in every cell
    `1..N`, and the model's Dirichlet ghost values `ghostLo`/`ghostHi` (`a = 0`, `b = 1`,
    `c = u(0)` resp. `u(L)`) in the two ghost cells.  Then in every cell
    `|x_c − u(x_c)| ≤ (M4 L²/96 + 7 M2/8) · h²`. -/
theorem poisson_dirichlet_converges {M : Mesh ℝ} {N : ℕ} {L : ℝ} (hM : IsUniform1D M N L)
    (hN : 2 ≤ N) (hL : 0 < L) (u f : ℝ → ℝ) (hu : ContDiff ℝ 4 u) (M2 M4 : ℝ)
    (hf : ∀ y ∈ Icc 0 L, -(deriv (deriv u) y) = f y)
    (h2 : ∀ y ∈ Icc 0 L, |deriv (deriv u) y| ≤ M2)
    (h4 : ∀ y ∈ Icc 0 L, |iteratedDeriv 4 u y| ≤ M4)
    (x : CellFld ℝ)
    (hrow : ∀ i, 1 ≤ i → i ≤ N →
      (sumRow (poissonTerms M f) (i, 1, 1)).app x (i, 1, 1) = sumRhs (poissonTerms M f) (i, 1, 1))
    (hlo : ghostLo M (dirichletBC (u 0) (u L)) x .x (1, 1, 1) = some (x (0, 1, 1)))
    (hhi : ghostHi M (dirichletBC (u 0) (u L)) x .x (N, 1, 1) = some (x (N + 1, 1, 1))) :
    ∀ i, 1 ≤ i → i ≤ N →
      |x (i, 1, 1) - u (M.ax.cen i)| ≤ (M4 * L ^ 2 / 96 + 7 * M2 / 8) * (L / N) ^ 2 := by
  rw [hM.ax]
  refine poisson_dirichlet_converges_line N hN L hL u f hu M2 M4 hf h2 h4 (fun i => x (i, 1, 1))
    ?_ ?_ ?_
  · intro i h1 hN'
    have := hrow i h1 hN'
    rw [sumRow_poissonTerms_app, sumRhs_poissonTerms, diffusionRow_uniform1D_app hM (by omega) hL,
      hM.ax] at this
    exact this
  · rw [ghostLo_dirichletBC] at hlo
    exact (Option.some.inj hlo).symm
  · rw [ghostHi_dirichletBC] at hhi
    exact (Option.some.inj hhi).symm

/-- the same with the rows written out: `−(diffusionRow M 1 c).app x c = constSrcRHS f c` -/
theorem poisson_dirichlet_converges_rows {M : Mesh ℝ} {N : ℕ} {L : ℝ} (hM : IsUniform1D M N L)
    (hN : 2 ≤ N) (hL : 0 < L) (u f : ℝ → ℝ) (hu : ContDiff ℝ 4 u) (M2 M4 : ℝ)
    (hf : ∀ y ∈ Icc 0 L, -(deriv (deriv u) y) = f y)
    (h2 : ∀ y ∈ Icc 0 L, |deriv (deriv u) y| ≤ M2)
    (h4 : ∀ y ∈ Icc 0 L, |iteratedDeriv 4 u y| ≤ M4)
    (x : CellFld ℝ)
    (hrow : ∀ i, 1 ≤ i → i ≤ N →
      -((diffusionRow M oneFace (i, 1, 1)).app x (i, 1, 1))
        = constSrcRHS (fun c => f (M.ax.cen c.1)) (i, 1, 1))
    (hlo : x (0, 1, 1) = 2 * u 0 - x (1, 1, 1))
    (hhi : x (N + 1, 1, 1) = 2 * u L - x (N, 1, 1)) :
    ∀ i, 1 ≤ i → i ≤ N →
      |x (i, 1, 1) - u (M.ax.cen i)| ≤ (M4 * L ^ 2 / 96 + 7 * M2 / 8) * (L / N) ^ 2 :=
  poisson_dirichlet_converges hM hN hL u f hu M2 M4 hf h2 h4 x
    (fun i h1 hN' => by
      rw [sumRow_poissonTerms_app, sumRhs_poissonTerms]; exact hrow i h1 hN')
    (by rw [ghostLo_dirichletBC, hlo]) (by rw [ghostHi_dirichletBC, hhi])

/-- the same for a solution of the linear system `solvePDE` assembles (interior rows and the
    boundary rows of `boundaryConditionsTerm`), i.e. `Solves` of the model -/
theorem poisson_dirichlet_converges_solves {M : Mesh ℝ} {N : ℕ} {L : ℝ} (hM : IsUniform1D M N L)
    (hN : 2 ≤ N) (hL : 0 < L) (u f : ℝ → ℝ) (hu : ContDiff ℝ 4 u) (M2 M4 : ℝ)
    (hf : ∀ y ∈ Icc 0 L, -(deriv (deriv u) y) = f y)
    (h2 : ∀ y ∈ Icc 0 L, |deriv (deriv u) y| ≤ M2)
    (h4 : ∀ y ∈ Icc 0 L, |iteratedDeriv 4 u y| ≤ M4)
    (x : CellFld ℝ) (hx : Solves M (dirichletBC (u 0) (u L)) (poissonTerms M f) x) :
    ∀ i, 1 ≤ i → i ≤ N →
      |x (i, 1, 1) - u (M.ax.cen i)| ≤ (M4 * L ^ 2 / 96 + 7 * M2 / 8) * (L / N) ^ 2 := by
  have hn : M.n .x = N := by simp [Mesh.n, Mesh.axis, hM.ax, mkAxisNL]
  have c1 := mem_cells_uniform1D hM 1 (by omega) (by omega)
  have cN := mem_cells_uniform1D hM N (by omega) (le_refl _)
  refine poisson_dirichlet_converges hM hN hL u f hu M2 M4 hf h2 h4 x
    (fun i h1 hN' => hx.interior_row (mem_cells_uniform1D hM i h1 hN')) ?_ ?_
  · have hb := hx.bcLo c1 (Kind.active_x _) rfl
    have := bcRowLo_dirichlet M _ .x (1, 1, 1) x rfl ⟨rfl, rfl⟩ hb
    rw [ghostLo_dirichletBC]
    exact congrArg some this.symm
  · have hb := hx.bcHi cN (Kind.active_x _) (by rw [hn]; rfl)
    have := bcRowHi_dirichlet M _ .x (N, 1, 1) x rfl ⟨rfl, rfl⟩ hb
    rw [hn] at this
    rw [ghostHi_dirichletBC]
    exact congrArg some this.symm

/-- the same with the ghost cells given by `withGhosts` (`cellValuesWithBoundaries`) -/
theorem poisson_dirichlet_converges_withGhosts {M : Mesh ℝ} {N : ℕ} {L : ℝ}
    (hM : IsUniform1D M N L)
    (hN : 2 ≤ N) (hL : 0 < L) (u f : ℝ → ℝ) (hu : ContDiff ℝ 4 u) (M2 M4 : ℝ)
    (hf : ∀ y ∈ Icc 0 L, -(deriv (deriv u) y) = f y)
    (h2 : ∀ y ∈ Icc 0 L, |deriv (deriv u) y| ≤ M2)
    (h4 : ∀ y ∈ Icc 0 L, |iteratedDeriv 4 u y| ≤ M4)
    (x : CellFld ℝ)
    (hrow : ∀ i, 1 ≤ i → i ≤ N →
      (sumRow (poissonTerms M f) (i, 1, 1)).app x (i, 1, 1) = sumRhs (poissonTerms M f) (i, 1, 1))
    (hg : ∀ c, withGhosts M (dirichletBC (u 0) (u L)) x c = some (x c)) :
    ∀ i, 1 ≤ i → i ≤ N →
      |x (i, 1, 1) - u (M.ax.cen i)| ≤ (M4 * L ^ 2 / 96 + 7 * M2 / 8) * (L / N) ^ 2 := by
  have hn : M.n .x = N := by simp [Mesh.n, Mesh.axis, hM.ax, mkAxisNL]
  have hnx : M.ax.n = N := by rw [hM.ax]; rfl
  refine poisson_dirichlet_converges hM hN hL u f hu M2 M4 hf h2 h4 x hrow ?_ ?_
  · have := hg (0, 1, 1)
    simpa [withGhosts, Mesh.outCount, Mesh.outDir, hM.kind, Kind.active, Kind.dim, Idx.get,
      Idx.set] using this
  · have := hg (N + 1, 1, 1)
    have e0 : ¬ (N + 1 = 0) := by omega
    simpa [withGhosts, Mesh.outCount, Mesh.outDir, hM.kind, Kind.active, Kind.dim, Idx.get,
      Idx.set, hnx, hn, e0] using this

/-- **Uniqueness of the discrete solution** (every `N`, every right-hand side and boundary data):
    two ghosted lines satisfying the same interior rows and Dirichlet ghost relations agree in
    every cell (the comparison principle with zero barrier) -/
theorem poisson_discrete_unique (N : ℕ) (h : ℝ) (hh : 0 < h) (gL gR : ℝ) (rhs xs ys : ℕ → ℝ)
    (hx : ∀ i, 1 ≤ i → i ≤ N → -((xs (i + 1) - 2 * xs i + xs (i - 1)) / h ^ 2) = rhs i)
    (hy : ∀ i, 1 ≤ i → i ≤ N → -((ys (i + 1) - 2 * ys i + ys (i - 1)) / h ^ 2) = rhs i)
    (hx0 : xs 0 = 2 * gL - xs 1) (hxN : xs (N + 1) = 2 * gR - xs N)
    (hy0 : ys 0 = 2 * gL - ys 1) (hyN : ys (N + 1) = 2 * gR - ys N) :
    ∀ i, 1 ≤ i → i ≤ N → xs i = ys i := by
  intro i hi1 hiN
  have := dirichlet_error_bound N h hh (fun j => xs j - ys j) (fun _ => 0) (fun _ => 0)
    (by
      intro j h1 hN'
      have a := hx j h1 hN'
      have b := hy j h1 hN'
      show -(xs (j + 1) - ys (j + 1) - 2 * (xs j - ys j) + (xs (j - 1) - ys (j - 1))) / h ^ 2 = 0
      have : -(xs (j + 1) - ys (j + 1) - 2 * (xs j - ys j) + (xs (j - 1) - ys (j - 1))) / h ^ 2
          = -((xs (j + 1) - 2 * xs j + xs (j - 1)) / h ^ 2)
            - -((ys (j + 1) - 2 * ys j + ys (j - 1)) / h ^ 2) := by ring
      rw [this, a, b, sub_self])
    (by intro j _ _; simp)
    (by show xs 0 - ys 0 = -(xs 1 - ys 1); rw [hx0, hy0]; ring)
    (by show xs (N + 1) - ys (N + 1) = -(xs N - ys N); rw [hxN, hyN]; ring)
    (by simp) (by simp) i hi1 hiN
  have h0 : |xs i - ys i| ≤ 0 := this
  have := abs_nonpos_iff.1 h0
  linarith

/-- **Existence of the discrete solution** for every `N ≥ 1`, every right-hand side and boundary
    data (by shooting: a particular solution plus a multiple of the homogeneous solution `2i − 1`);
    together with `poisson_discrete_unique` the discrete problem is uniquely solvable -/
theorem poisson_discrete_exists (N : ℕ) (hN : 1 ≤ N) (h : ℝ) (hh : 0 < h) (gL gR : ℝ)
    (rhs : ℕ → ℝ) :
    ∃ xs : ℕ → ℝ,
      (∀ i, 1 ≤ i → i ≤ N → -((xs (i + 1) - 2 * xs i + xs (i - 1)) / h ^ 2) = rhs i) ∧
      xs 0 = 2 * gL - xs 1 ∧ xs (N + 1) = 2 * gR - xs N :=
  ⟨discreteSol N gL gR h rhs, discreteSol_spec N hN gL gR h hh rhs⟩

/-- … and on the model's mesh: for every `N ≥ 1`, every source `f` and Dirichlet data there is a
    ghosted field satisfying the model's interior rows and ghost relations (the hypotheses of
    `poisson_dirichlet_converges`) -/
theorem poisson_model_solution_exists {M : Mesh ℝ} {N : ℕ} {L : ℝ} (hM : IsUniform1D M N L)
    (hN : 1 ≤ N) (hL : 0 < L) (f : ℝ → ℝ) (gL gR : ℝ) :
    ∃ x : CellFld ℝ,
      (∀ i, 1 ≤ i → i ≤ N →
        (sumRow (poissonTerms M f) (i, 1, 1)).app x (i, 1, 1)
          = sumRhs (poissonTerms M f) (i, 1, 1)) ∧
      ghostLo M (dirichletBC gL gR) x .x (1, 1, 1) = some (x (0, 1, 1)) ∧
      ghostHi M (dirichletBC gL gR) x .x (N, 1, 1) = some (x (N + 1, 1, 1)) := by
  have hNpos : (0 : ℝ) < N := by exact_mod_cast (by omega : 0 < N)
  have hh : 0 < L / (N : ℝ) := div_pos hL hNpos
  obtain ⟨hr, hl, hhi⟩ := discreteSol_spec N hN gL gR (L / N) hh
    (fun i => f ((mkAxisNL N L).cen i))
  refine ⟨fun c => discreteSol N gL gR (L / N) (fun i => f ((mkAxisNL N L).cen i)) c.1,
    ?_, ?_, ?_⟩
  · intro i h1 hN'
    rw [sumRow_poissonTerms_app, sumRhs_poissonTerms, diffusionRow_uniform1D_app hM hN hL, hM.ax]
    exact hr i h1 hN'
  · rw [ghostLo_dirichletBC]
    exact congrArg some hl.symm
  · rw [ghostHi_dirichletBC]
    exact congrArg some hhi.symm

/-! ## Part D — one backward-Euler step of `v_t = v_xx + s` (first order in time, second in space) -/

/-- **A5.** backward difference quotient: `|(g(t+dt) − g(t))/dt − g'(t+dt)| ≤ Mtt dt/2` -/
theorem backward_difference_error {g : ℝ → ℝ} (hg : ContDiff ℝ 2 g) (a b Mtt : ℝ)
    (hb : ∀ y ∈ Icc a b, |deriv (deriv g) y| ≤ Mtt) (t dt : ℝ) (hdt : 0 < dt)
    (hlo : a ≤ t) (hhi : t + dt ≤ b) :
    |(g (t + dt) - g t) / dt - deriv g (t + dt)| ≤ Mtt * dt / 2 := by
  have hm : t + dt ∈ Icc a b := ⟨by linarith, hhi⟩
  have R := taylor2_bound hg (t + dt) (-dt) Mtt
    (fun y hy => hb y (uIcc_subset_Icc hm ⟨by linarith, by linarith⟩ hy))
  rw [show t + dt + -dt = t by ring, show (-dt) ^ 2 = dt ^ 2 by ring] at R
  have key : (g (t + dt) - g t) / dt - deriv g (t + dt)
      = -(g t - (g (t + dt) + -dt * deriv g (t + dt))) / dt := by
    field_simp
    ring
  rw [key, abs_div, abs_neg, abs_of_pos hdt, div_le_iff₀ hdt]
  calc _ ≤ _ := R
    _ = Mtt * dt / 2 * dt := by ring

/-- the temporal truncation bound `Tt = Mtt·dt/2` of `transient_step_error` from the PDE:
    `V(x, t)` is `C²` in `t` at the point `y` with `|V_tt| ≤ Mtt` on `[t, t+dt]`, and
    `V_t = V_xx + s` holds at `(y, t+dt)` -/
theorem temporal_truncation_of_pde (V : ℝ → ℝ → ℝ) (s : ℝ → ℝ) (y t dt Mtt : ℝ) (hdt : 0 < dt)
    (hg : ContDiff ℝ 2 (fun τ => V y τ))
    (hb : ∀ τ ∈ Icc t (t + dt), |deriv (deriv (fun τ => V y τ)) τ| ≤ Mtt)
    (hpde : deriv (fun τ => V y τ) (t + dt) = deriv (deriv (fun x => V x (t + dt))) y + s y) :
    |(V y (t + dt) - V y t) / dt - (deriv (deriv (fun x => V x (t + dt))) y + s y)|
      ≤ Mtt * dt / 2 := by
  rw [← hpde]
  exact backward_difference_error hg t (t + dt) Mtt hb t dt hdt (le_refl _) (le_refl _)

/-- **One backward-Euler step on the ghosted line** (`transient_step_error`).
    `vnew`, `vold`: the exact solution at the new and the old time level (`vnew ∈ C⁴` in space,
    `|vnew''| ≤ M2`, `|vnew⁗| ≤ M4` on `[0, L]`); `Tt` bounds the temporal truncation error
    `(vnew − vold)/dt − (vnew'' + s)` on `[0, L]` (`= Mtt·dt/2` by `backward_difference_error` when
    `v_t = v_xx + s` at the new time).  `xs`, `xo`: new and old discrete values with
    `(xs_i − xo_i)/dt − δ²xs_i/h² = s(x_i)` and the Dirichlet ghost relations.  With the barrier
    `w_i = (M4 h²/12)·x_i(L−x_i)/2 + (7 M2/4)·h²/2 ≤ (M4 L²/96 + 7 M2/8) h²`:
    old error `≤ w + E`  ⇒  new error `≤ w + E + dt·Tt`. -/
theorem transient_step_error (N : ℕ) (hN : 2 ≤ N) (L : ℝ) (hL : 0 < L) (dt : ℝ) (hdt : 0 < dt)
    (vnew vold s : ℝ → ℝ) (hv : ContDiff ℝ 4 vnew) (M2 M4 Tt E : ℝ) (hE : 0 ≤ E)
    (h2 : ∀ y ∈ Icc 0 L, |deriv (deriv vnew) y| ≤ M2)
    (h4 : ∀ y ∈ Icc 0 L, |iteratedDeriv 4 vnew y| ≤ M4)
    (htime : ∀ y ∈ Icc 0 L, |(vnew y - vold y) / dt - (deriv (deriv vnew) y + s y)| ≤ Tt)
    (xs xo : ℕ → ℝ)
    (hrow : ∀ i, 1 ≤ i → i ≤ N →
      (xs i - xo i) / dt - (xs (i + 1) - 2 * xs i + xs (i - 1)) / (L / N) ^ 2
        = s ((mkAxisNL N L).cen i))
    (hlo : xs 0 = 2 * vnew 0 - xs 1) (hhi : xs (N + 1) = 2 * vnew L - xs N)
    (hold : ∀ i, 1 ≤ i → i ≤ N → |xo i - vold ((mkAxisNL N L).cen i)|
      ≤ barrier N L (M4 * (L / N) ^ 2 / 12) (7 * M2 / 4) i + E) :
    ∀ i, 1 ≤ i → i ≤ N → |xs i - vnew ((mkAxisNL N L).cen i)|
      ≤ barrier N L (M4 * (L / N) ^ 2 / 12) (7 * M2 / 4) i + E + dt * Tt := by
  have h0mem : (0 : ℝ) ∈ Icc 0 L := ⟨le_refl _, hL.le⟩
  have hM4 : 0 ≤ M4 := le_trans (abs_nonneg _) (h4 0 h0mem)
  have hTt : 0 ≤ Tt := le_trans (abs_nonneg _) (htime 0 h0mem)
  have hv2 : ContDiff ℝ 2 vnew := hv.of_le (by norm_num)
  intro i hi1 hiN
  have := heat_step_error N hN L hL dt hdt (M4 * (L / N) ^ 2 / 12) (7 * M2 / 4) Tt E
    (by positivity) hE hTt
    (fun j => xs j - refSol N L vnew j) (fun j => xo j - vold ((mkAxisNL N L).cen j))
    (fun j => (refSol N L vnew (j + 1) - 2 * refSol N L vnew j + refSol N L vnew (j - 1))
        / (L / N) ^ 2 - deriv (deriv vnew) ((mkAxisNL N L).cen j))
    (fun j => deriv (deriv vnew) ((mkAxisNL N L).cen j) + s ((mkAxisNL N L).cen j)
        - (vnew ((mkAxisNL N L).cen j) - vold ((mkAxisNL N L).cen j)) / dt)
    (by
      intro j h1 hN'
      have r := hrow j h1 hN'
      show (xs j - refSol N L vnew j - (xo j - vold ((mkAxisNL N L).cen j))) / dt
        + -(xs (j + 1) - refSol N L vnew (j + 1) - 2 * (xs j - refSol N L vnew j)
            + (xs (j - 1) - refSol N L vnew (j - 1))) / (L / N) ^ 2
        = (refSol N L vnew (j + 1) - 2 * refSol N L vnew j + refSol N L vnew (j - 1))
            / (L / N) ^ 2 - deriv (deriv vnew) ((mkAxisNL N L).cen j)
          + (deriv (deriv vnew) ((mkAxisNL N L).cen j) + s ((mkAxisNL N L).cen j)
            - (vnew ((mkAxisNL N L).cen j) - vold ((mkAxisNL N L).cen j)) / dt)
      rw [refSol_interior N L vnew j h1 hN']
      linear_combination r)
    (by
      show xs 0 - refSol N L vnew 0 = -(xs 1 - refSol N L vnew 1)
      rw [refSol_zero, refSol_interior N L vnew 1 (by omega) (by omega), hlo]; ring)
    (by
      show xs (N + 1) - refSol N L vnew (N + 1) = -(xs N - refSol N L vnew N)
      rw [refSol_last, refSol_interior N L vnew N (by omega) (by omega), hhi]; ring)
    (fun j hj2 hjN => reference_truncation_interior N L hL hv M4 h4 j hj2 hjN)
    (reference_truncation_boundary N hN L hL hv2 M2 h2 1 (Or.inl rfl))
    (reference_truncation_boundary N hN L hL hv2 M2 h2 N (Or.inr rfl))
    (fun j h1 hN' => by
      show |deriv (deriv vnew) ((mkAxisNL N L).cen j) + s ((mkAxisNL N L).cen j)
        - (vnew ((mkAxisNL N L).cen j) - vold ((mkAxisNL N L).cen j)) / dt| ≤ Tt
      rw [abs_sub_comm]
      exact htime _ (cenNL_mem N L hL j h1 hN'))
    hold i hi1 hiN
  rwa [refSol_interior N L vnew i hi1 hiN] at this

/-- the barrier of `transient_step_error` is between `0` and `(M4 L²/96 + 7 M2/8) h²` -/
theorem barrier_bounds (N : ℕ) (L : ℝ) (hL : 0 < L) (M2 M4 : ℝ) (hM2 : 0 ≤ M2) (hM4 : 0 ≤ M4)
    (i : ℕ) (hi1 : 1 ≤ i) (hiN : i ≤ N) :
    0 ≤ barrier N L (M4 * (L / N) ^ 2 / 12) (7 * M2 / 4) i ∧
    barrier N L (M4 * (L / N) ^ 2 / 12) (7 * M2 / 4) i
      ≤ (M4 * L ^ 2 / 96 + 7 * M2 / 8) * (L / N) ^ 2 := by
  rw [barrier_interior N L _ _ i hi1 hiN]
  constructor
  · obtain ⟨a, b⟩ := cenNL_mem N L hL i hi1 hiN
    unfold barrierAt
    have : 0 ≤ (mkAxisNL N L).cen i * (L - (mkAxisNL N L).cen i) :=
      mul_nonneg a (by linarith)
    positivity
  · calc _ ≤ _ := barrierAt_le _ _ _ _ _ (by positivity)
      _ = (M4 * L ^ 2 / 96 + 7 * M2 / 8) * (L / N) ^ 2 := by ring

/-- **`n` backward-Euler steps: first order in time, second order in space.**
    `v n` is the exact solution at time level `n`, `s n` the source there, `xs n` the discrete
    values (ghosted line); every step satisfies the row and ghost relations of
    `transient_step_error`, the temporal truncation is bounded by `Tt` (`= Mtt·dt/2`), the initial
    values are within `E0`.  Then for every `n` and every cell
    `|xs n i − v n (x_i)| ≤ (M4 L²/96 + 7 M2/8) h² + E0 + (n·dt)·Tt`. -/
theorem heat_backward_euler_converges (N : ℕ) (hN : 2 ≤ N) (L : ℝ) (hL : 0 < L) (dt : ℝ)
    (hdt : 0 < dt) (v s : ℕ → ℝ → ℝ) (hv : ∀ n, ContDiff ℝ 4 (v (n + 1))) (M2 M4 Tt E0 : ℝ)
    (hM2 : 0 ≤ M2) (hM4 : 0 ≤ M4) (hTt : 0 ≤ Tt) (hE : 0 ≤ E0)
    (h2 : ∀ n, ∀ y ∈ Icc 0 L, |deriv (deriv (v (n + 1))) y| ≤ M2)
    (h4 : ∀ n, ∀ y ∈ Icc 0 L, |iteratedDeriv 4 (v (n + 1)) y| ≤ M4)
    (htime : ∀ n, ∀ y ∈ Icc 0 L,
      |(v (n + 1) y - v n y) / dt - (deriv (deriv (v (n + 1))) y + s (n + 1) y)| ≤ Tt)
    (xs : ℕ → ℕ → ℝ)
    (hrow : ∀ n i, 1 ≤ i → i ≤ N →
      (xs (n + 1) i - xs n i) / dt
        - (xs (n + 1) (i + 1) - 2 * xs (n + 1) i + xs (n + 1) (i - 1)) / (L / N) ^ 2
        = s (n + 1) ((mkAxisNL N L).cen i))
    (hlo : ∀ n, xs (n + 1) 0 = 2 * v (n + 1) 0 - xs (n + 1) 1)
    (hhi : ∀ n, xs (n + 1) (N + 1) = 2 * v (n + 1) L - xs (n + 1) N)
    (hinit : ∀ i, 1 ≤ i → i ≤ N → |xs 0 i - v 0 ((mkAxisNL N L).cen i)| ≤ E0) :
    ∀ n i, 1 ≤ i → i ≤ N → |xs n i - v n ((mkAxisNL N L).cen i)|
      ≤ (M4 * L ^ 2 / 96 + 7 * M2 / 8) * (L / N) ^ 2 + E0 + (n * dt) * Tt := by
  have key : ∀ n i, 1 ≤ i → i ≤ N → |xs n i - v n ((mkAxisNL N L).cen i)|
      ≤ barrier N L (M4 * (L / N) ^ 2 / 12) (7 * M2 / 4) i + (E0 + n * (dt * Tt)) := by
    intro n
    induction n with
    | zero =>
      intro i h1 hN'
      have b := (barrier_bounds N L hL M2 M4 hM2 hM4 i h1 hN').1
      have := hinit i h1 hN'
      simp only [Nat.cast_zero, zero_mul, add_zero]
      linarith
    | succ n ih =>
      intro i h1 hN'
      have hc : 0 ≤ (n : ℝ) * (dt * Tt) :=
        mul_nonneg (Nat.cast_nonneg n) (mul_nonneg hdt.le hTt)
      have := transient_step_error N hN L hL dt hdt (v (n + 1)) (v n) (s (n + 1)) (hv n) M2 M4 Tt
        (E0 + n * (dt * Tt)) (by linarith) (h2 n) (h4 n) (htime n) (xs (n + 1)) (xs n)
        (hrow n) (hlo n) (hhi n) ih i h1 hN'
      rw [Nat.cast_succ]
      linarith
  intro n i h1 hN'
  have b := (barrier_bounds N L hL M2 M4 hM2 hM4 i h1 hN').2
  have := key n i h1 hN'
  linarith

/-- one backward-Euler step of the MODEL: `x` satisfies the accumulated interior rows of
    `[transientTerm(old, dt, 1), -diffusionTerm(1), constantSourceTerm(s(x_c))]` and the model's
    Dirichlet ghost values; then the conclusion of `transient_step_error` holds for the cell
    values -/
theorem transient_step_error_model {M : Mesh ℝ} {N : ℕ} {L : ℝ} (hM : IsUniform1D M N L)
    (hN : 2 ≤ N) (hL : 0 < L) (dt : ℝ) (hdt : 0 < dt)
    (vnew vold s : ℝ → ℝ) (hv : ContDiff ℝ 4 vnew) (M2 M4 Tt E : ℝ) (hE : 0 ≤ E)
    (h2 : ∀ y ∈ Icc 0 L, |deriv (deriv vnew) y| ≤ M2)
    (h4 : ∀ y ∈ Icc 0 L, |iteratedDeriv 4 vnew y| ≤ M4)
    (htime : ∀ y ∈ Icc 0 L, |(vnew y - vold y) / dt - (deriv (deriv vnew) y + s y)| ≤ Tt)
    (x old : CellFld ℝ)
    (hrow : ∀ i, 1 ≤ i → i ≤ N →
      (sumRow (heatTerms M old dt s) (i, 1, 1)).app x (i, 1, 1)
        = sumRhs (heatTerms M old dt s) (i, 1, 1))
    (hlo : ghostLo M (dirichletBC (vnew 0) (vnew L)) x .x (1, 1, 1) = some (x (0, 1, 1)))
    (hhi : ghostHi M (dirichletBC (vnew 0) (vnew L)) x .x (N, 1, 1) = some (x (N + 1, 1, 1)))
    (hold : ∀ i, 1 ≤ i → i ≤ N → |old (i, 1, 1) - vold (M.ax.cen i)|
      ≤ barrier N L (M4 * (L / N) ^ 2 / 12) (7 * M2 / 4) i + E) :
    ∀ i, 1 ≤ i → i ≤ N → |x (i, 1, 1) - vnew (M.ax.cen i)|
      ≤ barrier N L (M4 * (L / N) ^ 2 / 12) (7 * M2 / 4) i + E + dt * Tt := by
  rw [hM.ax]
  rw [hM.ax] at hold
  refine transient_step_error N hN L hL dt hdt vnew vold s hv M2 M4 Tt E hE h2 h4 htime
    (fun i => x (i, 1, 1)) (fun i => old (i, 1, 1)) ?_ ?_ ?_ ?_
  · intro i h1 hN'
    have := hrow i h1 hN'
    rw [sumRow_heatTerms_app, sumRhs_heatTerms, diffusionRow_uniform1D_app hM (by omega) hL,
      hM.ax] at this
    rw [sub_div]
    linarith
  · rw [ghostLo_dirichletBC] at hlo
    exact (Option.some.inj hlo).symm
  · rw [ghostHi_dirichletBC] at hhi
    exact (Option.some.inj hhi).symm
  · exact hold

/-! ## Non-vacuity -/

/-- Part A with a concrete function: `u = x⁴` (`u⁗ = 24`), any `x`, any `h > 0` -/
example (x h : ℝ) (hh : 0 < h) :
    |((x + h) ^ 4 - 2 * x ^ 4 + (x - h) ^ 4) / h ^ 2 - 12 * x ^ 2| ≤ 24 * h ^ 2 / 12 := by
  have := second_difference_error quartic_contDiff (x - h) (x + h) 24
    (fun y _ => by rw [quartic_deriv4]; norm_num) x h hh (le_refl _) (le_refl _)
  rwa [quartic_deriv2] at this

/-- Part B on a concrete mesh for every `N`: the exact solution sampled at the cell centres of
    `uniMesh N L`, any cell `2 ≤ i ≤ N − 1` -/
example (N : ℕ) (L : ℝ) (hL : 0 < L) (i : ℕ) (h2 : 2 ≤ i) (hN : i + 1 ≤ N) :
    |(diffusionRow (uniMesh N L) oneFace (i, 1, 1)).app
        (fun c => ((uniMesh N L).ax.cen c.1) ^ 4) (i, 1, 1)
      - 12 * ((uniMesh N L).ax.cen i) ^ 2| ≤ 24 * (L / N) ^ 2 / 12 := by
  have := diffusionRow_consistent (uniMesh_isUniform N L) hL quartic_contDiff 24
    (fun y _ => by rw [quartic_deriv4]; norm_num) (fun c => ((uniMesh N L).ax.cen c.1) ^ 4)
    i 1 1 h2 hN (fun _ _ _ => rfl)
  rwa [quartic_deriv2] at this

/-- the uniform mesh is a well-formed mesh of the model -/
example (N : ℕ) (L : ℝ) (hN : 1 ≤ N) (hL : 0 < L) : (uniMesh N L).WF := uniMesh_WF N L hN hL

/-- the analytic hypotheses of Part C are satisfiable for every `L`: `u = x⁴`, `f = −12x²`,
    `M2 = 12 L²`, `M4 = 24` -/
example (L : ℝ) :
    ContDiff ℝ 4 (fun t : ℝ => t ^ 4) ∧
    (∀ y ∈ Icc 0 L, -(deriv (deriv (fun t : ℝ => t ^ 4)) y) = (fun t => -(12 * t ^ 2)) y) ∧
    (∀ y ∈ Icc 0 L, |deriv (deriv (fun t : ℝ => t ^ 4)) y| ≤ 12 * L ^ 2) ∧
    (∀ y ∈ Icc 0 L, |iteratedDeriv 4 (fun t : ℝ => t ^ 4) y| ≤ 24) := by
  refine ⟨quartic_contDiff, fun y _ => by rw [quartic_deriv2], fun y hy => ?_, fun y _ => ?_⟩
  · rw [quartic_deriv2, abs_of_nonneg (by positivity)]
    have : y ^ 2 ≤ L ^ 2 := pow_le_pow_left₀ hy.1 hy.2 2
    linarith
  · rw [quartic_deriv4]; norm_num

/-- **The discrete solution exists and the main theorem applies to it** (`N = 2`, `L = 1`,
    `u = x⁴`): `quarticSol` solves the system the model assembles (`Solves`: interior rows and
    boundary rows), hence its cell values are within `(24/96 + 7·12/8)·(1/2)²` of `u(x_c)`. -/
example :
    Solves (uniMesh 2 (1 : ℝ)) (dirichletBC ((fun t : ℝ => t ^ 4) 0) ((fun t : ℝ => t ^ 4) 1))
      (poissonTerms (uniMesh 2 (1 : ℝ)) (fun t => -(12 * t ^ 2))) quarticSol ∧
    ∀ i, 1 ≤ i → i ≤ 2 →
      |quarticSol (i, 1, 1) - ((uniMesh 2 (1 : ℝ)).ax.cen i) ^ 4|
        ≤ (24 * (1 : ℝ) ^ 2 / 96 + 7 * 12 / 8) * (1 / (2 : ℕ)) ^ 2 :=
  ⟨quarticSol_solves,
   poisson_dirichlet_converges_solves (uniMesh_isUniform 2 1) (le_refl 2) one_pos
    (fun t => t ^ 4) (fun t => -(12 * t ^ 2)) quartic_contDiff 12 24
    (fun y _ => by rw [quartic_deriv2])
    (fun y hy => by
      rw [quartic_deriv2, abs_of_nonneg (by positivity)]
      have : y ^ 2 ≤ 1 ^ 2 := pow_le_pow_left₀ hy.1 hy.2 2
      linarith)
    (fun y _ => by rw [quartic_deriv4]; norm_num)
    quarticSol quarticSol_solves⟩

/-- … and the bound is about actual numbers: the computed value in cell 1 is `−1/32`, the exact
    one `(1/4)⁴ = 1/256`; the error `9/256` is indeed below the bound `43/16` -/
example : quarticSol (1, 1, 1) = -1 / 32 ∧ ((uniMesh 2 (1 : ℝ)).ax.cen 1) ^ 4 = 1 / 256 ∧
    |(-1 / 32 : ℝ) - 1 / 256| ≤ (24 * (1 : ℝ) ^ 2 / 96 + 7 * 12 / 8) * (1 / (2 : ℕ)) ^ 2 := by
  refine ⟨by norm_num [quarticSol], by norm_num [uniMesh, mkAxisNL], ?_⟩
  rw [abs_le]; constructor <;> norm_num

/-- Part D: the hypotheses of `transient_step_error_model` are satisfiable (steady state
    `vnew = vold = x⁴`, `s = −12x²`, `Tt = 0`, the discrete steady state `quarticSol` as old and
    new field, any `dt > 0`) -/
example (dt : ℝ) (hdt : 0 < dt) :
    ∀ i, 1 ≤ i → i ≤ 2 →
      |quarticSol (i, 1, 1) - ((uniMesh 2 (1 : ℝ)).ax.cen i) ^ 4|
        ≤ barrier 2 1 (24 * ((1 : ℝ) / (2 : ℕ)) ^ 2 / 12) (7 * 12 / 4) i
          + (24 * (1 : ℝ) ^ 2 / 96 + 7 * 12 / 8) * (1 / (2 : ℕ)) ^ 2 + dt * 0 := by
  have hM := uniMesh_isUniform 2 (1 : ℝ)
  have hb2 : ∀ y ∈ Icc (0 : ℝ) 1, |deriv (deriv (fun t : ℝ => t ^ 4)) y| ≤ 12 := fun y hy => by
    rw [quartic_deriv2, abs_of_nonneg (by positivity)]
    have : y ^ 2 ≤ 1 ^ 2 := pow_le_pow_left₀ hy.1 hy.2 2
    linarith
  have hb4 : ∀ y ∈ Icc (0 : ℝ) 1, |iteratedDeriv 4 (fun t : ℝ => t ^ 4) y| ≤ 24 :=
    fun y _ => by rw [quartic_deriv4]; norm_num
  have hconv := poisson_dirichlet_converges_solves hM (le_refl 2) one_pos
    (fun t => t ^ 4) (fun t => -(12 * t ^ 2)) quartic_contDiff 12 24
    (fun y _ => by rw [quartic_deriv2]) hb2 hb4 quarticSol quarticSol_solves
  refine transient_step_error_model hM (le_refl 2) one_pos dt hdt (fun t => t ^ 4)
    (fun t => t ^ 4) (fun t => -(12 * t ^ 2)) quartic_contDiff 12 24 0 _ (by norm_num) hb2 hb4
    (fun y _ => by rw [quartic_deriv2]; simp) quarticSol quarticSol ?_ ?_ ?_ ?_
  · intro i h1 hN
    have := quarticSol_solves.interior_row (mem_cells_uniform1D hM i h1 hN)
    rw [sumRow_poissonTerms_app, sumRhs_poissonTerms] at this
    rw [sumRow_heatTerms_app, sumRhs_heatTerms]
    linarith
  · have hb := quarticSol_solves.bcLo (mem_cells_uniform1D hM 1 (by omega) (by omega))
      (Kind.active_x _) rfl
    have := bcRowLo_dirichlet _ _ .x (1, 1, 1) quarticSol rfl ⟨rfl, rfl⟩ hb
    rw [ghostLo_dirichletBC]
    exact congrArg some this.symm
  · have hb := quarticSol_solves.bcHi (mem_cells_uniform1D hM 2 (by omega) (by omega))
      (Kind.active_x _) rfl
    have := bcRowHi_dirichlet _ _ .x (2, 1, 1) quarticSol rfl ⟨rfl, rfl⟩ hb
    rw [ghostHi_dirichletBC]
    exact congrArg some this.symm
  · intro i h1 hN
    have b := (barrier_bounds 2 1 one_pos 12 24 (by norm_num) (by norm_num) i h1 hN).1
    have := hconv i h1 hN
    linarith

/-- **Non-vacuity for every `N ≥ 2`**: with `u = x⁴` on `[0, 1]` a field satisfying all hypotheses
    of `poisson_dirichlet_converges` exists on `uniMesh N 1`, and it obeys the `O(h²)` bound -/
example (N : ℕ) (hN : 2 ≤ N) :
    ∃ x : CellFld ℝ,
      (∀ i, 1 ≤ i → i ≤ N →
        (sumRow (poissonTerms (uniMesh N (1 : ℝ)) (fun t => -(12 * t ^ 2))) (i, 1, 1)).app x
            (i, 1, 1)
          = sumRhs (poissonTerms (uniMesh N (1 : ℝ)) (fun t => -(12 * t ^ 2))) (i, 1, 1)) ∧
      (∀ i, 1 ≤ i → i ≤ N →
        |x (i, 1, 1) - ((uniMesh N (1 : ℝ)).ax.cen i) ^ 4|
          ≤ (24 * (1 : ℝ) ^ 2 / 96 + 7 * 12 / 8) * (1 / N) ^ 2) := by
  obtain ⟨x, hr, hl, hh⟩ := poisson_model_solution_exists (uniMesh_isUniform N (1 : ℝ))
    (by omega) one_pos (fun t => -(12 * t ^ 2)) ((fun t : ℝ => t ^ 4) 0) ((fun t : ℝ => t ^ 4) 1)
  exact ⟨x, hr, poisson_dirichlet_converges (uniMesh_isUniform N 1) hN one_pos
    (fun t => t ^ 4) (fun t => -(12 * t ^ 2)) quartic_contDiff 12 24
    (fun y _ => by rw [quartic_deriv2])
    (fun y hy => by
      rw [quartic_deriv2, abs_of_nonneg (by positivity)]
      have : y ^ 2 ≤ 1 ^ 2 := pow_le_pow_left₀ hy.1 hy.2 2
      linarith)
    (fun y _ => by rw [quartic_deriv4]; norm_num) x hr hl hh⟩

end PyFV.C02Conv
