/-
  PyFV.Props.Examples — concrete well-formed meshes over ℚ, used by every property file to
  show that its hypotheses are satisfiable (non-vacuity).
-/
import PyFV.Lemmas.WF
import Mathlib.Algebra.Order.Field.Rat

namespace PyFV.Examples
open PyFV

/-- non-uniform face positions 1, 2, 4, 7 (three cells, offset origin) -/
def f3 : ℕ → ℚ := fun i => if i = 0 then 1 else if i = 1 then 2 else if i = 2 then 4 else 7

theorem f3_incr : StrictIncr 3 f3 := by
  intro i hi
  have : i = 0 ∨ i = 1 ∨ i = 2 := by omega
  rcases this with rfl | rfl | rfl <;> norm_num [f3]

def ax3 : Axis ℚ := mkAxisFaces 3 f3
theorem ax3_WF : ax3.WF := mkAxisFaces_WF 3 f3 (by norm_num) f3_incr

theorem unit_incr : StrictIncr 1 (fun i => (i : ℚ)) := by
  intro i hi
  have : i = 0 := by omega
  subst this; norm_num

theorem unitAxis_WF : (unitAxis : Axis ℚ).WF := mkAxisFaces_WF 1 _ (by norm_num) unit_incr

/-- a 3-cell non-uniform mesh of any grid class (angles θ ∈ {1,2,4,7}·… are only parameters here;
    `sinC ≡ 1/2`, `π := 3` are positive placeholders: the operator theorems need positivity only) -/
def mesh (k : Kind) : Mesh ℚ :=
  { kind := k, ax := ax3,
    ay := if k.active .y then ax3 else unitAxis,
    az := if k.active .z then ax3 else unitAxis,
    sinC := fun _ => 1/2, sinF := fun _ => 1/3, cosF := fun _ => 1/4, pi := 3 }

theorem ax3_cen_pos (i : ℕ) (h1 : 1 ≤ i) (_ : i ≤ 3) : 0 < ax3.cen i := by
  simp only [ax3, mkAxisFaces]
  have : ∀ j, 0 < f3 j := by
    intro j; unfold f3; split_ifs <;> norm_num
  have a := this i; have b := this (i-1)
  positivity

theorem mesh_WF (k : Kind) : (mesh k).WF where
  wx := ax3_WF
  wy := by unfold mesh; simp only; split_ifs; exact ax3_WF; exact unitAxis_WF
  wz := by unfold mesh; simp only; split_ifs; exact ax3_WF; exact unitAxis_WF
  rpos := fun _ i h1 hn => ax3_cen_pos i h1 hn
  rf0 := by
    intro _ f _
    show 0 ≤ f3 f
    unfold f3; split_ifs <;> norm_num
  spos := by intro _ j _ _; norm_num [mesh]
  pipos := by norm_num [mesh]

/-- the cell (1,1,1) is interior in every example mesh -/
theorem interior_111 (k : Kind) : (mesh k).interior (1, 1, 1) := by
  unfold Mesh.interior mesh
  refine ⟨le_refl _, by norm_num [ax3, mkAxisFaces], le_refl _, ?_, le_refl _, ?_⟩ <;>
  · simp only; split_ifs <;> norm_num [ax3, mkAxisFaces, unitAxis]

end PyFV.Examples
