/-
  Property C06 — uniform fields stay uniform: constants are diffusion-free and advect as
  c·div(u); sources act cell-locally.
-/
import PyFV.Lemmas.Operators
import PyFV.Lemmas.WF
import PyFV.Props.Examples

set_option linter.unusedSectionVars false

namespace PyFV.C06
open PyFV

variable {α : Type} [Field α] [LinearOrder α] [IsStrictOrderedRing α]

/-- the diffusion term of a constant field is zero — on every mesh, well-formed or not -/
theorem diffusion_const (M : Mesh α) (D : FaceFld α) (k : α) (c : Idx) :
    (diffusionRow M D c).app (fun _ => k) c = 0 := by
  unfold diffusionRow
  rw [St7.ofDirs_app]
  rw [sumDirs_congr _ _ (fun _ => (0 : α)) (fun d _ => diffSt_const M D k d c), sumDirs_zero]

/-- central advection of a constant `k` = `k · divergenceTerm(u)` -/
theorem convection_const (M : Mesh α) (hM : M.WF) (u : FaceFld α) (k : α) (c : Idx)
    (hc : M.interior c) :
    (convectionRow M u c).app (fun _ => k) c = k * divergence M u c := by
  unfold convectionRow divergence
  rw [St7.ofDirs_app, ← sumDirs_mul]
  exact sumDirs_congr _ _ _ (fun d hd => convSt_const M u k d c (lineOK_of_WF hM hd hc))

/-- upwind advection of a constant `k` = `k · divergenceTerm(u)`, whatever the velocity signs -/
theorem upwind_const (M : Mesh α) (hM : M.WF) (u uUp : FaceFld α) (hU : UpOK u uUp) (k : α)
    (c : Idx) (hc : M.interior c) :
    (upwindRow M u uUp c).app (fun _ => k) c = k * divergence M u c := by
  unfold upwindRow divergence
  rw [St7.ofDirs_app, ← sumDirs_mul]
  exact sumDirs_congr _ _ _ (fun d hd =>
    upwindSt_const M u uUp k d c (lineOK_of_WF hM hd hc) (Mesh.interior_get hc d).2 hU)

/-- the TVD correction of a constant field is zero for every limiter (also at the
    `0/0`-looking gradient ratios: the correction is multiplied by the zero difference) -/
theorem tvd_const (M : Mesh α) (u uUp : FaceFld α) (FL : α → α) (e k : α) (c : Idx) :
    tvdRHS M u uUp FL e (fun _ => k) c = 0 := by
  unfold tvdRHS divergence divD
  simp [tvdFlux_const, sumDirs]

/-- hence: in a discretely divergence-free velocity field a constant field is annihilated by
    central and upwind advection and by diffusion -/
theorem uniform_is_steady_interior (M : Mesh α) (hM : M.WF) (D u : FaceFld α) (k : α) (c : Idx)
    (hc : M.interior c) (hdiv : divergence M u c = 0) :
    (diffusionRow M D c).app (fun _ => k) c = 0 ∧
    (convectionRow M u c).app (fun _ => k) c = 0 ∧
    (upwindRow M u u c).app (fun _ => k) c = 0 := by
  refine ⟨diffusion_const M D k c, ?_, ?_⟩
  · rw [convection_const M hM u k c hc, hdiv, mul_zero]
  · rw [upwind_const M hM u u (upOK_self u) k c hc, hdiv, mul_zero]

/-- sources are cell-local: `β φ = γ` alone is solved by `φ = γ/β` cell by cell -/
theorem source_local (β γ : CellFld α) (c : Idx) (hβ : β c ≠ 0) (x : CellFld α) :
    (linearSrcRow β c).app x c = constSrcRHS γ c ↔ x c = γ c / β c := by
  simp only [linearSrcRow, St7.diag, St7.app, constSrcRHS, zero_mul, add_zero]
  constructor
  · intro h; field_simp; linarith [h]
  · intro h; rw [h]; field_simp

/-- transient term with a uniform old field and a uniform new field of the same value balances -/
theorem transient_const (dt : α) (hdt : dt ≠ 0) (alpha : CellFld α) (k : α) (c : Idx) :
    (transientRow dt alpha c).app (fun _ => k) c = transientRHS (fun _ => k) dt alpha c := by
  simp only [transientRow, transientRHS, St7.diag, St7.app, zero_mul, add_zero]
  field_simp

example (k : Kind) : (Examples.mesh k).WF ∧ (Examples.mesh k).interior (1, 1, 1) :=
  ⟨Examples.mesh_WF k, Examples.interior_111 k⟩

end PyFV.C06
